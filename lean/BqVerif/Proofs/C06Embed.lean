/-
`apply_right` / `apply_left` / `eval_apply_*` / `StateVector.apply` are multiplication by
the embedded matrix `embed M loc` (defined digit-wise with the indicator on the untouched
digits), for any radixes and any order of `loc`.
-/
import BqVerif.Proofs.C06Contract
import Mathlib.Algebra.BigOperators.Group.Finset.Basic
import Mathlib.Algebra.BigOperators.Ring.Finset
import Mathlib.Data.List.Perm.Lattice

set_option linter.unusedSectionVars false

namespace BqVerif.Tensor

/-! ### digit surgery -/

theorem isLocation_iff {loc : List Nat} {n : Nat} :
    isLocation loc n = true ↔ (∀ q ∈ loc, q < n) ∧ loc.Nodup := by
  simp [isLocation]

theorem mem_rest {n : Nat} {loc : List Nat} {a : Nat} : a ∈ rest n loc ↔ a < n ∧ a ∉ loc := by
  simp [rest]

theorem nodup_rest (n : Nat) (loc : List Nat) : (rest n loc).Nodup :=
  List.Nodup.filter _ List.nodup_range

theorem isPerm_of_nodup_mem {p : List Nat} {n : Nat} (hnd : p.Nodup) (hmem : ∀ a, a ∈ p ↔ a < n) :
    isPerm p n = true := by
  rw [isPerm_iff]
  exact (List.perm_ext_iff_of_nodup hnd List.nodup_range).2 (fun a => by simp [hmem a])

theorem isPerm_loc_rest {loc : List Nat} {n : Nat} (h : isLocation loc n = true) :
    isPerm (loc ++ rest n loc) n = true := by
  obtain ⟨hlt, hnd⟩ := isLocation_iff.1 h
  apply isPerm_of_nodup_mem
  · rw [List.nodup_append]
    refine ⟨hnd, nodup_rest _ _, ?_⟩
    intro a ha b hb hab
    subst hab
    exact (mem_rest.1 hb).2 ha
  · intro a
    simp only [List.mem_append, mem_rest]
    constructor
    · rintro (ha | ha)
      · exact hlt a ha
      · exact ha.1
    · intro ha
      by_cases hm : a ∈ loc
      · exact Or.inl hm
      · exact Or.inr ⟨ha, hm⟩

theorem isPerm_rest_loc {loc : List Nat} {n : Nat} (h : isLocation loc n = true) :
    isPerm (rest n loc ++ loc) n = true := by
  have := isPerm_loc_rest h
  rw [isPerm_iff] at this ⊢
  exact List.perm_append_comm.trans this

/-- `p ++ [n, …, 2n-1]` is a permutation of `range (2n)` when `p` is one of `range n`. -/
theorem isPerm_append_shift {p : List Nat} {n : Nat} (h : isPerm p n = true) :
    isPerm (p ++ (List.range n).map (· + n)) (n + n) = true := by
  apply isPerm_of_nodup_mem
  · rw [List.nodup_append]
    refine ⟨isPerm_nodup h, ?_, ?_⟩
    · exact List.Nodup.map (fun a b hab => by simpa using hab) List.nodup_range
    · intro a ha b hb hab
      subst hab
      have := (isPerm_mem h a).1 ha
      obtain ⟨x, _, hx⟩ := List.mem_map.1 hb
      omega
  · intro a
    simp only [List.mem_append, isPerm_mem h, List.mem_map, List.mem_range]
    constructor
    · rintro (ha | ⟨x, hx, rfl⟩) <;> omega
    · intro ha
      by_cases h1 : a < n
      · exact Or.inl h1
      · exact Or.inr ⟨a - n, by omega, by omega⟩

/-- `range n ++ [q + n | q ∈ p]`. -/
theorem isPerm_range_shift {p : List Nat} {n : Nat} (h : isPerm p n = true) :
    isPerm (List.range n ++ p.map (· + n)) (n + n) = true := by
  apply isPerm_of_nodup_mem
  · rw [List.nodup_append]
    refine ⟨List.nodup_range, ?_, ?_⟩
    · exact List.Nodup.map (fun a b hab => by simpa using hab) (isPerm_nodup h)
    · intro a ha b hb hab
      subst hab
      have := List.mem_range.1 ha
      obtain ⟨x, _, hx⟩ := List.mem_map.1 hb
      omega
  · intro a
    simp only [List.mem_append, List.mem_map, List.mem_range]
    constructor
    · rintro (ha | ⟨x, hx, rfl⟩)
      · omega
      · have := (isPerm_mem h x).1 hx; omega
    · intro ha
      by_cases h1 : a < n
      · exact Or.inl h1
      · exact Or.inr ⟨a - n, (isPerm_mem h _).2 (by omega), by omega⟩

theorem getD_put {idx pos ds : List Nat} {a : Nat} (ha : a < idx.length) :
    (put idx pos ds).getD a 0 =
      if a ∈ pos then ds.getD (pos.idxOf a) 0 else idx.getD a 0 := by
  unfold put
  rw [getD_map_range ha]
  simp

/-- (D1) reading back the overwritten digits. -/
theorem pick_put_self {idx loc ds : List Nat} (hnd : loc.Nodup) (hlt : ∀ q ∈ loc, q < idx.length)
    (hds : ds.length = loc.length) : pick (put idx loc ds) loc = ds := by
  apply ext_getD
  · simp [length_pick, hds]
  · intro k hk
    rw [length_pick] at hk
    have hq : loc.getD k 0 ∈ loc := by
      simp [List.getD_eq_getElem?_getD, hk]
    rw [getD_pick hk, getD_put (hlt _ hq), if_pos hq]
    congr 1
    have : loc.getD k 0 = loc[k] := by simp [List.getD_eq_getElem?_getD, hk]
    rw [this]
    exact List.Nodup.idxOf_getElem hnd k hk

/-- (D2) the other digits are untouched. -/
theorem pick_put_other {idx loc ds others : List Nat} (hlt : ∀ q ∈ others, q < idx.length)
    (hdisj : ∀ q ∈ others, q ∉ loc) : pick (put idx loc ds) others = pick idx others := by
  apply ext_getD
  · simp [length_pick]
  · intro k hk
    rw [length_pick] at hk
    have hq : others.getD k 0 ∈ others := by
      simp [List.getD_eq_getElem?_getD, hk]
    rw [getD_pick hk, getD_pick hk, getD_put (hlt _ hq), if_neg (hdisj _ hq)]

/-- (D3) a digit string that agrees with `idx` off `loc` is `idx` with its own `loc`
digits written in. -/
theorem put_pick_eq {idx kd loc : List Nat} (hlen : kd.length = idx.length)
    (hagree : ∀ a, a < idx.length → a ∉ loc → kd.getD a 0 = idx.getD a 0) :
    put idx loc (pick kd loc) = kd := by
  apply ext_getD
  · simp [length_put, hlen]
  · intro a ha
    rw [length_put] at ha
    rw [getD_put ha]
    by_cases hm : a ∈ loc
    · rw [if_pos hm]
      have hk := List.idxOf_lt_length_of_mem hm
      rw [getD_pick hk]
      congr 1
      simp [List.getD_eq_getElem?_getD, hk]
    · rw [if_neg hm, hagree a ha hm]

theorem validIdx_put {shape idx loc ds : List Nat} (hv : validIdx shape idx = true)
    (hds : validIdx (loc.map (shape.getD · 0)) ds = true) :
    validIdx shape (put idx loc ds) = true := by
  have hl := validIdx_length hv
  rw [validIdx_iff] at hv hds ⊢
  refine ⟨by simp [length_put, hl], ?_⟩
  intro a ha
  rw [getD_put (by omega)]
  by_cases hm : a ∈ loc
  · rw [if_pos hm]
    have hk := List.idxOf_lt_length_of_mem hm
    have := hds.2 (loc.idxOf a) (by simpa using hk)
    rw [getD_map_nat hk] at this
    have h2 : loc.getD (loc.idxOf a) 0 = a := by simp [List.getD_eq_getElem?_getD, hk]
    rwa [h2] at this
  · rw [if_neg hm]; exact hv.2 a ha


/-- agreement of the `rest` digits, position by position -/
theorem agree_of_pick_rest {n : Nat} {loc rd kd : List Nat}
    (h : pick rd (rest n loc) = pick kd (rest n loc)) :
    ∀ a, a < n → a ∉ loc → kd.getD a 0 = rd.getD a 0 := by
  intro a ha hm
  have hmem : a ∈ rest n loc := mem_rest.2 ⟨ha, hm⟩
  have hk := List.idxOf_lt_length_of_mem hmem
  have h1 := congrArg (fun l => l.getD ((rest n loc).idxOf a) 0) h
  simp only [getD_pick hk] at h1
  have : (rest n loc).getD ((rest n loc).idxOf a) 0 = a := by
    simp [List.getD_eq_getElem?_getD, hk]
  rw [this] at h1
  exact h1.symm

/-! ### sums -/

section
variable {α : Type} [Semiring α]
open Finset

theorem list_sum_range (f : Nat → α) (n : Nat) :
    ((List.range n).map f).sum = ∑ i ∈ Finset.range n, f i := by
  induction n with
  | zero => simp
  | succ n ih => rw [List.range_succ, List.map_append, List.sum_append, ih, Finset.sum_range_succ]; simp

/-- Summing over all column indices `k` that agree with `rd` off `loc` is summing over the
`loc` digits. -/
theorem sum_embed_reindex {rad loc rd : List Nat} (hloc : isLocation loc rad.length = true)
    (hpos : ∀ s ∈ rad, 0 < s) (hrd : validIdx rad rd = true) (g : Nat → Nat → α) :
    (∑ k ∈ Finset.range (prod rad),
      if pick rd (rest rad.length loc) = pick (unravel rad k) (rest rad.length loc)
      then g (ravel (loc.map (rad.getD · 0)) (pick (unravel rad k) loc)) k else 0)
    = ∑ x ∈ Finset.range (prod (loc.map (rad.getD · 0))),
        g x (ravel rad (put rd loc (unravel (loc.map (rad.getD · 0)) x))) := by
  obtain ⟨hlt, hnd⟩ := isLocation_iff.1 hloc
  have hrdlen := validIdx_length hrd
  have hlocpos := shape_entry_pos hpos hlt
  rw [← Finset.sum_filter]
  apply Finset.sum_nbij'
    (i := fun k => ravel (loc.map (rad.getD · 0)) (pick (unravel rad k) loc))
    (j := fun x => ravel rad (put rd loc (unravel (loc.map (rad.getD · 0)) x)))
  · -- i maps into range L
    intro k hk
    simp only [Finset.mem_filter, Finset.mem_range] at hk
    simp only [Finset.mem_range]
    apply ravel_lt
    have hv := validIdx_unravel hpos k
    rw [validIdx_iff] at hv ⊢
    refine ⟨by simp [length_pick], ?_⟩
    intro a ha
    simp only [List.length_map] at ha
    have hq : loc.getD a 0 ∈ loc := by simp [List.getD_eq_getElem?_getD, ha]
    rw [getD_pick ha, getD_map_nat ha]
    exact hv.2 _ (hlt _ hq)
  · -- j maps into the filtered range
    intro x hx
    simp only [Finset.mem_range] at hx
    simp only [Finset.mem_filter, Finset.mem_range]
    have hvp : validIdx rad (put rd loc (unravel (loc.map (rad.getD · 0)) x)) = true :=
      validIdx_put hrd (validIdx_unravel hlocpos x)
    refine ⟨ravel_lt hvp, ?_⟩
    rw [unravel_ravel hvp, pick_put_other]
    · intro q hq; rw [hrdlen]; exact (mem_rest.1 hq).1
    · intro q hq; exact (mem_rest.1 hq).2
  · -- j (i k) = k
    intro k hk
    simp only [Finset.mem_filter, Finset.mem_range] at hk
    have hv := validIdx_unravel hpos k
    have hvl : validIdx (loc.map (rad.getD · 0)) (pick (unravel rad k) loc) = true := by
      rw [validIdx_iff] at hv ⊢
      refine ⟨by simp [length_pick], ?_⟩
      intro a ha
      simp only [List.length_map] at ha
      have hq : loc.getD a 0 ∈ loc := by simp [List.getD_eq_getElem?_getD, ha]
      rw [getD_pick ha, getD_map_nat ha]
      exact hv.2 _ (hlt _ hq)
    rw [unravel_ravel hvl, put_pick_eq (by rw [length_unravel, hrdlen])
      (by rw [hrdlen]; exact agree_of_pick_rest hk.2), ravel_unravel hk.1]
  · -- i (j x) = x
    intro x hx
    simp only [Finset.mem_range] at hx
    have hvp : validIdx rad (put rd loc (unravel (loc.map (rad.getD · 0)) x)) = true :=
      validIdx_put hrd (validIdx_unravel hlocpos x)
    rw [unravel_ravel hvp, pick_put_self hnd (by intro q hq; rw [hrdlen]; exact hlt q hq)
      (by simp [length_unravel]), ravel_unravel hx]
  · -- summands agree
    intro k hk
    simp only [Finset.mem_filter, Finset.mem_range] at hk
    have hv := validIdx_unravel hpos k
    have hvl : validIdx (loc.map (rad.getD · 0)) (pick (unravel rad k) loc) = true := by
      rw [validIdx_iff] at hv ⊢
      refine ⟨by simp [length_pick], ?_⟩
      intro a ha
      simp only [List.length_map] at ha
      have hq : loc.getD a 0 ∈ loc := by simp [List.getD_eq_getElem?_getD, ha]
      rw [getD_pick ha, getD_map_nat ha]
      exact hv.2 _ (hlt _ hq)
    rw [unravel_ravel hvl, put_pick_eq (by rw [length_unravel, hrdlen])
      (by rw [hrdlen]; exact agree_of_pick_rest hk.2), ravel_unravel hk.1]


/-! ### concatenated digit strings (row digits ++ column digits) -/

theorem getD_append_lt {a b : List Nat} {q : Nat} (h : q < a.length) :
    (a ++ b).getD q 0 = a.getD q 0 := getD_append_left' h

theorem map_getD_append_left {a b loc : List Nat} (h : ∀ q ∈ loc, q < a.length) :
    loc.map ((a ++ b).getD · 0) = loc.map (a.getD · 0) :=
  List.map_congr_left (fun q hq => getD_append_lt (h q hq))

theorem map_getD_append_right {a b loc : List Nat} :
    (loc.map (· + a.length)).map ((a ++ b).getD · 0) = loc.map (b.getD · 0) := by
  rw [List.map_map]
  apply List.map_congr_left
  intro q _
  simp only [Function.comp]
  rw [Nat.add_comm]
  exact getD_append_right'

theorem pick_append_left {a b loc : List Nat} (h : ∀ q ∈ loc, q < a.length) :
    pick (a ++ b) loc = pick a loc := map_getD_append_left h

theorem pick_append_right {a b loc : List Nat} :
    pick (a ++ b) (loc.map (· + a.length)) = pick b loc := map_getD_append_right

theorem put_append_left {a b loc ds : List Nat} (h : ∀ q ∈ loc, q < a.length) :
    put (a ++ b) loc ds = put a loc ds ++ b := by
  apply ext_getD
  · simp [length_put]
  · intro p hp
    rw [length_put] at hp
    rw [getD_put hp]
    by_cases hpa : p < a.length
    · have hl : (put a loc ds).length = a.length := length_put _ _ _
      rw [getD_append_lt hpa, getD_append_left' (l1 := put a loc ds) (by omega), getD_put hpa]
    · have hnm : p ∉ loc := fun hm => hpa (h p hm)
      rw [if_neg hnm]
      have : p = a.length + (p - a.length) := by omega
      have hl : (put a loc ds).length = a.length := length_put _ _ _
      rw [this, getD_append_right']
      conv_rhs => rw [← hl, getD_append_right']
      rw [hl]

theorem idxOf_map_add {loc : List Nat} {n x : Nat} :
    (loc.map (· + n)).idxOf (x + n) = loc.idxOf x := by
  induction loc with
  | nil => simp
  | cons y ys ih =>
    simp only [List.map_cons, List.idxOf_cons]
    by_cases hxy : y = x
    · subst hxy; simp
    · have h1 : (y + n == x + n) = false := by simp; omega
      have h2 : (y == x) = false := by simp [hxy]
      rw [h1, h2, ih]

theorem put_append_right {a b loc ds : List Nat} :
    put (a ++ b) (loc.map (· + a.length)) ds = a ++ put b loc ds := by
  apply ext_getD
  · simp [length_put]
  · intro p hp
    rw [length_put] at hp
    rw [getD_put hp]
    by_cases hpa : p < a.length
    · have hnm : p ∉ loc.map (· + a.length) := by
        intro hm
        obtain ⟨x, _, hx⟩ := List.mem_map.1 hm
        omega
      rw [if_neg hnm, getD_append_lt hpa, getD_append_left' hpa]
    · have hpe : p = a.length + (p - a.length) := by omega
      have hb : p - a.length < b.length := by simp at hp; omega
      rw [hpe, getD_append_right', getD_append_right', getD_put hb]
      have hiff : (a.length + (p - a.length)) ∈ loc.map (· + a.length) ↔ (p - a.length) ∈ loc := by
        simp only [List.mem_map]
        constructor
        · rintro ⟨x, hx, hxe⟩
          have : x = p - a.length := by omega
          rwa [← this]
        · intro hx; exact ⟨_, hx, by omega⟩
      by_cases hm : (p - a.length) ∈ loc
      · rw [if_pos (hiff.2 hm), if_pos hm]
        have : a.length + (p - a.length) = (p - a.length) + a.length := by omega
        rw [this, idxOf_map_add]
      · rw [if_neg (fun h => hm (hiff.1 h)), if_neg hm]

/-! ### builders -/

section
variable {α : Type} [Semiring α]

/-- What `UnitaryBuilder` maintains. -/
structure Builder.WF (b : Builder α) : Prop where
  shape : b.tensor.shape = b.radixes ++ b.radixes
  size : b.tensor.WF
  pos : ∀ s ∈ b.radixes, 0 < s

/-- The argument checks of `apply_*` pass: a valid location whose radixes are those of the
matrix, and a square matrix of the right size. -/
def ArgsOK (radixes : List Nat) (u : UM α) (loc : List Nat) : Prop :=
  isLocation loc radixes.length = true ∧ u.radixes = loc.map (radixes.getD · 0) ∧
    u.mat.shape = [prod u.radixes, prod u.radixes]

theorem mem_zip_map {f : Nat → Nat} {l : List Nat} {p : Nat × Nat}
    (h : p ∈ (l.map f).zip l) : p.1 = f p.2 := by
  induction l with
  | nil => simp at h
  | cons x xs ih =>
    simp only [List.map_cons, List.zip_cons_cons, List.mem_cons] at h
    rcases h with rfl | h
    · rfl
    · exact ih h

theorem checkArgs_ok {radixes : List Nat} {u : UM α} {loc : List Nat}
    (h : ArgsOK radixes u loc) : checkArgs radixes u loc = .ok () := by
  obtain ⟨h1, h2, _⟩ := h
  unfold checkArgs
  have hany : ((List.map (fun x => radixes.getD x 0) loc).zip loc).any
      (fun p => decide (p.1 ≠ radixes.getD p.2 0)) = false := by
    rw [List.any_eq_false]
    intro p hp
    simp [mem_zip_map hp]
  simp only [h1, h2, List.length_map, hany]
  simp
  rfl

theorem dagger_shape (conj : α → α) {m : T α} {r c : Nat} (h : m.shape = [r, c]) :
    (dagger conj m).shape = [c, r] := by
  unfold dagger; rw [h]; rfl

theorem entry_eq_get {b : Builder α} (hb : b.WF) {r c : Nat} (hr : r < prod b.radixes)
    (hc : c < prod b.radixes) :
    b.tensor.entry (prod b.radixes) r c
      = b.tensor.get (unravel b.radixes r ++ unravel b.radixes c) := by
  unfold T.entry
  have hlt : r * prod b.radixes + c < prod b.tensor.shape := by
    rw [hb.shape, prod_append]; exact mul_add_lt hr hc
  rw [data_getD_eq_get hlt, hb.shape, unravel_append hr hc]

theorem get_eq_entry {b : Builder α} (hb : b.WF) {rd cd : List Nat}
    (hr : validIdx b.radixes rd = true) (hc : validIdx b.radixes cd = true) :
    b.tensor.get (rd ++ cd)
      = b.tensor.entry (prod b.radixes) (ravel b.radixes rd) (ravel b.radixes cd) := by
  rw [entry_eq_get hb (ravel_lt hr) (ravel_lt hc), unravel_ravel hr, unravel_ravel hc]

/-- Contracting `m` on the leading axes `loc` of a tensor of shape `rad ++ tail` is
`Σ_k embed[r, k] · t[k, cd]` (the tail index `cd` is a spectator). -/
theorem front_eq_embed_sum {rad : List Nat} {t : T α} (hpos : ∀ s ∈ rad, 0 < s)
    {m : T α} {loc : List Nat} (hloc : isLocation loc rad.length = true) (r : Nat)
    (cd : List Nat) :
    frontVal t m (loc.map (rad.getD · 0)) loc (unravel rad r ++ cd)
      = ((List.range (prod rad)).map
          (fun k => embedEntry rad m loc r k * t.get (unravel rad k ++ cd))).sum := by
  obtain ⟨hlt, hnd⟩ := isLocation_iff.1 hloc
  have hvr := validIdx_unravel hpos r
  have hlr : (unravel rad r).length = rad.length := length_unravel _ _
  have hlt' : ∀ q ∈ loc, q < (unravel rad r).length := by rw [hlr]; exact hlt
  have hlocpos := shape_entry_pos hpos hlt
  unfold frontVal embedEntry
  rw [list_sum_range, list_sum_range]
  simp only [ite_zero_mul]
  rw [sum_embed_reindex hloc hpos hvr
    (fun x k => m.get [ravel (loc.map (rad.getD · 0)) (pick (unravel rad r) loc), x]
      * t.get (unravel rad k ++ cd))]
  apply Finset.sum_congr rfl
  intro x hx
  rw [pick_append_left hlt', put_append_left hlt',
    unravel_ravel (validIdx_put hvr (validIdx_unravel hlocpos x))]

/-- The matrix the builder holds after contracting `m` on `loc` from the left is
`embed m loc · (old matrix)`. -/
theorem front_eq_embed_mul {b : Builder α} (hb : b.WF) {m : T α} {loc : List Nat}
    (hloc : isLocation loc b.radixes.length = true) {r c : Nat} (hc : c < prod b.radixes) :
    frontVal b.tensor m (loc.map (b.radixes.getD · 0)) loc
        (unravel b.radixes r ++ unravel b.radixes c)
      = mulEntry (prod b.radixes) (embedEntry b.radixes m loc)
          (b.tensor.entry (prod b.radixes)) r c := by
  rw [front_eq_embed_sum hb.pos hloc r (unravel b.radixes c)]
  unfold mulEntry
  congr 1
  apply List.map_congr_left
  intro k hk
  rw [entry_eq_get hb (List.mem_range.1 hk) hc]

/-- The same from the right: `(old matrix) · embed m loc`. -/
theorem back_eq_mul_embed {b : Builder α} (hb : b.WF) {m : T α} {loc : List Nat}
    (hloc : isLocation loc b.radixes.length = true) {r c : Nat} (hr : r < prod b.radixes) :
    backVal b.tensor m (loc.map (b.radixes.getD · 0)) (loc.map (· + b.radixes.length))
        (unravel b.radixes r ++ unravel b.radixes c)
      = mulEntry (prod b.radixes) (b.tensor.entry (prod b.radixes))
          (embedEntry b.radixes m loc) r c := by
  obtain ⟨hlt, hnd⟩ := isLocation_iff.1 hloc
  have hvr := validIdx_unravel hb.pos r
  have hvc := validIdx_unravel hb.pos c
  have hlr : (unravel b.radixes r).length = b.radixes.length := length_unravel _ _
  have hlocpos := shape_entry_pos hb.pos hlt
  unfold backVal mulEntry embedEntry
  rw [list_sum_range, list_sum_range]
  simp only [mul_ite, mul_zero]
  -- the indicator of `embed[k, c]` compares the rest digits of k (row) with those of c
  have hsym : ∀ k, (pick (unravel b.radixes k) (rest b.radixes.length loc)
        = pick (unravel b.radixes c) (rest b.radixes.length loc))
      ↔ (pick (unravel b.radixes c) (rest b.radixes.length loc)
        = pick (unravel b.radixes k) (rest b.radixes.length loc)) := fun k => eq_comm
  simp only [hsym]
  rw [sum_embed_reindex hloc hb.pos hvc
    (fun x k => b.tensor.entry (prod b.radixes) r k
      * m.get [x, ravel (loc.map (b.radixes.getD · 0)) (pick (unravel b.radixes c) loc)])]
  apply Finset.sum_congr rfl
  intro x hx
  rw [← hlr, pick_append_right, put_append_right,
    get_eq_entry hb hvr (validIdx_put hvc (validIdx_unravel hlocpos x)), ravel_unravel hr]


/-- `m` as used by `apply_*`: the dagger when `inverse` is set. -/
def opMat (conj : α → α) (u : UM α) (inverse : Bool) : T α :=
  if inverse then dagger conj u.mat else u.mat

theorem opMat_shape (conj : α → α) {u : UM α} {d : Nat} (h : u.mat.shape = [d, d])
    (inverse : Bool) : (opMat conj u inverse).shape = [d, d] := by
  unfold opMat
  cases inverse
  · simpa using h
  · simpa using dagger_shape conj h

theorem shift_eq {n : Nat} (l : List Nat) : l.map (· + n) = l.map (fun x => x + n) := rfl

/-- **`apply_right` is left multiplication by the embedded matrix**, for any radixes and any
order of `loc` (with or without `inverse`, with or without argument checks). -/
theorem applyRight_spec (conj : α → α) {b : Builder α} {u : UM α} {loc : List Nat}
    (hb : b.WF) (hargs : ArgsOK b.radixes u loc) (inverse check : Bool) :
    ∃ b', b.applyRight conj u loc inverse check = .ok b' ∧ b'.radixes = b.radixes ∧ b'.WF ∧
      ∀ r c, r < prod b.radixes → c < prod b.radixes →
        b'.tensor.entry (prod b.radixes) r c
          = mulEntry (prod b.radixes) (embedEntry b.radixes (opMat conj u inverse) loc)
              (b.tensor.entry (prod b.radixes)) r c := by
  obtain ⟨hloc, hrad, hshape⟩ := hargs
  obtain ⟨hlt, hnd⟩ := isLocation_iff.1 hloc
  have hperm : isPerm (loc ++ (rest b.radixes.length loc
      ++ (List.range b.radixes.length).map (· + b.radixes.length))) b.tensor.shape.length = true := by
    rw [hb.shape, List.length_append, ← List.append_assoc]
    exact isPerm_append_shift (isPerm_loc_rest hloc)
  have hselshape : loc.map (b.tensor.shape.getD · 0) = loc.map (b.radixes.getD · 0) := by
    rw [hb.shape]; exact map_getD_append_left hlt
  have hm : (opMat conj u inverse).shape = [prod (loc.map (b.tensor.shape.getD · 0)),
      prod (loc.map (b.tensor.shape.getD · 0))] := by
    rw [hselshape, ← hrad]; exact opMat_shape conj hshape inverse
  have hpos : ∀ s ∈ b.tensor.shape, 0 < s := by
    rw [hb.shape]; intro s hs
    rcases List.mem_append.1 hs with h | h <;> exact hb.pos s h
  obtain ⟨t', hok, hsh', hwf', hget⟩ := contractFront_spec (sh := b.radixes ++ b.radixes)
    (t := b.tensor) (m := opMat conj u inverse) hpos hperm
    (by intro a _; rw [hb.shape]) hm
  refine ⟨⟨b.radixes, t'⟩, ?_, rfl, ⟨by rw [hsh', hb.shape], hwf', hb.pos⟩, ?_⟩
  · unfold Builder.applyRight
    unfold opMat at hok
    simp only [bind, Except.bind, hok, checkArgs_ok ⟨hloc, hrad, hshape⟩]
    cases check <;> rfl
  · intro r c hr hc
    have hb' : Builder.WF (⟨b.radixes, t'⟩ : Builder α) :=
      ⟨by rw [hsh', hb.shape], hwf', hb.pos⟩
    rw [entry_eq_get hb' hr hc]
    simp only
    rw [hget _ (by
      rw [hb.shape]
      exact (validIdx_append (validIdx_unravel hb.pos r) (validIdx_unravel hb.pos c))),
      hselshape]
    exact front_eq_embed_mul hb hloc hc

/-- **`apply_left` is right multiplication by the embedded matrix.** -/
theorem applyLeft_spec (conj : α → α) {b : Builder α} {u : UM α} {loc : List Nat}
    (hb : b.WF) (hargs : ArgsOK b.radixes u loc) (inverse check : Bool) :
    ∃ b', b.applyLeft conj u loc inverse check = .ok b' ∧ b'.radixes = b.radixes ∧ b'.WF ∧
      ∀ r c, r < prod b.radixes → c < prod b.radixes →
        b'.tensor.entry (prod b.radixes) r c
          = mulEntry (prod b.radixes) (b.tensor.entry (prod b.radixes))
              (embedEntry b.radixes (opMat conj u inverse) loc) r c := by
  obtain ⟨hloc, hrad, hshape⟩ := hargs
  obtain ⟨hlt, hnd⟩ := isLocation_iff.1 hloc
  have hfilter : (List.range b.radixes.length).filter (fun x => !loc.contains x)
      = rest b.radixes.length loc := rfl
  have hperm : isPerm ((List.range b.radixes.length
      ++ (rest b.radixes.length loc).map (· + b.radixes.length))
      ++ loc.map (· + b.radixes.length)) b.tensor.shape.length = true := by
    rw [hb.shape, List.length_append, List.append_assoc, ← List.map_append]
    exact isPerm_range_shift (isPerm_rest_loc hloc)
  have hselshape : (loc.map (· + b.radixes.length)).map (b.tensor.shape.getD · 0)
      = loc.map (b.radixes.getD · 0) := by
    rw [hb.shape]; exact map_getD_append_right
  have hm : (opMat conj u inverse).shape
      = [prod ((loc.map (· + b.radixes.length)).map (b.tensor.shape.getD · 0)),
         prod ((loc.map (· + b.radixes.length)).map (b.tensor.shape.getD · 0))] := by
    rw [hselshape, ← hrad]; exact opMat_shape conj hshape inverse
  have hpos : ∀ s ∈ b.tensor.shape, 0 < s := by
    rw [hb.shape]; intro s hs
    rcases List.mem_append.1 hs with h | h <;> exact hb.pos s h
  obtain ⟨t', hok, hsh', hwf', hget⟩ := contractBack_spec (sh := b.radixes ++ b.radixes)
    (t := b.tensor) (m := opMat conj u inverse) hpos hperm
    (by intro a _; rw [hb.shape]) hm
  refine ⟨⟨b.radixes, t'⟩, ?_, rfl, ⟨by rw [hsh', hb.shape], hwf', hb.pos⟩, ?_⟩
  · unfold Builder.applyLeft
    unfold opMat at hok
    simp only [bind, Except.bind, hfilter, hok, checkArgs_ok ⟨hloc, hrad, hshape⟩]
    cases check <;> rfl
  · intro r c hr hc
    have hb' : Builder.WF (⟨b.radixes, t'⟩ : Builder α) :=
      ⟨by rw [hsh', hb.shape], hwf', hb.pos⟩
    rw [entry_eq_get hb' hr hc]
    simp only
    rw [hget _ (by
      rw [hb.shape]
      exact (validIdx_append (validIdx_unravel hb.pos r) (validIdx_unravel hb.pos c))),
      hselshape]
    exact back_eq_mul_embed hb hloc hr


/-- `eval_apply_right(M, loc)` returns `embed M loc · (builder matrix)` for an arbitrary
matrix `M` of the right size (the builder is unchanged). -/
theorem evalApplyRight_spec {b : Builder α} {m : T α} {loc : List Nat} (hb : b.WF)
    (hloc : isLocation loc b.radixes.length = true)
    (hm : m.shape = [prod (loc.map (b.radixes.getD · 0)), prod (loc.map (b.radixes.getD · 0))]) :
    ∃ e, b.evalApplyRight m loc = .ok e ∧ e.shape = [prod b.radixes, prod b.radixes] ∧ e.WF ∧
      ∀ r c, r < prod b.radixes → c < prod b.radixes →
        e.entry (prod b.radixes) r c
          = mulEntry (prod b.radixes) (embedEntry b.radixes m loc)
              (b.tensor.entry (prod b.radixes)) r c := by
  have hu : ArgsOK b.radixes (⟨loc.map (b.radixes.getD · 0), m⟩ : UM α) loc := ⟨hloc, rfl, hm⟩
  obtain ⟨b', hok, hrad', hwf', hent⟩ := applyRight_spec (fun x => x) hb hu false false
  have hsz : prod [prod b.radixes, prod b.radixes] = b'.tensor.data.size := by
    rw [hwf'.size, hwf'.shape, hrad', prod_append]; simp [prod]
  refine ⟨⟨[prod b.radixes, prod b.radixes], b'.tensor.data⟩, ?_, rfl, ?_, ?_⟩
  · unfold Builder.applyRight at hok
    unfold Builder.evalApplyRight
    simp only [bind, Except.bind, Bool.false_eq_true, if_false] at hok ⊢
    split at hok
    · simp at hok
    · rename_i t' ht'
      simp only [pure, Except.pure, Except.ok.injEq] at hok
      subst hok
      exact reshape_eq_ok hsz
  · exact hsz.symm
  · intro r c hr hc
    have := hent r c hr hc
    simpa [T.entry, opMat] using this

/-- `eval_apply_left(M, loc)` returns `(builder matrix) · embed M loc`. -/
theorem evalApplyLeft_spec {b : Builder α} {m : T α} {loc : List Nat} (hb : b.WF)
    (hloc : isLocation loc b.radixes.length = true)
    (hm : m.shape = [prod (loc.map (b.radixes.getD · 0)), prod (loc.map (b.radixes.getD · 0))]) :
    ∃ e, b.evalApplyLeft m loc = .ok e ∧ e.shape = [prod b.radixes, prod b.radixes] ∧ e.WF ∧
      ∀ r c, r < prod b.radixes → c < prod b.radixes →
        e.entry (prod b.radixes) r c
          = mulEntry (prod b.radixes) (b.tensor.entry (prod b.radixes))
              (embedEntry b.radixes m loc) r c := by
  have hu : ArgsOK b.radixes (⟨loc.map (b.radixes.getD · 0), m⟩ : UM α) loc := ⟨hloc, rfl, hm⟩
  obtain ⟨b', hok, hrad', hwf', hent⟩ := applyLeft_spec (fun x => x) hb hu false false
  have hsz : prod [prod b.radixes, prod b.radixes] = b'.tensor.data.size := by
    rw [hwf'.size, hwf'.shape, hrad', prod_append]; simp [prod]
  refine ⟨⟨[prod b.radixes, prod b.radixes], b'.tensor.data⟩, ?_, rfl, ?_, ?_⟩
  · unfold Builder.applyLeft at hok
    unfold Builder.evalApplyLeft
    simp only [bind, Except.bind, Bool.false_eq_true, if_false] at hok ⊢
    split at hok
    · simp at hok
    · rename_i t' ht'
      simp only [pure, Except.pure, Except.ok.injEq] at hok
      subst hok
      exact reshape_eq_ok hsz
  · exact hsz.symm
  · intro r c hr hc
    have := hent r c hr hc
    simpa [T.entry, opMat] using this

/-- **`StateVector.apply` is multiplication of the vector by the embedded matrix**, when
the state carries the radixes `radixes`. -/
theorem svApply_spec (conj : α → α) {radixes : List Nat} {vec : T α} {u : UM α}
    {loc : List Nat} (hpos : ∀ s ∈ radixes, 0 < s) (hsize : vec.data.size = prod radixes)
    (hargs : ArgsOK radixes u loc) (inverse check : Bool) :
    ∃ v', svApply conj radixes vec u loc inverse check = .ok v' ∧ v'.shape = [prod radixes] ∧
      v'.data.size = prod radixes ∧
      ∀ r, r < prod radixes →
        v'.data.getD r 0 = ((List.range (prod radixes)).map (fun k =>
          embedEntry radixes (opMat conj u inverse) loc r k * vec.data.getD k 0)).sum := by
  obtain ⟨hloc, hrad, hshape⟩ := hargs
  obtain ⟨hlt, hnd⟩ := isLocation_iff.1 hloc
  let t : T α := ⟨radixes, vec.data⟩
  have hperm : isPerm (loc ++ rest radixes.length loc) t.shape.length = true :=
    isPerm_loc_rest hloc
  have hm : (opMat conj u inverse).shape = [prod (loc.map (t.shape.getD · 0)),
      prod (loc.map (t.shape.getD · 0))] := by
    show _ = [prod (loc.map (radixes.getD · 0)), prod (loc.map (radixes.getD · 0))]
    rw [← hrad]; exact opMat_shape conj hshape inverse
  obtain ⟨t', hok, hsh', hwf', hget⟩ := contractFront_spec (sh := radixes ++ radixes)
    (t := t) (m := opMat conj u inverse) hpos hperm
    (by
      intro a ha
      have : a < radixes.length := (isPerm_mem hperm a).1 ha
      exact getD_append_lt this) hm
  have hsz' : t'.data.size = prod radixes := by rw [hwf', hsh']
  refine ⟨⟨[prod radixes], t'.data⟩, ?_, rfl, hsz', ?_⟩
  · unfold svApply
    unfold opMat at hok
    have h1 : vec.reshape radixes = .ok t := reshape_eq_ok hsize.symm
    have h2 : t'.reshape [prod radixes] = .ok ⟨[prod radixes], t'.data⟩ :=
      reshape_eq_ok (by rw [hsz']; simp [prod])
    simp only [bind, Except.bind, h1, hok, h2, checkArgs_ok ⟨hloc, hrad, hshape⟩]
    cases check <;> rfl
  · intro r hr
    show t'.data.getD r 0 = _
    have hrl : r < prod t'.shape := by rw [hsh']; exact hr
    rw [data_getD_eq_get hrl, hsh']
    have hv : validIdx t.shape (unravel radixes r) = true := validIdx_unravel hpos r
    rw [hget _ hv]
    have := front_eq_embed_sum (t := t) hpos (m := opMat conj u inverse) hloc r []
    simp only [List.append_nil] at this
    rw [show loc.map (t.shape.getD · 0) = loc.map (radixes.getD · 0) from rfl, this]
    congr 1
    apply List.map_congr_left
    intro k hk
    have hk' : k < prod t.shape := List.mem_range.1 hk
    rw [← data_getD_eq_get (t := t) hk']


/-! ### `embed` is multiplicative and maps the identity to the identity -/

theorem validIdx_pick_loc {rad loc : List Nat} (hlt : ∀ q ∈ loc, q < rad.length)
    (hpos : ∀ s ∈ rad, 0 < s) (k : Nat) :
    validIdx (loc.map (rad.getD · 0)) (pick (unravel rad k) loc) = true := by
  have hv := validIdx_unravel hpos k
  rw [validIdx_iff] at hv ⊢
  refine ⟨by simp [length_pick], ?_⟩
  intro a ha
  simp only [List.length_map] at ha
  have hq : loc.getD a 0 ∈ loc := by simp [List.getD_eq_getElem?_getD, ha]
  rw [getD_pick ha, getD_map_nat ha]
  exact hv.2 _ (hlt _ hq)

theorem embedEntry_def (rad : List Nat) (m : T α) (loc : List Nat) (r c : Nat) :
    embedEntry rad m loc r c
      = if pick (unravel rad r) (rest rad.length loc) = pick (unravel rad c) (rest rad.length loc)
        then m.get [ravel (loc.map (rad.getD · 0)) (pick (unravel rad r) loc),
                    ravel (loc.map (rad.getD · 0)) (pick (unravel rad c) loc)]
        else 0 := rfl

theorem validIdx_pair {L L' a b : Nat} (ha : a < L) (hb : b < L') :
    validIdx [L, L'] [a, b] = true := by
  simp [validIdx, ha, hb]

/-- `embed (m1 @ m2) = embed m1 · embed m2` (entry form). -/
theorem embedEntry_mul {rad loc : List Nat} (hloc : isLocation loc rad.length = true)
    (hpos : ∀ s ∈ rad, 0 < s) {m1 m2 m12 : T α}
    (h1 : m1.shape = [prod (loc.map (rad.getD · 0)), prod (loc.map (rad.getD · 0))])
    (h2 : m2.shape = [prod (loc.map (rad.getD · 0)), prod (loc.map (rad.getD · 0))])
    (h12 : matmul m1 m2 = .ok m12) (r c : Nat) :
    embedEntry rad m12 loc r c
      = mulEntry (prod rad) (embedEntry rad m1 loc) (embedEntry rad m2 loc) r c := by
  obtain ⟨hlt, hnd⟩ := isLocation_iff.1 hloc
  have hlocpos := shape_entry_pos hpos hlt
  have hvr := validIdx_unravel hpos r
  have hrl : (unravel rad r).length = rad.length := length_unravel _ _
  rw [matmul_eq_ok h1 h2] at h12
  injection h12 with h12
  subst h12
  unfold mulEntry
  rw [list_sum_range]
  -- expand the left factor only
  have hexp : ∀ k, embedEntry rad m1 loc r k * embedEntry rad m2 loc k c
      = if pick (unravel rad r) (rest rad.length loc) = pick (unravel rad k) (rest rad.length loc)
        then m1.get [ravel (loc.map (rad.getD · 0)) (pick (unravel rad r) loc),
                     ravel (loc.map (rad.getD · 0)) (pick (unravel rad k) loc)]
              * embedEntry rad m2 loc k c
        else 0 := by
    intro k
    rw [embedEntry_def rad m1, ite_zero_mul]
  simp only [hexp]
  rw [sum_embed_reindex hloc hpos hvr
    (fun x k => m1.get [ravel (loc.map (rad.getD · 0)) (pick (unravel rad r) loc), x]
      * embedEntry rad m2 loc k c)]
  -- the right factor at the reindexed column
  have hright : ∀ x, x < prod (loc.map (rad.getD · 0)) →
      embedEntry rad m2 loc
        (ravel rad (put (unravel rad r) loc (unravel (loc.map (rad.getD · 0)) x))) c
      = if pick (unravel rad r) (rest rad.length loc) = pick (unravel rad c) (rest rad.length loc)
        then m2.get [x, ravel (loc.map (rad.getD · 0)) (pick (unravel rad c) loc)] else 0 := by
    intro x hx
    have hvp := validIdx_put hvr (validIdx_unravel hlocpos x)
    unfold embedEntry
    simp only
    rw [unravel_ravel hvp, pick_put_other (by intro q hq; rw [hrl]; exact (mem_rest.1 hq).1)
      (by intro q hq; exact (mem_rest.1 hq).2),
      pick_put_self hnd (by intro q hq; rw [hrl]; exact hlt q hq) (by simp [length_unravel]),
      ravel_unravel hx]
  rw [Finset.sum_congr rfl (fun x hx => by rw [hright x (Finset.mem_range.1 hx)])]
  unfold embedEntry
  simp only
  by_cases hP : pick (unravel rad r) (rest rad.length loc)
      = pick (unravel rad c) (rest rad.length loc)
  · simp only [hP, if_true]
    rw [get_ofFn _ (validIdx_pair (ravel_lt (validIdx_pick_loc hlt hpos r))
      (ravel_lt (validIdx_pick_loc hlt hpos c)))]
    simp only [List.getD_cons_zero, List.getD_cons_succ]
    rw [list_sum_range]
  · simp [hP]

/-- `embed identity = identity` (entry form). -/
theorem embedEntry_identity {rad loc : List Nat} (hloc : isLocation loc rad.length = true)
    (hpos : ∀ s ∈ rad, 0 < s) {r c : Nat} (hr : r < prod rad) (hc : c < prod rad) :
    embedEntry rad (identity (prod (loc.map (rad.getD · 0))) : T α) loc r c
      = if r = c then 1 else 0 := by
  obtain ⟨hlt, hnd⟩ := isLocation_iff.1 hloc
  have hrl : (unravel rad r).length = rad.length := length_unravel _ _
  have hcl : (unravel rad c).length = rad.length := length_unravel _ _
  unfold embedEntry identity
  simp only
  rw [get_ofFn _ (validIdx_pair (ravel_lt (validIdx_pick_loc hlt hpos r))
    (ravel_lt (validIdx_pick_loc hlt hpos c)))]
  simp only [List.getD_cons_zero, List.getD_cons_succ]
  by_cases hrc : r = c
  · subst hrc; simp
  · rw [if_neg hrc]
    by_cases hP : pick (unravel rad r) (rest rad.length loc)
        = pick (unravel rad c) (rest rad.length loc)
    · rw [if_pos hP]
      have hne : ravel (loc.map (rad.getD · 0)) (pick (unravel rad r) loc)
          ≠ ravel (loc.map (rad.getD · 0)) (pick (unravel rad c) loc) := by
        intro he
        apply hrc
        have hpl : pick (unravel rad r) loc = pick (unravel rad c) loc := by
          have := congrArg (unravel (loc.map (rad.getD · 0))) he
          rwa [unravel_ravel (validIdx_pick_loc hlt hpos r),
            unravel_ravel (validIdx_pick_loc hlt hpos c)] at this
        have hd : unravel rad c = unravel rad r := by
          have := put_pick_eq (idx := unravel rad r) (kd := unravel rad c) (loc := loc)
            (by rw [hrl, hcl]) (by rw [hrl]; exact agree_of_pick_rest hP)
          rw [← hpl] at this
          rw [← this]
          exact put_pick_eq rfl (fun _ _ _ => rfl)
        have := congrArg (ravel rad) hd
        rw [ravel_unravel hc, ravel_unravel hr] at this
        exact this.symm
      rw [if_neg hne]
    · rw [if_neg hP]

end
end
end BqVerif.Tensor
