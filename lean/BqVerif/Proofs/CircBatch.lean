import BqVerif.Proofs.CircReplace
import BqVerif.Proofs.CircViews
/-! `batch_replace` when every replacement is in place (same location set): a pointwise
substitution; the grid (cycle indices, positions, location sets) is stable (C04). -/
namespace BqVerif.Circ

/-- the circuit with every operation `x` of cycle `i` replaced by `g i x` -/
def mapCirc (c : Circ) (g : Nat → Op → Op) : Circ :=
  ⟨c.radixes, c.cycles.zipIdx.map (fun (cy, i) => cy.map (g i))⟩

/-- `g` keeps the location set of every operation of `c` -/
def LocPres (c : Circ) (g : Nat → Op → Op) : Prop :=
  ∀ i (h : i < c.cycles.length), ∀ x ∈ c.cycles[i], ∀ q, q ∈ (g i x).loc ↔ q ∈ x.loc

theorem mapCirc_length (c : Circ) (g : Nat → Op → Op) :
    (mapCirc c g).cycles.length = c.cycles.length := by simp [mapCirc]

theorem mapCirc_getElem (c : Circ) (g : Nat → Op → Op) (i : Nat) (h : i < c.cycles.length) :
    (mapCirc c g).cycles[i]'(by rw [mapCirc_length]; exact h) = c.cycles[i].map (g i) := by
  simp [mapCirc]

theorem mapCirc_id (c : Circ) : mapCirc c (fun _ x => x) = c := by
  unfold mapCirc
  have : c.cycles.zipIdx.map (fun (cy, i) => cy.map (fun x => x)) = c.cycles := by
    apply List.ext_getElem
    · simp
    · intro i h1 h2; simp
  rw [this]

theorem find_map_pres (cy : Cycle) (f : Op → Op) (q : Nat)
    (hp : ∀ x ∈ cy, (f x).on q = x.on q) :
    (cy.map f).find? (·.on q) = (cy.find? (·.on q)).map f := by
  induction cy with
  | nil => rfl
  | cons a t ih =>
    have ha := hp a (by simp)
    simp only [List.map_cons, List.find?_cons, ha]
    split
    · rfl
    · exact ih (fun x hx => hp x (by simp [hx]))

theorem on_congr (a b : Op) (q : Nat) (h : q ∈ a.loc ↔ q ∈ b.loc) : a.on q = b.on q := by
  simp only [Op.on, List.contains_eq_mem]
  exact decide_eq_decide.mpr h

theorem mapCirc_cell (c : Circ) (g : Nat → Op → Op) (hg : LocPres c g) (k q : Nat) :
    (mapCirc c g).cell k q = (c.cell k q).map (g k) := by
  by_cases hlt : k < c.cycles.length
  · rw [cell_eq_getElem _ k q (by rw [mapCirc_length]; exact hlt), cell_eq_getElem c k q hlt,
      mapCirc_getElem c g k hlt]
    exact find_map_pres _ _ q (fun x hx => on_congr _ _ q (hg k hlt x hx q))
  · rw [cell_none_of_ge _ k q (by rw [mapCirc_length]; omega),
      cell_none_of_ge c k q (by omega)]; rfl

/-- the in-place branch of `replace`, addressed with non-negative indices -/
theorem replace_inplace_eq (c : Circ) (k q : Nat) (old o : Op) (hk : k < c.numCycles)
    (hq : q < c.numQudits) (hc : c.cell k q = some old) (hss : sameSet old.loc o.loc = true)
    (hne : old.loc ≠ []) :
    c.replace ((k : Int), (q : Int)) o =
      (⟨c.radixes, c.cycles.modify k (fun cy => cy.map (fun x => if x == old then o else x))⟩,
        .ok ()) := by
  have hg : c.getOp ((k : Int), (q : Int)) = .ok (k, q, old) := by
    unfold Circ.getOp
    have h1 : c.cycleInRange (k : Int) = true := by
      rw [cycleInRange_iff]; omega
    have h2 : c.qubitInRange (q : Int) = true := by
      simp only [Circ.qubitInRange, Bool.and_eq_true, decide_eq_true_eq]; omega
    simp [h1, h2, normIdx_nat, hc]
  have hd : disjointL old.loc o.loc = false := by
    obtain ⟨x, hx⟩ := List.exists_mem_of_ne_nil _ hne
    rw [sameSet_iff] at hss
    cases hdd : disjointL old.loc o.loc with
    | false => rfl
    | true =>
      rw [disjointL, List.all_eq_true] at hdd
      have := hdd x hx
      simp [(hss x).1 hx] at this
  unfold Circ.replace
  simp [hg, hd, hss]

/-- one in-place replacement on an already substituted circuit is again a substitution -/
theorem mapCirc_replace (c : Circ) (hinv : c.Inv) (g : Nat → Op → Op) (hg : LocPres c g)
    (k q : Nat) (old0 o : Op) (hc : c.cell k q = some old0)
    (hss : sameSet old0.loc o.loc = true) :
    let g' : Nat → Op → Op := fun i x => if i = k ∧ q ∈ x.loc then o else g i x
    (mapCirc c g).replace ((k : Int), (q : Int)) o = (mapCirc c g', .ok ()) ∧ LocPres c g' := by
  intro g'
  obtain ⟨hlt, hm0, hq0⟩ := cell_mem c k q old0 hc
  have hwf := hinv.2.2 _ (List.getElem_mem hlt) old0 hm0
  rw [sameSet_iff] at hss
  -- uniqueness of the operation on (k, q)
  have huniq : ∀ x ∈ c.cycles[k], q ∈ x.loc → x = old0 := by
    intro x hx hqx
    have := cell_of_mem c hinv k q x hlt hx hqx
    rw [hc] at this; exact (Option.some.inj this).symm
  have hpres' : LocPres c g' := by
    intro i hi x hx q'
    by_cases hcond : i = k ∧ q ∈ x.loc
    · obtain ⟨rfl, hqx⟩ := hcond
      have := huniq x hx hqx
      subst this
      simp only [g', hqx, and_self, if_true]
      exact (hss q').symm
    · simp only [g', hcond, if_false]; exact hg i hi x hx q'
  refine ⟨?_, hpres'⟩
  have hcell : (mapCirc c g).cell k q = some (g k old0) := by
    rw [mapCirc_cell c g hg, hc]; rfl
  have hss' : sameSet (g k old0).loc o.loc = true := by
    rw [sameSet_iff]; intro q'
    rw [hg k hlt old0 hm0 q']; exact hss q'
  have hne : (g k old0).loc ≠ [] := by
    intro he
    have := (hg k hlt old0 hm0 q).2 hq0
    rw [he] at this; simp at this
  rw [replace_inplace_eq (mapCirc c g) k q (g k old0) o
    (by simp only [Circ.numCycles]; rw [mapCirc_length]; exact hlt)
    (by
      have := hwf.2.2.1 q hq0
      simpa [Circ.numQudits, mapCirc] using this) hcell hss' hne]
  congr 1
  show Circ.mk (mapCirc c g).radixes _ = mapCirc c g'
  unfold mapCirc
  dsimp only
  congr 1
  apply List.ext_getElem
  · simp
  · intro i h1 h2
    have hi : i < c.cycles.length := by simpa using h2
    rw [List.getElem_modify]
    simp only [List.getElem_map, List.getElem_zipIdx, Nat.zero_add]
    by_cases hik : k = i
    · subst hik
      simp only [if_true, List.map_map]
      apply List.map_congr_left
      intro x hx
      simp only [Function.comp]
      by_cases hqx : q ∈ x.loc
      · have := huniq x hx hqx
        subst this
        simp [g', hqx]
      · have hne' : (g k x == g k old0) = false := by
          rw [beq_eq_false_iff_ne]
          intro he
          have h1 := (hg k hlt old0 hm0 q).2 hq0
          rw [← he] at h1
          exact hqx ((hg k hlt x hx q).1 h1)
        simp [g', hqx, hne']
    · simp only [hik, if_false]
      apply List.map_congr_left
      intro x hx
      have : ¬ (i = k ∧ q ∈ x.loc) := fun h => hik h.1.symm
      simp [g', this]

/-! ## the batch -/
/-- the normalised items of `batch_replace` -/
def normItems (c : Circ) (items0 : List ((Int × Int) × Op)) : List ((Int × Int) × Op) :=
  items0.map (fun it =>
    (((normIdx c.numCycles it.1.1 : Nat), (normIdx c.numQudits it.1.2 : Nat)), it.2))
/-- … sorted by cycle (stable insertion sort, as in the model) -/
def sortItems (items : List ((Int × Int) × Op)) : List ((Int × Int) × Op) :=
  items.foldr (fun x acc => Circ.batchReplace.ins x acc) []
/-- the body of the fold of `batch_replace` -/
def bStep (n0 : Int) (acc : Circ × Except Err Unit) (item : (Int × Int) × Op) :
    Circ × Except Err Unit :=
  match acc.2 with
  | .error _ => acc
  | .ok () =>
    let shrink : Int := n0 - (acc.1.numCycles : Int)
    acc.1.replace (item.1.1 - shrink, item.1.2) item.2

theorem batchReplace_eq (c : Circ) (items0 : List ((Int × Int) × Op))
    (hr : items0.all (fun it => c.cycleInRange it.1.1 && c.qubitInRange it.1.2) = true) :
    c.batchReplace items0 =
      (sortItems (normItems c items0)).foldl (bStep (c.numCycles : Int)) (c, .ok ()) := by
  unfold Circ.batchReplace
  rw [hr]
  rfl

theorem mem_ins (x z : (Int × Int) × Op) (acc : List ((Int × Int) × Op))
    (h : z ∈ Circ.batchReplace.ins x acc) : z = x ∨ z ∈ acc := by
  induction acc with
  | nil => simp [Circ.batchReplace.ins] at h; exact Or.inl h
  | cons b u ih =>
    simp only [Circ.batchReplace.ins] at h
    split at h
    · simp only [List.mem_cons] at h ⊢; exact h
    · simp only [List.mem_cons] at h ⊢
      rcases h with h | h
      · exact Or.inr (Or.inl h)
      · rcases ih h with h | h
        · exact Or.inl h
        · exact Or.inr (Or.inr h)

theorem mem_sortItems (l : List ((Int × Int) × Op)) (z : (Int × Int) × Op)
    (h : z ∈ sortItems l) : z ∈ l := by
  induction l with
  | nil => simp [sortItems] at h
  | cons a t ih =>
    have e : sortItems (a :: t) = Circ.batchReplace.ins a (sortItems t) := rfl
    rw [e] at h
    rcases mem_ins a z _ h with h | h
    · simp [h]
    · exact List.mem_cons_of_mem _ (ih h)

/-- the substitution one item performs: the operation of cycle `k` covering qudit `q` becomes
the item's operation -/
def substStep (g : Nat → Op → Op) (it : (Int × Int) × Op) : Nat → Op → Op :=
  fun i x => if i = it.1.1.toNat ∧ it.1.2.toNat ∈ x.loc then it.2 else g i x
/-- all substitutions of a (sorted, normalised) item list, in order -/
def substAll (its : List ((Int × Int) × Op)) : Nat → Op → Op :=
  its.foldl substStep (fun _ x => x)

/-- an item addresses, in place, an operation of `c` -/
def ItemInPlace (c : Circ) (it : (Int × Int) × Op) : Prop :=
  ∃ k q : Nat, ∃ old : Op, it.1 = ((k : Int), (q : Int)) ∧ c.cell k q = some old ∧
    sameSet old.loc it.2.loc = true

theorem batch_fold (c : Circ) (hinv : c.Inv) (its : List ((Int × Int) × Op))
    (hits : ∀ it ∈ its, ItemInPlace c it) (g : Nat → Op → Op) (hg : LocPres c g) :
    its.foldl (bStep (c.numCycles : Int)) (mapCirc c g, .ok ()) =
      (mapCirc c (its.foldl substStep g), .ok ()) ∧ LocPres c (its.foldl substStep g) := by
  induction its generalizing g with
  | nil => exact ⟨rfl, hg⟩
  | cons it t ih =>
    obtain ⟨k, q, old, hp, hc, hss⟩ := hits it (by simp)
    simp only [List.foldl_cons]
    obtain ⟨h1, h2⟩ := mapCirc_replace c hinv g hg k q old it.2 hc hss
    have hstep : bStep (c.numCycles : Int) (mapCirc c g, .ok ()) it =
        (mapCirc c (substStep g it), .ok ()) := by
      unfold bStep
      dsimp only
      have hn : ((mapCirc c g).numCycles : Int) = (c.numCycles : Int) := by
        simp only [Circ.numCycles]; rw [mapCirc_length]
      rw [hn, hp]
      simp only [Int.sub_self, Int.sub_zero]
      rw [h1]
      unfold substStep
      rw [hp]; simp
    rw [hstep]
    have hg' : LocPres c (substStep g it) := by
      have : substStep g it = fun i x => if i = k ∧ q ∈ x.loc then it.2 else g i x := by
        unfold substStep; rw [hp]; simp
      rw [this]; exact h2
    exact ih (fun it' h' => hits it' (by simp [h'])) (substStep g it) hg'

/-- **batch_replace with all replacements in place is a pointwise substitution.** -/
theorem batchReplace_same_loc (c : Circ) (hinv : c.Inv) (items0 : List ((Int × Int) × Op))
    (hr : items0.all (fun it => c.cycleInRange it.1.1 && c.qubitInRange it.1.2) = true)
    (hin : ∀ it ∈ items0, ∃ old,
      c.cell (normIdx c.numCycles it.1.1) (normIdx c.numQudits it.1.2) = some old ∧
        sameSet old.loc it.2.loc = true) :
    c.batchReplace items0 = (mapCirc c (substAll (sortItems (normItems c items0))), .ok ()) ∧
      LocPres c (substAll (sortItems (normItems c items0))) := by
  rw [batchReplace_eq c items0 hr]
  have hits : ∀ it ∈ sortItems (normItems c items0), ItemInPlace c it := by
    intro it hit
    have := mem_sortItems _ _ hit
    simp only [normItems, List.mem_map] at this
    obtain ⟨it0, h0, rfl⟩ := this
    obtain ⟨old, h1, h2⟩ := hin it0 h0
    exact ⟨_, _, old, rfl, h1, h2⟩
  have := batch_fold c hinv _ hits (fun _ x => x) (fun i hi x hx q => Iff.rfl)
  rw [mapCirc_id] at this
  exact this

/-- an item addresses operation `x` of cycle `k` -/
def Addr (it : (Int × Int) × Op) (k : Nat) (x : Op) : Prop :=
  k = it.1.1.toNat ∧ it.1.2.toNat ∈ x.loc

theorem fold_substStep_none (its : List ((Int × Int) × Op)) (g : Nat → Op → Op) (k : Nat) (x : Op)
    (h : ∀ it ∈ its, ¬ Addr it k x) : (its.foldl substStep g) k x = g k x := by
  induction its generalizing g with
  | nil => rfl
  | cons it t ih =>
    simp only [List.foldl_cons]
    rw [ih _ (fun it' h' => h it' (by simp [h']))]
    have := h it (by simp)
    unfold Addr at this
    simp [substStep, this]

/-- an operation addressed by no item is left alone -/
theorem substAll_none (its : List ((Int × Int) × Op)) (k : Nat) (x : Op)
    (h : ∀ it ∈ its, ¬ Addr it k x) : substAll its k x = x :=
  fold_substStep_none its _ k x h

/-- an addressed operation becomes the operation of the last item addressing it -/
theorem substAll_last (pre post : List ((Int × Int) × Op)) (it : (Int × Int) × Op) (k : Nat)
    (x : Op) (ha : Addr it k x) (h : ∀ it' ∈ post, ¬ Addr it' k x) :
    substAll (pre ++ it :: post) k x = it.2 := by
  unfold substAll
  rw [List.foldl_append, List.foldl_cons, fold_substStep_none post _ k x h]
  unfold Addr at ha
  simp [substStep, ha]

end BqVerif.Circ
