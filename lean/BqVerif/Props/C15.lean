import BqVerif.Proofs.Sched
import BqVerif.Proofs.Link
import BqVerif.Proofs.NodeInv
import BqVerif.Model.RuntimeWitness
/-!
# C15 — scheduler bookkeeping stays in bounds and assigns every task exactly once

Model: `BqVerif/Model/Sched.lean` (`assign_tasks`, `schedule_tasks`, `handle_waiting`,
counters of `RuntimeEmployee`), `Model/Link.lean` (one boss–employee link over FIFO channels),
`Model/Network.lean` (whole system; used for the witness).
-/
namespace BqVerif.Runtime

/-- (a) **Every task is assigned exactly once.** For every outcome of `random.shuffle` (`shuf`,
    any list of employee indices) and of the `random.random()` tie-breaks (`rs`), the lists
    returned by `assign_tasks` contain, together, exactly the tasks it was given - a
    permutation, so nothing is lost and nothing is duplicated - and there is one list per
    employee. (`emps ≠ []` is only needed when tasks outnumber idle workers: the code then
    indexes `ntasks[0]`.) -/
theorem C15_assign_partition {α} (emps : List Emp) (tasks : List α) (shuf rs : List Nat)
    (hshuf : ∀ i ∈ shuf, i < emps.length) (hne : tasks.length ≤ shuf.length ∨ emps ≠ []) :
    (assignTasks emps tasks shuf rs).flatten.Perm tasks
    ∧ (assignTasks emps tasks shuf rs).length = emps.length :=
  ⟨assignTasks_perm emps tasks shuf rs hshuf hne, assignTasks_length emps tasks shuf rs⟩

example : (assignTasks [{ id := 0, total := 1, idle := 1 }, { id := 1, total := 1, idle := 0 }]
    [10, 11, 12] [0] [5, 3]).flatten.Perm [10, 11, 12] :=
  (C15_assign_partition _ _ _ _ (by decide) (Or.inr (by decide))).1

/-- (a) **Idle workers are served first.** If the shuffled list is a permutation of the idle
    list: with at most as many tasks as idle workers nobody gets more tasks than it has idle
    workers; with at least as many, everybody gets at least its idle count. -/
theorem C15_idle_first {α} (emps : List Emp) (tasks : List α) (shuf rs : List Nat)
    (hperm : shuf.Perm (idleList emps)) (e : Nat) (he : e < emps.length) :
    (tasks.length ≤ shuf.length →
      ((assignTasks emps tasks shuf rs).getD e []).length ≤ ((emps.getD e default).idle).toNat)
    ∧ (shuf.length ≤ tasks.length →
      ((emps.getD e default).idle).toNat ≤ ((assignTasks emps tasks shuf rs).getD e []).length) :=
  ⟨fun h => assignTasks_le_idle emps tasks shuf rs hperm h e he,
   fun h => assignTasks_ge_idle emps tasks shuf rs hperm h e he⟩

example : (2 : Int).toNat ≤ ((assignTasks
    [({ id := 0, total := 2, idle := 2 } : Emp), { id := 1, total := 1, idle := 1 }]
    [10, 11, 12, 13] [1, 0, 0] [0, 0]).getD 0 []).length :=
  (C15_idle_first [({ id := 0, total := 2, idle := 2 } : Emp), { id := 1, total := 1, idle := 1 }]
    [10, 11, 12, 13] [1, 0, 0] [0, 0] (by decide) 0 (by decide)).2 (by decide)

/-- operations on a boss's bookkeeping (everything `handle_message` can do to the counters) -/
inductive BossOp where
  | sched (ts : List Task) (asg : List Nat)
  | waiting (ei : Nat) (n : Int) (r : Option Addr)
  | update (ei : Nat) (d : Int)
  | completed (by_ : Int)

/-- the employee reports at most its own size in WAITING (1 for a worker; a manager reports
    its own `num_idle_workers`, bounded by this very theorem applied to the manager) -/
def BossOp.envOK (b : Boss) : BossOp → Prop
  | .waiting ei n _ => ∀ e, b.emps[ei]? = some e → n ≤ e.total
  | _ => True

/-- errors (the node shuts down) leave the state as it is -/
def Boss.applyOp (b : Boss) : BossOp → Boss
  | .sched ts asg => (b.schedule ts asg).1
  | .waiting ei n r => match b.waiting ei n r with | .ok b' => b' | .error _ => b
  | .update ei d => b.update ei d
  | .completed by_ => (b.completed by_).getD b

/-- (b) **Idle counts stay in bounds, their sum is the node's count.** The invariant
    `0 ≤ e.num_idle_workers ≤ e.total_workers` for every employee,
    `self.num_idle_workers = Σ e.num_idle_workers`, `Σ e.total_workers = self.total_workers`
    is preserved by every operation, for every assignment (legal or not) and every read
    receipt. -/
theorem C15_idle_bounds (b : Boss) (op : BossOp) (h : BossInv b) (henv : op.envOK b) :
    BossInv (b.applyOp op) := by
  cases op with
  | sched ts asg => exact schedule_inv b ts asg h
  | waiting ei n r =>
    have := waiting_inv b ei n r h henv
    simp only [Boss.applyOp]
    cases hw : b.waiting ei n r with
    | ok b' => rw [hw] at this; exact this
    | error e => exact h
  | update ei d => exact update_inv b ei d h
  | completed by_ =>
    simp only [Boss.applyOp]
    cases hc : b.completed by_ with
    | none => exact h
    | some b' => exact completed_inv b b' by_ h hc

/-- … hence along every sequence of operations: the invariant, the bounds
    `0 ≤ num_idle_workers ≤ total_workers` and the sum equation hold in every reachable state -/
theorem C15_sum_invariant (b : Boss) (ops : List BossOp) (h : BossInv b)
    (henv : ∀ (pre : List BossOp) (op : BossOp) (post : List BossOp), ops = pre ++ op :: post →
      op.envOK (pre.foldl Boss.applyOp b)) :
    let b' := ops.foldl Boss.applyOp b
    BossInv b' ∧ 0 ≤ b'.numIdle ∧ b'.numIdle ≤ b'.total ∧ b'.numIdle = sumIdle b'.emps := by
  have key : BossInv (ops.foldl Boss.applyOp b) := by
    induction ops generalizing b with
    | nil => exact h
    | cons op ops ih =>
      simp only [List.foldl_cons]
      apply ih (b.applyOp op) (C15_idle_bounds b op h (henv [] op ops rfl))
      intro pre op' post he
      have := henv (op :: pre) op' post (by rw [he]; rfl)
      simpa using this
  exact ⟨key, key.assertion.1, key.assertion.2, key.sum⟩

/-- (b) **The runtime's own consistency assertion never fires** (`handle_waiting`). -/
theorem C15_assertion_unreachable (b : Boss) (ei : Nat) (n : Int) (r : Option Addr)
    (h : BossInv b) (henv : ∀ e, b.emps[ei]? = some e → n ≤ e.total) :
    b.waiting ei n r ≠ .error .assertion := by
  have := waiting_inv b ei n r h henv
  intro he; rw [he] at this; exact this rfl

/-- (b) **Per-node counter invariant in manager trees.**  Every message handler of a `Manager`
    (`handle_message`, from above and from below, any message, any assignment) keeps the
    bookkeeping invariant of its own employees - idle counts within `0 … total_workers`, their sum
    equal to the node's `num_idle_workers`, totals adding up - as long as the manager keeps
    running, provided the employee that sends a WAITING reports at most its own size. -/
theorem C15_T_manager_counters (g : Manager) (src : NodeId) (m : Msg) (asg : List Nat) (h : BossInv g.boss)
    (henv : ∀ ei, waitingOK g.boss ei m) (hr : (g.handle src m asg).st.running = true) :
    BossInv (g.handle src m asg).st.boss
    ∧ 0 ≤ (g.handle src m asg).st.boss.numIdle
    ∧ (g.handle src m asg).st.boss.numIdle ≤ (g.handle src m asg).st.boss.total :=
  ⟨Manager.handle_inv g src m asg h henv hr, (Manager.handle_inv g src m asg h henv hr).assertion.1,
   (Manager.handle_inv g src m asg h henv hr).assertion.2⟩

/-- (b) the same for the server (`DetachedServer.handle_message`: messages from clients and from
    below, including cancellation of compilations, disconnects in any iteration order, errors). -/
theorem C15_T_server_counters (s : Server) (src : NodeId) (m : Msg) (asg ord : List Nat) (h : BossInv s.boss)
    (henv : ∀ ei, waitingOK s.boss ei m) (hr : (s.handle src m asg ord).st.running = true) :
    BossInv (s.handle src m asg ord).st.boss :=
  Server.handle_inv s src m asg ord h henv hr

/-- non-vacuity: a manager over two workers schedules a batch from above and keeps running -/
example :
    let es : List Emp := [{ id := 0, total := 1, idle := 1 }, { id := 1, total := 1, idle := 1 }]
    let b : Boss := { lb := 0, step := 1, numIdle := 2, total := 2, emps := es }
    let g : Manager := { boss := b, idx := 0, lastSent := 2 }
    let t : Task := { addr := ⟨-1, 0, 0⟩, comp := 0, crumbs := [], prog := 0, tag := [0] }
    BossInv g.boss ∧ (g.handle .server (.submit t) [0]).st.running = true
    ∧ (g.handle .server (.submit t) [0]).st.boss.numIdle = 1 := by
  refine ⟨⟨by decide, by decide, by decide⟩, by decide, by decide⟩

/-- the initial state of a node over workers satisfies the invariant -/
example : BossInv (Net.initFlat [] true 2 1).server.boss :=
  ⟨by decide, by decide, by decide⟩

/-- (b) **Every read receipt that can arrive is in the submit cache**: over FIFO channels,
    for every interleaving of batches sent, batches received, WAITING messages emitted,
    completions, cancellations and deliveries on one boss–employee link,
    `get_num_of_tasks_sent_since` never raises. -/
theorem C15_receipt_in_cache (e : Emp) (ops : List LinkOp) :
    (Link.init e).run ops ≠ .error .receiptMissing :=
  Link.run_no_receipt_error ops (LinkInv.init e)

/-- (b) **Per-employee task counts never go negative** (same link machine): the count is
    always the number of tasks in flight to, held by, reported done by, or dropped at the
    employee. -/
theorem C15_num_tasks_nonneg (e : Emp) (ops : List LinkOp) (l : Link)
    (h : (Link.init e).run ops = .ok l) : 0 ≤ l.emp.numTasks := by
  have := (LinkInv.run ops (LinkInv.init e) h).count
  omega

example : ∃ l, (Link.init { id := 0, total := 1, idle := 1 }).run
    [.send ⟨0, 0, 0⟩ 2, .emitWaiting 1, .recvDown, .recvUp, .finish, .emitWaiting 1, .recvUp,
     .recvUp] = .ok l := ⟨_, rfl⟩

/-- (c) **holds without cancellation, and the drift is exactly the discarded tasks** (link
    machine): whenever nothing is in flight on the link in either direction, the boss's
    `num_tasks` for the employee equals the number of tasks the employee holds plus the number of
    tasks that CANCELs removed from it; so in a run in which no task is discarded it is exact. -/
theorem C15_exact_without_cancel (e : Emp) (ops : List LinkOp) (l : Link)
    (h : (Link.init e).run ops = .ok l) (hd : l.down = []) (hu : l.up = []) :
    l.emp.numTasks = ((l.held + l.dropped : Nat) : Int)
    ∧ ((∀ op ∈ ops, op.isDiscard = false) → l.emp.numTasks = (l.held : Int)) := by
  have hc := (LinkInv.run ops (LinkInv.init e) h).count
  rw [hd, hu] at hc
  simp only [List.map_nil, List.sum_nil, donesOf] at hc
  refine ⟨by rw [hc]; congr 1; omega, fun hn => ?_⟩
  have := Link.run_dropped ops h hn
  rw [hc]
  simp only [Link.init] at this
  rw [this]; simp

example : ∃ l, (Link.init { id := 0, total := 1, idle := 1 }).run
    [.send ⟨0, 0, 0⟩ 2, .recvDown, .finish, .recvUp] = .ok l ∧ l.down = [] ∧ l.up = [] ∧ l.held = 1
    ∧ l.emp.numTasks = 1 := ⟨_, rfl, rfl, rfl, rfl, rfl⟩

/-- (c) is **false of the code after a cancellation**: the model (which follows the code)
    reaches an idle state - all channels empty, the worker blocked, holding no task, no
    delayed task, no mailbox - in which the server still counts one outstanding task for it.
    (`num_idle_workers` is exact.)  Replayed on the real code by the harness. -/
theorem C15_drift_witness :
    let n := (Net.initFlat driftTable false 1 1).exec driftRun
    n.quiescent = true
    ∧ n.workers.map (fun w => (w.tasks.length, w.delayed.length, w.boxes.length)) = [(0, 0, 0)]
    ∧ n.server.boss.emps.map (·.numTasks) = [1]
    ∧ n.server.boss.emps.map (·.idle) = [1] := by
  decide +kernel

end BqVerif.Runtime
