/-
C03 — compile() of a unitary, state or state system reaches its target.

Proved: the COMPOSITION over every regenerated unitary / state / state-system workflow —
`SetTargetPass(input)` runs before any pass that measures against `data.target`, the synthesis
leaf makes the circuit mean that target (within its threshold: hypothesis `numOK`, MEASURED by the
harness on every run), everything after it preserves the meaning; list inputs come back one
result per input in input order; the distance budget.  Partial: convergence of the numerical
search is not proved (optimisers, native cost engine).
-/
import BqVerif.Proofs.Pipeline
import BqVerif.Proofs.PipelineChecks
import BqVerif.Proofs.PipelineBudget
import BqVerif.Proofs.PipelineMisc

namespace BqVerif.Props.C03
open BqVerif.Pipeline BqVerif.Generated.Workflows BqVerif.PipelineBudget

/-- Every regenerated unitary / state / state-system workflow ends with the circuit meaning the
user's target (up to the reported mappings and the ε-ledger), under `numOK`. -/
theorem C03_post : ∀ w ∈ workflows, w.isCircuit = false → semOK w.final = true := by
  intro w hw hc
  have := allCheck_c03 (workflows_ok w hw)
  simpa [c03Check, hc] using this

example : (workflows.filter (fun w => !w.isCircuit)).length ≥ 500 := by decide +kernel

/-- `numOK` is really used, and the target must be set BEFORE the synthesis leaf: a state
workflow whose `SetTargetPass` comes after the synthesis (or carries another object than the
input) does not satisfy the postcondition. -/
theorem C03_post_needs_target_first :
    semOK (witStatePrep.final {}) = true
    ∧ (witStatePrep.final { numOK := false }).circBad = true
    ∧ semOK (ainterp witStatePrep.cfg {} (.seq (.leaf .setModel { flag := true })
        (.seq (.leaf .leap {}) (.seq (.leaf .setTarget { flag := true }) .skip)))
        (init witStatePrep.cfg)) = false
    ∧ semOK (ainterp witStatePrep.cfg {} (.seq (.leaf .setModel { flag := true })
        (.seq (.leaf .setTarget { flag := false }) (.seq (.leaf .leap {}) .skip)))
        (init witStatePrep.cfg)) = false := by decide +kernel

/-- No modelled pass of any regenerated unitary / state / state-system workflow can raise where it
is reachable, outside four witnessed defect classes.  The translator RUNS the layer generators,
template generators and deterministic single-qudit rules on dummy blocks of the configuration's
model, and RUNS every leaf that calls `Circuit.instantiate` (QSearch, LEAP, ScanningGateRemoval,
AutoRebase, PermutationAwareSynthesis) in-process on a dummy target of the configuration's kind
(unitary / state / state system) and width with the leaf's own cost generator and instantiate
options — so a non-residual cost generator handed to the default least-squares minimizer (the
/repo defect fixed by bad39d6: every `compile(StateVector, optimization_level >= 2)` raised in
ScanningGateRemovalPass), a forced minimizer that refuses the gate set (fixed for one-qubit
unitaries by 10f69ef) or a target type the leaf cannot handle is a modelled raise. -/
theorem C03_no_modelled_pass_raises :
    ∀ w ∈ workflows, w.isCircuit = false → w.raiseScope = true → w.final.crash = false := by
  intro w hw _ hs
  have := allCheck_noRaise (workflows_ok w hw)
  simpa [noRaise, hs] using this

/-- The scope holds every unitary workflow of a model with a capable instantiater and the state /
state-system workflows of levels 1–3 on two or more qudits. -/
example : (workflows.filter (fun w => !w.isCircuit && w.raiseScope)).length ≥ 330 := by
  decide +kernel

/-- Regression obligations for the two /repo fixes: the level-2 state-preparation tree (whose
ScanningGateRemovalPass got `cost=HilbertSchmidtCostGenerator()` before bad39d6) and the
one-qubit unitary tree of the `{CZ, VariableUnitaryGate(1)}` model (whose QSearch forced
`method='minimization'` before 10f69ef) cannot raise. -/
theorem C03_fixed_classes_do_not_raise :
    witStateL2.raiseScope = true ∧ witStateL2.final.crash = false
      ∧ witCzVaruUnitary1Q.final.crash = false := by decide +kernel

/-- Finding (not fixed) F-noinst: `{CZ, VariableUnitaryGate(1)}` — unitaries on two or more
qudits. -/
theorem C03_noinstantiater_witness :
    witCzVaruUnitary.noInstantiater = true ∧ witCzVaruUnitary.final.crash = true := by
  decide +kernel

/-- Finding F-state-min: state / state-system workflows force `method='minimization'`; with a
VariableUnitaryGate in the gate set — also the DEFAULT qutrit gate set — every such compilation
raises. -/
theorem C03_state_forced_minimization_witness :
    witQutritState.stateForcedMinimization = true ∧ witQutritState.cfg.m.anyCapable = true
      ∧ witQutritState.final.crash = true := by decide +kernel

/-- Finding F-pas-state: at level 4 the state / state-system synthesis runs inside
PermutationAwareSynthesisPass, which raises on a target that is not a unitary. -/
theorem C03_pas_on_state_witness :
    witStateL4.pasOnState = true ∧ witStateL4.final.crash = true
      ∧ witSystemL4.pasOnState = true ∧ witSystemL4.final.crash = true := by decide +kernel

/-- Finding F-state-1q: one-qudit states (levels >= 2) and one-qudit state systems: the search
asks the multi-qudit layer generator to expand a one-qudit circuit. -/
theorem C03_one_qudit_state_witness :
    witState1Q.oneQuditStateSearch = true ∧ witState1Q.final.crash = true
      ∧ witSystem1Q.oneQuditStateSearch = true ∧ witSystem1Q.final.crash = true := by
  decide +kernel

/-- The submit / collect loop of `compile()` for a sequence of inputs (`job_ids = [submit …]`,
`results = [result(id) for id in job_ids]`) returns exactly one result per input, in input order,
each the result of ITS task — for any task list, any starting id. -/
theorem C03_list_order {α β : Type} (run : α → β) (next : Nat) (tasks : List α) :
    compileList run next tasks = tasks.map (fun t => some (run t)) :=
  compileList_eq run next tasks

example : compileList (fun n : Nat => n * n) 7 [3, 1, 2] = [some 9, some 1, some 4] := by decide

/-- The budget of C01/C03 (see Props/C01.lean): `K` accepted replacements of cost `< ε`. -/
theorem C03_budget (ε : ℝ) (hε : ε ≤ 1) (costs : List ℝ)
    (h : ∀ c ∈ costs, 0 ≤ c ∧ c < ε) :
    (costs.map distOfCost).sum ≤ costs.length * distOfCost ε :=
  budget ε hε costs h

example : ∃ (ε : ℝ) (costs : List ℝ), ε ≤ 1 ∧ costs ≠ [] ∧ ∀ c ∈ costs, 0 ≤ c ∧ c < ε :=
  ⟨1, [0], le_refl _, by simp, by
    intro c hc
    simp only [List.mem_cons, List.not_mem_nil, or_false] at hc
    subst hc; norm_num⟩

end BqVerif.Props.C03
