/-
C03 — compile() of a unitary, state or state system reaches its target.

Proved: the COMPOSITION over every regenerated unitary / state / state-system workflow —
`SetTargetPass(input)` runs before any pass that measures against `data.target`, the synthesis
leaf makes the circuit mean that target (within its threshold: hypothesis `numOK`, MEASURED by the
harness on every run), everything after it preserves the meaning; list inputs come back one
result per input in input order; the distance budget.  Partial: convergence of the numerical
search is not proved (optimisers, native cost engine).
-/
import BqVerif.Proofs.Pipeline
import BqVerif.Proofs.PipelineChecks
import BqVerif.Proofs.PipelineBudget
import BqVerif.Proofs.PipelineMisc

namespace BqVerif.Props.C03
open BqVerif.Pipeline BqVerif.Generated.Workflows BqVerif.PipelineBudget

/-- Every regenerated unitary / state / state-system workflow ends with the circuit meaning the
user's target (up to the reported mappings and the ε-ledger), under `numOK`. -/
theorem C03_post : ∀ w ∈ workflows, w.isCircuit = false → semOK w.final = true := by
  intro w hw hc
  have := allCheck_c03 (workflows_ok w hw)
  simpa [c03Check, hc] using this

example : (workflows.filter (fun w => !w.isCircuit)).length ≥ 500 := by decide +kernel

/-- `numOK` is really used, and the target must be set BEFORE the synthesis leaf: a state
workflow whose `SetTargetPass` comes after the synthesis (or carries another object than the
input) does not satisfy the postcondition. -/
theorem C03_post_needs_target_first :
    semOK (witStatePrep.final {}) = true
    ∧ (witStatePrep.final { numOK := false }).circBad = true
    ∧ semOK (ainterp witStatePrep.cfg {} (.seq (.leaf .setModel { flag := true })
        (.seq (.leaf .leap {}) (.seq (.leaf .setTarget { flag := true }) .skip)))
        (init witStatePrep.cfg)) = false
    ∧ semOK (ainterp witStatePrep.cfg {} (.seq (.leaf .setModel { flag := true })
        (.seq (.leaf .setTarget { flag := false }) (.seq (.leaf .leap {}) .skip)))
        (init witStatePrep.cfg)) = false := by decide +kernel

/-- No modelled pass of any regenerated unitary / state / state-system workflow can raise where
it is reachable (the translator RUNS the layer generators, template generators and deterministic
single-qudit rules on dummy blocks of the configuration's model; before the fix d7fbe96
`GeneralSQDecomposition` raised on qutrit blocks and this statement failed for the qutrit model
class). -/
theorem C03_no_modelled_pass_raises :
    ∀ w ∈ workflows, w.isCircuit = false → w.final.crash = false := by
  intro w hw _
  have := allCheck_noRaise (workflows_ok w hw)
  simpa [noRaise] using this

/-- The submit / collect loop of `compile()` for a sequence of inputs (`job_ids = [submit …]`,
`results = [result(id) for id in job_ids]`) returns exactly one result per input, in input order,
each the result of ITS task — for any task list, any starting id. -/
theorem C03_list_order {α β : Type} (run : α → β) (next : Nat) (tasks : List α) :
    compileList run next tasks = tasks.map (fun t => some (run t)) :=
  compileList_eq run next tasks

example : compileList (fun n : Nat => n * n) 7 [3, 1, 2] = [some 9, some 1, some 4] := by decide

/-- The budget of C01/C03 (see Props/C01.lean): `K` accepted replacements of cost `< ε`. -/
theorem C03_budget (ε : ℝ) (hε : ε ≤ 1) (costs : List ℝ)
    (h : ∀ c ∈ costs, 0 ≤ c ∧ c < ε) :
    (costs.map distOfCost).sum ≤ costs.length * distOfCost ε :=
  budget ε hε costs h

example : ∃ (ε : ℝ) (costs : List ℝ), ε ≤ 1 ∧ costs ≠ [] ∧ ∀ c ∈ costs, 0 ≤ c ∧ c < ε :=
  ⟨1, [0], le_refl _, by simp, by
    intro c hc
    simp only [List.mem_cons, List.not_mem_nil, or_false] at hc
    subst hc; norm_num⟩

end BqVerif.Props.C03
