import BqVerif.Proofs.PickleMain
import BqVerif.Proofs.PickleKahn
import BqVerif.Proofs.PickleEq
import BqVerif.Proofs.PickleBridge
import BqVerif.Proofs.PickleRec
import BqVerif.Proofs.PickleErr
import BqVerif.Proofs.CircKahn2
import BqVerif.Proofs.PickleKey
import BqVerif.Proofs.PickleKeyNec
/-!
C16 — objects shipped between processes arrive equal to what was sent.

Model: `Model/Pickle.lean` (`Circ.reduceWith` = `Circuit.__reduce__`, `Pickled.rebuild` =
`rebuild_circuit`, record models of `copy/become/update`).  Field tables:
`Generated/Fields.lean`, rewritten from the live source by `translate/fields.py`.
Clause (d) "a copy shares no mutable state" is a heap property: decided by the harness's
object-graph walk only (the record model has no heap); here only the *mode* of every
assignment (`deepcopy` or immutable value) is checked on the generated tables.
-/
namespace BqVerif.Props.C16
open BqVerif.Circ BqVerif.Generated.Fields

/-! ### (a) pickle round trip of a circuit -/

/-- `rebuild_circuit(*c.__reduce__()[1])` for a well-formed circuit `c` (no idle cycle, ops of a
cycle disjoint, every op fits; at least one qudit, radixes ≥ 2), for ANY listing `tbl` of the
gate set and the row-major iteration: the result is `c` with every cycle listed in iteration
order — same radixes, same cycles as multisets in the same order, hence well-formed again,
the same grid cell by cell, the same qudit timelines and the same iteration. -/
theorem C16_reduce_rebuild (c : Circ) (hi : c.Inv) (hr : c.radOk = true)
    (tbl : List GateId) (ht : ∀ o ∈ c.ops, o.gate ∈ tbl) :
    (c.reduceWith tbl c.iterCyc).rebuild = .ok c.canon ∧
    SameLayout c.canon c ∧ c.canon.Inv ∧
    (∀ k q, c.canon.cell k q = c.cell k q) ∧
    (∀ q, c.canon.timeline q = c.timeline q) ∧
    c.canon.iterCyc = c.iterCyc ∧ c.canon.iter = c.iter ∧
    c.canon.numCycles = c.numCycles :=
  ⟨reduceWith_rebuild_rowmajor c hi hr tbl ht, canon_sameLayout c,
   sameLayout_inv (canon_sameLayout c) hi, sameLayout_cell (canon_sameLayout c) hi,
   sameLayout_timeline (canon_sameLayout c) hi, canon_iterCyc c, canon_iter c,
   by simp [Circ.canon, Circ.numCycles]⟩

/-- the driver's instance: the gate table listed in first-use order -/
theorem C16_reduce_rebuild_table (c : Circ) (hi : c.Inv) (hr : c.radOk = true) :
    c.reduceRM.rebuild = .ok c.canon :=
  reduceWith_rebuild_rowmajor c hi hr c.gateTable (mem_gateTable c)

/-- The same for ANY iteration whose cycle indices never decrease, stay in range and carry,
for each `k`, exactly the operations of cycle `k` (`iterOkB`): the round trip keeps radixes and
every cycle up to the order inside it, hence `Inv`, every grid cell and every timeline. -/
theorem C16_reduce_rebuild_iteration (c : Circ) (hi : c.Inv) (hr : c.radOk = true)
    (tbl : List GateId) (ht : ∀ o ∈ c.ops, o.gate ∈ tbl) (it : List (Nat × Op))
    (hit : c.iterOkB it = true) :
    ∃ c', (c.reduceWith tbl it).rebuild = .ok c' ∧ SameLayout c' c ∧ c'.Inv ∧
      (∀ k q, c'.cell k q = c.cell k q) ∧ (∀ q, c'.timeline q = c.timeline q) ∧
      c'.numCycles = c.numCycles := by
  obtain ⟨c', h1, h2⟩ := reduceWith_rebuild_iter c hi hr tbl ht it hit
  exact ⟨c', h1, h2, sameLayout_inv h2 hi, sameLayout_cell h2 hi, sameLayout_timeline h2 hi,
    forall₂_perm_length h2.2⟩

/-- The heap-ordered Kahn walk (model of `CircuitDagIterator`, the iteration `__reduce__`
uses) yields cycle indices in non-decreasing order, all in range — for EVERY circuit. -/
theorem C16_kahn_order (c : Circ) :
    (c.iterKahn.map (·.1)).Pairwise (· ≤ ·) ∧ (∀ x ∈ c.iterKahn, x.1 < c.numCycles) ∧
    (c.kahnCovers = true → c.iterOkB c.iterKahn = true) :=
  ⟨iterKahn_sorted c, iterKahn_range c, iterOkB_kahn c⟩

/-- `__reduce__` as the code runs it (DAG iterator).  Remaining HYPOTHESIS, stated explicitly
and evaluated by the driver on every circuit of the workload: the items the Kahn walk yields
with cycle index `k` are exactly the operations of cycle `k` (each operation once; C05's
`iter_kahn_eq_rowmajor`).  That the indices come in order is `C16_kahn_order`. -/
theorem C16_reduce_rebuild_dag (c : Circ) (hi : c.Inv) (hr : c.radOk = true)
    (hk : c.kahnCovers = true) :
    ∃ c', c.reduce.rebuild = .ok c' ∧ SameLayout c' c ∧ c'.Inv ∧
      (∀ k q, c'.cell k q = c.cell k q) ∧ (∀ q, c'.timeline q = c.timeline q) ∧
      c'.numCycles = c.numCycles :=
  C16_reduce_rebuild_iteration c hi hr c.gateTable (mem_gateTable c) c.iterKahn
    (iterOkB_kahn c hk)

/-- Bridge for C05's `iter_kahn_eq_rowmajor` (proved elsewhere): once the Kahn walk is known to
equal the row-major iteration, `kahnCovers` holds and the DAG round trip needs no hypothesis
beyond well-formedness. -/
theorem C16_reduce_rebuild_dag_of_rowmajor (c : Circ) (hi : c.Inv) (hr : c.radOk = true)
    (hk : c.iterKahn = c.iterCyc) :
    c.kahnCovers = true ∧
    ∃ c', c.reduce.rebuild = .ok c' ∧ SameLayout c' c ∧ c'.Inv ∧
      (∀ k q, c'.cell k q = c.cell k q) ∧ (∀ q, c'.timeline q = c.timeline q) ∧
      c'.numCycles = c.numCycles :=
  ⟨kahnCovers_of_eq_rowmajor c hk,
   C16_reduce_rebuild_dag c hi hr (kahnCovers_of_eq_rowmajor c hk)⟩

/-- **The DAG round trip with no hypothesis beyond well-formedness**: `kahnCovers` is discharged
by C05's `iterKahn_eq_iterCyc` (the heap-ordered Kahn walk equals the row-major order under
`Inv`), so for every `Inv` circuit with matching radixes the payload built from the DAG iterator
rebuilds to a circuit with the same layout, cells, timelines and number of cycles. -/
theorem C16_reduce_rebuild_dag_full (c : Circ) (hi : c.Inv) (hr : c.radOk = true) :
    c.kahnCovers = true ∧
    ∃ c', c.reduce.rebuild = .ok c' ∧ SameLayout c' c ∧ c'.Inv ∧
      (∀ k q, c'.cell k q = c.cell k q) ∧ (∀ q, c'.timeline q = c.timeline q) ∧
      c'.numCycles = c.numCycles :=
  C16_reduce_rebuild_dag_of_rowmajor c hi hr (iterKahn_eq_iterCyc c hi)

/-- a circuit with a block-free mixed-radix layout used for the non-vacuity examples -/
def exC : Circ := ⟨[2, 3, 2], [[⟨6, [], [2, 0], [2, 2]⟩, ⟨11, [], [1], [3]⟩], [⟨4, [7], [0], [2]⟩]]⟩

theorem exC_inv : exC.Inv := by
  refine ⟨by decide, ?_, ?_⟩
  · intro cy hcy
    simp only [exC, List.mem_cons, List.not_mem_nil, or_false] at hcy
    rcases hcy with rfl | rfl
    · refine List.pairwise_cons.2 ⟨?_, by simp⟩
      intro b hb; simp only [List.mem_cons, List.not_mem_nil, or_false] at hb; subst hb
      intro q hq; simp at hq ⊢; omega
    · simp
  · intro cy hcy o ho
    simp only [exC, List.mem_cons, List.not_mem_nil, or_false] at hcy
    rcases hcy with rfl | rfl
    · simp only [List.mem_cons, List.not_mem_nil, or_false] at ho
      rcases ho with rfl | rfl <;> refine ⟨by decide, by decide, by decide, by decide⟩
    · simp only [List.mem_cons, List.not_mem_nil, or_false] at ho
      subst ho; exact ⟨by decide, by decide, by decide, by decide⟩

example : exC.reduceRM.rebuild = .ok exC.canon :=
  C16_reduce_rebuild_table exC exC_inv (by decide)
example : ∃ c', exC.reduce.rebuild = .ok c' ∧ SameLayout c' exC ∧ c'.Inv ∧
    (∀ k q, c'.cell k q = exC.cell k q) ∧ (∀ q, c'.timeline q = exC.timeline q) ∧
    c'.numCycles = exC.numCycles :=
  C16_reduce_rebuild_dag exC exC_inv (by decide) (by decide)
example : exC.kahnCovers = true :=
  (C16_reduce_rebuild_dag_of_rowmajor exC exC_inv (by decide) (by decide)).1
example : exC.kahnCovers = true := (C16_reduce_rebuild_dag_full exC exC_inv (by decide)).1
example : ∃ c', (exC.reduceWith exC.gateTable.reverse exC.iterKahn).rebuild = .ok c' ∧ SameLayout c' exC := by
  obtain ⟨c', h1, h2, _⟩ := C16_reduce_rebuild_iteration exC exC_inv (by decide) exC.gateTable.reverse
    (by intro o ho; exact List.mem_reverse.2 (mem_gateTable exC o ho)) exC.iterKahn (by decide)
  exact ⟨c', h1, h2⟩

/-- Why `Inv` (no idle cycle) is needed: the payload re-derives cycles from the iteration, so an
idle cycle is lost and the rebuilt circuit has fewer cycles.  Replayed on the real code by the
harness (a circuit with an idle cycle built through `_append_cycle`/`_append`). -/
def idleC : Circ := ⟨[2, 2], [[⟨1, [], [0], [2]⟩], [], [⟨1, [], [1], [2]⟩]]⟩
theorem C16_idle_cycle_witness :
    idleC.numCycles = 3 ∧
    idleC.reduce.rebuild = .ok ⟨[2, 2], [[⟨1, [], [0], [2]⟩], [⟨1, [], [1], [2]⟩]]⟩ ∧
    idleC.reduceRM.rebuild = .ok ⟨[2, 2], [[⟨1, [], [0], [2]⟩], [⟨1, [], [1], [2]⟩]]⟩ ∧
    idleC.cell 2 1 = some ⟨1, [], [1], [2]⟩ ∧
    (∀ c', idleC.reduce.rebuild = .ok c' → c'.cell 2 1 = none ∧ c'.numCycles = 2) := by
  refine ⟨by decide, by decide, by decide, by decide, ?_⟩
  intro c' h
  have h0 : idleC.reduce.rebuild = .ok ⟨[2, 2], [[⟨1, [], [0], [2]⟩], [⟨1, [], [1], [2]⟩]]⟩ := by
    decide
  rw [h0] at h
  cases h
  exact ⟨by decide, by decide⟩

/-! ### (a') the gate table is a dictionary keyed by the gates' own equality -/

/-- `_gate_info` / `gate_table` are Python dicts: what decides the slot of a gate is its
`__hash__`/`__eq__`, here an arbitrary `key`.  `rebuild (reduce c) = c` REQUIRES the key to
separate the gates that occur in the circuit:
* if it does (`c.KeyInj key`), the dictionary-keyed payload is the payload of `reduceWith` for a
  listing of the gate set and the round trip returns `c` (row-major iteration, and the DAG
  iteration the code uses), with the layout conclusions of `C16_reduce_rebuild`;
* conversely, for ANY table: if every operation of `c` comes back as itself through
  `gate_table[op.gate]` and `Operation(gate_table[i], …)`, the key separates the gates of `c`.
The hypothesis is tied to the code dynamically: on every shipped circuit the harness evaluates
the real `==` against an independent description of the gates (`gate-key-not-injective`) and
compares what arrives per operation by that description and by the unitary. -/
theorem C16_reduce_rebuild_keyed {K : Type} [DecidableEq K] (c : Circ) (hi : c.Inv)
    (hr : c.radOk = true) (key : GateId → K) (hinj : c.KeyInj key) :
    (c.reduceKey key c.iterCyc).rebuild = .ok c.canon ∧
    (c.reduceKey key c.iterKahn).rebuild = .ok c.canon ∧
    SameLayout c.canon c ∧ (∀ k q, c.canon.cell k q = c.cell k q) ∧
    (∀ q, c.canon.timeline q = c.timeline q) := by
  have h1 : (c.reduceKey key c.iterCyc).rebuild = .ok c.canon := by
    rw [reduceKey_eq_reduceWith c key hinj c.iterCyc (mem_iterCyc_ops' c)]
    exact reduceWith_rebuild_rowmajor c hi hr _ (keyTable_lists c key hinj)
  refine ⟨h1, ?_, canon_sameLayout c, sameLayout_cell (canon_sameLayout c) hi,
    sameLayout_timeline (canon_sameLayout c) hi⟩
  rw [iterKahn_eq_iterCyc c hi]; exact h1

/-- necessity: a round trip that returns every operation forces a separating key -/
theorem C16_keyed_requires_injective {K : Type} [DecidableEq K] (c : Circ) (key : GateId → K)
    (tbl : List GateId) (h : ∀ o ∈ c.ops, mkOp tbl (marshalKey key tbl o) = .ok o) :
    c.KeyInj key ∧ c.keyInjB key = true :=
  ⟨keyInj_of_roundtrip c key tbl h, (keyInjB_iff c key).2 (keyInj_of_roundtrip c key tbl h)⟩

/-- **`rebuild (reduce c) = c` ⇔ the key separates the gates of `c`** — for every well-formed
circuit and every key.  (⇐) is `C16_reduce_rebuild_keyed`; (⇒): `rebuild_circuit` is sound (the
cycles it returns are the payload's groups, each marshalled operation rebuilt through its table
slot, `rebuild_sound`), so a payload that rebuilds to `c` returned every operation as itself. -/
theorem C16_reduce_rebuild_keyed_iff {K : Type} [DecidableEq K] (c : Circ) (hi : c.Inv)
    (hr : c.radOk = true) (key : GateId → K) :
    (c.reduceKey key c.iterCyc).rebuild = .ok c.canon ↔ c.KeyInj key :=
  ⟨keyInj_of_rebuild c hi.1 key, fun h => (C16_reduce_rebuild_keyed c hi hr key h).1⟩

/-- the full identity is a separating key for every circuit (this is what `Model/Pickle` uses) -/
theorem C16_keyInj_id (c : Circ) : c.KeyInj (fun g => g) := fun _ _ _ _ h => h

/-- Witness (seeded change C16-6): a qutrit control on qudit 0, `gid 1` = "X on the target when
the control is |1>", `gid 2` = "… when the control is |2>"; a key that looks at radixes and
parameter count only (`ControlledGate.__eq__` without `control_levels`) puts both into one slot:
the circuit that arrives carries `gid 1` twice — another circuit, which the coarse equality
itself cannot tell from the one sent; with the full identity as key the circuit arrives. -/
def lvlC : Circ := ⟨[3, 2, 2], [[⟨1, [], [0, 1], [3, 2]⟩], [⟨2, [], [0, 2], [3, 2]⟩]]⟩
def lvlArrived : Circ := ⟨[3, 2, 2], [[⟨1, [], [0, 1], [3, 2]⟩], [⟨1, [], [0, 2], [3, 2]⟩]]⟩
def coarseKey (g : GateId) : List Nat × Nat := (g.rad, g.npar)

theorem C16_coarse_key_witness :
    lvlC.keyInjB coarseKey = false ∧
    (lvlC.reduceKey coarseKey lvlC.iterCyc).rebuild = .ok lvlArrived ∧
    (lvlC.reduceKey coarseKey lvlC.iterKahn).rebuild = .ok lvlArrived ∧
    lvlArrived ≠ lvlC.canon ∧ lvlArrived.cell 1 2 ≠ lvlC.cell 1 2 ∧
    lvlArrived.ops.map (fun o => (coarseKey o.gate, o.par, o.loc)) =
      lvlC.ops.map (fun o => (coarseKey o.gate, o.par, o.loc)) ∧
    (lvlC.reduceKey (fun g => g) lvlC.iterKahn).rebuild = .ok lvlC.canon := by
  refine ⟨by decide, by decide, by decide, by decide, by decide, by decide, by decide⟩

theorem lvlC_inv : lvlC.Inv := by
  refine ⟨by decide, ?_, ?_⟩
  · intro cy hcy
    simp only [lvlC, List.mem_cons, List.not_mem_nil, or_false] at hcy
    rcases hcy with rfl | rfl <;> simp
  · intro cy hcy o ho
    simp only [lvlC, List.mem_cons, List.not_mem_nil, or_false] at hcy
    rcases hcy with rfl | rfl <;>
    · simp only [List.mem_cons, List.not_mem_nil, or_false] at ho
      subst ho; exact ⟨by decide, by decide, by decide, by decide⟩

example : (lvlC.reduceKey (fun g => g) lvlC.iterKahn).rebuild = .ok lvlC.canon :=
  (C16_reduce_rebuild_keyed lvlC lvlC_inv (by decide) _ (C16_keyInj_id lvlC)).2.1
example : (exC.reduceKey GateId.gid exC.iterCyc).rebuild = .ok exC.canon :=
  (C16_reduce_rebuild_keyed exC exC_inv (by decide) _
    ((keyInjB_iff exC GateId.gid).1 (by decide))).1
example : lvlC.KeyInj (fun g => g) ∧ lvlC.keyInjB (fun g => g) = true :=
  C16_keyed_requires_injective lvlC _ (keyTable (fun g => g) lvlC.gates) (by decide)
example : ¬ lvlC.KeyInj coarseKey := by
  intro h
  have h1 := (C16_reduce_rebuild_keyed_iff lvlC lvlC_inv (by decide) coarseKey).2 h
  rw [C16_coarse_key_witness.2.1] at h1
  exact C16_coarse_key_witness.2.2.2.1 (Except.ok.inj h1)
example : lvlC.KeyInj (fun g => g) :=
  (C16_reduce_rebuild_keyed_iff lvlC lvlC_inv (by decide) _).1
    (by rw [← iterKahn_eq_iterCyc lvlC lvlC_inv]; exact C16_coarse_key_witness.2.2.2.2.2.2)
/-- the hypothesis of `C16_keyed_requires_injective` fails for the coarse key (contrapositive) -/
example : ¬ ∀ o ∈ lvlC.ops, mkOp (keyTable coarseKey lvlC.gates)
    (marshalKey coarseKey (keyTable coarseKey lvlC.gates) o) = .ok o := by decide

/-! ### (b) `copy` / `become` assign every field -/

/-- `become`, both branches, for `Circuit` and `PassData` (tables read from the live source):
each assignment reads the field it writes, every attribute `__init__` creates and every
attribute any method of the class stores on `self` is assigned, the classes define no copy hook
that would bypass the field list (`Circuit` defines `__reduce__` only). -/
theorem C16_become_all_fields :
    (wellSourced circuitBecomeDeep ∧ coversAll circuitInit circuitBecomeDeep ∧
      coversAll circuitStored circuitBecomeDeep) ∧
    (wellSourced circuitBecomeShallow ∧ coversAll circuitInit circuitBecomeShallow ∧
      coversAll circuitStored circuitBecomeShallow) ∧
    (wellSourced passDataBecomeDeep ∧ coversAll passDataInit passDataBecomeDeep ∧
      coversAll passDataStored passDataBecomeDeep) ∧
    (wellSourced passDataBecomeShallow ∧ coversAll passDataInit passDataBecomeShallow ∧
      coversAll passDataStored passDataBecomeShallow) ∧
    deepOrImmutable circuitImmutable circuitBecomeDeep ∧
    deepOrImmutable passDataImmutable passDataBecomeDeep := by decide

/-- lifted to the record model: after `a.become(b)` (either branch, either class) every field
reads as `b`'s. -/
theorem C16_become_eq {V : Type} (a b : Rec V) :
    (∀ f ∈ circuitInit ++ circuitStored, runAssigns circuitBecomeDeep a b f = b f) ∧
    (∀ f ∈ circuitInit ++ circuitStored, runAssigns circuitBecomeShallow a b f = b f) ∧
    (∀ f ∈ passDataInit ++ passDataStored, runAssigns passDataBecomeDeep a b f = b f) ∧
    (∀ f ∈ passDataInit ++ passDataStored, runAssigns passDataBecomeShallow a b f = b f) :=
  ⟨runAssigns_eq_other _ _ (by decide) (by decide) a b,
   runAssigns_eq_other _ _ (by decide) (by decide) a b,
   runAssigns_eq_other _ _ (by decide) (by decide) a b,
   runAssigns_eq_other _ _ (by decide) (by decide) a b⟩

/-- `copy()`: `Circuit.copy` constructs from `(num_qudits, radixes)` and deep-copies the six
other fields; `PassData.copy` is `copy.deepcopy(self)` and the class defines no hook that
changes its meaning: every field is written from the field of the same name, deeply or
immutable. -/
theorem C16_copy_all_fields :
    (wellSourced circuitCopy ∧ coversAll circuitInit circuitCopy ∧
      coversAll circuitStored circuitCopy ∧ deepOrImmutable circuitImmutable circuitCopy) ∧
    (wellSourced passDataCopy ∧ coversAll passDataInit passDataCopy ∧
      coversAll passDataStored passDataCopy ∧ deepOrImmutable passDataImmutable passDataCopy) ∧
    passDataHooks = [] ∧ circuitHooks = ["__reduce__"] := by decide

theorem C16_copy_eq {V : Type} (fresh x : Rec V) :
    (∀ f ∈ circuitInit ++ circuitStored, runAssigns circuitCopy fresh x f = x f) ∧
    (∀ f ∈ passDataInit ++ passDataStored, runAssigns passDataCopy fresh x f = x f) :=
  ⟨runAssigns_eq_other _ _ (by decide) (by decide) fresh x,
   runAssigns_eq_other _ _ (by decide) (by decide) fresh x⟩

/-- the hand-written `PData` record has exactly the live field list, its `become` returns the
source and `copy` the receiver; `update(other)` makes every reserved field `other`'s. -/
theorem C16_passdata_record {V : Type} (a b : PData V)
    (hb : ∀ kv ∈ b.data, reservedKeys.contains kv.1 = false) :
    passDataInit = ["_data", "_error", "_final_mapping", "_initial_mapping", "_model",
      "_placement", "_seed", "_target"] ∧
    passDataReserved = reservedKeys ∧
    a.become b = b ∧ a.copy = a ∧
    ((a.update b).target = b.target ∧ (a.update b).error = b.error ∧
     (a.update b).model = b.model ∧ (a.update b).placement = b.placement ∧
     (a.update b).initialMapping = b.initialMapping ∧
     (a.update b).finalMapping = b.finalMapping ∧ (a.update b).seed = b.seed) :=
  ⟨by decide, by decide, by cases b; rfl, rfl, update_reserved a b hb⟩

example : ∃ (a b : PData Nat), (∀ kv ∈ b.data, reservedKeys.contains kv.1 = false) ∧ a ≠ b :=
  ⟨⟨0, 0, 0, 0, 0, 0, 0, []⟩, ⟨1, 2, 3, 4, 5, 6, 7, [("k", 8)]⟩, by decide, by decide⟩

/-! ### `update_error_mul` -/

/-- `e ↦ 1 − (1 − e)(1 − x)` keeps [0,1], is commutative and associative in the two errors,
monotone, never decreases the stored error, has 0 as unit, and is bounded by the additive
update. -/
theorem C16_update_error_mul (a a' b c : Rat) (ha : 0 ≤ a) (ha1 : a ≤ 1) (hb : 0 ≤ b) (hb1 : b ≤ 1) :
    (0 ≤ errMul a b ∧ errMul a b ≤ 1) ∧ errMul a b = errMul b a ∧
    errMul (errMul a b) c = errMul a (errMul b c) ∧
    (a ≤ a' → errMul a b ≤ errMul a' b) ∧ a ≤ errMul a b ∧ errMul a 0 = a ∧
    errMul a b ≤ a + b :=
  ⟨errMul_range a b ha ha1 hb hb1, errMul_comm a b, errMul_assoc a b c,
   fun h => errMul_mono a a' b h hb1, errMul_ge a b ha1 hb, errMul_zero a, errMul_le_add a b ha hb⟩

example : (0 : Rat) ≤ 1/4 ∧ (1/4 : Rat) ≤ 1 ∧ errMul (1/4) (1/2) = 5/8 :=
  ⟨by norm_num, by norm_num, by unfold errMul; norm_num⟩

/-! ### (c) equality and hash over the model gate identity -/

/-- model `Operation.__eq__` is structural equality (hence reflexive, symmetric, transitive),
equal operations hash equally, and an operation that went through the gate table
(`marshal` / `mkOp`) comes back equal with the same hash.  For the code after the fixes
8f3ffc9 / c6a0f46 / 15423cf: `CircuitGate.__eq__` (length test, then zip) is equality of the
whole operation sequence; `Circuit.__eq__` (equal gate-count tables, equal radix tuples, zip of
the iterations) is equality of radixes and of the whole iteration; the hash of a coupling graph
is the same for every listing of its edge set, so equal graphs hash equally. -/
theorem C16_eq_hash :
    (∀ a b : Op, a.eqOp b = true ↔ a = b) ∧
    (∀ a b : Op, a.eqOp b = true → a.hashOp = b.hashOp ∧ a.gate.hash = b.gate.hash) ∧
    (∀ a b : Op, a.eqOp b = b.eqOp a) ∧
    (∀ (tbl : List GateId) (o : Op) (n : Nat) (rad : List Nat), o.WF n rad → o.gate ∈ tbl →
      ∃ o', mkOp tbl (marshal tbl o) = .ok o' ∧ o'.eqOp o = true ∧ o'.hashOp = o.hashOp) ∧
    (∀ a b : List (GateId × List Nat), eqSeq a b = true ↔ a = b) ∧
    (∀ (ra rb : List Nat) (a b : List Op), eqCircuit ra a rb b = true ↔ ra = rb ∧ a = b) ∧
    (∀ (n : Nat) (l1 l2 : List (Nat × Nat)), l1.Perm l2 → graphHash n l1 = graphHash n l2) := by
  refine ⟨eqOp_iff, ?_, ?_, ?_, eqSeq_iff, eqCircuit_iff, graphHash_perm⟩
  · intro a b h; rw [(eqOp_iff a b).1 h]; exact ⟨rfl, rfl⟩
  · intro a b
    by_cases h : a = b
    · subst h; rfl
    · have h1 : a.eqOp b = false := by
        cases hab : a.eqOp b with
        | false => rfl
        | true => exact absurd ((eqOp_iff a b).1 hab) h
      have h2 : b.eqOp a = false := by
        cases hba : b.eqOp a with
        | false => rfl
        | true => exact absurd ((eqOp_iff b a).1 hba).symm h
      rw [h1, h2]
  · intro tbl o n rad hw hg
    exact ⟨o, mkOp_marshal tbl o n rad hw hg, (eqOp_iff o o).2 rfl, rfl⟩

/-- why the guards of the fixed code are needed: the zip alone accepts every prefix (so did
`CircuitGate.__eq__` for operation sequences and `Circuit.__eq__` for radixes), and a hash of
the listing itself separates two listings of one edge set. -/
theorem C16_eq_hash_guards :
    (∀ a t : List Nat, eqSeqZip a (a ++ t) = true ∧ eqSeqZip (a ++ t) a = true) ∧
    graphHashOld 4 [(0, 1), (2, 3)] ≠ graphHashOld 4 [(2, 3), (0, 1)] ∧
    graphHash 4 [(0, 1), (2, 3)] = graphHash 4 [(2, 3), (0, 1)] :=
  ⟨eqSeqZip_prefix, by decide, by decide⟩

example : [(0, 3), (1, 2), (2, 4)].Perm [(2, 4), (1, 2), (0, 3)] := by decide

example : ∃ (tbl : List GateId) (o : Op), o.WF 3 [2, 3, 2] ∧ o.gate ∈ tbl :=
  ⟨[⟨6, [2, 2], 0⟩], ⟨6, [], [2, 0], [2, 2]⟩, ⟨by decide, by decide, by decide, by decide⟩, by decide⟩

end BqVerif.Props.C16
