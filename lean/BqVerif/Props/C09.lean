import BqVerif.Proofs.RoutePerm
/-! C09 — placement, layout and routing (theorems; under construction) -/
namespace BqVerif.Route
open BqVerif.Graph (sortNat)

/-- `_apply_perm` maps permutations to permutations and acts as the composition on the touched
positions, leaving every other position alone. -/
theorem C09_apply_perm_perm {perm π : List Nat} (hnd : perm.Nodup) (hlt : ∀ q ∈ perm, q < π.length) :
    ∃ π', applyPerm perm π = some π' ∧ π'.length = π.length ∧
      (∀ i, i < perm.length → piAt π' ((sortNat perm).getD i 0) = piAt π (perm.getD i 0)) ∧
      (∀ q, q ∉ perm → piAt π' q = piAt π q) ∧ π'.Perm π :=
  applyPerm_spec hnd hlt

example : ∃ perm π : List Nat, perm.Nodup ∧ ∀ q ∈ perm, q < π.length :=
  ⟨[2, 0], [5, 6, 7], by decide, by decide⟩

end BqVerif.Route
