import BqVerif.Proofs.RouteWorkflow
import BqVerif.Proofs.RouteSem
import BqVerif.Proofs.RouteSemTrace
import BqVerif.Proofs.RouteSemInst
/-!
# C09 — placement, layout and routing preserve the program and respect the coupling

Model: `BqVerif/Model/Route.lean` (the SABRE / PAM forward pass as a nondeterministic machine,
the PassData bookkeeping of `[SetModelPass, placement, layout, routing, ApplyPlacement]`).
Every theorem quantifies over ALL circuits, graphs, placements and ALL accepted move
sequences; which sequence the heuristics of the real code pick is validated on every run
(harness/c09.py replays the recorded moves through `bqdriver route`).

Vocabulary
* `St.rem` – not yet executed logical operations, `St.pi` – logical ↦ physical assignment,
  `St.out` – what was appended to `mapped_circuit` (`Em.gate` an input operation relabelled,
  `Em.swap` an inserted swap, `Em.vswap` a virtual swap absorbed by a PAM variant block).
* `unroute π out = (L, π')` – follow the assignment through the swaps of `out`, translating every
  emitted operation back to logical qudits: `L` is the logical operation list in execution
  order, `π'` the final assignment.
* `proj q l` – qudit `q`'s timeline.  Equal timelines for every qudit ⇒ equal denotation
  (`Sem.trace_equiv`, S1).
* `EmOK free g e` – the coupling clause for one emitted item: barriers / blocks of single-qudit
  gates (`free`) and single-qudit operations are unconstrained, every other operation acts on a
  duplicate-free vertex set that is connected inside itself (`ConnectedOn`), an inserted swap
  acts on an edge.
* `PermN n π` – `π` is duplicate free, has `n` entries, all `< n`.
-/
namespace BqVerif.Route
open BqVerif.Circ (Op proj)
open BqVerif.Graph

/-! ## 1. the routing machine -/

/-- **Every accepted trace.**  For every coupling graph `g`, every input on `n` qudits
operation list and EVERY move sequence accepted by the forward pass (exec / swap / backtracking
unswap / PAM barrier and block moves) that empties the front:
* (π) `pi` is still a permutation of `0..n-1`;
* (3) every emitted item satisfies the coupling clause;
* (5) un-routing the emitted list from the identity assignment ends exactly at the final `pi`
  and yields a logical list `L` that is a rearrangement of the input with the SAME timeline on
  every qudit;
* (4) the emitted non-swap operations are, in order, the operations of `L` (same gate,
  parameters, radixes): nothing but swaps is added. -/
theorem C09_route_any_trace (free : Nat → Bool) (g : G) (n : Nat) (ops : List Op)
    (moves : List Move) (s : St)
    (hg : g.WF) (hw : OpsWF n ops)
    (hrun : run free g (init n ops) moves = some s) (hdone : s.rem = []) :
    PermN n s.pi ∧ s.pi.Perm (List.range n) ∧
    (∀ e ∈ s.out, EmOK free g e) ∧
    ∃ L, unroute (List.range n) s.out = (L, s.pi) ∧ L.Perm ops ∧ (∀ q, proj q L = proj q ops) ∧
      L.map strip = (gatesOf s.out).map strip := by
  have hinv := inv_run hg hw moves (inv_init free g n ops) hrun
  obtain ⟨L, hun, hp, hpr⟩ := hinv.un
  rw [hdone, List.append_nil] at hp
  simp only [hdone, List.append_nil] at hpr
  refine ⟨hinv.perm, hinv.perm.perm, hinv.ok, L, hun, hp, hpr, ?_⟩
  have := unroute_strip (List.range n) s.out
  rw [hun] at this
  exact this

/-- non-vacuity: a line 0-1-2, CX(0,2) then CX(0,1); one swap is needed -/
example : ∃ (g : G) (ops : List Op) (moves : List Move) (s : St),
    g.WF ∧ OpsWF 3 ops ∧
    run (fun _ => false) g (init 3 ops) moves = some s ∧ s.rem = [] ∧ s.pi = [0, 1, 2] :=
  by
  obtain ⟨s, hs, hp⟩ := (Option.any_eq_true _ _).1 (show (run (fun _ => false) ⟨3, [(0, 1), (1, 2)]⟩
    (init 3 [⟨1, [], [0, 2], [2, 2]⟩, ⟨1, [], [0, 1], [2, 2]⟩])
    [.swap 1 2, .exec 0, .swap 1 2, .exec 0]).any
      (fun s => decide (s.rem = []) && decide (s.pi = [0, 1, 2])) = true by decide)
  simp only [Bool.and_eq_true, decide_eq_true_eq] at hp
  exact ⟨_, _, _, s, by simp [G.WF], by simp [OpsWF], hs, hp.1, hp.2⟩

/-- **Every prefix.**  The same holds after ANY accepted move sequence, finished or not: `pi` is a
permutation, every emitted item respects the coupling, and un-routing what was emitted so far
gives exactly the current `pi` and a list `L` such that `L` followed by the not yet executed
operations has the input's timelines (so a pass that stops early, or a backtracked branch, never
leaves a state from which the program could not be completed correctly). -/
theorem C09_route_prefix (free : Nat → Bool) (g : G) (n : Nat) (ops : List Op)
    (moves : List Move) (s : St) (hg : g.WF) (hw : OpsWF n ops)
    (hrun : run free g (init n ops) moves = some s) :
    PermN n s.pi ∧ (∀ e ∈ s.out, EmOK free g e) ∧
    ∃ L, unroute (List.range n) s.out = (L, s.pi) ∧ (L ++ s.rem).Perm ops ∧
      ∀ q, proj q (L ++ s.rem) = proj q ops := by
  have hinv := inv_run hg hw moves (inv_init free g n ops) hrun
  exact ⟨hinv.perm, hinv.ok, hinv.un⟩

example : ∃ (g : G) (ops : List Op) (moves : List Move) (s : St),
    g.WF ∧ OpsWF 3 ops ∧ run (fun _ => false) g (init 3 ops) moves = some s ∧ s.rem ≠ [] := by
  obtain ⟨s, hs, hp⟩ := (Option.any_eq_true _ _).1 (show (run (fun _ => false) ⟨3, [(0, 1), (1, 2)]⟩
    (init 3 [⟨1, [], [0, 2], [2, 2]⟩, ⟨1, [], [0, 1], [2, 2]⟩])
    [.swap 1 2, .exec 0, .swap 1 2]).any (fun s => decide (s.rem ≠ [])) = true by decide)
  exact ⟨_, _, _, s, by simp [G.WF], by simp [OpsWF], hs, by simpa using hp⟩

/-- (3) for two-qudit operations: the two physical qudits are adjacent. -/
theorem C09_two_qudit_adjacent (free : Nat → Bool) (g : G) (o : Op) (x y : Nat)
    (h : EmOK free g (.gate o)) (hf : free o.gid = false) (hl : o.loc = [x, y]) :
    g.hasEdge x y = true := by
  simp only [EmOK, hf, hl] at h
  rcases h with h | h | ⟨h1, _, h3⟩
  · cases h
  · simp at h
  · exact connectedOn_pair (by simpa using h1) h3

example : ∃ (g : G) (o : Op), EmOK (fun _ => false) g (.gate o) ∧ o.loc = [0, 1] :=
  ⟨⟨2, [(0, 1)]⟩, ⟨1, [], [0, 1], [2, 2]⟩, by
    refine Or.inr (Or.inr ⟨by decide, by decide, ?_⟩)
    exact subgraph_connected_connectedOn (g := ⟨2, [(0, 1)]⟩) (by simp [G.WF])
      (loc := [0, 1]) (h := ⟨2, [(0, 1)]⟩) (by decide) (by decide) |>.2.2, rfl⟩

/-- `_can_exe` accepts exactly what the coupling clause allows. -/
theorem C09_can_exe_sound (free : Nat → Bool) (g : G) (hg : g.WF) (π : List Nat) (o : Op)
    (h : canExe free g π o = some true) : EmOK free g (.gate (relab (piAt π) o)) :=
  canExe_ok hg h

/-! ## 2. `_apply_swap`, `_apply_perm` -/

/-- `_apply_swap` on a duplicate-free `pi` containing both qudits is the relabelling of the
physical side by the transposition (and raises otherwise). -/
theorem C09_apply_swap (π : List Nat) (a b : Nat) (hnd : π.Nodup) :
    ((applySwap π a b).isSome = true ↔ a ∈ π ∧ b ∈ π) ∧
    (a ∈ π → b ∈ π → applySwap π a b = some (π.map (swapFn a b))) :=
  ⟨applySwap_isSome_iff π a b, fun ha hb => applySwap_eq_map hnd ha hb⟩

/-- `_apply_perm` maps permutations to permutations and acts as the composition on the touched
positions (`new[sorted(perm)[i]] = old[perm[i]]`), leaving every other position alone. -/
theorem C09_apply_perm_perm {perm π : List Nat} (hnd : perm.Nodup)
    (hlt : ∀ q ∈ perm, q < π.length) :
    ∃ π', applyPerm perm π = some π' ∧ π'.length = π.length ∧
      (∀ i, i < perm.length → piAt π' ((sortNat perm).getD i 0) = piAt π (perm.getD i 0)) ∧
      (∀ q, q ∉ perm → piAt π' q = piAt π q) ∧ π'.Perm π :=
  applyPerm_spec hnd hlt

example : ∃ perm π : List Nat, perm.Nodup ∧ ∀ q ∈ perm, q < π.length :=
  ⟨[2, 0], [5, 6, 7], by decide, by decide⟩

/-! ## 3. layout -/

/-- **Layout keeps the set.**  Whatever swaps / permutations the forward and backward passes
apply, the layout pass replaces the placement by `placement ∘ pi` for a permutation `pi`: the new
placement is a rearrangement of the old one, hence still injective, inside the machine and
connected. -/
theorem C09_layout_keeps_set (n : Nat) (moves : List LMove) (d d' : PD) (hm : d.model.WF)
    (hlen : d.placement.length = n) (h : layoutPass n moves d = some d') :
    (∃ π, PermN n π ∧ d'.placement = π.map (piAt d.placement)) ∧
    d'.placement.Perm d.placement ∧ d'.model = d.model ∧ d'.im = d.im ∧ d'.fm = d.fm ∧
    d'.placement.Nodup ∧ (∀ x ∈ d'.placement, x < d.model.n) ∧
    ConnectedOn d.model d'.placement := by
  obtain ⟨π, _, hπ, he, hperm, hok⟩ := layoutPass_spec hlen h
  obtain ⟨h1, h2, h3⟩ := placementOK_spec hm hok
  refine ⟨⟨π, hπ, by rw [he]⟩, hperm, by rw [he], by rw [he], by rw [he],
    hperm.nodup_iff.2 h1, fun x hx => h2 x (hperm.mem_iff.1 hx),
    connectedOn_congr (fun x => hperm.mem_iff) h3⟩

example : ∃ (moves : List LMove) (d d' : PD), d.model.WF ∧ d.placement.length = 3 ∧
    layoutPass 3 moves d = some d' ∧ d'.placement = [3, 2, 1] :=
  by
  obtain ⟨d', hs, hp⟩ := (Option.any_eq_true _ _).1 (show (layoutPass 3 [.swap 0 2]
    ⟨⟨4, [(0, 1), (1, 2), (2, 3)]⟩, [1, 2, 3], [0, 1, 2], [0, 1, 2]⟩).any
      (fun d' => decide (d'.placement = [3, 2, 1])) = true by decide)
  exact ⟨_, _, d', by simp [G.WF], rfl, hs, by simpa using hp⟩

/-! ## 4. placement -/

/-- **Greedy placement is connected.**  Every growth order of the greedy loop (start anywhere,
repeatedly append a vertex adjacent to one already placed and not yet placed) is a duplicate-free
connected vertex set; so is `sorted(placement)`, which the pass stores. -/
theorem C09_greedy_connected (g : G) (hg : g.WF) (grow : List Nat) (h : validGrow g grow = true) :
    (greedyResult grow).Nodup ∧ (∀ x ∈ greedyResult grow, x < g.n) ∧
    (greedyResult grow).length = grow.length ∧ ConnectedOn g (greedyResult grow) := by
  obtain ⟨_, hnd, hlt, hc⟩ := validGrow_spec hg grow h
  have hp : (greedyResult grow).Perm grow := sortNat_perm grow
  exact ⟨hp.nodup_iff.2 hnd, fun x hx => hlt x (hp.mem_iff.1 hx), hp.length_eq,
    connectedOn_congr (fun x => hp.mem_iff) hc⟩

example : ∃ (g : G) (grow : List Nat), g.WF ∧ validGrow g grow = true ∧ grow.length = 3 :=
  ⟨⟨4, [(0, 1), (1, 2), (2, 3)]⟩, [3, 1, 2], by simp [G.WF], by decide, rfl⟩

/-- The guard shared by the placement passes, the layout pass and the routing pass
(`get_subgraph(placement).is_fully_connected()`) establishes clause (1). -/
theorem C09_placement_guard (d : PD) (hm : d.model.WF) (h : placementOK d = true) :
    d.placement.Nodup ∧ (∀ x ∈ d.placement, x < d.model.n) ∧ ConnectedOn d.model d.placement :=
  placementOK_spec hm h

example : ∃ d : PD, d.model.WF ∧ placementOK d = true :=
  ⟨⟨⟨4, [(0, 1), (1, 2), (2, 3)]⟩, [2, 1], [], []⟩, by simp [G.WF], by decide⟩

/-! ## 5. ApplyPlacement -/

/-- **ApplyPlacement composes.**  Both mappings are composed with the placement, the circuit is
the routed circuit relabelled by the placement, the placement is reset to the identity on the
machine; and un-routing commutes with that relabelling: the logical list is unchanged, the final
assignment is composed with the placement. -/
theorem C09_apply_placement_compose (n : Nat) (out out' : List Em) (d d' : PD) (π : List Nat)
    (hnd : d.placement.Nodup) (hlen : d.placement.length = n)
    (hπ : ∀ x ∈ π, x < n) (hl : ∀ e ∈ out, ∀ x ∈ e.labels, x < n)
    (h : applyPlacement out d = some (out', d')) :
    out' = out.map (Em.relab (piAt d.placement)) ∧
    d'.im = d.im.map (piAt d.placement) ∧ d'.fm = d.fm.map (piAt d.placement) ∧
    d'.placement = List.range d.model.n ∧
    unroute (π.map (piAt d.placement)) out' =
      ((unroute π out).1, (unroute π out).2.map (piAt d.placement)) := by
  obtain ⟨h1, h2, h3, h4, _⟩ := applyPlacement_spec h
  refine ⟨h1, h2, h3, h4, ?_⟩
  rw [h1]
  exact unroute_relabel (fun x y hx hy => piAt_inj hnd (hlen ▸ hx) (hlen ▸ hy)) out hπ hl

example : ∃ (out out' : List Em) (d d' : PD), d.placement.Nodup ∧ d.placement.length = 2 ∧
    applyPlacement out d = some (out', d') ∧ d'.fm = [1, 3] :=
  by
  obtain ⟨r, hs, hp⟩ := (Option.any_eq_true _ _).1 (show (applyPlacement [.swap 0 1]
    ⟨⟨4, [(1, 3)]⟩, [3, 1], [0, 1], [1, 0]⟩).any (fun r => decide (r.2.fm = [1, 3])) = true
      by decide)
  exact ⟨_, r.1, _, r.2, by decide, rfl, hs, by simpa using hp⟩

/-! ## 6. the workflow -/

/-- **The workflow `[SetModelPass(m), placement := P, layout?, routing, ApplyPlacement]`.**
For every machine graph `m`, every input on `n` qudits, every placement `P` of `n` entries written
by the placement pass, every layout run and every accepted routing run (no PAM barrier move),
if the workflow succeeds then with `Pl` the placement the circuit was routed on:
1. `Pl` is duplicate free, inside the machine, connected in `m`, a rearrangement of `P`;
2. both recorded mappings are duplicate free lists of `n` machine qudits;
3. every emitted item of the placed circuit satisfies the coupling clause in `m`;
4. the placed circuit's non-swap operations are those of `L` in order;
5. un-routing the placed circuit from `Pl` ends at `φ = Pl ∘ pi` and yields a logical list `L`
   with the input's timelines; the recorded mappings are `initial = Pl ∘ im₀`,
   `final = φ ∘ fm₀` (for the identity `im₀`, `fm₀` of a fresh PassData: `Pl` and `φ`);
   the placement is reset to the identity on the machine. -/
theorem C09_workflow (free : Nat → Bool) (m : G) (n : Nat) (ops : List Op) (P : List Nat)
    (lay : Option (List LMove)) (moves : List Move) (d0 : PD)
    (out : List Em) (s : St) (d4 d5 : PD)
    (hm : m.WF) (hw : OpsWF n ops) (hP : P.length = n)
    (him : PermN n d0.im) (hfm : PermN n d0.fm)
    (h : workflow free m n ops P lay moves d0 = some (out, s, d4, d5)) :
    (d4.placement.Nodup ∧ d4.placement.length = n ∧ (∀ x ∈ d4.placement, x < m.n) ∧
      ConnectedOn m d4.placement ∧ d4.placement.Perm P) ∧
    (d5.im.Nodup ∧ d5.im.length = n ∧ (∀ x ∈ d5.im, x < m.n) ∧
      d5.fm.Nodup ∧ d5.fm.length = n ∧ (∀ x ∈ d5.fm, x < m.n)) ∧
    (∀ e ∈ out, EmOK free m e) ∧
    (∃ L, unroute d4.placement out = (L, s.pi.map (piAt d4.placement)) ∧ L.Perm ops ∧
      (∀ q, proj q L = proj q ops) ∧ L.map strip = (gatesOf out).map strip) ∧
    (PermN n s.pi ∧ d5.im = d0.im.map (piAt d4.placement) ∧
      d5.fm = d0.fm.map (piAt (s.pi.map (piAt d4.placement))) ∧
      d5.placement = List.range m.n ∧ d5.model = m) :=
  workflow_spec hm hw hP him hfm h

/-- non-vacuity: CX(0,2); CX(0,1) on the machine 0-1-2-3, placed on [3,2,1] after a layout swap -/
example : ∃ (m : G) (ops : List Op) (P : List Nat) (lay : Option (List LMove)) (moves : List Move)
    (d0 : PD) (r : List Em × St × PD × PD),
    m.WF ∧ OpsWF 3 ops ∧ P.length = 3 ∧ PermN 3 d0.im ∧ PermN 3 d0.fm ∧
    workflow (fun _ => false) m 3 ops P lay moves d0 = some r ∧ r.2.2.2.fm = [3, 2, 1] :=
  by
  obtain ⟨r, hs, hp⟩ := (Option.any_eq_true _ _).1 (show (workflow (fun _ => false)
    ⟨4, [(0, 1), (1, 2), (2, 3)]⟩ 3 [⟨1, [], [0, 2], [2, 2]⟩, ⟨1, [], [0, 1], [2, 2]⟩] [1, 2, 3]
    (some [.swap 0 2]) [.swap 1 2, .exec 0, .swap 1 2, .exec 0]
    ⟨⟨3, []⟩, [0, 1, 2], [0, 1, 2], [0, 1, 2]⟩).any
      (fun r => decide (r.2.2.2.fm = [3, 2, 1])) = true by decide)
  exact ⟨_, _, _, _, _, _, r, by simp [G.WF], by simp [OpsWF], rfl,
    ⟨by decide, by decide, by decide⟩, ⟨by decide, by decide, by decide⟩, hs,
    by simpa using hp⟩

/-! ## 7. denotation (S4) -/

/-- **S4 `unroute_sound`.**  In every structure satisfying the laws of `Sem` (a monoid of
"unitaries", first applied operation = left factor, with the swap law), for every emitted list
whose labels all occur in the assignment `π`: the physical list denotes the un-routed logical list
placed through `π`, followed by the swap network consisting of the (real and virtual) swaps in
order; and that network carries `π` to the final assignment. -/
theorem C09_unroute_sound {M : Type} (S : Sem M) (l : List Em) (π : List Nat)
    (hl : ∀ e ∈ l, ∀ x ∈ e.labels, x ∈ π) :
    S.den (allOps S.swapOp l) =
      S.mul (S.den ((unroute π l).1.map (relab (piAt π)))) (S.den (swapNet S.swapOp (swapsOf l))) ∧
    (unroute π l).2 = carry π (swapsOf l) :=
  ⟨unroute_sound S l hl, unroute_snd π l⟩

example : ∃ (l : List Em) (π : List Nat), ∀ e ∈ l, ∀ x ∈ e.labels, x ∈ π :=
  ⟨[.swap 0 1, .gate ⟨1, [], [1, 2], [2, 2]⟩], [2, 0, 1], by decide⟩

/-- **The routed circuit denotes the input followed by a pure swap network** that carries the
identity assignment to the final `pi` — for every accepted SABRE trace (exec / swap / unswap). -/
theorem C09_route_denotation {M : Type} (S : Sem M) (free : Nat → Bool) (g : G) (n : Nat)
    (ops : List Op) (moves : List Move) (s : St)
    (hg : g.WF) (hw : OpsWF n ops) (hne : ∀ o ∈ ops, o.loc ≠ [])
    (hsab : ∀ m ∈ moves, m.isSabre = true)
    (hrun : run free g (init n ops) moves = some s) (hdone : s.rem = []) :
    S.den (physOps S.swapOp s.out) =
      S.mul (S.den ops) (S.den (swapNet S.swapOp (swapsOf s.out))) ∧
    carry (List.range n) (swapsOf s.out) = s.pi := by
  have hinv := inv_run hg hw moves (inv_init free g n ops) hrun
  obtain ⟨L, hun, hp, hpr⟩ := hinv.un
  rw [hdone, List.append_nil] at hp
  simp only [hdone, List.append_nil] at hpr
  have hlab : ∀ e ∈ s.out, ∀ x ∈ e.labels, x ∈ List.range n :=
    fun e he x hx => List.mem_range.2 (hinv.bound e he x hx)
  have hsound := unroute_sound S s.out hlab
  have hsnd := unroute_snd (List.range n) s.out
  rw [hun] at hsound hsnd
  simp only at hsound hsnd
  have hLlt : ∀ o ∈ L, ∀ q ∈ o.loc, q < n := fun o ho => (hw o (hp.subset ho)).2
  rw [map_relab_range hLlt] at hsound
  have hLne : ∀ o ∈ L, o.loc ≠ [] := fun o ho => hne o (hp.subset ho)
  have hden : S.den L = S.den ops := S.trace_equiv L ops hLne hne hpr
  -- SABRE moves never emit virtual swaps
  have hnov : ∀ e ∈ s.out, noVswap e = true := sabre_no_vswap free g moves hsab hrun
  rw [allOps_eq_physOps S.swapOp s.out hnov, hden] at hsound
  exact ⟨hsound, hsnd.symm⟩

/-- The laws of `Sem` are satisfiable by a non-trivial model (S6(i), the *classical* instance:
operations as transformers of wire valuations, the swap gate exchanging two wires, gates that
act on their own wires only and do not commute when they share a wire), so the denotational
theorems above are not vacuous. -/
theorem C09_sem_inhabited : ∃ S : Sem ((Nat → Nat) → (Nat → Nat)),
    (∀ a b σ, S.sem (S.swapOp a b) σ = fun w => σ (swapFn a b w)) ∧
    ∃ a b : Op, S.mul (S.sem a) (S.sem b) ≠ S.mul (S.sem b) (S.sem a) :=
  ⟨classicalSem, classicalSem_swap, classicalSem_noncomm⟩

/-! ## 8. PAM -/

/-- **PAM, partial.**  The PAM block move applies `_apply_perm(p1)`, emits a pre-synthesised
variant of the block, applies `_apply_perm(p2)`.  In the model the variant is represented by what
it has to be equal to: virtual swaps realising `p1` on the block's physical qudits, the ORIGINAL
block at the permuted location, virtual swaps realising `p2` (the guard of the move checks that
the virtual swaps realise exactly the two `_apply_perm` calls).  For every accepted PAM trace
the combinatorial clauses hold by `C09_route_any_trace`, and this ideal
physical list denotes the input followed by the network of real and virtual swaps.
What is NOT proved (hence `_partial`): that the emitted variant circuit equals its ideal
expansion, `den variant = den (vswaps p1 ++ [block] ++ vswaps p2)` — a numerical fact about
synthesis; `hvar` takes it as a hypothesis for the physical list `phys` actually emitted, and the
harness measures it on every PAM block of the real output. -/
theorem C09_pam_variant_partial {M : Type} (S : Sem M) (free : Nat → Bool) (g : G) (n : Nat)
    (ops : List Op) (moves : List Move) (s : St) (phys : List Op)
    (hg : g.WF) (hw : OpsWF n ops) (hne : ∀ o ∈ ops, o.loc ≠ [])
    (hrun : run free g (init n ops) moves = some s) (hdone : s.rem = [])
    (hvar : S.den phys = S.den (allOps S.swapOp s.out)) :
    S.den phys = S.mul (S.den ops) (S.den (swapNet S.swapOp (swapsOf s.out))) ∧
    carry (List.range n) (swapsOf s.out) = s.pi := by
  have hinv := inv_run hg hw moves (inv_init free g n ops) hrun
  obtain ⟨L, hun, hp, hpr⟩ := hinv.un
  rw [hdone, List.append_nil] at hp
  simp only [hdone, List.append_nil] at hpr
  have hlab : ∀ e ∈ s.out, ∀ x ∈ e.labels, x ∈ List.range n :=
    fun e he x hx => List.mem_range.2 (hinv.bound e he x hx)
  have hsound := unroute_sound S s.out hlab
  have hsnd := unroute_snd (List.range n) s.out
  rw [hun] at hsound hsnd
  simp only at hsound hsnd
  have hLlt : ∀ o ∈ L, ∀ q ∈ o.loc, q < n := fun o ho => (hw o (hp.subset ho)).2
  rw [map_relab_range hLlt] at hsound
  have hLne : ∀ o ∈ L, o.loc ≠ [] := fun o ho => hne o (hp.subset ho)
  rw [S.trace_equiv L ops hLne hne hpr] at hsound
  exact ⟨hvar.trans hsound, hsnd.symm⟩

/-- the per-block numerical hypothesis lifts to the whole circuit -/
theorem C09_pam_blockwise {M : Type} (S : Sem M) (A B : List (List Op)) (h : S.segEq A B) :
    S.den A.flatten = S.den B.flatten := S.den_flatten_congr A B h

/-- **Former finding, fixed by 9e5a524.**  PAM's barrier branch used to append the barrier at the
LOGICAL location (`mapped_circuit.append_gate(op.gate, op.location)`) although
`physical_location` had just been computed.  The former witness: on the line 0-1-2 route
`CX(0,2); barrier(0,1)` with one swap (1,2) — the barrier then sat on physical (0,1) = logical
(0,2).  With the fixed code (and model) the barrier lands on physical (0,2) and every timeline of
the un-routed list equals the input's, as `C09_route_any_trace` guarantees in general. -/
theorem C09_pam_barrier_regression :
    let g : G := ⟨3, [(0, 1), (1, 2)]⟩
    let ops : List Op := [⟨1, [], [0, 2], [2, 2]⟩, ⟨9, [], [0, 1], [2, 2]⟩]
    ∃ s, run (fun gid => gid == 9) g (init 3 ops) [.swap 1 2, .exec 0, .pamBarrier 0] = some s ∧
      s.rem = [] ∧ s.out.getLast? = some (.gate ⟨9, [], [0, 2], [2, 2]⟩) ∧
      ∀ q, q < 3 → proj q (unroute (List.range 3) s.out).1 = proj q ops := by
  intro g ops
  obtain ⟨s, hs, hp⟩ := (Option.any_eq_true _ _).1 (show (run (fun gid => gid == 9) g (init 3 ops)
    [.swap 1 2, .exec 0, .pamBarrier 0]).any (fun s => decide (s.rem = []) &&
      decide (s.out.getLast? = some (.gate ⟨9, [], [0, 2], [2, 2]⟩)) &&
      (List.range 3).all (fun q =>
        decide (proj q (unroute (List.range 3) s.out).1 = proj q ops))) = true by decide)
  simp only [Bool.and_eq_true, decide_eq_true_eq, List.all_eq_true, List.mem_range] at hp
  exact ⟨s, hs, hp.1.1, hp.1.2, hp.2⟩

end BqVerif.Route
