import BqVerif.Proofs.GatesBase
namespace BqVerif.C18
open BqVerif.Gates Matrix

variable {R : Type} [CommRing R] [StarRing R]

theorem C18_unitary_u3 (K : Consts R) (hK : K.Valid) (t p l : Ang R)
    (ht : t.Valid) (hp : p.Valid) (hl : l.Valid) : IsUnitary 2 (u3 K t p l) := by
  unfold IsUnitary
  ext i j
  fin_cases i <;> fin_cases j <;>
    simp [toM, u3, Matrix.mul_apply, Fin.sum_univ_two, Ang.e, ht.rc, ht.rs, hp.rc, hp.rs,
      hl.rc, hl.rs, hK.si]
  all_goals sorry

end BqVerif.C18
