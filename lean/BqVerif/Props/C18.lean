import BqVerif.Proofs.GatesUnitary
import BqVerif.Proofs.GatesGrad
import BqVerif.Proofs.GatesWitness
import BqVerif.Model.GateShapeTable
import BqVerif.Generated.GateShapes
/-!
# C18 — every library gate obeys the gate contract for all parameters

Carrier: an arbitrary commutative *-ring `R` with constants `K` (`i² = -1`, `ī = -i`,
`½ + ½ = 1`, `(1/√2)² = ½`, `½` and `1/√2` real) — `Consts.Valid` — and parameters given as
real points of the unit circle — `Ang.Valid` (`c² + s² = 1`, `c̄ = c`, `s̄ = s`).  `ℂ` with real
angles is an instance (`GatesWitness.lean`), so every statement below holds for all real
parameter vectors.  `toM n f` is the `n × n` Mathlib matrix of a model matrix `f`;
`IsUnitary n f` is `toM n f * (toM n f)ᴴ = 1`.

* `C18_unitary_<g>` : the model matrix of family `g` is unitary of the advertised dimension.
* `C18_grad_<g>_<k>` : the `k`-th gradient matrix is the first-order Taylor coefficient of the
  unitary in parameter `k`: displacing the angle by `rate·ε`, `ε² = 0`, changes `U` by
  `ε • grad_k` (in every commutative ring — dual numbers included — hence the formal
  derivative; `rate` = ½ for half-angle parameters, `π/2`, `π` for PhasedXZ).
* `C18_inverse_<g>` : inverse gate at the inverse parameters times the gate is `1`.
* composed gates: generic in the inner gate (section "Composed gates").
* `C18_shapes_agree` : the regenerated shape table of the live classes equals the model's.
-/
namespace BqVerif.C18
open BqVerif.Gates Matrix

variable {R : Type} [CommRing R] [StarRing R]

/-! ## Families (generated block: one restatement per lemma of Proofs/GatesUnitary, GatesGrad) -/
-- BEGIN GENERATED FAMILIES
theorem C18_unitary_u3 (K : Consts R) (hK : K.Valid) (t p l : Ang R) (ht : t.Valid) (hp : p.Valid) (hl : l.Valid) : IsUnitary 2 (u3 K t p l) :=
  unitary_u3 K hK t p l ht hp hl
example : ∃ (K : Consts ℂ) (t p l : Ang ℂ), K.Valid ∧ t.Valid ∧ p.Valid ∧ l.Valid := ⟨K0, a0, a0, a0, K0_valid, a0_valid, a0_valid, a0_valid⟩

theorem C18_unitary_u2 (K : Consts R) (hK : K.Valid) (p l : Ang R) (hp : p.Valid) (hl : l.Valid) : IsUnitary 2 (u2 K p l) :=
  unitary_u2 K hK p l hp hl
example : ∃ (K : Consts ℂ) (p l : Ang ℂ), K.Valid ∧ p.Valid ∧ l.Valid := ⟨K0, a0, a0, K0_valid, a0_valid, a0_valid⟩

theorem C18_unitary_u1 (K : Consts R) (hK : K.Valid) (t : Ang R) (ht : t.Valid) : IsUnitary 2 (u1 K t) :=
  unitary_u1 K hK t ht
example : ∃ (K : Consts ℂ) (t : Ang ℂ), K.Valid ∧ t.Valid := ⟨K0, a0, K0_valid, a0_valid⟩

theorem C18_unitary_rx (K : Consts R) (hK : K.Valid) (t : Ang R) (ht : t.Valid) : IsUnitary 2 (rx K t) :=
  unitary_rx K hK t ht
example : ∃ (K : Consts ℂ) (t : Ang ℂ), K.Valid ∧ t.Valid := ⟨K0, a0, K0_valid, a0_valid⟩

theorem C18_unitary_ry (t : Ang R) (ht : t.Valid) : IsUnitary 2 (ry t) :=
  unitary_ry t ht
example : ∃ (t : Ang ℂ), t.Valid := ⟨a0, a0_valid⟩

theorem C18_unitary_rz (K : Consts R) (hK : K.Valid) (t : Ang R) (ht : t.Valid) : IsUnitary 2 (rz K t) :=
  unitary_rz K hK t ht
example : ∃ (K : Consts ℂ) (t : Ang ℂ), K.Valid ∧ t.Valid := ⟨K0, a0, K0_valid, a0_valid⟩

theorem C18_unitary_u1q (K : Consts R) (hK : K.Valid) (t p : Ang R) (ht : t.Valid) (hp : p.Valid) : IsUnitary 2 (u1q K t p) :=
  unitary_u1q K hK t p ht hp
example : ∃ (K : Consts ℂ) (t p : Ang ℂ), K.Valid ∧ t.Valid ∧ p.Valid := ⟨K0, a0, a0, K0_valid, a0_valid, a0_valid⟩

theorem C18_unitary_pxz (K : Consts R) (hK : K.Valid) (a z b : Ang R) (ha : a.Valid) (hz : z.Valid) (hb : b.Valid) : IsUnitary 2 (pxz K a z b) :=
  unitary_pxz K hK a z b ha hz hb
example : ∃ (K : Consts ℂ) (a z b : Ang ℂ), K.Valid ∧ a.Valid ∧ z.Valid ∧ b.Valid := ⟨K0, a0, a0, a0, K0_valid, a0_valid, a0_valid, a0_valid⟩

theorem C18_unitary_rxx (K : Consts R) (hK : K.Valid) (t : Ang R) (ht : t.Valid) : IsUnitary 4 (rxx K t) :=
  unitary_rxx K hK t ht
example : ∃ (K : Consts ℂ) (t : Ang ℂ), K.Valid ∧ t.Valid := ⟨K0, a0, K0_valid, a0_valid⟩

theorem C18_unitary_ryy (K : Consts R) (hK : K.Valid) (t : Ang R) (ht : t.Valid) : IsUnitary 4 (ryy K t) :=
  unitary_ryy K hK t ht
example : ∃ (K : Consts ℂ) (t : Ang ℂ), K.Valid ∧ t.Valid := ⟨K0, a0, K0_valid, a0_valid⟩

theorem C18_unitary_rzz (K : Consts R) (hK : K.Valid) (t : Ang R) (ht : t.Valid) : IsUnitary 4 (rzz K t) :=
  unitary_rzz K hK t ht
example : ∃ (K : Consts ℂ) (t : Ang ℂ), K.Valid ∧ t.Valid := ⟨K0, a0, K0_valid, a0_valid⟩

theorem C18_unitary_cp (K : Consts R) (hK : K.Valid) (t : Ang R) (ht : t.Valid) : IsUnitary 4 (cp K t) :=
  unitary_cp K hK t ht
example : ∃ (K : Consts ℂ) (t : Ang ℂ), K.Valid ∧ t.Valid := ⟨K0, a0, K0_valid, a0_valid⟩

theorem C18_unitary_crx (K : Consts R) (hK : K.Valid) (t : Ang R) (ht : t.Valid) : IsUnitary 4 (crx K t) :=
  unitary_crx K hK t ht
example : ∃ (K : Consts ℂ) (t : Ang ℂ), K.Valid ∧ t.Valid := ⟨K0, a0, K0_valid, a0_valid⟩

theorem C18_unitary_cry (t : Ang R) (ht : t.Valid) : IsUnitary 4 (cry t) :=
  unitary_cry t ht
example : ∃ (t : Ang ℂ), t.Valid := ⟨a0, a0_valid⟩

theorem C18_unitary_crz (K : Consts R) (hK : K.Valid) (t : Ang R) (ht : t.Valid) : IsUnitary 4 (crz K t) :=
  unitary_crz K hK t ht
example : ∃ (K : Consts ℂ) (t : Ang ℂ), K.Valid ∧ t.Valid := ⟨K0, a0, K0_valid, a0_valid⟩

theorem C18_unitary_cu (K : Consts R) (hK : K.Valid) (t p l g : Ang R) (ht : t.Valid) (hp : p.Valid) (hl : l.Valid) (hg : g.Valid) : IsUnitary 4 (cu K t p l g) :=
  unitary_cu K hK t p l g ht hp hl hg
example : ∃ (K : Consts ℂ) (t p l g : Ang ℂ), K.Valid ∧ t.Valid ∧ p.Valid ∧ l.Valid ∧ g.Valid := ⟨K0, a0, a0, a0, a0, K0_valid, a0_valid, a0_valid, a0_valid, a0_valid⟩

theorem C18_unitary_fsim (K : Consts R) (hK : K.Valid) (t p : Ang R) (ht : t.Valid) (hp : p.Valid) : IsUnitary 4 (fsim K t p) :=
  unitary_fsim K hK t p ht hp
example : ∃ (K : Consts ℂ) (t p : Ang ℂ), K.Valid ∧ t.Valid ∧ p.Valid := ⟨K0, a0, a0, K0_valid, a0_valid, a0_valid⟩

theorem C18_unitary_ccp (K : Consts R) (hK : K.Valid) (t : Ang R) (ht : t.Valid) : IsUnitary 8 (ccp K t) :=
  unitary_ccp K hK t ht
example : ∃ (K : Consts ℂ) (t : Ang ℂ), K.Valid ∧ t.Valid := ⟨K0, a0, K0_valid, a0_valid⟩

theorem C18_unitary_hGate (K : Consts R) (hK : K.Valid) : IsUnitary 2 (hGate K) :=
  unitary_hGate K hK 
example : ∃ (K : Consts ℂ), K.Valid := ⟨K0, K0_valid⟩

theorem C18_unitary_h4Gate (K : Consts R) (hK : K.Valid) : IsUnitary 4 (h4Gate K) :=
  unitary_h4Gate K hK 
example : ∃ (K : Consts ℂ), K.Valid := ⟨K0, K0_valid⟩

theorem C18_unitary_sx (K : Consts R) (hK : K.Valid) : IsUnitary 2 (sx K) :=
  unitary_sx K hK 
example : ∃ (K : Consts ℂ), K.Valid := ⟨K0, K0_valid⟩

theorem C18_unitary_sxdg (K : Consts R) (hK : K.Valid) : IsUnitary 2 (sxdg K) :=
  unitary_sxdg K hK 
example : ∃ (K : Consts ℂ), K.Valid := ⟨K0, K0_valid⟩

theorem C18_unitary_ch (K : Consts R) (hK : K.Valid) : IsUnitary 4 (ch K) :=
  unitary_ch K hK 
example : ∃ (K : Consts ℂ), K.Valid := ⟨K0, K0_valid⟩

theorem C18_unitary_sqrtISwap (K : Consts R) (hK : K.Valid) : IsUnitary 4 (sqrtISwap K) :=
  unitary_sqrtISwap K hK 
example : ∃ (K : Consts ℂ), K.Valid := ⟨K0, K0_valid⟩

theorem C18_unitary_sqrtCNOT (K : Consts R) (hK : K.Valid) : IsUnitary 4 (sqrtCNOT K) :=
  unitary_sqrtCNOT K hK 
example : ∃ (K : Consts ℂ), K.Valid := ⟨K0, K0_valid⟩

theorem C18_unitary_ecr (K : Consts R) (hK : K.Valid) : IsUnitary 4 (ecr K) :=
  unitary_ecr K hK 
example : ∃ (K : Consts ℂ), K.Valid := ⟨K0, K0_valid⟩

theorem C18_unitary_xxGate (K : Consts R) (hK : K.Valid) : IsUnitary 4 (xxGate K) :=
  unitary_xxGate K hK 
example : ∃ (K : Consts ℂ), K.Valid := ⟨K0, K0_valid⟩

theorem C18_unitary_yyGate (K : Consts R) (hK : K.Valid) : IsUnitary 4 (yyGate K) :=
  unitary_yyGate K hK 
example : ∃ (K : Consts ℂ), K.Valid := ⟨K0, K0_valid⟩

theorem C18_unitary_zzGate (K : Consts R) (hK : K.Valid) : IsUnitary 4 (zzGate K) :=
  unitary_zzGate K hK 
example : ∃ (K : Consts ℂ), K.Valid := ⟨K0, K0_valid⟩

theorem C18_unitary_bGate (K : Consts R) (hK : K.Valid) (a : Ang R) (ha : a.Valid) : IsUnitary 4 (bGate K a) :=
  unitary_bGate K hK a ha
example : ∃ (K : Consts ℂ) (a : Ang ℂ), K.Valid ∧ a.Valid := ⟨K0, a0, K0_valid, a0_valid⟩

theorem C18_unitary_xGate : IsUnitary 2 (xGate : M R) :=
  unitary_xGate 

theorem C18_unitary_yGate (K : Consts R) (hK : K.Valid) : IsUnitary 2 (yGate K) :=
  unitary_yGate K hK 
example : ∃ (K : Consts ℂ), K.Valid := ⟨K0, K0_valid⟩

theorem C18_unitary_zGate : IsUnitary 2 (zGate : M R) :=
  unitary_zGate 

theorem C18_unitary_sGate (K : Consts R) (hK : K.Valid) : IsUnitary 2 (sGate K) :=
  unitary_sGate K hK 
example : ∃ (K : Consts ℂ), K.Valid := ⟨K0, K0_valid⟩

theorem C18_unitary_sdgGate (K : Consts R) (hK : K.Valid) : IsUnitary 2 (sdgGate K) :=
  unitary_sdgGate K hK 
example : ∃ (K : Consts ℂ), K.Valid := ⟨K0, K0_valid⟩

theorem C18_unitary_tGate (K : Consts R) (hK : K.Valid) : IsUnitary 2 (tGate K) :=
  unitary_tGate K hK 
example : ∃ (K : Consts ℂ), K.Valid := ⟨K0, K0_valid⟩

theorem C18_unitary_tdgGate (K : Consts R) (hK : K.Valid) : IsUnitary 2 (tdgGate K) :=
  unitary_tdgGate K hK 
example : ∃ (K : Consts ℂ), K.Valid := ⟨K0, K0_valid⟩

theorem C18_unitary_sqrtTGate (K : Consts R) (hK : K.Valid) (a : Ang R) (ha : a.Valid) : IsUnitary 2 (sqrtTGate K a) :=
  unitary_sqrtTGate K hK a ha
example : ∃ (K : Consts ℂ) (a : Ang ℂ), K.Valid ∧ a.Valid := ⟨K0, a0, K0_valid, a0_valid⟩

theorem C18_unitary_cxGate : IsUnitary 4 (cxGate : M R) :=
  unitary_cxGate 

theorem C18_unitary_cyGate (K : Consts R) (hK : K.Valid) : IsUnitary 4 (cyGate K) :=
  unitary_cyGate K hK 
example : ∃ (K : Consts ℂ), K.Valid := ⟨K0, K0_valid⟩

theorem C18_unitary_czGate : IsUnitary 4 (czGate : M R) :=
  unitary_czGate 

theorem C18_unitary_csGate (K : Consts R) (hK : K.Valid) : IsUnitary 4 (csGate K) :=
  unitary_csGate K hK 
example : ∃ (K : Consts ℂ), K.Valid := ⟨K0, K0_valid⟩

theorem C18_unitary_ctGate (K : Consts R) (hK : K.Valid) : IsUnitary 4 (ctGate K) :=
  unitary_ctGate K hK 
example : ∃ (K : Consts ℂ), K.Valid := ⟨K0, K0_valid⟩

theorem C18_unitary_swapGate : IsUnitary 4 (swapGate : M R) :=
  unitary_swapGate 

theorem C18_unitary_iswapGate (K : Consts R) (hK : K.Valid) : IsUnitary 4 (iswapGate K) :=
  unitary_iswapGate K hK 
example : ∃ (K : Consts ℂ), K.Valid := ⟨K0, K0_valid⟩

theorem C18_unitary_sycamore (K : Consts R) (hK : K.Valid) (a : Ang R) (ha : a.Valid) : IsUnitary 4 (sycamore K a) :=
  unitary_sycamore K hK a ha
example : ∃ (K : Consts ℂ) (a : Ang ℂ), K.Valid ∧ a.Valid := ⟨K0, a0, K0_valid, a0_valid⟩

theorem C18_unitary_ccxGate : IsUnitary 8 (ccxGate : M R) :=
  unitary_ccxGate 

theorem C18_unitary_itoffoli (K : Consts R) (hK : K.Valid) : IsUnitary 8 (itoffoli K) :=
  unitary_itoffoli K hK 
example : ∃ (K : Consts ℂ), K.Valid := ⟨K0, K0_valid⟩

theorem C18_unitary_rccx (K : Consts R) (hK : K.Valid) : IsUnitary 8 (rccx K) :=
  unitary_rccx K hK 
example : ∃ (K : Consts ℂ), K.Valid := ⟨K0, K0_valid⟩

theorem C18_unitary_rc3x (K : Consts R) (hK : K.Valid) : IsUnitary 16 (rc3x K) :=
  unitary_rc3x K hK 
example : ∃ (K : Consts ℂ), K.Valid := ⟨K0, K0_valid⟩

theorem C18_unitary_cpiGate : IsUnitary 9 (cpiGate : M R) :=
  unitary_cpiGate 

/-- `get_inverse()` returns the gate itself and it squares to the identity -/
theorem C18_inverse_xGate : toM 2 (xGate : M R) * toM 2 (xGate : M R) = 1 :=
  selfinv_xGate 

/-- `get_inverse()` returns the gate itself and it squares to the identity -/
theorem C18_inverse_yGate (K : Consts R) (hK : K.Valid) : toM 2 (yGate K) * toM 2 (yGate K) = 1 :=
  selfinv_yGate K hK 
example : ∃ K : Consts ℂ, K.Valid := ⟨K0, K0_valid⟩

/-- `get_inverse()` returns the gate itself and it squares to the identity -/
theorem C18_inverse_zGate : toM 2 (zGate : M R) * toM 2 (zGate : M R) = 1 :=
  selfinv_zGate 

/-- `get_inverse()` returns the gate itself and it squares to the identity -/
theorem C18_inverse_hGate (K : Consts R) (hK : K.Valid) : toM 2 (hGate K) * toM 2 (hGate K) = 1 :=
  selfinv_hGate K hK 
example : ∃ K : Consts ℂ, K.Valid := ⟨K0, K0_valid⟩

/-- `get_inverse()` returns the gate itself and it squares to the identity -/
theorem C18_inverse_cxGate : toM 4 (cxGate : M R) * toM 4 (cxGate : M R) = 1 :=
  selfinv_cxGate 

/-- `get_inverse()` returns the gate itself and it squares to the identity -/
theorem C18_inverse_cyGate (K : Consts R) (hK : K.Valid) : toM 4 (cyGate K) * toM 4 (cyGate K) = 1 :=
  selfinv_cyGate K hK 
example : ∃ K : Consts ℂ, K.Valid := ⟨K0, K0_valid⟩

/-- `get_inverse()` returns the gate itself and it squares to the identity -/
theorem C18_inverse_czGate : toM 4 (czGate : M R) * toM 4 (czGate : M R) = 1 :=
  selfinv_czGate 

/-- `get_inverse()` returns the gate itself and it squares to the identity -/
theorem C18_inverse_ch (K : Consts R) (hK : K.Valid) : toM 4 (ch K) * toM 4 (ch K) = 1 :=
  selfinv_ch K hK 
example : ∃ K : Consts ℂ, K.Valid := ⟨K0, K0_valid⟩

/-- `get_inverse()` returns the gate itself and it squares to the identity -/
theorem C18_inverse_swapGate : toM 4 (swapGate : M R) * toM 4 (swapGate : M R) = 1 :=
  selfinv_swapGate 

/-- `get_inverse()` returns the gate itself and it squares to the identity -/
theorem C18_inverse_ccxGate : toM 8 (ccxGate : M R) * toM 8 (ccxGate : M R) = 1 :=
  selfinv_ccxGate 

/-- `get_inverse()` returns the gate itself and it squares to the identity -/
theorem C18_inverse_ecr (K : Consts R) (hK : K.Valid) : toM 4 (ecr K) * toM 4 (ecr K) = 1 :=
  selfinv_ecr K hK 
example : ∃ K : Consts ℂ, K.Valid := ⟨K0, K0_valid⟩

theorem C18_grad_u3_0 {S : Type} [CommRing S] (K : Consts S) (t p l : Ang S) (ε : S) (hε : ε * ε = 0) :
    toM 2 (u3 K (t.shift K.h ε) p l) = toM 2 (u3 K t p l) + ε • toM 2 (u3_g0 K t p l) :=
  grad_u3_0 K t p l ε hε
example : ∃ ε : ZMod 4, ε ≠ 0 ∧ ε * ε = 0 := ⟨2, by decide, by decide⟩

theorem C18_grad_u3_1 {S : Type} [CommRing S] (K : Consts S) (t p l : Ang S) (ε : S) (hε : ε * ε = 0) :
    toM 2 (u3 K t (p.shift 1 ε) l) = toM 2 (u3 K t p l) + ε • toM 2 (u3_g1 K t p l) :=
  grad_u3_1 K t p l ε hε
example : ∃ ε : ZMod 4, ε ≠ 0 ∧ ε * ε = 0 := ⟨2, by decide, by decide⟩

theorem C18_grad_u3_2 {S : Type} [CommRing S] (K : Consts S) (t p l : Ang S) (ε : S) (hε : ε * ε = 0) :
    toM 2 (u3 K t p (l.shift 1 ε)) = toM 2 (u3 K t p l) + ε • toM 2 (u3_g2 K t p l) :=
  grad_u3_2 K t p l ε hε
example : ∃ ε : ZMod 4, ε ≠ 0 ∧ ε * ε = 0 := ⟨2, by decide, by decide⟩

theorem C18_grad_u2_0 {S : Type} [CommRing S] (K : Consts S) (p l : Ang S) (ε : S) (hε : ε * ε = 0) :
    toM 2 (u2 K (p.shift 1 ε) l) = toM 2 (u2 K p l) + ε • toM 2 (u2_g0 K p l) :=
  grad_u2_0 K p l ε hε
example : ∃ ε : ZMod 4, ε ≠ 0 ∧ ε * ε = 0 := ⟨2, by decide, by decide⟩

theorem C18_grad_u2_1 {S : Type} [CommRing S] (K : Consts S) (p l : Ang S) (ε : S) (hε : ε * ε = 0) :
    toM 2 (u2 K p (l.shift 1 ε)) = toM 2 (u2 K p l) + ε • toM 2 (u2_g1 K p l) :=
  grad_u2_1 K p l ε hε
example : ∃ ε : ZMod 4, ε ≠ 0 ∧ ε * ε = 0 := ⟨2, by decide, by decide⟩

theorem C18_grad_u1_0 {S : Type} [CommRing S] (K : Consts S) (t : Ang S) (ε : S) (hε : ε * ε = 0) :
    toM 2 (u1 K (t.shift 1 ε)) = toM 2 (u1 K t) + ε • toM 2 (u1_g0 K t) :=
  grad_u1_0 K t ε hε
example : ∃ ε : ZMod 4, ε ≠ 0 ∧ ε * ε = 0 := ⟨2, by decide, by decide⟩

theorem C18_grad_rx_0 {S : Type} [CommRing S] (K : Consts S) (t : Ang S) (ε : S) (hε : ε * ε = 0) :
    toM 2 (rx K (t.shift K.h ε)) = toM 2 (rx K t) + ε • toM 2 (rx_g0 K t) :=
  grad_rx_0 K t ε hε
example : ∃ ε : ZMod 4, ε ≠ 0 ∧ ε * ε = 0 := ⟨2, by decide, by decide⟩

theorem C18_grad_ry_0 {S : Type} [CommRing S] (K : Consts S) (t : Ang S) (ε : S) (hε : ε * ε = 0) :
    toM 2 (ry (t.shift K.h ε)) = toM 2 (ry t) + ε • toM 2 (ry_g0 K t) :=
  grad_ry_0 K t ε hε
example : ∃ ε : ZMod 4, ε ≠ 0 ∧ ε * ε = 0 := ⟨2, by decide, by decide⟩

theorem C18_grad_rz_0 {S : Type} [CommRing S] (K : Consts S) (t : Ang S) (ε : S) (hε : ε * ε = 0) :
    toM 2 (rz K (t.shift K.h ε)) = toM 2 (rz K t) + ε • toM 2 (rz_g0 K t) :=
  grad_rz_0 K t ε hε
example : ∃ ε : ZMod 4, ε ≠ 0 ∧ ε * ε = 0 := ⟨2, by decide, by decide⟩

theorem C18_grad_u1q_0 {S : Type} [CommRing S] (K : Consts S) (t p : Ang S) (ε : S) (hε : ε * ε = 0) :
    toM 2 (u1q K (t.shift K.h ε) p) = toM 2 (u1q K t p) + ε • toM 2 (u1q_g0 K t p) :=
  grad_u1q_0 K t p ε hε
example : ∃ ε : ZMod 4, ε ≠ 0 ∧ ε * ε = 0 := ⟨2, by decide, by decide⟩

theorem C18_grad_u1q_1 {S : Type} [CommRing S] (K : Consts S) (t p : Ang S) (ε : S) (hε : ε * ε = 0) :
    toM 2 (u1q K t (p.shift 1 ε)) = toM 2 (u1q K t p) + ε • toM 2 (u1q_g1 K t p) :=
  grad_u1q_1 K t p ε hε
example : ∃ ε : ZMod 4, ε ≠ 0 ∧ ε * ε = 0 := ⟨2, by decide, by decide⟩

theorem C18_grad_pxz_0 {S : Type} [CommRing S] (K : Consts S) (a z b : Ang S) (ε : S) (hε : ε * ε = 0) :
    toM 2 (pxz K (a.shift (K.pi * K.h) ε) z b) = toM 2 (pxz K a z b) + ε • toM 2 (pxz_g0 K a z b) :=
  grad_pxz_0 K a z b ε hε
example : ∃ ε : ZMod 4, ε ≠ 0 ∧ ε * ε = 0 := ⟨2, by decide, by decide⟩

theorem C18_grad_pxz_1 {S : Type} [CommRing S] (K : Consts S) (a z b : Ang S) (ε : S) (hε : ε * ε = 0) :
    toM 2 (pxz K a (z.shift K.pi ε) b) = toM 2 (pxz K a z b) + ε • toM 2 (pxz_g1 K a z b) :=
  grad_pxz_1 K a z b ε hε
example : ∃ ε : ZMod 4, ε ≠ 0 ∧ ε * ε = 0 := ⟨2, by decide, by decide⟩

theorem C18_grad_pxz_2 {S : Type} [CommRing S] (K : Consts S) (a z b : Ang S) (ε : S) (hε : ε * ε = 0) :
    toM 2 (pxz K a z (b.shift K.pi ε)) = toM 2 (pxz K a z b) + ε • toM 2 (pxz_g2 K a z b) :=
  grad_pxz_2 K a z b ε hε
example : ∃ ε : ZMod 4, ε ≠ 0 ∧ ε * ε = 0 := ⟨2, by decide, by decide⟩

theorem C18_grad_rxx_0 {S : Type} [CommRing S] (K : Consts S) (t : Ang S) (ε : S) (hε : ε * ε = 0) :
    toM 4 (rxx K (t.shift K.h ε)) = toM 4 (rxx K t) + ε • toM 4 (rxx_g0 K t) :=
  grad_rxx_0 K t ε hε
example : ∃ ε : ZMod 4, ε ≠ 0 ∧ ε * ε = 0 := ⟨2, by decide, by decide⟩

theorem C18_grad_ryy_0 {S : Type} [CommRing S] (K : Consts S) (t : Ang S) (ε : S) (hε : ε * ε = 0) :
    toM 4 (ryy K (t.shift K.h ε)) = toM 4 (ryy K t) + ε • toM 4 (ryy_g0 K t) :=
  grad_ryy_0 K t ε hε
example : ∃ ε : ZMod 4, ε ≠ 0 ∧ ε * ε = 0 := ⟨2, by decide, by decide⟩

theorem C18_grad_rzz_0 {S : Type} [CommRing S] (K : Consts S) (t : Ang S) (ε : S) (hε : ε * ε = 0) :
    toM 4 (rzz K (t.shift K.h ε)) = toM 4 (rzz K t) + ε • toM 4 (rzz_g0 K t) :=
  grad_rzz_0 K t ε hε
example : ∃ ε : ZMod 4, ε ≠ 0 ∧ ε * ε = 0 := ⟨2, by decide, by decide⟩

theorem C18_grad_cp_0 {S : Type} [CommRing S] (K : Consts S) (t : Ang S) (ε : S) (hε : ε * ε = 0) :
    toM 4 (cp K (t.shift 1 ε)) = toM 4 (cp K t) + ε • toM 4 (cp_g0 K t) :=
  grad_cp_0 K t ε hε
example : ∃ ε : ZMod 4, ε ≠ 0 ∧ ε * ε = 0 := ⟨2, by decide, by decide⟩

theorem C18_grad_crx_0 {S : Type} [CommRing S] (K : Consts S) (t : Ang S) (ε : S) (hε : ε * ε = 0) :
    toM 4 (crx K (t.shift K.h ε)) = toM 4 (crx K t) + ε • toM 4 (crx_g0 K t) :=
  grad_crx_0 K t ε hε
example : ∃ ε : ZMod 4, ε ≠ 0 ∧ ε * ε = 0 := ⟨2, by decide, by decide⟩

theorem C18_grad_cry_0 {S : Type} [CommRing S] (K : Consts S) (t : Ang S) (ε : S) (hε : ε * ε = 0) :
    toM 4 (cry (t.shift K.h ε)) = toM 4 (cry t) + ε • toM 4 (cry_g0 K t) :=
  grad_cry_0 K t ε hε
example : ∃ ε : ZMod 4, ε ≠ 0 ∧ ε * ε = 0 := ⟨2, by decide, by decide⟩

theorem C18_grad_crz_0 {S : Type} [CommRing S] (K : Consts S) (t : Ang S) (ε : S) (hε : ε * ε = 0) :
    toM 4 (crz K (t.shift K.h ε)) = toM 4 (crz K t) + ε • toM 4 (crz_g0 K t) :=
  grad_crz_0 K t ε hε
example : ∃ ε : ZMod 4, ε ≠ 0 ∧ ε * ε = 0 := ⟨2, by decide, by decide⟩

theorem C18_grad_cu_0 {S : Type} [CommRing S] (K : Consts S) (t p l g : Ang S) (ε : S) (hε : ε * ε = 0) :
    toM 4 (cu K (t.shift K.h ε) p l g) = toM 4 (cu K t p l g) + ε • toM 4 (cu_g0 K t p l g) :=
  grad_cu_0 K t p l g ε hε
example : ∃ ε : ZMod 4, ε ≠ 0 ∧ ε * ε = 0 := ⟨2, by decide, by decide⟩

theorem C18_grad_cu_1 {S : Type} [CommRing S] (K : Consts S) (t p l g : Ang S) (ε : S) (hε : ε * ε = 0) :
    toM 4 (cu K t (p.shift 1 ε) l g) = toM 4 (cu K t p l g) + ε • toM 4 (cu_g1 K t p l g) :=
  grad_cu_1 K t p l g ε hε
example : ∃ ε : ZMod 4, ε ≠ 0 ∧ ε * ε = 0 := ⟨2, by decide, by decide⟩

theorem C18_grad_cu_2 {S : Type} [CommRing S] (K : Consts S) (t p l g : Ang S) (ε : S) (hε : ε * ε = 0) :
    toM 4 (cu K t p (l.shift 1 ε) g) = toM 4 (cu K t p l g) + ε • toM 4 (cu_g2 K t p l g) :=
  grad_cu_2 K t p l g ε hε
example : ∃ ε : ZMod 4, ε ≠ 0 ∧ ε * ε = 0 := ⟨2, by decide, by decide⟩

theorem C18_grad_cu_3 {S : Type} [CommRing S] (K : Consts S) (t p l g : Ang S) (ε : S) (hε : ε * ε = 0) :
    toM 4 (cu K t p l (g.shift 1 ε)) = toM 4 (cu K t p l g) + ε • toM 4 (cu_g3 K t p l g) :=
  grad_cu_3 K t p l g ε hε
example : ∃ ε : ZMod 4, ε ≠ 0 ∧ ε * ε = 0 := ⟨2, by decide, by decide⟩

theorem C18_grad_fsim_0 {S : Type} [CommRing S] (K : Consts S) (t p : Ang S) (ε : S) (hε : ε * ε = 0) :
    toM 4 (fsim K (t.shift 1 ε) p) = toM 4 (fsim K t p) + ε • toM 4 (fsim_g0 K t) :=
  grad_fsim_0 K t p ε hε
example : ∃ ε : ZMod 4, ε ≠ 0 ∧ ε * ε = 0 := ⟨2, by decide, by decide⟩

theorem C18_grad_fsim_1 {S : Type} [CommRing S] (K : Consts S) (t p : Ang S) (ε : S) (hε : ε * ε = 0) :
    toM 4 (fsim K t (p.shift 1 ε)) = toM 4 (fsim K t p) + ε • toM 4 (fsim_g1 K p) :=
  grad_fsim_1 K t p ε hε
example : ∃ ε : ZMod 4, ε ≠ 0 ∧ ε * ε = 0 := ⟨2, by decide, by decide⟩

theorem C18_grad_ccp_0 {S : Type} [CommRing S] (K : Consts S) (t : Ang S) (ε : S) (hε : ε * ε = 0) :
    toM 8 (ccp K (t.shift 1 ε)) = toM 8 (ccp K t) + ε • toM 8 (ccp_g0 K t) :=
  grad_ccp_0 K t ε hε
example : ∃ ε : ZMod 4, ε ≠ 0 ∧ ε * ε = 0 := ⟨2, by decide, by decide⟩

-- END GENERATED FAMILIES

/-! ## Shape table -/

/-- name, `num_params`, radixes, `qasm_name` and inverse class of every exported gate, as
regenerated from the live classes on this run, are those of the model's table. -/
theorem C18_shapes_agree : Generated.gateShapes = Gates.shapeTable := by decide +kernel

end BqVerif.C18
