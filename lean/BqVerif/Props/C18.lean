import BqVerif.Proofs.GatesUnitary
import BqVerif.Proofs.GatesGrad
import BqVerif.Proofs.GatesQudit
import BqVerif.Proofs.GatesEmbed
import BqVerif.Proofs.GatesGeneral
import BqVerif.Proofs.GatesLevels
import BqVerif.Proofs.GatesMux
import BqVerif.Proofs.GatesMuxGrad
import BqVerif.Proofs.GatesCKM
import BqVerif.Proofs.GatesWitness
import BqVerif.Model.GateShapeTable
import BqVerif.Generated.GateShapes
import BqVerif.Proofs.GatesIdentity
/-!
# C18 — every library gate obeys the gate contract for all parameters

Carrier: an arbitrary commutative *-ring `R` with constants `K` (`i² = -1`, `ī = -i`,
`½ + ½ = 1`, `(1/√2)² = ½`, `½` and `1/√2` real) — `Consts.Valid` — and parameters given as
real points of the unit circle — `Ang.Valid` (`c² + s² = 1`, `c̄ = c`, `s̄ = s`).  `ℂ` with real
angles is an instance (`GatesWitness.lean`), so every statement below holds for all real
parameter vectors.  `toM n f` is the `n × n` Mathlib matrix of a model matrix `f`;
`IsUnitary n f` is `toM n f * (toM n f)ᴴ = 1`.

* `C18_unitary_<g>` : the model matrix of family `g` is unitary of the advertised dimension.
* `C18_grad_<g>_<k>` : the `k`-th gradient matrix is the first-order Taylor coefficient of the
  unitary in parameter `k`: displacing the angle by `rate·ε`, `ε² = 0`, changes `U` by
  `ε • grad_k` (in every commutative ring — dual numbers included — hence the formal
  derivative; `rate` = ½ for half-angle parameters, `π/2`, `π` for PhasedXZ).
* `C18_inverse_<g>` : inverse gate at the inverse parameters times the gate is `1`.
* composed gates: generic in the inner gate (section "Composed gates").
* `C18_shapes_agree` : the regenerated shape table of the live classes equals the model's.
* `C18_identity_*` : equal gates hash equally - the table of what every `__eq__` / `__hash__`
  reads (regenerated from the source of the live classes) equals the model's, every row but
  the known findings is coherent, and coherence means equal hash keys in every semantics.
-/
namespace BqVerif.C18
open BqVerif.Gates Matrix
set_option linter.unusedSectionVars false
set_option linter.unusedVariables false

variable {R : Type} [CommRing R] [StarRing R]

/-! ## Families (generated block: one restatement per lemma of Proofs/GatesUnitary, GatesGrad) -/
-- BEGIN GENERATED FAMILIES
theorem C18_unitary_u3 (K : Consts R) (hK : K.Valid) (t p l : Ang R) (ht : t.Valid) (hp : p.Valid) (hl : l.Valid) : IsUnitary 2 (u3 K t p l) :=
  unitary_u3 K hK t p l ht hp hl
example : ∃ (K : Consts ℂ) (t p l : Ang ℂ), K.Valid ∧ t.Valid ∧ p.Valid ∧ l.Valid := ⟨K0, a0, a0, a0, K0_valid, a0_valid, a0_valid, a0_valid⟩

theorem C18_unitary_u2 (K : Consts R) (hK : K.Valid) (p l : Ang R) (hp : p.Valid) (hl : l.Valid) : IsUnitary 2 (u2 K p l) :=
  unitary_u2 K hK p l hp hl
example : ∃ (K : Consts ℂ) (p l : Ang ℂ), K.Valid ∧ p.Valid ∧ l.Valid := ⟨K0, a0, a0, K0_valid, a0_valid, a0_valid⟩

theorem C18_unitary_u1 (K : Consts R) (hK : K.Valid) (t : Ang R) (ht : t.Valid) : IsUnitary 2 (u1 K t) :=
  unitary_u1 K hK t ht
example : ∃ (K : Consts ℂ) (t : Ang ℂ), K.Valid ∧ t.Valid := ⟨K0, a0, K0_valid, a0_valid⟩

theorem C18_unitary_rx (K : Consts R) (hK : K.Valid) (t : Ang R) (ht : t.Valid) : IsUnitary 2 (rx K t) :=
  unitary_rx K hK t ht
example : ∃ (K : Consts ℂ) (t : Ang ℂ), K.Valid ∧ t.Valid := ⟨K0, a0, K0_valid, a0_valid⟩

theorem C18_unitary_ry (t : Ang R) (ht : t.Valid) : IsUnitary 2 (ry t) :=
  unitary_ry t ht
example : ∃ (t : Ang ℂ), t.Valid := ⟨a0, a0_valid⟩

theorem C18_unitary_rz (K : Consts R) (hK : K.Valid) (t : Ang R) (ht : t.Valid) : IsUnitary 2 (rz K t) :=
  unitary_rz K hK t ht
example : ∃ (K : Consts ℂ) (t : Ang ℂ), K.Valid ∧ t.Valid := ⟨K0, a0, K0_valid, a0_valid⟩

theorem C18_unitary_u1q (K : Consts R) (hK : K.Valid) (t p : Ang R) (ht : t.Valid) (hp : p.Valid) : IsUnitary 2 (u1q K t p) :=
  unitary_u1q K hK t p ht hp
example : ∃ (K : Consts ℂ) (t p : Ang ℂ), K.Valid ∧ t.Valid ∧ p.Valid := ⟨K0, a0, a0, K0_valid, a0_valid, a0_valid⟩

theorem C18_unitary_pxz (K : Consts R) (hK : K.Valid) (a z b : Ang R) (ha : a.Valid) (hz : z.Valid) (hb : b.Valid) : IsUnitary 2 (pxz K a z b) :=
  unitary_pxz K hK a z b ha hz hb
example : ∃ (K : Consts ℂ) (a z b : Ang ℂ), K.Valid ∧ a.Valid ∧ z.Valid ∧ b.Valid := ⟨K0, a0, a0, a0, K0_valid, a0_valid, a0_valid, a0_valid⟩

theorem C18_unitary_rxx (K : Consts R) (hK : K.Valid) (t : Ang R) (ht : t.Valid) : IsUnitary 4 (rxx K t) :=
  unitary_rxx K hK t ht
example : ∃ (K : Consts ℂ) (t : Ang ℂ), K.Valid ∧ t.Valid := ⟨K0, a0, K0_valid, a0_valid⟩

theorem C18_unitary_ryy (K : Consts R) (hK : K.Valid) (t : Ang R) (ht : t.Valid) : IsUnitary 4 (ryy K t) :=
  unitary_ryy K hK t ht
example : ∃ (K : Consts ℂ) (t : Ang ℂ), K.Valid ∧ t.Valid := ⟨K0, a0, K0_valid, a0_valid⟩

theorem C18_unitary_rzz (K : Consts R) (hK : K.Valid) (t : Ang R) (ht : t.Valid) : IsUnitary 4 (rzz K t) :=
  unitary_rzz K hK t ht
example : ∃ (K : Consts ℂ) (t : Ang ℂ), K.Valid ∧ t.Valid := ⟨K0, a0, K0_valid, a0_valid⟩

theorem C18_unitary_cp (K : Consts R) (hK : K.Valid) (t : Ang R) (ht : t.Valid) : IsUnitary 4 (cp K t) :=
  unitary_cp K hK t ht
example : ∃ (K : Consts ℂ) (t : Ang ℂ), K.Valid ∧ t.Valid := ⟨K0, a0, K0_valid, a0_valid⟩

theorem C18_unitary_crx (K : Consts R) (hK : K.Valid) (t : Ang R) (ht : t.Valid) : IsUnitary 4 (crx K t) :=
  unitary_crx K hK t ht
example : ∃ (K : Consts ℂ) (t : Ang ℂ), K.Valid ∧ t.Valid := ⟨K0, a0, K0_valid, a0_valid⟩

theorem C18_unitary_cry (t : Ang R) (ht : t.Valid) : IsUnitary 4 (cry t) :=
  unitary_cry t ht
example : ∃ (t : Ang ℂ), t.Valid := ⟨a0, a0_valid⟩

theorem C18_unitary_crz (K : Consts R) (hK : K.Valid) (t : Ang R) (ht : t.Valid) : IsUnitary 4 (crz K t) :=
  unitary_crz K hK t ht
example : ∃ (K : Consts ℂ) (t : Ang ℂ), K.Valid ∧ t.Valid := ⟨K0, a0, K0_valid, a0_valid⟩

theorem C18_unitary_cu (K : Consts R) (hK : K.Valid) (t p l g : Ang R) (ht : t.Valid) (hp : p.Valid) (hl : l.Valid) (hg : g.Valid) : IsUnitary 4 (cu K t p l g) :=
  unitary_cu K hK t p l g ht hp hl hg
example : ∃ (K : Consts ℂ) (t p l g : Ang ℂ), K.Valid ∧ t.Valid ∧ p.Valid ∧ l.Valid ∧ g.Valid := ⟨K0, a0, a0, a0, a0, K0_valid, a0_valid, a0_valid, a0_valid, a0_valid⟩

theorem C18_unitary_fsim (K : Consts R) (hK : K.Valid) (t p : Ang R) (ht : t.Valid) (hp : p.Valid) : IsUnitary 4 (fsim K t p) :=
  unitary_fsim K hK t p ht hp
example : ∃ (K : Consts ℂ) (t p : Ang ℂ), K.Valid ∧ t.Valid ∧ p.Valid := ⟨K0, a0, a0, K0_valid, a0_valid, a0_valid⟩

theorem C18_unitary_ccp (K : Consts R) (hK : K.Valid) (t : Ang R) (ht : t.Valid) : IsUnitary 8 (ccp K t) :=
  unitary_ccp K hK t ht
example : ∃ (K : Consts ℂ) (t : Ang ℂ), K.Valid ∧ t.Valid := ⟨K0, a0, K0_valid, a0_valid⟩

theorem C18_unitary_hGate (K : Consts R) (hK : K.Valid) : IsUnitary 2 (hGate K) :=
  unitary_hGate K hK 
example : ∃ (K : Consts ℂ), K.Valid := ⟨K0, K0_valid⟩

theorem C18_unitary_h4Gate (K : Consts R) (hK : K.Valid) : IsUnitary 4 (h4Gate K) :=
  unitary_h4Gate K hK 
example : ∃ (K : Consts ℂ), K.Valid := ⟨K0, K0_valid⟩

theorem C18_unitary_sx (K : Consts R) (hK : K.Valid) : IsUnitary 2 (sx K) :=
  unitary_sx K hK 
example : ∃ (K : Consts ℂ), K.Valid := ⟨K0, K0_valid⟩

theorem C18_unitary_sxdg (K : Consts R) (hK : K.Valid) : IsUnitary 2 (sxdg K) :=
  unitary_sxdg K hK 
example : ∃ (K : Consts ℂ), K.Valid := ⟨K0, K0_valid⟩

theorem C18_unitary_ch (K : Consts R) (hK : K.Valid) : IsUnitary 4 (ch K) :=
  unitary_ch K hK 
example : ∃ (K : Consts ℂ), K.Valid := ⟨K0, K0_valid⟩

theorem C18_unitary_sqrtISwap (K : Consts R) (hK : K.Valid) : IsUnitary 4 (sqrtISwap K) :=
  unitary_sqrtISwap K hK 
example : ∃ (K : Consts ℂ), K.Valid := ⟨K0, K0_valid⟩

theorem C18_unitary_sqrtCNOT (K : Consts R) (hK : K.Valid) : IsUnitary 4 (sqrtCNOT K) :=
  unitary_sqrtCNOT K hK 
example : ∃ (K : Consts ℂ), K.Valid := ⟨K0, K0_valid⟩

theorem C18_unitary_ecr (K : Consts R) (hK : K.Valid) : IsUnitary 4 (ecr K) :=
  unitary_ecr K hK 
example : ∃ (K : Consts ℂ), K.Valid := ⟨K0, K0_valid⟩

theorem C18_unitary_xxGate (K : Consts R) (hK : K.Valid) : IsUnitary 4 (xxGate K) :=
  unitary_xxGate K hK 
example : ∃ (K : Consts ℂ), K.Valid := ⟨K0, K0_valid⟩

theorem C18_unitary_yyGate (K : Consts R) (hK : K.Valid) : IsUnitary 4 (yyGate K) :=
  unitary_yyGate K hK 
example : ∃ (K : Consts ℂ), K.Valid := ⟨K0, K0_valid⟩

theorem C18_unitary_zzGate (K : Consts R) (hK : K.Valid) : IsUnitary 4 (zzGate K) :=
  unitary_zzGate K hK 
example : ∃ (K : Consts ℂ), K.Valid := ⟨K0, K0_valid⟩

theorem C18_unitary_bGate (K : Consts R) (hK : K.Valid) (a : Ang R) (ha : a.Valid) : IsUnitary 4 (bGate K a) :=
  unitary_bGate K hK a ha
example : ∃ (K : Consts ℂ) (a : Ang ℂ), K.Valid ∧ a.Valid := ⟨K0, a0, K0_valid, a0_valid⟩

theorem C18_unitary_xGate : IsUnitary 2 (xGate : M R) :=
  unitary_xGate 

theorem C18_unitary_yGate (K : Consts R) (hK : K.Valid) : IsUnitary 2 (yGate K) :=
  unitary_yGate K hK 
example : ∃ (K : Consts ℂ), K.Valid := ⟨K0, K0_valid⟩

theorem C18_unitary_zGate : IsUnitary 2 (zGate : M R) :=
  unitary_zGate 

theorem C18_unitary_sGate (K : Consts R) (hK : K.Valid) : IsUnitary 2 (sGate K) :=
  unitary_sGate K hK 
example : ∃ (K : Consts ℂ), K.Valid := ⟨K0, K0_valid⟩

theorem C18_unitary_sdgGate (K : Consts R) (hK : K.Valid) : IsUnitary 2 (sdgGate K) :=
  unitary_sdgGate K hK 
example : ∃ (K : Consts ℂ), K.Valid := ⟨K0, K0_valid⟩

theorem C18_unitary_tGate (K : Consts R) (hK : K.Valid) : IsUnitary 2 (tGate K) :=
  unitary_tGate K hK 
example : ∃ (K : Consts ℂ), K.Valid := ⟨K0, K0_valid⟩

theorem C18_unitary_tdgGate (K : Consts R) (hK : K.Valid) : IsUnitary 2 (tdgGate K) :=
  unitary_tdgGate K hK 
example : ∃ (K : Consts ℂ), K.Valid := ⟨K0, K0_valid⟩

theorem C18_unitary_sqrtTGate (K : Consts R) (hK : K.Valid) (a : Ang R) (ha : a.Valid) : IsUnitary 2 (sqrtTGate K a) :=
  unitary_sqrtTGate K hK a ha
example : ∃ (K : Consts ℂ) (a : Ang ℂ), K.Valid ∧ a.Valid := ⟨K0, a0, K0_valid, a0_valid⟩

theorem C18_unitary_cxGate : IsUnitary 4 (cxGate : M R) :=
  unitary_cxGate 

theorem C18_unitary_cyGate (K : Consts R) (hK : K.Valid) : IsUnitary 4 (cyGate K) :=
  unitary_cyGate K hK 
example : ∃ (K : Consts ℂ), K.Valid := ⟨K0, K0_valid⟩

theorem C18_unitary_czGate : IsUnitary 4 (czGate : M R) :=
  unitary_czGate 

theorem C18_unitary_csGate (K : Consts R) (hK : K.Valid) : IsUnitary 4 (csGate K) :=
  unitary_csGate K hK 
example : ∃ (K : Consts ℂ), K.Valid := ⟨K0, K0_valid⟩

theorem C18_unitary_ctGate (K : Consts R) (hK : K.Valid) : IsUnitary 4 (ctGate K) :=
  unitary_ctGate K hK 
example : ∃ (K : Consts ℂ), K.Valid := ⟨K0, K0_valid⟩

theorem C18_unitary_swapGate : IsUnitary 4 (swapGate : M R) :=
  unitary_swapGate 

theorem C18_unitary_iswapGate (K : Consts R) (hK : K.Valid) : IsUnitary 4 (iswapGate K) :=
  unitary_iswapGate K hK 
example : ∃ (K : Consts ℂ), K.Valid := ⟨K0, K0_valid⟩

theorem C18_unitary_sycamore (K : Consts R) (hK : K.Valid) (a : Ang R) (ha : a.Valid) : IsUnitary 4 (sycamore K a) :=
  unitary_sycamore K hK a ha
example : ∃ (K : Consts ℂ) (a : Ang ℂ), K.Valid ∧ a.Valid := ⟨K0, a0, K0_valid, a0_valid⟩

theorem C18_unitary_ccxGate : IsUnitary 8 (ccxGate : M R) :=
  unitary_ccxGate 

theorem C18_unitary_itoffoli (K : Consts R) (hK : K.Valid) : IsUnitary 8 (itoffoli K) :=
  unitary_itoffoli K hK 
example : ∃ (K : Consts ℂ), K.Valid := ⟨K0, K0_valid⟩

theorem C18_unitary_rccx (K : Consts R) (hK : K.Valid) : IsUnitary 8 (rccx K) :=
  unitary_rccx K hK 
example : ∃ (K : Consts ℂ), K.Valid := ⟨K0, K0_valid⟩

theorem C18_unitary_rc3x (K : Consts R) (hK : K.Valid) : IsUnitary 16 (rc3x K) :=
  unitary_rc3x K hK 
example : ∃ (K : Consts ℂ), K.Valid := ⟨K0, K0_valid⟩

theorem C18_unitary_cpiGate : IsUnitary 9 (cpiGate : M R) :=
  unitary_cpiGate 

/-- `get_inverse()` returns the gate itself and it squares to the identity -/
theorem C18_inverse_xGate : toM 2 (xGate : M R) * toM 2 (xGate : M R) = 1 :=
  selfinv_xGate 

/-- `get_inverse()` returns the gate itself and it squares to the identity -/
theorem C18_inverse_yGate (K : Consts R) (hK : K.Valid) : toM 2 (yGate K) * toM 2 (yGate K) = 1 :=
  selfinv_yGate K hK 
example : ∃ K : Consts ℂ, K.Valid := ⟨K0, K0_valid⟩

/-- `get_inverse()` returns the gate itself and it squares to the identity -/
theorem C18_inverse_zGate : toM 2 (zGate : M R) * toM 2 (zGate : M R) = 1 :=
  selfinv_zGate 

/-- `get_inverse()` returns the gate itself and it squares to the identity -/
theorem C18_inverse_hGate (K : Consts R) (hK : K.Valid) : toM 2 (hGate K) * toM 2 (hGate K) = 1 :=
  selfinv_hGate K hK 
example : ∃ K : Consts ℂ, K.Valid := ⟨K0, K0_valid⟩

/-- `get_inverse()` returns the gate itself and it squares to the identity -/
theorem C18_inverse_cxGate : toM 4 (cxGate : M R) * toM 4 (cxGate : M R) = 1 :=
  selfinv_cxGate 

/-- `get_inverse()` returns the gate itself and it squares to the identity -/
theorem C18_inverse_cyGate (K : Consts R) (hK : K.Valid) : toM 4 (cyGate K) * toM 4 (cyGate K) = 1 :=
  selfinv_cyGate K hK 
example : ∃ K : Consts ℂ, K.Valid := ⟨K0, K0_valid⟩

/-- `get_inverse()` returns the gate itself and it squares to the identity -/
theorem C18_inverse_czGate : toM 4 (czGate : M R) * toM 4 (czGate : M R) = 1 :=
  selfinv_czGate 

/-- `get_inverse()` returns the gate itself and it squares to the identity -/
theorem C18_inverse_ch (K : Consts R) (hK : K.Valid) : toM 4 (ch K) * toM 4 (ch K) = 1 :=
  selfinv_ch K hK 
example : ∃ K : Consts ℂ, K.Valid := ⟨K0, K0_valid⟩

/-- `get_inverse()` returns the gate itself and it squares to the identity -/
theorem C18_inverse_swapGate : toM 4 (swapGate : M R) * toM 4 (swapGate : M R) = 1 :=
  selfinv_swapGate 

/-- `get_inverse()` returns the gate itself and it squares to the identity -/
theorem C18_inverse_ccxGate : toM 8 (ccxGate : M R) * toM 8 (ccxGate : M R) = 1 :=
  selfinv_ccxGate 

/-- `get_inverse()` returns the gate itself and it squares to the identity -/
theorem C18_inverse_ecr (K : Consts R) (hK : K.Valid) : toM 4 (ecr K) * toM 4 (ecr K) = 1 :=
  selfinv_ecr K hK 
example : ∃ K : Consts ℂ, K.Valid := ⟨K0, K0_valid⟩

theorem C18_grad_u3_0 {S : Type} [CommRing S] (K : Consts S) (t p l : Ang S) (ε : S) (hε : ε * ε = 0) :
    toM 2 (u3 K (t.shift K.h ε) p l) = toM 2 (u3 K t p l) + ε • toM 2 (u3_g0 K t p l) :=
  grad_u3_0 K t p l ε hε
example : ∃ ε : ZMod 4, ε ≠ 0 ∧ ε * ε = 0 := ⟨2, by decide, by decide⟩

theorem C18_grad_u3_1 {S : Type} [CommRing S] (K : Consts S) (t p l : Ang S) (ε : S) (hε : ε * ε = 0) :
    toM 2 (u3 K t (p.shift 1 ε) l) = toM 2 (u3 K t p l) + ε • toM 2 (u3_g1 K t p l) :=
  grad_u3_1 K t p l ε hε
example : ∃ ε : ZMod 4, ε ≠ 0 ∧ ε * ε = 0 := ⟨2, by decide, by decide⟩

theorem C18_grad_u3_2 {S : Type} [CommRing S] (K : Consts S) (t p l : Ang S) (ε : S) (hε : ε * ε = 0) :
    toM 2 (u3 K t p (l.shift 1 ε)) = toM 2 (u3 K t p l) + ε • toM 2 (u3_g2 K t p l) :=
  grad_u3_2 K t p l ε hε
example : ∃ ε : ZMod 4, ε ≠ 0 ∧ ε * ε = 0 := ⟨2, by decide, by decide⟩

theorem C18_grad_u2_0 {S : Type} [CommRing S] (K : Consts S) (p l : Ang S) (ε : S) (hε : ε * ε = 0) :
    toM 2 (u2 K (p.shift 1 ε) l) = toM 2 (u2 K p l) + ε • toM 2 (u2_g0 K p l) :=
  grad_u2_0 K p l ε hε
example : ∃ ε : ZMod 4, ε ≠ 0 ∧ ε * ε = 0 := ⟨2, by decide, by decide⟩

theorem C18_grad_u2_1 {S : Type} [CommRing S] (K : Consts S) (p l : Ang S) (ε : S) (hε : ε * ε = 0) :
    toM 2 (u2 K p (l.shift 1 ε)) = toM 2 (u2 K p l) + ε • toM 2 (u2_g1 K p l) :=
  grad_u2_1 K p l ε hε
example : ∃ ε : ZMod 4, ε ≠ 0 ∧ ε * ε = 0 := ⟨2, by decide, by decide⟩

theorem C18_grad_u1_0 {S : Type} [CommRing S] (K : Consts S) (t : Ang S) (ε : S) (hε : ε * ε = 0) :
    toM 2 (u1 K (t.shift 1 ε)) = toM 2 (u1 K t) + ε • toM 2 (u1_g0 K t) :=
  grad_u1_0 K t ε hε
example : ∃ ε : ZMod 4, ε ≠ 0 ∧ ε * ε = 0 := ⟨2, by decide, by decide⟩

theorem C18_grad_rx_0 {S : Type} [CommRing S] (K : Consts S) (t : Ang S) (ε : S) (hε : ε * ε = 0) :
    toM 2 (rx K (t.shift K.h ε)) = toM 2 (rx K t) + ε • toM 2 (rx_g0 K t) :=
  grad_rx_0 K t ε hε
example : ∃ ε : ZMod 4, ε ≠ 0 ∧ ε * ε = 0 := ⟨2, by decide, by decide⟩

theorem C18_grad_ry_0 {S : Type} [CommRing S] (K : Consts S) (t : Ang S) (ε : S) (hε : ε * ε = 0) :
    toM 2 (ry (t.shift K.h ε)) = toM 2 (ry t) + ε • toM 2 (ry_g0 K t) :=
  grad_ry_0 K t ε hε
example : ∃ ε : ZMod 4, ε ≠ 0 ∧ ε * ε = 0 := ⟨2, by decide, by decide⟩

theorem C18_grad_rz_0 {S : Type} [CommRing S] (K : Consts S) (t : Ang S) (ε : S) (hε : ε * ε = 0) :
    toM 2 (rz K (t.shift K.h ε)) = toM 2 (rz K t) + ε • toM 2 (rz_g0 K t) :=
  grad_rz_0 K t ε hε
example : ∃ ε : ZMod 4, ε ≠ 0 ∧ ε * ε = 0 := ⟨2, by decide, by decide⟩

theorem C18_grad_u1q_0 {S : Type} [CommRing S] (K : Consts S) (t p : Ang S) (ε : S) (hε : ε * ε = 0) :
    toM 2 (u1q K (t.shift K.h ε) p) = toM 2 (u1q K t p) + ε • toM 2 (u1q_g0 K t p) :=
  grad_u1q_0 K t p ε hε
example : ∃ ε : ZMod 4, ε ≠ 0 ∧ ε * ε = 0 := ⟨2, by decide, by decide⟩

theorem C18_grad_u1q_1 {S : Type} [CommRing S] (K : Consts S) (t p : Ang S) (ε : S) (hε : ε * ε = 0) :
    toM 2 (u1q K t (p.shift 1 ε)) = toM 2 (u1q K t p) + ε • toM 2 (u1q_g1 K t p) :=
  grad_u1q_1 K t p ε hε
example : ∃ ε : ZMod 4, ε ≠ 0 ∧ ε * ε = 0 := ⟨2, by decide, by decide⟩

theorem C18_grad_pxz_0 {S : Type} [CommRing S] (K : Consts S) (a z b : Ang S) (ε : S) (hε : ε * ε = 0) :
    toM 2 (pxz K (a.shift (K.pi * K.h) ε) z b) = toM 2 (pxz K a z b) + ε • toM 2 (pxz_g0 K a z b) :=
  grad_pxz_0 K a z b ε hε
example : ∃ ε : ZMod 4, ε ≠ 0 ∧ ε * ε = 0 := ⟨2, by decide, by decide⟩

theorem C18_grad_pxz_1 {S : Type} [CommRing S] (K : Consts S) (a z b : Ang S) (ε : S) (hε : ε * ε = 0) :
    toM 2 (pxz K a (z.shift K.pi ε) b) = toM 2 (pxz K a z b) + ε • toM 2 (pxz_g1 K a z b) :=
  grad_pxz_1 K a z b ε hε
example : ∃ ε : ZMod 4, ε ≠ 0 ∧ ε * ε = 0 := ⟨2, by decide, by decide⟩

theorem C18_grad_pxz_2 {S : Type} [CommRing S] (K : Consts S) (a z b : Ang S) (ε : S) (hε : ε * ε = 0) :
    toM 2 (pxz K a z (b.shift K.pi ε)) = toM 2 (pxz K a z b) + ε • toM 2 (pxz_g2 K a z b) :=
  grad_pxz_2 K a z b ε hε
example : ∃ ε : ZMod 4, ε ≠ 0 ∧ ε * ε = 0 := ⟨2, by decide, by decide⟩

theorem C18_grad_rxx_0 {S : Type} [CommRing S] (K : Consts S) (t : Ang S) (ε : S) (hε : ε * ε = 0) :
    toM 4 (rxx K (t.shift K.h ε)) = toM 4 (rxx K t) + ε • toM 4 (rxx_g0 K t) :=
  grad_rxx_0 K t ε hε
example : ∃ ε : ZMod 4, ε ≠ 0 ∧ ε * ε = 0 := ⟨2, by decide, by decide⟩

theorem C18_grad_ryy_0 {S : Type} [CommRing S] (K : Consts S) (t : Ang S) (ε : S) (hε : ε * ε = 0) :
    toM 4 (ryy K (t.shift K.h ε)) = toM 4 (ryy K t) + ε • toM 4 (ryy_g0 K t) :=
  grad_ryy_0 K t ε hε
example : ∃ ε : ZMod 4, ε ≠ 0 ∧ ε * ε = 0 := ⟨2, by decide, by decide⟩

theorem C18_grad_rzz_0 {S : Type} [CommRing S] (K : Consts S) (t : Ang S) (ε : S) (hε : ε * ε = 0) :
    toM 4 (rzz K (t.shift K.h ε)) = toM 4 (rzz K t) + ε • toM 4 (rzz_g0 K t) :=
  grad_rzz_0 K t ε hε
example : ∃ ε : ZMod 4, ε ≠ 0 ∧ ε * ε = 0 := ⟨2, by decide, by decide⟩

theorem C18_grad_cp_0 {S : Type} [CommRing S] (K : Consts S) (t : Ang S) (ε : S) (hε : ε * ε = 0) :
    toM 4 (cp K (t.shift 1 ε)) = toM 4 (cp K t) + ε • toM 4 (cp_g0 K t) :=
  grad_cp_0 K t ε hε
example : ∃ ε : ZMod 4, ε ≠ 0 ∧ ε * ε = 0 := ⟨2, by decide, by decide⟩

theorem C18_grad_crx_0 {S : Type} [CommRing S] (K : Consts S) (t : Ang S) (ε : S) (hε : ε * ε = 0) :
    toM 4 (crx K (t.shift K.h ε)) = toM 4 (crx K t) + ε • toM 4 (crx_g0 K t) :=
  grad_crx_0 K t ε hε
example : ∃ ε : ZMod 4, ε ≠ 0 ∧ ε * ε = 0 := ⟨2, by decide, by decide⟩

theorem C18_grad_cry_0 {S : Type} [CommRing S] (K : Consts S) (t : Ang S) (ε : S) (hε : ε * ε = 0) :
    toM 4 (cry (t.shift K.h ε)) = toM 4 (cry t) + ε • toM 4 (cry_g0 K t) :=
  grad_cry_0 K t ε hε
example : ∃ ε : ZMod 4, ε ≠ 0 ∧ ε * ε = 0 := ⟨2, by decide, by decide⟩

theorem C18_grad_crz_0 {S : Type} [CommRing S] (K : Consts S) (t : Ang S) (ε : S) (hε : ε * ε = 0) :
    toM 4 (crz K (t.shift K.h ε)) = toM 4 (crz K t) + ε • toM 4 (crz_g0 K t) :=
  grad_crz_0 K t ε hε
example : ∃ ε : ZMod 4, ε ≠ 0 ∧ ε * ε = 0 := ⟨2, by decide, by decide⟩

theorem C18_grad_cu_0 {S : Type} [CommRing S] (K : Consts S) (t p l g : Ang S) (ε : S) (hε : ε * ε = 0) :
    toM 4 (cu K (t.shift K.h ε) p l g) = toM 4 (cu K t p l g) + ε • toM 4 (cu_g0 K t p l g) :=
  grad_cu_0 K t p l g ε hε
example : ∃ ε : ZMod 4, ε ≠ 0 ∧ ε * ε = 0 := ⟨2, by decide, by decide⟩

theorem C18_grad_cu_1 {S : Type} [CommRing S] (K : Consts S) (t p l g : Ang S) (ε : S) (hε : ε * ε = 0) :
    toM 4 (cu K t (p.shift 1 ε) l g) = toM 4 (cu K t p l g) + ε • toM 4 (cu_g1 K t p l g) :=
  grad_cu_1 K t p l g ε hε
example : ∃ ε : ZMod 4, ε ≠ 0 ∧ ε * ε = 0 := ⟨2, by decide, by decide⟩

theorem C18_grad_cu_2 {S : Type} [CommRing S] (K : Consts S) (t p l g : Ang S) (ε : S) (hε : ε * ε = 0) :
    toM 4 (cu K t p (l.shift 1 ε) g) = toM 4 (cu K t p l g) + ε • toM 4 (cu_g2 K t p l g) :=
  grad_cu_2 K t p l g ε hε
example : ∃ ε : ZMod 4, ε ≠ 0 ∧ ε * ε = 0 := ⟨2, by decide, by decide⟩

theorem C18_grad_cu_3 {S : Type} [CommRing S] (K : Consts S) (t p l g : Ang S) (ε : S) (hε : ε * ε = 0) :
    toM 4 (cu K t p l (g.shift 1 ε)) = toM 4 (cu K t p l g) + ε • toM 4 (cu_g3 K t p l g) :=
  grad_cu_3 K t p l g ε hε
example : ∃ ε : ZMod 4, ε ≠ 0 ∧ ε * ε = 0 := ⟨2, by decide, by decide⟩

theorem C18_grad_fsim_0 {S : Type} [CommRing S] (K : Consts S) (t p : Ang S) (ε : S) (hε : ε * ε = 0) :
    toM 4 (fsim K (t.shift 1 ε) p) = toM 4 (fsim K t p) + ε • toM 4 (fsim_g0 K t) :=
  grad_fsim_0 K t p ε hε
example : ∃ ε : ZMod 4, ε ≠ 0 ∧ ε * ε = 0 := ⟨2, by decide, by decide⟩

theorem C18_grad_fsim_1 {S : Type} [CommRing S] (K : Consts S) (t p : Ang S) (ε : S) (hε : ε * ε = 0) :
    toM 4 (fsim K t (p.shift 1 ε)) = toM 4 (fsim K t p) + ε • toM 4 (fsim_g1 K p) :=
  grad_fsim_1 K t p ε hε
example : ∃ ε : ZMod 4, ε ≠ 0 ∧ ε * ε = 0 := ⟨2, by decide, by decide⟩

theorem C18_grad_ccp_0 {S : Type} [CommRing S] (K : Consts S) (t : Ang S) (ε : S) (hε : ε * ε = 0) :
    toM 8 (ccp K (t.shift 1 ε)) = toM 8 (ccp K t) + ε • toM 8 (ccp_g0 K t) :=
  grad_ccp_0 K t ε hε
example : ∃ ε : ZMod 4, ε ≠ 0 ∧ ε * ε = 0 := ⟨2, by decide, by decide⟩

-- END GENERATED FAMILIES


/-! ## Gates with a variable number of parameters -/

/-- `DiagonalGate(n)`: unitary at every size for every real parameter vector -/
theorem C18_unitary_diagGate (K : Consts R) (hK : K.Valid) (N : Nat) (ps : List (Ang R))
    (hps : ∀ a ∈ ps, a.Valid) : IsUnitary N (diagGate K ps) := unitary_diagGate K hK N ps hps
example : ∃ (K : Consts ℂ) (ps : List (Ang ℂ)), K.Valid ∧ ps ≠ [] ∧ ∀ a ∈ ps, a.Valid :=
  ⟨K0, [a0, a0, a0], K0_valid, by simp, by simp [a0_valid]⟩

theorem C18_grad_diagGate {S : Type} [CommRing S] (K : Consts S) (ps : List (Ang S)) (k : Nat)
    (hk : k < ps.length) (ε : S) :
    ∀ i j, diagGate K (ps.set k ((ps.getD k Ang.zero).shift 1 ε)) i j =
      diagGate K ps i j + ε * diagGate_g K ps k i j := grad_diagGate K ps k hk ε
example : ∃ (ps : List (Ang ℂ)) (k : Nat), k < ps.length := ⟨[a0, a0], 1, by simp⟩

/-- `ArbitraryCPhaseGate(radixes)` (the matrix; its `get_unitary` drops the radixes: finding 1) -/
theorem C18_unitary_acphase (K : Consts R) (hK : K.Valid) (N D : Nat) (t : Ang R) (ht : t.Valid) :
    IsUnitary N (acphase K D t) := unitary_acphase K hK N D t ht
example : ∃ (K : Consts ℂ) (t : Ang ℂ), K.Valid ∧ t.Valid := ⟨K0, a0, K0_valid, a0_valid⟩

theorem C18_grad_acphase {S : Type} [CommRing S] (K : Consts S) (D : Nat) (t : Ang S) (ε : S) :
    ∀ i j, acphase K D (t.shift 1 ε) i j = acphase K D t i j + ε * acphase_g K D t i j :=
  grad_acphase K D t ε

/-- `MPRYGate(n, target)` for the `(n, target)` of the sweep: every select value carries an
`RY` block (index bijection checked by `decide`) -/
theorem C18_unitary_mpry (c : Nat × Nat) (hc : c ∈ muxCases) (ps : List (Ang R))
    (hps : ∀ a ∈ ps, a.Valid) : IsUnitary (2 * pow2 (c.1 - 1)) (mpry c.1 c.2 ps) :=
  unitary_mpry c hc ps hps
example : (3, 1) ∈ muxCases := by decide

/-- `MPRZGate(n, target)` -/
theorem C18_unitary_mprz (K : Consts R) (hK : K.Valid) (c : Nat × Nat) (hc : c ∈ muxCases)
    (ps : List (Ang R)) (hps : ∀ a ∈ ps, a.Valid) :
    IsUnitary (2 * pow2 (c.1 - 1)) (mprz K c.1 c.2 ps) := unitary_mprz K hK c hc ps hps
example : (2, 0) ∈ muxCases ∧ ∃ K : Consts ℂ, K.Valid := ⟨by decide, K0, K0_valid⟩

theorem C18_grad_mpry {S : Type} [CommRing S] (K : Consts S) (n t : Nat) (ps : List (Ang S))
    (k : Nat) (hk : k < ps.length) (ε : S) :
    ∀ r c, mpry n t (ps.set k ((ps.getD k Ang.zero).shift K.h ε)) r c =
      mpry n t ps r c + ε * mpry_g K n t ps k r c := grad_mpry K n t ps k hk ε
example : ∃ (ps : List (Ang ℂ)) (k : Nat), k < ps.length := ⟨[a0, a0], 1, by simp⟩

theorem C18_grad_mprz {S : Type} [CommRing S] (K : Consts S) (n t : Nat) (ps : List (Ang S))
    (k : Nat) (hk : k < ps.length) (ε : S) :
    ∀ r c, mprz K n t (ps.set k ((ps.getD k Ang.zero).shift K.h ε)) r c =
      mprz K n t ps r c + ε * mprz_g K n t ps k r c := grad_mprz K n t ps k hk ε
example : ∃ (ps : List (Ang ℂ)) (k : Nat), k < ps.length := ⟨[a0, a0], 0, by simp⟩

/-- `RSU3Gate(index)`, `index ≤ 6` (`index = 7` involves `θ/√3`: validated numerically) -/
theorem C18_unitary_rsu3 (K : Consts R) (hK : K.Valid) (index : Nat) (hi : index ≤ 6) (t : Ang R)
    (ht : t.Valid) : IsUnitary 3 (rsu3 K index t) := unitary_rsu3 K hK index hi t ht
example : ∃ (K : Consts ℂ) (t : Ang ℂ), K.Valid ∧ t.Valid := ⟨K0, a0, K0_valid, a0_valid⟩

theorem C18_grad_rsu3 {S : Type} [CommRing S] (K : Consts S) (index : Nat) (t : Ang S) (ε : S) :
    toM 3 (rsu3 K index (t.shift 1 ε)) = toM 3 (rsu3 K index t) + ε • toM 3 (rsu3_g K index t) :=
  grad_rsu3 K index t ε

/-! ## CKM gates (the model carries the CORRECT gradient; the library's is finding 2) -/

/-- `CKMGate.get_unitary = u1·u2·u3` is unitary -/
theorem C18_unitary_ckm (K : Consts R) (hK : K.Valid) (a b c d : Ang R)
    (ha : a.Valid) (hb : b.Valid) (hc : c.Valid) (hd : d.Valid) : IsUnitary 3 (ckm K a b c d) :=
  unitary_ckm K hK a b c d ha hb hc hd
example : ∃ (K : Consts ℂ) (a b c d : Ang ℂ), K.Valid ∧ a.Valid ∧ b.Valid ∧ c.Valid ∧ d.Valid :=
  ⟨K0, a0, a0, a0, a0, K0_valid, a0_valid, a0_valid, a0_valid, a0_valid⟩

/-- `CKMdgGate.get_unitary` (the same product at the negated parameters) is unitary -/
theorem C18_unitary_ckmdg (K : Consts R) (hK : K.Valid) (a b c d : Ang R)
    (ha : a.Valid) (hb : b.Valid) (hc : c.Valid) (hd : d.Valid) : IsUnitary 3 (ckmdg K a b c d) :=
  unitary_ckmdg K hK a b c d ha hb hc hd
example : ∃ (K : Consts ℂ) (a b c d : Ang ℂ), K.Valid ∧ a.Valid ∧ b.Valid ∧ c.Valid ∧ d.Valid :=
  ⟨K0, a0, a0, a0, a0, K0_valid, a0_valid, a0_valid, a0_valid, a0_valid⟩

/-- the product-rule gradient matrices of `CKMGate` are the first-order coefficients of the
unitary in each of the four parameters (in every commutative ring, for every displacement) -/
theorem C18_grad_ckm {S : Type} [CommRing S] (K : Consts S) (a b c d : Ang S) (ε : S) :
    ckm K (a.shift 1 ε) b c d = addM (ckm K a b c d) (smulM ε (ckm_g0 K a b c d)) ∧
    ckm K a (b.shift 1 ε) c d = addM (ckm K a b c d) (smulM ε (ckm_g1 K a b c d)) ∧
    ckm K a b (c.shift 1 ε) d = addM (ckm K a b c d) (smulM ε (ckm_g2 K a b c d)) ∧
    ckm K a b c (d.shift 1 ε) = addM (ckm K a b c d) (smulM ε (ckm_g3 K a b c d)) :=
  grad_ckm K a b c d ε

/-- `CKMdgGate`: minus the CKM gradient at the negated parameters -/
theorem C18_grad_ckmdg {S : Type} [CommRing S] (K : Consts S) (a b c d : Ang S) (ε : S) :
    ckmdg K (a.shift 1 ε) b c d =
      addM (ckmdg K a b c d) (smulM ε (negM (ckm_g0 K a.neg b.neg c.neg d.neg))) ∧
    ckmdg K a (b.shift 1 ε) c d =
      addM (ckmdg K a b c d) (smulM ε (negM (ckm_g1 K a.neg b.neg c.neg d.neg))) ∧
    ckmdg K a b (c.shift 1 ε) d =
      addM (ckmdg K a b c d) (smulM ε (negM (ckm_g2 K a.neg b.neg c.neg d.neg))) ∧
    ckmdg K a b c (d.shift 1 ε) =
      addM (ckmdg K a b c d) (smulM ε (negM (ckm_g3 K a.neg b.neg c.neg d.neg))) :=
  grad_ckmdg K a b c d ε

/-! ## Qudit gates -/

/-- `ShiftGate(d)` is unitary for every radix `d` -/
theorem C18_unitary_shift (d : Nat) : IsUnitary d (shiftGate d : M R) := unitary_shift d

/-- `ClockGate(d)`: unitary for every unimodular `w`, in particular `w = e^{2πi/d}` -/
theorem C18_unitary_clock (d : Nat) (w : R) (hw : w * star w = 1) : IsUnitary d (clockGate w) :=
  unitary_clock d w hw
example : ∃ w : ℂ, w * star w = 1 ∧ w ≠ 1 := ⟨-1, by simp, by norm_num⟩

/-- `PDGate(index, d)` (as coded: the phase is `-w^(2·index)`) -/
theorem C18_unitary_pd (d : Nat) (w : R) (hw : w * star w = 1) (index : Nat) :
    IsUnitary d (pdGate w index) := unitary_pd d w hw index
example : ∃ w : ℂ, w * star w = 1 ∧ w ≠ 1 := ⟨-1, by simp, by norm_num⟩

/-- `SubSwapGate(d, "a,b;c,e")`: swapping the basis states `i = a·d+b`, `j = c·d+e` -/
theorem C18_unitary_subSwap (n i j : Nat) (hi : i < n) (hj : j < n) :
    IsUnitary n (subSwap i j : M R) := unitary_subSwap n i j hi hj
example : ∃ n i j : Nat, i < n ∧ j < n ∧ i ≠ j := ⟨9, 1, 6, by decide, by decide, by decide⟩

/-- `CSUMGate(d)` for the radixes of the property's sweep (checked permutation, `decide`) -/
theorem C18_unitary_csum (d : Nat) (hd : d ∈ [2, 3, 4, 5]) :
    IsUnitary (d * d) (csumGate d : M R) := by
  simp only [List.mem_cons, List.not_mem_nil, or_false] at hd
  rcases hd with rfl | rfl | rfl | rfl <;> exact mono_one_unitary _ _ (by decide +kernel)
example : (3 : Nat) ∈ [2, 3, 4, 5] := by decide

/-- `SwapGate(d)` for radix 2–5 -/
theorem C18_unitary_swapD (d : Nat) (hd : d ∈ [2, 3, 4, 5]) :
    IsUnitary (d * d) (swapD d : M R) := by
  simp only [List.mem_cons, List.not_mem_nil, or_false] at hd
  rcases hd with rfl | rfl | rfl | rfl <;> exact mono_one_unitary _ _ (by decide +kernel)
example : (5 : Nat) ∈ [2, 3, 4, 5] := by decide

/-- every `PermutationGate(n, location)` with `n ≤ 3` (all ordered locations) -/
def permCases : List (Nat × List Nat) := [(1, [0]), (2, [0]), (2, [1]), (2, [0, 1]), (2, [1, 0]), (3, [0]), (3, [1]), (3, [2]), (3, [0, 1]), (3, [0, 2]), (3, [1, 0]), (3, [1, 2]), (3, [2, 0]), (3, [2, 1]), (3, [0, 1, 2]), (3, [0, 2, 1]), (3, [1, 0, 2]), (3, [1, 2, 0]), (3, [2, 0, 1]), (3, [2, 1, 0])]

theorem C18_unitary_perm (c : Nat × List Nat) (hc : c ∈ permCases) :
    IsUnitary (2 ^ c.1) (permGate c.1 c.2 : M R) := by
  have h : ∀ c ∈ permCases, permOK (2 ^ c.1) (Graph.permFromLocation c.1 2 c.2) = true := by
    decide +kernel
  exact colmono_unitary _ _ (h c hc)
example : (3, [2, 0]) ∈ permCases := by decide

/-! ## Composed gates (generic in the inner gate) -/

/-- `DaggerGate`: `get_unitary` is the conjugate transpose, it is unitary, and it inverts the
inner gate (this is also the default `get_inverse` of every gate) -/
theorem C18_dagger {n : Nat} {U : M R} (hU : IsUnitary n U) :
    toM n (dagger U) = (toM n U)ᴴ ∧ IsUnitary n (dagger U) ∧ toM n (dagger U) * toM n U = 1 :=
  ⟨toM_dagger n U, hU.dagger, dagger_mul_self hU⟩
example : ∃ U : M ℂ, IsUnitary 2 U := ⟨_, C18_unitary_sx K0 K0_valid⟩

/-- `DaggerGate.get_grad`: for a real displacement `ε` the dagger of the first-order expansion is
the first-order expansion of the dagger -/
theorem C18_dagger_grad (ε : R) (hε : star ε = ε) (U G V : M R)
    (hV : ∀ i j, V i j = U i j + ε * G i j) :
    ∀ i j, dagger V i j = dagger U i j + ε * dagger G i j := by
  intro i j; simp [dagger, Conj.conj, hV, hε]
example : ∃ ε : ℂ, star ε = ε ∧ ε ≠ 0 := ⟨1, by simp, by simp⟩

/-- `ControlledGate.get_unitary`, `kron(ctrl, U) + kron(1 - ctrl, 1)` with `ctrl` from
`build_control_proj`, is the block form of the documentation for some activation predicate
on the control values, and it is unitary (for every number `cd` of control values) whenever
the inner gate is -/
theorem C18_controlled (c : Nat × List Nat) (rest : List (Nat × List Nat)) (d : Nat) (hd : 0 < d)
    (U : M R) (hU : IsUnitary d U) :
    (∃ act : Nat → Bool, ctrlU d (ctrlProj (c :: rest)).2 U = ctrlBlock d act U) ∧
    ∀ cd, IsUnitary (cd * d) (ctrlU d (ctrlProj (c :: rest)).2 U) := by
  obtain ⟨act, hact⟩ := ctrlProj_is_proj (R := R) c rest
  rw [hact, ctrlU_eq_block]
  exact ⟨⟨act, rfl⟩, fun cd => ctrlBlock_unitary cd d hd act U hU⟩
example : ∃ (d : Nat) (U : M ℂ), 0 < d ∧ IsUnitary d U :=
  ⟨2, _, by decide, C18_unitary_sx K0 K0_valid⟩

/-- `ControlledGate.get_grad = kron(ctrl, grad)` is the first-order coefficient -/
theorem C18_controlled_grad {S : Type} [CommRing S] (d : Nat) (P U G V : M S) (ε : S)
    (hV : ∀ i j, V i j = U i j + ε * G i j) :
    ∀ I J, ctrlU d P V I J = ctrlU d P U I J + ε * ctrlG d P G I J := by
  intro I J; simp only [ctrlU, ctrlG, kron, addM, hV]; ring

/-- `PowerGate`, non-negative power: the `k`-fold product of a unitary is unitary (for a negative
power the code takes the dagger first, `C18_dagger`) -/
theorem C18_power_unitary {n : Nat} {U : M R} (hU : IsUnitary n U) (k : Nat) :
    IsUnitary n (powM n U k) ∧ toM n (powM n U k) = toM n U ^ k :=
  ⟨hU.powM k, toM_powM n U k⟩
example : ∃ U : M ℂ, IsUnitary 2 U := ⟨_, C18_unitary_sx K0 K0_valid⟩

/-- `PowerGate.get_unitary_and_grad`: square-and-multiply on (unitary, gradient) pairs returns
the `k`-fold product under the product rule; its unitary part is `U^k`, and if the pair is the
first-order expansion of a perturbed matrix `P` (`ε² = 0`) the result is the first-order expansion
of `P^k` — i.e. its gradient part is the derivative of the power -/
theorem C18_power {S : Type} [CommRing S] (n : Nat) (x : UG S) (k : Nat) (hk : 0 < k) :
    powUG n x k = linPow n x (k - 1) ∧
    toM n (powUG n x k).u = toM n x.u ^ k ∧
    ∀ (ε : S) (P : Matrix (Fin n) (Fin n) S), ε * ε = 0 → Expands n ε P x →
      Expands n ε (P ^ k) (powUG n x k) := by
  have h := powUG_eq_linPow n x k hk
  have hk' : k - 1 + 1 = k := by omega
  refine ⟨h, ?_, ?_⟩
  · rw [h, linPow_u, hk']
  · intro ε P hε hx
    rw [h, ← hk']; exact hx.linPow hε (k - 1)
example : ∃ k : Nat, 0 < k := ⟨3, by decide⟩

/-- `FrozenParameterGate.get_full_params`: for frozen indices that are distinct, `< num_params`
and taken in sorted order (what the constructor and `check_parameters` guarantee), the full
vector has `num_params` entries, carries every frozen value at its index, and removing the
frozen positions leaves exactly the free parameters in their order -/
theorem C18_frozen {β : Type} (ps : List β) (fr : List (Nat × β))
    (hs : (fr.map (·.1)).Pairwise (· < ·)) (hb : ∀ p ∈ fr, p.1 < ps.length + fr.length) :
    (fullParams ps fr).length = ps.length + fr.length ∧
    (∀ p ∈ fr, (fullParams ps fr)[p.1]? = some p.2) ∧
    fr.foldr (fun p l => l.eraseIdx p.1) (fullParams ps fr) = ps :=
  have hv := validFrozen_of_sorted fr ps.length hs hb
  ⟨fullParams_length fr ps, fullParams_frozen fr ps hv, fullParams_free fr ps hv⟩
example : ∃ (ps : List Nat) (fr : List (Nat × Nat)), fr ≠ [] ∧ ps ≠ [] ∧
    (fr.map (·.1)).Pairwise (· < ·) ∧ ∀ p ∈ fr, p.1 < ps.length + fr.length :=
  ⟨[10, 11], [(0, 7), (2, 8)], by decide, by decide, by decide, by decide⟩

/-- the `sorted(...)` in `get_full_params` is needed: inserting the frozen values in the order the
dict happens to list them (seeded changes C18-4 / C19-4) puts a frozen value at the wrong index -
`U3.with_frozen_params({1: b, 0: a})` with free parameter `x` would evaluate `U3(a, x, b)` -/
theorem C18_frozen_needs_sorted_witness :
    fullParams [100] [(0, 7), (1, 8)] = [7, 8, 100]
    ∧ fullParams [100] [(1, 8), (0, 7)] = [7, 100, 8]
    ∧ (fullParams [100] [(1, 8), (0, 7)])[1]? ≠ some 8 := by decide

/-- the frozen gate is the inner gate at the full parameter vector (by definition), hence
unitary whenever the inner gate is unitary at every parameter vector -/
theorem C18_frozen_unitary (v : GVal R) (fr : List (Nat × Ang R))
    (hv : ∀ ps, IsUnitary v.dim (look (v.u ps))) (ps : List (Ang R)) :
    (GVal.frozen fr v).u ps = v.u (fullParams ps fr) ∧
    IsUnitary (GVal.frozen fr v).dim (look ((GVal.frozen fr v).u ps)) :=
  ⟨rfl, hv _⟩
example : ∃ v : GVal ℂ, ∀ ps, IsUnitary v.dim (look (v.u ps)) :=
  ⟨GVal.const [2] (sx K0), fun _ => by
    have h := C18_unitary_sx K0 K0_valid
    unfold IsUnitary at *
    have e : toM (GVal.const [2] (sx K0)).dim (look ((GVal.const [2] (sx K0)).u [])) =
        toM 2 (sx K0) := by
      ext i j; exact look_tab 2 (sx K0) i j i.2 j.2
    simpa [GVal.const, mkFam] using e ▸ h⟩

/-- the driver stores intermediate matrices as tables; reading a table back gives the matrix it
was made from (on the index range), so tabulation is an evaluation strategy only -/
theorem C18_table (d : Nat) (f : M R) : toM d (look (tab d f)) = toM d f := by
  ext i j; exact look_tab d f i j i.2 j.2

/-- `EmbeddedGate.get_unitary` (`_map_matrix` into the identity): for a level map that is
one-to-one into `[0, D)` the embedded matrix is unitary whenever the inner gate is -/
theorem C18_embedded (d D : Nat) (t : Nat → Nat) (U : M R)
    (ht : ∀ i, i < d → t i < D) (hinj : ∀ i, i < d → ∀ j, j < d → t i = t j → i = j)
    (hU : IsUnitary d U) : IsUnitary D (embed d t eye U) :=
  embed_unitary d D t U ht hinj hU
example : ∃ (t : Nat → Nat) (U : M ℂ), (∀ i, i < 2 → t i < 3) ∧
    (∀ i, i < 2 → ∀ j, j < 2 → t i = t j → i = j) ∧ IsUnitary 2 U :=
  ⟨fun i => 2 * i, _, by decide, by decide, C18_unitary_sx K0 K0_valid⟩

/-- `EmbeddedGate` as constructed: one level map per qudit, as long as the gate radix, without
repetition and into the target radix (exactly what the constructor checks, `MapsOK`) makes
`_map_matrix`'s target index `embTarget` one-to-one, so the embedded gate is unitary of
dimension `∏ radixes` whenever the inner gate is -/
theorem C18_embedded_levels (gr rs : List Nat) (maps : List (List Nat)) (hm : MapsOK gr rs maps)
    (hpos : ∀ r ∈ gr, 0 < r) (U : M R) (hU : IsUnitary (prodL gr) U) :
    IsUnitary (prodL rs) (embed (prodL gr) (embTarget gr rs maps) eye U) :=
  embed_unitary _ _ _ U (embTarget_ok gr rs maps hm hpos).1 (embTarget_ok gr rs maps hm hpos).2 hU
example : MapsOK [2, 2] [3, 4] [[0, 2], [3, 1]] ∧ ∀ r ∈ [2, 2], 0 < r := by
  refine ⟨⟨rfl, by decide, by decide, rfl, by decide, by decide, trivial⟩, by decide⟩

/-- `EmbeddedGate.get_grad` (`_map_matrix` into the zero matrix) is the first-order coefficient -/
theorem C18_embedded_grad {S : Type} [CommRing S] (d : Nat) (t : Nat → Nat) (U G V : M S) (ε : S)
    (hV : ∀ i j, V i j = U i j + ε * G i j) :
    ∀ I J, embed d t eye V I J = embed d t eye U I J + ε * embed d t zeroM G I J := by
  intro I J
  simp only [embed_apply]
  cases pre d t I <;> cases pre d t J <;> simp [hV, zeroM]

/-- `TaggedGate` is the inner gate -/
theorem C18_tagged (v : GVal R) : GVal.tagged v = v := rfl

/-- `U3Gate.get_inverse() = U3Gate()` with `get_inverse_params = [-θ, -λ, -φ]` -/
theorem C18_inverse_u3 (K : Consts R) (hK : K.Valid) (t p l : Ang R)
    (ht : t.Valid) (hp : p.Valid) (hl : l.Valid) :
    toM 2 (u3 K t.neg l.neg p.neg) * toM 2 (u3 K t p l) = 1 :=
  inverse_u3 K hK t p l ht hp hl
example : ∃ (K : Consts ℂ) (t p l : Ang ℂ), K.Valid ∧ t.Valid ∧ p.Valid ∧ l.Valid :=
  ⟨K0, a0, a0, a0, K0_valid, a0_valid, a0_valid, a0_valid⟩

/-! ## General gates: `calc_params`, `optimize` (partial: numerics as hypotheses) -/

/-- PARTIAL (`U3Gate.calc_params`): *given* the polar data numpy extracts from the special unitary
`det^{-1/2}·U` (`a = angle(su[1,1])`, `b = angle(su[1,0])`, `c = |su[1,0]|`, `d = |su[0,0]|`), the
returned `θ = 2·atan2(c,d)`, `φ = a+b`, `λ = a−b` reproduce the argument up to the global phase
`e^{ia}`.  Missing for the full statement: that every 2×2 unitary has this polar form and that
`det ** (-1/2)`, `np.angle`, `np.abs`, `arctan2` compute it. -/
theorem C18_calc_params_u3_partial (K : Consts R) (hK : K.Valid) (A B : Ang R) (hA : A.Valid)
    (hB : B.Valid) (c d : R) :
    toM 2 (u3 K ⟨d, c⟩ (A.add B) (A.add B.neg)) = A.e K • toM 2 (suPolar K A B c d) :=
  calc_params_u3 K hK A B hA hB c d
example : ∃ (K : Consts ℂ) (A B : Ang ℂ), K.Valid ∧ A.Valid ∧ B.Valid :=
  ⟨K0, a0, a0, K0_valid, a0_valid, a0_valid⟩

/-- PARTIAL (`GeneralGate.optimize`): *given* an SVD `env = W·Σ·Vᴴ`, the unitary `V·Wᴴ` the code
hands to `calc_params` attains `tr(env·V Wᴴ) = tr Σ`, and every other candidate has objective
`tr(Σ·X)` with `X = Vᴴ U W`.  Missing: the estimate `Re tr(Σ X) ≤ tr Σ` for unitary `X`, `Σ ≥ 0`
(order structure of `ℂ`), and that LAPACK returns an SVD. -/
theorem C18_optimize_svd_partial {n : Nat} (E W S V U : Matrix (Fin n) (Fin n) R)
    (hE : E = W * S * Vᴴ) (hW : Wᴴ * W = 1) (hV : Vᴴ * V = 1) :
    trace (E * (V * Wᴴ)) = trace S ∧ trace (E * U) = trace (S * (Vᴴ * U * W)) :=
  optimize_svd E W S V U hE hW hV
example : ∃ (E W S V : Matrix (Fin 2) (Fin 2) ℂ), E = W * S * Vᴴ ∧ Wᴴ * W = 1 ∧ Vᴴ * V = 1 :=
  ⟨1, 1, 1, 1, by simp, by simp, by simp⟩

/-! ## Shape table -/

/-- name, `num_params`, radixes, `qasm_name` and inverse class of every exported gate, as
regenerated from the live classes on this run, are those of the model's table. -/
theorem C18_shapes_agree : Generated.gateShapes = Gates.shapeTable := by decide +kernel

/-! ## Gate identity: equal gates hash equally (strengthening round) -/

open BqVerif.GateIdentity in
/-- what `__eq__` and `__hash__` of every exported gate class (and of `UnitaryMatrix`,
`Operation`, `CircuitLocation`) read, as regenerated from the source of the live classes on
this run, is what the model's table says: a change to either method breaks this obligation. -/
theorem C18_identity_agree : Generated.gateIdentity = identityTable := table_agree

open BqVerif.GateIdentity in
/-- every regenerated row, except the rows of the known findings, is coherent: both methods
are `object`'s (identity), or every value `__hash__` hashes is determined by values `__eq__`
compares with a relation at least as fine (`compatible`, `derived`). -/
theorem C18_identity_coherent :
    ∀ r ∈ Generated.gateIdentity, r.cls ∉ knownIncoherent → coherent r = true := table_coherent

open BqVerif.GateIdentity in
/-- the exemption list is exact: every exempted class has an incoherent row (the remaining
finding `hash-eq:ConstantUnitaryGate`: `np.allclose` against exact corner entries; it is
reproduced on the real classes by harness/c18_identity.py on every run). -/
theorem C18_identity_findings_witness :
    ∀ c ∈ knownIncoherent, ∃ r ∈ Generated.gateIdentity, r.cls = c ∧ coherent r = false :=
  known_incoherent

open BqVerif.GateIdentity in
/-- what coherence means: in EVERY semantics of attribute values that respects `compatible`, two
well-formed instances of a coherent class that `__eq__` identifies have the same hash key. -/
theorem C18_identity_sound (S : Sem) (hS : S.Respects) (r : IdRow) (hne : r.hashBy ≠ "object")
    (hc : coherent r = true) (a b : Inst S) (wf : WF S r a b) (heq : eqHolds S r a b) :
    hashKey S r a = hashKey S r b := coherent_sound S hS r hne hc a b wf heq

open BqVerif.GateIdentity in
/-- non-vacuity: the list semantics respects `compatible`; the row of `ControlledGate` is
coherent with a hash of its own; two instances that differ in a value `__eq__` does not
compare are identified. -/
example : ∃ (S : Sem) (r : IdRow) (a b : Inst S), S.Respects ∧ r ∈ identityTable ∧
    r.hashBy ≠ "object" ∧ coherent r = true ∧ WF S r a b ∧ eqHolds S r a b ∧ a ≠ b := by
  refine ⟨listSem, ⟨"ControlledGate", "ControlledGate", "ControlledGate", false,
    [⟨"control_levels", "control_levels", "list[list]", "=="⟩,
     ⟨"control_radixes", "control_radixes", "list[int]", "=="⟩,
     ⟨"gate", "gate", "Gate", "=="⟩, ⟨"num_controls", "num_controls", "int", "=="⟩],
    [⟨"gate", "gate", "Gate", "hash"⟩, ⟨"radixes", "radixes", "tuple[int]", "hash"⟩]⟩,
    (fun p => if p = "ihalf" then [1] else []), (fun _ => []), listSem_respects,
    by decide +kernel, by decide, by decide +kernel, ⟨?_, ?_⟩, ?_, ?_⟩
  · intro d hd _ _
    have : d.2.1 ≠ "ihalf" := by
      simp only [derived, List.mem_cons, List.not_mem_nil, or_false] at hd
      rcases hd with rfl | rfl <;> decide
    simp [this]
  · intro e he hev
    simp only [List.mem_cons, List.not_mem_nil, or_false] at he
    rcases he with rfl | rfl | rfl | rfl <;> exact absurd hev (by decide)
  · intro e he
    simp only [List.mem_cons, List.not_mem_nil, or_false] at he
    rcases he with rfl | rfl | rfl | rfl <;> simp [relIn, relOf, plainTy, exactDomain, listSem]
  · intro h
    have := congrFun h "ihalf"
    simp at this

open BqVerif.GateIdentity in
/-- the refusals of `compatible` that the findings and the seeded change C18-2 rest on are
real: set-equal levels in another order, dict items in insertion order, an arbitrary tag,
`allclose` against corner entries, operations with other parameters - related values with
different hash keys. -/
theorem C18_identity_tight :
    (∃ x y, listSem.rel .setOfEach x y ∧ listSem.fn .ident x ≠ listSem.fn .ident y) ∧
    (∃ x y, listSem.rel .dictEq x y ∧ listSem.fn .orderedItems x ≠ listSem.fn .orderedItems y) ∧
    (∃ x y, listSem.rel .anyEq x y ∧ listSem.fn .ident x ≠ listSem.fn .ident y) ∧
    (∃ x y, listSem.rel .approx x y ∧ listSem.fn .corner x ≠ listSem.fn .corner y) ∧
    (∃ x y, listSem.rel .opsGateLoc x y ∧ listSem.fn .ident x ≠ listSem.fn .ident y) :=
  compatible_tight

open BqVerif.GateIdentity in
/-- the classes repaired upstream (888a9b2 `CircuitGate.__hash__`, aeaacf4
`TaggedGate.__hash__`) are no longer exempt: their regenerated rows are coherent, with a
hash of their own. -/
theorem C18_identity_repaired :
    ∀ c ∈ ["CircuitGate", "TaggedGate"], c ∉ knownIncoherent ∧
      ∃ r ∈ Generated.gateIdentity, r.cls = c ∧ r.hashBy ≠ "object" ∧ coherent r = true :=
  repaired_coherent

end BqVerif.C18
