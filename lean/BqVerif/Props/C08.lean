import BqVerif.Proofs.Partition
import BqVerif.Proofs.QuickSpec
import BqVerif.Proofs.PartitionBins
import BqVerif.Proofs.Region
import BqVerif.Proofs.RegionTopo
import BqVerif.Proofs.RegionBridge
/-!
# C08 — partitioning regroups operations without changing the program

Every real partitioner output `p` for an input `c` and block size `k` is sent through
the executable validator `validPartition blocks barrierGids strict c p k`
(`Model/Partition.lean`, run by `bqdriver partition`).  The theorems below say what
acceptance (`= none`) means, for all circuits, block tables and block sizes.

Vocabulary: `flat b l` is the complete unfolding of an operation list (block ops
replaced by their relabelled, parameter-distributed contents, recursively);
`proj q l` is qudit `q`'s timeline; `den S l` the ordered product of `l` in a
semantics `S` (any monoid in which operations on disjoint qudits commute and a block
op means the product of its contents — `Proofs/Sem.lean`).
-/
namespace BqVerif.Props.C08
open BqVerif.Circ BqVerif.Sem BqVerif.Partition

/-- **S1** — equal per-qudit timelines (all locations non-empty) give equal denotations
in any monoid where operations on disjoint qudits commute.  No duplicate-freeness needed. -/
theorem C08_trace_equiv {M : Type} [Monoid M] {b : Blocks} (S : Semantics M b) (l1 l2 : List Op)
    (h1 : ∀ o ∈ l1, o.loc ≠ []) (h2 : ∀ o ∈ l2, o.loc ≠ [])
    (hp : ∀ q, proj q l1 = proj q l2) : den S l1 = den S l2 :=
  trace_equiv S l1 l2 h1 h2 hp

/-- **S3** — unfolding block operations, to any depth, preserves the denotation. -/
theorem C08_den_flatten {M : Type} [Monoid M] {b : Blocks} (S : Semantics M b)
    (fuel : Nat) (l : List Op) : den S (flattenOps b fuel l) = den S l :=
  den_flatten S fuel l

/-- **The validator is sound.**  If `validPartition` accepts `(c, p, k)` then
* (a) `p` and `c` denote the same element in every semantics (same unitary);
* (b) the unfolded output is a permutation of the unfolded input: every original
  operation exactly once, gate, parameters and location unchanged — and on every qudit
  in the same order (c');
* (c) every barrier-like operation `x` of the input sits in `p` at top level (outside
  every block), and on each of its qudits `q` the operations before / after it in `q`'s
  timeline of the input are exactly the unfolded operations of the top-level ops of `p`
  before / after it: nothing was moved across it, its neighbours are unchanged;
* (d) no block of `p` contains a barrier-like operation at any depth;
* (e) every block the pass formed spans at most `max k w` qudits, `w` the widest
  operation directly inside it (blocks that were operations of `c` are exempt);
* (f) with `strict`, every top-level operation of `p` is a block or barrier-like;
* (g) `p` satisfies the Circuit grid invariant (`invB`). -/
theorem C08_validator_sound (b : Blocks) (bg : List Nat) (strict : Bool) (c p : Circ) (k : Nat)
    (h : validPartition b bg strict c p k = none) :
    (∀ (M : Type) [Monoid M] (S : Semantics M b), den S p.ops = den S c.ops) ∧
    (flat b p.ops).Perm (flat b c.ops) ∧
    (∀ q, proj q (flat b p.ops) = proj q (flat b c.ops)) ∧
    (∀ q pre x post, barrierLike bg x = true → proj q (flat b c.ops) = pre ++ x :: post →
      ∃ P1 P2, p.ops = P1 ++ x :: P2 ∧ proj q (flat b P1) = pre ∧ proj q (flat b P2) = post) ∧
    (∀ o ∈ p.ops, isBlock b o = true → ∀ x ∈ flat b [o], barrierLike bg x = false) ∧
    (∀ o ∈ p.ops, ∀ body, b.body? o.gid = some body →
      o ∈ c.ops ∨ o.loc.length ≤ max k (widest body.ops)) ∧
    (strict = true → ∀ o ∈ p.ops, isBlock b o = true ∨ barrierLike bg o = true) ∧
    p.invB = true := by
  have hproj := all_proj_eq h
  obtain ⟨_, _, _, hp, hc, htop, hw, _, hnb, hinv⟩ := valid_unpack h
  have hne_p := nonempty_locs hp
  have hne_c := nonempty_locs hc
  refine ⟨?_, ?_, hproj, ?_, ?_, ?_, ?_, hinv⟩
  · intro M _ S
    calc den S p.ops = den S (flat b p.ops) := (den_flatten S fuel p.ops).symm
      _ = den S (flat b c.ops) := trace_equiv S _ _ hne_p hne_c hproj
      _ = den S c.ops := den_flatten S fuel c.ops
  · exact perm_of_proj_eq _ _ hne_p hne_c hproj
  · intro q pre x post hx hsplit
    rw [← hproj q] at hsplit
    obtain ⟨A, B, hAB, hA, hB⟩ := filter_split _ _ _ _ _ hsplit
    obtain ⟨P1, P2, hP, h1, h2⟩ := barrier_toplevel h A B x hx hAB
    exact ⟨P1, P2, hP, by rw [h1]; exact hA, by rw [h2]; exact hB⟩
  · intro o ho hblk x hx
    have := List.all_eq_true.mp hnb o ho
    unfold noBarrierInside at this
    rw [hblk] at this
    simp only [Bool.not_true, Bool.false_or, List.all_eq_true, Bool.not_eq_true'] at this
    exact this x hx
  · intro o ho body hbody
    have := List.all_eq_true.mp hw o ho
    unfold widthOk at this
    rw [hbody] at this
    simp only [Bool.or_eq_true, List.contains_iff_mem, decide_eq_true_eq] at this
    exact this
  · intro hs o ho
    have := List.all_eq_true.mp htop o ho
    unfold topOk at this
    subst hs
    simpa using this

/-- The usual case: the input holds no block operation.  Then the unfolded output is a
permutation of the input's operations themselves, with the input's own timelines. -/
theorem C08_validator_sound_plain_input (b : Blocks) (bg : List Nat) (strict : Bool)
    (c p : Circ) (k : Nat) (h : validPartition b bg strict c p k = none)
    (hc : ∀ o ∈ c.ops, isBlock b o = false) :
    (flat b p.ops).Perm c.ops ∧ ∀ q, proj q (flat b p.ops) = c.timeline q := by
  obtain ⟨_, hperm, hproj, _⟩ := C08_validator_sound b bg strict c p k h
  rw [flat_noblock c.ops hc] at hperm hproj
  exact ⟨hperm, hproj⟩

/-! ## QuickSpec — the emission machine abstracting `QuickPartitioner.run`

`Model/Partition.lean`: the input is the operation list `l` in iteration order; moves are
`emit tags blk` (a bin is placed: legal iff the group is *closed* — every not yet emitted
operation before a member that shares a qudit with it is a member too), `lift j m` (a rear
block is popped for merging) and `fuse` (it is merged with the bin placed next).  The
harness observes the moves of every real run and the driver checks each is legal. -/

/-- **Safety of QuickSpec** (full statement of the design: "every terminal output of the
machine passes the validator").  Proved here, for every run that consumes the whole input:
clause (3) every qudit's timeline is unchanged and the output is a permutation of the input;
clauses (1)+(4) a group is either one bare barrier-like operation or a block without any;
clause (2) every block spans at most `max k (widest member)` qudits.
`_partial`, because two steps to the literal statement are not proved but checked per run:
(i) packaging the groups as `CircuitGate`s placed on a `Circ` by `append_circuit` (clause (5)
`invB` and the block table) — the real output goes through `validPartition` instead;
(ii) that QuickPartitioner's own emission guard (`dividing_line[q] == start` for all qudits
of the bin) implies `closedIn` — now PROVED for the bookkeeping model BinSpec
(`C08_quick_guard_closed` below); what remains checked per run is that the recorded bin
events are legal BinSpec moves and that the real `Bin.starts/ends` equal the model's.
Progress: `C08_quick_progress_partial`. -/
theorem C08_quick_safety_partial (bg : List Nat) (k : Nat) (l : List Op) (ms : List QMove)
    (s : QState) (hrun : qrun bg k (QState.init l) ms 0 = .ok s) (hterm : s.rem = []) :
    (∀ q, proj q (outOps s) = proj q l) ∧ (outOps s).Perm l ∧
    (∀ g ∈ s.out, if g.blk then (∀ x ∈ g.ops, barrierLike bg x.op = false) ∧
        (dedupNat (g.ops.flatMap (·.op.loc))).length ≤ max k (widest (g.ops.map (·.op)))
      else ∃ x, g.ops = [x] ∧ barrierLike bg x.op = true) := by
  have hinv := qinv_run ms _ s 0 (qinv_init bg k l) hrun
  refine ⟨?_, ?_, ?_⟩
  · intro q
    have := hinv.tl q
    simpa [remOps, hterm, proj] using this
  · have := hinv.perm
    simpa [remOps, hterm] using this
  · intro g hg
    have := hinv.ok g hg
    unfold GroupOk groupWidthOk at this
    simpa using this

/-- … hence the same denotation, in every semantics. -/
theorem C08_quick_den (b : Blocks) (bg : List Nat) (k : Nat) (l : List Op) (ms : List QMove)
    (s : QState) (hrun : qrun bg k (QState.init l) ms 0 = .ok s) (hterm : s.rem = [])
    (hl : ∀ o ∈ l, o.loc ≠ []) (M : Type) [Monoid M] (S : Semantics M b) :
    den S (outOps s) = den S l := by
  obtain ⟨htl, hperm, _⟩ := C08_quick_safety_partial bg k l ms s hrun hterm
  exact trace_equiv S _ _ (fun o ho => hl o (hperm.mem_iff.mp ho)) hl htl

/-! ## BinSpec — QuickPartitioner's bookkeeping with the code's own guards

`Model/PartitionBins.lean`: bins own per-qudit cycle intervals `[start, end)`; `add b` /
`bar b` scan the next operation into a bin (closing the other bins open on its qudits, as
`close_bin_qudits` does), `finish` closes what is still open, `emit b` places a bin under the
code's test `dividing_line[q] == start` for all its qudits.  The guards are syntactic — the
ones the Python evaluates — and the harness checks the real `Bin.starts/ends` against the
model's at every placement. -/

/-- **The dividing-line guard implies `closedIn`** (this discharges step (ii) of
`C08_quick_safety_partial`): in every state reachable by BinSpec moves from the initial
state of a grid-shaped input (cycles non-decreasing in iteration order, operations of one
cycle disjoint, distinct tags, cycles below `num_cycles`),
* a bin that passes the code's emission test is a *closed* group of the not yet placed
  operations — a legal `emit` of QuickSpec as far as order is concerned;
* placing it removes exactly its operations; every other move leaves the unplaced operations
  untouched.  So a BinSpec run projects onto a QuickSpec run with the same emissions. -/
theorem C08_quick_guard_closed (bg : List Nat) (ops : List COp) (ncyc : Nat)
    (hgrid : gridWFb ops = true) (htags : (ops.map (·.tag)).Nodup)
    (hcyc : ∀ x ∈ ops, x.cyc < ncyc) (ms : List BMove) (s : BState)
    (hrun : brun bg (BState.init ops ncyc) ms 0 = .ok s) :
    (∀ bn, emitGuard s bn = true → closedIn (s.binTags bn) s.remT = true) ∧
    (∀ m s', bstep bg s m = some s' →
      match m with
      | .emit bn => s'.remT = s.remT.filter (fun x => !(s.binTags bn).contains x.tag)
      | _ => s'.remT = s.remT) := by
  have hinv : BInv s :=
    binv_run ms _ s 0 (binv_init ops ncyc (gridWFb_spec ops hgrid) htags hcyc) hrun
  refine ⟨fun bn hg => emit_closed hinv hg, ?_⟩
  intro m s' hstep
  cases m with
  | add b => exact remT_add hstep
  | bar b => exact remT_bar hstep
  | finish => exact remT_finish hstep
  | emit b => exact remT_emit hinv hstep

/-- **Progress**, as far as it is proved: (1) QuickSpec is never stuck — while operations are
left, placing the first one alone is legal — so a deadlock can only come from the bins the
pass formed; (2) the per-run progress check means what it says: when the greedy drain
`bDrain` (the loop of `process_pending_bins`: place the first pending bin whose starts sit on
the dividing line, start over) succeeds from a state, there is a sequence of `emit` moves,
each passing the code's own guard, that places every bin.
`_partial`: that the `blocked_qudits` bookkeeping of the fixed code (5078a03) keeps the bins
acyclic, i.e. that the drain succeeds after *every* scan, is not proved; the harness runs the
drain in Lean at the end of the scan of every real run (and replays the placements the code
actually made).  Before 5078a03 the statement was false (finding F4). -/
theorem C08_quick_progress_partial (bg : List Nat) (k : Nat) :
    (∀ (s : QState) (x : TOp) (t : List TOp), s.rem = x :: t → (s.rem.map (·.tag)).Nodup →
      ∃ s', qEmit bg k s [x.tag] (!barrierLike bg x.op) = some s' ∧ s'.rem = t) ∧
    (∀ (fuel : Nat) (s s' : BState), bDrain fuel s = some s' →
      ∃ ms : List BMove, (∀ m ∈ ms, ∃ b, m = BMove.emit b) ∧
        brun bg s ms 0 = .ok s' ∧ s'.done = []) :=
  ⟨fun s x t h1 h2 => qmachine_progress bg k s x t h1 h2,
   fun fuel s s' h => bDrain_sound bg fuel s s' 0 h⟩

/-! ## non-vacuity -/
namespace Example
/- gids: 1 = H, 2 = CX, 3 = RZ (one parameter), 9 = barrier.  A 4-qubit, 9-operation
circuit with a barrier on (1,2), and a block-size-2 partition of it into five blocks. -/
def q2 : List Nat := [2, 2]
def c : Circ := ⟨[2, 2, 2, 2], [
  [⟨1, [], [0], [2]⟩, ⟨2, [], [2, 3], q2⟩],
  [⟨2, [], [0, 1], q2⟩, ⟨3, [5], [2], [2]⟩],
  [⟨9, [], [1, 2], q2⟩],
  [⟨2, [], [1, 2], q2⟩, ⟨1, [], [0], [2]⟩, ⟨3, [7], [3], [2]⟩],
  [⟨2, [], [2, 3], q2⟩]]⟩
def blocks : Blocks := [
  (1000, ⟨q2, [[⟨1, [], [0], [2]⟩], [⟨2, [], [0, 1], q2⟩]]⟩),       -- H; CX
  (1001, ⟨q2, [[⟨2, [], [0, 1], q2⟩], [⟨3, [0], [0], [2]⟩]]⟩),      -- CX; RZ
  (1002, ⟨q2, [[⟨2, [], [0, 1], q2⟩]]⟩),                            -- CX
  (1003, ⟨[2], [[⟨1, [], [0], [2]⟩]]⟩),                             -- H
  (1004, ⟨q2, [[⟨3, [0], [1], [2]⟩], [⟨2, [], [0, 1], q2⟩]]⟩)]      -- RZ on the 2nd; CX
def p : Circ := ⟨[2, 2, 2, 2], [
  [⟨1000, [], [0, 1], q2⟩, ⟨1001, [5], [2, 3], q2⟩],
  [⟨9, [], [1, 2], q2⟩],
  [⟨1002, [], [1, 2], q2⟩, ⟨1003, [], [0], [2]⟩],
  [⟨1004, [7], [2, 3], q2⟩]]⟩
/-- moving the last CX in front of the barrier is rejected -/
def pBad : Circ := ⟨[2, 2, 2, 2], [
  [⟨1000, [], [0, 1], q2⟩, ⟨1001, [5], [2, 3], q2⟩],
  [⟨1002, [], [1, 2], q2⟩, ⟨1003, [], [0], [2]⟩],
  [⟨9, [], [1, 2], q2⟩],
  [⟨1004, [7], [2, 3], q2⟩]]⟩
/-- a run of QuickSpec on the example: six bins placed, then the H block is popped and
merged into the last one (block size 3) -/
def moves : List QMove := [.emit [0, 2] true, .emit [1, 3] true, .emit [4] false,
  .emit [5] true, .emit [6] true, .lift 4 0, .emit [7, 8] true, .fuse]
/-- the example circuit with cycles, and the bin events of a block-size-2 run -/
def cops : List COp := [
  ⟨0, 0, ⟨1, [], [0], [2]⟩⟩, ⟨1, 0, ⟨2, [], [2, 3], q2⟩⟩,
  ⟨2, 1, ⟨2, [], [0, 1], q2⟩⟩, ⟨3, 1, ⟨3, [5], [2], [2]⟩⟩,
  ⟨4, 2, ⟨9, [], [1, 2], q2⟩⟩,
  ⟨5, 3, ⟨2, [], [1, 2], q2⟩⟩, ⟨6, 3, ⟨1, [], [0], [2]⟩⟩, ⟨7, 3, ⟨3, [7], [3], [2]⟩⟩,
  ⟨8, 4, ⟨2, [], [2, 3], q2⟩⟩]
def bmoves : List BMove := [.add 0, .add 1, .add 0, .add 1, .bar 2, .add 3, .add 0, .add 1,
  .add 4, .finish, .emit 0, .emit 1, .emit 2, .emit 3, .emit 4]
end Example

example : validPartition Example.blocks [9] true Example.c Example.p 2 = none := by decide +kernel
example : validPartition Example.blocks [9] true Example.c Example.pBad 2 = some "timelines" := by
  decide +kernel
example : validPartition Example.blocks [] true Example.c Example.p 2 = some "unblocked-op" := by
  decide +kernel
example : (Example.c.ops.length = 9 ∧ Example.c.numQudits = 4) := by decide

example : (match qrun [9] 3 (QState.init Example.c.ops) Example.moves 0 with
    | .ok s => s.rem.isEmpty && s.out.length == 5
    | .error _ => false) = true := by decide +kernel
/-- placing the last CX before the operations it depends on is an illegal move -/
example : (match qrun [9] 3 (QState.init Example.c.ops) [.emit [8] true] 0 with
    | .ok _ => false
    | .error i => i == 0) = true := by decide +kernel
/-- a barrier cannot be put into a block -/
example : (match qrun [9] 3 (QState.init Example.c.ops)
      [.emit [0, 2] true, .emit [1, 3] true, .emit [4, 5] true] 0 with
    | .ok _ => false
    | .error i => i == 2) = true := by decide +kernel

example : gridWFb Example.cops = true ∧ (Example.cops.map (·.tag)).Nodup := by decide +kernel
/-- the bin events are legal BinSpec moves and place everything -/
example : (match brun [9] (BState.init Example.cops 5) Example.bmoves 0 with
    | .ok s => s.done.isEmpty && s.todo.isEmpty
    | .error _ => false) = true := by decide +kernel
/-- the last CX cannot join bin 1 (its qudit 2 is closed there): `can_accommodate` -/
example : (match brun [9] (BState.init Example.cops 5)
      [.add 0, .add 1, .add 0, .add 1, .bar 2, .add 3, .add 0, .add 1, .add 1] 0 with
    | .ok _ => false
    | .error i => i == 8) = true := by decide +kernel
/-- bin 3 (after the barrier) cannot be placed before the barrier bin: dividing line -/
example : (match brun [9] (BState.init Example.cops 5)
      [.add 0, .add 1, .add 0, .add 1, .bar 2, .add 3, .add 0, .add 1, .add 4, .finish,
       .emit 0, .emit 1, .emit 3] 0 with
    | .ok _ => false
    | .error i => i == 12) = true := by decide +kernel
/-- the drain places all five bins after the scan -/
example : (match brun [9] (BState.init Example.cops 5)
      [.add 0, .add 1, .add 0, .add 1, .bar 2, .add 3, .add 0, .add 1, .add 4, .finish] 0 with
    | .ok s => (bDrain 9 s).isSome
    | .error _ => false) = true := by decide +kernel

/-- the hypothesis of clause (a) is satisfiable for every block table … -/
def trivialSemantics (b : Blocks) : Semantics (Multiplicative (Multiset Op)) b :=
  { sem := fun _ => 1, comm := fun _ _ _ => rfl, block := fun _ _ _ => by simp }

/-- … and, without blocks, by a semantics that distinguishes all multisets of operations. -/
def multisetSemantics : Semantics (Multiplicative (Multiset Op)) [] :=
  { sem := fun o => Multiplicative.ofAdd {o}
    comm := fun _ _ _ => mul_comm _ _
    block := fun o body h => by simp [expandOp, Blocks.body?] at h }

example : ∀ (M : Type) [Monoid M] (S : Semantics M Example.blocks),
    den S Example.p.ops = den S Example.c.ops :=
  (C08_validator_sound Example.blocks [9] true Example.c Example.p 2 (by decide +kernel)).1

/-! ## The region algebra (`bqskit/ir/interval.py`, `bqskit/ir/region.py`)

`CycleInterval` and `CircuitRegion` are what the partitioners cut circuits with
(`GreedyPartitioner`: `overlaps`, `in`, `==`, and `depends_on` for its topological sort;
`Circuit.check_region / straighten / fold` : interval `overlaps`, `shift_left/right`,
`min_cycle`, `max_min_cycle`; the region iterator: `overlaps(point)`).  `Model/Region.lean`
transcribes the methods (same early exits, same error classes); the theorems say that each
method computes the set-theoretic notion on the region's CELLS `(cycle, qudit)`
(`hasPt r c q`, which is membership in `region.points`), for all regions of any size.
`wf r` = what the constructors enforce: distinct qudits, `lower <= upper`.
The tie is `harness/c08_region.py` (real classes vs `bqdriver region` vs a set-of-cells oracle). -/
end BqVerif.Props.C08

namespace BqVerif.Props.C08
section RegionAlgebra
open BqVerif.Region

/-- `region.points` lists exactly the cells of the region. -/
theorem C08_region_points (r : BqVerif.Region.Region) (hw : r.wf = true) (c q : Nat) :
    (c, q) ∈ r.points ↔ r.hasPt c q = true := BqVerif.Region.Region.mem_points r hw c q

/-- **Intervals.** `overlaps` ⇔ a common cycle; `intersection` succeeds exactly then and is the set
    intersection; `union` succeeds exactly when the intervals overlap or touch and is then the set
    union - and when it raises, some cycle between them belongs to neither (the union is not an
    interval); `<` means "entirely before", is a strict partial order, and two intervals either
    overlap or are ordered. -/
theorem C08_region_interval (a b : Iv) (ha : a.valid = true) (hb : b.valid = true) :
    (a.overlaps b = true ↔ ∃ c, a.mem c = true ∧ b.mem c = true)
    ∧ (a.overlaps b = true → ∃ i, a.inter b = .ok i ∧ i.valid = true
          ∧ ∀ c, i.mem c = true ↔ (a.mem c = true ∧ b.mem c = true))
    ∧ (a.overlaps b = false → a.inter b = .error .value)
    ∧ ((∃ u, a.union b = .ok u) ↔ (a.overlaps b = true ∨ a.hi + 1 = b.lo ∨ b.hi + 1 = a.lo))
    ∧ (∀ u, a.union b = .ok u → u.valid = true ∧ ∀ c, u.mem c = true ↔ (a.mem c = true ∨ b.mem c = true))
    ∧ (a.union b = .error .value →
          ∃ c, min a.lo b.lo ≤ c ∧ c ≤ max a.hi b.hi ∧ a.mem c = false ∧ b.mem c = false)
    ∧ (a.lt b = true ↔ ∀ c d, a.mem c = true → b.mem d = true → c < d)
    ∧ a.lt a = false ∧ (a.lt b = true → b.lt a = false)
    ∧ (∀ c : Iv, a.lt b = true → b.lt c = true → a.lt c = true)
    ∧ ((a.overlaps b = true ∧ a.lt b = false ∧ b.lt a = false)
        ∨ (a.overlaps b = false ∧ (a.lt b = true ∨ b.lt a = true)))
    ∧ a.indices.length = a.len ∧ (∀ c, c ∈ a.indices ↔ a.mem c = true) :=
  ⟨Iv.overlaps_iff a b ha hb, Iv.inter_ok a b ha hb, Iv.inter_err a b, Iv.union_ok_iff a b,
   fun u h => Iv.union_ok a b u ha hb h, Iv.union_err a b ha hb, Iv.lt_iff a b ha hb,
   Iv.lt_irrefl a ha, Iv.lt_asymm a b ha hb, fun c h1 h2 => Iv.lt_trans a b c hb h1 h2,
   Iv.overlaps_or_lt a b, Iv.length_indices a ha, Iv.mem_indices a⟩

/-- **`r.overlaps(s)`** - with its early exits on the bounding cycles - is true exactly when the
    two regions share a cell; it is symmetric. -/
theorem C08_region_overlaps (r s : BqVerif.Region.Region) (hr : r.wf = true) (hs : s.wf = true) :
    (r.overlaps s = true ↔ ∃ c q, r.hasPt c q = true ∧ s.hasPt c q = true)
    ∧ r.overlaps s = s.overlaps r :=
  ⟨BqVerif.Region.Region.overlaps_iff r s hr hs, BqVerif.Region.Region.overlaps_symm r s hr hs⟩

/-- **`s in r`** is inclusion of the cell sets. -/
theorem C08_region_contains (r s : BqVerif.Region.Region) (hr : r.wf = true) (hs : s.wf = true) :
    r.contains s = true ↔ ∀ c q, s.hasPt c q = true → r.hasPt c q = true :=
  BqVerif.Region.Region.contains_iff r s hr hs

/-- **`r.intersection(s)`** is a well-formed region whose cells are the common cells. -/
theorem C08_region_intersection (r s : BqVerif.Region.Region) (hr : r.wf = true) (hs : s.wf = true) :
    (r.inter s).wf = true
    ∧ ∀ c q, (r.inter s).hasPt c q = true ↔ (r.hasPt c q = true ∧ s.hasPt c q = true) :=
  BqVerif.Region.Region.inter_spec r s hr hs

/-- **`r.depends_on(s)`** (the edge relation of `GreedyPartitioner.topo_sort`): the regions share
    a qudit and on every shared qudit all of `s` lies before all of `r`.  The relation is
    asymmetric - two regions never depend on each other, so a 2-cycle cannot make the topological
    sort fail - and dependent regions are disjoint. -/
theorem C08_region_depends_on (r s : BqVerif.Region.Region) (hr : r.wf = true) (hs : s.wf = true) :
    (r.dependsOn s = true ↔
      (∃ q, q ∈ r.keys ∧ q ∈ s.keys) ∧
      ∀ q a b, r.get q = some a → s.get q = some b →
        ∀ c d, b.mem c = true → a.mem d = true → c < d)
    ∧ (r.dependsOn s = true → s.dependsOn r = false)
    ∧ (r.dependsOn s = true → r.overlaps s = false) :=
  ⟨BqVerif.Region.Region.dependsOn_iff r s hr hs, BqVerif.Region.Region.dependsOn_asymm r s hr hs,
   BqVerif.Region.Region.dependsOn_disjoint r s hr hs⟩

/-- **Shifts** (`straighten` moves the region right by its shadow length and left by the idle
    cycles it removes): `shift_right(k)` moves every cell `k` cycles right; `shift_left(k)` raises
    exactly when a non-empty region has a cell before cycle `k`, and otherwise moves every cell
    `k` cycles left. -/
theorem C08_region_shift (r : BqVerif.Region.Region) (hr : r.wf = true) (k : Nat) :
    (∀ c q, (r.shiftRight k).hasPt c q = true ↔ k ≤ c ∧ r.hasPt (c - k) q = true)
    ∧ (r.shiftLeft k = .error .value ↔ (r ≠ [] ∧ ∃ q a, r.get q = some a ∧ a.lo < k))
    ∧ ∀ r', r.shiftLeft k = .ok r' → ∀ c q, r'.hasPt c q = true ↔ r.hasPt (c + k) q = true :=
  ⟨BqVerif.Region.Region.shiftRight_spec r k, (BqVerif.Region.Region.shiftLeft_spec r hr k).1,
   (BqVerif.Region.Region.shiftLeft_spec r hr k).2⟩

/-- **Bounds**: `min_cycle` / `max_cycle` raise on the empty region and otherwise are the least /
    greatest cycle of any cell, attained by a cell. -/
theorem C08_region_bounds (r : BqVerif.Region.Region) (hr : r.wf = true) :
    (r = [] → r.minCycle = .error .value ∧ r.maxCycle = .error .value)
    ∧ (r ≠ [] → ∃ lo hi, r.minCycle = .ok lo ∧ r.maxCycle = .ok hi
        ∧ (∃ q, r.hasPt lo q = true) ∧ (∃ q, r.hasPt hi q = true)
        ∧ ∀ c q, r.hasPt c q = true → lo ≤ c ∧ c ≤ hi) := by
  have h1 := BqVerif.Region.Region.minCycle_spec r hr
  have h2 := BqVerif.Region.Region.maxCycle_spec r hr
  refine ⟨fun h => ⟨h1.1 h, h2.1 h⟩, fun h => ?_⟩
  obtain ⟨lo, e1, p1, b1⟩ := h1.2 h
  obtain ⟨hi, e2, p2, b2⟩ := h2.2 h
  exact ⟨lo, hi, e1, e2, p1, p2, fun c q hc => ⟨b1 c q hc, b2 c q hc⟩⟩

/-- **`r.union(s)`**: when it returns, the result is a well-formed region whose cells are the cells
    of either region; it raises only ValueError, and exactly because some shared qudit carries two
    intervals that neither overlap nor touch. -/
theorem C08_region_union (r s : BqVerif.Region.Region) (hr : r.wf = true) (hs : s.wf = true) :
    (∀ u, r.union s = .ok u →
        u.wf = true ∧ ∀ c q, u.hasPt c q = true ↔ (r.hasPt c q = true ∨ s.hasPt c q = true))
    ∧ (∀ e, r.union s = .error e →
        e = .value ∧ ∃ q a b, r.get q = some a ∧ s.get q = some b ∧ a.union b = .error .value) :=
  BqVerif.Region.Region.union_spec r s hr hs

/-- **`r == s`** (sorted item lists) is equality as mappings qudit -> interval, whatever the
    insertion order of the two dicts. -/
theorem C08_region_eq (r s : BqVerif.Region.Region) (hr : r.wf = true) (hs : s.wf = true) :
    r.eqv s = true ↔ ∀ q, r.get q = s.get q := BqVerif.Region.Region.eqv_iff r s hr hs

/-- **`r < s` on regions that share a qudit** is `True` exactly when `s.depends_on(r)`, and raises
    ValueError exactly when two shared qudits disagree about the order. -/
theorem C08_region_lt_shared (r s : BqVerif.Region.Region) (hne : r.common s ≠ []) :
    (r.ltRegion s = .ok true ↔ s.dependsOn r = true)
    ∧ (r.ltRegion s = .error .value ↔
        ∃ q ∈ r.common s, ∃ q' ∈ r.common s,
          BqVerif.Region.Region.fShared r s q ≠ BqVerif.Region.Region.fShared r s q') :=
  BqVerif.Region.Region.ltRegion_dependsOn r s hne

/-- **`GreedyPartitioner.topo_sort`** (`Model/Region.lean: topoSortRegions`, the code's loop: select
    the first unselected region none of whose *other* unselected regions it depends on).  For every
    list of regions: if it returns, the output lists every region exactly once and every region
    comes after all the regions it `depends_on`; if it raises RuntimeError, some regions are left
    and each of them depends on another one that is left (the dependency relation has a cycle -
    recorded finding F5 is GreedyPartitioner producing such families, not a fault of the sort);
    and whenever the dependencies are acyclic (witnessed by a rank function) it returns. -/
theorem C08_topo_sort (rs : List BqVerif.Region.Region) :
    (∀ out, topoSortRegions rs = some out →
        out.Nodup ∧ out.length = rs.length ∧ (∀ i, i ∈ out ↔ i < rs.length)
        ∧ ∀ pre i post, out = pre ++ i :: post →
            ∀ j, j < rs.length → j ≠ i → regionDep rs i j = true → j ∈ pre)
    ∧ (topoSortRegions rs = none →
        ∃ sel : List Nat, sel.length < rs.length ∧
          ∀ i, i < rs.length → i ∉ sel →
            ∃ j, j < rs.length ∧ j ≠ i ∧ j ∉ sel ∧ regionDep rs i j = true)
    ∧ (∀ rank : Nat → Nat,
        (∀ i j, i < rs.length → j < rs.length → j ≠ i → regionDep rs i j = true → rank j < rank i) →
        ∃ out, topoSortRegions rs = some out) :=
  ⟨fun out h => topoSort_ok _ _ out h, fun h => topoSort_err _ _ h,
   fun rank hr => topoSort_total _ _ rank hr⟩

/-- non-vacuity: three blocks sorted, and the 4-cycle of regions on which the sort raises -/
example :
    topoSortRegions [[(1, ⟨2, 3⟩), (2, ⟨0, 3⟩)], [(0, ⟨0, 1⟩), (1, ⟨0, 1⟩)], [(0, ⟨2, 2⟩)]] = some [1, 0, 2]
    ∧ topoSortRegions [[(0, ⟨1, 1⟩)], [(1, ⟨1, 1⟩), (0, ⟨0, 0⟩)], [(1, ⟨0, 0⟩), (2, ⟨1, 1⟩)],
        [(2, ⟨0, 0⟩), (0, ⟨2, 2⟩)]] = none := by decide

/-- **The hole behind recorded finding F5, stated for all regions**: if two regions are ordered one
    way on one shared qudit (`r` before `s` on `q1`) and the other way on another (`s` before `r` on
    `q2`) - blocks that cannot both be emitted whole in any order - then `depends_on` sees no
    dependency in either direction, so `topo_sort` is free to emit them in any order, and `r < s`
    raises ValueError.  (`GreedyPartitioner` can select such pairs; the algebra reports them only
    through `<`, which the partitioner does not call.) -/
theorem C08_region_mixed_pair (r s : BqVerif.Region.Region) (hr : r.wf = true) (hs : s.wf = true)
    (q1 q2 : Nat) (a1 b1 a2 b2 : Iv)
    (h1r : r.get q1 = some a1) (h1s : s.get q1 = some b1) (h1 : a1.lt b1 = true)
    (h2r : r.get q2 = some a2) (h2s : s.get q2 = some b2) (h2 : b2.lt a2 = true) :
    r.dependsOn s = false ∧ s.dependsOn r = false ∧ r.ltRegion s = .error .value :=
  BqVerif.Region.Region.mixed_pair r s hr hs q1 q2 a1 b1 a2 b2 h1r h1s h1 h2r h2s h2

/-- **The `strict` test of `Circuit.check_region`** ("Disconnect detected in region" unless every two
    intervals overlap) is 1-D Helly: it passes iff `max_min_cycle <= min_max_cycle` iff some cycle
    lies in the interval of every qudit - the column `straighten` aligns the region on. -/
theorem C08_region_strict (r : BqVerif.Region.Region) (hr : r.wf = true) (hne : r ≠ []) :
    (r.strictOk = true ↔ ∃ a b, r.maxMinCycle = .ok a ∧ r.minMaxCycle = .ok b ∧ a ≤ b)
    ∧ (r.strictOk = true ↔ ∃ c, ∀ p ∈ r, p.2.mem c = true) := by
  have h := BqVerif.Region.Region.strictOk_iff r hr hne
  have he : r.isEmpty = false := by cases r <;> simp_all
  refine ⟨?_, h.2⟩
  rw [h.1]
  simp only [BqVerif.Region.Region.maxMinCycle, BqVerif.Region.Region.minMaxCycle,
    BqVerif.Region.Region.guardNE, he, Bool.false_eq_true, if_false, Except.ok.injEq]
  constructor
  · intro h; exact ⟨_, _, rfl, rfl, h⟩
  · rintro ⟨a, b, rfl, rfl, h⟩; exact h

/-- **`region.volume`** is the number of cells, and **`r.dependency(s)`** is 0 without a shared qudit,
    1 when on SOME shared qudit all of `s` lies before all of `r`, -1 otherwise (note the contrast
    with `depends_on`, which asks for ALL shared qudits). -/
theorem C08_region_volume_dependency (r s : BqVerif.Region.Region) (hr : r.wf = true) :
    r.volume = r.points.length
    ∧ (r.dependency s = 0 ↔ r.common s = [])
    ∧ (r.dependency s = 1 ↔ ∃ q ∈ r.common s, BqVerif.Region.Region.fShared s r q = true)
    ∧ (r.dependency s = -1 ↔
        r.common s ≠ [] ∧ ∀ q ∈ r.common s, BqVerif.Region.Region.fShared s r q = false) :=
  ⟨BqVerif.Region.Region.volume_eq r hr, BqVerif.Region.Region.dependency_spec r s⟩

/-- **Bridge to C04**: the cells the `fold` / `straighten` validators of C04 quantify over
    (`BqVerif.Circ.Region.covers`, `Model/CircBlocks.lean`) are exactly the cells of the region
    algebra, so `C08_region_*` speak about the same regions `validFold` and `Circ.opsIn` do. -/
theorem C08_region_bridge (r : BqVerif.Region.Region) (hw : r.wf = true) (k q : Nat) :
    BqVerif.Circ.Region.covers (BqVerif.Region.toCirc r) k q = r.hasPt k q :=
  BqVerif.Region.covers_eq_hasPt r hw k q

/-- **`region.transpose()`** lists exactly the cycles that hold a cell, in ascending order, each with
    exactly the qudits of its cells in ascending order (no empty cycle is listed). -/
theorem C08_region_transpose (r : BqVerif.Region.Region) (hr : r.wf = true) :
    (∀ c qs, (c, qs) ∈ r.transpose → qs = r.location.filter (fun q => r.hasPt c q) ∧ qs ≠ [])
    ∧ (∀ c, (∃ qs, (c, qs) ∈ r.transpose) ↔ ∃ q, r.hasPt c q = true)
    ∧ (r.transpose.map (·.1)).Pairwise (· < ·) :=
  BqVerif.Region.Region.transpose_spec r hr

/-- non-vacuity: two blocks of a 3-qudit circuit, the second after the first on qudit 1 -/
example :
    let r : BqVerif.Region.Region := [(1, ⟨2, 3⟩), (2, ⟨0, 3⟩)]
    let s : BqVerif.Region.Region := [(0, ⟨0, 1⟩), (1, ⟨0, 1⟩)]
    r.wf = true ∧ s.wf = true ∧ r.dependsOn s = true ∧ s.dependsOn r = false
    ∧ r.overlaps s = false ∧ r.union s = .ok [(0, ⟨0, 1⟩), (1, ⟨0, 3⟩), (2, ⟨0, 3⟩)]
    ∧ r.shiftLeft 1 = .error .value ∧ r.minCycle = .ok 0 ∧ r.maxMinCycle = .ok 2 := by decide

end RegionAlgebra

end BqVerif.Props.C08
