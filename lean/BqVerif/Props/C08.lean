import BqVerif.Model.Partition
namespace BqVerif.Props.C08
theorem C08_stub : True := trivial
end BqVerif.Props.C08
