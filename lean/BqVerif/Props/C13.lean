import BqVerif.Proofs.ServerObs
/-!
# C13 — task failures reach their client; no client request takes the server down

Model: `BqVerif/Model/Server.lean` (the five tables of `DetachedServer`, every dictionary
access as `Except keyError`; the per-task automaton `spec`; the error path
worker → manager* → server and the client's receive loop).
Vocabulary (`BqVerif/Proofs/Server*.lean`):
* `Inv s` — the table invariant; `Reach s` — `s` is reached from `init` by well-formed events;
* `wf s e` — the environment can produce `e` in `s` (client messages come from registered
  connections only; a submit carries a fresh uuid; an accepted connection is a new object);
* `R s a` — the abstraction relation between the tables and the automaton state `a`;
* `absEv s e` — `e` as a request of the automaton (a mailbox id read as the task it names);
* `clientReplies out` — the client-visible part of what a handler emitted, in order.
-/
namespace BqVerif.C13
open BqVerif.Server

/-! ## the table invariant holds for all histories -/

theorem C13_inv_init : Inv init := inv_init

/-- every handler preserves the invariant -/
theorem C13_inv_step {s s' : Srv} {e : Ev} (h : Inv s) (hw : wf s e = true)
    (hs : step s e = .ok s') : Inv s' := by
  obtain ⟨s'', e1, i⟩ := step_ok_inv h e hw
  rw [hs] at e1; cases e1; exact i

/-- hence it holds after every well-formed history (induction over the request list) -/
theorem C13_inv {s : Srv} (h : Reach s) : Inv s := h.inv

/-! ## no handler performs a failing lookup -/

/-- on invariant states NO event - any client request incl. unknown / foreign / finished /
cancelled ids, any RESULT / ERROR / LOG arrival for any mailbox id - ends in KeyError -/
theorem C13_no_keyerror {s : Srv} (h : Inv s) (e : Ev) (hw : wf s e = true) :
    ∃ s', step s e = .ok s' := by
  obtain ⟨s', e1, _⟩ := step_ok_inv h e hw
  exact ⟨s', e1⟩

/-- the run loop never takes the error path: the server stays `running` -/
theorem C13_stays_running {s : Srv} (h : Reach s) (e : Ev) (hw : wf s e = true) :
    (runLoop s e).running = true ∧ Reach (runLoop s e) := by
  obtain ⟨s', e1, i⟩ := step_ok_inv h.inv e hw
  simp only [runLoop, e1]
  exact ⟨i.running, Reach.step h hw e1⟩

/-! ## refinement of the per-task automaton -/

/-- the abstraction relation commutes with every handler and the client-visible replies are
the automaton's -/
theorem C13_refines_task_automaton {s s' : Srv} {a : Abs} {e : Ev} (h : Inv s) (r : R s a)
    (hw : wf s e = true) (hs : step s e = .ok s') :
    R s' (spec a (absEv s e)).1 ∧ clientReplies s'.out = (spec a (absEv s e)).2 :=
  sim_step h r e hw hs

/-- whole histories: a well-formed history runs without KeyError and its replies, step by
step, are those of the automaton started in "every task unknown" -/
theorem C13_history_refines (es : List Ev) (hw : wfHist init es = true) :
    ∃ s', runHist init es = .ok (s', specHist absInit init es) ∧ Reach s' := by
  obtain ⟨s', h1, _, h3⟩ := hist_refines es init absInit inv_init R_init hw
  exact ⟨s', h1, h3 Reach.init⟩

/-- every reachable state is related to some automaton state -/
theorem C13_reach_abs {s : Srv} (h : Reach s) : ∃ a, R s a := h.exists_abs

/-! ## isolation between clients -/

/-- a request by client `A` (about any task id) sends client-visible messages to `A` only and
leaves every table entry of every other client's tasks unchanged -/
theorem C13_isolation {s s' : Srv} {e : Ev} {A : Conn} (h : Inv s) (hA : e.client = some A)
    (hw : wf s e = true) (hs : step s e = .ok s') :
    (∀ r ∈ clientReplies s'.out, r.conn = A) ∧
    ∀ B, B ≠ A → get? s'.clients B = get? s.clients B ∧
      ∀ t m, get? s.tasks t = some (m, B) →
        get? s'.tasks t = some (m, B) ∧ get? s'.m2t m = get? s.m2t m ∧
        get? s'.boxes m = get? s.boxes m := by
  rw [step_eq_handle] at hs
  have := isolation_handle (s := { s with out := [] }) h.clearOut rfl e hA
    (by cases e <;> exact hw) hs
  exact ⟨this.1, fun B hne => ⟨(this.2 B hne).clients, (this.2 B hne).tasks⟩⟩

/-- nothing is exposed: what `A` is told about a task it does not own is what it would be told
about an unknown id -/
theorem C13_foreign_like_unknown (a : Abs) (A : Conn) (t : Tid)
    (hf : (a.task t).owner ≠ some A) :
    (spec a (.status A t)).2 = [.status A .unknown] ∧
    (spec a (.cancel A t)).2 = [.cancelAck A] ∧ (spec a (.cancel A t)).1 = a ∧
    (spec a (.request A t)).2 = [.errorTo A 0, .close A] := by
  cases hst : a.task t with
  | unknown => simp [spec, hst, TaskSt.statusFor, TaskSt.openFor]
  | running o w =>
    have : o ≠ A := by intro e; subst e; simp [hst, TaskSt.owner] at hf
    simp [spec, hst, TaskSt.statusFor, TaskSt.openFor, this]
  | done o v =>
    have : o ≠ A := by intro e; subst e; simp [hst, TaskSt.owner] at hf
    simp [spec, hst, TaskSt.statusFor, TaskSt.openFor, this]
  | delivered o => simp [spec, hst, TaskSt.statusFor, TaskSt.openFor]
  | cancelled o => simp [spec, hst, TaskSt.statusFor, TaskSt.openFor]

/-! ## errors -/

/-- an ERROR tagged with mailbox id `m` changes no table; it is forwarded to exactly the owner
of the compilation `m` names iff that compilation is still open (its mailbox exists: RUNNING
or DONE), and to nobody otherwise; it is never turned into a RESULT -/
theorem C13_error_routed {s : Srv} (h : Inv s) (m : Mid) (msg : Nat) :
    ∃ s', step s (.error m msg) = .ok s' ∧
      s'.clients = s.clients ∧ s'.tasks = s.tasks ∧ s'.m2t = s.m2t ∧ s'.boxes = s.boxes ∧
      s'.running = s.running ∧
      (match get? s.boxes m with
       | none => s'.out = []
       | some _ => ∃ t c ts, get? s.m2t m = some t ∧ get? s.tasks t = some (m, c) ∧
           get? s.clients c = some ts ∧ t ∈ ts ∧ s'.out = [.errorTo c msg]) ∧
      ∀ c v, Out.resultTo c v ∉ s'.out := by
  obtain ⟨s', e1, a1, a2, a3, a4, _, a6, _, a8⟩ := step_error_eq h m msg
  refine ⟨s', e1, a1, a2, a3, a4, a6, a8, ?_⟩
  intro c v hm
  cases hx : get? s.boxes m with
  | none => rw [hx] at a8; simp only at a8; rw [a8] at hm; cases hm
  | some b =>
    rw [hx] at a8; obtain ⟨t, c', ts, _, _, _, _, ho⟩ := a8
    rw [ho] at hm; simp at hm

/-- (full strength after fix 3a23d26) the ERROR of a compilation that is cancelled, delivered,
unknown, or whose client is gone is discarded: nothing is sent, nothing changes -/
theorem C13_error_discarded_when_closed {s : Srv} (h : Inv s) (m : Mid) (msg : Nat)
    (hb : get? s.boxes m = none) :
    ∃ s', step s (.error m msg) = .ok s' ∧ s'.out = [] ∧ s'.clients = s.clients ∧
      s'.tasks = s.tasks ∧ s'.m2t = s.m2t ∧ s'.boxes = s.boxes := by
  obtain ⟨s', e1, a1, a2, a3, a4, _, _, _, a8⟩ := step_error_eq h m msg
  rw [hb] at a8
  exact ⟨s', e1, a8, a1, a2, a3, a4⟩

/-- the same on the automaton, hence - with `C13_history_refines` - for every history: an ERROR
is answered with a message to the owner iff the task is RUNNING or DONE -/
theorem C13_error_spec (a : Abs) (t : Tid) (msg : Nat) :
    (spec a (.error (some t) msg)).1 = a ∧
    (spec a (.error (some t) msg)).2 =
      (match a.task t with
       | .running o _ => [.errorTo o msg]
       | .done o _ => [.errorTo o msg]
       | .unknown | .delivered _ | .cancelled _ => []) ∧
    (spec a (.error none msg)) = (a, []) := by
  cases hst : a.task t <;> simp [spec, hst]

/-- the history that used to forward a stale ERROR (finding fixed by 3a23d26) -/
def staleErrorHistory : List Ev := [.connect 0, .submit 0 0, .cancel 0 0, .error 0 5]

/-- regression instance: after the client cancelled its task the task's ERROR is discarded -/
theorem C13_stale_error_discarded :
    wfHist init staleErrorHistory = true ∧
    histReplies staleErrorHistory = some [[], [], [.cancelAck 0], []] := by
  decide

/-- an exception raised by the root task of the open compilation `m` or by any task it
spawned, at any depth (`Desc`), on any worker, behind any number `k` of manager levels - unless
it is a plain RuntimeError of a lineage that was cancelled - arrives at the server as ERROR
tagged `m`, is sent to exactly the owner `c` of the compilation, and the owner's pending or
next call raises with the original text, whatever LOG records precede it (both in the pipe
before the call starts and after the request was sent) -/
theorem C13_error_reaches_owner {s : Srv} (h : Reach s) {m : Mid} {b : Box} {d : RTask}
    (hb : get? s.boxes m = some b) (hd : Desc (rootTask m) d)
    (cancelled : List Addr) (plainRte : Bool)
    (hc : plainRte = false ∨ cancelled.any d.isDescendantOf = false)
    (k : Nat) (msg : Nat) (logs : List Nat) (rest : List CMsg) :
    ∃ u t c ts s', workerOnException cancelled d plainRte msg = some u ∧
      get? s.m2t m = some t ∧ get? s.tasks t = some (m, c) ∧
      get? s.clients c = some ts ∧ t ∈ ts ∧
      step s (throughManagers k u).toEv = .ok s' ∧ s'.out = [.errorTo c msg] ∧
      recvHandle (logs.map CMsg.log ++ CMsg.error msg :: rest) none = .raised msg ∧
      preDrain (logs.map CMsg.log ++ CMsg.error msg :: rest) = .raised msg := by
  have hw : workerOnException cancelled d plainRte msg = some (.error m msg) := by
    have : d.comp = m := hd.comp
    rcases hc with x | x <;> simp [workerOnException, x, this]
  obtain ⟨s', e1, _, _, _, _, _, _, _, a8⟩ := step_error_eq h.inv m msg
  rw [hb] at a8
  obtain ⟨t, c, ts, hm, h1, hcl, ht, ho⟩ := a8
  refine ⟨_, t, c, ts, s', hw, hm, h1, hcl, ht, ?_, ho, ?_, ?_⟩
  · rw [throughManagers_id]; exact e1
  · rw [recvHandle_logs]; rfl
  · rw [preDrain_logs]; rfl

/-- the client's receive loop: LOG records are passed over and do not end the wait; the
first non-LOG message decides; with only LOGs the call keeps blocking -/
theorem C13_client_recv (logs : List Nat) :
    (∀ msg rest tr, recvHandle (logs.map CMsg.log ++ CMsg.error msg :: rest) tr = .raised msg) ∧
    (∀ r, recvHandle (logs.map CMsg.log ++ [CMsg.other r]) none = .returned r) ∧
    recvHandle (logs.map CMsg.log) none = .blocked := by
  refine ⟨fun msg rest tr => ?_, fun r => ?_, ?_⟩
  · rw [recvHandle_logs]; rfl
  · rw [recvHandle_logs]; rfl
  · have := recvHandle_logs logs [] none
    simpa [recvHandle] using this

/-- (full strength after fix 131dac7) LOG records pending in the pipe when a call starts never
make the call fail: its outcome is that of the same call without them; with nothing but LOGs
pending the request goes out; a pending ERROR still raises with its text -/
theorem C13_client_predrain (logs : List Nat) :
    (∀ pending arriving, sendRecv (logs.map CMsg.log ++ pending) arriving = sendRecv pending arriving) ∧
    preDrain (logs.map CMsg.log) = .clean ∧
    (∀ arriving, sendRecv (logs.map CMsg.log) arriving = sendRecv [] arriving) ∧
    (∀ msg rest arriving, sendRecv (logs.map CMsg.log ++ CMsg.error msg :: rest) arriving
        = .wrapped (some msg)) := by
  refine ⟨fun p a => ?_, ?_, fun a => ?_, fun msg rest a => ?_⟩
  · simp [sendRecv, preDrain_logs]
  · have := preDrain_logs logs []; simpa [preDrain] using this
  · have := preDrain_logs logs []
    simp only [List.append_nil] at this
    simp [sendRecv, this]
  · simp [sendRecv, preDrain_logs, preDrain]

/-! ## what is really written; the outgoing thread -/

/-- (full strength since fix 9f2bad4) every reply the automaton prescribes is really written to
its client: what a handler queues is never lost to a `close` of the same handler, because the
only handler that answers and closes (`request` for a non-open id) writes its answer itself -/
theorem C13_written_replies {s s' : Srv} {a : Abs} {e : Ev} (h : Inv s) (r : R s a)
    (hw : wf s e = true) (hs : step s e = .ok s') :
    writtenReplies s'.out = (spec a (absEv s e)).2 :=
  written_step h r hw hs

/-- regression instance: the answer to a request for an unknown id reaches the client -/
theorem C13_bad_request_reply_written (a : Abs) (c : Conn) (t : Tid) (downs : List Out)
    (h : (a.task t).openFor c = false) (hd : ∀ o ∈ downs, ∃ m, o = Out.downCancel m) :
    (spec a (.request c t)).2 = [.errorTo c 0, .close c] ∧
    writtenReplies (Out.errorNow c 0 :: Out.close c :: downs) = [.errorTo c 0, .close c] := by
  refine ⟨by rw [spec_request_notOpen h], ?_⟩
  have := written_disc (pre := [Out.errorNow c 0]) (c := c) hd (Or.inr rfl)
  simpa [clientReplies, Out.reply?] using this

/-- (full strength since fixes dfecb96, 9e98cc2) one iteration of the outgoing thread, whatever
happens to the `send` - skipped, sent, or failed with EOFError / any OSError (ConnectionReset,
BrokenPipe, …): the thread survives and the server state is untouched; in particular the
vanished client is still registered, so the main loop's EOF for it is an ordinary well-formed
`disconnect` (no second disconnect can occur) -/
theorem C13_outgoing_thread (s : Srv) (c : Conn) (r : SendResult)
    (hr : r ≠ .failed .nonOSError) :
    (outgoingStep s c r).1 = true ∧ (outgoingStep s c r).2 = s ∧
    ∀ e, wf (outgoingStep s c r).2 e = wf s e := by
  have h2 : (outgoingStep s c r).2 = s := by cases r <;> rfl
  refine ⟨?_, h2, fun e => by rw [h2]⟩
  cases r with
  | skippedClosed => rfl
  | sent => rfl
  | failed e => cases e <;> first | rfl | exact absurd rfl hr

/-- observation (not a violation): for an ERROR reply the caller of `status/result/cancel` gets
the wrapped exception - its own text is 'Server connection unexpectedly closed.', the original
text is its `__cause__`; the chain carries the message -/
theorem C13_client_error_in_cause (msg : Nat) (logs : List Nat) (rest : List CMsg) :
    sendRecv [] (logs.map CMsg.log ++ CMsg.error msg :: rest) = .wrapped (some msg) := by
  simp [sendRecv, preDrain, recvHandle_logs, recvHandle]

/-- a `disconnect` of an unregistered connection would be a failing lookup; `wf` excludes it
and, since 9e98cc2, so does the code (only the main loop disconnects, once) -/
theorem C13_second_disconnect_not_wf :
    histFails [.connect 0, .disconnect 0] = false ∧
    histFails [.connect 0, .disconnect 0, .disconnect 0] = true ∧
    wfHist init [.connect 0, .disconnect 0, .disconnect 0] = false := by
  decide

/-! ## non-vacuity -/

/-- a reachable two-client state with a running task of client 1 -/
def demo : Srv :=
  ⟨[(1, [7]), (0, [])], [(7, (0, 1))], [(0, 7)], [(0, ⟨none, false⟩)], 1, true, [], [.downSubmit 0]⟩

theorem demo_reach : Reach demo :=
  (((Reach.init.step (e := .connect 0) rfl rfl).step (e := .connect 1) rfl rfl).step
    (e := .submit 1 7) rfl rfl)

-- C13_inv_step / C13_no_keyerror / C13_stays_running / C13_inv: hypotheses are satisfiable
example : Inv demo ∧ wf demo (.cancel 0 7) = true := ⟨demo_reach.inv, rfl⟩
example : ∃ s', step demo (.cancel 0 7) = .ok s' := C13_no_keyerror demo_reach.inv _ rfl
example : (runLoop demo (.status 0 7)).running = true := (C13_stays_running demo_reach _ rfl).1
-- C13_refines_task_automaton: some `a` is related to `demo`, and a step exists
example : ∃ a s', R demo a ∧ step demo (.request 1 7) = .ok s' := by
  obtain ⟨a, r⟩ := demo_reach.exists_abs
  obtain ⟨s', e⟩ := C13_no_keyerror demo_reach.inv (.request 1 7) rfl
  exact ⟨a, s', r, e⟩
-- C13_history_refines: a well-formed history with foreign, unknown and finished ids
example : wfHist init [.connect 0, .connect 1, .submit 1 7, .status 0 7, .cancel 0 7,
    .result 0 3, .request 1 7, .status 1 7, .cancel 1 7, .request 0 9, .error 0 4] = true := by
  decide
-- C13_isolation: client 0 cancels the id of client 1's task; hypotheses hold, and the
-- conclusion is not trivial (client 1 does own a task)
example : Inv demo ∧ (Ev.cancel 0 7).client = some 0 ∧ wf demo (.cancel 0 7) = true ∧
    get? demo.tasks 7 = some (0, 1) ∧ (∃ s', step demo (.cancel 0 7) = .ok s') :=
  ⟨demo_reach.inv, rfl, rfl, rfl, C13_no_keyerror demo_reach.inv _ rfl⟩
-- C13_foreign_like_unknown: a foreign running task
example : ((Abs.setTask absInit 7 (.running 1 false)).task 7).owner ≠ some 0 := by
  simp [Abs.setTask, TaskSt.owner]
-- C13_error_routed / C13_error_discarded_when_closed: both branches occur
example : get? demo.boxes 0 = some ⟨none, false⟩ ∧ get? demo.boxes 1 = none := ⟨rfl, rfl⟩
example : Inv demo ∧ get? demo.boxes 1 = none := ⟨demo_reach.inv, rfl⟩
-- C13_error_reaches_owner: a task two levels below the root task of mailbox 0, one manager
example : Reach demo ∧ get? demo.boxes 0 = some ⟨none, false⟩ ∧
    Desc (rootTask 0) (spawn (spawn (rootTask 0) 3 0 0) 4 1 2) ∧
    (false = false ∨ ([] : List Addr).any (spawn (spawn (rootTask 0) 3 0 0) 4 1 2).isDescendantOf = false) :=
  ⟨demo_reach, rfl, .spawn _ _ _ (.spawn _ _ _ .root), Or.inl rfl⟩

-- C13_written_replies: same hypotheses as C13_refines_task_automaton (see above), incl. the
-- closing request kinds
example : wf demo (.request 0 7) = true ∧ closesConn absInit (.request 0 7) = true := ⟨rfl, rfl⟩
-- C13_bad_request_reply_written: an unknown id is not open
example : (absInit.task 5).openFor 0 = false := rfl
-- C13_outgoing_thread: a broken pipe is such a result
example : SendResult.failed .brokenPipe ≠ .failed .nonOSError := by decide

end BqVerif.C13
