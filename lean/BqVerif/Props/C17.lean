import BqVerif.Model.QasmPrint
import BqVerif.Generated.QasmTable
/-! # C17 — OpenQASM 2 import/export (placeholder; theorems follow) -/
namespace BqVerif.C17
open BqVerif.Qasm

theorem C17_placeholder : (1 : Nat) = 1 := rfl

end BqVerif.C17
