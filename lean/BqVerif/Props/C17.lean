import BqVerif.Proofs.QasmRegs
import BqVerif.Proofs.QasmExprBasic
import BqVerif.Proofs.QasmPrec
import BqVerif.Proofs.QasmStrip
import BqVerif.Proofs.QasmAccept
import BqVerif.Proofs.QasmSubst
import BqVerif.Proofs.QasmInline
import BqVerif.Proofs.QasmPrintParse
import BqVerif.Proofs.QasmClean
import BqVerif.Proofs.QasmWitness
import BqVerif.Generated.QasmTable
import BqVerif.Proofs.QasmTableChecks
/-! # C17 — OpenQASM 2 import/export preserves the program and agrees with Qiskit

The theorems are about the Lean model of the reader/writer (`BqVerif.Model.Qasm*`), which the
run ties to `/repo/bqskit/ir/lang/qasm2` by comparing both on generated programs (harness/c17).
The model follows the code as it is; where the code does not have the property, the
full-strength statement is kept as a comment, a `_partial` theorem states what does hold and
a `_witness` theorem (by `decide`) exhibits the failing input that the harness replays on the
real code.
-/
namespace BqVerif.C17
open BqVerif.Qasm BqVerif.Qasm.Generated

/-! ## C17_flat_index — register arithmetic -/

/-- A qubit named `name[i]` with `i` inside the register lies inside the circuit. -/
theorem C17_flat_index_range {rs : Regs} {n : String} {o sz i : Nat}
    (ho : firstIndex rs n = some o) (hs : regSize rs n = some sz) (hi : i < sz) :
    argIndices rs ⟨n, some i⟩ = some [o + i] ∧ o + i < totalSize rs := by
  refine ⟨?_, flat_lt_total ho hs hi⟩
  simp [argIndices, ho]

/-- Different (register, index) pairs inside their registers are different qubits. -/
theorem C17_flat_index_inj {rs : Regs} {n n' : String} {o sz i o' sz' i' : Nat}
    (ho : firstIndex rs n = some o) (hs : regSize rs n = some sz) (hi : i < sz)
    (ho' : firstIndex rs n' = some o') (hs' : regSize rs n' = some sz') (hi' : i' < sz')
    (h : o + i = o' + i') : n = n' ∧ i = i' :=
  flat_inj ho hs hi ho' hs' hi' h

/-- With distinct register names (which `qreg` enforces, see `C17_qregs_nodup`) every qubit of
the circuit is `name[i]` for some register and some `i` inside it: the map is a bijection
between valid pairs and `[0, Σ sizes)`. -/
theorem C17_flat_index_surj {rs : Regs} (hnd : (rs.map Prod.fst).Nodup) {k : Nat}
    (hk : k < totalSize rs) :
    ∃ n o sz i, firstIndex rs n = some o ∧ regSize rs n = some sz ∧ i < sz ∧ o + i = k :=
  flat_surj hnd hk

/-- A bare register name is its `size` consecutive qubits, in order. -/
theorem C17_flat_index_register {rs : Regs} {n : String} {l : List Nat}
    (h : argIndices rs ⟨n, none⟩ = some l) :
    ∃ o sz, firstIndex rs n = some o ∧ regSize rs n = some sz ∧
      l = (List.range sz).map (· + o) :=
  regIndices_eq (by simpa [argIndices] using h)

/-- Argument lists (`anylist`: bare registers and indexed qubits, any number of registers) are
read element-wise and in order; if every index is inside its register, every qubit is inside
the circuit. -/
theorem C17_flat_index_anylist {rs : Regs} {as : List Arg} {l : List Nat}
    (h : anylistIndices rs as = some l) :
    (∃ ls, as.mapM (argIndices rs) = some ls ∧ l = ls.flatten) ∧
    ((∀ a ∈ as, a.inRange rs) → ∀ q ∈ l, q < totalSize rs) :=
  ⟨anylist_elementwise h, anylist_lt_total h⟩

example : anylistIndices [("q", 2), ("r", 1)] [⟨"r", none⟩, ⟨"q", some 1⟩] = some [2, 1] := by
  decide

/-- `qreg` keeps register names distinct. -/
theorem C17_qregs_nodup {V : Type} (A : Arith V) (s s' : St V) (st : Stmt V)
    (h : elabStmt A s st = some s') (hnd : (s.qregs.map Prod.fst).Nodup) :
    (s'.qregs.map Prod.fst).Nodup := by
  cases st with
  | qreg n k =>
    simp only [elabStmt] at h
    split at h
    · simp at h
    · rename_i hany
      simp only [Option.some.injEq] at h
      subst h
      simp only [List.map_append, List.map_cons, List.map_nil]
      rw [List.nodup_append]
      refine ⟨hnd, by simp, ?_⟩
      intro a ha b hb
      simp only [List.mem_cons, List.not_mem_nil, or_false] at hb
      subst hb
      intro hab
      subst hab
      apply hany
      simp only [List.any_eq_true, beq_iff_eq]
      simp only [List.mem_map] at ha
      obtain ⟨p, hp, rfl⟩ := ha
      exact ⟨p, hp, rfl⟩
  | incl f => simp only [elabStmt, Option.some.injEq] at h; subst h; exact hnd
  | opaqueDecl => simp only [elabStmt, Option.some.injEq] at h; subst h; exact hnd
  | creg n k =>
    simp only [elabStmt] at h
    split at h
    · simp at h
    · simp only [Option.some.injEq] at h; subst h; exact hnd
  | gatedecl name ps qs body =>
    simp only [elabStmt, Option.map_eq_some_iff] at h
    obtain ⟨b, _, rfl⟩ := h; exact hnd
  | call c =>
    simp only [elabStmt, Option.map_eq_some_iff] at h
    obtain ⟨b, _, rfl⟩ := h; exact hnd
  | measure q c =>
    simp only [elabStmt, Option.map_eq_some_iff] at h
    obtain ⟨b, _, rfl⟩ := h; exact hnd
  | reset q =>
    simp only [elabStmt, Option.map_eq_some_iff] at h
    obtain ⟨b, _, rfl⟩ := h; exact hnd
  | barrier as =>
    simp only [elabStmt] at h
    split at h
    · split at h
      · simp only [Option.some.injEq] at h; subst h; exact hnd
      · simp at h
    · simp at h

/- Full strength (FALSE of the code): every accepted `name[i]` has `i < size name`, hence
   `(name, i) ↦ offset + i` is injective on all accepted arguments.  The reader never compares
   the index with the register size: -/
/-- `q[3]` with `qreg q[2]; qreg r[2];` is accepted and IS the qubit `r[1]`. -/
theorem C17_flat_index_guard_witness :
    argIndices [("q", 2), ("r", 2)] ⟨"q", some 3⟩ = some [3] ∧
    argIndices [("q", 2), ("r", 2)] ⟨"r", some 1⟩ = some [3] := by decide

/-- Whatever is accepted, the decoded circuit has at least one qubit and every operation has
a non-empty location inside it (`get_circuit` / `circuit.extend` reject everything else; this
is why an index beyond the *whole* circuit is rejected while one beyond its register is not). -/
theorem C17_decoded_in_range {V : Type} (A : Arith V) (table : List BuiltinDef) (ts : List Tok)
    (d : Decoded V) (h : decodeToks A table ts = some d) :
    0 < d.numQubits ∧ ∀ op ∈ d.ops, op.loc ≠ [] ∧ ∀ q ∈ op.loc, q < d.numQubits := by
  simp only [decodeToks, Option.bind_eq_some_iff] at h
  obtain ⟨ss, _, st, _, hfin⟩ := h
  simp only [finish] at hfin
  split at hfin
  · simp at hfin
  · rename_i hn
    split at hfin
    · rename_i hall
      simp only [Option.some.injEq] at hfin
      subst hfin
      refine ⟨by simp at hn; exact Nat.pos_of_ne_zero hn, ?_⟩
      intro op hop
      simp only [List.all_eq_true, Bool.and_eq_true, Bool.not_eq_true',
        List.isEmpty_eq_false_iff, decide_eq_true_eq] at hall
      exact hall op hop
    · simp at hfin

/-! ## C17_precedence — the expression reader -/

/-- **The Python-level reading is exactly the precedence grammar** `sum > term > factor
(unary minus; `**` right-associative and tighter than a minus on its left) > atom`: every
expression tree is recovered from its minimal-parenthesis rendering. -/
theorem C17_precedence {V : Type} (e : PE V) : pyParse (render 0 e) = some e :=
  pyParse_render e

/-- **What the reader evaluates**: for every token string Lark accepts — whatever tree the LALR
automaton builds (`-a+b` is `usub(a+b)` there) — the Python source text the visitor assembles is
the token string without its grouping parentheses.  So the reader's value of an expression is
`eval` of Python's reading (`C17_precedence`) of `stripG ts`. -/
theorem C17_reader_text {V : Type} (A : Arith V) (ts : List (ETok V)) (q : QE V)
    (h : larkParse ts = some q) :
    flatten A q = stripG ts ∧ evalQ A q = (pyParse (stripG ts)).bind (PE.eval A) := by
  have hf := flatten_larkParse A ts q h
  exact ⟨hf, by simp [evalQ, hf]⟩

/-- **The reader accepts every well-formed expression**: Lark's parse (greedy `usub`, shift
preferred) succeeds on the rendering of every tree (no spliced values), in particular on every
operand/operator string `W false ts` (`larkParse_W`). -/
theorem C17_reader_accepts {V : Type} (e : PE V) (he : e.noVal = true) :
    ∃ q, larkParse (render 0 e) = some q :=
  larkParse_render e he

/- Full strength (FALSE of the code): for every tree `e`, the reader's value of its rendering
   is `e.eval` (wrong as soon as the rendering needs a grouping parenthesis,
   `C17_expr_paren_witness`). -/
/-- An expression whose minimal rendering needs no grouping parentheses (`stripG` leaves it
unchanged) is accepted and read as itself — unconditionally. -/
theorem C17_reader_paren_free_partial {V : Type} (A : Arith V) (e : PE V)
    (he : e.noVal = true) (hfree : stripG (render 0 e) = render 0 e) :
    ∃ q, larkParse (render 0 e) = some q ∧ pyParse (flatten A q) = some e ∧
      evalQ A q = e.eval A := by
  obtain ⟨q, h⟩ := larkParse_render e he
  have hf := flatten_larkParse A _ q h
  rw [hfree] at hf
  have hp : pyParse (flatten A q) = some e := by rw [hf]; exact pyParse_render e
  exact ⟨q, h, hp, by simp [evalQ, hp]⟩

example : stripG (render 0 (PE.bin .add (.neg (.lit "1")) (.pow (.lit "2") (.neg (.lit "3")))
    : PE Int)) = render 0 (PE.bin .add (.neg (.lit "1")) (.pow (.lit "2") (.neg (.lit "3")))) ∧
    (PE.bin .add (.neg (.lit "1")) (.pow (.lit "2") (.neg (.lit "3"))) : PE Int).noVal = true := by
  decide

/- Full strength (FALSE of the code): for every Lark tree `q`, `evalQ A q = specEvalQ A q`
   (the reader gives an expression the value OpenQASM 2 gives it). -/
/-- Without parenthesised sub-expressions, negative substituted values and `sqrt`/`exp`, the
reader's value is the value of the expression: the Python text it builds is the program's
own token string, read by the grammar of `C17_precedence`. -/
theorem C17_expr_value_partial {V : Type} (A : Arith V) (q : QE V) (hq : q.plain A = true)
    (hfn : ∀ e, pyParse (flattenSpec A q) = some e → e.noMissingFn = true) :
    evalQ A q = specEvalQ A q := by
  unfold evalQ specEvalQ
  rw [flatten_eq_spec A q hq]
  cases h : pyParse (flattenSpec A q) with
  | none => rfl
  | some e => simp [eval_eq_spec A e (hfn e h)]

example : (QE.bin .add (.num "1") (.usub (.num "2")) : QE Int).plain intArith = true := by decide

/-- `2*(1+2)`: the reader computes `2*1+2 = 4`, the expression means `6`. -/
theorem C17_expr_paren_witness :
    evalQ intArith (.bin .mul (.num "2") (.paren (.bin .add (.num "1") (.num "2")))) = some 4 ∧
    specEvalQ intArith (.bin .mul (.num "2") (.paren (.bin .add (.num "1") (.num "2"))))
      = some 6 := by decide

/-- `sqrt(4)`: not readable (`NameError`), although it has a value. -/
theorem C17_expr_function_witness :
    evalQ intArith (.call .sqrt (.num "4")) = none ∧
    evalQ intArith (.call .exp (.num "4")) = none ∧
    (specEvalQ intArith (.call .sqrt (.num "4"))).isSome = true := by decide

/-! ## C17_subst — formal parameters of user gates -/

/-- **Substitution lemma** (trees): putting values in and evaluating = evaluating under the
binding. -/
theorem C17_subst {V : Type} (A : Arith V) (σ : Env V) (e : PE V) :
    (e.bindEnv σ).eval A = e.evalEnv A σ :=
  eval_bindEnv A σ e

/-- The Python-level reading commutes with replacing formal names by values. -/
theorem C17_subst_parse {V : Type} (σ : Env V) (ts : List (ETok V)) :
    pyParse (ts.map (tokBind σ)) = (pyParse ts).map (PE.bindEnv σ) :=
  pyParse_map σ ts

/- Full strength (FALSE of the code): for every body expression `q`, formals `ps`, actual
   values `vs`: the reader's value `evalQ (substVals vs (bindIds ps q))` is the value of `q`'s
   reading under the binding `ps ↦ vs`. -/
/-- It is, when no actual value prints with a sign: the reader's textual substitution
(`replace_param_ids`, `replace_param_indices`, `eval_exp_recurse`, `eval`) equals parsing the
body expression once and binding its formals. -/
theorem C17_subst_text_partial {V : Type} (A : Arith V) (ps : List String) (vs : List V)
    (hnn : ∀ v ∈ vs, A.isNeg v = false) (q q' : QE V) (hsrc : q.source = true)
    (hs : substVals vs (bindIds ps q) = some q') :
    evalQ A q' = (pyParse (flatten A q)).bind (PE.evalEnv A (formalEnv ps vs)) :=
  evalQ_subst A ps vs hnn q q' hsrc hs

example : (∀ v ∈ [(2 : Int), 0], intArith.isNeg v = false) ∧
    (QE.pow (.id "a") (.num "2") : QE Int).source = true := by decide

/-- **A user-gate call is its body, inlined** — for any nesting depth: the nested operation
the reader builds for a call unfolds (blocks opened, locations composed) to the body
statements instantiated with their parameter expressions evaluated under the call's actual
values. -/
theorem C17_inline {V : Type} (A : Arith V) (g : GDef V) (loc : List Nat) (vs : List V)
    (op : Op V) (h : buildOp A g loc vs = some op) : inlineG A g loc vs = some op.flat :=
  buildOp_inline A g loc vs op h

/-- `gate g(a) x { rz(a^2) x; }  g(-2) …`: the value `-2` is spliced in as the text `-2`,
Python reads `-2**2 = -4`; the expression means `(-2)^2 = 4`. -/
theorem C17_subst_negative_witness :
    (substVals [-2] (bindIds ["a"] (.pow (.id "a") (.num "2")))).bind (evalQ intArith)
      = some (-4) ∧
    (substVals [-2] (bindIds ["a"] (.pow (.id "a") (.num "2")))).bind (specEvalQ intArith)
      = some 4 := by decide

/-! ## witnesses of the statement-level defects (token strings; the lexer is tied by the run) -/

/- Full strength (FALSE of the code): `reset a` resets exactly the qubits `argIndices` gives
   for `a`; `measure a -> c` records, for every measured qubit, its circuit index. -/
/-- `reset name[i];` resets that qubit; `reset name;` resets the whole register **when `name`
is the first register** (otherwise `C17_reset_register_witness`). -/
theorem C17_reset_partial {V : Type} (s : St V) (a : Arg) :
    (∀ i, a.idx = some i → elabReset s a = (argIndices s.qregs a).map (·.map Op.reset)) ∧
    (∀ sz rest, a.idx = none → s.qregs = (a.name, sz) :: rest →
      elabReset s a = (argIndices s.qregs a).map (·.map Op.reset)) := by
  constructor
  · intro i hi
    simp [elabReset, hi]
  · intro sz rest hi hq
    simp [elabReset, hi, hq, argIndices, regIndices, firstIndex, regSize]

/-- `measure name -> c;` (whole registers) records circuit indices; `measure name[i] -> c[j];`
records the circuit index **when `name` is the first register** (otherwise
`C17_measure_key_witness`). -/
theorem C17_measure_partial {V : Type} (s : St V) (q c : Arg) (loc : List Nat)
    (ms : List (Nat × String × Nat)) (h : elabMeasure s q c = some (.measure loc ms)) :
    (q.idx = none → ms.map (·.1) = loc) ∧
    (∀ sz rest, s.qregs = (q.name, sz) :: rest → ms.map (·.1) = loc) := by
  unfold elabMeasure at h
  split at h
  · simp at h
  · rename_i l hl
    split at h
    · rename_i qsz csz hqs hcs
      constructor
      · intro hi
        simp only [hi] at h
        cases hc : c.idx with
        | none =>
          simp only [hc] at h
          split at h
          · simp at h
          · simp only [Option.map_eq_some_iff, Op.measure.injEq] at h
            obtain ⟨o, ho, rfl, rfl⟩ := h
            simp only [argIndices, hi, regIndices, ho, hqs] at hl
            simp only [Option.some.injEq] at hl
            subst hl
            simp [List.map_map, Function.comp_def, Nat.add_comm]
        | some j => simp [hc] at h
      · intro sz rest hq
        cases hi : q.idx with
        | none =>
          cases hc : c.idx with
          | none =>
            simp only [hi, hc] at h
            split at h
            · simp at h
            · simp only [Option.map_eq_some_iff, Op.measure.injEq] at h
              obtain ⟨o, ho, rfl, rfl⟩ := h
              simp only [argIndices, hi, regIndices, ho, hqs] at hl
              simp only [Option.some.injEq] at hl
              subst hl
              simp [List.map_map, Function.comp_def, Nat.add_comm]
          | some j => simp [hi, hc] at h
        | some i =>
          cases hc : c.idx with
          | none => simp [hi, hc] at h
          | some j =>
            simp only [hi, hc, Option.some.injEq, Op.measure.injEq] at h
            obtain ⟨rfl, rfl⟩ := h
            simp only [argIndices, hi, hq, firstIndex, if_true, Option.map_some,
              Option.some.injEq] at hl
            subst hl
            simp
    · simp at h

example : (elabMeasure ({ qregs := [("q", 2), ("r", 1)], cregs := [("c", 2)] } : St Int)
    ⟨"q", some 1⟩ ⟨"c", some 0⟩).map (fun o => (o.loc, o.meas)) = some ([1], [(1, "c", 0)]) ∧
    (elabReset ({ qregs := [("q", 2), ("r", 1)] } : St Int) ⟨"q", none⟩).map
      (fun l => l.map Op.loc) = some [[0], [1]] := by decide

/-- `qreg q[2]; qreg r[3]; reset r;` resets qubits 0 and 1 (the first register). -/
theorem C17_reset_register_witness :
    (elabReset ({ qregs := [("q", 2), ("r", 3)] } : St Int) ⟨"r", none⟩).map
      (fun l => l.map Op.loc) = some [[0], [1]] := by decide

/-- `measure r[1] -> c[2]` on `qreg q[2]; qreg r[3]`: location 3, recorded key 1. -/
theorem C17_measure_key_witness :
    (elabMeasure ({ qregs := [("q", 2), ("r", 3)], cregs := [("c", 3)] } : St Int)
      ⟨"r", some 1⟩ ⟨"c", some 2⟩).map (fun o => (o.loc, o.meas)) = some ([3], [(1, "c", 2)]) := by
  decide

/-- `barrier q, r;` is rejected although each register alone is readable. -/
theorem C17_idlist_witness :
    anylistIndices [("q", 1), ("r", 1)] [⟨"q", none⟩, ⟨"r", none⟩] = none ∧
    argIndices [("q", 1), ("r", 1)] ⟨"q", none⟩ = some [0] ∧
    argIndices [("q", 1), ("r", 1)] ⟨"r", none⟩ = some [1] := by decide

/-- `if (c == 1) h q[0];` is read exactly like `h q[0];`: the gate is applied. -/
theorem C17_if_witness :
    (decodeToks intArith tinyTable (hdrToks ++ qregToks "q" 1 ++
        [.kw "if", .sym "(", .id "c", .sym "==", .num "1", .sym ")", .id "h"] ++
        qb "q" 0 ++ [.sym ";"])).map Decoded.summary = hOnQ0 ∧
    (decodeToks intArith tinyTable (hdrToks ++ qregToks "q" 1 ++ [.id "h"] ++
        qb "q" 0 ++ [.sym ";"])).map Decoded.summary = hOnQ0 := by
  constructor <;> decide

/-! ## C17_clean_program — whole programs -/

/- Full strength (FALSE of the code): for every program of the subset, the reader computes the
   reference elaboration `specDecodeToks` (`Model/QasmSpec.lean`: expressions read with their
   parentheses and all functions, formals bound, indices checked against their register,
   lists of registers read element-wise, `reset`/`measure` on the named register, `if`
   rejected).  Each `_witness` theorem of this file is a counterexample. -/
/-- **On a clean program the reader computes the reference elaboration.**  Clean
(`CleanProgram`, `CleanStmt`, `CleanCall`, `CleanExpr`): every parameter expression is free of
parenthesised sub-expressions and of `sqrt`/`exp`; constant expressions in gate bodies
evaluate; every value handed to a user gate, at any depth, prints without a sign
(`nonNegS`); argument lists have at most one leading whole register; `reset name;` and
`measure name[i] -> c[j];` name the first register; and the program has no `if` (the reference
rejects it).  Nothing is assumed about nesting depth, number of registers or gate table.
The reference elaboration itself is compared with the independent Python reference on every
generated program of the run (`spec` leg). -/
theorem C17_clean_program_partial {V : Type} (A : Arith V) (table : List BuiltinDef)
    (ts : List Tok) (d : Decoded V) (hc : CleanProgram A table ts)
    (h : specDecodeToks A table ts = some d) : decodeToks A table ts = some d :=
  decode_clean A table ts d hc h

/-- non-vacuity: `OPENQASM 2.0; qreg q[2]; h q[1]; cx q[0],q[1];` is clean and has a meaning -/
example : CleanProgram intArith tinyTable
      (hdrToks ++ qregToks "q" 2 ++ [.id "h"] ++ qb "q" 1 ++ [.sym ";", .id "cx"] ++ qb "q" 0 ++
        [.sym ","] ++ qb "q" 1 ++ [.sym ";"]) ∧
    (specDecodeToks intArith tinyTable
      (hdrToks ++ qregToks "q" 2 ++ [.id "h"] ++ qb "q" 1 ++ [.sym ";", .id "cx"] ++ qb "q" 0 ++
        [.sym ","] ++ qb "q" 1 ++ [.sym ";"])).isSome = true := by
  refine ⟨⟨_, rfl, ?_⟩, by decide⟩
  refine .cons trivial rfl (.cons ?_ rfl (.cons ?_ rfl (.nil _)))
  · refine ⟨by simp, by unfold leadBareOk; decide, ?_⟩
    intro gs vs hl _
    simp only [SSt.lookup, lookupBuiltin, tinyTable, List.find?] at hl
    simp at hl
    subst hl
    rfl
  · refine ⟨by simp, by unfold leadBareOk; decide, ?_⟩
    intro gs vs hl _
    simp only [SSt.lookup, lookupBuiltin, tinyTable, List.find?] at hl
    simp at hl
    subst hl
    rfl

/-! ## C17_print_parse — the writer's format is read back -/

/- Full strength: for every qubit circuit over gates with a spelling, `decode (encode c)` is
   `c`.  Missing from the theorem below: circuits with `CircuitGate` definitions and
   measurements (compared by the run on every generated circuit), and the step from
   characters to tokens (checked by the driver for every text it prints); the five library
   gates of `knownUnreadable` do not round-trip at all (`C17_gate_table_readable_witness`). -/
/-- **Round trip of the writer's statement format through the reader** (tokens): if every
line is `barrier q[i],…;`, `reset q[i];` or `name(p…) q[i],…;` naming a row of the table
(`POp.Reads`) with matching arities, distinct qubits
inside the `N`-qubit register and finite printed parameters, then reading the program the
writer emits (`OPENQASM 2.0; include "qelib1.inc"; qreg q[N];` + the lines) gives exactly the
operations `exp` — same gates, same locations, parameters = the values of the printed
literals (`C17_print_parse_param`).  `lex (printProgram n ops) = programToks n ops` is
checked by the driver on every circuit the run prints. -/
theorem C17_print_parse_partial {V : Type} (A : Arith V) (table : List BuiltinDef) (n : Nat)
    (hn : 0 < n) (ops : List POp) (exp : List (Op V)) (h : ReadsAll A table ops exp)
    (hr : ∀ o ∈ ops, ∀ q ∈ o.loc, q < n) :
    decodeToks A table (programToks n ops) = some ⟨n, [], exp⟩ :=
  decodeToks_programToks A table n hn ops exp h hr

/-- the parameter read back is the value of the printed decimal (sign included) -/
theorem C17_print_parse_param {V : Type} (A : Arith V) (p : PLit) :
    evalQ A (PLit.qe p) =
      (parsePyLit p.text).map fun me =>
        if p.neg then A.neg (A.ofLit me.1 me.2) else A.ofLit me.1 me.2 :=
  evalQ_lit A p

example : ReadsAll intArith tinyTable
    [⟨"rz", [⟨true, "2"⟩], [1]⟩, ⟨"barrier", [], [1, 0]⟩, ⟨"cx", [], [0, 1]⟩, ⟨"reset", [], [1]⟩]
    [.prim "RZGate" [1] [-2], .barrier [1, 0], .prim "CNOTGate" [0, 1] [], .reset 1] :=
  .cons (.inr (.inr ⟨by decide, by decide, by decide,
      ⟨"rz", 1, 1, "RZGate", 1, 1⟩, [-2], rfl, rfl, rfl, rfl, rfl⟩))
    (.cons (.inl ⟨rfl, rfl, by decide, by decide, rfl⟩)
      (.cons (.inr (.inr ⟨by decide, by decide, by decide,
          ⟨"cx", 0, 2, "CNOTGate", 0, 2⟩, [], rfl, rfl, rfl, rfl, rfl⟩))
        (.cons (.inr (.inl ⟨rfl, rfl, 1, rfl, rfl⟩)) .nil)))

/-! ## C17_gate_table — (B): the live table, regenerated on every run -/

/-- Every row of `gate_defs` (except the known bad one) declares the arities of its gate, so
`Operation(gate, location, params)` accepts what the arity checks of `gate` let through. -/
theorem C17_gate_table_arity_partial :
    ∀ b ∈ gateDefs, b.key ∉ knownBadRows → arityOk b = true := by decide

/-- `GateDef('pxz', 1, 3, PhasedXZGate())`: 3 parameters / 1 qubit declared as 1 / 3. -/
theorem C17_gate_table_arity_witness :
    ∃ b ∈ gateDefs, b.key = "pxz" ∧ (b.np, b.nv) = (1, 3) ∧ (b.gnp, b.gnq) = (3, 1) := by
  decide

/-- what an arity-correct row means for the reader: the operation is built -/
theorem C17_gate_table_row_sound {V : Type} (A : Arith V) (b : BuiltinDef) (h : arityOk b = true)
    (loc : List Nat) (ps : List V) (hps : ps.length = b.np) (hloc : loc.length = b.nv)
    (hnd : nodup loc = true) (hne : ps ≠ [] ∨ b.gnp = 0) :
    mkPrim A b loc ps = some (.prim b.gid loc ps) := by
  simp only [arityOk, Bool.and_eq_true, beq_iff_eq] at h
  unfold mkPrim
  have h1 : (ps.isEmpty && b.gnp != 0) = false := by
    rcases hne with h' | h'
    · cases ps with
      | nil => exact absurd rfl h'
      | cons a as => simp
    · simp [h']
  simp [h1, hps, hloc, hnd, h.1, h.2]

/-- Every library gate that is written through the table (no definition emitted) is readable
under the spelling the writer uses — except the known ones. -/
theorem C17_gate_table_readable_partial :
    ∀ g ∈ libGates, g.kind = "table" → g.base ∉ knownUnreadable → readable g = true := by
  decide

/-- each known unreadable spelling really is one (so the exception list cannot rot) -/
theorem C17_gate_table_readable_witness :
    ∀ s ∈ knownUnreadable, ∃ g ∈ libGates, g.kind = "table" ∧ g.base = s ∧ readable g = false := by
  decide

end BqVerif.C17
