import BqVerif.Proofs.QasmRegs
import BqVerif.Proofs.QasmPrec
import BqVerif.Proofs.QasmText
import BqVerif.Proofs.QasmAccept
import BqVerif.Proofs.QasmSubst
import BqVerif.Proofs.QasmInline
import BqVerif.Proofs.QasmPrintParse
import BqVerif.Proofs.QasmProgram
import BqVerif.Proofs.QasmWitness
import BqVerif.Generated.QasmTable
import BqVerif.Proofs.QasmTableChecks
import BqVerif.Proofs.QasmNames
/-! # C17 — OpenQASM 2 import/export preserves the program and agrees with Qiskit

The theorems are about the Lean model of the reader/writer (`BqVerif.Model.Qasm*`), which the
run ties to `/repo/bqskit/ir/lang/qasm2` by comparing both on generated programs (harness/c17).
The model follows the code as it is after the `fix:` commits 086cad2 ffca920 59fc65c face931
a26fa84 5d5c8ac 7903c7b ef3db36 25990ec bea85d2 6cd2451 of /repo: the `_witness` theorems that
documented the repaired defects are gone and the corresponding `_partial` theorems are now
stated at full strength.  One `_partial`/`_witness` pair remains (`C17_gate_table_readable_*`:
the size-generic gates `diag`, `mpry`, `mprz` are written under a spelling no table row reads).
-/
namespace BqVerif.C17
open BqVerif.Qasm BqVerif.Qasm.Generated

/-! ## C17_flat_index — register arithmetic -/

/-- **An accepted `name[i]` has `i` inside its register** (`convert_indexed_qubit`), names the
qubit `offset(name) + i`, and that qubit lies inside the circuit. -/
theorem C17_flat_index_checked {rs : Regs} {n : String} {i : Nat} {l : List Nat}
    (h : argIndices rs ⟨n, some i⟩ = some l) :
    ∃ o sz, firstIndex rs n = some o ∧ regSize rs n = some sz ∧ i < sz ∧ l = [o + i] ∧
      o + i < totalSize rs := by
  simp only [argIndices, Option.map_eq_some_iff] at h
  obtain ⟨q, hq, rfl⟩ := h
  obtain ⟨o, sz, ho, hs, hlt, rfl⟩ := indexedQubit_eq hq
  exact ⟨o, sz, ho, hs, hlt, rfl, flat_lt_total ho hs hlt⟩

/-- conversely every index inside its register is accepted -/
theorem C17_flat_index_range {rs : Regs} {n : String} {o sz i : Nat}
    (ho : firstIndex rs n = some o) (hs : regSize rs n = some sz) (hi : i < sz) :
    argIndices rs ⟨n, some i⟩ = some [o + i] ∧ o + i < totalSize rs := by
  refine ⟨?_, flat_lt_total ho hs hi⟩
  simp [argIndices, indexedQubit_of ho hs hi]

/-- Different (register, index) pairs inside their registers are different qubits. -/
theorem C17_flat_index_inj {rs : Regs} {n n' : String} {o sz i o' sz' i' : Nat}
    (ho : firstIndex rs n = some o) (hs : regSize rs n = some sz) (hi : i < sz)
    (ho' : firstIndex rs n' = some o') (hs' : regSize rs n' = some sz') (hi' : i' < sz')
    (h : o + i = o' + i') : n = n' ∧ i = i' :=
  flat_inj ho hs hi ho' hs' hi' h

/-- With distinct register names (which `qreg` enforces, see `C17_qregs_nodup`) every qubit of
the circuit is `name[i]` for some register and some `i` inside it: the map is a bijection
between valid pairs and `[0, Σ sizes)`. -/
theorem C17_flat_index_surj {rs : Regs} (hnd : (rs.map Prod.fst).Nodup) {k : Nat}
    (hk : k < totalSize rs) :
    ∃ n o sz i, firstIndex rs n = some o ∧ regSize rs n = some sz ∧ i < sz ∧ o + i = k :=
  flat_surj hnd hk

/-- A bare register name is its `size` consecutive qubits, in order. -/
theorem C17_flat_index_register {rs : Regs} {n : String} {l : List Nat}
    (h : argIndices rs ⟨n, none⟩ = some l) :
    ∃ o sz, firstIndex rs n = some o ∧ regSize rs n = some sz ∧
      l = (List.range sz).map (· + o) :=
  regIndices_eq (by simpa [argIndices] using h)

/-- Argument lists (`anylist`: any mixture of whole registers and indexed qubits, any number of
registers) are read element-wise and in order, and every qubit is inside the circuit. -/
theorem C17_flat_index_anylist {rs : Regs} {as : List Arg} {l : List Nat}
    (h : anylistIndices rs as = some l) :
    (∃ ls, as.mapM (argIndices rs) = some ls ∧ l = ls.flatten) ∧ ∀ q ∈ l, q < totalSize rs :=
  ⟨anylist_elementwise h, anylist_lt_total h⟩

example : anylistIndices [("q", 2), ("r", 1), ("w", 2)] [⟨"w", none⟩, ⟨"r", none⟩, ⟨"q", some 1⟩]
    = some [3, 4, 2, 1] ∧ argIndices [("q", 2), ("r", 2)] ⟨"q", some 3⟩ = none := by decide

/-- `qreg` keeps register names distinct. -/
theorem C17_qregs_nodup {V : Type} (A : Arith V) (s s' : St V) (st : Stmt V)
    (h : elabStmt A s st = some s') (hnd : (s.qregs.map Prod.fst).Nodup) :
    (s'.qregs.map Prod.fst).Nodup := by
  cases st with
  | qreg n k =>
    simp only [elabStmt] at h
    split at h
    · simp at h
    · rename_i hany
      simp only [Option.some.injEq] at h
      subst h
      simp only [List.map_append, List.map_cons, List.map_nil]
      rw [List.nodup_append]
      refine ⟨hnd, by simp, ?_⟩
      intro a ha b hb
      simp only [List.mem_cons, List.not_mem_nil, or_false] at hb
      subst hb
      intro hab
      subst hab
      apply hany
      simp only [List.any_eq_true, beq_iff_eq]
      simp only [List.mem_map] at ha
      obtain ⟨p, hp, rfl⟩ := ha
      exact ⟨p, hp, rfl⟩
  | incl f => simp only [elabStmt, Option.some.injEq] at h; subst h; exact hnd
  | opaqueDecl => simp only [elabStmt, Option.some.injEq] at h; subst h; exact hnd
  | creg n k =>
    simp only [elabStmt] at h
    split at h
    · simp at h
    · simp only [Option.some.injEq] at h; subst h; exact hnd
  | gatedecl name ps qs body =>
    simp only [elabStmt, Option.map_eq_some_iff] at h
    obtain ⟨b, _, rfl⟩ := h; exact hnd
  | call c =>
    simp only [elabStmt, Option.map_eq_some_iff] at h
    obtain ⟨b, _, rfl⟩ := h; exact hnd
  | measure q c =>
    simp only [elabStmt, Option.map_eq_some_iff] at h
    obtain ⟨b, _, rfl⟩ := h; exact hnd
  | reset q =>
    simp only [elabStmt, Option.map_eq_some_iff] at h
    obtain ⟨b, _, rfl⟩ := h; exact hnd
  | barrier as =>
    simp only [elabStmt] at h
    split at h
    · split at h
      · simp only [Option.some.injEq] at h; subst h; exact hnd
      · simp at h
    · simp at h

/-- Whatever is accepted, the decoded circuit has at least one qubit and every operation has
a non-empty location inside it. -/
theorem C17_decoded_in_range {V : Type} (A : Arith V) (table : List BuiltinDef) (ts : List Tok)
    (d : Decoded V) (h : decodeToks A table ts = some d) :
    0 < d.numQubits ∧ ∀ op ∈ d.ops, op.loc ≠ [] ∧ ∀ q ∈ op.loc, q < d.numQubits := by
  simp only [decodeToks, Option.bind_eq_some_iff] at h
  obtain ⟨ss, _, st, _, hfin⟩ := h
  simp only [finish] at hfin
  split at hfin
  · simp at hfin
  · rename_i hn
    split at hfin
    · rename_i hall
      simp only [Option.some.injEq] at hfin
      subst hfin
      refine ⟨by simp at hn; exact Nat.pos_of_ne_zero hn, ?_⟩
      intro op hop
      simp only [List.all_eq_true, Bool.and_eq_true, Bool.not_eq_true',
        List.isEmpty_eq_false_iff, decide_eq_true_eq] at hall
      exact hall op hop
    · simp at hfin

/-! ## C17_precedence — the expression reader -/

/-- **The Python-level reading is exactly the precedence grammar** `sum > term > factor
(unary minus; `**` right-associative and tighter than a minus on its left) > atom`: every
expression tree is recovered from its minimal-parenthesis rendering. -/
theorem C17_precedence {V : Type} (e : PE V) : pyParse (render 0 e) = some e :=
  pyParse_render e

/-- **What the reader evaluates**: for every token string Lark accepts — whatever tree the LALR
automaton builds (`-a+b` is `usub(a+b)` there) — the Python source text the visitor assembles is
that very token string, grouping parentheses included.  So the reader's value of an expression
is `eval` of Python's reading (`C17_precedence`) of the expression's own tokens. -/
theorem C17_reader_text {V : Type} (A : Arith V) (ts : List (ETok V)) (q : QE V)
    (h : larkParse ts = some q) :
    flatten q = ts ∧ evalQ A q = (pyParse ts).bind (PE.eval A) := by
  have hf := flatten_larkParse ts q h
  exact ⟨hf, by simp [evalQ, hf]⟩

/-- **The reader accepts every well-formed expression**: Lark's parse (greedy `usub`, shift
preferred) succeeds on the rendering of every tree, in particular on every operand/operator
string `W false ts` (`larkParse_W`). -/
theorem C17_reader_accepts {V : Type} (e : PE V) (he : e.noVal = true) :
    ∃ q, larkParse (render 0 e) = some q :=
  larkParse_render e he

/-- **Every expression is read as itself**: written with the parentheses the grammar needs
(any tree: nested parentheses, all six functions, `^`, unary minus), it is accepted and its
value is the value of the tree. -/
theorem C17_reader_correct {V : Type} (A : Arith V) (e : PE V) (he : e.noVal = true) :
    ∃ q, larkParse (render 0 e) = some q ∧ pyParse (flatten q) = some e ∧
      evalQ A q = e.eval A := by
  obtain ⟨q, h⟩ := larkParse_render e he
  have hf := flatten_larkParse _ q h
  have hp : pyParse (flatten q) = some e := by rw [hf]; exact pyParse_render e
  exact ⟨q, h, hp, by simp [evalQ, hp]⟩

example : (PE.bin .mul (.lit "2") (.bin .add (.call .sqrt (.lit "1")) (.neg (.pow (.lit "2")
    (.lit "3")))) : PE Int).noVal = true := by decide

/-! ## C17_subst — formal parameters of user gates -/

/-- **Substitution lemma** (trees): putting values in and evaluating = evaluating under the
binding. -/
theorem C17_subst {V : Type} (A : Arith V) (σ : Env V) (e : PE V) :
    (e.bindEnv σ).eval A = e.evalEnvSpec A σ :=
  eval_bindEnv A σ e

/-- The Python-level reading of the spliced text (every bound formal replaced by `(value)`) is
the reading of the original text with the formals bound. -/
theorem C17_subst_parse {V : Type} (σ : Env V) (ts : List (ETok V)) (e : PE V)
    (h : pyParse ts = some e) : pyParse (tsubst σ ts) = some (e.bindEnv σ) :=
  pyParse_tsubst σ ts e h

/-- **The reader's textual substitution is binding**: for every body expression `q` (as
parsed), formals `ps` and actual values `vs` of any sign, the value the reader computes from
the spliced text (`replace_param_ids`, `replace_param_indices`, `eval_exp_recurse`, `eval`) is
the value of `q`'s parse tree with the formals bound to the actuals. -/
theorem C17_subst_text {V : Type} (A : Arith V) (ps : List String) (vs : List V) (q q' : QE V)
    (hsrc : q.source = true) (hs : substVals vs (bindIds ps q) = some q') (e : PE V)
    (he : pyParse (flatten q) = some e) :
    evalQ A q' = e.evalEnvSpec A (formalEnv ps vs) :=
  evalQ_subst A ps vs q q' hsrc hs e he

example : (substVals [-2] (bindIds ["a"] (.pow (.id "a") (.num "2")))).bind (evalQ intArith)
    = some 4 ∧ (QE.pow (.id "a") (.num "2") : QE Int).source = true := by decide

/-- **A user-gate call is its body, inlined** — for any nesting depth: the nested operation
the reader builds for a call unfolds (blocks opened, locations composed) to the body
statements instantiated with their parameter expressions evaluated under the call's actual
values. -/
theorem C17_inline {V : Type} (A : Arith V) (g : GDef V) (loc : List Nat) (vs : List V)
    (op : Op V) (h : buildOp A g loc vs = some op) : inlineG A g loc vs = some op.flat :=
  buildOp_inline A g loc vs op h

/-! ## statements -/

/-- `reset a;` resets exactly the qubits `a` names (one register, or one qubit). -/
theorem C17_reset {V : Type} (s : St V) (a : Arg) :
    elabReset s a = (argIndices s.qregs a).map (·.map Op.reset) := rfl

/-- `measure a -> c;` records, for every measured qubit, its circuit index, and every recorded
classical bit lies inside its register. -/
theorem C17_measure {V : Type} (s : St V) (q c : Arg) (loc : List Nat)
    (ms : List (Nat × String × Nat)) (h : elabMeasure s q c = some (.measure loc ms)) :
    ms.map (·.1) = loc ∧
      ∀ m ∈ ms, ∃ sz, regSize s.cregs m.2.1 = some sz ∧ m.2.2 < sz := by
  unfold elabMeasure at h
  split at h
  · simp at h
  · rename_i l hl
    split at h
    · rename_i qsz csz hqs hcs
      cases hi : q.idx with
      | none =>
        cases hc : c.idx with
        | none =>
          simp only [hi, hc] at h
          split at h
          · simp at h
          · rename_i hne
            simp only [bne_iff_ne, ne_eq, Decidable.not_not] at hne
            simp only [Option.map_eq_some_iff, Op.measure.injEq] at h
            obtain ⟨o, ho, rfl, rfl⟩ := h
            simp only [argIndices, hi, regIndices, ho, hqs] at hl
            simp only [Option.some.injEq] at hl
            subst hl
            refine ⟨by simp [List.map_map, Function.comp_def, Nat.add_comm], ?_⟩
            intro m hm
            simp only [List.mem_map, List.mem_range] at hm
            obtain ⟨i, hi', rfl⟩ := hm
            exact ⟨csz, hcs, by simp only; omega⟩
        | some j => simp [hi, hc] at h
      | some i =>
        cases hc : c.idx with
        | none => simp [hi, hc] at h
        | some j =>
          simp only [hi, hc] at h
          split at h
          · rename_i hok
            simp only [Option.some.injEq, Op.measure.injEq] at h
            obtain ⟨rfl, rfl⟩ := h
            simp only [argIndices, hi, Option.map_eq_some_iff] at hl
            obtain ⟨q0, _, rfl⟩ := hl
            refine ⟨by simp, ?_⟩
            intro m hm
            simp only [List.mem_singleton] at hm
            subst hm
            exact ⟨csz, hcs, clbitOk_lt hcs hok⟩
          · simp at h
    · simp at h

example : (elabMeasure ({ qregs := [("q", 2), ("r", 3)], cregs := [("c", 3)] } : St Int)
    ⟨"r", some 1⟩ ⟨"c", some 2⟩).map (fun o => (o.loc, o.meas)) = some ([3], [(3, "c", 2)]) ∧
    (elabReset ({ qregs := [("q", 2), ("r", 3)] } : St Int) ⟨"r", none⟩).map
      (fun l => l.map Op.loc) = some [[2], [3], [4]] ∧
    elabMeasure ({ qregs := [("q", 2)], cregs := [("c", 2)] } : St Int)
      ⟨"q", some 0⟩ ⟨"c", some 5⟩ = none := by decide

/-- `if (c == n) qop;` is rejected (the `statement` hook raises), whatever follows. -/
theorem C17_if_rejected {V : Type} (ts : List Tok) :
    (pStmt (.kw "if" :: ts) : Option (Stmt V × List Tok)) = none := by
  simp [pStmt]

/-! ## C17_program — whole programs -/

/-- **The reader computes the reference elaboration of every program that has one.**
`specDecodeToks` (`Model/QasmSpec.lean`) is the meaning of a program of the subset: expressions
valued as their own token string read by the precedence grammar with all six functions, formal
parameters bound in the tree, indices checked against their register, lists of registers read
element-wise, `reset`/`measure` on the named register, user gates kept as source trees and
instantiated under a binding at any nesting depth.  No side condition: any number of
registers, any gate table, any expressions, any sign of the actual parameters.  The reference
elaboration itself is compared with the independent Python reference and (through the decoded
circuit) with Qiskit on every generated program of the run. -/
theorem C17_program {V : Type} (A : Arith V) (table : List BuiltinDef) (ts : List Tok)
    (d : Decoded V) (h : specDecodeToks A table ts = some d) : decodeToks A table ts = some d :=
  decode_spec A table ts d h

example : (specDecodeToks intArith tinyTable
      (hdrToks ++ qregToks "q" 2 ++ [.id "h"] ++ qb "q" 1 ++ [.sym ";", .id "cx"] ++ qb "q" 0 ++
        [.sym ","] ++ qb "q" 1 ++ [.sym ";"])).isSome = true := by decide

/-! ## C17_print_parse — the writer's format is read back -/

/- Missing from the theorem below, relative to "decode (encode c) = c for every qubit circuit
   over gates with a spelling": circuits with `CircuitGate` definitions (compared by the run on
   every generated circuit) and the step from characters to tokens (checked by the driver for
   every text it prints); the size-generic gates of `knownUnreadable` do not round-trip at all
   (`C17_gate_table_readable_witness`). -/
/-- **Round trip of the writer's format through the reader** (tokens): header, classical
register declarations (distinct names — the writer emits each once), and lines `name(p…)
q[i],…;` over rows of the table, `barrier q[i],…;`, `reset q[i];`, `measure q[k] -> c[i];`
(`PLine.Reads`: matching arities, distinct qubits inside the `N`-qubit register, classical bit
inside its declared register) are read back as exactly the operations `exp` — same gates, same
locations, parameters = the values of the printed literals (`C17_print_parse_param`),
measurements keyed by the measured qubit. -/
theorem C17_print_parse_partial {V : Type} (A : Arith V) (table : List BuiltinDef) (n : Nat)
    (hn : 0 < n) (cregs : Regs) (hc : (cregs.map Prod.fst).Nodup) (ls : List PLine)
    (exp : List (Op V)) (h : ReadsAll A table n cregs ls exp) :
    decodeToks A table (programToksM n cregs ls) = some ⟨n, cregs, exp⟩ :=
  decodeToks_programToksM A table n hn cregs hc ls exp h

/-- the parameter read back is the value of the printed decimal (sign included) -/
theorem C17_print_parse_param {V : Type} (A : Arith V) (p : PLit) :
    evalQ A (PLit.qe p) =
      (parsePyLit p.text).map fun me =>
        if p.neg then A.neg (A.ofLit me.1 me.2) else A.ofLit me.1 me.2 :=
  evalQ_lit A p

example : ReadsAll intArith tinyTable 2 [("c", 2)]
    [.op ⟨"rz", [⟨true, "2"⟩], [1]⟩, .op ⟨"barrier", [], [1, 0]⟩, .meas 1 "c" 0,
     .op ⟨"reset", [], [1]⟩]
    [.prim "RZGate" [1] [-2], .barrier [1, 0], .measure [1] [(1, "c", 0)], .reset 1] :=
  .cons ⟨.inr (.inr ⟨by decide, by decide, by decide,
      ⟨"rz", 1, 1, "RZGate", 1, 1⟩, [-2], rfl, rfl, rfl, rfl, rfl⟩), by decide⟩
    (.cons ⟨.inl ⟨rfl, rfl, by decide, by decide, rfl⟩, by decide⟩
      (.cons ⟨by decide, ⟨2, rfl, by decide⟩, rfl⟩
        (.cons ⟨.inr (.inl ⟨rfl, rfl, 1, rfl, rfl⟩), by decide⟩ .nil)))

/-! ## C17_gate_table — (B): the live table, regenerated on every run -/

/-- **Every row of `gate_defs` declares the arities of its gate**, so `Operation(gate,
location, params)` accepts what the arity checks of `gate` let through. -/
theorem C17_gate_table_arity : ∀ b ∈ gateDefs, arityOk b = true := by decide

/-- what an arity-correct row means for the reader: the operation is built -/
theorem C17_gate_table_row_sound {V : Type} (A : Arith V) (b : BuiltinDef) (h : arityOk b = true)
    (loc : List Nat) (ps : List V) (hps : ps.length = b.np) (hloc : loc.length = b.nv)
    (hnd : nodup loc = true) (hne : ps ≠ [] ∨ b.gnp = 0) :
    mkPrim A b loc ps = some (.prim b.gid loc ps) := by
  simp only [arityOk, Bool.and_eq_true, beq_iff_eq] at h
  unfold mkPrim
  have h1 : (ps.isEmpty && b.gnp != 0) = false := by
    rcases hne with h' | h'
    · cases ps with
      | nil => exact absurd rfl h'
      | cons a as => simp
    · simp [h']
  simp [h1, hps, hloc, hnd, h.1, h.2]

example : arityOk ⟨"pxz", 3, 1, "PhasedXZGate", 3, 1⟩ = true := by decide

/- Full strength (FALSE of the code): every library gate with a spelling is readable under
   it. -/
/-- Every library gate that is written through the table (no definition emitted) is readable
under the spelling the writer uses — except the size-generic `diag`, `mpry`, `mprz`. -/
theorem C17_gate_table_readable_partial :
    ∀ g ∈ libGates, g.kind = "table" → g.base ∉ knownUnreadable → readable g = true := by
  decide

/-- each known unreadable spelling really is one (so the exception list cannot rot) -/
theorem C17_gate_table_readable_witness :
    ∀ s ∈ knownUnreadable, ∃ g ∈ libGates, g.kind = "table" ∧ g.base = s ∧ readable g = false := by
  decide

/-! ## C17_definition_names — blocks written as `gate` definitions need names that separate them

The writer names the definition of a `CircuitGate` after the block (`circuitgate_<key>`, today the
block's hash) and writes each call under that name; the reader keeps definitions in a dict, so a
later definition of a name replaces an earlier one (`St.customs`, newest first).  For ANY key
function and any list of blocks written: every call reads back as its own block **iff** the key
separates the blocks written.  (Seeded change C17-4 made the hash ignore everything after the
first 99 operations: a legal hash, and exactly a key that does not separate two long blocks.) -/

open BqVerif.QasmNames in
theorem C17_definition_names {β κ : Type} [DecidableEq β] [DecidableEq κ] (key : β → κ) (defs : List β) :
    roundTrips key defs = true ↔ ∀ b ∈ defs, ∀ b' ∈ defs, key b = key b' → b = b' :=
  roundTrips_iff key defs

open BqVerif.QasmNames in
/-- witness: with a key that looks at the first two operations only, a block and its extension
    share a name and the call of the first block reads back as the second -/
theorem C17_definition_names_prefix_key_witness :
    roundTrips (fun (b : List Nat) => b.take 2) [[1, 2, 3], [1, 2, 4]] = false
    ∧ resolve (fun (b : List Nat) => b.take 2) [[1, 2, 3], [1, 2, 4]] [1, 2] = some [1, 2, 4]
    ∧ roundTrips (fun (b : List Nat) => b) [[1, 2, 3], [1, 2, 4]] = true := by decide

end BqVerif.C17
