import BqVerif.Proofs.Worker
import BqVerif.Proofs.Cleanup
import BqVerif.Proofs.WorkersInv
import BqVerif.Proofs.PathOrderNet
import BqVerif.Model.RuntimeWitness
/-!
# C12 — cancelling removes the work everywhere and disturbs nothing else

Worker machine: `Model/Mailbox.lean` (`_handle_cancel`, `_get_next_ready_task`, `Worker.cancel`,
`_process_task_completion`, `_handle_result`); witnesses on `Model/Network.lean`.
-/
namespace BqVerif.Runtime

/-- processing `CANCEL a` records `a` -/
theorem C12_cancel_recorded (w : Worker) (a : Addr) : a ∈ (w.recv (.cancel a)).cancelled := by
  simp only [Worker.recv]
  split
  · exact handleCancel_mem w a
  · exact handleCancel_mem w a

/-- breadcrumbs: a task created by `submit`/`map` descends from everything its creator
    descends from (so any node can decide locally whether a task is cancelled) -/
theorem C12_breadcrumbs (w : Worker) (t : Task) (m slot p k : Nat) (a : Addr) :
    (mkChild w t m slot p k).descOf a = (a == (mkChild w t m slot p k).addr || t.descOf a) := by
  simp only [Task.descOf, mkChild, List.contains_eq_mem, List.mem_append, List.mem_singleton]
  by_cases h1 : a = ⟨w.id, m, slot⟩ <;> by_cases h2 : a = t.addr <;> by_cases h3 : a ∈ t.crumbs <;>
    simp [h1, h2, h3]

/-- **Descendants stop being started.** Once a worker has processed `CANCEL a`, then after any
    further sequence of incoming messages and loop iterations, the task whose body the next
    loop iteration runs (`stepped`) is never `a` or a descendant of `a`: no body of the
    cancelled lineage is started or resumed on this worker again. -/
theorem C12_descendants_never_start (tbl : Table) (w : Worker) (a : Addr) (ops : List WOp)
    (t : Task) (ha : a ∈ w.cancelled)
    (h : (ops.foldl (Worker.applyOp tbl) w).stepped = some t) : t.descOf a = false :=
  stepped_not_cancelled _ t h a ((run_mono tbl w ops).canc a ha)

example : ∃ t, ({ id := 0, tasks := [{ addr := ⟨0, 0, 0⟩, comp := 0, crumbs := [], prog := 0, tag := [] }],
                  ready := [⟨0, 0, 0⟩], cancelled := [⟨7, 7, 7⟩] } : Worker).stepped = some t :=
  ⟨_, rfl⟩

/-- **No result of cancelled work is delivered, awaiting it fails.** Mailbox ids are never
    reused (every id in use is below the counter), so once mailbox `m` has been
    dropped - by `Worker.cancel`, by `_handle_cancel`, or by the completion clean-up -
    then after any sequence of incoming messages and loop iterations: it is still absent,
    a RESULT addressed to it leaves the worker unchanged, and `_process_await` on it raises. -/
theorem C12_no_delivery_after_cancel (tbl : Table) (w : Worker) (m : Nat) (ops : List WOp)
    (hg : Gone w m) :
    let w' := ops.foldl (Worker.applyOp tbl) w
    boxGet w'.boxes m = none
    ∧ (∀ s v, w'.handleResult ⟨w'.id, m, s⟩ v = w')
    ∧ (∀ (r : Run) nxt, r.w = w' → processAwait r m nxt = none) := by
  have hg' := (run_mono tbl w ops).gone m hg
  refine ⟨hg'.2, ?_, ?_⟩
  · intro s v
    simp [Worker.handleResult, hg'.2]
  · intro r nxt hr
    simp [processAwait, hr, hg'.2]

/-- `Worker.cancel(future)` establishes the hypothesis of the previous theorem -/
theorem C12_cancel_drops (r : Run) (m : Nat) (b : Box) (hf : Fresh r.w)
    (hb : boxGet r.w.boxes m = some b) : Gone (r.cancelBox m b).w m :=
  cancelBox_gone r m b hf hb

example : Gone ({ id := 0, counter := 1 } : Worker) 0 := ⟨by decide, rfl⟩

/-- **Clean-up at the moment of the CANCEL** (`_handle_cancel`): right after a worker processed
    `CANCEL a` it holds no started task and no delayed task that is `a` or a descendant of
    `a`, and none of the mailboxes those tasks owned. -/
theorem C12_cleanup_on_cancel (w : Worker) (a : Addr) :
    (∀ t ∈ (w.handleCancel a).tasks, t.descOf a = false)
    ∧ (∀ t ∈ (w.handleCancel a).delayed, t.descOf a = false)
    ∧ (∀ t ∈ w.tasks, t.descOf a = true → ∀ m ∈ t.owned, boxGet (w.handleCancel a).boxes m = none) := by
  refine ⟨?_, ?_, ?_⟩
  · intro t ht
    simp only [Worker.handleCancel, List.mem_filter] at ht
    simpa using ht.2
  · intro t ht
    simp only [Worker.handleCancel, List.mem_filter] at ht
    simpa using ht.2
  · intro t ht hd m hm
    rw [boxGet_none_iff]
    intro hk
    simp only [Worker.handleCancel, keys, eraseBoxes, List.mem_map, List.mem_filter] at hk
    obtain ⟨p, ⟨_, hp⟩, rfl⟩ := hk
    have : p.1 ∈ (List.map (fun t => t.owned) (List.filter (fun t => t.descOf a) w.tasks)).flatten := by
      simp only [List.mem_flatten, List.mem_map, List.mem_filter]
      exact ⟨t.owned, ⟨t, ⟨ht, hd⟩, rfl⟩, hm⟩
    simp [this] at hp

/-- **Clean-up at quiescence, worker level** (holds since dfc4d06).  Start from a worker with
    empty tables and let ANY messages arrive in ANY order, interleaved with loop iterations.
    Whenever the worker is idle (it reported WAITING and its ready queue is empty) it holds no
    delayed task, and every task left in its table either has no cancelled ancestor, or is a
    task that was delivered after the CANCEL of its *own* address.  The second alternative is
    what separates this from the full `C12_cleanup_at_quiescence`: the first `continue` of
    `_get_next_ready_task` (`addr in _cancelled_task_ids`) still does not pop the task, so
    excluding it needs the network fact that SUBMIT and CANCEL of one address travel the same
    FIFO links in this order - a path-ordering invariant of `Net` that is not proved. -/
theorem C12_cleanup_at_quiescence_partial (tbl : Table) (w : Worker) (ops : List WOp)
    (h0 : w.tasks = []) (h1 : w.delayed = [])
    (hb : (ops.foldl (Worker.applyOp tbl) w).blocked = true)
    (hr : (ops.foldl (Worker.applyOp tbl) w).ready = []) :
    (ops.foldl (Worker.applyOp tbl) w).delayed = [] ∧
    ∀ t ∈ (ops.foldl (Worker.applyOp tbl) w).tasks,
      t.addr ∈ (ops.foldl (Worker.applyOp tbl) w).cancelled ∨
      ∀ c ∈ t.crumbs, c ∉ (ops.foldl (Worker.applyOp tbl) w).cancelled := by
  refine cleanup_worker tbl w ops ⟨?_, ?_, fun _ _ => h1⟩ hb hr
  · rw [h0]; exact List.nodup_nil
  · intro t ht
    rw [h0] at ht
    cases ht

/-- **Clean-up at quiescence on the flat network** (all schedules).  In every quiescent state
    reachable by the flat network, every live worker holds no delayed task, and every task left in
    its table has no cancelled ancestor - or is a task delivered after the CANCEL of its own
    address (excluded in the real system only by the path-ordering argument, see the design
    note).  Lifts `C12_cleanup_at_quiescence_partial` through `workers_inv_exec`: the clean-up
    invariant `CInv` needs no assumption on the messages, so it holds for every worker of every
    reachable state. -/
theorem C12_G_cleanup_at_quiescence_partial (tbl : Table) (attached : Bool) (nw nc : Nat) (trs : List Tr)
    (hwf : ∀ t ∈ trs, t.wf) (hq : ((Net.initFlat tbl attached nw nc).exec trs).quiescent = true)
    (w : Worker) (hw : w ∈ ((Net.initFlat tbl attached nw nc).exec trs).workers)
    (hal : w.alive = true) (hmd : w.mainDead = false) :
    w.delayed = [] ∧ ∀ t ∈ w.tasks, t.addr ∈ w.cancelled ∨ ∀ c ∈ t.crumbs, c ∉ w.cancelled := by
  have hc := cinv_exec tbl attached nw nc trs hwf w hw
  simp only [Net.quiescent, Bool.and_eq_true, List.all_eq_true] at hq
  have hidle := hq.2 w hw
  simp only [hal, hmd, Bool.not_true, Bool.false_or, Bool.and_eq_true, List.isEmpty_iff] at hidle
  refine ⟨hc.idle hidle.1 hidle.2, ?_⟩
  intro t ht
  by_cases ha : t.addr ∈ w.cancelled
  · exact Or.inl ha
  · right
    intro c hc1 hc2
    have := hc.pending t ht ha ⟨c, hc1, hc2⟩
    rw [hidle.2] at this; cases this

/-- **SUBMIT before CANCEL: what a worker sends in one loop iteration (L).**  For a worker whose
    mailbox ids are below its counter (`Fresh`, an invariant) and every address `a`: in the list of
    messages one loop iteration emits, no task with address `a` comes after a CANCEL of `a`
    (`Worker.cancel` needs the mailbox, which the `submit` / `map` that sent the task created); a
    CANCEL of `a` is only emitted for a mailbox id of this worker below its new counter; and every
    task emitted was created in this iteration (mailbox id at or above the old counter). -/
theorem C12_L_submit_before_cancel (tbl : Table) (w : Worker) (hf : Fresh w) (a : Addr) :
    okSeq a (w.step tbl).out = true
    ∧ ((w.step tbl).out.any (isCancel a) = true → a.w = w.id ∧ a.m < (w.step tbl).w.counter)
    ∧ (∀ msg ∈ (w.step tbl).out, hasTask a msg = true → a.w = w.id ∧ w.counter ≤ a.m) :=
  ⟨(step_linv a tbl w hf).ok, (step_linv a tbl w hf).can, step_tasks_fresh a tbl w⟩

/-- **First link of the path-ordering argument (G, flat network, all schedules).**  In every
    reachable state, on the channel from any worker to the server no task with address `a` is queued
    behind a CANCEL of `a`, and a CANCEL of `a` queued there is for a mailbox id of that worker below
    its counter: the server sees the SUBMIT of an address before the CANCEL of that address.
    (`_partial`: what is still missing for "no task is delivered after the CANCEL of its own
    address" - and with it the unrestricted `C12_cleanup_at_quiescence` - is the second half: the
    server forwards in order, i.e. the same statement for the channels server → worker together
    with "a task of `a` still on its way to the server ⇒ no CANCEL of `a` has left the server";
    see the design note.) -/
theorem C12_G_worker_link_order_partial (tbl : Table) (attached : Bool) (nw nc : Nat) (trs : List Tr)
    (hwf : ∀ t ∈ trs, t.wf) :
    let n := (Net.initFlat tbl attached nw nc).exec trs
    ∀ w ∈ n.workers, ∀ a : Addr,
      okSeq a (chanGet n.chans (.wrk w.id, .server)) = true
      ∧ ((chanGet n.chans (.wrk w.id, .server)).any (isCancel a) = true → a.w = w.id ∧ a.m < w.counter) := by
  intro n w hw a
  have h := (PInv.init tbl attached nw nc).exec (GInv.init tbl attached nw nc) trs hwf
  exact ⟨(h.link w hw a).ok, (h.link w hw a).can⟩

/-- non-vacuity: after the root of the drift run submitted its child and cancelled it, the channel
    worker 0 → server holds the task and the CANCEL of address (0, 0, 0), in this order -/
example :
    let n := (Net.initFlat driftTable false 1 1).exec (driftRun.take 6)
    (chanGet n.chans (.wrk 0, .server)).any (hasTask ⟨0, 0, 0⟩) = true
    ∧ (chanGet n.chans (.wrk 0, .server)).any (isCancel ⟨0, 0, 0⟩) = true
    ∧ okSeq ⟨0, 0, 0⟩ (chanGet n.chans (.wrk 0, .server)) = true
    ∧ okSeq ⟨0, 0, 0⟩ [Msg.cancel ⟨0, 0, 0⟩, Msg.submit { addr := ⟨0, 0, 0⟩, comp := 0, crumbs := [], prog := 0, tag := [] }] = false := by
  decide +kernel

/-- **Completion-time clean-up** (holds since 6ca9fa1): when a task returns and
    `_process_task_completion` does not raise, every mailbox the task still owned - those it
    never awaited - is dropped, and (ids are never reused) stays dropped. -/
theorem C12_completion_clears_mailboxes (r : Run) (v : Val) (hf : Fresh r.w)
    (hg : (taskGet r.w.tasks r.t.addr).isSome) (h : (processCompletion r v).2 = false) :
    ∀ m ∈ r.t.owned, Gone (processCompletion r v).1.w m :=
  processCompletion_clears r v hf hg h

/-- regression (formerly `C12_leak_witness`, fixed by dfc4d06): the run in which the child's
    SUBMIT_BATCH reaches the worker after the CANCEL of its ancestor now ends with an empty task
    table -/
example :
    let n := (Net.initFlat leakTable false 1 1).exec leakRun
    n.quiescent = true ∧ n.workers.map (fun w => (w.tasks.length, w.delayed.length, w.boxes.length)) = [(0, 0, 0)] := by
  decide +kernel

/-- regression (formerly `C12_orphan_witness`, fixed by 6ca9fa1): a root that returns with two
    open futures cancels both; no mailbox is left -/
example :
    let n := (Net.initFlat orphanTable false 1 1).exec (orphanRun ++ [.deliver (.wrk 0) .server [] [] false,
      .deliver .server (.wrk 0) [] [] false, .step 0, .deliver (.wrk 0) .server [] [] false])
    n.workers.map (fun w => (w.tasks.length, w.boxes.length)) = [(0, 0)] := by
  decide +kernel

end BqVerif.Runtime
