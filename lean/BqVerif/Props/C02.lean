/-
C02 — compile() output is executable on the target machine model.

The workflow trees are REGENERATED from the live `bqskit.compiler.compile.build_workflow` on every
run (`Generated/Workflows.lean`, 18 machine-model classes x 4 optimisation levels x 4 input kinds
x widths / max_synthesis_size / error_threshold); the `*_post*` theorems are `lake build`
obligations over those trees (kernel evaluation of the abstract interpreter, `Proofs/PipelineChk*`).
`C02_Pipe_sound` (all concrete state types, all executions) says what the abstract result means.

Full-strength statement (NOT provable for the code as it is — see the two `_witness` theorems,
each replayed on the real `compile()` by harness/pipeline.py):

    theorem C02_post : ∀ w ∈ workflows, executable w.final = true

What is proved instead: `C02_post_partial` (workflows of all four input kinds outside the two
remaining witnessed defect classes), `C02_post_fixed_classes` (the classes that the /repo fixes
5e098c4 and ded687c repaired are inside that scope and executable) and `C02_structural` (every
workflow, every model class).
-/
import BqVerif.Proofs.Pipeline
import BqVerif.Proofs.PipelineChecks
import BqVerif.Proofs.PipelineMisc

namespace BqVerif.Props.C02
open BqVerif.Pipeline BqVerif.Generated.Workflows

/-- Soundness of the abstract interpreter, for ANY concrete state type `S`, concretisation `γ`
and concrete semantics of leaves / predicates / ForEachBlockPass / wrapper passes that satisfy the
contracts (`Contracts`): every execution of a workflow tree from a state described by `a` ends in
a state described by `ainterp c h p a`.  By rule induction on executions; loops by the stability
test built into `iter`. -/
theorem C02_Pipe_sound {S : Type}
    (leafSem : LeafKind → Opts → S → S → Prop) (predSem : Pred → S → Bool → S → Prop)
    (feSem : Opts → (S → S → Prop) → S → S → Prop)
    (wrapSem : LeafKind → Opts → (S → S → Prop) → S → S → Prop)
    (c : Cfg) (h : Hyps) (γ : AState → S → Prop)
    (C : Contracts leafSem predSem feSem wrapSem c h γ)
    {p : Pass} {s s' : S} (hx : Exec leafSem predSem feSem wrapSem p s s')
    (a : AState) (ha : γ a s) : γ (ainterp c h p a) s' :=
  Pipe_sound_aux leafSem predSem feSem wrapSem c h γ C hx a ha

/-- Non-vacuity of `C02_Pipe_sound`: the contracts are satisfiable with a non-trivial
concretisation (S = AState, `γ a s` = "s is below a", leaves and predicates = anything their
contract allows) and executions exist. -/
example (c : Cfg) (h : Hyps) :
    Contracts (S := AState)
      (fun k o s s' => ∀ a, s.le a → s'.le (post c h k o a))
      (fun pr s b s' => ∀ a, s.le a →
        s'.le (assume c pr b a) ∧ ∀ v, aeval c pr a = some v → v = b)
      (fun _ _ _ _ => False) (fun _ _ _ _ _ => False) c h (fun a s => s.le a) where
  mono := fun _ _ _ hab hs => AState.le_trans hs hab
  top := fun s => AState.le_top s
  leaf := fun _ _ a _ _ ha hl => hl a ha
  pred := fun _ a _ _ _ ha hp => hp a ha
  fe := fun _ _ _ _ _ _ _ _ hf => hf.elim
  wrap := fun _ _ _ _ _ _ _ _ _ hw => hw.elim

example (c : Cfg) (h : Hyps) (s : AState) :
    Exec (S := AState) (fun k o s s' => ∀ a, s.le a → s'.le (post c h k o a))
      (fun pr s b s' => ∀ a, s.le a →
        s'.le (assume c pr b a) ∧ ∀ v, aeval c pr a = some v → v = b)
      (fun _ _ _ _ => False) (fun _ _ _ _ _ => False)
      (.seq (.leaf .noop {}) .skip) s s :=
  .seq (.leaf (fun _ ha => ha)) .skip

/-- Every regenerated workflow — circuit, unitary, state, state system — outside the two
remaining witnessed defect classes (a >= 3-qudit native gate on a sparse graph; unitary / state /
state-system synthesis for a machine wider than the target) ends in an abstract state that is
executable on the model: no foreign gate of any arity, no CircuitGate left,
every multi-qudit gate on coupled qudits, width = the model's width, the target model set and its
connectivity restored.  (Under the default hypotheses `Hyps`: synthesis leaves succeed; gate
deletion for models without single-qudit gates removes them all.) -/
theorem C02_post_partial :
    ∀ w ∈ workflows, w.c02Scope = true → executable w.final = true := by
  intro w hw hs
  have := allCheck_c02 (workflows_ok w hw)
  simpa [c02Check, hs] using this

/-- For EVERY regenerated workflow (all four input kinds, all model classes, also inside the
defect classes): no foreign multi-qudit gate and no CircuitGate is left, the model is set and its
connectivity restored. -/
theorem C02_structural : ∀ w ∈ workflows, structural w.final = true :=
  fun w hw => allCheck_structural (workflows_ok w hw)

/-- The scope is not empty, covers every level and the sparse / wide / non-default models, and
holds several hundred state / state-system workflows. -/
example : (workflows.filter (·.c02Scope)).length ≥ 750 := by decide +kernel
example : (workflows.filter (fun w => w.c02Scope && w.isStateLike)).length ≥ 340 := by
  decide +kernel

/-- The classes repaired in /repo (regression obligations: each was a `_witness` of a defect
before): state preparation and state maps end without a foreign single-qudit gate since the
single-qudit retarget stage follows the synthesis (fix 5e098c4; before it the layer generator's
RX/RY/RZ stayed in the output); a one-qudit circuit at level 4 on a wider machine is placed on
the machine (fix ded687c: `ApplyPlacement` in the else-branch of the SeqPAM stage). -/
theorem C02_post_fixed_classes :
    witStatePrep.c02Scope = true ∧ executable witStatePrep.final = true
      ∧ witSystem.c02Scope = true ∧ executable witSystem.final = true
      ∧ witStateL2.c02Scope = true ∧ executable witStateL2.final = true
      ∧ witL4W1Wide.c02Scope = true ∧ executable witL4W1Wide.final = true := by decide +kernel

/-- Defect class 1: a >= 3-qudit native gate on a sparse graph — the retargeting body run AFTER
mapping synthesises with hidden connectivity. -/
theorem C02_manyqudit_sparse_witness :
    witManySparse.final.uncoupled = true ∧ witManySparse.manyOnSparse = true := by decide +kernel

/-- Defect class 2: no ApplyPlacement on the path of unitary / state / state-system synthesis —
the output keeps the target's width on a wider machine (everything else is in order: the
narrow variant of the postcondition holds). -/
theorem C02_unplaced_witness :
    witUnitaryWide.final.narrow = true ∧ executableNarrow witUnitaryWide.final = true
      ∧ witStateWide.final.narrow = true ∧ executableNarrow witStateWide.final = true := by
  decide +kernel

/-- The hypothesis `delOK` is really used: without it the no-single-qudit-gate model class is not
executable (the workflow only "attempts to remove single-qudit gates"). -/
theorem C02_nosq_needs_delOK :
    executable (witNoSQ.final {}) = true
      ∧ executable (witNoSQ.final { delOK := false }) = false := by decide +kernel

/-- `MachineModel.is_compatible` (transcribed clause by clause as it is after the /repo fix
26675ef: short-circuit order, the sequential consumption of the two generator expressions and the
IndexErrors of `placement[q]` / `self.radixes[placement[i]]` included) equals the three-clause
specification, placeholders aside: not wider than the machine; the gate of every operation that is
not a barrier / measurement / reset placeholder is native; EVERY pair of qudits of every such
operation is coupled in the machine through the placement (either orientation); radixes equal —
whenever the placement can be indexed. -/
theorem C02_is_compatible_spec (m : MachView) (cv : CircView) (placement : Option (List Nat))
    (hp : placementOK m cv placement = true) :
    isCompatible m cv placement = some (compatSpec m cv placement) :=
  isCompatible_spec m cv placement hp

/-- Non-vacuity: a 3-qubit circuit on a 3-qubit line, default placement: a native gate on (1,0)
(the orientation the machine does not list), a barrier over all three qudits (spanning the
uncoupled pair (0,2)) and a measurement are ignored; the same three-qudit location under a
native three-qudit gate is rejected because (0,2) is not an edge. -/
example :
    placementOK ⟨[2, 2, 2], [1, 2], [(0, 1), (1, 2)]⟩
        ⟨[2, 2, 2], [⟨1, false, [1, 0]⟩, ⟨7, true, [0, 1, 2]⟩, ⟨8, true, [2]⟩]⟩ none = true
    ∧ isCompatible ⟨[2, 2, 2], [1, 2], [(0, 1), (1, 2)]⟩
        ⟨[2, 2, 2], [⟨1, false, [1, 0]⟩, ⟨7, true, [0, 1, 2]⟩, ⟨8, true, [2]⟩]⟩ none = some true
    ∧ isCompatible ⟨[2, 2, 2], [1, 2], [(0, 1), (1, 2)]⟩
        ⟨[2, 2, 2], [⟨2, false, [0, 1, 2]⟩]⟩ none = some false := by decide

/-- The same statement in words of the property: `is_compatible` answers True exactly when the
circuit is not wider than the machine, every non-placeholder gate is native, the qudits of every
non-placeholder operation are PAIRWISE coupled through the placement, and every qudit has the
radix of the machine qudit it is placed on. -/
theorem C02_is_compatible_iff (m : MachView) (cv : CircView) (placement : Option (List Nat))
    (hp : placementOK m cv placement = true) :
    isCompatible m cv placement = some true ↔
      cv.radixes.length ≤ m.radixes.length
      ∧ (∀ o ∈ cv.ops, o.ph = false → m.gates.contains o.gate = true)
      ∧ (∀ o ∈ cv.ops, o.ph = false → o.loc.Pairwise (fun a b =>
          coupled m ((placement.getD (List.range cv.radixes.length)).getD a 0,
            (placement.getD (List.range cv.radixes.length)).getD b 0) = true))
      ∧ (∀ x ∈ cv.radixes.zipIdx,
          x.1 = m.radixes.getD ((placement.getD (List.range cv.radixes.length)).getD x.2 0) 0) := by
  rw [C02_is_compatible_spec m cv placement hp]
  simp only [Option.some.injEq, compatSpec, Bool.and_eq_true, decide_eq_true_eq,
    List.all_eq_true, Bool.or_eq_true, beq_iff_eq]
  constructor
  · rintro ⟨⟨⟨h1, h2⟩, h3⟩, h4⟩
    refine ⟨h1, fun o ho hph => ?_, fun o ho hph => ?_, h4⟩
    · rcases h2 o ho with h | h
      · rw [hph] at h; cases h
      · exact h
    · rcases h3 o ho with h | h
      · rw [hph] at h; cases h
      · exact (pairsOf_all _ o.loc).mp (List.all_eq_true.mpr h)
  · rintro ⟨h1, h2, h3, h4⟩
    refine ⟨⟨⟨h1, fun o ho => ?_⟩, fun o ho => ?_⟩, h4⟩
    · cases hph : o.ph
      · exact Or.inr (h2 o ho hph)
      · exact Or.inl rfl
    · cases hph : o.ph
      · exact Or.inr (List.all_eq_true.mp ((pairsOf_all _ o.loc).mpr (h3 o ho hph)))
      · exact Or.inl rfl

/-- Placeholders aside, literally: deleting every barrier / measurement / reset operation from
the circuit changes neither the verdict of `is_compatible` nor whether it raises (no hypothesis on
the placement).  Before the /repo fix 26675ef every output holding a placeholder was rejected. -/
theorem C02_is_compatible_ignores_placeholders (m : MachView) (cv : CircView)
    (placement : Option (List Nat)) :
    isCompatible m cv placement
      = isCompatible m { cv with ops := cv.ops.filter (fun o => !o.ph) } placement :=
  isCompatible_strip m cv placement

/-- A circuit narrower than the machine is accepted: `is_compatible` does not check "has the
model's width". -/
theorem C02_is_compatible_accepts_narrow :
    isCompatible ⟨[2, 2, 2], [1], [(0, 1)]⟩ ⟨[2], [⟨1, false, [0]⟩]⟩ none = some true := by decide

end BqVerif.Props.C02
