/-
C02 — compile() output is executable on the target machine model.

The workflow trees are REGENERATED from the live `bqskit.compiler.compile.build_workflow` on every
run (`Generated/Workflows.lean`, 18 machine-model classes x 4 optimisation levels x 4 input kinds
x widths / max_synthesis_size / error_threshold); the `*_post*` theorems are `lake build`
obligations over those trees (kernel evaluation of the abstract interpreter, `Proofs/PipelineChk*`).
`C02_Pipe_sound` (all concrete state types, all executions) says what the abstract result means.

Full-strength statement (NOT provable for the code as it is — see the `_witness` theorems, each
replayed on the real `compile()` by harness/pipeline.py):

    theorem C02_post : ∀ w ∈ workflows, executable w.final = true

What is proved instead: `C02_post_partial` (circuit and unitary workflows outside the three
witnessed defect classes) and `C02_structural` (every workflow, every model class).
-/
import BqVerif.Proofs.Pipeline
import BqVerif.Proofs.PipelineChecks
import BqVerif.Proofs.PipelineMisc

namespace BqVerif.Props.C02
open BqVerif.Pipeline BqVerif.Generated.Workflows

/-- Soundness of the abstract interpreter, for ANY concrete state type `S`, concretisation `γ`
and concrete semantics of leaves / predicates / ForEachBlockPass / wrapper passes that satisfy the
contracts (`Contracts`): every execution of a workflow tree from a state described by `a` ends in
a state described by `ainterp c h p a`.  By rule induction on executions; loops by the stability
test built into `iter`. -/
theorem C02_Pipe_sound {S : Type}
    (leafSem : LeafKind → Opts → S → S → Prop) (predSem : Pred → S → Bool → S → Prop)
    (feSem : Opts → (S → S → Prop) → S → S → Prop)
    (wrapSem : LeafKind → Opts → (S → S → Prop) → S → S → Prop)
    (c : Cfg) (h : Hyps) (γ : AState → S → Prop)
    (C : Contracts leafSem predSem feSem wrapSem c h γ)
    {p : Pass} {s s' : S} (hx : Exec leafSem predSem feSem wrapSem p s s')
    (a : AState) (ha : γ a s) : γ (ainterp c h p a) s' :=
  Pipe_sound_aux leafSem predSem feSem wrapSem c h γ C hx a ha

/-- Non-vacuity of `C02_Pipe_sound`: the contracts are satisfiable with a non-trivial
concretisation (S = AState, `γ a s` = "s is below a", leaves and predicates = anything their
contract allows) and executions exist. -/
example (c : Cfg) (h : Hyps) :
    Contracts (S := AState)
      (fun k o s s' => ∀ a, s.le a → s'.le (post c h k o a))
      (fun pr s b s' => ∀ a, s.le a →
        s'.le (assume c pr b a) ∧ ∀ v, aeval c pr a = some v → v = b)
      (fun _ _ _ _ => False) (fun _ _ _ _ _ => False) c h (fun a s => s.le a) where
  mono := fun _ _ _ hab hs => AState.le_trans hs hab
  top := fun s => AState.le_top s
  leaf := fun _ _ a _ _ ha hl => hl a ha
  pred := fun _ a _ _ _ ha hp => hp a ha
  fe := fun _ _ _ _ _ _ _ _ hf => hf.elim
  wrap := fun _ _ _ _ _ _ _ _ _ hw => hw.elim

example (c : Cfg) (h : Hyps) (s : AState) :
    Exec (S := AState) (fun k o s s' => ∀ a, s.le a → s'.le (post c h k o a))
      (fun pr s b s' => ∀ a, s.le a →
        s'.le (assume c pr b a) ∧ ∀ v, aeval c pr a = some v → v = b)
      (fun _ _ _ _ => False) (fun _ _ _ _ _ => False)
      (.seq (.leaf .noop {}) .skip) s s :=
  .seq (.leaf (fun _ ha => ha)) .skip

/-- Every regenerated circuit / unitary workflow outside the witnessed defect classes ends in an
abstract state that is executable on the model: no foreign gate of any arity, no CircuitGate left,
every multi-qudit gate on coupled qudits, width = the model's width, the target model set and its
connectivity restored.  (Under the default hypotheses `Hyps`: synthesis leaves succeed; gate
deletion for models without single-qudit gates removes them all.) -/
theorem C02_post_partial :
    ∀ w ∈ workflows, w.c02Scope = true → executable w.final = true := by
  intro w hw hs
  have := allCheck_c02 (workflows_ok w hw)
  simpa [c02Check, hs] using this

/-- For EVERY regenerated workflow (all four input kinds, all model classes, also inside the
defect classes): no foreign multi-qudit gate and no CircuitGate is left, the model is set and its
connectivity restored. -/
theorem C02_structural : ∀ w ∈ workflows, structural w.final = true :=
  fun w hw => allCheck_structural (workflows_ok w hw)

/-- The scope is not empty and covers every level and the sparse / wide / non-default models. -/
example : (workflows.filter (·.c02Scope)).length ≥ 400 := by decide +kernel

/-- Defect class 1 (state preparation / state maps): the synthesis leaf's layer generator writes
general single-qudit rotations and no single-qudit retarget stage follows: the abstract result of
the regenerated tree has a foreign single-qudit gate. -/
theorem C02_stateprep_witness :
    executable witStatePrep.final = false ∧ witStatePrep.final.fSQ = true
      ∧ executable witSystem.final = false ∧ witSystem.final.fSQ = true := by decide +kernel

/-- Defect class 2: a >= 3-qudit native gate on a sparse graph — the retargeting body run AFTER
mapping synthesises with hidden connectivity. -/
theorem C02_manyqudit_sparse_witness :
    witManySparse.final.uncoupled = true ∧ witManySparse.manyOnSparse = true := by decide +kernel

/-- Defect class 3: no ApplyPlacement on the path (unitary synthesis; one-qudit circuit at
level 4) — the output keeps the input's width on a wider machine. -/
theorem C02_unplaced_witness :
    witUnitaryWide.final.narrow = true ∧ witL4W1Wide.final.narrow = true := by decide +kernel

/-- The hypothesis `delOK` is really used: without it the no-single-qudit-gate model class is not
executable (the workflow only "attempts to remove single-qudit gates"). -/
theorem C02_nosq_needs_delOK :
    executable (witNoSQ.final {}) = true
      ∧ executable (witNoSQ.final { delOK := false }) = false := by decide +kernel

/-- `MachineModel.is_compatible` (transcribed clause by clause, short-circuit order and the
indexing failures included) equals the specification: not wider than the machine, every gate
native, every coupled pair of the circuit coupled in the machine through the placement (either
orientation), radixes equal — whenever the placement can be indexed. -/
theorem C02_is_compatible_spec (m : MachView) (cv : CircView) (placement : Option (List Nat))
    (hp : placementOK m cv placement = true) :
    isCompatible m cv placement = some (compatSpec m cv placement) :=
  isCompatible_spec m cv placement hp

/-- Non-vacuity: a 2-qubit circuit on a 3-qubit line, default placement; one coupled pair given in
the orientation the machine does not list. -/
example : placementOK ⟨[2, 2, 2], [1, 2], [(0, 1), (1, 2)]⟩ ⟨[2, 2], [1], [(1, 0)]⟩ none = true
    ∧ isCompatible ⟨[2, 2, 2], [1, 2], [(0, 1), (1, 2)]⟩ ⟨[2, 2], [1], [(1, 0)]⟩ none = some true
    ∧ isCompatible ⟨[2, 2, 2], [1, 2], [(0, 1), (1, 2)]⟩ ⟨[2, 2, 2], [1], [(0, 2)]⟩ none
        = some false := by decide

/-- A circuit narrower than the machine is accepted: `is_compatible` does not check "has the
model's width". -/
theorem C02_is_compatible_accepts_narrow :
    isCompatible ⟨[2, 2, 2], [1], [(0, 1)]⟩ ⟨[2], [1], []⟩ none = some true := by decide

end BqVerif.Props.C02
