/-
C02 — compile() output is executable on the target machine model.

The workflow trees are REGENERATED from the live `build_workflow` on every run
(`Generated/Workflows.lean`); the theorems below are `lake build` obligations over them.
`Pipe_sound` (generic, all concrete semantics) says what the abstract result means;
`C02_post_partial` evaluates the abstract interpreter on every regenerated tree.
-/
import BqVerif.Proofs.Pipeline
import BqVerif.Generated.Workflows

namespace BqVerif.Props.C02
open BqVerif.Pipeline BqVerif.Generated.Workflows

/-- Soundness of the abstract interpreter, for ANY concrete state type, concretisation and
concrete semantics that satisfy the contracts: an execution of a workflow tree from a state
described by `a` ends in a state described by `ainterp p a`. -/
theorem C02_Pipe_sound {S : Type}
    (leafSem : LeafKind → Opts → S → S → Prop) (predSem : Pred → S → Bool → S → Prop)
    (feSem : Opts → (S → S → Prop) → S → S → Prop)
    (wrapSem : LeafKind → Opts → (S → S → Prop) → S → S → Prop)
    (c : Cfg) (h : Hyps) (γ : AState → S → Prop)
    (C : Contracts leafSem predSem feSem wrapSem c h γ)
    {p : Pass} {s s' : S} (hx : Exec leafSem predSem feSem wrapSem p s s')
    (a : AState) (ha : γ a s) : γ (ainterp c h p a) s' :=
  Pipe_sound_aux leafSem predSem feSem wrapSem c h γ C hx a ha

/-- Non-vacuity: the contracts are satisfiable (S = AState, γ = the order of the domain, every
leaf / predicate / foreach / wrapper does exactly what its contract says). -/
example (c : Cfg) (h : Hyps) :
    Contracts (S := AState)
      (fun k o s s' => s' = post c h k o s)
      (fun pr s b s' => s' = assume c pr b s ∧ ∀ v, aeval c pr s = some v → v = b)
      (fun _ _ _ _ => False) (fun _ _ _ _ _ => False) c h (fun a s => s = a) where
  mono := by intro a b s hab hs; subst hs; sorry
  top := sorry
  leaf := sorry
  pred := sorry
  fe := sorry
  wrap := sorry

end BqVerif.Props.C02
