import BqVerif.Proofs.CrashAll
/-
C14 - a crashed worker or manager unblocks every waiting client with an error.

Model: `BqVerif/Model/Crash.lean` (nodes, FIFO channels, EOF semantics, the reaction
handlers of base.py / manager.py / detached.py / attached.py / worker.py / compiler.py).
All theorems quantify over ARBITRARY reachable states, topologies (`Topo.WF`) and schedules
(lists of labels chosen by an adversary: deliveries, worker activity, client calls, further
crashes), by induction over the transition function.

`Reach t s`: `s` is reachable from the initial state by any list of transitions.

(Until `fix:` 856c0e9 a manager that lost its boss only unregistered the connection and kept
running with its workers; the model had that behaviour and the kernel-checked witness
`C14_orphan_submanager_witness`.  Now `Manager.handle_disconnect` shuts the manager down and
`C14_runtime_stops` proves the full statement: EVERY node stops.)

(Until `fix:` 9e98cc2 the outgoing thread reacted to a failed send by running
`handle_disconnect` itself; `handle_shutdown` then died in `self.outgoing_thread.join()` and
clients were never closed.  The model had that transition and a kernel-checked hang witness;
with the fix a failed send only drops the item (`Label.flushDrop`) and the theorems hold
without any side condition.)

Fairness is made explicit instead of assumed: a *critical delivery* (`isCrit`) is a live boss
reading the connection of a gone employee on the path from the crashed node to the server.
`C14_shutdown_propagates` (a): while the server runs, a critical delivery is enabled (and
nothing but taking it disables it); `C14_bounded`: along ANY schedule the number of critical
deliveries taken is at most `B(s) + growth`, `B(s) = potential t s d` = pending channel
lengths on the path + 3 per level, `growth` = messages the schedule lets live path managers
still push towards the server.  So a schedule can postpone the shutdown only by not
delivering; once `B(s) + growth` critical deliveries happened the server is down
(`C14_shutdown_propagates` (b)).
-/
namespace BqVerif.Crash

/-- reachable from the initial state -/
def Reach (t : Topo) (s : State) : Prop := ∃ ls : List Label, run t init ls = some s

theorem Reach.inv {t : Topo} (wf : t.WF) {s : State} (h : Reach t s) : Inv t s := by
  obtain ⟨ls, hr⟩ := h
  exact run_inv wf ls init s (inv_init t) hr

/-- what "the runtime reacted" means at node `p` (server: `p = 0`) -/
def ShutDone (t : Topo) (s : State) (p : Nat) : Prop :=
  s.running p = false ∧ (p = 0 → ∀ c, s.copen c = false) ∧
  (∀ e, t.isChild p e = true → s.sentShutdown e = true ∨ s.gone e = true) ∧
  (p ≠ 0 → s.upOpen p = false)

/-- **the step bound.**  Along any schedule `ls` from a reachable state, the critical
deliveries `c` taken and the potential left satisfy `potential(final) + c ≤ B(s) + growth`. -/
theorem C14_bounded {t : Topo} (wf : t.WF) {s sf : State} (hs : Reach t s) (d : Nat)
    (ls : List Label) {c g : Nat}
    (h : runCount t d s ls = some (sf, c, g)) :
    potential t sf d + c ≤ potential t s d + g :=
  (runCount_bound wf d ls s sf c g (hs.inv wf) h).1

/-- the bound is explicit: pending upstream messages on the path plus 3 per level -/
theorem C14_bound_explicit (t : Topo) (s : State) (d : Nat) :
    potential t s d ≤ sumMap (fun i => (s.outbox i).length + 3) (path t d) := by
  unfold potential
  apply sumMap_le0
  intro i
  unfold weight b2n
  split <;> split <;> omega

/-- **shutdown propagates.**  `d` a crashed (or otherwise gone) worker or manager.
(a) as long as the server still runs, a critical delivery is enabled;
(b) after `B(s) + growth` critical deliveries - whatever else the schedule did - the server
has `running = False`, every client connection is closed, every employee of the server was
sent SHUTDOWN (or is gone itself);
(c) every node that stopped, at any time, satisfies `ShutDone`. -/
theorem C14_shutdown_propagates {t : Topo} (wf : t.WF) {s sf : State} (hs : Reach t s) {d : Nat}
    (hd0 : d ≠ 0) (hdn : d < t.n) (hg : s.gone d = true)
    (ls : List Label) {c g : Nat}
    (h : runCount t d s ls = some (sf, c, g)) :
    (sf.gone 0 = false → ∃ p e s', step t sf (.recvEmp p e [] false) = some s' ∧
        isCrit t sf d (.recvEmp p e [] false) = true) ∧
    (potential t s d + g ≤ c → ShutDone t sf 0) ∧
    (∀ p, sf.running p = false → ShutDone t sf p) := by
  obtain ⟨hb, hi, hgone⟩ := runCount_bound wf d ls s sf c g (hs.inv wf) h
  have hprog : sf.gone 0 = false → ∃ p e s', step t sf (.recvEmp p e [] false) = some s' ∧
      isCrit t sf d (.recvEmp p e [] false) = true :=
    fun h0 => progress wf hi hd0 hdn (hgone d hg) h0
  have hdone : ∀ p, sf.running p = false → ShutDone t sf p := by
    intro p hr
    obtain ⟨h1, h2, h3⟩ := down_facts hi hr
    exact ⟨hr, h1, h2, h3⟩
  refine ⟨hprog, fun hmax => ?_, hdone⟩
  apply hdone
  cases hr : sf.running 0 with
  | false => rfl
  | true =>
    exfalso
    have h0 : sf.gone 0 = false := by
      have := hi.srv
      simp only [State.view] at this
      simp [State.gone, this, hr]
    obtain ⟨p, e, s', hst, hcr⟩ := hprog h0
    have := potential_step d hst
    rw [hcr] at this
    simp only [b2n, if_true, growth] at this
    omega

/-- **no RESULT after the shutdown**: once the server has `running = False` (in particular
once it processed the EOF), no transition of any kind appends anything to a server -> client channel. -/
theorem C14_no_result_after_shutdown {t : Topo} {s sf : State} (hr : s.running 0 = false)
    (ls : List Label) (h : run t s ls = some sf) :
    sf.running 0 = false ∧ ∀ c, ∃ consumed, s.toClient c = consumed ++ sf.toClient c :=
  no_result_after_run ls s sf hr h

/-- **the client raises.**  After the server stopped: a client blocked in
`result/status/cancel` is woken by the EOF and its call raises RuntimeError; a client that
later enters `submit/result/status/cancel` raises without sending anything. -/
theorem C14_client_raises {t : Topo} (wf : t.WF) {s : State} (hs : Reach t s)
    (hr : s.running 0 = false) (c : Nat) :
    (s.cwait c = true → ∃ s', step t s (.cwake c) = some s' ∧ s'.cwait c = false ∧
        s'.cconn c = false ∧ s'.clog = s.clog ++ [.raised c]) ∧
    (s.cwait c = false → ∀ r, okReq r = true → ∃ s', step t s (.ccall c r) = some s' ∧
        s'.cwait c = false ∧ s'.clog = s.clog ++ [.raised c] ∧ s'.toServer = s.toServer) := by
  have hc : s.copen c = false := (hs.inv wf).clients hr c
  exact ⟨fun hw => blocked_client_raises hw hc, fun hw r hok => entering_client_raises hw hok hc⟩

/-- end to end: a node is gone, the schedule took `B + growth` critical deliveries: now every
blocked client's `recv` is enabled and its call raises, every client that calls later raises. -/
theorem C14_clients_unblocked {t : Topo} (wf : t.WF) {s sf : State} (hs : Reach t s) {d : Nat}
    (hd0 : d ≠ 0) (hdn : d < t.n) (hg : s.gone d = true) (ls : List Label) {c g : Nat}
    (h : runCount t d s ls = some (sf, c, g)) (hmax : potential t s d + g ≤ c) (cl : Nat) :
    (sf.cwait cl = true → ∃ s', step t sf (.cwake cl) = some s' ∧ s'.cwait cl = false ∧
        s'.clog = sf.clog ++ [.raised cl]) ∧
    (sf.cwait cl = false → ∀ r, okReq r = true → ∃ s', step t sf (.ccall cl r) = some s' ∧
        s'.clog = sf.clog ++ [.raised cl]) := by
  have hdone := (C14_shutdown_propagates wf hs hd0 hdn hg ls h).2.1 hmax
  have hreach : Reach t sf := by
    obtain ⟨l0, h0⟩ := hs
    have hrun : run t s ls = some sf := by
      have : ∀ (ls : List Label) (a : State) (r : State × Nat × Nat),
          runCount t d a ls = some r → run t a ls = some r.1 := by
        intro ls
        induction ls with
        | nil => intro a r hr; simp only [runCount, Option.some.injEq] at hr; subst hr; rfl
        | cons x xs ih =>
          intro a r hr
          simp only [runCount] at hr
          simp only [run]
          cases hx : step t a x with
          | none => simp [hx] at hr
          | some a1 =>
            simp only [hx] at hr ⊢
            cases hy : runCount t d a1 xs with
            | none => simp [hy] at hr
            | some r1 =>
              simp only [hy, Option.some.injEq] at hr
              subst hr
              exact ih a1 r1 hy
      exact this ls s _ h
    exact ⟨l0 ++ ls, by rw [run_append l0 ls init s h0]; exact hrun⟩
  obtain ⟨h1, h2⟩ := C14_client_raises wf hreach hdone.1 cl
  refine ⟨fun hw => ?_, fun hw r hr => ?_⟩
  · obtain ⟨s', a, b, _, e⟩ := h1 hw
    exact ⟨s', a, b, e⟩
  · obtain ⟨s', a, _, e, _⟩ := h2 hw r hr
    exact ⟨s', a, e⟩

/-- **SHUTDOWN reaches the employees** (one hop of "the rest of the runtime shuts down"; the
whole statement with its bound is `C14_runtime_stops`).
Whenever a node `p` has stopped (it ran `handle_shutdown`) and its employee `e` is still alive
and running, a SHUTDOWN is pending in `e`'s channel from `p`, and `e`'s reader of that channel
(`Worker.recv_incoming` / the manager's run loop on `upstream`) is enabled; reading SHUTDOWN
stops `e` (by the model's `wrecv` / `recvUp`), which then holds for `e`'s own employees. -/
theorem C14_shutdown_reaches_employees {t : Topo} (wf : t.WF) {s : State} (hs : Reach t s) {p e : Nat}
    (hc : t.isChild p e = true) (hr : s.running p = false) (he : s.gone e = false) :
    Msg.shutdown ∈ s.inbox e ∧
    (t.kind e = .worker → ∃ s', step t s (.wrecv e) = some s') ∧
    (t.kind e ≠ .worker → ∃ s', step t s (.recvUp e [] false) = some s') := by
  have hi := hs.inv wf
  obtain ⟨ls, hrun⟩ := hs
  have hj := run_jinv wf ls init s (jinv_init t) (inv_init t) hrun
  have hsent : s.sentShutdown e = true := by
    rcases hi.sent p e hc hr with x | x
    · exact x
    · have : s.gone e = true := x
      rw [he] at this; cases this
  obtain ⟨he0, hen, _⟩ := isChild_iff.mp hc
  rcases hj e hsent with x | ⟨x, y⟩
  · have : s.gone e = true := x
    rw [he] at this; cases this
  · exact ⟨x, reader_enabled hen he0 he x y⟩

/-- the downward bound is explicit: pending messages from the boss plus 2 per live node -/
theorem C14_down_bound_explicit (t : Topo) (s : State) :
    dpotential t s ≤ sumMap (fun i => (s.inbox i).length + 2) (List.range t.n) := by
  unfold dpotential
  exact sumMap_le0 _ (fun i => dweight_le t s i)

/-- **the whole runtime stops** (both directions, with the bound).  `d` a crashed (or otherwise
gone) worker or manager.  Critical deliveries are now of two kinds: *upwards* (`isCrit`: a live
boss reads the connection of a gone employee on the path from `d` to the server) and *downwards*
(`isDownCrit`: a live node reads the connection of its gone boss - it finds the pending
messages, then SHUTDOWN or EOF, and stops: workers since ever, managers since `fix:` 856c0e9).
Total potential `T(s) = potential t s d + dpotential t s` (pending messages on the path + 3 per
level, plus for every live node the messages pending from its boss + 2).  Along ANY schedule:
(a) `T(final) + #critical ≤ T(s) + growth` (growth = ordinary traffic live nodes still push along
    those channels);
(b) as long as any node of the runtime - server, manager or worker, in the subtree of the crashed
    node or anywhere else - is still alive and running, a critical delivery is enabled;
(c) when the potential is used up (`T(final) = 0`; in particular once `T(s) + growth` critical
    deliveries happened) EVERY node is gone: the server stopped and closed all clients
    (`ShutDone`), every manager stopped, every worker killed itself.
So the number of critical deliveries any schedule can take is bounded by (a), and by (b) a
schedule that has not finished the shutdown always has one more to take.  (`T = 0` is sufficient,
not necessary: a SHUTDOWN written to a boss that is already gone stays in the pipe forever.) -/
theorem C14_runtime_stops {t : Topo} (wf : t.WF) {s sf : State} (hs : Reach t s) {d : Nat}
    (hd0 : d ≠ 0) (hdn : d < t.n) (hg : s.gone d = true) (ls : List Label) {c g : Nat}
    (h : runCountAll t d s ls = some (sf, c, g)) :
    potential t sf d + dpotential t sf + c ≤ potential t s d + dpotential t s + g ∧
    (∀ n, n < t.n → sf.gone n = false → ∃ l s', step t sf l = some s' ∧
        (isCrit t sf d l || isDownCrit t sf l) = true) ∧
    (potential t sf d + dpotential t sf = 0 →
        (∀ n, n < t.n → sf.gone n = true) ∧ ShutDone t sf 0) ∧
    (potential t s d + dpotential t s + g ≤ c → potential t sf d + dpotential t sf = 0) := by
  obtain ⟨hb, hi, hgone, _⟩ := runCountAll_bound wf d ls s sf c g (hs.inv wf) h
  have hprog : ∀ n, n < t.n → sf.gone n = false → ∃ l s', step t sf l = some s' ∧
      (isCrit t sf d l || isDownCrit t sf l) = true := by
    intro n hn hgn
    cases h0 : sf.gone 0 with
    | false =>
      obtain ⟨p, e, s', hst, hcr⟩ := progress wf hi hd0 hdn (hgone d hg) h0
      exact ⟨_, s', hst, by simp [hcr]⟩
    | true =>
      have hn0 : n ≠ 0 := by intro x; subst x; rw [h0] at hgn; cases hgn
      obtain ⟨l, s', hst, hcr⟩ := progress_down wf hi h0 hn hn0 hgn
      exact ⟨l, s', hst, by simp [hcr]⟩
  refine ⟨hb, hprog, fun hz => ?_, fun hmax => by omega⟩
  have hall : ∀ n, n < t.n → sf.gone n = true := by
    intro n hn
    cases hgn : sf.gone n with
    | true => rfl
    | false =>
      exfalso
      obtain ⟨l, s', hst, hcr⟩ := hprog n hn hgn
      have h1 := potential_step d hst
      have h2 := dpotential_step wf hi hst
      simp only [Bool.or_eq_true] at hcr
      rcases hcr with x | x
      · rw [x] at h1
        have hgr : growth t sf d l = 0 := by
          cases l <;> simp [isCrit] at x <;> rfl
        simp only [b2n, if_true] at h1
        omega
      · rw [x] at h2
        have hgr : downGrowth t sf l = 0 := by
          cases l <;> simp [isDownCrit] at x <;> rfl
        simp only [b2n, if_true] at h2
        omega
  refine ⟨hall, ?_⟩
  have h0 := hall 0 (by omega)
  have hsrv := hi.srv
  simp only [State.view] at hsrv
  have hr : sf.running 0 = false := by
    unfold State.gone at h0
    simp only [hsrv, Bool.not_true, Bool.false_or, Bool.not_eq_true'] at h0
    exact h0
  obtain ⟨h1, h2, h3⟩ := down_facts hi hr
  exact ⟨hr, h1, h2, h3⟩

/-- **a second crash changes nothing**: it keeps the invariant, does not raise the bound of
the reaction to the first crash, and touches nothing a client or the server's tables can
see; in particular a finished reaction stays finished. -/
theorem C14_second_crash {t : Topo} {s s' : State} (hs : Reach t s) {n : Nat} {tr : Bool}
    (h : step t s (.crash n tr) = some s') (d : Nat) :
    Reach t s' ∧ potential t s' d ≤ potential t s d ∧
    s'.running = s.running ∧ s'.copen = s.copen ∧ s'.toClient = s.toClient ∧ s'.cwait = s.cwait ∧
    s'.clog = s.clog ∧ s'.boxes = s.boxes ∧ s'.sentShutdown = s.sentShutdown ∧
    (∀ p, ShutDone t s p → ShutDone t s' p) := by
  have hf := crash_frame (t := t) (s := s) (s' := s') (n := n) (tr := tr) h
  obtain ⟨h1, h2, h3, h4, h5, _, h7, h8, _, h10, h11⟩ := hf
  have hreach : Reach t s' := by
    obtain ⟨ls, hrun⟩ := hs
    refine ⟨ls ++ [.crash n tr], ?_⟩
    rw [run_append ls [.crash n tr] init s hrun]
    simp only [run]
    rw [h]
  have hpot : potential t s' d ≤ potential t s d := by
    have := potential_step d h
    simp only [isCrit, growth, b2n] at this
    simpa using this
  refine ⟨hreach, hpot, h1, h2, h3, h4, h5, h7, h8, fun p hp => ?_⟩
  obtain ⟨a, b, c, e⟩ := hp
  refine ⟨by rw [h1]; exact a, fun hp0 c' => by rw [h2]; exact b hp0 c', fun e' hc => ?_, fun hp0 => by rw [h10]; exact e hp0⟩
  rcases c e' hc with x | x
  · left; rw [h8]; exact x
  · right
    exact (step_wle h).gone e' x

/-- **only complete results.**  `completed` records `(m, v)` exactly when a worker finishes the
ROOT task of mailbox `m` with output `v` (`Label.wsend w (result m v)`: the one transition that
creates a client-bound RESULT; a frame cut by a crash is the distinct message `broken`, on which
every receiver raises).  In every reachable state - before, during and after any crashes -
whatever `Compiler.result()` returned to client `c`, every RESULT in flight to `c`, and every
result stored in a server mailbox is such a recorded complete output, of a mailbox that `c`'s
own `submit` created. -/
theorem C14_only_complete_results {t : Topo} {s : State} (hs : Reach t s) :
    (∀ c m v, CEv.returned c (.result m v) ∈ s.clog →
        (m, v) ∈ s.completed ∧ getOwner s.owner m = some c) ∧
    (∀ c m v, Msg.result m v ∈ s.toClient c → (m, v) ∈ s.completed ∧ getOwner s.owner m = some c) ∧
    (∀ m b v, (m, b) ∈ s.boxes → b.result = some v →
        (m, v) ∈ s.completed ∧ getOwner s.owner m = some b.owner) := by
  obtain ⟨ls, hr⟩ := hs
  have hi := run_resInv ls init s resInv_init hr
  exact ⟨hi.cl, hi.tc, fun m b v hb hv => ⟨(hi.bx m b hb).2 v hv, (hi.bx m b hb).1⟩⟩

/-! ### every exception class of a lost connection is the same event -/

theorem Reach.step {t : Topo} {s s' : State} {l : Label} (hs : Reach t s) (h : step t s l = some s') :
    Reach t s' := by
  obtain ⟨ls, hrun⟩ := hs
  refine ⟨ls ++ [l], ?_⟩
  rw [run_append ls [l] init s hrun]
  simp only [run]
  rw [h]

/-- **whatever `recv` raises on a lost connection, the reader reacts.**  `x` ranges over the
documented failure classes of `multiprocessing.connection.Connection` (`ConnExc`: EOFError,
ConnectionResetError, BrokenPipeError, ConnectionAbortedError, OSError('handle is closed'), a
truncated frame); `react` records which `except` clause of the real code catches it where (tied to
/repo by injecting every class at every site).  In every reachable state, for EVERY class `x`:
(1) a running server / manager that reads the lost connection of an employee takes the step
    `lostEmp p e x` and is `ShutDone` afterwards (soft classes: `handle_disconnect`; hard classes:
    `handle_system_error` + `finally: handle_shutdown`);
(2) a running manager that reads its lost upstream connection takes `lostUp n x` and is `ShutDone`;
(3) a worker that reads its lost connection ends (`recv_incoming` catches every class);
(4) whether a delivery is enabled never depends on the class, and a critical delivery stays
    critical: the bounds `C14_bounded` / `C14_runtime_stops` (which quantify over all labels, hence
    over all classes) and the progress statements apply to every class. -/
theorem C14_connection_lost_any_class {t : Topo} (wf : t.WF) {s : State} (hs : Reach t s) (x : ConnExc) :
    (∀ p e, s.loopOk t p = true → t.isChild p e = true → s.downOpen e = true → s.outbox e = [] →
        (s.alive e && s.upOpen e) = false →
        ∃ s', step t s (Label.lostEmp p e x) = some s' ∧ ShutDone t s' p ∧
          (react .runRecv x = .disconnect ∨ react .runRecv x = .systemError)) ∧
    (∀ n, s.loopOk t n = true → n ≠ 0 → s.upOpen n = true → s.inbox n = [] →
        (s.alive (t.parent n) && s.downOpen n) = false →
        ∃ s', step t s (Label.lostUp n x) = some s' ∧ ShutDone t s' n) ∧
    (∀ w, isWorker t s w = true → s.inbox w = [] → (s.alive (t.parent w) && s.downOpen w) = false →
        react .workerRecv x = .selfKill ∧ ∃ s', step t s (.wrecv w) = some s' ∧ s'.alive w = false) ∧
    (∀ p e em d, (step t s (.recvEmp p e em x.hard)).isSome = (step t s (.recvEmp p e em false)).isSome ∧
        isCrit t s d (.recvEmp p e em x.hard) = isCrit t s d (.recvEmp p e em false)) ∧
    (∀ n em, (step t s (.recvUp n em x.hard)).isSome = (step t s (.recvUp n em false)).isSome ∧
        isDownCrit t s (.recvUp n em x.hard) = isDownCrit t s (.recvUp n em false)) := by
  have done : ∀ {s' : State} {l : Label} {p : Nat}, step t s l = some s' → s'.running p = false →
      ShutDone t s' p := by
    intro s' l p hst hr
    obtain ⟨h1, h2, h3⟩ := down_facts ((hs.step hst).inv wf) hr
    exact ⟨hr, h1, h2, h3⟩
  refine ⟨fun p e hloop hch hdo hout heof => ?_, fun n hloop hn0 hup hin heof => ?_,
    fun w hw hin heof => ⟨by cases x <;> rfl, ?_⟩, fun p e em d => ⟨?_, rfl⟩, fun n em => ⟨?_, rfl⟩⟩
  · have hen : ∃ s', step t s (Label.lostEmp p e x) = some s' ∧ s'.running p = false := by
      simp only [Label.lostEmp, step]
      unfold recvEmp
      simp only [hloop, hch, hdo, okEmits, List.all_nil, Bool.and_self, Bool.not_true, Bool.false_eq_true,
        if_false, hout, heof]
      split
      · exact ⟨_, rfl, by simp [systemError, shutdownNode, finishShutdown, baseShutdown]⟩
      split
      · exact ⟨_, rfl, by simp [shutdownNode, finishShutdown, baseShutdown]⟩
      split
      · exact ⟨_, rfl, by simp [shutdownNode, finishShutdown, baseShutdown]⟩
      · exact ⟨_, rfl, by simp [shutdownNode, finishShutdown, baseShutdown]⟩
    obtain ⟨s', hst, hr⟩ := hen
    exact ⟨s', hst, done hst hr, by cases x <;> simp [react]⟩
  · have hn0' : (n != 0) = true := by simpa using hn0
    have hen : ∃ s', step t s (Label.lostUp n x) = some s' ∧ s'.running n = false := by
      simp only [Label.lostUp, step]
      unfold recvUp
      simp only [hloop, hn0', hup, okEmits, List.all_nil, Bool.and_self, Bool.not_true, Bool.false_eq_true,
        if_false, hin, heof]
      split
      · exact ⟨_, rfl, by simp [systemError, shutdownNode, finishShutdown, baseShutdown]⟩
      · exact ⟨_, rfl, by simp [shutdownNode, finishShutdown, baseShutdown]⟩
    obtain ⟨s', hst, hr⟩ := hen
    exact ⟨s', hst, done hst hr⟩
  · simp only [step]
    unfold wrecv
    simp only [hw, Bool.not_true, Bool.false_eq_true, if_false, hin, heof]
    exact ⟨_, rfl, by simp⟩
  · simp only [step]
    unfold recvEmp
    split
    · rfl
    split
    · split
      · rfl
      · cases x.hard <;> simp <;> (repeat' split) <;> rfl
    · rename_i m rest _
      cases m <;> simp only <;> (repeat' split) <;> rfl
  · simp only [step]
    unfold recvUp
    split
    · rfl
    split
    · split
      · rfl
      · cases x.hard <;> simp
    · rename_i m rest _
      cases m <;> simp only <;> (repeat' split) <;> rfl

/-- the reaction table never says "ignored": at every site every class either stops the reader
(disconnect / system error / worker exit / client exception) or only drops a message whose
addressee is gone anyway (`dropped`: the sender still learns of the loss by its own `recv`). -/
theorem C14_react_table (x : ConnExc) :
    (react .runRecv x = .disconnect ∨ react .runRecv x = .systemError) ∧
    react .workerRecv x = .selfKill ∧ react .workerSend x = .selfKill ∧
    react .clientRecv x = .raises ∧ react .clientSend x = .raises ∧
    react .outgoingSend x = .dropped ∧ react .shutdownSend x = .dropped ∧
    react .managerUpSend x = .dropped ∧ react .unknownTaskSend x = .dropped ∧
    react .sysErrClientSend x = .shutdownThenEscapes ∧
    (x.hard = true ↔ react .runRecv x = .systemError) := by
  cases x <;> simp [react, ConnExc.hard]

/-! ### non-vacuity: a server, a manager, two workers, one client -/

def demoTopo : Topo := Topo.ofList [(0, 0), (0, 1), (1, 2), (1, 2)] false

theorem demoTopo_wf : demoTopo.WF where
  root := rfl
  lt := by
    intro i hi
    match i with
    | 1 => decide
    | 2 => decide
    | 3 => decide
    | n + 4 => simp [demoTopo, Topo.ofList]
  kroot := rfl
  knon := by
    intro i hi
    match i with
    | 1 => decide
    | 2 => decide
    | 3 => decide
    | n + 4 => simp [demoTopo, Topo.ofList, kindOfCode]
  pk := by
    intro i hi
    match i with
    | 1 => decide
    | 2 => decide
    | 3 => decide
    | n + 4 => simp [demoTopo, Topo.ofList, kindOfCode]

/-- submit, the task travels down, the client blocks in `result`, worker 2 is killed -/
def demoRun : List Label :=
  [.ccall 0 (.submit 0), .recvClient 0 [(.emp 1, .other 5)] false, .flush 0,
   .recvUp 1 [(.emp 2, .other 5)] false, .flush 1, .wrecv 2, .ccall 0 (.request 0),
   .recvClient 0 [] false, .crash 2 false]

/-- the reaction: manager reads EOF, worker 3 obeys SHUTDOWN, the server reads SHUTDOWN -/
def demoReact : List Label := [.recvEmp 1 2 [] false, .wrecv 3, .recvEmp 0 1 [] false]

def demoState : State := (run demoTopo init demoRun).getD init
def demoDown : State := (run demoTopo demoState demoReact).getD init

theorem demo_reach : Reach demoTopo demoState :=
  ⟨demoRun, getD_of_isSome _ _ (by decide)⟩

theorem demoDown_reach : Reach demoTopo demoDown :=
  ⟨demoRun ++ demoReact, by
    rw [run_append demoRun demoReact init demoState (getD_of_isSome _ _ (by decide))]
    exact getD_of_isSome _ _ (by decide)⟩

-- C14_bounded / C14_shutdown_propagates: hypotheses hold on the demo run; the bound is met
example : demoState.gone 2 = true ∧ potential demoTopo demoState 2 = 4 := by decide
example : (runCount demoTopo 2 demoState demoReact).map
    (fun r => (r.2.1, r.2.2, r.1.running 0, r.1.copen 0, r.1.sentShutdown 3)) =
    some (2, 0, false, false, true) := by decide
example : ShutDone demoTopo demoDown 0 :=
  ((C14_shutdown_propagates demoTopo_wf demoDown_reach (d := 2) (by decide) (by decide) (by decide) []
    (c := 0) (g := 0) rfl).2.2 0 (by decide))
-- C14_no_result_after_shutdown / C14_client_raises: the server of `demoDown` is down, the client blocked
example : demoDown.running 0 = false ∧ demoDown.cwait 0 = true := by decide
example : (step demoTopo demoDown (.cwake 0)).map (·.clog) = some [.raised 0] := by decide
-- C14_shutdown_reaches_employees: in `demoState` after the manager stopped, worker 3 has SHUTDOWN pending
example : ((run demoTopo demoState [.recvEmp 1 2 [] false]).map
    (fun s => (s.running 1, s.gone 3, s.inbox 3))) = some (false, false, [.shutdown]) := by decide
-- C14_second_crash: a second crash is possible in `demoDown`
example : (step demoTopo demoDown (.crash 1 false)).isSome = true := by decide

-- C14_connection_lost_any_class: in `demoState` (worker 2 killed) the manager's read of the lost connection is
-- enabled for every class; a hard class takes the system-error path (ERROR + SHUTDOWN upstream), a soft one
-- the disconnect path (SHUTDOWN upstream only); both leave the manager `ShutDone`
example : demoState.loopOk demoTopo 1 = true ∧ demoTopo.isChild 1 2 = true ∧ demoState.downOpen 2 = true ∧
    demoState.outbox 2 = [] ∧ (demoState.alive 2 && demoState.upOpen 2) = false := by decide
example : ConnExc.all.map (fun x => ((step demoTopo demoState (Label.lostEmp 1 2 x)).map
    (fun s => (s.running 1, s.outbox 1, s.sentShutdown 3)))) =
    [some (false, [.shutdown], true), some (false, [.shutdown], true),
     some (false, [.sysError, .shutdown], true), some (false, [.sysError, .shutdown], true),
     some (false, [.sysError, .shutdown], true), some (false, [.sysError, .shutdown], true)] := by decide
-- ... and a manager that loses its boss with a hard class (deepTopo, mid manager killed)
example : ConnExc.all.map (fun x => ((step (Topo.ofList [(0, 0), (0, 1), (1, 1), (2, 2)] false)
    ((run (Topo.ofList [(0, 0), (0, 1), (1, 1), (2, 2)] false) init [.crash 1 false]).getD init)
    (Label.lostUp 2 x)).map (fun s => (s.running 2, s.sentShutdown 3)))) =
    [some (false, true), some (false, true), some (false, true), some (false, true),
     some (false, true), some (false, true)] := by decide

-- C14_only_complete_results: a run in which the client does get its result (attached, one worker)
def okRun : List Label :=
  [.ccall 0 (.submit 0), .recvClient 0 [(.emp 1, .other 5)] false, .flush 0, .wrecv 1,
   .wsend 1 (.result 0 7), .recvEmp 0 1 [] false, .ccall 0 (.request 0), .recvClient 0 [] false,
   .flush 0, .cwake 0]
example : (run (Topo.ofList [(0, 0), (0, 2)] true) init okRun).map (fun s => (s.clog, s.completed)) =
    some ([.returned 0 (.result 0 7)], [(0, 7)]) := by decide

/-! ### non-vacuity of `C14_runtime_stops`: server 0 - manager 1 - manager 2 - worker 3, the mid
manager is killed (the scenario of the former orphan finding) -/

def deepTopo : Topo := Topo.ofList [(0, 0), (0, 1), (1, 1), (2, 2)] false

def deepCrashed : State := (run deepTopo init [.crash 1 false]).getD init

/-- the server reads the EOF, manager 2 reads the EOF of its dead boss and stops (856c0e9),
worker 3 obeys the SHUTDOWN -/
def deepReact : List Label := [.recvEmp 0 1 [] false, .recvUp 2 [] false, .wrecv 3]

example : deepCrashed.gone 1 = true ∧ potential deepTopo deepCrashed 1 + dpotential deepTopo deepCrashed = 4 := by
  decide
example : (runCountAll deepTopo 1 deepCrashed deepReact).map (fun r => (r.2.1, r.2.2)) = some (3, 0) := by
  decide
example : (runCountAll deepTopo 1 deepCrashed deepReact).map
    (fun r => (r.1.gone 0 && r.1.gone 2 && r.1.gone 3 && !(r.1.copen 0),
      potential deepTopo r.1 1 + dpotential deepTopo r.1)) = some (true, 0) := by decide

end BqVerif.Crash
