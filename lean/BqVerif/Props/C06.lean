import BqVerif.Model.Tensor
import BqVerif.Model.CircSim
/-! # C06 — circuit simulation equals the ordered product of its operations -/
namespace BqVerif.C06
open BqVerif.Tensor

theorem C06_prod_nil : prod [] = 1 := rfl

end BqVerif.C06
