import BqVerif.Proofs.C06Product
import BqVerif.Proofs.C06Alias
import BqVerif.Proofs.C06Iter
/-!
# C06 — circuit simulation equals the ordered product of its operations

Property theorems about the executable model `Model/Tensor.lean` (numpy primitives and
`UnitaryBuilder` / `StateVector.apply`, transcribed line by line) and `Model/CircSim.lean`
(`Circuit.get_unitary`, `get_statevector`, `get_unitary_and_grad`, the flat parameter API,
`CircuitGridIterator`).  Entries live in an arbitrary semiring `α` (non-commutative
multiplication allowed), parameters in an arbitrary type `P`; gates are arbitrary functions
`params ↦ matrix`, so nested `CircuitGate`s, frozen and constant gates are all covered.

`embed M loc` is defined directly on mixed-radix digit strings, qudit 0 most significant:
`(embed M)[r, c] = M[r|loc, c|loc] · [r|rest = c|rest]` (`Tensor.embedEntry`).
-/
namespace BqVerif.C06
open BqVerif.Tensor BqVerif.CircSim BqVerif.C06Alg

variable {P α : Type}

/-! ## index arithmetic -/

/-- Mixed-radix digit decomposition is a bijection (1): digits → index → digits. -/
theorem C06_unravel_ravel {shape idx : List Nat} (h : validIdx shape idx = true) :
    unravel shape (ravel shape idx) = idx ∧ ravel shape idx < prod shape :=
  ⟨unravel_ravel h, ravel_lt h⟩

/-- Mixed-radix digit decomposition is a bijection (2): index → digits → index. -/
theorem C06_ravel_unravel {shape : List Nat} {i : Nat} (h : i < prod shape) :
    ravel shape (unravel shape i) = i ∧ validIdx shape (unravel shape i) = true :=
  ⟨ravel_unravel h, validIdx_unravel (pos_of_prod_pos (Nat.lt_of_le_of_lt (Nat.zero_le _) h)) i⟩

example : validIdx [2, 3, 4] [1, 2, 3] = true := by decide
example : (17 : Nat) < prod [2, 3, 4] := by decide

/-- `np.argsort` of a permutation is its inverse permutation (both ways). -/
theorem C06_argsort_inverts {perm : List Nat} {n : Nat} (h : isPerm perm n = true) :
    isPerm (argsort perm) n = true ∧
    (∀ a, a < n → (argsort perm).getD (perm.getD a 0) 0 = a) ∧
    (∀ a, a < n → perm.getD ((argsort perm).getD a 0) 0 = a) := by
  refine ⟨argsort_isPerm h, ?_, ?_⟩
  · intro a ha
    rw [getD_argsort h (getD_lt_of_isPerm h ha), idxOf_getD_of_isPerm h ha]
  · intro a ha
    rw [getD_argsort h ha, getD_idxOf_of_isPerm h ha]

example : isPerm [2, 0, 3, 1] 4 = true := by decide

/-! ## `UnitaryBuilder` and `StateVector.apply` -/

section builders
variable [Semiring α]

/-- **`apply_right(utry, loc, inverse, check)` = left multiplication by `embed utry loc`**
for ANY radixes and ANY order of `loc`; the call succeeds whenever the documented argument
checks pass. -/
theorem C06_apply_right_eq_embed (conj : α → α) {b : Builder α} {u : UM α} {loc : List Nat}
    (hb : b.WF) (hargs : ArgsOK b.radixes u loc) (inverse check : Bool) :
    ∃ b', b.applyRight conj u loc inverse check = .ok b' ∧ b'.radixes = b.radixes ∧ b'.WF ∧
      toMatrix (prod b.radixes) b'.tensor
        = embedMatrix (prod b.radixes) b.radixes (opMat conj u inverse) loc
            * toMatrix (prod b.radixes) b.tensor :=
  applyRight_matrix conj hb hargs inverse check

/-- **`apply_left(utry, loc, inverse, check)` = right multiplication by `embed utry loc`.** -/
theorem C06_apply_left_eq_embed (conj : α → α) {b : Builder α} {u : UM α} {loc : List Nat}
    (hb : b.WF) (hargs : ArgsOK b.radixes u loc) (inverse check : Bool) :
    ∃ b', b.applyLeft conj u loc inverse check = .ok b' ∧ b'.radixes = b.radixes ∧ b'.WF ∧
      toMatrix (prod b.radixes) b'.tensor
        = toMatrix (prod b.radixes) b.tensor
            * embedMatrix (prod b.radixes) b.radixes (opMat conj u inverse) loc :=
  applyLeft_matrix conj hb hargs inverse check

/-- `eval_apply_right(M, loc)` = `embed M loc · builder`, for an arbitrary square `M`. -/
theorem C06_eval_apply_right_eq_embed {b : Builder α} {m : T α} {loc : List Nat} (hb : b.WF)
    (hloc : isLocation loc b.radixes.length = true)
    (hm : m.shape = [prod (loc.map (b.radixes.getD · 0)), prod (loc.map (b.radixes.getD · 0))]) :
    ∃ e, b.evalApplyRight m loc = .ok e ∧ e.shape = [prod b.radixes, prod b.radixes] ∧ e.WF ∧
      toMatrix (prod b.radixes) e
        = embedMatrix (prod b.radixes) b.radixes m loc * toMatrix (prod b.radixes) b.tensor :=
  evalApplyRight_matrix hb hloc hm

/-- `eval_apply_left(M, loc)` = `builder · embed M loc`. -/
theorem C06_eval_apply_left_eq_embed {b : Builder α} {m : T α} {loc : List Nat} (hb : b.WF)
    (hloc : isLocation loc b.radixes.length = true)
    (hm : m.shape = [prod (loc.map (b.radixes.getD · 0)), prod (loc.map (b.radixes.getD · 0))]) :
    ∃ e, b.evalApplyLeft m loc = .ok e ∧ e.shape = [prod b.radixes, prod b.radixes] ∧ e.WF ∧
      toMatrix (prod b.radixes) e
        = toMatrix (prod b.radixes) b.tensor * embedMatrix (prod b.radixes) b.radixes m loc :=
  evalApplyLeft_matrix hb hloc hm

/-- `StateVector.apply(utry, loc)` = `embed utry loc · vec` when the state's radixes are
`rad`. -/
theorem C06_statevector_apply_eq_embed (conj : α → α) {rad : List Nat} {vec : T α} {u : UM α}
    {loc : List Nat} (hpos : ∀ s ∈ rad, 0 < s) (hsize : vec.data.size = prod rad)
    (hargs : ArgsOK rad u loc) (inverse check : Bool) :
    ∃ v', svApply conj rad vec u loc inverse check = .ok v' ∧ v'.data.size = prod rad ∧
      toVec (prod rad) v' = Matrix.mulVec (embedMatrix (prod rad) rad (opMat conj u inverse) loc)
        (toVec (prod rad) vec) :=
  svApply_vec conj hpos hsize hargs inverse check

/-- non-vacuity: a fresh builder on radixes `[2, 3, 2]` and a `(3, 2)`-gate on the permuted,
non-adjacent location `[1, 0]` / `[2, 0]`. -/
example : ∃ (b : Builder Int) (u : UM Int) (loc : List Nat), b.WF ∧ ArgsOK b.radixes u loc :=
  ⟨Builder.new [2, 3, 2], ⟨[3, 2], identity 6⟩, [1, 0],
    builder_new_wf (by decide), by decide, by decide, rfl⟩

example : ∃ (b : Builder Int) (m : T Int) (loc : List Nat), b.WF ∧
    isLocation loc b.radixes.length = true ∧
    m.shape = [prod (loc.map (b.radixes.getD · 0)), prod (loc.map (b.radixes.getD · 0))] :=
  ⟨Builder.new [2, 3, 2], identity 4, [2, 0], builder_new_wf (by decide), by decide, rfl⟩

example : ∃ (rad : List Nat) (vec : T Int) (u : UM Int) (loc : List Nat),
    (∀ s ∈ rad, 0 < s) ∧ vec.data.size = prod rad ∧ ArgsOK rad u loc :=
  ⟨[2, 3], ⟨[6], #[1, 0, 0, 0, 0, 0]⟩, ⟨[3], identity 3⟩, [1], by decide, rfl,
    by decide, by decide, rfl⟩

end builders

/-! ## circuits -/

section circuits
variable [Semiring α]

/-- **`get_unitary` = `E_n ⋯ E_2 E_1`**: the ordered product, in iteration order, of every
operation's own matrix embedded on its own qudits — with the stored parameters
(`params = []`) or with explicit ones, each operation then taking its slice of the flat
vector. -/
theorem C06_unitary_is_product (conj : α → α) (c : Circ P α) (hc : c.OpsOK) (params : List P)
    (hps : params = [] ∨ params.length = c.numParams) :
    ∃ U, c.getUnitary conj params = .ok U ∧ U.shape = [prod c.radixes, prod c.radixes] ∧
      toMatrix (prod c.radixes) U
        = prodRev (loopMats (prod c.radixes) c.radixes (params.length ≠ 0) params c.ops 0) :=
  getUnitary_is_product conj c hc params hps

/-- **`get_statevector(v, params)` = that product applied to `v`**, for a plain vector
(`sr = none`: the code builds `StateVector(in_state, self.radixes)`) and for a `StateVector`
carrying the circuit's radixes (`hsr` says: `sr` is `none` or `some c.radixes`; a
`StateVector` built by the caller with other radixes keeps them and is outside the
property).  A vector of the wrong dimension is a `ValueError`. -/
theorem C06_statevector_is_product (conj : α → α) (c : Circ P α) (hc : c.OpsOK)
    (inState : T α) (sr : Option (List Nat)) (hsr : sr.getD c.radixes = c.radixes)
    (params : List P) (hps : params = [] ∨ params.length = c.numParams) :
    (inState.data.size = prod c.radixes →
      ∃ v, c.getStatevector conj inState sr params = .ok v ∧
        toVec (prod c.radixes) v
          = Matrix.mulVec
              (prodRev (loopMats (prod c.radixes) c.radixes (params.length ≠ 0) params c.ops 0))
              (toVec (prod c.radixes) inState)) ∧
    (inState.data.size ≠ prod c.radixes →
      c.getStatevector conj inState sr params = .error .valueError) :=
  ⟨fun hsize => getStatevector_is_product conj c hc inState hsize sr hsr params hps,
   fun hsize => getStatevector_dim_error conj c inState sr
     (by rw [hsr]; exact fun h => hsize h.symm) params hps⟩

/-- **`get_unitary_and_grad`** returns the ordered product and, in flat-parameter order,
`R_j · (embed(∂_k U_j) · L_j)` with `R_j = E_n ⋯ E_{j+1}`, `L_j = E_{j-1} ⋯ E_1`
(`gradSpec`, unfolded by `C06_grad_loop_abstract`).  The code multiplies `right` by the
*dagger* of each matrix, so the statement needs `E_j · embed(U_j†) = 1`. -/
theorem C06_grad_loop (conj : α → α) (c : Circ P α) (hc : c.OpsOK) (params : List P)
    (hps : params = [] ∨ params.length = c.numParams)
    (hunit : ∀ x ∈ (collSpec (params.length ≠ 0) params c.ops 0).map
        (absEntry conj (prod c.radixes) c.radixes), x.1 * x.2.1 = 1) :
    ∃ U grads, c.getUnitaryAndGrad conj params = .ok (U, grads) ∧
      toMatrix (prod c.radixes) U
        = prodRev (loopMats (prod c.radixes) c.radixes (params.length ≠ 0) params c.ops 0) ∧
      grads.map (toMatrix (prod c.radixes))
        = gradSpec ((collSpec (params.length ≠ 0) params c.ops 0).map
            (absEntry conj (prod c.radixes) c.radixes)) 1 1 :=
  getUnitaryAndGrad_spec conj c hc params hps hunit

/-- The same for circuits of unitary gates: `M(θ) · M(θ)† = I` for every gate and every
parameter value gives the hypothesis of `C06_grad_loop` (`embed` is multiplicative and maps
the identity to the identity). -/
theorem C06_grad_loop_unitary_gates (conj : α → α) (c : Circ P α) (hc : c.OpsOK)
    (params : List P) (hps : params = [] ∨ params.length = c.numParams)
    (hgates : ∀ e ∈ c.ops, ∀ ps, matmul (e.2.unitary ps) (dagger conj (e.2.unitary ps))
      = .ok (identity (prod e.2.radixes))) :
    ∃ U grads, c.getUnitaryAndGrad conj params = .ok (U, grads) ∧
      toMatrix (prod c.radixes) U
        = prodRev (loopMats (prod c.radixes) c.radixes (params.length ≠ 0) params c.ops 0) ∧
      grads.map (toMatrix (prod c.radixes))
        = gradSpec ((collSpec (params.length ≠ 0) params c.ops 0).map
            (absEntry conj (prod c.radixes) c.radixes)) 1 1 :=
  getUnitaryAndGrad_of_unitary_gates conj c hc params hps hgates

/-- `embed` is a unital ring homomorphism on each location (used above; also the reason
why gates on the same location compose as their matrices do). -/
theorem C06_embed_mul_one {rad loc : List Nat} (hloc : isLocation loc rad.length = true)
    (hpos : ∀ s ∈ rad, 0 < s) {m1 m2 m12 : T α}
    (h1 : m1.shape = [prod (loc.map (rad.getD · 0)), prod (loc.map (rad.getD · 0))])
    (h2 : m2.shape = [prod (loc.map (rad.getD · 0)), prod (loc.map (rad.getD · 0))])
    (h12 : matmul m1 m2 = .ok m12) :
    embedMatrix (prod rad) rad m12 loc
        = embedMatrix (prod rad) rad m1 loc * embedMatrix (prod rad) rad m2 loc ∧
    embedMatrix (prod rad) rad (identity (prod (loc.map (rad.getD · 0))) : T α) loc = 1 :=
  ⟨embedMatrix_mul hloc hpos h1 h2 h12, embedMatrix_identity hloc hpos⟩

end circuits

/-- The loop invariant of `get_unitary_and_grad` over any (non-commutative) semiring:
with `right = E_n ⋯ E_1` and `E_j F_j = 1`, the entry emitted for derivative `de` of
operation `j` is `(E_n ⋯ E_{j+1}) · (de · (E_{j-1} ⋯ E_1))`, and the returned `left` is the
whole product. -/
theorem C06_grad_loop_abstract {R : Type} [Semiring R] (l : List (R × R × List R))
    (hinv : ∀ x ∈ l, x.1 * x.2.1 = 1) :
    gradLoopAbs l 1 (prodRev (l.map (·.1)))
      = (prodRev (l.map (·.1)),
         (List.range l.length).flatMap (fun j => ((l.getD j (1, 1, [])).2.2).map (fun de =>
            prodRev ((l.map (·.1)).drop (j + 1)) * (de * prodRev ((l.map (·.1)).take j))))) :=
  gradLoopAbs_spec_one l hinv

/-- ... and that entry is the derivative of the product: for any derivation `D` (Leibniz
rule, `D 1 = 0`) that vanishes on every factor but the `j`-th — `∂/∂θ_k` for a parameter
owned by operation `j` — `D (E_n ⋯ E_1) = R_j · (D E_j · L_j)`. -/
theorem C06_grad_is_derivation {R : Type} [Semiring R] (D : R → R)
    (hmul : ∀ a b, D (a * b) = D a * b + a * D b) (hone : D 1 = 0) (l : List R) (j : Nat)
    (hj : j < l.length) (hz : ∀ i, i < l.length → i ≠ j → D (l.getD i 0) = 0) :
    D (prodRev l) = prodRev (l.drop (j + 1)) * (D (l.getD j 0) * prodRev (l.take j)) :=
  deriv_prodRev_single' D hmul hone l j hj hz

/-- non-vacuity of the derivation hypotheses: commutators `a ↦ a x - x a` in any ring. -/
example {R : Type} [Ring R] (x : R) :
    (∀ a b : R, (a * b) * x - x * (a * b) = (a * x - x * a) * b + a * (b * x - x * b)) ∧
    ((1 : R) * x - x * 1 = 0) :=
  ⟨(commutator_isDerivation x).2.1, (commutator_isDerivation x).2.2⟩

example : ∃ l : List (Int × Int × List Int), l ≠ [] ∧ ∀ x ∈ l, x.1 * x.2.1 = 1 :=
  ⟨[(1, 1, [2, 3]), (-1, -1, [5])], by decide, by decide⟩

/-! ## the flat parameter vector -/

/-- **`get_param_location i = (cycle, qudit, k)` addresses flat parameter `i`**: the
operation at `(cycle, qudit)` is the one whose parameters start at offset `i - k` of the
concatenation, `qudit = location[0]`, and `params[i] = op.params[k]`. -/
theorem C06_param_location (c : Circ P α) (i : Nat) (hi : i < c.params.length) :
    ∃ cy op k, c.getParamLocation (i : Int) = .ok (cy, op.loc.headD 0, k) ∧ (cy, op) ∈ c.ops ∧
      k < op.params.length ∧ op.params[k]? = c.params[i]? ∧
      (∃ pre post, c.ops = pre ++ (cy, op) :: post ∧
        i = (pre.flatMap (·.2.params)).length + k) :=
  getParamLocation_ok c i hi

/-- `IndexError` exactly when the index is negative or `≥ num_params`. -/
theorem C06_param_location_error (c : Circ P α) (i : Int) :
    ((∃ r, c.getParamLocation i = .ok r) ↔ (0 ≤ i ∧ i < c.params.length)) ∧
    ((i < 0 ∨ (c.params.length : Int) ≤ i) → c.getParamLocation i = .error .indexError) :=
  ⟨getParamLocation_ok_iff c i, getParamLocation_err c i⟩

/-- `get_param i` reads entry `i` of the flat vector (through `circuit[cycle, qudit]`). -/
theorem C06_get_param {c : Circ P α} (hwf : c.WF) (i : Nat) (hi : i < c.params.length) :
    c.getParam (i : Int) = .ok (c.params[i]) :=
  getParam_eq hwf i hi

/-- `set_param i v` overwrites entry `i` of the flat vector and nothing else.
`_partial`: provided no `Operation` object occupies two grid entries (`OidsDistinct`);
the model — like the code, which mutates the object in place — otherwise changes every
alias (`C06_shared_operation_witness`). -/
theorem C06_set_param_partial {c : Circ P α} (hwf : c.WF) (hd : c.OidsDistinct) (i : Nat)
    (hi : i < c.params.length) (v : P) :
    ∃ c', c.setParam (i : Int) v = .ok c' ∧ c'.params = c.params.set i v ∧
      c'.radixes = c.radixes ∧ c'.numCycles = c.numCycles ∧
      c'.ops.map (fun e => (e.1, e.2.loc, e.2.numParams))
        = c.ops.map (fun e => (e.1, e.2.loc, e.2.numParams)) ∧ c'.WF := by
  rw [setParam_eq_val hd]
  exact setParam_params hwf i hi v

/-- `set_params p; params == p` (`_partial`: under `OidsDistinct`), and `ValueError` exactly
on a length mismatch (always). -/
theorem C06_set_params_roundtrip_partial (c : Circ P α) (ps : List P) :
    (c.OidsDistinct → ps.length = c.numParams →
      ∃ c', c.setParams ps = .ok c' ∧ c'.params = ps ∧ c'.numParams = c.numParams) ∧
    (ps.length ≠ c.numParams → c.setParams ps = .error .valueError) := by
  refine ⟨fun hd h => ?_, setParams_len_err c ps⟩
  rw [setParams_eq_val hd]
  obtain ⟨c', h1, h2, h3, _⟩ := setParams_roundtrip c ps h
  exact ⟨c', h1, h2, h3⟩

/-- `freeze_param i` removes entry `i` from the flat vector and leaves the unitary (with
stored parameters) unchanged. -/
theorem C06_freeze_param [Semiring α] (conj : α → α) {c : Circ P α} (hwf : c.WF) (i : Nat)
    (hi : i < c.params.length) (gid : Nat) :
    ∃ c', c.freezeParam (i : Int) gid = .ok c' ∧ c'.params = c.params.eraseIdx i ∧ c'.WF ∧
      c'.getUnitary conj [] = c.getUnitary conj [] := by
  obtain ⟨c', h1, h2, h3⟩ := freezeParam_params hwf i hi gid
  exact ⟨c', h1, h2, h3, freezeParam_getUnitary conj hwf i hi gid c' h1⟩

/-- **Passing parameters explicitly = storing them first**, for `get_unitary`,
`get_statevector` and `get_unitary_and_grad` (results *and* errors coincide).
`_partial`: under `OidsDistinct` (see `C06_shared_operation_witness`). -/
theorem C06_explicit_params_eq_stored_partial [Semiring α] (conj : α → α) {c : Circ P α}
    (hwf : c.WF) (hd : c.OidsDistinct) (ps : List P) (hne : ps ≠ []) (c' : Circ P α)
    (h : c.setParams ps = .ok c') :
    c'.getUnitary conj [] = c.getUnitary conj ps ∧
    (∀ v sr, c'.getStatevector conj v sr [] = c.getStatevector conj v sr ps) ∧
    c'.getUnitaryAndGrad conj [] = c.getUnitaryAndGrad conj ps := by
  rw [setParams_eq_val hd] at h
  exact ⟨explicit_eq_stored_unitary conj hwf ps hne c' h,
   fun v sr => explicit_eq_stored_state conj hwf ps hne c' h v sr,
   explicit_eq_stored_grad conj hwf ps hne c' h⟩

/-! ### the same `Operation` object in two grid entries -/

/-- `op = Operation(G, [0], [1]); c.append(op); c.append(op)` (one object, `oid = 7`). -/
def wShared : Circ Nat Int :=
  let op : GOp Nat Int :=
    { oid := 7, gid := 0, loc := [0], params := [1], numParams := 1, radixes := [2],
      unitary := fun _ => identity 2, grad := fun _ => [] }
  ⟨[2], 2, [(0, op), (1, op)]⟩

def outParams (r : Except Err (Circ Nat Int)) : Option (List Nat) :=
  match r with
  | .ok c => some c.params
  | .error _ => none

/-- The full statements fail when an `Operation` object is shared: after
`set_params([3, 4])` the flat vector is `[4, 4]`, and `set_param(0, 9)` also changes
entry 1.  Replayed on the real code by `harness/c06.py:fixed_cases`. -/
theorem C06_shared_operation_witness :
    wShared.WF ∧ ¬ wShared.OidsDistinct ∧
    outParams (wShared.setParams [3, 4]) = some [4, 4] ∧
    outParams (wShared.setParam 0 9) = some [9, 9] := by
  refine ⟨⟨?_, ?_⟩, by unfold Circ.OidsDistinct; decide, by decide, by decide⟩
  · intro e he
    simp only [wShared, List.mem_cons, List.not_mem_nil, or_false] at he
    rcases he with rfl | rfl <;> decide
  · simp only [wShared]
    decide

/-- non-vacuity: a well-formed circuit with parameters, and a successful `set_params`. -/
def nvOp (oid : Nat) (loc : List Nat) (ps : List Nat) : GOp Nat Int :=
  { oid := oid, gid := 0, loc := loc, params := ps, numParams := ps.length, radixes := loc.map (fun _ => 2),
    unitary := fun _ => identity (2 ^ loc.length), grad := fun _ => [] }
def nvCirc : Circ Nat Int := ⟨[2, 2, 2], 2, [(0, nvOp 0 [2, 0] [7, 8]), (0, nvOp 1 [1] []), (1, nvOp 2 [1, 2] [9])]⟩

private theorem nvCirc_wf : nvCirc.WF := by
  refine ⟨?_, ?_⟩
  · intro e he
    simp only [nvCirc, List.mem_cons, List.not_mem_nil, or_false] at he
    rcases he with rfl | rfl | rfl <;> decide
  · simp only [nvCirc, nvOp]
    decide

private theorem nvCirc_opsOK : nvCirc.OpsOK := by
  refine ⟨by decide, ?_⟩
  intro e he
  simp only [nvCirc, List.mem_cons, List.not_mem_nil, or_false] at he
  rcases he with rfl | rfl | rfl <;>
    exact ⟨by decide, by decide, fun _ => rfl, fun _ g hg => by simp [nvOp] at hg, by decide⟩

/-- hypotheses of `C06_unitary_is_product`, `C06_statevector_is_product`,
`C06_grad_loop` are satisfiable (explicit parameters included). -/
example : nvCirc.OpsOK ∧ ([1, 2, 3] : List Nat).length = nvCirc.numParams :=
  ⟨nvCirc_opsOK, by decide⟩

def nvCircU : Circ Nat Int := ⟨[2, 2], 1, [(0, nvOp 0 [1] [5])]⟩

/-- ... and so is the gate-unitarity hypothesis of `C06_grad_loop_unitary_gates`. -/
example : nvCircU.OpsOK ∧
    (∀ e ∈ nvCircU.ops, ∀ ps, matmul (e.2.unitary ps) (dagger id (e.2.unitary ps))
      = .ok (identity (prod e.2.radixes))) := by
  refine ⟨⟨by decide, ?_⟩, ?_⟩
  · intro e he
    simp only [nvCircU, List.mem_cons, List.not_mem_nil, or_false] at he
    subst he
    exact ⟨by decide, by decide, fun _ => rfl, fun _ g hg => by simp [nvOp] at hg, by decide⟩
  · intro e he ps
    simp only [nvCircU, List.mem_cons, List.not_mem_nil, or_false] at he
    subst he
    show matmul (identity 2 : T Int) (dagger id (identity 2)) = .ok (identity 2)
    rw [matmul_eq_ok (m := 2) (k := 2) (n := 2) rfl rfl]
    congr 1

example : nvCirc.WF := nvCirc_wf
example : nvCirc.OidsDistinct := by unfold Circ.OidsDistinct; decide
example : (none : Option (List Nat)).getD nvCirc.radixes = nvCirc.radixes ∧
    (some nvCirc.radixes).getD nvCirc.radixes = nvCirc.radixes := ⟨rfl, rfl⟩
example : nvCirc.params = [7, 8, 9] := by decide
example : (2 : Nat) < nvCirc.params.length := by decide
example : ∃ c', nvCirc.setParams [1, 2, 3] = .ok c' :=
  (setParams_roundtrip nvCirc [1, 2, 3] (by decide)).imp (fun _ h => h.1)


/-! ## restricted iteration -/

/-- **Restricted iteration (`operations(start, end, qudits_or_region, exclude, reverse)`,
i.e. `CircuitGridIterator`) returns exactly the operations inside the requested area.**
The line-by-line state machine (`Circ.iterate`) returns, without error, a list `l` that is
a rearrangement of the grid's operations filtered by the documented predicate `inArea`:
some cell of the operation lies on a requested qudit, inside that qudit's cycle interval and
between `start` and `end`; with `exclude`, *every* cell of the operation lies on requested
qudits inside their intervals.  Each operation occurs once, and cycles are visited in
order (ascending, or descending with `reverse`).  (Within one cycle the order is that of the
first requested cell of each operation, `specIter`.)  `ItArgsOK` only asks that the qudits
of an explicit region exist and that the cycle of an explicit `end` exists — outside that the
real iterator raises IndexError as soon as it visits a cell outside the grid; negative
coordinates of `start`/`end` and empty circuits are covered. -/
theorem C06_restricted_iter {c : Circ P α} (hwf : c.WF) {a : ItArgs} {cfg : ItCfg}
    (hnd : isDefaultArgs a = false)
    (hcfg : mkCfg c.radixes.length c.numCycles a = .ok cfg) (ha : ItArgsOK c a) :
    ∃ l, c.iterate a = .ok (some l) ∧ l = specIter c cfg ∧
      l.Perm (c.ops.filter (inArea cfg)) ∧ l.Nodup ∧
      (∀ cy op, (cy, op) ∈ l ↔ (cy, op) ∈ c.ops ∧ (∃ q ∈ op.loc, eligible cfg cy q = true) ∧
        (cfg.exclude = true → insideAll cfg cy op = true)) ∧
      l.Pairwise (fun x y => if cfg.reverse then y.1 ≤ x.1 else x.1 ≤ y.1) :=
  ⟨specIter c cfg, iterate_eq_spec hnd hcfg ha, rfl, specIter_perm_filter hwf cfg,
    specIter_nodup hwf cfg, fun cy op => mem_specIter_iff hwf cfg cy op,
    specIter_cycles_sorted c cfg⟩

/-- With all-default arguments iteration is the default (DAG) order itself, and the
constructor fails with `ValueError` exactly for an empty qudit set or an out-of-range qudit
in a qudit sequence. -/
theorem C06_restricted_iter_edges (c : Circ P α) (a : ItArgs) :
    (a.start = (0, 0) → a.stop = none → a.mode = .all → a.exclude = false →
      a.reverse = false → c.iterate a = .ok (some c.ops)) ∧
    (mkCfg c.radixes.length c.numCycles a = .error .valueError ↔
      match a.mode with
      | .all => c.radixes.length = 0
      | .region r => r = []
      | .qudits qs => qs = [] ∨ ∃ q ∈ qs, c.radixes.length ≤ q) :=
  ⟨fun h1 h2 h3 h4 h5 => iterate_default c a h1 h2 h3 h4 h5, mkCfg_err_iff _ _ a⟩

/-- non-vacuity: a region query with `exclude` and `reverse` on `nvCirc`. -/
def nvArgs : ItArgs := { mode := .region [(1, 0, 1), (2, 1, 1)], exclude := true, reverse := true }

example : isDefaultArgs nvArgs = false := by decide

example : ∃ cfg, mkCfg nvCirc.radixes.length nvCirc.numCycles nvArgs = .ok cfg :=
  (mkCfg_ok_iff _ _ nvArgs _).2 ⟨_, _, rfl, by decide, rfl⟩ |> fun h => ⟨_, h⟩

example : ItArgsOK nvCirc nvArgs := by
  refine ⟨?_, ?_⟩
  · intro r h e he
    simp only [nvArgs, Mode.region.injEq] at h
    subst h
    simp only [List.mem_cons, List.not_mem_nil, or_false] at he
    rcases he with rfl | rfl <;> decide
  · intro e h; cases h

end BqVerif.C06
