import BqVerif.Model.Circ
import BqVerif.Model.CircBlocks
namespace BqVerif.C05
open BqVerif.Circ

theorem C05_placeholder : (Circ.empty [2]).numCycles = 0 := rfl

end BqVerif.C05
