import BqVerif.Proofs.CircHistory
import BqVerif.Proofs.CircInvB
import BqVerif.Proofs.CircIter
import BqVerif.Proofs.CircQudit
/-! # C05 — all views of a Circuit stay mutually consistent after every edit

The views (`next/prev/front/rear/first_on/last_on`, counters, iteration) are *functions of the
list of cycles* in the model, so their mutual consistency is by construction there; the
implementation stores them separately and the correspondence check compares each of them, through
the public API, with the derived one after every call.  What has to be *proved* about the model is
that the documented invariant survives every call of every history. -/
namespace BqVerif.C05
open BqVerif.Circ

/-- One step: the invariant (no empty cycle; operations of a cycle pairwise disjoint; every
operation inside the circuit with matching radixes) is preserved by each editing call whose
arguments are well-formed operations. -/
theorem C05_inv_step (c : Circ) (call : Call) (hinv : c.Inv) (hok : call.Ok c.radixes) :
    (c.step call).Inv :=
  step_inv c call hinv hok

/-- Every history: after ANY finite sequence of editing calls from the empty circuit the invariant
holds (and the radixes are untouched), whether or not individual calls raised. -/
theorem C05_inv_history (radixes : List Nat) (h : List Call)
    (hok : ∀ call ∈ h, call.Ok radixes) :
    ((Circ.empty radixes).run h).Inv ∧ ((Circ.empty radixes).run h).radixes = radixes :=
  run_inv (Circ.empty radixes) h ⟨by simp [Circ.empty], by simp [Circ.empty], by simp [Circ.empty]⟩ hok

/-- …and from any circuit satisfying the invariant. -/
theorem C05_inv_history_from (c : Circ) (h : List Call) (hinv : c.Inv)
    (hok : ∀ call ∈ h, call.Ok c.radixes) : (c.run h).Inv :=
  (run_inv c h hinv hok).1

/-- The qudit-level calls keep the invariant as well (they change the width, so they are stated
as one-step theorems rather than inside the fixed-width call language): `append_qudit`,
`insert_qudit` (any index, incl. negative / past the end), `renumber_qudits` (any duplicate-free
permutation of the right length with entries in range). -/
theorem C05_inv_append_qudit (c : Circ) (r : Int) (hinv : c.Inv) : (c.appendQudit r).1.Inv :=
  appendQudit_inv c r hinv
theorem C05_inv_insert_qudit (c : Circ) (qi r : Int) (hinv : c.Inv) : (c.insertQudit qi r).1.Inv :=
  insertQudit_inv c qi r hinv
theorem C05_inv_renumber (c : Circ) (perm : List Nat) (hinv : c.Inv)
    (hrange : ∀ x ∈ perm, x < c.numQudits) : (c.renumber perm).1.Inv :=
  renumber_inv c perm hinv hrange

/-- The executable check `invB` — printed by the driver after every call and compared with the
implementation's grid, and used inside the relational validators of fold/straighten — decides
exactly the propositional invariant. -/
theorem C05_invB_decides_inv (c : Circ) : c.invB = true ↔ c.Inv := invB_iff c

/-- Iteration (row-major, each cycle by `location[0]` — the order the implementation's DAG
iterator is compared with after every call) yields every operation exactly once … -/
theorem C05_iter_each_op_once (c : Circ) : c.iter.Perm c.ops := iter_perm_ops c

/-- … in an order compatible with every qudit's timeline: restricted to any qudit it is exactly
that qudit's timeline in the grid. -/
theorem C05_iter_compatible_with_timelines (c : Circ) (hinv : c.Inv) (q : Nat) :
    proj q c.iter = c.timeline q := proj_iter c hinv q

/-- `append` places the operation in a cycle where all its cells were free (the grid never holds
two operations in one cell). -/
theorem C05_append_cell_free (c : Circ) (o : Op) (q : Nat) (hq : q ∈ o.loc) :
    ∀ t, c.findAvailable o.loc ≤ t → occ (c.cycles.getD t []) q = false :=
  findAvailable_free c o.loc q hq

/-- An in-place `replace` (same location set) with an operation of wrong radixes is accepted by the
code: the hypothesis `RadOk` of `C05_inv_step` is needed.  Witness on a 1-qudit circuit. -/
theorem C05_replace_unchecked_radix_witness :
    let c : Circ := ⟨[2], [[⟨1, [], [0], [2]⟩]]⟩
    ¬ ((c.replace (0, 0) ⟨2, [], [0], [3]⟩).1.invB = true) := by decide

-- non-vacuity: a concrete 7-call history satisfying the hypotheses; its result
example :
    let o1 : Op := ⟨6, [], [0, 1], [2, 2]⟩
    let o2 : Op := ⟨4, [5], [1], [2]⟩
    let o3 : Op := ⟨10, [], [2, 0, 1], [2, 2, 2]⟩
    let h : List Call := [.append o1, .append o2, .insert 0 o3, .replace (1, 1) o1,
      .pop (some (-1, 1)), .append o2, .compress]
    ((Circ.empty [2, 2, 2]).run h).invB = true ∧ ((Circ.empty [2, 2, 2]).run h).numOps = 3 := by
  decide

end BqVerif.C05
