import BqVerif.Proofs.CircHistory
import BqVerif.Proofs.CircInvB
import BqVerif.Proofs.CircIter
import BqVerif.Proofs.CircQudit
import BqVerif.Proofs.CircViews
import BqVerif.Proofs.CircKahn2
import BqVerif.Proofs.CircPopQudit
import BqVerif.Proofs.CircUnfold
import BqVerif.Proofs.CircBatchUnfold
import BqVerif.Proofs.CircRemoveAll
import BqVerif.Proofs.CircSlice
/-! # C05 — all views of a Circuit stay mutually consistent after every edit

The views (`next/prev/front/rear/first_on/last_on`, counters, iteration) are *functions of the
list of cycles* in the model, so their mutual consistency is by construction there; the
implementation stores them separately and the correspondence check compares each of them, through
the public API, with the derived one after every call.  What has to be *proved* about the model is
that the documented invariant survives every call of every history. -/
namespace BqVerif.C05
open BqVerif.Circ

/-- One step: the invariant (no empty cycle; operations of a cycle pairwise disjoint; every
operation inside the circuit with matching radixes) is preserved by each editing call whose
arguments are well-formed operations. -/
theorem C05_inv_step (c : Circ) (call : Call) (hinv : c.Inv) (hok : call.Ok c.radixes) :
    (c.step call).Inv :=
  step_inv c call hinv hok

/-- Every history: after ANY finite sequence of editing calls from the empty circuit the invariant
holds (and the radixes are untouched), whether or not individual calls raised. -/
theorem C05_inv_history (radixes : List Nat) (h : List Call)
    (hok : ∀ call ∈ h, call.Ok radixes) :
    ((Circ.empty radixes).run h).Inv ∧ ((Circ.empty radixes).run h).radixes = radixes :=
  run_inv (Circ.empty radixes) h ⟨by simp [Circ.empty], by simp [Circ.empty], by simp [Circ.empty]⟩ hok

/-- …and from any circuit satisfying the invariant. -/
theorem C05_inv_history_from (c : Circ) (h : List Call) (hinv : c.Inv)
    (hok : ∀ call ∈ h, call.Ok c.radixes) : (c.run h).Inv :=
  (run_inv c h hinv hok).1

/-- The qudit-level calls keep the invariant as well (they change the width, so they are stated
as one-step theorems rather than inside the fixed-width call language): `append_qudit`,
`insert_qudit` (any index, incl. negative / past the end), `renumber_qudits` (any duplicate-free
permutation of the right length with entries in range). -/
theorem C05_inv_append_qudit (c : Circ) (r : Int) (hinv : c.Inv) : (c.appendQudit r).1.Inv :=
  appendQudit_inv c r hinv
theorem C05_inv_insert_qudit (c : Circ) (qi r : Int) (hinv : c.Inv) : (c.insertQudit qi r).1.Inv :=
  insertQudit_inv c qi r hinv
theorem C05_inv_renumber (c : Circ) (perm : List Nat) (hinv : c.Inv)
    (hrange : ∀ x ∈ perm, x < c.numQudits) : (c.renumber perm).1.Inv :=
  renumber_inv c perm hinv hrange

/-- The executable check `invB` — printed by the driver after every call and compared with the
implementation's grid, and used inside the relational validators of fold/straighten — decides
exactly the propositional invariant. -/
theorem C05_invB_decides_inv (c : Circ) : c.invB = true ↔ c.Inv := invB_iff c

/-- Iteration (row-major, each cycle by `location[0]` — the order the implementation's DAG
iterator is compared with after every call) yields every operation exactly once … -/
theorem C05_iter_each_op_once (c : Circ) : c.iter.Perm c.ops := iter_perm_ops c

/-- … in an order compatible with every qudit's timeline: restricted to any qudit it is exactly
that qudit's timeline in the grid. -/
theorem C05_iter_compatible_with_timelines (c : Circ) (hinv : c.Inv) (q : Nat) :
    proj q c.iter = c.timeline q := proj_iter c hinv q

/-- `append` places the operation in a cycle where all its cells were free (the grid never holds
two operations in one cell). -/
theorem C05_append_cell_free (c : Circ) (o : Op) (q : Nat) (hq : q ∈ o.loc) :
    ∀ t, c.findAvailable o.loc ≤ t → occ (c.cycles.getD t []) q = false :=
  findAvailable_free c o.loc q hq

/-- An in-place `replace` (same location set) with an operation of wrong radixes is accepted by the
code: the hypothesis `RadOk` of `C05_inv_step` is needed.  Witness on a 1-qudit circuit. -/
theorem C05_replace_unchecked_radix_witness :
    let c : Circ := ⟨[2], [[⟨1, [], [0], [2]⟩]]⟩
    ¬ ((c.replace (0, 0) ⟨2, [], [0], [3]⟩).1.invB = true) := by decide

-- non-vacuity: a concrete 7-call history satisfying the hypotheses; its result
example :
    let o1 : Op := ⟨6, [], [0, 1], [2, 2]⟩
    let o2 : Op := ⟨4, [5], [1], [2]⟩
    let o3 : Op := ⟨10, [], [2, 0, 1], [2, 2, 2]⟩
    let h : List Call := [.append o1, .append o2, .insert 0 o3, .replace (1, 1) o1,
      .pop (some (-1, 1)), .append o2, .compress]
    ((Circ.empty [2, 2, 2]).run h).invB = true ∧ ((Circ.empty [2, 2, 2]).run h).numOps = 3 := by
  decide

/-! ## the DAG views are functions of the grid with the documented meaning -/

/-- `next` on a qudit is the first later cycle in which the qudit is occupied (the point returned
is that cell's operation at its `location[0]`); `prev` is the last earlier one. -/
theorem C05_nextOn_prevOn_spec (c : Circ) (k q : Nat) (p : Nat × Nat) :
    (c.nextOn k q = some p ↔ ∃ j x, k < j ∧ c.cell j q = some x ∧ p = (j, x.head) ∧
      ∀ t, k < t → t < j → c.cell t q = none) ∧
    (c.prevOn k q = some p ↔ ∃ j x, j < k ∧ c.cell j q = some x ∧ p = (j, x.head) ∧
      ∀ t, j < t → t < k → c.cell t q = none) :=
  ⟨nextOn_spec c k q p, prevOn_spec c k q p⟩

/-- **next and prev are mutually inverse on every qudit**: for an operation `o` of cycle `k` and
an operation `x` of cycle `j` that share qudit `q`, `x` is `o`'s successor on `q` iff `o` is `x`'s
predecessor on `q`; successors lie in strictly later cycles, predecessors in strictly earlier
ones (so the derived DAG is acyclic). -/
theorem C05_next_prev_inverse (c : Circ) (hinv : c.Inv) (k j q : Nat) (o x : Op)
    (hk : k < c.cycles.length) (hj : j < c.cycles.length)
    (ho : o ∈ c.cycles[k]) (hx : x ∈ c.cycles[j]) (hqo : q ∈ o.loc) (hqx : q ∈ x.loc) :
    (c.nextOn k q = some (j, x.head) ↔ c.prevOn j q = some (k, o.head)) ∧
      (∀ p, c.nextOn k q = some p → k < p.1) ∧ (∀ p, c.prevOn j q = some p → p.1 < j) :=
  ⟨nextOn_iff_prevOn c k j q o x (cell_of_mem c hinv k q o hk ho hqo)
      (cell_of_mem c hinv j q x hj hx hqx),
    fun p h => nextOn_lt c k q p h, fun p h => prevOn_lt c j q p h⟩

-- non-vacuity: X@0 ; CNOT@(0,1) ; H@1 — the CNOT is X's successor on qudit 0
example :
    let c : Circ := ⟨[2, 2], [[⟨1, [], [0], [2]⟩], [⟨6, [], [0, 1], [2, 2]⟩], [⟨2, [], [1], [2]⟩]]⟩
    c.invB = true ∧ c.nextOn 0 0 = some (1, 0) ∧ c.prevOn 1 0 = some (0, 0) ∧
      c.nextOn 1 1 = some (2, 1) ∧ c.prevOn 2 1 = some (1, 0) := by decide

/-- **front / rear**: `front` lists, each once, exactly the points `(cycle, location[0])` of the
operations without predecessor, `rear` those without successor; and an operation has no
predecessor (successor) iff no earlier (later) cycle holds anything on one of its qudits. -/
theorem C05_front_rear (c : Circ) :
    (∀ p, p ∈ c.front ↔ ∃ k o, (∃ h : k < c.cycles.length, o ∈ c.cycles[k]) ∧
      c.prev k o = [] ∧ p = (k, o.head)) ∧ c.front.Nodup ∧
    (∀ p, p ∈ c.rear ↔ ∃ k o, (∃ h : k < c.cycles.length, o ∈ c.cycles[k]) ∧
      c.next k o = [] ∧ p = (k, o.head)) ∧ c.rear.Nodup ∧
    (∀ k o, c.prev k o = [] ↔ ∀ q ∈ o.loc, ∀ t, t < k → c.cell t q = none) ∧
    (∀ k o, c.next k o = [] ↔ ∀ q ∈ o.loc, ∀ t, k < t → c.cell t q = none) := by
  refine ⟨fun p => ?_, front_nodup c, fun p => ?_, rear_nodup c, prev_eq_nil c, next_eq_nil c⟩
  · rw [mem_front]; simp only [mem_iterCyc]
  · rw [mem_rear]; simp only [mem_iterCyc]

/-- **first / last point of a qudit** are the two ends of the qudit's timeline (with the cycle
index of every entry, `timelineIdx`, whose operations are the timeline under `Inv`). -/
theorem C05_first_last_point (c : Circ) (hinv : c.Inv) (q : Nat) :
    c.firstPoint q = (c.timelineIdx q).head?.map (fun x => (x.1, x.2.head)) ∧
    c.lastPointOn q = (c.timelineIdx q).getLast?.map (fun x => (x.1, x.2.head)) ∧
    (c.timelineIdx q).map Prod.snd = c.timeline q :=
  ⟨firstPoint_eq c q, lastPointOn_eq c q, timelineIdx_ops c hinv q⟩

/-- **The DAG iterator yields the row-major order.**  `iterKahn` transcribes
`CircuitDagIterator`: Kahn's algorithm over the derived `next`/`prev` edges with the frontier kept
as a heap of points and a table of per-node counts of already-emitted predecessors
(`prev_binned_counts`); `iterCyc` is the order `(cycle, location[0])`.  Under the invariant the two
coincide for EVERY circuit — so "iteration" is one well-defined order, and the differential's
`kahn=same` flag is a theorem rather than an observation.  (Proof: the abstract loop on any
finite DAG with upward edges and a sorted frontier emits the nodes in increasing order,
`aLoop_correct`; the grid's points are strictly sorted under `Inv`, `next`/`prev` are mutually
inverse, and `prev`'s length counts the predecessors.) -/
theorem C05_iter_kahn_eq_rowmajor (c : Circ) (hinv : c.Inv) : c.iterKahn = c.iterCyc :=
  iterKahn_eq_iterCyc c hinv

/-- The abstract lemma behind it, for any DAG on points: nodes `pts` strictly sorted, successor
lists duplicate-free, inside `pts` and strictly larger, `total` = number of predecessors; started
from the sorted list of the nodes without predecessor with enough fuel, the counting loop with a
sorted frontier outputs exactly `pts`. -/
theorem C05_kahn_abstract (valid : Pt → Bool) (succ : Pt → List Pt) (total : Pt → Nat)
    (pts front : List Pt) (fuel : Nat)
    (hsort : pts.Pairwise ptLt) (hvalid : ∀ p ∈ pts, valid p = true)
    (hnd : ∀ p ∈ pts, (succ p).Nodup)
    (hsucc : ∀ p ∈ pts, ∀ x ∈ succ p, x ∈ pts ∧ ptLt p x)
    (htot : ∀ x ∈ pts, total x = pts.countP (fun r => (succ r).contains x))
    (hfn : front.Nodup) (hfm : ∀ x, x ∈ front ↔ x ∈ pts ∧ total x = 0)
    (hfuel : pts.length ≤ fuel) :
    aLoop valid succ total fuel ⟨front.foldr insertPt [], []⟩ = pts :=
  aLoop_from_front valid succ total pts front fuel hsort hvalid hnd hsucc htot hfn hfm hfuel

-- non-vacuity: a 3-qudit circuit where row-major and a naive FIFO Kahn order differ; and the
-- hypothesis `Inv` is needed (two ops sharing `location[0]` in one cycle break the equality)
example :
    let c : Circ := ⟨[2, 2, 2], [[⟨1, [], [2], [2]⟩, ⟨1, [], [0], [2]⟩],
      [⟨6, [], [1, 2], [2, 2]⟩, ⟨2, [], [0], [2]⟩], [⟨6, [], [0, 1], [2, 2]⟩]]⟩
    c.invB = true ∧ c.iterKahn = c.iterCyc ∧ c.iterCyc.length = 5 := by decide
example :
    let c : Circ := ⟨[2], [[⟨1, [], [0], [2]⟩, ⟨2, [], [0], [2]⟩]]⟩
    c.invB = false ∧ c.iterKahn ≠ c.iterCyc := by decide

/-- **pop_qudit keeps the invariant**, for any index (incl. negative / out of range, where it
raises and leaves the circuit alone): the `batch_pop` of all points on the qudit leaves no
operation on it (`batchPop_ptsQ_clears`: the removal fold walks the found operations from the last
cycle to the first, so no index is shifted before it is used), and the relabelling `q ↦ q − 1`
above the popped qudit is injective on the qudits still in use. -/
theorem C05_inv_pop_qudit (c : Circ) (qi : Int) (hinv : c.Inv) : (c.popQudit qi).1.Inv :=
  popQudit_inv c qi hinv

/-- the intermediate fact: after `pop_qudit`'s batch pop nothing sits on the qudit -/
theorem C05_pop_qudit_clears (c : Circ) (hinv : c.Inv) (k : Nat) (hk : k < c.numQudits)
    (hne : (ptsQ c k).isEmpty = false) :
    ∀ cy ∈ (c.batchPop (ptsQ c k)).1.cycles, occ cy k = false :=
  batchPop_ptsQ_clears c hinv k hk hne

-- non-vacuity: popping qudit 1 of X@0 ; CNOT@(0,1) ; H@1 ; CNOT@(2,1)
example :
    let c : Circ := ⟨[2, 2, 2], [[⟨1, [], [0], [2]⟩], [⟨6, [], [0, 1], [2, 2]⟩], [⟨2, [], [1], [2]⟩],
      [⟨6, [], [2, 1], [2, 2]⟩]]⟩
    c.invB = true ∧ (ptsQ c 1).isEmpty = false ∧
      (c.popQudit (-2)).1 = ⟨[2, 2], [[⟨1, [], [0], [2]⟩]]⟩ := by decide

/-- **unfold keeps the invariant** when the block bodies of the table are well-formed (their
operations have non-empty duplicate-free locations inside the body, radix lists of matching
length — what constructing a `CircuitGate` guarantees), for any point (a point that is out of
range, idle, or not a block makes the call raise and leaves the circuit alone). -/
theorem C05_inv_unfold (c : Circ) (b : Blocks) (hb : b.Ok) (p : Int × Int) (hinv : c.Inv) :
    (c.unfold b p).1.Inv ∧ (c.unfold b p).1.radixes = c.radixes :=
  ⟨unfold_inv c b hb p hinv, unfold_radixes c b p⟩

/-- **unfold_all keeps the invariant**, for any number of rebuild rounds. -/
theorem C05_inv_unfold_all (c : Circ) (b : Blocks) (hb : b.Ok) (fuel : Nat) (hinv : c.Inv) :
    (c.unfoldAll b fuel).Inv ∧ (c.unfoldAll b fuel).radixes = c.radixes :=
  unfoldAll_inv c b hb fuel hinv

/-- **Every history, blocks included**: the call language extended with `unfold(point)` and
`unfold_all()` (`CallB`; the blocks table is a parameter): after ANY finite sequence of these
calls from the empty circuit the invariant holds and the radixes are untouched. -/
theorem C05_inv_history_blocks (b : Blocks) (hb : b.Ok) (radixes : List Nat) (h : List CallB)
    (hok : ∀ call ∈ h, call.Ok radixes) :
    ((Circ.empty radixes).runB b h).Inv ∧ ((Circ.empty radixes).runB b h).radixes = radixes :=
  runB_inv b hb (Circ.empty radixes) h
    ⟨by simp [Circ.empty], by simp [Circ.empty], by simp [Circ.empty]⟩ hok

-- non-vacuity: a well-formed table, a history with an unfold that really unfolds
example :
    let body : Circ := ⟨[2, 2], [[⟨1, [], [0], [2]⟩], [⟨6, [], [0, 1], [2, 2]⟩]]⟩
    let b : Blocks := [(1000, body)]
    let blk : Op := ⟨1000, [], [2, 0], [2, 2]⟩
    let h : List CallB := [.base (.append ⟨2, [], [1], [2]⟩), .base (.append blk), .unfold (0, 2)]
    body.invB = true ∧ ((Circ.empty [2, 2, 2]).runB b h).invB = true ∧
      ((Circ.empty [2, 2, 2]).runB b h).numOps = 3 := by decide
example : Blocks.Ok [(1000, (⟨[2, 2], [[⟨1, [], [0], [2]⟩], [⟨6, [], [0, 1], [2, 2]⟩]]⟩ : Circ))] := by
  intro gid body h
  simp only [Blocks.body?, List.find?_cons, List.find?_nil] at h
  split at h
  · simp only [Option.map_some, Option.some.injEq] at h
    subst h
    intro o ho
    simp only [Circ.ops, List.flatten_cons, List.flatten_nil, List.cons_append, List.nil_append,
      List.mem_cons, List.not_mem_nil, or_false] at ho
    rcases ho with rfl | rfl <;> simp [Circ.numQudits]
  · simp at h

/-- **batch_unfold keeps the invariant**, for ANY list of points (in range or not, idle or not,
blocks or not, with duplicates or not — whether the batch completes or stops with an error after
having unfolded some blocks).  `batchUnfold` models the repaired call (/repo a12fa38): the blocks
are unfolded from the last to the first and each one is located again (`seekOp`) from its old
cycle on, because unfolding another block of the same cycle opens new cycles in front of it. -/
theorem C05_inv_batch_unfold (c : Circ) (b : Blocks) (hb : b.Ok) (pts : List (Int × Int))
    (hinv : c.Inv) :
    (c.batchUnfold b pts).1.Inv ∧ (c.batchUnfold b pts).1.radixes = c.radixes :=
  batchUnfold_inv c b hb pts hinv

-- non-vacuity: two blocks in ONE cycle; unfolding the later one (on (3,2)) opens a cycle in front
-- of the other, which is then found at cycle 1 (not at its old cycle 0) and unfolded there; the
-- duplicate point (-1, 1) collapses; an idle / out-of-range point changes nothing
example :
    let body : Circ := ⟨[2, 2], [[⟨1, [], [0], [2]⟩], [⟨6, [], [0, 1], [2, 2]⟩]]⟩
    let b : Blocks := [(1000, body)]
    let blkA : Op := ⟨1000, [], [0, 1], [2, 2]⟩
    let blkB : Op := ⟨1000, [], [3, 2], [2, 2]⟩
    let c : Circ := ⟨[2, 2, 2, 2], [[blkA, blkB]]⟩
    c.invB = true ∧
      (c.unfold b (0, 3)).1.cycles = [[⟨1, [], [3], [2]⟩], [blkA, ⟨6, [], [3, 2], [2, 2]⟩]] ∧
      (c.unfold b (0, 3)).1.seekOp blkA 0 0 2 = 1 ∧
      c.batchUnfold b [(0, 3), (0, 0), (-1, 1)] =
        (⟨[2, 2, 2, 2], [[⟨1, [], [3], [2]⟩], [⟨1, [], [0], [2]⟩],
          [⟨6, [], [3, 2], [2, 2]⟩, ⟨6, [], [0, 1], [2, 2]⟩]]⟩, .ok ()) ∧
      (c.batchUnfold b [(0, 3), (0, 0), (-1, 1)]).1.invB = true ∧
      c.batchUnfold b [(0, 3), (1, 0)] = (c, .error .index) := by decide

/-- **remove_all keeps the invariant**, for every predicate (operation or gate to remove) -/
theorem C05_inv_remove_all (c : Circ) (hinv : c.Inv) (pred : Op → Bool) :
    (c.removeAll pred).Inv ∧ (c.removeAll pred).radixes = c.radixes :=
  ⟨removeAll_inv c hinv pred, by rw [removeAll_eq c hinv pred]⟩

/-- **get_slice returns a circuit satisfying the invariant** (and so does `batch_pop`, whose
returned circuit is the same slice) -/
theorem C05_inv_slice (c : Circ) (hinv : c.Inv) (pts : List (Int × Int)) (s : Circ)
    (h : c.getSlice pts = .ok s) : s.Inv :=
  getSlice_inv c hinv pts s h
theorem C05_inv_batch_pop_result (c : Circ) (hinv : c.Inv) (pts : List (Int × Int)) (s : Circ)
    (h : (c.batchPop pts).2 = .ok s) : s.Inv :=
  getSlice_inv c hinv pts s (batchPop_returns_getSlice c pts ▸ h)

-- non-vacuity
example :
    let c : Circ := ⟨[2, 3, 2], [[⟨1, [], [0], [2]⟩, ⟨3, [], [2], [2]⟩], [⟨6, [], [0, 1], [2, 3]⟩],
      [⟨2, [], [0], [2]⟩, ⟨7, [], [2, 1], [2, 3]⟩]]⟩
    c.invB = true ∧ c.getSlice [(-1, 1), (0, 2)] =
      .ok ⟨[3, 2], [[⟨3, [], [1], [2]⟩], [⟨7, [], [1, 0], [2, 3]⟩]]⟩ ∧
      (c.batchPop [(-1, 1), (0, 2)]).2 = c.getSlice [(-1, 1), (0, 2)] := by decide

end BqVerif.C05
