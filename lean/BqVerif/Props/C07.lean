import BqVerif.Proofs.Sched
import BqVerif.Proofs.Mailbox
import BqVerif.Proofs.Worker
import BqVerif.Proofs.FineWake
import BqVerif.Proofs.StartOnceNet
import BqVerif.Proofs.IntegrityNet
import BqVerif.Proofs.RetOnceNet
import BqVerif.Model.RuntimeWitness
import BqVerif.Proofs.Wake
import BqVerif.Proofs.SchedExact
import BqVerif.Proofs.WakeNet
import BqVerif.Proofs.WakeNet2
import BqVerif.Proofs.WorkersInv
import BqVerif.Proofs.MapArgs
import BqVerif.Proofs.NextHandout
/-!
# C07 — every awaited runtime future resolves exactly once with its own result

Models: `Model/Mailbox.lean` (worker machine), `Model/Sched.lean` (routing arithmetic),
`Model/Network.lean` (whole system, tied to the code transition by transition),
`Model/FineWake.lean` (source-line model of `_process_await` ∥ `_handle_result`).
-/
namespace BqVerif.Runtime

/-- **Routing (R).** For a node with lower id bound `lb`, `n` employees and step size
    `step > 0`: `is_my_worker` is true exactly on the node's id range
    `[lb, lb + n·step)` (so false for `-1`, for every id below `lb` - floor division of a
    negative difference - and for every id at or past the end); inside the range
    `get_employee_responsible_for` returns the one employee whose sub-range
    `[lb + i·step, lb + (i+1)·step)` contains the id. -/
theorem C07_R_routing (lb step wid : Int) (n : Nat) (hs : 0 < step) :
    (isMyWorker lb step n wid = true ↔ (lb ≤ wid ∧ wid < lb + n * step))
    ∧ (lb ≤ wid → wid < lb + n * step →
        ∃ i : Nat, employeeFor lb step n wid = some i ∧ i < n
          ∧ lb + (i : Int) * step ≤ wid ∧ wid < lb + ((i : Int) + 1) * step
          ∧ ∀ j : Int, lb + j * step ≤ wid → wid < lb + (j + 1) * step → j = i) := by
  refine ⟨isMyWorker_iff lb step wid n hs, ?_⟩
  intro h0 h1
  obtain ⟨i, h2, h3, h4, h5⟩ := employeeFor_inRange lb step wid n hs h0 h1
  refine ⟨i, h2, h3, h4, h5, ?_⟩
  intro j hj1 hj2
  have e1 := empIndex_unique lb step wid j hs hj1 hj2
  have e2 := empIndex_unique lb step wid i hs h4 h5
  omega

/-- … in particular a result addressed to the server (`worker_id = -1`) is never mistaken for
    a worker's, and two-level routing (server → manager `i` → its `k`-th worker) reaches the
    worker whose id is `return_address.worker_id`. -/
theorem C07_R_routing_two_level (step : Int) (d nw : Nat) (i k : Nat) (hs : 0 < step)
    (hi : i < d) (hk : k < nw) (hfit : (nw : Int) ≤ step) :
    let wid : Int := (i : Int) * step + k
    isMyWorker 0 step d (-1) = false
    ∧ employeeFor 0 step d wid = some i
    ∧ employeeFor ((i : Int) * step) 1 nw wid = some k := by
  intro wid
  have hwid : wid = (i : Int) * step + k := rfl
  refine ⟨?_, ?_, ?_⟩
  · have := (isMyWorker_iff 0 step (-1) d hs)
    cases h : isMyWorker 0 step d (-1)
    · rfl
    · have := this.mp h; omega
  · have hidx : empIndex 0 step wid = i := empIndex_unique 0 step wid i hs (by omega) (by
      have : ((i : Int) + 1) * step = (i : Int) * step + step := by
        rw [Int.add_mul, Int.one_mul]
      omega)
    unfold employeeFor
    simp only [hidx]
    have : (0 : Int) ≤ (i : Int) ∧ (i : Int) < (d : Int) := by omega
    simp [this]
  · have hidx : empIndex ((i : Int) * step) 1 wid = k :=
      empIndex_unique _ 1 wid k (by omega) (by omega) (by omega)
    unfold employeeFor
    simp only [hidx]
    have : (0 : Int) ≤ (k : Int) ∧ (k : Int) < (nw : Int) := by omega
    simp [this]

example : employeeFor 0 357913941 3 715827883 = some 2 := by decide

/-- **Mailbox refinement (L), results.** A `map` mailbox refines the abstract future
    `slot → Option Val`: creation is the empty future; under E1 (a slot receives at most one
    deposit: the slot is still empty) `deposit_result` is the abstract deposit;
    the box is `ready` exactly when every slot is filled, and the value an awaiting task then
    receives is the vector of slot values in slot (= argument) order. -/
theorem C07_L_mailbox_refines (n : Nat) :
    Refines (Box.new (some n)) (Fut.create n)
    ∧ (∀ (b : Box) (f : Fut) (s : Nat) (v : Val), Refines b f → s < f.length → f[s]? = some none →
        Refines (b.deposit s v) (f.deposit s v))
    ∧ (∀ (b : Box) (f : Fut), Refines b f →
        ((b.ready = true ↔ f.complete = true)
         ∧ b.value = [1, f.length] ++ (f.map encOpt).flatten)) :=
  ⟨Refines.create n, fun _ _ s v h hs he => h.deposit s v hs he,
   fun _ _ h => ⟨h.ready_iff, h.value⟩⟩

example : (((Box.new (some 2)).deposit 1 [7]).deposit 0 [5]).value = [1, 2, 5, 7] := by decide

/-- **`map` over argument sequences of different lengths (L).**  `Worker.map(fn, *args)` zips its
    argument sequences: with `n` the minimum of their lengths (`mapCount`), exactly the first `n`
    child programs get a task (slots `0 … n-1`), the mailbox is created with `n` slots
    (`Box.new (some n)` in `runBody`, `.map ps` with `ps.length = n`), and for any results `ds` of
    pairwise distinct created tasks the mailbox is ready **exactly when all `n` created tasks have
    returned** - never earlier, and (because no slot is left that nobody fills) always then.
    Sizing the mailbox by `len(args[0])` instead would break the right-to-left direction whenever
    the first sequence is not the shortest one. -/
theorem C07_L_map_zip_slots (pids others : List Nat) :
    let n := mapCount (pids.length :: others)
    Instr.mapArgs pids others = .map (pids.take n)
    ∧ (pids.take n).length = n
    ∧ (∀ l ∈ pids.length :: others, n ≤ l) ∧ n ∈ pids.length :: others
    ∧ ∀ (ds : List (Nat × Val)), (∀ d ∈ ds, d.1 < n) → (ds.map (·.1)).Nodup →
        ((depositAll (Box.new (some n)) ds).ready = true ↔ (ds.length = n ∧ 0 < n)) := by
  intro n
  have hs := mapCount_spec pids.length others
  refine ⟨rfl, ?_, hs.1, hs.2, fun ds h1 h2 => map_ready_iff n ds h1 h2⟩
  have := hs.1 pids.length (by simp)
  simp only [List.length_take]
  omega

/-- non-vacuity: `map(f, [p7, p8, p9, p7], [x, y])` creates two tasks in a two-slot mailbox, which
    is ready after both results and not after one -/
example :
    mapCount [4, 2] = 2 ∧ Instr.mapArgs [7, 8, 9, 7] [2] = .map [7, 8]
    ∧ (depositAll (Box.new (some 2)) [(1, [5]), (0, [6])]).ready = true
    ∧ (depositAll (Box.new (some 2)) [(1, [5])]).ready = false := by decide

/-- **Mailbox refinement (L), `next()` batches.** For any sequence of deposits and
    `get_new_results` calls on a mailbox, the batches handed out so far followed by what is
    still fresh are exactly the deposits, in arrival order: batches are pairwise disjoint,
    nothing is handed out twice, and together with the fresh list they are complete. -/
theorem C07_L_next_batches (b : Box) (ops : List BOp) (hb : b.fresh = none ∨ b.fresh = some []) :
    takenOf [] ops ++ ((ops.foldl Box.applyB b).fresh.getD []) = depositsOf ops := by
  have h0 : b.fresh.getD [] = [] := by rcases hb with h | h <;> simp [h]
  rw [fresh_run, h0, batches_partition]; rfl

example : takenOf [] [.dep 1 [7], .take, .dep 0 [5], .take] = [(1, [7]), (0, [5])] := rfl

/-- **The cancelled set only grows, mailbox ids are fresh** (used by C12; stated here because
    result integrity relies on it: a mailbox id is never reused for another future). -/
theorem C07_L_mailbox_ids_fresh (tbl : Table) (w : Worker) (hf : Fresh w) :
    Fresh (w.step tbl).w ∧ ∀ m, Fresh (w.recv m) :=
  ⟨(step_mono tbl w).fresh hf, fun m => (recv_mono w m).fresh hf⟩

/-- **Token uniqueness (G1, G6 of the keystone) — flat topology.**
    A *token* of a task address `a` is the task itself inside a SUBMIT / SUBMIT_BATCH message in
    any channel, in a worker's delayed list or task table, or its RESULT message in any channel.
    In every state reachable from the initial state of a server managing `nw` workers directly
    (`nc` clients, any program table) by any sequence of transitions - deliveries in any order,
    worker loop iterations, client calls, *any* assignment and iteration order fed to the
    relational steps, shutdown and error paths included - every address has **at most one
    token** (a task is never duplicated: not by `schedule_tasks`, not by batching, not by
    result forwarding), and token addresses are *fresh*: below the mailbox counter of the
    worker (or of the server, for root tasks) that created them, so `submit`/`map` can never
    re-issue an address in use.
    (`_partial`: this is the safety half G1+G6 of `C07_G_token`; the existence half G2 - no
    token is lost unless cancelled - and result integrity G3/G4 are validated by the harness
    on every run but not yet proved; manager trees are not covered.) -/
theorem C07_G_token_unique_partial (tbl : Table) (attached : Bool) (nw nc : Nat) (trs : List Tr)
    (hwf : ∀ t ∈ trs, t.wf) :
    let n := (Net.initFlat tbl attached nw nc).exec trs
    (∀ a, Tok a n ≤ 1)
    ∧ (∀ w ∈ n.workers, ∀ a, a.w = w.id → 0 < Tok a n → a.m < w.counter)
    ∧ (∀ a, a.w = -1 → 0 < Tok a n → a.m < n.server.counter) := by
  have h := (GInv.init tbl attached nw nc).exec trs hwf
  exact ⟨h.uniq, h.freshW, h.freshS⟩

/-- non-vacuity: a real run (the client-cancel run of C12) satisfies the hypothesis and, after
    its first nine transitions, is in a state that does hold a token (the child task in a
    SUBMIT_BATCH message on its way to the worker) -/
example : (∀ t ∈ leakRun, t.wf)
    ∧ Tok ⟨0, 0, 0⟩ ((Net.initFlat leakTable false 1 1).exec (leakRun.take 9)) = 1 := by
  refine ⟨?_, by decide +kernel⟩
  intro t ht
  simp only [leakRun, List.mem_cons, List.mem_nil_iff, or_false] at ht
  rcases ht with rfl | rfl | rfl | rfl | rfl | rfl | rfl | rfl | rfl | rfl | rfl | rfl | rfl | rfl <;>
    first | trivial | (intro a; rfl)

/-- **Every task body is started at most once** (flat topology, all schedules): in the event
    log of any run of the network model - any table, any number of workers and clients, any
    delivery order, any assignment, error and shutdown paths included - the event
    `start a` (the body of the task with address `a` is entered) occurs at most once for every
    address `a`.  Proof: the potential "unstarted task tokens of `a`" + "`a` not created yet"
    never increases and every `start a` decreases it (`Proofs/StartOnce*.lean`), on top of
    token uniqueness. -/
theorem C07_G_start_once_partial (tbl : Table) (attached : Bool) (nw nc : Nat) (trs : List Tr)
    (hwf : ∀ t ∈ trs, t.wf) (a : Addr) :
    startsOf a ((Net.initFlat tbl attached nw nc).execEvs trs) ≤ 1 :=
  starts_at_most_once tbl attached nw nc trs hwf a

/-- non-vacuity: the leak run does start the root task -/
example : startsOf ⟨-1, 0, 0⟩ ((Net.initFlat leakTable false 1 1).execEvs leakRun) = 1 := by
  decide +kernel


/-- **Result integrity (G3, G4 of the keystone) — flat topology, all schedules.**
    With `H` the log of body events of the run: in the state reached by any run,
    (1) every RESULT message in any channel carries a value that the task with that return
    address returned (`ret a _ v ∈ H`); (2) every filled slot `s` of every mailbox `m` of every
    worker `w` holds a value returned by a task whose return address is `(w, m, s)` (for a
    single-result mailbox: `(w, m, ·)`); (3) every result stored in a server mailbox `m` was
    returned by a task addressed to `(-1, m, ·)`.  So results are never mis-routed, mixed up
    between slots, or invented.
    (`_partial`: flat topology; uniqueness of the returned value is `C07_G_return_once_partial`;
    the client leg `sResult` is covered by the correspondence only.) -/
theorem C07_G_integrity_partial (tbl : Table) (attached : Bool) (nw nc : Nat) (trs : List Tr)
    (hwf : ∀ t ∈ trs, t.wf) :
    let n := (Net.initFlat tbl attached nw nc).exec trs
    let H := (Net.initFlat tbl attached nw nc).execEvs trs
    (∀ c ∈ n.chans, ∀ a v b, Msg.result a v b ∈ c.2 → RetIn H a v)
    ∧ (∀ w ∈ n.workers, ∀ m b, (m, b) ∈ w.boxes → ∀ s v, b.slots[s]? = some (some v) →
        ∃ s', RetIn H ⟨w.id, m, s'⟩ v ∧ (b.single = false → s' = s))
    ∧ (∀ p ∈ n.server.boxes, ∀ v, p.2.result = some v → ∃ s, RetIn H ⟨-1, p.1, s⟩ v) := by
  have h := (IInv.init tbl attached nw nc).exec (GInv.init tbl attached nw nc) trs hwf
  simp only [List.nil_append] at h
  exact ⟨fun c hc a v b hm => h.chans c hc a v b hm, h.workers, h.server⟩

/-- **Every task returns at most once, so "a value it returned" is "its value"** (flat topology,
    all schedules): the event `ret a` occurs at most once per address (same potential argument as
    for `start`, `Proofs/RetOnce*.lean`); hence two `ret` events of the same address in the log
    of a run carry the same value - together with `C07_G_integrity_partial`: whatever sits in a
    RESULT message, a mailbox slot or a server mailbox is *the* value the task addressed to it
    returned. -/
theorem C07_G_return_once_partial (tbl : Table) (attached : Bool) (nw nc : Nat) (trs : List Tr)
    (hwf : ∀ t ∈ trs, t.wf) (a : Addr) :
    let H := (Net.initFlat tbl attached nw nc).execEvs trs
    retsOf a H ≤ 1 ∧ ∀ v v', RetIn H a v → RetIn H a v' → v = v' := by
  have h := rets_at_most_once tbl attached nw nc trs hwf a
  refine ⟨h, ?_⟩
  rintro v v' ⟨t, h1⟩ ⟨t', h2⟩
  exact ret_unique a _ h t t' v v' h1 h2

example : retsOf ⟨-1, 0, 0⟩ ((Net.initFlat driftTable false 1 1).execEvs driftRun) = 1 := by
  decide +kernel


/-- … and what an `await` hands to the body is exactly the content of the awaited mailbox,
    which is ready at that moment: `box.result`, the slot vector in argument order. -/
theorem C07_L_await_value (w w' : Worker) (t t' : Task) (v : Val)
    (h : desiredResult w t = .ok (w', t', some v)) (hn : t.wakeNext = false) :
    ∃ m b, t.desired = some m ∧ boxGet w.boxes m = some b ∧ b.ready = true ∧ v = b.value := by
  unfold desiredResult at h
  split at h
  · simp at h
  · rename_i m hm
    split at h
    · simp at h
    · rename_i b hb
      simp only [hn, Bool.false_eq_true, if_false] at h
      split at h
      · simp at h
      · rename_i hr
        split at h
        · simp at h
        · simp only [Except.ok.injEq, Prod.mk.injEq, Option.some.injEq] at h
          exact ⟨m, b, hm, hb, by simpa using hr, h.2.2.symm⟩

/-- non-vacuity of the integrity theorem: in the leak run the root's mailbox on the worker does
    not exist any more but a RESULT-free state is reached; in the drift run the server mailbox
    holds the root's result -/
example : ((Net.initFlat driftTable false 1 1).exec driftRun).server.boxes.map (fun p => p.2.result.isSome)
    = [true] := by decide +kernel


/-- **Wake discipline, worker level (handlers atomic): the assertions of `_get_desired_result`
    are unreachable.**  Start from a worker with empty tables and apply any sequence of incoming
    messages and loop iterations that meets the environment assumptions `Worker.okRun`
    (`Proofs/Wake.lean`): tasks that arrive (SUBMIT / SUBMIT_BATCH) have not run and carry an
    address the worker does not know; no result - by message or by a local return - is deposited
    into a mailbox that is already complete.  Then for the task the next loop iteration picks,
    `_get_desired_result` either succeeds or raises KeyError because the awaited mailbox was dropped
    (a cancelled future): `assert box.ready`, `assert box.fresh_results is not None` and the
    ValueError of `owned_mailboxes.remove` cannot fire.  (Both assumptions are global facts -
    addresses are unique, every slot is answered once; the line-level race below shows what
    happens when the handlers are not atomic.) -/
theorem C07_L_assert_unreachable (tbl : Table) (w0 : Worker) (ops : List WOp)
    (h1 : w0.tasks = []) (h2 : w0.ready = []) (h3 : w0.boxes = []) (h4 : w0.delayed = [])
    (hok : Worker.okRun tbl w0 ops) (t0 : Task)
    (hp : (Worker.pick (ops.foldl (Worker.applyOp tbl) w0).pickFuel
            { (ops.foldl (Worker.applyOp tbl) w0) with blocked := false }).task = some t0)
    (cls : Nat)
    (he : desiredResult (Worker.pick (ops.foldl (Worker.applyOp tbl) w0).pickFuel
            { (ops.foldl (Worker.applyOp tbl) w0) with blocked := false }).w t0 = .error cls) :
    cls = eKey :=
  assert_unreachable _ (run_winv tbl w0 ops (winv_init w0 h1 h2 h3 h4) hok) t0 hp cls he

/-- **No lost wake-up, worker level.**  Under the same assumptions, in every reachable state: a
    task of the table that is not cancelled (neither its address nor an ancestor is in
    `_cancelled_task_ids`) and waits for a mailbox that still exists is in the ready queue as soon
    as the mailbox is complete; and while it is not in the ready queue it is the registered waiter
    (`dest_addr`) of that - incomplete - mailbox, so the next result wakes it. -/
theorem C07_L_no_lost_wakeup (tbl : Table) (w0 : Worker) (ops : List WOp)
    (h1 : w0.tasks = []) (h2 : w0.ready = []) (h3 : w0.boxes = []) (h4 : w0.delayed = [])
    (hok : Worker.okRun tbl w0 ops) (t : Task) (ht : t ∈ (ops.foldl (Worker.applyOp tbl) w0).tasks)
    (hu : t.uncancelled (ops.foldl (Worker.applyOp tbl) w0)) (m : Nat) (b : Box)
    (hd : t.desired = some m) (hb : boxGet (ops.foldl (Worker.applyOp tbl) w0).boxes m = some b) :
    (b.ready = true → t.addr ∈ (ops.foldl (Worker.applyOp tbl) w0).ready)
    ∧ (t.addr ∉ (ops.foldl (Worker.applyOp tbl) w0).ready → b.ready = false ∧ b.dest = some t.addr) := by
  have h := run_winv tbl w0 ops (winv_init w0 h1 h2 h3 h4) hok
  obtain ⟨a1, a2⟩ := no_lost_wakeup _ h t ht hu m b hd hb
  refine ⟨a1, fun hn => ⟨?_, a2 hn⟩⟩
  cases hr : b.ready with
  | false => rfl
  | true => exact absurd (a1 hr) hn

/-- **`self._tasks[box.dest_addr]` in `_handle_result` cannot raise**: under the same assumptions
    a RESULT addressed to this worker never kills the incoming thread. -/
theorem C07_L_result_lookup_ok (tbl : Table) (w0 : Worker) (ops : List WOp)
    (h1 : w0.tasks = []) (h2 : w0.ready = []) (h3 : w0.boxes = []) (h4 : w0.delayed = [])
    (hok : Worker.okRun tbl w0 ops) (a : Addr) (v : Val) (by_ : Int)
    (hr : (ops.foldl (Worker.applyOp tbl) w0).okRecv (.result a v by_))
    (ha : a.w = (ops.foldl (Worker.applyOp tbl) w0).id) :
    ((ops.foldl (Worker.applyOp tbl) w0).recv (.result a v by_)).inDead
      = (ops.foldl (Worker.applyOp tbl) w0).inDead :=
  result_lookup_ok _ (run_winv tbl w0 ops (winv_init w0 h1 h2 h3 h4) hok) a v by_ hr ha

/-- non-vacuity: a root that submits a child and awaits it, the child is scheduled on the same
    worker, returns locally and wakes the root, which returns - the run meets the assumptions and
    ends with empty tables -/
example :
    let tbl : Table := [[.sub 1, .await 0, .ret], [.ret]]
    let root : Task := { addr := ⟨-1, 0, 0⟩, comp := 0, crumbs := [], prog := 0, tag := [0] }
    let child : Task := { addr := ⟨0, 0, 0⟩, comp := 0, crumbs := [⟨-1, 0, 0⟩], prog := 1, tag := [0, 0, 0] }
    let ops : List WOp := [.recv (.submit root), .step, .recv (.submit child), .step, .step]
    Worker.okRun tbl { id := 0 } ops
    ∧ (ops.foldl (Worker.applyOp tbl) { id := 0 }).tasks = []
    ∧ (ops.foldl (Worker.applyOp tbl) { id := 0 }).boxes = [] := by
  refine ⟨okRunB_sound _ _ _ (by decide +kernel), by decide +kernel, by decide +kernel⟩

/-- **Wake discipline on the flat network, for ALL schedules** (handlers atomic).  For every run
    of the flat network - any table, workers, clients, assignments, delivery orders, cancellations,
    error and shutdown paths - and every worker `w` of the reached state:
    * the task its next loop iteration picks passes `_get_desired_result` or gets KeyError because
      the awaited mailbox was dropped (cancelled future): `assert box.ready`,
      `assert box.fresh_results is not None` and the ValueError of `owned_mailboxes.remove` are
      unreachable;
    * no wake-up is lost: a task that is not cancelled and waits for an existing mailbox is in the
      ready queue when the mailbox is complete, and is the mailbox's registered waiter otherwise;
    * a RESULT in flight to the worker never finds its mailbox complete, and handling it never
      kills the incoming thread (`self._tasks[box.dest_addr]` cannot raise).
    Both environment assumptions of the worker-level theorems are *proved* on the network:
    arriving addresses are unknown to the worker (token uniqueness `GInv`; an address whose token is
    gone never comes back, `PsiA`), and no result is deposited into a complete mailbox (for every
    mailbox, results deposited + outstanding tokens of its slots ≤ `expected_num_results`, and a
    token's slot index is below it).  Invariant `NInv2` (`Proofs/WakeNet.lean`, `BoxCount.lean`,
    `WakeNet2.lean`) over `deliver / workerStep / clientSend`. -/
theorem C07_G_wake_discipline (tbl : Table) (attached : Bool) (nw nc : Nat) (trs : List Tr)
    (hwf : ∀ t ∈ trs, t.wf)
    (w : Worker) (hw : w ∈ ((Net.initFlat tbl attached nw nc).exec trs).workers) :
    (∀ t0 cls, (Worker.pick w.pickFuel { w with blocked := false }).task = some t0 →
        desiredResult (Worker.pick w.pickFuel { w with blocked := false }).w t0 = .error cls → cls = eKey)
    ∧ (∀ t ∈ w.tasks, t.uncancelled w → ∀ m b, t.desired = some m → boxGet w.boxes m = some b →
        (b.ready = true → t.addr ∈ w.ready) ∧ (t.addr ∉ w.ready → b.dest = some t.addr))
    ∧ (∀ src a v by_ rest,
        chanGet ((Net.initFlat tbl attached nw nc).exec trs).chans (src, .wrk w.id) = .result a v by_ :: rest →
        a.w = w.id →
        (∀ bx, boxGet w.boxes a.m = some bx → bx.ready = false)
        ∧ (w.recv (.result a v by_)).inDead = w.inDead) := by
  have h2 := (NInv2.init tbl attached nw nc).exec trs hwf
  have h := h2.base.winv w hw
  refine ⟨fun t0 cls hp he => assert_unreachable w h t0 hp cls he,
    fun t ht hu m b hd hb => no_lost_wakeup w h t ht hu m b hd hb, ?_⟩
  intro src a v by_ rest hk haw
  have h1 := Tok_head_worker a _ (src, .wrk w.id) _ rest hk w hw
  simp only [tokMsg, if_true] at h1
  have hnr : ∀ bx, boxGet w.boxes a.m = some bx → bx.ready = false :=
    fun bx hbx => ready_false_of_lt bx (h2.not_ready w hw a haw (by omega) bx hbx)
  exact ⟨hnr, result_lookup_ok w h a v by_ (fun _ => hnr) haw⟩

/-- **Progress, the local half** (flat network, all schedules).  In every reachable quiescent
    state, on every live worker: there is no delayed task; and every task that is not cancelled and
    waits for a mailbox that still exists waits for an *incomplete* mailbox
    (`num_results < expected_num_results`, with `num_results` + outstanding tokens of its slots
    ≤ expected) and is that mailbox's registered waiter - nobody sleeps on a complete mailbox.
    What is missing for `C07_G_progress`: the lower token bound (an incomplete mailbox of a
    non-cancelled owner has an outstanding token), see the design note. -/
theorem C07_G_quiescent_partial (tbl : Table) (attached : Bool) (nw nc : Nat) (trs : List Tr)
    (hwf : ∀ t ∈ trs, t.wf) (hq : ((Net.initFlat tbl attached nw nc).exec trs).quiescent = true)
    (w : Worker) (hw : w ∈ ((Net.initFlat tbl attached nw nc).exec trs).workers)
    (hal : w.alive = true) (hmd : w.mainDead = false) :
    w.delayed = [] ∧ w.ready = []
    ∧ ∀ t ∈ w.tasks, t.uncancelled w → ∀ m b, t.desired = some m → boxGet w.boxes m = some b →
        b.ready = false ∧ b.dest = some t.addr
        ∧ b.num + sumTok w.id m b.expected ((Net.initFlat tbl attached nw nc).exec trs) ≤ b.expected := by
  have hc := cinv_exec tbl attached nw nc trs hwf w hw
  have h2 := (NInv2.init tbl attached nw nc).exec trs hwf
  have hW := h2.base.winv w hw
  simp only [Net.quiescent, Bool.and_eq_true, List.all_eq_true] at hq
  have hidle := hq.2 w hw
  simp only [hal, hmd, Bool.not_true, Bool.false_or, Bool.and_eq_true, List.isEmpty_iff] at hidle
  refine ⟨hc.idle hidle.1 hidle.2, hidle.2, ?_⟩
  intro t ht hu m b hd hb
  obtain ⟨a1, a2⟩ := no_lost_wakeup w hW t ht hu m b hd hb
  have hnr : t.addr ∉ w.ready := by rw [hidle.2]; simp
  refine ⟨?_, a2 hnr, h2.cnt w hw m b hb⟩
  cases hr : b.ready with
  | false => rfl
  | true => exact absurd (a1 hr) hnr

/-- the assumption of the (former) partial version holds in every reachable state -/
theorem C07_G_no_deposit_into_complete (tbl : Table) (attached : Bool) (nw nc : Nat) (trs : List Tr)
    (hwf : ∀ t ∈ trs, t.wf) (t : Tr) : ((Net.initFlat tbl attached nw nc).exec trs).depositOK t :=
  ((NInv2.init tbl attached nw nc).exec trs hwf).depositOK t

/-- non-vacuity: a root that submits a child and awaits it on a one-worker network; the child returns
    locally, the root resumes and returns to the server - the run meets the assumption, and the
    server mailbox holds the root's result -/
example :
    let tbl : Table := [[], [.sub 0, .await 0]]
    let run : List Tr := [
      .step 0, .client 0 (some (.cSubmit 0 1)) false, .deliver (.client 0) .server [0] [] false,
      .deliver .server (.wrk 0) [] [] false, .step 0,
      .deliver (.wrk 0) .server [] [] false, .deliver (.wrk 0) .server [0] [] false,
      .deliver .server (.wrk 0) [] [] false, .step 0, .step 0,
      .deliver (.wrk 0) .server [] [] false, .deliver (.wrk 0) .server [] [] false,
      .deliver (.wrk 0) .server [] [] false]
    (Net.initFlat tbl false 1 1).depositsOK run
    ∧ ((Net.initFlat tbl false 1 1).exec run).server.boxes.map (fun p => p.2.result.isSome) = [true] := by
  refine ⟨depositsOKB_sound _ _ (by decide +kernel), by decide +kernel⟩

/-- **Manager trees: a manager neither loses nor duplicates a task or a result.**  For every
    message a `Manager` handles without reporting an error (`note = "ok"`: the observed assignment
    is a legal outcome of `assign_tasks`, no system error), and every address `a`: the number of
    tasks / results with address `a` in the messages it sends (down to employees and up to the
    server together) equals the number in the message it received.  In particular
    `send_up_or_schedule_tasks` hands each task either to exactly one employee or, in the
    forwarded rest, to the server. -/
theorem C07_T_manager_conserves (a : Addr) (g : Manager) (src : NodeId) (m : Msg) (asg : List Nat)
    (hn : (g.handle src m asg).note = "ok") :
    tokOut a (g.handle src m asg).direct + tokOut a (g.handle src m asg).queued = tokMsg a m :=
  Manager.handle_conserves a g src m asg hn

/-- **Manager trees: results are routed by id range.**  A RESULT coming from above is sent to the
    employee responsible for `return_address.worker_id` (which `C07_R_routing` shows to be the
    unique employee whose id range contains it) and to nobody else; a RESULT coming from below goes
    down to the responsible employee (plus `UPDATE(-1)` upwards) when the destination is in this
    manager's range, and is forwarded to the server unchanged otherwise. -/
theorem C07_T_manager_routes_result (g : Manager) (x : Addr) (v : Val) (by_ : Int) (asg : List Nat) :
    ((g.fromAbove (.result x v by_) asg).note = "ok" →
      isMyWorker g.boss.lb g.boss.step g.boss.emps.length x.w = true ∧
      ∃ ei, employeeFor g.boss.lb g.boss.step g.boss.emps.length x.w = some ei ∧
        (g.fromAbove (.result x v by_) asg).queued = [((g.boss.emps.getD ei default).node, .result x v by_)])
    ∧ (∀ ei0, (g.fromBelow ei0 (.result x v by_) asg).note = "ok" →
      (isMyWorker g.boss.lb g.boss.step g.boss.emps.length x.w = false →
        (g.fromBelow ei0 (.result x v by_) asg).queued = [(.server, .result x v by_)])
      ∧ (isMyWorker g.boss.lb g.boss.step g.boss.emps.length x.w = true →
        ∃ ei, employeeFor g.boss.lb g.boss.step g.boss.emps.length x.w = some ei ∧
          (g.fromBelow ei0 (.result x v by_) asg).queued =
            [((g.boss.emps.getD ei default).node, .result x v by_), (.server, .update (-1))])) := by
  constructor
  · intro hn
    simp only [Manager.fromAbove] at hn ⊢
    split
    · rename_i hh; rw [if_pos hh] at hn; simp [Manager.systemError] at hn
    · rename_i hh
      rw [if_neg hh] at hn
      refine ⟨by simpa using hh, ?_⟩
      split
      · rename_i h2; rw [h2] at hn; simp [Manager.systemError] at hn
      · rename_i ei h2; exact ⟨ei, h2, rfl⟩
  · intro ei0 hn
    simp only [Manager.fromBelow] at hn ⊢
    split
    · rename_i hh; rw [hh] at hn; simp [Manager.systemError] at hn
    · rename_i b' hh
      rw [hh] at hn
      obtain ⟨l1, l2, l3, hnode⟩ := completed_shape g.boss b' by_ hh
      dsimp only at hn ⊢
      rw [l1, l2, l3] at hn ⊢
      refine ⟨fun hf => by simp [hf], fun ht => ?_⟩
      rw [if_pos ht] at hn ⊢
      split
      · rename_i h2; rw [h2] at hn; simp [Manager.systemError] at hn
      · rename_i ei h2
        refine ⟨ei, h2, ?_⟩
        simp only [hnode]

/-- non-vacuity: a manager over two idle workers receives three tasks from below, schedules two
    and sends the third up -/
example :
    let es : List Emp := [{ id := 0, total := 1, idle := 1 }, { id := 1, total := 1, idle := 1 }]
    let b : Boss := { lb := 0, step := 1, numIdle := 2, total := 2, emps := es }
    let g : Manager := { boss := b, idx := 0, lastSent := 2 }
    let t : Nat → Task := fun i => { addr := ⟨0, 0, i⟩, comp := 0, crumbs := [], prog := 0, tag := [i] }
    (g.handle (.wrk 0) (.batch [t 0, t 1, t 2]) [0, 1]).note = "ok"
    ∧ ((g.handle (.wrk 0) (.batch [t 0, t 1, t 2]) [0, 1]).queued.map (·.1))
        = [.server, .wrk 0, .wrk 1, .server, .server] := by
  refine ⟨by decide, by decide⟩

/-- **Line level: the code as it is (with `self._mailbox_mutex`) never wakes a task twice.**
    Source-line model of `_process_await` ∥ `_handle_result` with the lock both bodies run under
    (`FineWake.run true`): for **every** schedule of the two threads no exception leaves task code
    (`assert box.ready` of `_get_desired_result`, 'Cannot await on a canceled task.'), the incoming
    thread does not crash, and the task's address is never in the ready queue twice.
    (Finite reachable set, closed under both step functions, checked by `decide`; the statements
    and the extent of the `with` blocks are tied to the source by the AST query and the
    scheduler-controlled line-level runs of `harness/runtime_fine.py`.) -/
theorem C07_fine_lock_safe (sched : List Bool) :
    (FineWake.runL {} sched).main ≠ .failed ∧ (FineWake.runL {} sched).inc ≠ .crashed
    ∧ (FineWake.runL {} sched).maxReady ≤ 1 := by
  have hsafe : ∀ l ∈ FineWake.reach, l.main ≠ .failed ∧ l.inc ≠ .crashed ∧ l.maxReady ≤ 1 := by
    decide +kernel
  exact hsafe _ (FineWake.run_reach sched _ FineWake.reach_init)

/-- **Line level: no lost wake-up, no deadlock on the lock.**  After *any* schedule prefix the two
    threads can still finish: some continuation delivers both results, wakes the task exactly when
    its awaited mailbox is complete, and the task returns (`finished`); and a state in which neither
    thread can move is the final state. -/
theorem C07_fine_lock_complete (sched : List Bool) :
    (∃ ext, (FineWake.runL {} (sched ++ ext)).main = .finished
        ∧ (FineWake.runL {} (sched ++ ext)).inc = .done)
    ∧ (FineWake.stepMain true (FineWake.runL {} sched) = FineWake.runL {} sched →
       FineWake.stepInc true (FineWake.runL {} sched) = FineWake.runL {} sched →
       (FineWake.runL {} sched).main = .finished ∧ (FineWake.runL {} sched).inc = .done) := by
  have hcompl : ∀ l ∈ FineWake.reach,
      (FineWake.runL l FineWake.completion).main = .finished
      ∧ (FineWake.runL l FineWake.completion).inc = .done := by decide +kernel
  have hstuck : ∀ l ∈ FineWake.reach, FineWake.stepMain true l = l → FineWake.stepInc true l = l →
      l.main = .finished ∧ l.inc = .done := by decide +kernel
  have hr := FineWake.run_reach sched _ FineWake.reach_init
  refine ⟨⟨FineWake.completion, ?_⟩, hstuck _ hr⟩
  rw [FineWake.run_append]
  exact hcompl _ hr

/-- REGRESSION (pre-fix variant `run false`, NOT the code as it is): without the lock the schedule
    in which the incoming thread handles the result of `f0` right after the main thread executed
    `box.dest_addr = task.return_address` puts the task's address into the ready queue twice; the
    stale second wake-up hits `assert box.ready` on the mailbox of `f1` (`failed`).  This was the
    finding `fine-race:double-wake` (fixed by the maintainer's mailbox-mutex commit); the same
    schedule is harmless under the lock (the incoming thread's steps do not move while the main
    thread is inside `_process_await`). -/
example :
    (FineWake.run false {} FineWake.raceSchedule).main = .failed
    ∧ (FineWake.run false {} FineWake.raceSchedule).maxReady = 2
    ∧ (FineWake.runL {} FineWake.raceSchedule).main ≠ .failed
    ∧ (FineWake.runL {} FineWake.raceSchedule).maxReady ≤ 1 := by
  decide


/-- **`next()` hand-out against result delivery, source-line model, ALL schedules**
    (`Model/NextHandout.lean`: `out = self.fresh_results` / `self.fresh_results = []` on the main
    thread, outside the mailbox mutex; `self.fresh_results.append(x)` on the incoming thread).  For
    every schedule in which the hand-out performs its two statements - any number of deliveries
    before, between and after them - what the task is handed followed by what stays fresh is
    exactly what was fresh before followed by the results delivered, in order: nothing is lost,
    nothing is handed out twice.  (The aliasing of `out` is what makes the unlocked window safe:
    a result delivered between the two lines lands in the list the task is about to receive.) -/
theorem C07_fine_next_handout {α : Type} (init : List α) (es : List (BqVerif.NextHandout.Ev α))
    (h2 : ∃ e ∈ es, match e with | .a2 => True | _ => False) :
    let s := BqVerif.NextHandout.run { c0 := init } es
    BqVerif.NextHandout.handed s ++ BqVerif.NextHandout.remaining s
      = init ++ BqVerif.NextHandout.delivered es := by
  have h := BqVerif.NextHandout.run_inv es { c0 := init } init [] (by simp) (by simp)
  simp only [List.nil_append] at h
  have hf := h.2.2.1 h2
  simp only [BqVerif.NextHandout.handed, BqVerif.NextHandout.remaining, hf, if_true]
  exact h.1

/-- the statement bites: with a COPY and an in-place `clear()` (seeded change C07-4) a result
    delivered between the two lines is lost - the schedule the single-preemption exploration of
    the harness finds on the real Worker -/
theorem C07_fine_next_handout_copy_clear_witness :
    let s := BqVerif.NextHandout.runV { c0 := [0] } [.a1, .b 1, .a2]
    s.out ++ s.c0 = [0] ∧ BqVerif.NextHandout.delivered ([.a1, .b 1, .a2] : List (BqVerif.NextHandout.Ev Nat)) = [1]
    ∧ (let t := BqVerif.NextHandout.run { c0 := [0] } ([.a1, .b 1, .a2] : List (BqVerif.NextHandout.Ev Nat))
       BqVerif.NextHandout.handed t ++ BqVerif.NextHandout.remaining t = [0, 1]) := by decide

end BqVerif.Runtime
