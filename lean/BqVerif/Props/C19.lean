import BqVerif.Proofs.CostSel
import BqVerif.Generated.InstOrder
/-!
# C19 — cost functions and instantiation are faithful to circuit semantics
(work in progress: selection theorems first)
-/
namespace BqVerif.C19
open BqVerif.Cost

/-- `sorted(params_list, key=cost)[0]` returns the FIRST candidate of least cost: it is a member,
no candidate is cheaper, every earlier candidate is strictly more expensive; and it is `none`
(Python: `IndexError`) exactly for the empty list. -/
theorem C19_argmin {P κ : Type} [LinearOrder κ] (ps : List P) (cost : P → κ) :
    (multiStart ps cost = none ↔ ps = []) ∧
    ∀ p, multiStart ps cost = some p ↔
      ∃ pre post, ps = pre ++ p :: post ∧ (∀ q ∈ pre, cost p < cost q) ∧ (∀ q ∈ post, cost p ≤ cost q) := by
  refine ⟨multiStart_none cost ps, fun p => ⟨fun h => ?_, ?_⟩⟩
  · obtain ⟨hmin, pre, post, hl, hpre⟩ := multiStart_spec cost ps p h
    exact ⟨pre, post, hl, hpre, fun q hq => hmin q (by rw [hl]; simp [hq])⟩
  · rintro ⟨pre, post, rfl, hpre, hpost⟩
    exact multiStart_of_first cost pre post p hpre hpost

example : multiStart [3, 1, 2, 1] (fun (n : Nat) => n % 3) = some 3 := by decide

end BqVerif.C19
