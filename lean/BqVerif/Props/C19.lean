import BqVerif.Proofs.CostSel
import BqVerif.Proofs.CostC
import BqVerif.Proofs.CostResid
import BqVerif.Proofs.CostSetParams
import BqVerif.Proofs.CircInvB
import BqVerif.Generated.InstOrder
/-!
# C19 — cost functions and instantiation are faithful to circuit semantics

What is modelled (`Model/Cost.lean`, exact Gaussian rationals `Model/NumC19.lean`): the FORMULAS the
binary engine `bqskitrs` must realise (Hilbert–Schmidt cost for unitary / state / state-system
targets, residual vectors and Jacobians as coded, gradient numerators), the multi-start selection
`sorted(params_list, key=cost)[0]`, the method selection of `Circuit.instantiate`, and
`Circuit.set_params` on the list-of-cycles circuit.  The engine itself and the optimisers are NOT
modelled: `harness/c19.py` compares their observable values with these formulas (numpy oracle, the
compiled model in exact arithmetic, finite differences).  So the property as a whole is *partial by
nature*; the theorems below are nevertheless full-strength statements about the definitions:

* `C19_cost_zero_iff`, `_state`, `_system`, `C19_cost_range` — over complex matrices: the cost is 0
  exactly when circuit and target agree up to a global phase, and it lies in [0, 1] (Cauchy–Schwarz
  with its equality case, proved algebraically: `‖B − λA‖² = 0` for `λ = t/c`);
  `C19_cost_zero_iff_model` — the same for the executable model over ℚ(i), through
  `cost·(2 − cost) = 1 − |t|²/K²`;
* `C19_grad_formula`, `_state`, `C19_grad_trace`, `C19_gradNum_model` — chain rule under any
  derivation of a commutative *-ring;
* `C19_residual_cost` (+ `_unitary`, `_witness`) — `Σ residual² = ‖T‖² − 2·Re t + N` exactly as coded;
  the residual VECTOR is not invariant under a global phase (witness), only `get_cost` is;
* `C19_argmin`, `C19_sort_stable` — the head of a stable sort by key is the first minimiser;
* `C19_instantiate_structure`, `C19_set_params_roundtrip` — `set_params` touches nothing but
  parameter values and `params` reads back what was set; `C19_instantiate_keeps_least` — the two
  together: after multi-start instantiation the circuit carries a candidate of least cost;
* `C19_dimension_guard` — after the method selection a target of another dimension is `ValueError`;
* `C19_selection_order`, `C19_order_table` — first capable / first named instantiater; the live
  `instantiater_order`, the `is_capable` bodies and the `sorted(...)[0]` expressions (regenerated into
  `Generated/InstOrder.lean` on every run) are what the model assumes.

Vocabulary: `CostAlg.hs A B = tr(A†B)`; `Cost.IsoM A`: the model matrix `A` has `A†A = 1`;
`Cost.shape o = (gid, loc, rad)`.
-/
namespace BqVerif.C19
open BqVerif.Cost BqVerif.NumC19 BqVerif.CostAlg Matrix

/-! ## 1. cost = 0 ⇔ equal up to a global phase; range -/

/-- **Unitary target.** For unitary `U`, `T` of size `n ≥ 1`: `1 − |tr(T†U)|/n = 0` iff `U = λ·T`
for a phase `λ`. -/
theorem C19_cost_zero_iff {n : Nat} (hn : 0 < n) (T U : Matrix (Fin n) (Fin n) ℂ)
    (hT : Tᴴ * T = 1) (hU : Uᴴ * U = 1) :
    1 - ‖(Tᴴ * U).trace‖ / n = 0 ↔ ∃ l : ℂ, ‖l‖ = 1 ∧ U = l • T := by
  have hA : hs T T = ((n : ℝ) : ℂ) := by unfold hs; rw [hT, trace_one, Fintype.card_fin]; simp
  have hB : hs U U = ((n : ℝ) : ℂ) := by unfold hs; rw [hU, trace_one, Fintype.card_fin]; simp
  have hnpos : (0 : ℝ) < n := by exact_mod_cast hn
  rw [← frob_eq_iff_complex T U n hnpos hA hB]
  unfold hs
  constructor
  · intro h
    have : ‖(Tᴴ * U).trace‖ / n = 1 := by linarith
    rwa [div_eq_one_iff_eq (ne_of_gt hnpos)] at this
  · intro h; rw [h, div_self (ne_of_gt hnpos)]; ring

/-- The cost lies in `[0, 1]`. -/
theorem C19_cost_range {n : Nat} (hn : 0 < n) (T U : Matrix (Fin n) (Fin n) ℂ)
    (hT : Tᴴ * T = 1) (hU : Uᴴ * U = 1) :
    0 ≤ 1 - ‖(Tᴴ * U).trace‖ / n ∧ 1 - ‖(Tᴴ * U).trace‖ / n ≤ 1 := by
  have hA : hs T T = ((n : ℝ) : ℂ) := by unfold hs; rw [hT, trace_one, Fintype.card_fin]; simp
  have hB : hs U U = ((n : ℝ) : ℂ) := by unfold hs; rw [hU, trace_one, Fintype.card_fin]; simp
  have hnpos : (0 : ℝ) < n := by exact_mod_cast hn
  have hle := frob_le_complex T U n hA hB
  unfold hs at hle
  constructor
  · have : ‖(Tᴴ * U).trace‖ / n ≤ 1 := (div_le_one hnpos).mpr hle
    linarith
  · have : 0 ≤ ‖(Tᴴ * U).trace‖ / n := div_nonneg (norm_nonneg _) (le_of_lt hnpos)
    linarith

/-- **State target.** For unit vectors `ψ` (target) and `v = U|0⟩` (as `n × 1` matrices):
`1 − |⟨ψ|v⟩|² = 0` iff `v = λ·ψ` for a phase `λ`. -/
theorem C19_cost_zero_iff_state {n : Nat} (psi v : Matrix (Fin n) (Fin 1) ℂ)
    (hpsi : (psiᴴ * psi).trace = 1) (hv : (vᴴ * v).trace = 1) :
    1 - ‖(psiᴴ * v).trace‖ ^ 2 = 0 ↔ ∃ l : ℂ, ‖l‖ = 1 ∧ v = l • psi := by
  have h := frob_eq_iff_complex psi v 1 one_pos (by simpa [hs] using hpsi) (by simpa [hs] using hv)
  rw [← h]
  unfold hs
  constructor
  · intro h1
    have h2 : ‖(psiᴴ * v).trace‖ ^ 2 = 1 ^ 2 := by linarith
    exact (sq_eq_sq₀ (norm_nonneg _) zero_le_one).mp h2
  · intro h1; rw [h1]; ring

/-- **State-system target** `{v_j ↦ w_j}` (columns of `V`, `W`, each of norm 1, `k ≥ 1` pairs;
`Tm = W·V†` is what the engine is given): `1 − |tr(Tm†U)|/k = 0` iff `U·V = λ·W`, i.e. `U` maps
every input to its output with one common phase. -/
theorem C19_cost_zero_iff_system {n k : Nat} (hk : 0 < k) (V W : Matrix (Fin n) (Fin k) ℂ)
    (U : Matrix (Fin n) (Fin n) ℂ) (hU : Uᴴ * U = 1)
    (hV : (Vᴴ * V).trace = k) (hW : (Wᴴ * W).trace = k) :
    1 - ‖((W * Vᴴ)ᴴ * U).trace‖ / k = 0 ↔ ∃ l : ℂ, ‖l‖ = 1 ∧ U * V = l • W := by
  have hkpos : (0 : ℝ) < k := by exact_mod_cast hk
  have ht : ((W * Vᴴ)ᴴ * U).trace = hs W (U * V) := by
    unfold hs
    rw [conjTranspose_mul, conjTranspose_conjTranspose, Matrix.mul_assoc, trace_mul_comm,
      Matrix.mul_assoc]
  have hB : hs (U * V) (U * V) = ((k : ℝ) : ℂ) := by
    unfold hs
    rw [conjTranspose_mul, Matrix.mul_assoc, ← Matrix.mul_assoc Uᴴ, hU, Matrix.one_mul, hV]; simp
  have hA : hs W W = ((k : ℝ) : ℂ) := by unfold hs; rw [hW]; simp
  rw [ht, ← frob_eq_iff_complex W (U * V) k hkpos hA hB]
  constructor
  · intro h
    have : ‖hs W (U * V)‖ / k = 1 := by linarith
    rwa [div_eq_one_iff_eq (ne_of_gt hkpos)] at this
  · intro h; rw [h, div_self (ne_of_gt hkpos)]; ring

/-- non-vacuity of the hypotheses of the four theorems above (`n = k = 1`, all matrices `(1)`) -/
example : ∃ T U : Matrix (Fin 1) (Fin 1) ℂ, Tᴴ * T = 1 ∧ Uᴴ * U = 1 ∧
    (Tᴴ * T).trace = 1 ∧ (Tᴴ * T).trace = ((1 : Nat) : ℂ) :=
  ⟨1, 1, by simp, by simp, by simp, by simp⟩

/-- **The executable model** (Gaussian rationals; `costGap t K = 1 − |t|²/K² = cost·(2 − cost)`):
for two model matrices of squared Frobenius norm `K ≥ 1` — `A = T`, `B = U` with `K = N` for a unitary
target; `A = ψ`, `B = U|0⟩`, `K = 1` for a state; `A = W`, `B = U·V`, `K = k` for a system — the gap
is 0 iff `B = λ·A` entrywise for a `λ` with `|λ|² = 1`. -/
theorem C19_cost_zero_iff_model {n m : Nat} (A B : Mat n m) (K : Nat) (hK : 0 < K)
    (hA : hsInner A A = ((K : Nat) : GQ)) (hB : hsInner B B = ((K : Nat) : GQ)) :
    costGap (hsInner A B) K = 0 ↔ ∃ l : GQ, l.absSq = 1 ∧ ∀ i j, B i j = l * A i j :=
  costGap_zero_iff_phase A B K hK hA hB

example : hsInner (Mat.one 2) (Mat.one 2) = ((2 : Nat) : GQ) := by
  rw [hsInner_eq, hs_self_of_iso (isoM_one 2)]

/-- the state cost of the model is the gap with `K = 1` -/
theorem C19_stateCost_model {n : Nat} (psi u0 : Mat n 1) :
    stateCost psi u0 = costGap (stateInner psi u0) 1 := by
  unfold stateCost costGap; simp

/-! ## 2. gradient -/

/-- **Gradient formula.** In any commutative *-ring with a derivation `∂` that commutes with
conjugation (differentiation by a real parameter): if `s² = t·t̄` (`s = |t|`) and
`cost = 1 − s·(1/N)` then `2·s·∂cost = −(1/N)·(t̄·∂t + t·conj(∂t))`, i.e.
`∂cost = −Re(t̄·∂t)/(N·|t|)`. -/
theorem C19_grad_formula {R : Type*} [CommRing R] [StarRing R] (d : RealDeriv R)
    (s t cost Ninv : R) (hs : s * s = t * star t) (hcost : cost = 1 - s * Ninv)
    (hN : d.D Ninv = 0) :
    2 * s * d.D cost = -(Ninv * (star t * d.D t + t * star (d.D t))) :=
  grad_cost d s t cost Ninv hs hcost hN

/-- state target: `cost = 1 − t·t̄` gives `∂cost = −(t̄·∂t + t·conj(∂t)) = −2·Re(t̄·∂t)`. -/
theorem C19_grad_formula_state {R : Type*} [CommRing R] [StarRing R] (d : RealDeriv R)
    (t cost : R) (hcost : cost = 1 - t * star t) :
    d.D cost = -(star t * d.D t + t * star (d.D t)) :=
  grad_state_cost d t cost hcost

/-- `∂ tr(T†U) = tr(T†·∂U)` for a constant target (`∂U` entrywise). -/
theorem C19_grad_trace {R : Type*} [CommRing R] [StarRing R] (d : RealDeriv R)
    {m k : Type*} [Fintype m] [Fintype k] (T U : Matrix m k R)
    (hT : ∀ i j, d.D (star (T i j)) = 0) :
    d.D (hs T U) = hs T (U.map d.D) :=
  deriv_hs d T U hT

/-- the model's gradient numerators are these expressions (`Re z = (z + z̄)/2`) -/
theorem C19_gradNum_model (t dt : GQ) :
    2 * gradNum t dt = -((star t * dt + t * star dt).re) ∧
    stateGrad t dt = -((star t * dt + t * star dt).re) :=
  ⟨gradNum_eq t dt, stateGrad_eq t dt⟩

/-- non-vacuity: the zero derivation on ℂ with `s = t = 1`, `cost = 0`, `N = 1`; constant target -/
example : ∃ (d : RealDeriv ℂ) (s t cost Ninv : ℂ), s * s = t * star t ∧ cost = 1 - s * Ninv ∧
    d.D Ninv = 0 ∧ (0 : ℂ) = 1 - t * star t ∧
    ∀ (T : Matrix (Fin 1) (Fin 1) ℂ) i j, d.D (star (T i j)) = 0 :=
  ⟨⟨0, by simp, by simp⟩, 1, 1, 0, 1, by simp, by simp, rfl, by simp, fun _ _ _ => rfl⟩

/-! ## 3. residuals -/

/-- **Residuals and cost, as coded.** For a circuit matrix `U` with `U†U = 1` and any target matrix
`T` (unitary target, or `Tm = W·V†` of a state system):
`Σ residual² = ‖T‖²_F − 2·Re tr(T†U) + N`. -/
theorem C19_residual_cost {n : Nat} (T U : Mat n n) (hU : IsoM U) :
    sumSq (residuals T U) = (hsInner T T).re - 2 * (hsInner T U).re + n :=
  residuals_sumSq T U hU

/-- unitary target: `Σ residual² = 2N − 2·Re t`; since `Re t ≤ |t|` the Hilbert–Schmidt cost
`1 − |t|/N` is at most `Σ residual² / (2N)`. -/
theorem C19_residual_cost_unitary {n : Nat} (T U : Mat n n) (hU : IsoM U) (hT : IsoM T) :
    sumSq (residuals T U) = 2 * n - 2 * (hsInner T U).re ∧
    (hsInner T U).re * (hsInner T U).re ≤ (hsInner T U).absSq := by
  refine ⟨residuals_sumSq_unitary T U hU hT, ?_⟩
  unfold GQ.absSq
  nlinarith [mul_self_nonneg (hsInner T U).im]

example : IsoM (Mat.one 2) := isoM_one 2

/-- The residual vector vanishes exactly when `U = T` — equality, not equality up to a phase. -/
theorem C19_residual_zero_iff {n : Nat} (T U : Mat n n) (hU : IsoM U) (hT : IsoM T) :
    sumSq (residuals T U) = 0 ↔ ∀ i j, U i j = T i j :=
  residuals_zero_iff T U hU hT

/-- The residual VECTOR is not invariant under a global phase: for `T = (1)`, `U = (−1)` the cost
gap is 0 (`U = −T`) but `Σ residual² = 4`.  (Only `HilbertSchmidtResiduals.get_cost` is
phase-aware; a least-squares minimiser driving the residuals to 0 reaches `U = T`, hence cost 0.) -/
theorem C19_residual_phase_witness :
    let T : Mat 1 1 := fun _ _ => 1
    let U : Mat 1 1 := fun _ _ => -1
    costGap (hsInner T U) 1 = 0 ∧ sumSq (residuals T U) = 4 := by
  decide +kernel

/-! ## 4. multi-start selection -/

/-- `sorted(params_list, key=cost)[0]` returns the FIRST candidate of least cost: it is a member,
no candidate is cheaper, every earlier candidate is strictly more expensive; and it is `none`
(Python: `IndexError`) exactly for the empty list.  (Keys in a linear order: floats without NaN.) -/
theorem C19_argmin {P κ : Type} [LinearOrder κ] (ps : List P) (cost : P → κ) :
    (multiStart ps cost = none ↔ ps = []) ∧
    ∀ p, multiStart ps cost = some p ↔
      ∃ pre post, ps = pre ++ p :: post ∧ (∀ q ∈ pre, cost p < cost q) ∧ (∀ q ∈ post, cost p ≤ cost q) := by
  refine ⟨multiStart_none cost ps, fun p => ⟨fun h => ?_, ?_⟩⟩
  · obtain ⟨hmin, pre, post, hl, hpre⟩ := multiStart_spec cost ps p h
    exact ⟨pre, post, hl, hpre, fun q hq => hmin q (by rw [hl]; simp [hq])⟩
  · rintro ⟨pre, post, rfl, hpre, hpost⟩
    exact multiStart_of_first cost pre post p hpre hpost

example : multiStart [3, 1, 2, 1] (fun (n : Nat) => n % 3) = some 3 := by decide

/-- the sort used is a stable sort: a permutation, ordered by key, equal keys in original order -/
theorem C19_sort_stable {P κ : Type} [LinearOrder κ] (ps : List P) (cost : P → κ) :
    (sortStable cost ps).Perm ps ∧
    (sortStable cost ps).Pairwise (fun a b => cost a ≤ cost b) ∧
    ∀ k, (sortStable cost ps).filter (fun a => cost a = k) = ps.filter (fun a => cost a = k) :=
  ⟨sortStable_perm cost ps, sortStable_sorted cost ps, sortStable_filter cost ps⟩

/-! ## 5. `set_params` / instantiate changes parameter values only -/

/-- **Structure.** `set_params` raises `ValueError` exactly on a length mismatch and changes
nothing then; otherwise radixes, the number of cycles, and in every cycle the sequence of
(gate, location, radixes) are unchanged: only `par` fields differ. -/
theorem C19_instantiate_structure (c : Circ.Circ) (ps : List Int) :
    (ps.length ≠ numParams c → setParams c ps = .error .value) ∧
    (ps.length = numParams c → ∃ c', setParams c ps = .ok c' ∧
      c'.radixes = c.radixes ∧ c'.cycles.length = c.cycles.length ∧
      c'.cycles.map (·.map shape) = c.cycles.map (·.map shape)) := by
  constructor
  · intro h; unfold setParams; simp [h]
  · intro h
    refine ⟨{ c with cycles := setCycles ps 0 c.cycles }, ?_, rfl, setCycles_length ps 0 c.cycles,
      setCycles_shape ps 0 c.cycles⟩
    unfold setParams; simp [h]

/-- **Read-back.** On a circuit satisfying the documented invariants, after `set_params(ps)` the
`params` property (operations in iteration order) is exactly `ps`. -/
theorem C19_set_params_roundtrip (c : Circ.Circ) (hinv : c.Inv) (ps : List Int)
    (hlen : ps.length = numParams c) :
    ∃ c', setParams c ps = .ok c' ∧ params c' = ps := by
  refine ⟨{ c with cycles := setCycles ps 0 c.cycles }, by unfold setParams; simp [hlen], ?_⟩
  unfold params Circ.Circ.iter
  have hd : ∀ cy ∈ c.cycles, cy.Pairwise (fun a b => a.head ≠ b.head) :=
    fun cy hcy => heads_distinct_of_inv cy (hinv.2.1 cy hcy) (hinv.2.2 cy hcy)
  have := setCycles_params ps c.cycles hd 0
  rw [List.flatMap_assoc]
  simp only
  rw [this, ← numParams_eq, ← hlen, List.drop_zero, List.take_length]

example : ∃ c : Circ.Circ, c.Inv ∧ numParams c = 4 :=
  ⟨⟨[2, 2], [[⟨4, [7], [1], [2]⟩, ⟨5, [1, 2, 3], [0], [2]⟩]]⟩,
    (Circ.invB_iff _).mp (by decide), by decide⟩

/-- **Multi-start instantiation as a whole** (`instantiateModel` = `params = sorted(params_list,
key=cost)[0]; circuit.set_params(params)`, the optimiser abstracted to the list of per-start results):
on a circuit satisfying the invariants, with at least one start and results of the right length, the
call succeeds, the circuit's parameters afterwards ARE one of the candidates, no candidate is cheaper,
and nothing but parameter values changed. -/
theorem C19_instantiate_keeps_least {κ : Type} [LinearOrder κ] (c : Circ.Circ) (hinv : c.Inv)
    (cands : List (List Int)) (cost : List Int → κ) (hne : cands ≠ [])
    (hlen : ∀ p ∈ cands, p.length = numParams c) :
    ∃ c', instantiateModel c cands cost = .ok c' ∧ params c' ∈ cands ∧
      (∀ q ∈ cands, cost (params c') ≤ cost q) ∧
      c'.radixes = c.radixes ∧ c'.cycles.map (·.map shape) = c.cycles.map (·.map shape) := by
  unfold instantiateModel
  cases hm : multiStart cands cost with
  | none => exact absurd ((multiStart_none cost cands).mp hm) hne
  | some p =>
    obtain ⟨hmin, pre, post, hl, _⟩ := multiStart_spec cost cands p hm
    have hp : p ∈ cands := by rw [hl]; simp
    obtain ⟨c', hc', hpar⟩ := C19_set_params_roundtrip c hinv p (hlen p hp)
    obtain ⟨c'', hc'', hrad, _, hshape⟩ := (C19_instantiate_structure c p).2 (hlen p hp)
    have : c'' = c' := by rw [hc'] at hc''; cases hc''; rfl
    subst this
    exact ⟨c'', hc', hpar ▸ hp, fun q hq => hpar ▸ hmin q hq, hrad, hshape⟩

/-- no start at all: `IndexError` (unreachable through `Circuit.instantiate`: `multistarts ≤ 0` is
rejected by the start generator) -/
theorem C19_instantiate_no_start {κ : Type} [LinearOrder κ] (c : Circ.Circ) (cost : List Int → κ) :
    instantiateModel c [] cost = .error .index := rfl

/-! ## 6. method selection -/

/-- `Circuit.instantiate(method=…)`:
* `None`: the FIRST entry of the order whose `is_capable` holds; `ValueError` iff none is capable;
* a name: the FIRST entry whose `get_method_name().lower()` equals `method.lower()`, `ValueError`
  if that entry is not capable or no entry has the name;
* an `Instantiater` object: itself iff capable, else `ValueError`; anything else: `TypeError`. -/
theorem C19_selection_order (order : List InstEntry) (gs : List GateCaps) :
    (∀ i, selectInst order gs .auto = .ok (.entry i) ↔
      ∃ e, order[i]? = some e ∧ e.rule.capable gs = true ∧
        ∀ j < i, ∀ e', order[j]? = some e' → e'.rule.capable gs = false) ∧
    (selectInst order gs .auto = .error .value ↔ ∀ e ∈ order, e.rule.capable gs = false) ∧
    (∀ s i, selectInst order gs (.byName s) = .ok (.entry i) ↔
      ∃ e, order[i]? = some e ∧ (e.name.toLower == s.toLower) = true ∧ e.rule.capable gs = true ∧
        ∀ j < i, ∀ e', order[j]? = some e' → (e'.name.toLower == s.toLower) = false) ∧
    (∀ s, (∀ e ∈ order, (e.name.toLower == s.toLower) = false) →
      selectInst order gs (.byName s) = .error .value) ∧
    selectInst order gs (.given true) = .ok .given ∧
    selectInst order gs (.given false) = .error .value ∧
    selectInst order gs .other = .error .type := by
  refine ⟨?_, ?_, ?_, ?_, rfl, rfl, rfl⟩
  · intro i
    unfold selectInst
    cases h : firstCapable gs order 0 with
    | none =>
      simp only [reduceCtorEq, false_iff]
      rintro ⟨e, he, hc, _⟩
      have := (firstCapable_none gs order 0).mp h e (List.mem_of_getElem? he)
      rw [this] at hc; cases hc
    | some i0 =>
      have h0 := (firstCapable_some gs order 0 i0).mp h
      constructor
      · intro hi
        have : i0 = i := by simpa using hi
        subst this
        obtain ⟨j, e, hij, hj, hc, hmin⟩ := h0
        have : i0 = j := by omega
        subst this
        exact ⟨e, hj, hc, hmin⟩
      · rintro ⟨e, he, hc, hmin⟩
        have := (firstCapable_some gs order 0 i).mpr ⟨i, e, by omega, he, hc, hmin⟩
        rw [h] at this; cases this; rfl
  · unfold selectInst
    cases h : firstCapable gs order 0 with
    | none => simp only [true_iff]; exact (firstCapable_none gs order 0).mp h
    | some i0 =>
      simp only [reduceCtorEq, false_iff]
      intro hall
      have := (firstCapable_none gs order 0).mpr hall
      rw [h] at this; cases this
  · intro s i
    simp only [selectInst]
    split
    · rename_i i0 e0 h
      obtain ⟨j, hij, hj, hn0, hmin0⟩ := (firstNamed_some s order 0 i0 e0).mp h
      have hj0 : i0 = j := by omega
      subst hj0
      constructor
      · intro hi
        split at hi
        · rename_i hc
          have : i0 = i := by simpa using hi
          subst this
          exact ⟨e0, hj, hn0, hc, hmin0⟩
        · cases hi
      · rintro ⟨e, he, hn, hc, hmin⟩
        have := (firstNamed_some s order 0 i e).mpr ⟨i, by omega, he, hn, hmin⟩
        rw [h] at this
        cases this
        simp [hc]
    · rename_i h
      simp only [reduceCtorEq, false_iff]
      rintro ⟨e, he, hn, _⟩
      have := (firstNamed_none s order 0).mp h e (List.mem_of_getElem? he)
      rw [this] at hn; cases hn
  · intro s hall
    simp only [selectInst]
    rw [(firstNamed_none s order 0).mpr hall]

/-- **Dimension guard** (`Circuit.instantiate` after /repo e23425b): selection errors come first;
once an instantiater is chosen the call goes on to the optimiser iff the target has the circuit's
dimension, and raises `ValueError` otherwise — no optimiser ever sees a target of another dimension. -/
theorem C19_dimension_guard (order : List InstEntry) (gs : List GateCaps) (m : Method)
    (targetDim circuitDim : Nat) :
    (∀ ch, selectGuarded order gs m targetDim circuitDim = .ok ch ↔
      selectInst order gs m = .ok ch ∧ targetDim = circuitDim) ∧
    (∀ e, selectInst order gs m = .error e →
      selectGuarded order gs m targetDim circuitDim = .error e) ∧
    (∀ ch, selectInst order gs m = .ok ch → targetDim ≠ circuitDim →
      selectGuarded order gs m targetDim circuitDim = .error .value) := by
  unfold selectGuarded
  cases h : selectInst order gs m with
  | error e =>
    refine ⟨fun ch => ?_, fun e' he => ?_, fun ch hch => ?_⟩
    · simp
    · cases he; rfl
    · cases hch
  | ok c0 =>
    refine ⟨fun ch => ?_, fun e' he => ?_, fun ch hch hne => ?_⟩
    · by_cases hd : targetDim = circuitDim
      · simp [hd]
      · simp [hd]
    · cases he
    · simp [hne]

example : selectGuarded assumedOrder [⟨false, true⟩] .auto 2 4 = .error .value := by decide
example : selectGuarded assumedOrder [⟨false, true⟩] .auto 4 4 = .ok (.entry 0) := by decide

/-- **(B) obligation.** The live `instantiater_order` (classes, method names, `is_capable`
predicates classified by behaviour on probe circuits) is the table the model uses, and every selection
expression recognised in the multi-start methods is a first-minimum-by-cost
(`sorted(params_list, key=lambda x: cost_fn(x))[0]` or `min(..., key=cost_fn)`). -/
theorem C19_order_table :
    BqVerif.Generated.InstOrder.instOrder = assumedOrder ∧
    BqVerif.Generated.InstOrder.selections.all (fun (_, _, kind) => kind == "firstMin") = true := by
  decide +kernel

example : selectInst assumedOrder [⟨true, true⟩] .auto = .ok (.entry 1) := by decide
example : selectInst assumedOrder [⟨false, false⟩] (.byName "QFactor") = .error .value := by decide +kernel

end BqVerif.C19
