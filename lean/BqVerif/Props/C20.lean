import BqVerif.Model.Graph
/-! # C20 — coupling-graph and permutation utilities match their definitions -/
namespace BqVerif.C20
open BqVerif.Graph

theorem C20_norm_le (e : Nat × Nat) : (norm e).1 ≤ (norm e).2 := by
  unfold norm; split <;> simp_all <;> omega

end BqVerif.C20
