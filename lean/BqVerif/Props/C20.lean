import BqVerif.Proofs.GraphConn
import BqVerif.Proofs.GraphDeg
import BqVerif.Proofs.GraphSub
import BqVerif.Proofs.GraphTopo
import BqVerif.Proofs.GraphPerm
import BqVerif.Proofs.GraphFW
import BqVerif.Proofs.GraphDijkstra
import BqVerif.Proofs.GraphSubsets
import BqVerif.Proofs.GraphEmbed
import BqVerif.Proofs.GraphFcw
import BqVerif.Proofs.GraphQpu
import BqVerif.Proofs.KronOps
import BqVerif.Proofs.KronGen
import BqVerif.Proofs.GraphRel
/-!
# C20 — coupling-graph and qudit-permutation utilities match their definitions

Every theorem is about the executable model `BqVerif.Graph` (`Model/Graph.lean`), a transcription
of `bqskit/qis/graph.py` and of the swap loop of `bqskit/qis/permutation.py`; the model is tied to
the real code by `harness/c20.py` (exhaustive correspondence on all labelled graphs with ≤ 5/6
vertices).  The proofs live in `Proofs/Graph*.lean`; this file only states the property theorems.

Vocabulary (defined in the `Proofs` files, all elementary):
* `G.WF g`            every stored edge `(u,v)` has `u < v < g.n` (what the constructor `mk?` yields);
* `Reach g a b`       reflexive–transitive closure of `g.hasEdge`;
* `WalkLen g a b k`   there is a walk `a → b` with exactly `k` edges;  `IsPath g p`: consecutive
                      vertices of `p` are adjacent;  `IsWalk g i mids j`: `i → mids… → j` along edges;
* `walkWeight m i mids j`  weight of the non-empty walk `i → mids… → j` in the weight matrix `m`
                      (`none` = ∞), `wle` = `≤` on `ℕ ∪ {∞}`, `Mat.Square m n` = `m` is `n × n`;
* `ReachIn g S a b`, `ConnectedOn g S`  reachability / connectedness inside the vertex set `S`;
* `ReachAvoid g q a b`  reachability by walks all of whose vertices are `≠ q`;
  `ReachLocal g remote a b`  reachability over edges that are not remote edges;
* `BqVerif.Kron.*`   monomial-matrix model of `UnitaryMatrix`/`UnitaryBuilder` (`Model/Kron.lean`):
  a matrix is the list sending column `c` to `(row, phase)`, entry `i^phase`; `Mono.Unitary m`: rows
  `< |m|`, pairwise distinct, phases `< 4`;
* `validMatching`, `validMinSpan` (`Model/GraphRel.lean`): executable checkers through which the harness
  sends every REAL result of `maximal_matching` / `get_rooted_minimum_span` (results depend on Python set
  order, so there is no functional model); `greedyMatching`, `G.rootedSpan`: the algorithms for an
  ARBITRARY iteration order; `Walk g a k b`: walk with `k` edges.
-/
namespace BqVerif.C20
open BqVerif.Graph

/-! ## 1. is_fully_connected -/

/-- The frontier BFS answers `true` iff every vertex is reachable from vertex 0 (equivalently: any
two vertices are connected).  `n = 0` is excluded: Python raises `IndexError` there. -/
theorem C20_connected (g : G) (hwf : g.WF) (hn : 1 ≤ g.n) :
    (g.isFullyConnected = true ↔ ∀ v, v < g.n → Reach g 0 v) ∧
    (g.isFullyConnected = true ↔ ∀ u v, u < g.n → v < g.n → Reach g u v) :=
  ⟨isFullyConnected_iff g hwf hn, isFullyConnected_iff_all_pairs g hwf hn⟩

/-- The iteration bound `n + 2` of the model is immaterial: any fuel ≥ n + 1 gives the same answer,
i.e. the Python `while` loop terminates within `n + 1` rounds with this answer. -/
theorem C20_connected_fuel (g : G) (hwf : g.WF) (hn : 1 ≤ g.n) (fuel : Nat) (hf : g.n + 1 ≤ fuel) :
    bfsLoop g fuel [0] [] = g.isFullyConnected :=
  bfsLoop_fuel_irrelevant g hwf hn fuel hf

example : ∃ g : G, g.WF ∧ 1 ≤ g.n ∧ g.isFullyConnected = true :=
  ⟨⟨3, [(0, 1), (1, 2)]⟩, by simp [G.WF], by decide, by decide⟩
example : ∃ g : G, g.WF ∧ 1 ≤ g.n ∧ g.isFullyConnected = false :=
  ⟨⟨3, [(0, 1)]⟩, by simp [G.WF], by decide, by decide⟩

/-! ## neighbourhoods and degrees -/

/-- `get_neighbors_of v` is the duplicate-free list of exactly the vertices joined to `v`;
`get_qudit_degrees` lists their numbers, and that number is the number of incident edges. -/
theorem C20_neighbors_degrees (g : G) (hwf : g.WF) (hnd : g.edges.Nodup) (v : Nat) (hv : v < g.n) :
    (∀ u, u ∈ g.adj v ↔ g.hasEdge v u = true) ∧ (g.adj v).Nodup ∧
    g.degrees.length = g.n ∧ g.degrees.getD v 0 = (g.adj v).length ∧
    (g.adj v).length = (g.edges.filter (fun e => e.1 == v || e.2 == v)).length :=
  ⟨g.mem_adj_wf hwf v, g.nodup_adj v, g.degrees_length, g.degrees_get v hv,
   g.degree_eq_incident hwf hnd v⟩

example : ∃ g : G, g.WF ∧ g.edges.Nodup ∧ 1 < g.n :=
  ⟨⟨3, [(0, 1), (1, 2)]⟩, by simp [G.WF], by decide, by decide⟩

/-! ## 2. get_subgraph -/

/-- For a valid non-empty location and a renumbering that is a bijection `loc → [0, |loc|)`,
`get_subgraph` succeeds and returns the induced subgraph with vertex `a` renamed `ren a`. -/
theorem C20_subgraph (g : G) (hwf : g.WF) (loc : List Nat) (ren : List (Nat × Nat))
    (hne : loc ≠ []) (hnd : loc.Nodup) (hlt : ∀ q ∈ loc, q < g.n)
    (hkeys : (ren.map (·.1)).Perm loc)
    (hvals : (ren.map (·.2)).Perm (List.range loc.length)) :
    ∃ h, g.subgraph loc (some ren) = some h ∧ h.n = loc.length ∧ h.WF ∧
      (∀ a b, a ∈ loc → b ∈ loc → h.hasEdge (lookup ren a) (lookup ren b) = g.hasEdge a b) ∧
      (∀ x y, h.hasEdge x y = true →
         ∃ a ∈ loc, ∃ b ∈ loc, x = lookup ren a ∧ y = lookup ren b ∧ g.hasEdge a b = true) :=
  subgraph_spec g hwf loc ren hne hnd hlt hkeys hvals

example : ∃ (g : G) (loc : List Nat) (ren : List (Nat × Nat)), g.WF ∧ loc ≠ [] ∧ loc.Nodup ∧
    (∀ q ∈ loc, q < g.n) ∧ (ren.map (·.1)).Perm loc ∧ (ren.map (·.2)).Perm (List.range loc.length) :=
  ⟨⟨4, [(0, 1), (1, 2), (2, 3)]⟩, [3, 1, 2], [(3, 0), (1, 1), (2, 2)], by simp [G.WF], by decide,
   by decide, by decide, by decide, by decide⟩

/-- The default renumbering is the position in `loc` (also for non-monotone `loc`): vertex
`loc[i]` becomes `i`. -/
theorem C20_subgraph_default (g : G) (hwf : g.WF) (loc : List Nat)
    (hne : loc ≠ []) (hnd : loc.Nodup) (hlt : ∀ q ∈ loc, q < g.n) :
    ∃ h, g.subgraph loc none = some h ∧ h.n = loc.length ∧ h.WF ∧
      ∀ i j, i < loc.length → j < loc.length →
        h.hasEdge i j = g.hasEdge (loc.getD i 0) (loc.getD j 0) :=
  subgraph_default_spec g hwf loc hne hnd hlt

example : ∃ (g : G) (loc : List Nat), g.WF ∧ loc ≠ [] ∧ loc.Nodup ∧ (∀ q ∈ loc, q < g.n) :=
  ⟨⟨4, [(0, 1), (1, 2), (2, 3)]⟩, [3, 1, 2], by simp [G.WF], by decide, by decide, by decide⟩

/-- `get_subgraph` raises exactly when the location is invalid (TypeError) or empty (the constructor
rejects `CouplingGraph([], 0)`), or the renumbering is not a bijection `loc → [0,|loc|)`: wrong size,
wrong key set, or values that are not a permutation of `0..|loc|-1` (the check is
`sorted(values) != list(range(len(location)))` since the fix 494efa1).  In particular no renumbering
that merges vertices is accepted. -/
theorem C20_subgraph_errors (g : G) (hwf : g.WF) (loc : List Nat) (ren : List (Nat × Nat)) :
    (g.subgraph loc (some ren) = none ↔
      (¬ (loc.Nodup ∧ ∀ q ∈ loc, q < g.n))
      ∨ loc = []
      ∨ ren.length ≠ loc.length
      ∨ ¬ (∀ q, q ∈ ren.map (·.1) ↔ q ∈ loc)
      ∨ ¬ (ren.map (·.2)).Perm (List.range loc.length)) ∧
    ((g.subgraph loc (some ren)).isSome = true ↔
      loc ≠ [] ∧ loc.Nodup ∧ (∀ q ∈ loc, q < g.n) ∧ (ren.map (·.1)).Perm loc ∧
        (ren.map (·.2)).Perm (List.range loc.length)) :=
  ⟨subgraph_none_iff g hwf loc ren, subgraph_isSome_iff g hwf loc ren⟩

/-- With the default renumbering the only error cases are an invalid or empty location. -/
theorem C20_subgraph_default_errors (g : G) (hwf : g.WF) (loc : List Nat) :
    g.subgraph loc none = none ↔ ¬ (loc.Nodup ∧ ∀ q ∈ loc, q < g.n) ∨ loc = [] :=
  subgraph_default_none_iff g hwf loc

example : ∃ g : G, g.WF := ⟨⟨3, [(0, 1)]⟩, by simp [G.WF]⟩

/-- The reproducer of the former finding (non-injective renumbering accepted, fixed by 494efa1) is
rejected. -/
theorem C20_subgraph_rejects_non_injective :
    (G.mk 3 [(0, 1)]).subgraph [0, 1, 2] (some [(0, 0), (1, 2), (2, 2)]) = none :=
  subgraph_rejects_non_injective

/-! ## 3. topology constructors (incl. degenerate sizes) -/

/-- `all_to_all(n)`: `max n 1` vertices (n = 0 and n = 1 both give the one-vertex graph), an edge
between every two distinct vertices `< n`. -/
theorem C20_topology_all_to_all (n : Nat) :
    ∃ g, mk? (allToAllRaw n) none = some g ∧ g.n = max n 1 ∧ g.WF ∧
      ∀ a b, g.hasEdge a b = true ↔ a ≠ b ∧ a < n ∧ b < n := allToAll_spec n

/-- `linear(n)`: `max n 1` vertices, edges exactly `{a, a+1}` with `a + 1 < n`. -/
theorem C20_topology_linear (n : Nat) :
    ∃ g, mk? (linearRaw n) none = some g ∧ g.n = max n 1 ∧ g.WF ∧
      ∀ a b, g.hasEdge a b = true ↔ (b = a + 1 ∧ b < n) ∨ (a = b + 1 ∧ a < n) := linear_spec n

/-- `star(n)`: `max n 1` vertices, edges exactly `{0, b}` with `1 ≤ b < n`. -/
theorem C20_topology_star (n : Nat) :
    ∃ g, mk? (starRaw n) none = some g ∧ g.n = max n 1 ∧ g.WF ∧
      ∀ a b, g.hasEdge a b = true ↔ (a = 0 ∧ 1 ≤ b ∧ b < n) ∨ (b = 0 ∧ 1 ≤ a ∧ a < n) := star_spec n

/-- `ring(n)`, `n ≥ 2`: `n` vertices, edges exactly `{a, a+1 mod n}` (for `n = 2` the single edge
{0,1}). -/
theorem C20_topology_ring (n : Nat) (hn : 2 ≤ n) :
    ∃ g, (ringRaw n).bind (mk? · none) = some g ∧ g.n = n ∧ g.WF ∧
      ∀ a b, g.hasEdge a b = true ↔
        a < n ∧ b < n ∧ a ≠ b ∧ (b = (a + 1) % n ∨ a = (b + 1) % n) := ring_spec n hn
/-- `ring(1)` raises (self loop (0,0)). -/
theorem C20_topology_ring_one : (ringRaw 1).bind (mk? · none) = none := ring_one
example : ∃ n, 2 ≤ n := ⟨2, by decide⟩

/-- `grid(rows, cols)`: `max (rows*cols) 1` vertices; vertex `a` sits in row `a / cols`, column
`a % cols`; edges exactly between horizontal and vertical neighbours. -/
theorem C20_topology_grid (rows cols : Nat) :
    ∃ g, mk? (gridRaw rows cols) none = some g ∧ g.n = max (rows * cols) 1 ∧ g.WF ∧
      ∀ a b, g.hasEdge a b = true ↔
        a < rows * cols ∧ b < rows * cols ∧
        ((a / cols = b / cols ∧ (a % cols + 1 = b % cols ∨ b % cols + 1 = a % cols)) ∨
         (a % cols = b % cols ∧ (a / cols + 1 = b / cols ∨ b / cols + 1 = a / cols))) :=
  grid_spec rows cols

/-! ## 4. PermutationMatrix.from_qudit_location, gen_swap_unitary -/

/-- The swap loop composes to the digit permutation `permSpec` (for every column, every radix). -/
theorem C20_perm_from_location (n r : Nat) (loc : List Nat) (hnd : loc.Nodup)
    (hlt : ∀ q ∈ loc, q < n) (col : Nat) :
    permFromLocation n r loc col = permSpec n r loc col :=
  permFromLocation_eq_spec n r loc hnd hlt col

/-- … and that permutation is a bijection of `[0, r^n)` which moves qudit `loc[i]` to position `i`:
digit `i` of the image of `col` is digit `loc[i]` of `col`. -/
theorem C20_perm_spec (n r : Nat) (loc : List Nat) (hnd : loc.Nodup) (hlt : ∀ q ∈ loc, q < n) :
    (∀ col, col < r ^ n → permFromLocation n r loc col < r ^ n) ∧
    (∀ c1 c2, c1 < r ^ n → c2 < r ^ n →
        permFromLocation n r loc c1 = permFromLocation n r loc c2 → c1 = c2) ∧
    (∀ col i, col < r ^ n → i < loc.length →
        (digits r n (permFromLocation n r loc col)).getD i 0
          = (digits r n col).getD (loc.getD i 0) 0) := by
  refine ⟨fun col hcol => ?_, fun c1 c2 h1 h2 h => ?_, fun col i hcol hi => ?_⟩
  · rw [permFromLocation_eq_spec n r loc hnd hlt]; exact permSpec_lt n r loc hnd hlt col hcol
  · rw [permFromLocation_eq_spec n r loc hnd hlt, permFromLocation_eq_spec n r loc hnd hlt] at h
    exact permSpec_injective n r loc hnd hlt c1 c2 h1 h2 h
  · rw [permFromLocation_eq_spec n r loc hnd hlt]; exact permSpec_digit n r loc hnd hlt col hcol i hi

/-- The bookkeeping list `current_perm` ends as the identity (the loop is a selection sort). -/
theorem C20_perm_loop_sorts (n : Nat) (loc : List Nat) (hnd : loc.Nodup) (hlt : ∀ q ∈ loc, q < n) :
    (swapLoop n loc).2 = List.range n := swapLoop_final n loc hnd hlt

example : ∃ (n : Nat) (loc : List Nat), loc.Nodup ∧ (∀ q ∈ loc, q < n) ∧ loc ≠ [] :=
  ⟨3, [1, 2, 0], by decide, by decide, by decide⟩

/-- `gen_swap_unitary(r)`: the 1 of column `col = a·r + b` is in row `b·r + a`, the swap of the two
base-`r` digits. -/
theorem C20_gen_swap (r col : Nat) (hcol : col < r * r) :
    genSwapRow r col = undigits r (swapDigits (digits r 2 col) 0 1) := genSwapRow_eq r col hcol
example : ∃ r col : Nat, col < r * r := ⟨3, 5, by decide⟩

/-! ## 5. all_pairs_shortest_path (in-place Floyd–Warshall) -/

/-- For every `n × n` weight matrix over `ℕ ∪ {∞}` the result entry `(i,j)` is the minimum weight of
a NON-EMPTY walk `i → j` (the diagonal starts at ∞), `∞` iff there is none. -/
theorem C20_floyd_warshall (n : Nat) (m : Mat) (hm : m.Square n) (i j : Nat) (hi : i < n) (hj : j < n) :
    (∀ w, (floydWarshall n m).get i j = some w ↔
        (∃ mids, walkWeight m i mids j = some w) ∧ ∀ mids, wle (some w) (walkWeight m i mids j)) ∧
    ((floydWarshall n m).get i j = none ↔ ∀ mids, walkWeight m i mids j = none) :=
  floydWarshall_spec n m hm i j hi hj

/-- The matrix the constructor builds: `n × n`; an override wins over a remote weight, which wins
over the default weight; non-edges are ∞. -/
theorem C20_weight_matrix (g : G) (hwf : g.WF) (dw rw : Nat) (remote : List (Nat × Nat))
    (over : List ((Nat × Nat) × Nat))
    (hrem : ∀ e ∈ remote, g.hasEdge e.1 e.2 = true)
    (hover : ∀ ew ∈ over, g.hasEdge ew.1.1 ew.1.2 = true) (i j : Nat) :
    (g.weightMat dw rw remote over).Square g.n ∧
    (g.weightMat dw rw remote over).get i j =
      match over.reverse.find? (fun ew => pairMatches i j ew.1) with
      | some ew => some ew.2
      | none =>
        if remote.any (pairMatches i j) then some rw
        else if g.hasEdge i j then some dw else none :=
  ⟨weightMat_square g dw rw remote over, weightMat_get g hwf dw rw remote over hrem hover i j⟩

/-- Default weights: the entry is `dw ·` (minimum number of edges of a non-empty walk), and it is ∞
exactly for unreachable pairs. -/
theorem C20_floyd_warshall_default (g : G) (hwf : g.WF) (dw rw : Nat) (i j : Nat)
    (hi : i < g.n) (hj : j < g.n) :
    ((∀ w, (floydWarshall g.n (g.weightMat dw rw [] [])).get i j = some w ↔
      (∃ mids, IsWalk g i mids j ∧ w = dw * (mids.length + 1)) ∧
        ∀ mids, IsWalk g i mids j → w ≤ dw * (mids.length + 1)) ∧
    ((floydWarshall g.n (g.weightMat dw rw [] [])).get i j = none ↔ ∀ mids, ¬ IsWalk g i mids j)) ∧
    (i ≠ j → ((floydWarshall g.n (g.weightMat dw rw [] [])).get i j = none ↔ ¬ Reach g i j)) :=
  ⟨floydWarshall_default g hwf dw rw i j hi hj,
   fun hij => floydWarshall_none_iff_not_reach g hwf dw rw i j hi hj hij⟩

example : ∃ (n : Nat) (m : Mat), m.Square n ∧ 1 < n :=
  ⟨2, [[none, some 1], [some 1, none]], by simp [Mat.Square], by decide⟩
example : ∃ (g : G), g.WF ∧ 1 < g.n ∧ (∀ e ∈ [(1, 0)], g.hasEdge e.1 e.2 = true) :=
  ⟨⟨3, [(0, 1), (1, 2)]⟩, by simp [G.WF], by decide, by decide⟩

/-! ## 6. get_shortest_path_tree -/

/-- If the call returns, entry `v` is a path `source … v` along edges with the minimum possible
number of edges. -/
theorem C20_dijkstra_tree (g : G) (hwf : g.WF) (s : Nat) (hs : s < g.n) (ps : List (List Nat))
    (h : g.shortestPathTree s = some ps) :
    ps.length = g.n ∧ ∀ v, v < g.n →
      (ps.getD v []).head? = some s ∧ (ps.getD v []).getLast? = some v ∧ IsPath g (ps.getD v []) ∧
      WalkLen g s v ((ps.getD v []).length - 1) ∧
      ∀ k, WalkLen g s v k → (ps.getD v []).length - 1 ≤ k :=
  shortestPathTree_some g hwf s hs ps h

/-- It raises (`RuntimeError`) exactly when some vertex is unreachable from the source. -/
theorem C20_dijkstra_tree_raises (g : G) (hwf : g.WF) (s : Nat) (hs : s < g.n) :
    g.shortestPathTree s = none ↔ ∃ v, v < g.n ∧ ¬ Reach g s v :=
  shortestPathTree_none_iff g hwf s hs

example : ∃ (g : G) (s : Nat) (ps : List (List Nat)), g.WF ∧ s < g.n ∧ g.shortestPathTree s = some ps :=
  ⟨⟨4, [(0, 1), (1, 2), (2, 3), (0, 2)]⟩, 1, [[1, 0], [1], [1, 2], [1, 2, 3]], by simp [G.WF],
   by decide, by decide⟩

/-! ## 7. get_subgraphs_of_size, is_embedded_in -/

/-- The result (each location as its sorted vertex list, as a duplicate-free collection) consists of
exactly the `k`-subsets of the vertices that induce a connected subgraph; the call raises iff
`k = 0` or `k > n`.  (Since the fix b592992 the real code builds each location from the sorted vertex
set, as the model does, so it also lists every vertex set once; the harness checks that.) -/
theorem C20_subgraphs_of_size (g : G) (k : Nat) :
    (g.subgraphsOfSize k = none ↔ k = 0 ∨ g.n < k) ∧
    ∀ res, g.subgraphsOfSize k = some res →
      res.Nodup ∧
      ∀ S, S ∈ res ↔ S.length = k ∧ S.Pairwise (· < ·) ∧ (∀ v ∈ S, v < g.n) ∧ ConnectedOn g S :=
  ⟨subgraphsOfSize_none_iff g k, fun res h =>
    ⟨subgraphsOfSize_nodup g k res h, mem_subgraphsOfSize_iff g k res h⟩⟩

example : ∃ (g : G) (k : Nat) (res : List (List Nat)), g.subgraphsOfSize k = some res ∧ res ≠ [] :=
  ⟨⟨4, [(0, 1), (1, 2)]⟩, 2, [[0, 1], [1, 2]], by decide, by decide⟩

/-- `is_embedded_in` is true iff there is an injective map of the vertices that maps edges to
edges; in particular the degree pre-check of the code never changes the answer. -/
theorem C20_embedded_in (g h : G) (hg : g.WF) :
    (g.isEmbeddedIn h = true ↔
      ∃ f : Nat → Nat, (∀ a, a < g.n → f a < h.n) ∧
        (∀ a b, a < g.n → b < g.n → f a = f b → a = b) ∧
        (∀ a b, g.hasEdge a b = true → h.hasEdge (f a) (f b) = true)) :=
  isEmbeddedIn_iff_isEmbedding g h hg

example : ∃ g h : G, g.WF ∧ g.isEmbeddedIn h = true ∧ h.isEmbeddedIn g = false :=
  ⟨⟨3, [(0, 1), (1, 2)]⟩, ⟨3, [(0, 1), (1, 2), (0, 2)]⟩, by simp [G.WF], by decide, by decide⟩

/-! ## is_fully_connected_without, QPUs (get_qpu_to_qudit_map) -/

/-- `is_fully_connected_without(q)` (n ≥ 2, q < n) is true iff all vertices other than `q` are
mutually reachable by walks avoiding `q`; it raises (IndexError) exactly when the start vertex
(0, or 1 for q = 0) does not exist. -/
theorem C20_connected_without (g : G) (hwf : g.WF) (hn : 2 ≤ g.n) (q : Nat) (hq : q < g.n) :
    (g.isFullyConnectedWithout q = some true ↔
      ∀ u v, u < g.n → v < g.n → u ≠ q → v ≠ q → ReachAvoid g q u v) ∧
    (g.isFullyConnectedWithout q).isSome = true :=
  ⟨isFullyConnectedWithout_iff_all_pairs g hwf hn q hq, isFullyConnectedWithout_isSome g hn q⟩

example : ∃ (g : G) (q : Nat), g.WF ∧ 2 ≤ g.n ∧ q < g.n ∧ g.isFullyConnectedWithout q = some false :=
  ⟨⟨3, [(0, 1), (1, 2)]⟩, 1, by simp [G.WF], by decide, by decide, by decide⟩

/-- `get_qpu_to_qudit_map()`: a partition of the qudits into the classes of "reachable over non-remote
edges", each class listed once, duplicate free, ordered by their smallest member, which comes first. -/
theorem C20_qpu_map (g : G) (hwf : g.WF) (remote : List (Nat × Nat)) :
    let qs := g.qpuToQudit remote
    (∀ v, v < g.n → ∃ c ∈ qs, v ∈ c) ∧
    (∀ c ∈ qs, c ≠ [] ∧ c.Nodup ∧ ∀ v ∈ c, v < g.n) ∧
    (∀ c ∈ qs, ∀ u ∈ c, ∀ v, v ∈ c ↔ ReachLocal g remote u v) ∧
    (qs.Pairwise (fun c d => ∀ u ∈ c, ∀ v ∈ d, ¬ ReachLocal g remote u v)) ∧
    (qs.Pairwise (fun c d => c.headD 0 < d.headD 0)) ∧
    (∀ c ∈ qs, ∀ v ∈ c, c.headD 0 ≤ v) :=
  qpuToQudit_spec g hwf remote

example : ∃ (g : G) (remote : List (Nat × Nat)), g.WF ∧ g.qpuToQudit remote = [[0, 2], [1]] :=
  ⟨⟨3, [(0, 2), (1, 2)]⟩, [(1, 2)], by simp [G.WF], by decide⟩

/-- `get_qudit_to_qpu_map()` (since the fix 2c665e0) never raises and is the documented map for ALL
graphs: entry `q` is the index of the unique QPU that holds `q`; two qudits get the same index iff
they are connected over non-remote edges. -/
theorem C20_qudit_to_qpu_map (g : G) (hwf : g.WF) (remote : List (Nat × Nat)) :
    g.quditToQpuImpl? remote = some (g.quditToQpuSpec remote) ∧
    (∀ q, q < g.n →
      (g.quditToQpuImpl remote).length = g.n ∧
      (g.quditToQpuImpl remote).getD q 0 < (g.qpuToQudit remote).length ∧
      q ∈ (g.qpuToQudit remote).getD ((g.quditToQpuImpl remote).getD q 0) [] ∧
      ∀ i, q ∈ (g.qpuToQudit remote).getD i [] → i = (g.quditToQpuImpl remote).getD q 0) ∧
    (∀ a b, a < g.n → b < g.n → (g.qpuOf remote a = g.qpuOf remote b ↔ ReachLocal g remote a b)) :=
  ⟨quditToQpuImpl?_eq_spec g hwf remote, fun q hq => quditToQpuImpl_get g hwf remote q hq,
   fun a b ha hb => qpuOf_eq_iff g hwf remote a b ha hb⟩

/-- `get_qpu_connectivity()`: one duplicate-free adjacency list per QPU; QPU `b` is listed for QPU
`a` iff some remote edge joins a qudit of `a` with a qudit of `b` (remote edges are edges of the
graph, as the constructor enforces). -/
theorem C20_qpu_connectivity (g : G) (hwf : g.WF) (remote : List (Nat × Nat))
    (hrem : ∀ e ∈ remote, g.hasEdge e.1 e.2 = true) :
    (g.qpuConnImpl remote).length = (g.qpuToQudit remote).length ∧
    (∀ a, ((g.qpuConnImpl remote).getD a []).Nodup) ∧
    ∀ a b, b ∈ (g.qpuConnImpl remote).getD a [] ↔
      ∃ e ∈ remote, (g.qpuOf remote e.1 = a ∧ g.qpuOf remote e.2 = b) ∨
                    (g.qpuOf remote e.1 = b ∧ g.qpuOf remote e.2 = a) :=
  qpuConnImpl_spec g hwf remote hrem

example : ∃ (g : G) (remote : List (Nat × Nat)), g.WF ∧ remote ≠ [] ∧
    (∀ e ∈ remote, g.hasEdge e.1 e.2 = true) ∧ g.quditToQpuImpl remote = [0, 1, 2, 0] :=
  ⟨⟨4, [(0, 3), (1, 3), (2, 3)]⟩, [(1, 3), (2, 3)], by simp [G.WF], by decide, by decide, by decide⟩

/-- The reproducers of the two former findings (fixed by 2c665e0) give the documented values. -/
theorem C20_qpu_fixed_examples :
    (G.mk 3 [(0, 2), (1, 2)]).quditToQpuImpl [(1, 2)] = [0, 1, 0] ∧
    (G.mk 4 [(0, 3), (1, 3), (2, 3)]).qpuConnImpl [(1, 3), (2, 3)] = [[1, 2], [0], [0]] :=
  quditToQpu_fixed_examples

/-! ## Kronecker clause: index arithmetic of otimes / products / builder applies -/

/-- In the monomial-matrix model: `A ⊗ B` sends column `c₁·|B| + c₂` to row `r₁·|B| + r₂` (phases
add), and `A · B` sends `c` to `A(B(c))` (phases add) — the explicit Kronecker / matrix product. -/
theorem C20_kron_ops (a b : BqVerif.Kron.Mono) :
    (BqVerif.Kron.otimes a b).length = a.length * b.length ∧
    (∀ c1 c2, c1 < a.length → c2 < b.length →
      (BqVerif.Kron.otimes a b).at (c1 * b.length + c2) =
        ((a.at c1).1 * b.length + (b.at c2).1, ((a.at c1).2 + (b.at c2).2) % 4)) ∧
    (∀ c, c < b.length →
      (BqVerif.Kron.mul a b).at c = ((a.at (b.at c).1).1, ((b.at c).2 + (a.at (b.at c).1).2) % 4)) :=
  ⟨BqVerif.Kron.otimes_length a b, fun c1 c2 h1 h2 => BqVerif.Kron.otimes_at a b c1 c2 h1 h2,
   fun c hc => BqVerif.Kron.mul_at a b c hc⟩

/-- Embedding `gen_swap_unitary(r)` on the qudits `(a, b)` of `n` radix-`r` qudits is the digit swap. -/
theorem C20_kron_embed_swap (n r a b : Nat) (ha : a < n) (hb : b < n) (col : Nat) (hcol : col < r ^ n) :
    (BqVerif.Kron.embed (BqVerif.Kron.swapMono r) [a, b] (List.replicate n r)).at col =
      (undigits r (swapDigits (digits r n col) a b), 0) :=
  BqVerif.Kron.embed_swap_at n r a b ha hb col hcol

/-- The builder model run on the swaps recorded by the loop of `from_qudit_location`
(`apply_left(swap_utry, (index, pos))` for each of them, all argument checks pass) returns exactly the
permutation matrix `permFromLocation` = `permSpec`: this discharges, inside Lean, the abstraction
"apply_left of a swap = digit swap, last applied acts first" made by the `from_qudit_location` model. -/
theorem C20_kron_swap_builder (n r : Nat) (loc : List Nat) (hnd : loc.Nodup) (hlt : ∀ q ∈ loc, q < n) :
    BqVerif.Kron.build (List.replicate n r) (BqVerif.Kron.swapOps r (swapLoop n loc).1) =
      some ((List.range (r ^ n)).map (fun c => (permSpec n r loc c, 0))) :=
  BqVerif.Kron.build_swapLoop_spec n r loc hnd hlt

example : ∃ (n r a b col : Nat), a < n ∧ b < n ∧ col < r ^ n := ⟨3, 2, 0, 2, 5, by decide⟩

/-- General `embed` (what `apply_left/apply_right` multiply with), mixed radixes, any gate: for a valid
location, column `col` is sent to the row whose digits at `loc` are the digits of the gate's row for the
gate column read off `col` at `loc`, all other digits unchanged; the phase is the gate's. -/
theorem C20_kron_embed (m : BqVerif.Kron.Mono) (loc radixes : List Nat) (hloc : loc.Nodup)
    (hlt : ∀ q ∈ loc, q < radixes.length)
    (hm : m.length = BqVerif.Kron.dim (loc.map (radixes.getD · 1)))
    (hrow : ∀ e ∈ m, e.1 < m.length)
    (col : Nat) (hcol : col < BqVerif.Kron.dim radixes) :
    let subR := loc.map (radixes.getD · 1)
    let ds := BqVerif.Kron.digits radixes col
    let sc := BqVerif.Kron.undigits subR (loc.map (ds.getD · 0))
    let e := m.at sc
    let out := (BqVerif.Kron.embed m loc radixes).at col
    sc < m.length ∧ out.2 = e.2 ∧ out.1 < BqVerif.Kron.dim radixes ∧
    (∀ k, k < loc.length →
      (BqVerif.Kron.digits radixes out.1).getD (loc.getD k 0) 0 = (BqVerif.Kron.digits subR e.1).getD k 0) ∧
    (∀ q, q < radixes.length → q ∉ loc → (BqVerif.Kron.digits radixes out.1).getD q 0 = ds.getD q 0) ∧
    BqVerif.Kron.undigits subR (loc.map ((BqVerif.Kron.digits radixes out.1).getD · 0)) = e.1 :=
  BqVerif.Kron.embed_at m loc radixes hloc hlt hm hrow col hcol

example : ∃ (m : BqVerif.Kron.Mono) (loc radixes : List Nat) (col : Nat), loc.Nodup ∧
    (∀ q ∈ loc, q < radixes.length) ∧ m.length = BqVerif.Kron.dim (loc.map (radixes.getD · 1)) ∧
    (∀ e ∈ m, e.1 < m.length) ∧ col < BqVerif.Kron.dim radixes :=
  ⟨[(1, 0), (0, 1), (2, 3), (3, 0), (5, 2), (4, 0)], [2, 0], [2, 2, 3], 7,
   by decide, by decide, by decide, by decide, by decide⟩

/-- Embedding is multiplicative and commutes with the dagger; the dagger is the two-sided inverse;
`ipower` is a homomorphism ℤ → matrices (so `ipower m (-k)` inverts `ipower m k`); a builder whose
applies pass the argument checks always returns a monomial unitary of the full dimension. -/
theorem C20_kron_algebra (m : BqVerif.Kron.Mono) (hm : m.Unitary) :
    (BqVerif.Kron.mul (BqVerif.Kron.dagger m) m = BqVerif.Kron.identity m.length ∧
     BqVerif.Kron.mul m (BqVerif.Kron.dagger m) = BqVerif.Kron.identity m.length) ∧
    (∀ a b : Int, BqVerif.Kron.ipower m (a + b) =
        BqVerif.Kron.mul (BqVerif.Kron.ipower m a) (BqVerif.Kron.ipower m b)) ∧
    (∀ k : Int, BqVerif.Kron.mul (BqVerif.Kron.ipower m (-k)) (BqVerif.Kron.ipower m k) =
        BqVerif.Kron.identity m.length) ∧
    (∀ (a : BqVerif.Kron.Mono) (loc radixes : List Nat), loc.Nodup → (∀ q ∈ loc, q < radixes.length) →
        m.length = BqVerif.Kron.dim (loc.map (radixes.getD · 1)) →
        BqVerif.Kron.embed (BqVerif.Kron.mul a m) loc radixes =
          BqVerif.Kron.mul (BqVerif.Kron.embed a loc radixes) (BqVerif.Kron.embed m loc radixes) ∧
        BqVerif.Kron.embed (BqVerif.Kron.dagger m) loc radixes =
          BqVerif.Kron.dagger (BqVerif.Kron.embed m loc radixes) ∧
        (BqVerif.Kron.embed m loc radixes).Unitary) :=
  ⟨⟨BqVerif.Kron.mul_dagger_left m hm, BqVerif.Kron.mul_dagger_right m hm⟩,
   fun a b => BqVerif.Kron.ipower_add m hm a b,
   fun k => BqVerif.Kron.ipower_neg_inverse m hm k,
   fun a loc radixes hloc hlt hml =>
    ⟨BqVerif.Kron.embed_mul a m loc radixes hloc hlt hml (fun e he => (hm.1 e he).1),
     BqVerif.Kron.embed_dagger m loc radixes hm hloc hlt hml,
     BqVerif.Kron.embed_unitary m loc radixes hm hloc hlt hml⟩⟩

theorem C20_kron_build_unitary (radixes : List Nat) (ops : List BqVerif.Kron.Op)
    (hops : ∀ o ∈ ops, o.ok radixes = true ∧ o.m.Unitary) :
    ∃ u, BqVerif.Kron.build radixes ops = some u ∧ u.Unitary ∧ u.length = BqVerif.Kron.dim radixes :=
  BqVerif.Kron.build_unitary radixes ops hops

example : ∃ m : BqVerif.Kron.Mono, m.Unitary ∧ m.length = 3 :=
  ⟨[(1, 0), (2, 3), (0, 1)], by simp [BqVerif.Kron.Mono.Unitary], rfl⟩

/-! ## maximal_matching, get_rooted_minimum_span (relational: checkers + any-order algorithms) -/

/-- Meaning of the checker every real `maximal_matching` result is sent through: the result consists
of stored edges of `g`, none ignored (in either orientation), pairwise vertex disjoint, and every
other admissible edge touches it (maximal).  And the greedy loop of the code returns an accepted
result for EVERY enumeration order of the candidate edges (set order, `shuffle`) and every order of the
returned list. -/
theorem C20_maximal_matching (g : G) (ignored : List (Nat × Nat)) :
    (∀ res, validMatching g ignored res = true ↔
      (∀ e ∈ res, e ∈ g.edges ∧ ignoredEdge ignored e = false) ∧
      (res.Nodup ∧ ∀ e ∈ res, e.1 ≠ e.2) ∧
      (∀ e ∈ res, ∀ f ∈ res, e ≠ f → e.1 ≠ f.1 ∧ e.1 ≠ f.2 ∧ e.2 ≠ f.1 ∧ e.2 ≠ f.2) ∧
      (∀ e ∈ g.edges, ignoredEdge ignored e = false → e.1 ≠ e.2 →
          ∃ f ∈ res, f.1 = e.1 ∨ f.2 = e.1 ∨ f.1 = e.2 ∨ f.2 = e.2)) ∧
    (∀ el res, el.Perm (candidateEdges g ignored) → res.Perm (greedyMatching el) →
      validMatching g ignored res = true) :=
  ⟨fun res => validMatching_iff g ignored res,
   fun el res h1 h2 => greedyMatching_valid_perm g ignored el res h1 h2⟩

example : validMatching ⟨4, [(0, 1), (1, 2), (2, 3)]⟩ [(2, 1)] [(0, 1), (2, 3)] = true ∧
    validMatching ⟨4, [(0, 1), (1, 2), (2, 3)]⟩ [] [(0, 1)] = false := by decide

/-- Meaning of the checker every real `get_rooted_minimum_span` result (connected graphs) is sent
through: `n-1` pairs (parent, child), each an edge, parent reached before, every vertex reached exactly
once — so the pairs alone connect the root to every vertex — and the tree is a BFS tree: the depth of
each vertex in the tree is its hop distance from the root in `g`.  (The DFS pre-order of the listing is
not checked.)  The two loops of the code, run with ARBITRARY iteration orders of the neighbour sets, return
an accepted result on every connected graph. -/
theorem C20_rooted_span (g : G) (root : Nat) :
    (∀ res, validMinSpan g root res = true →
      (∀ v, v < g.n → v = root ∨ ∃ pc ∈ res, pc.2 = v) ∧
      (∀ v, v < g.n → Reach ⟨g.n, res.map norm⟩ root v) ∧
      (res.map (·.2)).Nodup ∧ root ∉ res.map (·.2) ∧ res.length + 1 = g.n ∧
      (∀ a b, (G.mk g.n (res.map norm)).hasEdge a b = true → g.hasEdge a b = true) ∧
      ∀ v, v < g.n →
        Walk ⟨g.n, res.map norm⟩ root (lookup (spanDepths root res) v) v ∧
        ∀ k, Walk g root k v → lookup (spanDepths root res) v ≤ k) ∧
    (g.WF → root < g.n → (∀ v, v < g.n → Reach g root v) →
      ∀ ord1 ord2 : Nat → List Nat → List Nat, (∀ q l, (ord1 q l).Perm l) → (∀ q l, (ord2 q l).Perm l) →
        ∃ res, g.rootedSpan ord1 ord2 root = some res ∧ validMinSpan g root res = true) := by
  refine ⟨fun res h => ?_, fun hwf hroot hconn ord1 ord2 h1 h2 =>
    rootedSpan_minValid g hwf ord1 ord2 h1 h2 root hroot hconn⟩
  have hv := ((validMinSpan_iff g root res).1 h).1
  have hs := validSpan_spanning g root res hv
  refine ⟨hs.1, hs.2.1, hs.2.2.2.1, hs.2.2.2.2, ((validSpan_iff g root res).1 hv).1,
    fun a b hab => validSpan_subgraph g root res hv a b hab, fun v hvn => ?_⟩
  have hd := validMinSpan_dist g root res h v hvn
  exact ⟨hd.1, hd.2.2⟩

example : validMinSpan ⟨4, [(0, 1), (1, 2), (2, 3), (0, 3)]⟩ 1 [(1, 2), (1, 0), (0, 3)] = true ∧
    validMinSpan ⟨4, [(0, 1), (1, 2), (2, 3), (0, 3)]⟩ 1 [(1, 2), (2, 3), (3, 0)] = false := by decide

end BqVerif.C20
