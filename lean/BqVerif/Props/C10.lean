import BqVerif.Proofs.Rules
import BqVerif.Proofs.RulesParam
import BqVerif.Proofs.RulesComplex
import BqVerif.Proofs.Accept
import BqVerif.Proofs.AcceptGrid
import BqVerif.Proofs.Structural
import BqVerif.Proofs.Walsh
import BqVerif.Proofs.Demultiplex
import BqVerif.Proofs.BlockZXZ
import BqVerif.Proofs.Mux
import BqVerif.Proofs.Pas
import BqVerif.Generated.PasOrder
/-! # C10 — every circuit-rewriting pass preserves its target within stated tolerance

Four classes (DESIGN.md §4 C10, design_notes/C10.md):

* **rule rewrites** — the rule DATA is regenerated on every run from the live pass objects
  (`Generated/Rules.lean`, by `translate/rules.py`); each theorem says that the ordered product of the
  generated replacement circuit's gate matrices, embedded on their locations, is the matrix of the
  gate the pass looks for — in every commutative ring with constants i, 1/√2, cos π/8, sin π/8
  satisfying their defining equations (`Valid`; ℂ is an instance: `complexConsts_valid`). The
  parameterised single-qubit decompositions are identities up to an explicit unit phase with a
  general SU(2) element, for all parameters (circle-point hypotheses).
* **accept-below-threshold** — transcriptions of the scanning / tree-scanning / exhaustive loops over
  abstract `instantiate` and cost oracles: the result is the input or passed `cost < ε` against the
  FIXED target, and is a sub-list of the input's operations.
* **structural** — same per-qudit timelines after flattening ⇒ same denotation, pointwise
  replacement by equal-meaning gates, insertion of identities, merging adjacent gates.
* **analytic** — the recombination steps that are algebra: the CNOT ladder of the Walsh synthesis
  (parity into the last qubit, restored afterwards) and the demultiplexing identity of QSD /
  Block-ZXZ; the factorizations themselves (cossin, schur, logm) are LAPACK facts validated
  numerically by the harness. -/
namespace BqVerif.C10
open BqVerif.Rules BqVerif.Rules.Generated BqVerif.Accept

variable {R : Type} [CommRing R] (K : Consts R)

/-- A fixed rule is correct: replacement circuit and source gate both evaluate (every gate, location
and parameter of the generated data is understood) and to the same matrix. -/
def RuleCorrect (r : Rule) : Prop := ∃ M, evalRule K r = some M ∧ srcMat K r = some M

theorem C10_rule_CHToCNOT (hK : Valid K) : RuleCorrect K rule_CHToCNOTPass :=
  ⟨_, rule_CHToCNOT K hK, rfl⟩
theorem C10_rule_CNOTToCH (hK : Valid K) : RuleCorrect K rule_CNOTToCHPass :=
  ⟨_, rule_CNOTToCH K hK, rfl⟩
theorem C10_rule_CNOTToCY (hK : Valid K) : RuleCorrect K rule_CNOTToCYPass :=
  ⟨_, rule_CNOTToCY K hK, rfl⟩
theorem C10_rule_CYToCNOT (hK : Valid K) : RuleCorrect K rule_CYToCNOTPass :=
  ⟨_, rule_CYToCNOT K hK, rfl⟩
theorem C10_rule_CNOTToCZ (hK : Valid K) : RuleCorrect K rule_CNOTToCZPass :=
  ⟨_, rule_CNOTToCZ K hK, rfl⟩
theorem C10_rule_CZToCNOT (hK : Valid K) : RuleCorrect K rule_CZToCNOTPass :=
  ⟨_, rule_CZToCNOT K hK, rfl⟩
theorem C10_rule_SwapToCNOT (hK : Valid K) : RuleCorrect K rule_SwapToCNOTPass :=
  ⟨_, rule_SwapToCNOT K hK, rfl⟩

/-- Non-vacuity of `Valid` (all seven theorems above): the complex numbers. -/
example : ∃ K : Consts ℂ, Valid K := ⟨_, complexConsts_valid (fun _ => 0)⟩
example : RuleCorrect (complexConsts fun _ => 0) rule_CHToCNOTPass :=
  C10_rule_CHToCNOT _ (complexConsts_valid _)

/-- The catalogue of generated rules is exactly the proved one: a rule pass added to (or renamed in)
/repo changes `allRules` and breaks this obligation until its identity is proved. -/
theorem C10_rules_complete : allRules.map (·.name) =
    ["CHToCNOTPass", "CNOTToCHPass", "CNOTToCYPass", "CNOTToCZPass", "CYToCNOTPass", "CZToCNOTPass",
     "SwapToCNOTPass", "U3Decomposition", "ZXZXZ_rx_rz", "ZXZXZ_rx_u1", "ZXZXZ_sx_rz",
     "ZXZXZ_sx_u1"] := by decide

/-- Every generated fixed rule (no free parameters) is correct. -/
theorem C10_rules_fixed_all (hK : Valid K) :
    ∀ r ∈ allRules, r.nvars = 0 → RuleCorrect K r := by
  intro r hr hv
  simp only [allRules, List.mem_cons, List.not_mem_nil, or_false] at hr
  rcases hr with rfl | rfl | rfl | rfl | rfl | rfl | rfl | rfl | rfl | rfl | rfl | rfl
  · exact C10_rule_CHToCNOT K hK
  · exact C10_rule_CNOTToCH K hK
  · exact C10_rule_CNOTToCY K hK
  · exact C10_rule_CNOTToCZ K hK
  · exact C10_rule_CYToCNOT K hK
  · exact C10_rule_CZToCNOT K hK
  · exact C10_rule_SwapToCNOT K hK
  all_goals exact absurd hv (by decide)

/-! ### parameterised decompositions: for ALL parameters, up to a unit phase

`su2Target K pc ps mc ms c s` is the general SU(2) element with u₁₁ = e^{ia}·c, u₁₀ = e^{ib}·s where
(pc, ps) = (cos, sin)((a+b)/2), (mc, ms) = (cos, sin)((a−b)/2), (c, s) = (cos, sin)(θ/2).
`K.vc k`, `K.vs k` are cos and sin of HALF the k-th parameter the pass emits. -/

theorem C10_rule_U3Decomposition (hK : Valid K) (pc ps mc ms c s : R)
    (hp : pc * pc + ps * ps = 1) (hm : mc * mc + ms * ms = 1) (hc : c * c + s * s = 1)
    (v0c : K.vc 0 = c) (v0s : K.vs 0 = s) (v1c : K.vc 1 = pc) (v1s : K.vs 1 = ps)
    (v2c : K.vc 2 = mc) (v2s : K.vs 2 = ms) :
    ∃ ph phc : R, ph * phc = 1 ∧
      evalRule K rule_U3Decomposition = some (smul ph (su2Target K pc ps mc ms c s)) :=
  rule_U3Decomposition K hK pc ps mc ms c s hp hm hc v0c v0s v1c v1s v2c v2s

theorem C10_rule_ZXZXZ_sx_rz (hK : Valid K) (pc ps mc ms c s : R)
    (hp : pc * pc + ps * ps = 1) (hm : mc * mc + ms * ms = 1) (hc : c * c + s * s = 1)
    (v0c : K.vc 0 = mc) (v0s : K.vs 0 = ms) (v1c : K.vc 1 = -s) (v1s : K.vs 1 = c)
    (v2c : K.vc 2 = -ps) (v2s : K.vs 2 = pc) :
    ∃ ph phc : R, ph * phc = 1 ∧
      evalRule K rule_ZXZXZ_sx_rz = some (smul ph (su2Target K pc ps mc ms c s)) :=
  rule_ZXZXZ_sx_rz K hK pc ps mc ms c s hp hm hc v0c v0s v1c v1s v2c v2s

theorem C10_rule_ZXZXZ_rx_rz (hK : Valid K) (pc ps mc ms c s : R)
    (hp : pc * pc + ps * ps = 1) (hm : mc * mc + ms * ms = 1) (hc : c * c + s * s = 1)
    (v0c : K.vc 0 = mc) (v0s : K.vs 0 = ms) (v1c : K.vc 1 = -s) (v1s : K.vs 1 = c)
    (v2c : K.vc 2 = -ps) (v2s : K.vs 2 = pc) :
    ∃ ph phc : R, ph * phc = 1 ∧
      evalRule K rule_ZXZXZ_rx_rz = some (smul ph (su2Target K pc ps mc ms c s)) :=
  rule_ZXZXZ_rx_rz K hK pc ps mc ms c s hp hm hc v0c v0s v1c v1s v2c v2s

theorem C10_rule_ZXZXZ_sx_u1 (hK : Valid K) (pc ps mc ms c s : R)
    (hp : pc * pc + ps * ps = 1) (hm : mc * mc + ms * ms = 1) (hc : c * c + s * s = 1)
    (v0c : K.vc 0 = mc) (v0s : K.vs 0 = ms) (v1c : K.vc 1 = -s) (v1s : K.vs 1 = c)
    (v2c : K.vc 2 = -ps) (v2s : K.vs 2 = pc) :
    ∃ ph phc : R, ph * phc = 1 ∧
      evalRule K rule_ZXZXZ_sx_u1 = some (smul ph (su2Target K pc ps mc ms c s)) :=
  rule_ZXZXZ_sx_u1 K hK pc ps mc ms c s hp hm hc v0c v0s v1c v1s v2c v2s

theorem C10_rule_ZXZXZ_rx_u1 (hK : Valid K) (pc ps mc ms c s : R)
    (hp : pc * pc + ps * ps = 1) (hm : mc * mc + ms * ms = 1) (hc : c * c + s * s = 1)
    (v0c : K.vc 0 = mc) (v0s : K.vs 0 = ms) (v1c : K.vc 1 = -s) (v1s : K.vs 1 = c)
    (v2c : K.vc 2 = -ps) (v2s : K.vs 2 = pc) :
    ∃ ph phc : R, ph * phc = 1 ∧
      evalRule K rule_ZXZXZ_rx_u1 = some (smul ph (su2Target K pc ps mc ms c s)) :=
  rule_ZXZXZ_rx_u1 K hK pc ps mc ms c s hp hm hc v0c v0s v1c v1s v2c v2s

/-- Non-vacuity of the parameterised theorems: in ℂ the hypotheses hold for the half-angle points of
any real parameters (here a = 1, b = 0.4, θ = 0.6: φ/2 = 0.7, λ/2 = 0.3). -/
example : ∃ (K : Consts ℂ) (pc ps mc ms c s : ℂ), Valid K ∧ pc * pc + ps * ps = 1 ∧
    mc * mc + ms * ms = 1 ∧ c * c + s * s = 1 ∧ K.vc 0 = c ∧ K.vs 0 = s ∧ K.vc 1 = pc ∧
    K.vs 1 = ps ∧ K.vc 2 = mc ∧ K.vs 2 = ms :=
  let θ : Nat → ℝ := fun k => if k = 0 then 0.6 else if k = 1 then 1.4 else 0.6
  ⟨complexConsts θ, _, _, _, _, _, _, complexConsts_valid θ, complexConsts_circle θ 1,
    complexConsts_circle θ 2, complexConsts_circle θ 0, rfl, rfl, rfl, rfl, rfl, rfl⟩

/-! ### accept-below-threshold loops (no hypotheses: for every oracle, order, filter, fuel) -/

/-- ScanningGateRemovalPass: the result is the input or passed `cost < ε` against the fixed target. -/
theorem C10_accept_invariant {α P : Type} (inst : Ops α → P) (good : Ops α → P → Bool)
    (keep : Nat → Bool) (order : List Nat) (init : Ops α × P) :
    Acc good init (scan inst good keep order init) :=
  (scan_inv inst good keep init order init ⟨Or.inl rfl, List.Sublist.refl _⟩).1

/-- ScanningGateRemovalPass: the result's operations are a sub-list of the input's (so no gate is
introduced and the gate count does not increase). -/
theorem C10_removal_monotone {α P : Type} (inst : Ops α → P) (good : Ops α → P → Bool)
    (keep : Nat → Bool) (order : List Nat) (init : Ops α × P) :
    (scan inst good keep order init).1.Sublist init.1 ∧
      (scan inst good keep order init).1.length ≤ init.1.length :=
  have h := (scan_inv inst good keep init order init ⟨Or.inl rfl, List.Sublist.refl _⟩).2
  ⟨h, h.length_le⟩

theorem C10_accept_invariant_treescan {α P : Type} (inst : Ops α → P) (good : Ops α → P → Bool)
    (depth fuel : Nat) (order : List Nat) (init : Ops α × P) :
    Acc good init (treeScan inst good depth fuel order init) :=
  (treeScan_inv inst good depth init fuel order init ⟨Or.inl rfl, List.Sublist.refl _⟩).1

theorem C10_removal_monotone_treescan {α P : Type} (inst : Ops α → P) (good : Ops α → P → Bool)
    (depth fuel : Nat) (order : List Nat) (init : Ops α × P) :
    (treeScan inst good depth fuel order init).1.Sublist init.1 ∧
      (treeScan inst good depth fuel order init).1.length ≤ init.1.length :=
  have h := (treeScan_inv inst good depth init fuel order init ⟨Or.inl rfl, List.Sublist.refl _⟩).2
  ⟨h, h.length_le⟩

theorem C10_accept_invariant_exhaustive {α P : Type} [DecidableEq α] (inst : Ops α → P)
    (good : Ops α → P → Bool) (score : Ops α → Int) (init : Ops α × P) :
    Acc good init (exhaustiveRun inst good score init) :=
  (exhaustiveRun_inv inst good score init).1

theorem C10_removal_monotone_exhaustive {α P : Type} [DecidableEq α] (inst : Ops α → P)
    (good : Ops α → P → Bool) (score : Ops α → Int) (init : Ops α × P) :
    (exhaustiveRun inst good score init).1.Sublist init.1 ∧
      (exhaustiveRun inst good score init).1.length ≤ init.1.length :=
  have h := (exhaustiveRun_inv inst good score init).2
  ⟨h, h.length_le⟩

/-- Any other loop of the class (SubstitutePass, Rebase2QuditGatePass, the synthesis searches): a
state that is only ever kept or replaced by a candidate that passed the test against the fixed
target is the input or passed the test — errors do not accumulate inside a pass. -/
theorem C10_accept_no_accumulation {S : Type} (good : S → Bool) (init s : S)
    (h : Reach good init s) : s = init ∨ good s = true := reach_inv good init s h

example : Reach (fun n : Nat => n % 2 == 0) 1 4 :=
  .accept 1 4 .start (by decide)

/-- The models are not trivial: with an oracle that accepts everything the scan removes every
operation, with one that accepts nothing it removes none. -/
example : (scan (fun _ => ()) (fun _ _ => true) (fun _ => true) [0, 1, 2]
    ([(0, 'a'), (1, 'b'), (2, 'c')], ())).1 = [] := by decide
example : (scan (fun _ => ()) (fun _ _ => false) (fun _ => true) [0, 1, 2]
    ([(0, 'a'), (1, 'b'), (2, 'c')], ())).1 = [(0, 'a'), (1, 'b'), (2, 'c')] := by decide

/-! ### the tree scan's cycle arithmetic (code after fix 513afaa)

`Model/AcceptGrid.lean` transcribes `get_tree_circs` on the cycle grid with the code's index
arithmetic and `Circuit.pop`'s IndexErrors (`none`); the harness compares it with the real function
call by call. In a well-formed circuit, for BOTH scan directions, every pop addresses the operation
the iteration is looking at: the function never raises and returns exactly the circuits with each
subset of the chunk deleted (in the code's order, before the stable sort). Before the fix the
right-to-left scan used the left-to-right shift and popped a wrong operation or raised. -/

open BqVerif.AcceptGrid in
/-- One pop: `g` well formed, operation `o` (tag not yet deleted) in cycle `c`, `q` one of its qudits,
the tags `D` deleted so far all in cycles the scan has passed or is in (`region` = the cycles not yet
reached: after `c` scanning left to right, before `c` scanning right to left). -/
theorem C10_treescan_pop_intended (left : Bool) (g : Grid) (wf : WF g) (c : Nat) (cy : List GOp)
    (o : GOp) (q : Nat) (D : List Nat) (hc : g[c]? = some cy) (ho : o ∈ cy) (hq : q ∈ o.loc)
    (hoD : o.tag ∉ D) (hD : ∀ t ∈ D, t ∉ tags (region left g c)) :
    popShift left g.length (del D g) ⟨c, q⟩ = some (del (o.tag :: D) g) :=
  popShift_wf left g wf c cy o q D hc ho hq hoD hD

open BqVerif.AcceptGrid in
/-- The whole loop of `get_tree_circs` for a chunk in scan order. -/
theorem C10_treescan_tree_circs (left : Bool) (g : Grid) (wf : WF g) (ch : List Elem)
    (D0 : List Nat) (hch : ChunkOk left g ch) (hds : DsOk left g ch [D0]) :
    treeCircs left g.length (del D0 g) (ch.map fun x => ⟨x.1, x.2.2⟩) =
      some ((subsetsCode D0 (ch.map fun x => x.2.1.tag)).map fun D => del D g) :=
  treeCircs_spec left g wf ch D0 hch hds

namespace TreeScanExample
open BqVerif.AcceptGrid
/-- The reproducer of the former finding: `[U@0 | V@(1,0) | W@1 | X@1]`, chunk X, W, V from the right. -/
def g : Grid := [[⟨0, [0]⟩], [⟨1, [1, 0]⟩], [⟨2, [1]⟩], [⟨3, [1]⟩]]
def ch : List Elem := [(3, ⟨3, [1]⟩, 1), (2, ⟨2, [1]⟩, 1), (1, ⟨1, [1, 0]⟩, 1)]

private theorem wf : WF g := by
  refine ⟨by decide, by decide, ?_⟩
  intro cy hcy x hx x' hx' q _ _
  simp only [g, List.mem_cons, List.not_mem_nil, or_false] at hcy
  rcases hcy with rfl | rfl | rfl | rfl <;> simp_all

private theorem chOk : ChunkOk false g ch := by
  refine ⟨?_, by decide, by decide⟩
  intro x hx
  simp only [ch, List.mem_cons, List.not_mem_nil, or_false] at hx
  rcases hx with rfl | rfl | rfl
  · exact ⟨[⟨3, [1]⟩], rfl, by simp, by simp⟩
  · exact ⟨[⟨2, [1]⟩], rfl, by simp, by simp⟩
  · exact ⟨[⟨1, [1, 0]⟩], rfl, by simp, by simp⟩

private theorem dsOk : DsOk false g ch [[]] := by
  intro D hD
  rw [List.mem_singleton.mp hD]
  constructor
  · intro y _ h
    exact absurd h List.not_mem_nil
  · intro y _ t h
    exact absurd h List.not_mem_nil

/-- Non-vacuity of both theorems, on the input that used to raise IndexError. -/
example : treeCircs false 4 g [⟨3, 1⟩, ⟨2, 1⟩, ⟨1, 1⟩] =
    some ((subsetsCode [] [3, 2, 1]).map fun D => del D g) :=
  C10_treescan_tree_circs false g wf ch [] chOk dsOk

example : (getTreeCircs false 4 g [⟨3, 1⟩, ⟨2, 1⟩, ⟨1, 1⟩]).map (·.map tags) =
    some [[0], [0, 1], [0, 2], [0, 3], [0, 1, 2], [0, 1, 3], [0, 2, 3]] := by decide

example : popShift false 4 (del [3] g) ⟨2, 1⟩ = some (del [2, 3] g) :=
  C10_treescan_pop_intended false g wf 2 [⟨2, [1]⟩] ⟨2, [1]⟩ 1 [3] rfl (by simp) (by simp)
    (by decide) (by decide)
end TreeScanExample

/-! ### structural passes -/

open BqVerif.Circ in
/-- A pass whose flattened output has the same per-qudit timelines as its flattened input leaves the
circuit's meaning unchanged, in every monoid semantics where disjoint operations commute. -/
theorem C10_structural_timelines {M : Type} [Monoid M] (sem : Op → M)
    (hcomm : ∀ a b, Indep a b → sem a * sem b = sem b * sem a)
    (n : Nat) (l1 l2 : List Op) (h : sameTimelines n l1 l2 = true)
    (h1 : ∀ o ∈ l1, o.loc ≠ [] ∧ ∀ q ∈ o.loc, q < n)
    (h2 : ∀ o ∈ l2, o.loc ≠ [] ∧ ∀ q ∈ o.loc, q < n) :
    den sem l1 = den sem l2 := den_of_sameTimelines sem hcomm n l1 l2 h h1 h2

open BqVerif.Circ in
/-- Non-vacuity: two disjoint operations in either order (semantics in the commutative monoid ℕ). -/
example : den (M := Nat) (fun o => o.gid + 2)
    [⟨0, [], [0], [2]⟩, ⟨1, [], [1], [2]⟩] = den (fun o => o.gid + 2)
    [⟨1, [], [1], [2]⟩, ⟨0, [], [0], [2]⟩] :=
  C10_structural_timelines _ (fun a b _ => Nat.mul_comm _ _) 2 _ _ (by decide)
    (by decide) (by decide)

open BqVerif.Circ in
theorem C10_structural_pointwise {M : Type} [Monoid M] (sem : Op → M) (f : Op → Op) (l : List Op)
    (h : ∀ o ∈ l, sem (f o) = sem o) : den sem (l.map f) = den sem l := den_map_congr sem f l h

open BqVerif.Circ in
example : den (M := Nat) (fun o => o.gid % 2 + 1) (([⟨0, [], [0], [2]⟩] : List Op).map
    fun o => { o with gid := o.gid + 2 }) =
    den (M := Nat) (fun o => o.gid % 2 + 1) ([⟨0, [], [0], [2]⟩] : List Op) :=
  C10_structural_pointwise (M := Nat) (fun o => o.gid % 2 + 1)
    (fun o => { o with gid := o.gid + 2 }) ([⟨0, [], [0], [2]⟩] : List Op) (by decide)

open BqVerif.Circ in
theorem C10_structural_identities {M : Type} [Monoid M] (sem : Op → M) (p : Op → Bool)
    (l : List Op) (h : ∀ o ∈ l, p o = false → sem o = 1) :
    den sem (l.filter p) = den sem l := den_filter_identities sem p l h

open BqVerif.Circ in
example : den (M := Nat) (fun o => o.gid) ([⟨1, [], [0], [2]⟩, ⟨5, [], [0], [2]⟩].filter
    fun o => o.gid != 1) = den (fun o => o.gid) [⟨1, [], [0], [2]⟩, ⟨5, [], [0], [2]⟩] :=
  C10_structural_identities _ _ _ (by decide)

open BqVerif.Circ in
theorem C10_structural_merge {M : Type} [Monoid M] (sem : Op → M) (pre post : List Op)
    (a b m : Op) (h : sem m = sem a * sem b) :
    den sem (pre ++ m :: post) = den sem (pre ++ a :: b :: post) := den_merge sem pre post a b m h

open BqVerif.Circ in
example : den (M := Nat) (fun o => o.gid) ([] ++ (⟨6, [], [0], [2]⟩ : Op) :: []) =
    den (fun o => o.gid) ([] ++ ⟨2, [], [0], [2]⟩ :: ⟨3, [], [0], [2]⟩ :: []) :=
  C10_structural_merge _ _ _ _ _ _ (by decide)

/-! ### Walsh diagonal synthesis: the CNOT ladder of `pauli_to_subcircuit` -/

open BqVerif.Walsh in
/-- After the ladder CNOT(l₀,l₁), CNOT(l₁,l₂), … the last location holds the parity of the Pauli-Z
string's support, so the RZ placed there multiplies |x⟩ by e^{∓iθ/2} according to that parity. -/
theorem C10_walsh_parity (locs : List Nat) (hne : locs ≠ []) (hnd : locs.Nodup) (x : Bits) :
    ladder (pairs locs) x (locs.getLast hne) = parity locs x := ladder_parity locs hne hnd x

open BqVerif.Walsh in
example : ladder (pairs [0, 2, 3]) (fun q => q == 0 || q == 3) 3 = false :=
  (C10_walsh_parity [0, 2, 3] (by simp) (by decide) _).trans (by decide)

open BqVerif.Walsh in
/-- The reversed ladder restores the basis state: the sub-circuit is diagonal. -/
theorem C10_walsh_restore (locs : List Nat) (hnd : locs.Nodup) (x : Bits) :
    ladder (pairs locs).reverse (ladder (pairs locs) x) = x :=
  ladder_restore _ (pairs_ne locs hnd) x

open BqVerif.Walsh in
example : ladder (pairs [1, 0]).reverse (ladder (pairs [1, 0]) (fun q => q == 1)) =
    (fun q => q == 1) := C10_walsh_restore [1, 0] (by decide) _

open BqVerif.Walsh in
/-- Qubits outside the support are never written. -/
theorem C10_walsh_outside (locs : List Nat) (x : Bits) (q : Nat) (hq : q ∉ locs) :
    ladder (pairs locs) x q = x q :=
  ladder_outside _ x q (fun p hp e => hq (e ▸ pairs_snd_mem locs p hp))

open BqVerif.Walsh in
example : ladder (pairs [0, 2]) (fun _ => true) 1 = true :=
  C10_walsh_outside [0, 2] _ 1 (by decide)

/-! ### QSD / Block-ZXZ: demultiplexing -/

/-- `create_multiplexed_circ` / `demultiplex`: if `u₁·u₂† = v·d²·v†` (what `schur` is asked for) and
`w = d·v†·u₂`, then `u₁ = v·d·w` and `u₂ = v·d†·w`: the multiplexor `u₁ ⊕ u₂` is
`(I⊗v)·(d ⊕ d†)·(I⊗w)` — left gate `w`, multiplexed RZ `d ⊕ d†`, right gate `v`. Any monoid. -/
theorem C10_qsd_demultiplex {M : Type} [Monoid M] (u1 u2 u2d v vd d dd : M)
    (heig : u1 * u2d = v * (d * d) * vd) (hu2 : u2d * u2 = 1) (hd : dd * d = 1)
    (hv : v * vd = 1) :
    u1 = v * d * (d * vd * u2) ∧ u2 = v * dd * (d * vd * u2) :=
  BqVerif.Demultiplex.demultiplex u1 u2 u2d v vd d dd heig hu2 hd hv

/-- Non-vacuity: in ℤ, u₁ = u₂ = v = 1 and the non-trivial square root d = d† = −1 of u₁u₂†. -/
example : (1 : ℤ) = 1 * -1 * (-1 * 1 * 1) ∧ (1 : ℤ) = 1 * -1 * (-1 * 1 * 1) :=
  C10_qsd_demultiplex 1 1 1 1 1 (-1) (-1) (by decide) (by decide) (by decide) (by decide)

/-! ### Block-ZXZ: the initial decomposition (eqs 5–9 of Krol & Al-Ars) -/

open BqVerif.BlockZXZ in
/-- `BlockZXZPass.initial_decompose`: with the polar factors `X = S_X U_X`, `Y = S_Y U_Y` of the upper
blocks of a unitary `[[X, Y], [U21, U22]]` (`S_X S_Y = S_Y S_X`, `S_X² + S_Y² = 1`,
`U21 X† + U22 Y† = 0`), the code's `A₁ = (S_X + i S_Y) U_X`, `C = −i U_X† U_Y`, `A₂ = U21 + U22 C†` and
`P = A₁† X = ½(1 + B)` satisfy `A₁A₁† = 1` and
`[[X, Y], [U21, U22]] = diag(A₁, A₂) · [[P, 1−P], [1−P, P]] · diag(1, C)` block by block — the matrix
`[[P, 1−P], [1−P, P]] = ½[[1+B, 1−B], [1−B, 1+B]]` is H·(controlled B)·H on the top qubit.
Any ring with a central `i`, `i² = −1`. -/
theorem C10_bzxz_initial_decompose {R : Type} [Ring R]
    {i X Y U21 U22 SX SY UX UXd UY UYd : R} (h : Setup i X Y U21 U22 SX SY UX UXd UY UYd) :
    let A1 := (SX + i * SY) * UX
    let A1d := UXd * (SX - i * SY)
    let A2 := U21 + U22 * (i * (UYd * UX))
    let C := -(i * (UXd * UY))
    let P := A1d * X
    A1 * A1d = 1 ∧ A1 * P = X ∧ A1 * (1 - P) * C = Y ∧ A2 * (1 - P) = U21 ∧ A2 * P * C = U22 :=
  ⟨a1_unitary h, block_x h, block_y h, block_21 h, block_22 h⟩

open BqVerif.BlockZXZ in
/-- Non-vacuity: the complex numbers, U = identity (X = 1, Y = 0, U21 = 0, U22 = 1; S_X = 1, S_Y = 0). -/
example : Setup (Complex.I : ℂ) 1 0 0 1 1 0 1 1 1 1 :=
  { ii := Complex.I_mul_I, central := fun a => mul_comm a _, ux := by simp, uxd := by simp,
    uyd := by simp, comm := by simp, sq := by simp, hX := by simp, hY := by simp,
    orth := by simp }

/-! ### Multiplexed-gate decomposition: the location re-ordering of `MGDPass.run`
(strengthening round, seeded change C10-1) -/

open BqVerif.Mux in
/-- `MGDPass.run` re-orders the location of an `MPRY/MPRZ(n, t)` operation into
`loc[0:t] + loc[t+1:] + [loc[t]]` (`moveLast`, compared with the locations the real pass hands to
`batch_replace`). For every location list and every target index inside it: the expression does not
raise, the result has the same length and is a permutation of `loc`, and the LAST-target gate placed
there gives every circuit qudit the role it had under the target-`t` gate at `loc`: the same target
qudit and the same select qudits IN THE SAME ORDER (`roles`: most significant select bit first). -/
theorem C10_mgd_target_last (loc : List Nat) (t : Nat) (h : t < loc.length) :
    ∃ r, moveLast loc t = some r ∧ r.length = loc.length ∧ r.Perm loc ∧
      r.getLast? = some loc[t] ∧ r.dropLast = loc.eraseIdx t ∧
      roles r (loc.length - 1) = roles loc t := by
  refine ⟨_, moveLast_eq h, ?_, perm_moveLast h, by simp, by simp, roles_moveLast h⟩
  simp [length_eraseIdx_lt h]; omega

/-- Non-vacuity and a check that the statement separates the code from a rotation of the list
(`loc[t+1:] + loc[:t+1]`, which would give `[7, 5, 3]`: select qudits swapped). -/
example : BqVerif.Mux.moveLast [5, 3, 7] 1 = some [5, 7, 3] := by decide

open BqVerif.Mux in
/-- Consequently, on EVERY computational basis state `σ` the last-target multiplexor at the
re-ordered location applies the same entry `k` of the angle table to the same circuit qudit as the
original operation (`act`; the harness compares `act` with the matrices of the real `MPRYGate` /
`MPRZGate` for every width 2–4 and every target). That the circuits of
`decompose_mpx_one_level/_two_levels` equal the last-target gate is validated numerically. -/
theorem C10_mgd_same_action (loc : List Nat) (t : Nat) (h : t < loc.length) (σ : Nat → Bool) :
    ∃ r, moveLast loc t = some r ∧ act r (loc.length - 1) σ = act loc t σ ∧
      act loc t σ = some (selectIdx (loc.eraseIdx t) σ, loc[t]) := by
  refine ⟨_, moveLast_eq h, by simp [act, roles_moveLast h], by simp [act, roles, h]⟩

example : BqVerif.Mux.act [5, 3, 7] 1 (fun q => q == 7) = some (1, 3) := by decide

open BqVerif.Mux in
/-- The guard is exact: the re-ordering raises (Python `IndexError` at `loc[t]`) iff the target index
is outside the location. -/
theorem C10_mgd_move_raises (loc : List Nat) (t : Nat) : moveLast loc t = none ↔ loc.length ≤ t :=
  moveLast_none

/-! ## PermutationAwareSynthesisPass: the reported mappings belong to the returned circuit

`Model/Pas.lean` transcribes the bookkeeping of `PermutationAwareSynthesisPass.synthesize`: the
labels `permsbyperms`, the permuted targets (as the pair of permutations each is built from), and
the selection loop.  (B)-kind tie: `translate/pas_order.py` RUNS the live `synthesize` for the four
option pairs and widths 2, 3 with a stub inner synthesis, recovers for every target handed to it
the unique pair `(pi, po)` with `target = Po^T U Pi`, records the labels, the returned circuit and
the reported mappings under scripted scores, and writes `Generated/PasOrder.lean`; the kernel decides
below that the model evaluates to exactly those tables. -/

open BqVerif.Pas in
/-- **For every option pair, every list of permutations and every inner synthesis / scoring
    function**: the circuit `synthesize` returns is the one the inner synthesis produced for the
    target `Po^T U Pi` of the REPORTED pair `(initial_mapping, final_mapping) = (pi, po)`; that pair
    is one of the labels; and no candidate scores better.  (Hence, if the inner synthesis meets
    its threshold on every target, the output implements the pass's target under the reported
    mappings within that threshold.) -/
theorem C10_pas_reported {π τ γ : Type} (ip op : Bool) (ps : List π) (idp : π)
    (mkTarget : π → π → τ) (inner : τ → γ) (score : γ → Nat) (l : π × π) (c : γ)
    (h : BqVerif.Pas.synthesize ip op ps idp mkTarget inner score = some (l, c)) :
    c = inner (mkTarget l.1 l.2) ∧ l ∈ labels ip op ps idp
    ∧ ∀ l' ∈ labels ip op ps idp, score c ≤ score (inner (mkTarget l'.1 l'.2)) :=
  synthesize_spec ip op ps idp mkTarget inner score l c h

open BqVerif.Pas in
/-- the selection loop keeps the FIRST candidate of least score: every candidate before the selected
    one scores strictly worse, none scores better (so which mappings are reported is determined) -/
theorem C10_pas_select_first {α : Type} (score : α → Nat) (c : α) (rest : List α) :
    (∃ pre post, c :: rest = pre ++ selectLoop score c rest :: post
      ∧ ∀ x ∈ pre, score (selectLoop score c rest) < score x)
    ∧ ∀ x ∈ c :: rest, score (selectLoop score c rest) ≤ score x :=
  ⟨selectLoop_first score rest c, selectLoop_le score rest c⟩

open BqVerif.Pas in
/-- the enumeration of the targets follows the enumeration of the labels, for every branch -/
theorem C10_pas_aligned {π : Type} (ip op : Bool) (ps : List π) (idp : π) :
    targetPairs ip op ps idp = labels ip op ps idp := aligned ip op ps idp

open BqVerif.Pas in
/-- … and this is a property the code must have, not a tautology of the model: enumerating the
    targets output-permutation-major against input-major labels (`for Po, Pi in product(Pos, Pis)`)
    misaligns them as soon as there are two permutations -/
theorem C10_pas_misaligned_witness :
    (product (perms 2) (perms 2)).map (fun (po, pi) => (pi, po)) ≠ labels true true (perms 2) [0, 1] := by
  decide

open BqVerif.Pas BqVerif.Generated.PasOrder in
/-- **(B) the live code enumerates and selects as the model does** (regenerated tables, widths 2
    and 3, all four option pairs): the labels passed to the runtime are the model's labels over
    `itertools.permutations(range(width))`, the targets handed to the inner synthesis are built
    from exactly the model's pairs in the model's order, and under each scripted score vector the
    returned circuit is the one at the model's selected index, reported with the label at that
    index. -/
theorem C10_pas_tables :
    (∀ r ∈ enumTables,
        r.2.2.2.1 = labels r.1 r.2.1 (perms r.2.2.1) (List.range r.2.2.1)
        ∧ r.2.2.2.2 = targetPairs r.1 r.2.1 (perms r.2.2.1) (List.range r.2.2.1))
    ∧ (∀ r ∈ selectTables,
        r.2.2.2.2.1 = selectIdx r.2.2.2.1
        ∧ (labels r.1 r.2.1 (perms r.2.2.1) (List.range r.2.2.1))[selectIdx r.2.2.2.1]?
            = some (r.2.2.2.2.2.1, r.2.2.2.2.2.2)) := by
  decide +kernel

example : BqVerif.Pas.synthesize true true (BqVerif.Pas.perms 2) [0, 1]
    (fun pi po => (pi, po)) (fun t => t) (fun c => if c = ([0, 1], [1, 0]) then 1 else 5)
    = some (([0, 1], [1, 0]), ([0, 1], [1, 0])) := by decide

end BqVerif.C10
