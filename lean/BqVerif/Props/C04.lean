import BqVerif.Proofs.CircTimeline
import BqVerif.Proofs.CircTimeline2
import BqVerif.Proofs.CircHistory
import BqVerif.Proofs.Trace
import BqVerif.Proofs.CircRel
import BqVerif.Proofs.CircWhole
import BqVerif.Proofs.CircReplace
import BqVerif.Proofs.CircBatch
import BqVerif.Proofs.CircSem
import BqVerif.Proofs.CircUnfoldSem
import BqVerif.Proofs.CircUnfoldAll
import BqVerif.Proofs.CircBatchUnfoldSem
import BqVerif.Proofs.CircBatchUnfoldOk
import BqVerif.Proofs.CircRemoveAll
import BqVerif.Proofs.CircSlice
import BqVerif.Proofs.CircBatchPopGrid
import BqVerif.Proofs.CircReplaceWith
import BqVerif.Proofs.CircInsertAny
/-! # C04 — Circuit editing calls have their documented effect on program order -/
namespace BqVerif.C04
open BqVerif.Circ

/-- **append**: the operation goes to the end of the timeline of each qudit of its location and
no other timeline changes (for ANY circuit, not only invariant ones). -/
theorem C04_append_timeline (c : Circ) (o : Op) (q : Nat) :
    (c.appendCore o).1.timeline q = c.timeline q ++ (if o.on q then [o] else []) :=
  appendCore_timeline c o q

/-- **insert** at an in-range cycle `k`: on each of its qudits the operation comes after
everything in cycles `< k` and before everything in cycles `≥ k`; other timelines unchanged. -/
theorem C04_insert_timeline (c : Circ) (k : Nat) (o : Op) (q : Nat) (hk : k < c.numCycles) :
    (c.insertAt k o).timeline q =
      proj q (c.cycles.take k).flatten ++ (if o.on q then [o] else []) ++
        proj q (c.cycles.drop k).flatten :=
  insertAt_timeline c k o q hk

/-- **pop / remove**: exactly the addressed occurrence disappears, nothing else moves. -/
theorem C04_pop_ops (c : Circ) (k q0 : Nat) (o : Op) (hinv : c.Inv) (hc : c.cell k q0 = some o) :
    ∃ pre post, c.ops = pre ++ o :: post ∧ (c.removeAt k q0).ops = pre ++ post :=
  removeAt_ops c k q0 o hinv hc

/-- **replace**, same location set (the in-place branch): the new operation takes exactly the
place of the old one in the operation sequence, nothing else moves. -/
theorem C04_replace_inplace_ops (c : Circ) (k : Nat) (old o : Op) (hinv : c.Inv)
    (hlt : k < c.cycles.length) (hmem : old ∈ c.cycles[k]) :
    ∃ pre post, c.ops = pre ++ old :: post ∧
      (c.cycles.modify k (fun cy => cy.map (fun x => if x == old then o else x))).flatten =
        pre ++ o :: post :=
  replace_inplace_ops c k old o hinv hlt hmem

/-- **renumber_qudits / insert_qudit / pop_qudit**: relabelling every location by an injective map
`f` relabels the timelines — qudit `f q` sees the relabelled sequence qudit `q` saw, and a qudit
outside the image of `f` is idle. -/
theorem C04_relabel_timelines (f : Nat → Nat) (hf : Function.Injective f) (l : List Op) :
    (∀ q, proj (f q) (l.map (Op.relabel f)) = (proj q l).map (Op.relabel f)) ∧
    (∀ p, (∀ q, f q ≠ p) → proj p (l.map (Op.relabel f)) = []) :=
  ⟨fun q => proj_relabel f hf q l, fun p hp => proj_relabel_off f p hp l⟩

/-- **Same timelines ⇒ same unitary**, for any width: in every monoid-valued semantics in which
operations on disjoint qudits commute, two operation lists that agree on every qudit's timeline
have the same ordered product.  (Structure-only transformations — compress, copy, straighten,
fold∘unfold — are checked by the correspondence to preserve all timelines; this theorem is what
makes that equality of denotations.) -/
theorem C04_same_timelines_same_unitary {M : Type} [Monoid M] (sem : Op → M)
    (hcomm : ∀ a b, Indep a b → sem a * sem b = sem b * sem a)
    (l1 l2 : List Op) (h1 : ∀ o ∈ l1, o.loc ≠ []) (h2 : ∀ o ∈ l2, o.loc ≠ [])
    (hp : ∀ q, proj q l1 = proj q l2) : (l1.map sem).prod = (l2.map sem).prod :=
  trace_equiv sem hcomm l1 l2 h1 h2 hp

/-- **straighten** is validated relationally (the documentation leaves the new layout open): ANY
grid accepted by the validator satisfies `Inv` and denotes the same unitary, in every semantics. -/
theorem C04_straighten_same_unitary {M : Type} [Monoid M] (sem : Op → M)
    (hcomm : ∀ a b, Indep a b → sem a * sem b = sem b * sem a)
    (c c' : Circ) (net : Int) (hinv : c.Inv) (h : validStraighten c c' net = none) :
    c'.Inv ∧ den sem c'.iter = den sem c.iter :=
  validStraighten_sound sem hcomm c c' net hinv h

/-- **fold**: ANY grid accepted by the validator denotes the same unitary as before the call,
in every semantics that reads a block operation as the ordered product of its contents (S3). -/
theorem C04_fold_same_unitary {M : Type} [Monoid M] (sem : Op → M)
    (hcomm : ∀ a b, Indep a b → sem a * sem b = sem b * sem a)
    (b : Blocks) (hblock : ∀ o inner, expandOp b o = some inner → sem o = den sem inner)
    (c : Circ) (r : Region) (c' : Circ) (pt : Nat × Nat) (hinv : c.Inv)
    (h : validFold b c r c' pt = none) :
    c'.Inv ∧ den sem c'.iter = den sem c.iter :=
  validFold_sound sem hcomm b hblock c r c' pt hinv h

-- non-vacuity: a fold accepted by the validator (2 qubits; X@0, CNOT@(0,1) folded into block 1000)
example :
    let body : Circ := ⟨[2, 2], [[⟨1, [], [0], [2]⟩], [⟨6, [], [0, 1], [2, 2]⟩]]⟩
    let b : Blocks := [(1000, body)]
    let c : Circ := ⟨[2, 2], [[⟨1, [], [0], [2]⟩], [⟨6, [], [0, 1], [2, 2]⟩]]⟩
    let c' : Circ := ⟨[2, 2], [[⟨1000, [], [0, 1], [2, 2]⟩]]⟩
    validFold b c [(0, (0, 1)), (1, (1, 1))] c' (0, 0) = none ∧ c.invB = true := by decide

/-- **compress** never changes the unitary: it keeps `Inv`, every timeline, and therefore the
ordered product in every semantics. -/
theorem C04_compress_same_unitary {M : Type} [Monoid M] (sem : Op → M)
    (hcomm : ∀ a b, Indep a b → sem a * sem b = sem b * sem a) (c : Circ) (hinv : c.Inv) :
    c.compress.Inv ∧ (∀ q, c.compress.timeline q = c.timeline q) ∧
      den sem c.compress.iter = den sem c.iter :=
  ⟨compress_inv c hinv, compress_timeline c hinv, compress_same_unitary sem hcomm c hinv⟩

/-- **inverse**: the original circuit followed by `get_inverse()` denotes the identity, in every
group-valued semantics, for any gate-level inverse that keeps location and radixes and denotes the
group inverse (that each library gate's `get_inverse` is such an inverse is C18's claim). -/
theorem C04_inverse_composes_to_identity {G : Type} [Group G] (sem : Op → G)
    (hcomm : ∀ a b, Indep a b → sem a * sem b = sem b * sem a)
    (inv : Op → Op) (hloc : ∀ o, (inv o).loc = o.loc) (hrad : ∀ o, (inv o).rad = o.rad)
    (hsem : ∀ o, sem (inv o) = (sem o)⁻¹) (c : Circ) (hinv : c.Inv) :
    den sem c.iter * den sem (c.inverse inv).iter = 1 :=
  inverse_composes_to_one sem hcomm inv hloc hrad hsem c hinv

/-- every editing history keeps the representation well-formed, so "the unitary of the circuit" is
well defined independently of the linearisation the iterator picks -/
theorem C04_history_inv (radixes : List Nat) (h : List Call) (hok : ∀ call ∈ h, call.Ok radixes) :
    ((Circ.empty radixes).run h).Inv :=
  (run_inv (Circ.empty radixes) h
    ⟨by simp [Circ.empty], by simp [Circ.empty], by simp [Circ.empty]⟩ hok).1

-- non-vacuity of the hypotheses of `C04_insert_timeline` / `C04_pop_ops`
example :
    let c : Circ := ⟨[2, 2], [[⟨6, [], [0, 1], [2, 2]⟩], [⟨4, [7], [1], [2]⟩]]⟩
    (0 < c.numCycles) ∧ c.invB = true ∧ c.cell 1 1 = some ⟨4, [7], [1], [2]⟩ := by decide

/-- **replace**, general branch (the new operation's location set differs from the old one's:
the code pops the old operation and inserts the new one at the NORMALISED original cycle index
`k`).  For every qudit `q`, with `pre`/`post` the qudit's operations in the cycles before/after
`k` and `mid` those of cycle `k` other than the replaced one:
`before = pre ++ [old if on q] ++ mid ++ post` and `after = pre ++ [new if on q] ++ mid ++ post`
(and `mid = []` when `old` is on `q`).  The call succeeds. -/
theorem C04_replace_general_timeline (c : Circ) (hinv : c.Inv) (p : Int × Int) (o : Op)
    (k q0 : Nat) (old : Op) (hg : c.getOp p = .ok (k, q0, old))
    (hd : disjointL old.loc o.loc = false) (hs : sameSet old.loc o.loc = false)
    (hv : c.checkValid o = .ok ()) (q : Nat) :
    ∃ hlt : k < c.cycles.length,
    (c.replace p o).2 = .ok () ∧
    c.timeline q = proj q (c.cycles.take k).flatten ++ (if old.on q then [old] else []) ++
      proj q (c.cycles[k].filter (fun x => !x.on q0)) ++ proj q (c.cycles.drop (k + 1)).flatten ∧
    (c.replace p o).1.timeline q =
      proj q (c.cycles.take k).flatten ++ (if o.on q then [o] else []) ++
      proj q (c.cycles[k].filter (fun x => !x.on q0)) ++ proj q (c.cycles.drop (k + 1)).flatten ∧
    (old.on q = true → proj q (c.cycles[k].filter (fun x => !x.on q0)) = []) :=
  replace_general_timeline c hinv p o k q0 old hg hd hs hv q

/-- Corollaries: on a qudit shared by the old and the new operation the new one stands exactly
where the old one stood; a qudit touched by neither keeps its timeline. -/
theorem C04_replace_general_shared_and_untouched (c : Circ) (hinv : c.Inv) (p : Int × Int)
    (o : Op) (k q0 : Nat) (old : Op) (hg : c.getOp p = .ok (k, q0, old))
    (hd : disjointL old.loc o.loc = false) (hs : sameSet old.loc o.loc = false)
    (hv : c.checkValid o = .ok ()) (q : Nat) :
    (q ∈ old.loc → q ∈ o.loc → ∃ pre post, c.timeline q = pre ++ old :: post ∧
      (c.replace p o).1.timeline q = pre ++ o :: post) ∧
    (q ∉ old.loc → q ∉ o.loc → (c.replace p o).1.timeline q = c.timeline q) := by
  obtain ⟨hlt, _, hb, ha, hm⟩ := replace_general_timeline c hinv p o k q0 old hg hd hs hv q
  constructor
  · intro h1 h2
    have h1' : old.on q = true := by simpa [Op.on] using h1
    have h2' : o.on q = true := by simpa [Op.on] using h2
    refine ⟨proj q (c.cycles.take k).flatten, proj q (c.cycles.drop (k + 1)).flatten, ?_, ?_⟩
    · rw [hb, hm h1']; simp [h1']
    · rw [ha, hm h1']; simp [h2']
  · intro h1 h2
    have h1' : old.on q = false := by simpa [Op.on] using h1
    have h2' : o.on q = false := by simpa [Op.on] using h2
    rw [ha, hb]; simp [h1', h2']

-- non-vacuity: replacing the CNOT@(0,1) of cycle 1 by a gate on (1,2) (general branch)
example :
    let c : Circ := ⟨[2, 2, 2], [[⟨1, [], [0], [2]⟩], [⟨6, [], [0, 1], [2, 2]⟩], [⟨2, [], [1], [2]⟩]]⟩
    let old : Op := ⟨6, [], [0, 1], [2, 2]⟩
    let o : Op := ⟨7, [], [1, 2], [2, 2]⟩
    c.invB = true ∧ c.getOp (-2, 1) = .ok (1, 1, old) ∧ disjointL old.loc o.loc = false ∧
      sameSet old.loc o.loc = false ∧ c.checkValid o = .ok () ∧
      (c.replace (-2, 1) o).1.cycles = [[⟨1, [], [0], [2]⟩], [o], [⟨2, [], [1], [2]⟩]] := by decide

/-- **batch_replace, all replacements in place** (every item addresses an operation whose
location set equals that of the item's new operation): the call succeeds and is a POINTWISE
SUBSTITUTION `σ` — the grid is stable: same number of cycles, cycle `k` is the old cycle `k` with
every operation `x` replaced by `σ k x` in the same position, every cell `(k, q)` holds `σ k` of
what it held, and `σ` keeps location sets.  `σ = substAll` of the normalised items sorted by
cycle: an operation addressed by no item is untouched, an addressed one becomes the operation of
the last item (in sorted order) that addresses it. -/
theorem C04_batch_replace_same_loc (c : Circ) (hinv : c.Inv) (items0 : List ((Int × Int) × Op))
    (hr : items0.all (fun it => c.cycleInRange it.1.1 && c.qubitInRange it.1.2) = true)
    (hin : ∀ it ∈ items0, ∃ old,
      c.cell (normIdx c.numCycles it.1.1) (normIdx c.numQudits it.1.2) = some old ∧
        sameSet old.loc it.2.loc = true) :
    let σ := substAll (sortItems (normItems c items0))
    let c' := (c.batchReplace items0).1
    (c.batchReplace items0).2 = .ok () ∧ c'.radixes = c.radixes ∧
      c'.cycles.length = c.cycles.length ∧
      (∀ k (h : k < c.cycles.length) (h' : k < c'.cycles.length),
        c'.cycles[k] = c.cycles[k].map (σ k)) ∧
      (∀ k q, c'.cell k q = (c.cell k q).map (σ k)) ∧
      (∀ k (h : k < c.cycles.length), ∀ x ∈ c.cycles[k], ∀ q, q ∈ (σ k x).loc ↔ q ∈ x.loc) := by
  intro σ c'
  obtain ⟨h1, h2⟩ := batchReplace_same_loc c hinv items0 hr hin
  have hc' : c' = mapCirc c σ := by simp only [c', h1]; rfl
  refine ⟨by rw [h1], by rw [hc']; rfl, by rw [hc']; exact mapCirc_length c σ, ?_, ?_, h2⟩
  · intro k h h'
    have := mapCirc_getElem c σ k h
    simp only [hc']; exact this
  · intro k q; rw [hc']; exact mapCirc_cell c σ h2 k q

/-- what the substitution does to one operation -/
theorem C04_batch_replace_subst (its : List ((Int × Int) × Op)) (k : Nat) (x : Op) :
    ((∀ it ∈ its, ¬ Addr it k x) → substAll its k x = x) ∧
    (∀ pre post it, its = pre ++ it :: post → Addr it k x → (∀ it' ∈ post, ¬ Addr it' k x) →
      substAll its k x = it.2) :=
  ⟨substAll_none its k x, fun pre post it he ha h => he ▸ substAll_last pre post it k x ha h⟩

-- non-vacuity: two in-place replacements (given out of order, one with a negative index)
example :
    let c : Circ := ⟨[2, 2], [[⟨1, [], [0], [2]⟩], [⟨6, [], [0, 1], [2, 2]⟩], [⟨2, [], [1], [2]⟩]]⟩
    let items : List ((Int × Int) × Op) :=
      [((-1, 1), ⟨3, [], [1], [2]⟩), ((1, 0), ⟨8, [], [1, 0], [2, 2]⟩)]
    c.invB = true ∧
      items.all (fun it => c.cycleInRange it.1.1 && c.qubitInRange it.1.2) = true ∧
      (items.all fun it =>
        match c.cell (normIdx c.numCycles it.1.1) (normIdx c.numQudits it.1.2) with
        | some old => sameSet old.loc it.2.loc
        | none => false) = true ∧
      (c.batchReplace items).1.cycles =
        [[⟨1, [], [0], [2]⟩], [⟨8, [], [1, 0], [2, 2]⟩], [⟨3, [], [1], [2]⟩]] := by decide

/-- **S2, relabelling conjugates the unitary** (list level): in any monoid semantics with a
relabelling action `act` (think `U ↦ P U P†` for the qudit permutation matrix `P`) that is a monoid
homomorphism and commutes with the gate semantics, the relabelled operation sequence denotes the
action on the original denotation. -/
theorem C04_renumber_conjugates {M : Type} [Monoid M] (sem : Op → M) (act : M → M)
    (h1 : act 1 = 1) (hmul : ∀ a b, act (a * b) = act a * act b) (ρ : Nat → Nat)
    (hsem : ∀ o, sem (o.relabel ρ) = act (sem o)) (l : List Op) :
    den sem (l.map (Op.relabel ρ)) = act (den sem l) :=
  den_map_relabel sem act h1 hmul ρ hsem l

/-- … and for the call itself: `renumber_qudits(perm)` with a valid permutation succeeds and the
new circuit — in the order ITS iterator picks, which differs from the relabelled old order —
denotes `act` of the old denotation (`permFun` is `perm` as a function, identity above the width). -/
theorem C04_renumber_qudits_conjugates {M : Type} [Monoid M] (sem : Op → M)
    (hcomm : ∀ a b, Indep a b → sem a * sem b = sem b * sem a) (act : M → M) (h1 : act 1 = 1)
    (hmul : ∀ a b, act (a * b) = act a * act b) (c : Circ) (perm : List Nat) (hinv : c.Inv)
    (hok : permOk c.numQudits perm = true)
    (hsem : ∀ o, sem (o.relabel (permFun c.numQudits perm)) = act (sem o)) :
    (c.renumber perm).2 = .ok () ∧
      den sem (c.renumber perm).1.iter = act (den sem c.iter) :=
  renumber_conjugates sem hcomm act h1 hmul c perm hinv hok hsem

/-- … and `insert_qudit(k, radix)` (the branch shifting the qudits from `k` on): the new circuit
denotes `act` of the old denotation for the shift relabelling. -/
theorem C04_insert_qudit_conjugates {M : Type} [Monoid M] (sem : Op → M)
    (hcomm : ∀ a b, Indep a b → sem a * sem b = sem b * sem a) (act : M → M) (h1 : act 1 = 1)
    (hmul : ∀ a b, act (a * b) = act a * act b) (c : Circ) (qi r : Int) (hinv : c.Inv)
    (hr : ¬ r < 2) (hq : ¬ qi ≥ (c.numQudits : Int))
    (hsem : ∀ o, sem (o.relabel (fun q =>
      if q < (if qi ≤ -(c.numQudits : Int) then 0 else normIdx c.numQudits qi) then q else q + 1)) =
        act (sem o)) :
    den sem (c.insertQudit qi r).1.iter = act (den sem c.iter) :=
  insertQudit_conjugates sem hcomm act h1 hmul c qi r hinv hr hq hsem

-- non-vacuity: the hypotheses on (sem, act) are satisfiable in every monoid; a valid permutation
example {M : Type} [Monoid M] :
    let sem : Op → M := fun _ => 1
    let act : M → M := id
    (∀ a b, Indep a b → sem a * sem b = sem b * sem a) ∧ act 1 = 1 ∧
      (∀ a b, act (a * b) = act a * act b) ∧ ∀ ρ o, sem (o.relabel ρ) = act (sem o) :=
  ⟨fun _ _ _ => rfl, rfl, fun _ _ => rfl, fun _ _ => rfl⟩
example :
    let c : Circ := ⟨[2, 3], [[⟨6, [], [0, 1], [2, 3]⟩], [⟨4, [7], [1], [3]⟩]]⟩
    c.invB = true ∧ permOk c.numQudits [1, 0] = true ∧
      (c.renumber [1, 0]).1 = ⟨[3, 2], [[⟨6, [], [1, 0], [2, 3]⟩], [⟨4, [7], [0], [3]⟩]]⟩ := by decide

/-- **S3, flattening keeps the unitary** (list level): in any semantics that reads a block
operation as the ordered product of its expansion (body in iteration order, parameters distributed
as `set_params` does, relabelled through the block's location), expanding blocks to any depth
keeps the denotation. -/
theorem C04_flatten_same_unitary {M : Type} [Monoid M] (sem : Op → M) (b : Blocks)
    (hblock : ∀ o inner, expandOp b o = some inner → sem o = den sem inner)
    (fuel : Nat) (l : List Op) : den sem (flattenOps b fuel l) = den sem l :=
  den_flattenOps sem b hblock fuel l

/-- **unfold keeps the unitary** (the call itself): for a point holding a block operation whose
body is a well-formed circuit on the block's radixes, `unfold(point)` succeeds, keeps `Inv`, and
the new circuit denotes what the old one did — in every monoid semantics where operations on
disjoint qudits commute and a block denotes the product of its expansion.  (The proof follows the
code: pop, then `insert_circuit` — reversed inserts at the popped cycle, or forward appends when
that cycle was the last and vanished — and shows that in every timeline the block's place is
taken by a linearisation of the relabelled body; `unfold_timeline`.) -/
theorem C04_unfold_same_unitary {M : Type} [Monoid M] (sem : Op → M)
    (hcomm : ∀ a b, Indep a b → sem a * sem b = sem b * sem a) (b : Blocks)
    (hblock : ∀ o inner, expandOp b o = some inner → sem o = den sem inner)
    (c : Circ) (hinv : c.Inv) (p : Int × Int) (k q0 : Nat) (o : Op) (body : Circ)
    (hg : c.getOp p = .ok (k, q0, o)) (hbody : b.body? o.gid = some body)
    (hbinv : body.Inv) (hfit : body.radixes = o.rad) :
    (c.unfold b p).2 = .ok () ∧ (c.unfold b p).1.Inv ∧
      den sem (c.unfold b p).1.iter = den sem c.iter :=
  unfold_same_den sem hcomm b hblock c hinv p k q0 o body hg hbody hbinv hfit

/-- the timeline statement behind it -/
theorem C04_unfold_timeline (c : Circ) (hinv : c.Inv) (b : Blocks) (p : Int × Int) (k q0 : Nat)
    (o : Op) (body : Circ) (hg : c.getOp p = .ok (k, q0, o)) (hbody : b.body? o.gid = some body)
    (hbinv : body.Inv) (hfit : body.radixes = o.rad) :
    ∃ (hlt : k < c.cycles.length) (inner : List Op),
      (c.unfold b p).2 = .ok () ∧ (c.unfold b p).1.Inv ∧
      (∀ x ∈ inner, x.loc ≠ []) ∧
      (∀ q, proj q inner = proj q ((distribute body.iter o.par).map (·.mapLoc o.loc))) ∧
      (∀ q, c.timeline q = proj q (c.cycles.take k).flatten ++ (if o.on q then [o] else []) ++
        proj q (c.cycles[k].filter (fun x => !x.on q0)) ++
          proj q (c.cycles.drop (k + 1)).flatten) ∧
      (∀ q, (c.unfold b p).1.timeline q = proj q (c.cycles.take k).flatten ++ proj q inner ++
        proj q (c.cycles[k].filter (fun x => !x.on q0)) ++
          proj q (c.cycles.drop (k + 1)).flatten) :=
  unfold_timeline c hinv b p k q0 o body hg hbody hbinv hfit

-- non-vacuity: a block on (2,0) in the last cycle (the forward-append branch) and one in the
-- middle (the reversed-insert branch)
example :
    let body : Circ := ⟨[2, 2], [[⟨1, [], [0], [2]⟩], [⟨6, [], [0, 1], [2, 2]⟩]]⟩
    let b : Blocks := [(1000, body)]
    let blk : Op := ⟨1000, [], [2, 0], [2, 2]⟩
    let c : Circ := ⟨[2, 2, 2], [[⟨2, [], [1], [2]⟩], [blk]]⟩
    let c2 : Circ := ⟨[2, 2, 2], [[⟨2, [], [1], [2]⟩], [blk], [⟨2, [], [0], [2]⟩]]⟩
    c.invB = true ∧ body.invB = true ∧ c.getOp (-1, 2) = .ok (1, 2, blk) ∧
      b.body? blk.gid = some body ∧ body.radixes = blk.rad ∧
      (c.unfold b (-1, 2)).1.cycles =
        [[⟨2, [], [1], [2]⟩, ⟨1, [], [2], [2]⟩], [⟨6, [], [2, 0], [2, 2]⟩]] ∧
      c2.getOp (1, 0) = .ok (1, 0, blk) ∧
      (c2.unfold b (1, 0)).1.cycles =
        [[⟨2, [], [1], [2]⟩], [⟨1, [], [2], [2]⟩], [⟨6, [], [2, 0], [2, 2]⟩], [⟨2, [], [0], [2]⟩]] := by
  decide

/-- **unfold_all keeps the unitary**, for any number of rebuild rounds: for a hereditarily
well-formed block table (`Blocks.HF`: every body is an `Inv` circuit whose own block operations
stand on the radixes of their bodies) and a circuit whose block operations fit (`Fits`), every
round keeps `Inv`, keeps the blocks fitting, and is one level of flattening up to commutation
(`unfoldRound_same_den`), so the denotation never changes. -/
theorem C04_unfold_all_same_unitary {M : Type} [Monoid M] (sem : Op → M)
    (hcomm : ∀ a b, Indep a b → sem a * sem b = sem b * sem a) (b : Blocks) (hb : b.HF)
    (hblock : ∀ o inner, expandOp b o = some inner → sem o = den sem inner)
    (fuel : Nat) (c : Circ) (hinv : c.Inv) (hfit : Fits b c) :
    (c.unfoldAll b fuel).Inv ∧ den sem (c.unfoldAll b fuel).iter = den sem c.iter :=
  unfoldAll_same_den sem hcomm b hb hblock fuel c hinv hfit

-- non-vacuity: a hereditarily well-formed table and a fitting circuit that really unfolds
example :
    let body : Circ := ⟨[2, 2], [[⟨1, [], [0], [2]⟩], [⟨6, [], [0, 1], [2, 2]⟩]]⟩
    Blocks.HF [(1000, body)] := by
  intro body gid bd h
  simp only [Blocks.body?, List.find?_cons, List.find?_nil] at h
  split at h
  · simp only [Option.map_some, Option.some.injEq] at h
    subst h
    refine ⟨(invB_iff _).1 (by decide), ?_⟩
    intro o ho bd' hb'
    simp only [body, Circ.ops, List.flatten_cons, List.flatten_nil, List.cons_append,
      List.nil_append, List.mem_cons, List.not_mem_nil, or_false] at ho
    rcases ho with rfl | rfl <;> simp [Blocks.body?] at hb'
  · simp at h
example :
    let body : Circ := ⟨[2, 2], [[⟨1, [], [0], [2]⟩], [⟨6, [], [0, 1], [2, 2]⟩]]⟩
    let b : Blocks := [(1000, body)]
    let c : Circ := ⟨[2, 2, 2], [[⟨2, [], [1], [2]⟩], [⟨1000, [], [2, 0], [2, 2]⟩]]⟩
    c.invB = true ∧ (c.ops.all fun o => match b.body? o.gid with
        | some bd => bd.radixes == o.rad
        | none => true) = true ∧
      (c.unfoldAll b 3).cycles =
        [[⟨2, [], [1], [2]⟩, ⟨1, [], [2], [2]⟩], [⟨6, [], [2, 0], [2, 2]⟩]] := by decide

/-- **append_circuit**: when every relabelled operation of the sub-circuit is accepted
(`check_valid_operation`), the call succeeds and each timeline gains, at its end, the qudit's part
of the sub-circuit's operations in iteration order, relabelled through `location`. -/
theorem C04_append_circuit_timeline (c sub : Circ) (loc : List Nat)
    (hlen : sub.numQudits = loc.length)
    (hv : ∀ x ∈ sub.iter, c.checkValid (x.mapLoc loc) = .ok ()) (q : Nat) :
    (c.appendCircuit sub loc).2 = .ok () ∧
      (c.appendCircuit sub loc).1.timeline q =
        c.timeline q ++ proj q (sub.iter.map (·.mapLoc loc)) := by
  rw [appendCircuit_eq c sub loc hlen]
  exact append_fold_timeline _ c (by
    intro y hy
    rw [List.mem_map] at hy
    obtain ⟨x, hx, rfl⟩ := hy
    exact hv x hx) q

/-- **insert_circuit** at an in-range non-negative cycle `k`: the sub-circuit's operations (the
code inserts them one by one in REVERSED order at `k`, so they end up in forward order) come
after everything in cycles `< k` and before everything in cycles `≥ k`. -/
theorem C04_insert_circuit_timeline (c sub : Circ) (loc : List Nat) (k : Nat)
    (hlen : sub.numQudits = loc.length) (hk : k < c.numCycles)
    (hv : ∀ x ∈ sub.iterRev, c.checkValid (x.mapLoc loc) = .ok ()) (q : Nat) :
    (c.insertCircuit (k : Int) sub loc).2 = .ok () ∧
      (c.insertCircuit (k : Int) sub loc).1.timeline q =
        proj q (c.cycles.take k).flatten ++ proj q (sub.iterRev.reverse.map (·.mapLoc loc)) ++
          proj q (c.cycles.drop k).flatten := by
  rw [insertCircuit_eq_lt c sub loc k hlen hk, List.map_reverse]
  exact insert_fold_timeline k _ c hk (by
    intro y hy
    rw [List.mem_map] at hy
    obtain ⟨x, hx, rfl⟩ := hy
    exact hv x hx) q

/-- **batch_unfold keeps the unitary**, for ANY list of points: under the hypotheses of
`C04_unfold_same_unitary` lifted to the whole circuit (hereditarily well-formed table, blocks of the
circuit standing on the radixes of their bodies), the circuit after `batch_unfold(points)` — whether
the call completed or stopped with an error after having unfolded some of the blocks, whatever
`seekOp` returned — satisfies `Inv`, still fits the table, and denotes what it denoted before.
(Every step of the fold is an `unfold` at SOME point: it either fails before touching the circuit
or replaces a block by its body, `unfold_any_point`.) -/
theorem C04_batch_unfold_same_unitary {M : Type} [Monoid M] (sem : Op → M)
    (hcomm : ∀ a b, Indep a b → sem a * sem b = sem b * sem a) (b : Blocks) (hb : b.HF)
    (hblock : ∀ o inner, expandOp b o = some inner → sem o = den sem inner)
    (c : Circ) (hinv : c.Inv) (hfit : Fits b c) (pts : List (Int × Int)) :
    (c.batchUnfold b pts).1.Inv ∧ Fits b (c.batchUnfold b pts).1 ∧
      den sem (c.batchUnfold b pts).1.iter = den sem c.iter :=
  batchUnfold_same_den sem hcomm b hb hblock c hinv hfit pts

/-- one step of it: `unfold(point)` at ANY point keeps `Inv`, the fitting and the unitary -/
theorem C04_unfold_any_point_same_unitary {M : Type} [Monoid M] (sem : Op → M)
    (hcomm : ∀ a b, Indep a b → sem a * sem b = sem b * sem a) (b : Blocks) (hb : b.HF)
    (hblock : ∀ o inner, expandOp b o = some inner → sem o = den sem inner)
    (c : Circ) (hinv : c.Inv) (hfit : Fits b c) (p : Int × Int) :
    (c.unfold b p).1.Inv ∧ Fits b (c.unfold b p).1 ∧
      den sem (c.unfold b p).1.iter = den sem c.iter :=
  unfold_any_point sem hcomm b hb hblock c hinv hfit p

-- non-vacuity (the table of the `unfold_all` example is `HF`, shown above): a fitting circuit with
-- two blocks in one cycle that `batch_unfold` really unfolds, the second one after a shift
example :
    let body : Circ := ⟨[2, 2], [[⟨1, [], [0], [2]⟩], [⟨6, [], [0, 1], [2, 2]⟩]]⟩
    let b : Blocks := [(1000, body)]
    let c : Circ := ⟨[2, 2, 2, 2], [[⟨1000, [], [0, 1], [2, 2]⟩, ⟨1000, [], [3, 2], [2, 2]⟩]]⟩
    c.invB = true ∧ (c.ops.all fun o => match b.body? o.gid with
        | some bd => bd.radixes == o.rad
        | none => true) = true ∧
      c.batchUnfold b [(0, 3), (0, 0)] =
        (⟨[2, 2, 2, 2], [[⟨1, [], [3], [2]⟩], [⟨1, [], [0], [2]⟩],
          [⟨6, [], [3, 2], [2, 2]⟩, ⟨6, [], [0, 1], [2, 2]⟩]]⟩, .ok ()) := by decide

/-- **remove_all** (`Circ.removeAll`: ONE `batch_pop` of the points `(cycle, location[0])` of all
operations satisfying `pred` — "equals the operation" or "has the gate" —, which is how the
harness replays the Python's pop-until-`point()`-fails loop; unchanged when nothing matches).  On
the grid: every cycle loses exactly its matching operations, in place, and the cycles that became
empty are dropped.  Hence nothing matching is left, every qudit's timeline is its old timeline with
the matching operations filtered out (nothing else moves), and `Inv` holds.  The proof follows the
removal fold of `batch_pop` (last cycle first; inside a cycle one operation at a time, the cycle
dropped with its last operation: `removeAt_bucket`, `remove_groups`). -/
theorem C04_remove_all (c : Circ) (hinv : c.Inv) (pred : Op → Bool) :
    (c.removeAll pred).cycles =
      (c.cycles.map (fun cy => cy.filter (fun o => !pred o))).filter (fun cy => !cy.isEmpty) ∧
    (c.removeAll pred).radixes = c.radixes ∧
    (∀ o ∈ (c.removeAll pred).ops, pred o = false) ∧
    (c.removeAll pred).ops = c.ops.filter (fun o => !pred o) ∧
    (∀ q, (c.removeAll pred).timeline q = (c.timeline q).filter (fun o => !pred o)) ∧
    (c.removeAll pred).Inv := by
  refine ⟨by rw [removeAll_eq c hinv pred]; rfl, by rw [removeAll_eq c hinv pred], ?_,
    removeAll_ops c hinv pred, removeAll_timeline c hinv pred, removeAll_inv c hinv pred⟩
  intro o ho
  rw [removeAll_ops c hinv pred, List.mem_filter] at ho
  simpa using ho.2

-- non-vacuity: removing every X (gid 1): cycle 0 vanishes, cycle 1 loses one of its two
-- operations, cycle 2 vanishes; the same through the points handed to `batch_pop`
example :
    let c : Circ := ⟨[2, 2, 2], [[⟨1, [], [0], [2]⟩], [⟨6, [], [0, 1], [2, 2]⟩, ⟨1, [], [2], [2]⟩],
      [⟨1, [], [0], [2]⟩], [⟨2, [], [1], [2]⟩]]⟩
    c.invB = true ∧ c.pointsOf (·.gid == 1) = [(0, 0), (1, 2), (2, 0)] ∧
      c.removeAll (·.gid == 1) = ⟨[2, 2, 2], [[⟨6, [], [0, 1], [2, 2]⟩], [⟨2, [], [1], [2]⟩]]⟩ ∧
      c.removeAll (·.gid == 9) = c := by decide

/-- **get_slice: the timelines of the slice.**  `get_slice(points)` selects the operations found
at the (normalised) points — duplicates of one operation collapse — and re-appends them, by cycle,
on the sorted set `qs` of the qudits they touch.  For a successful call: `sel` holds exactly the
`(cycle, operation)` pairs addressed by some point; `qs` is strictly increasing and holds exactly
the qudits of the selected operations; the slice has the radixes of `qs`; and **on its `j`-th qudit
the slice holds the source timeline of qudit `qs[j]` (`timelineIdx`, whose operations are
`timeline qs[j]` under `Inv`, `C05_first_last_point`) restricted to the selected operations — same
operations, same order — relabelled to the slice's numbering**; beyond `qs` it is empty. -/
theorem C04_slice_timeline (c : Circ) (hinv : c.Inv) (pts : List (Int × Int)) (s : Circ)
    (h : c.getSlice pts = .ok s) :
    let npts := pts.map (fun p => (normIdx c.numCycles p.1, normIdx c.numQudits p.2))
    let sel := c.selected npts
    let qs := sliceQudits (sel.map (·.2))
    (∀ k o, (k, o) ∈ sel ↔ k < c.numCycles ∧ ∃ q, (k, q) ∈ npts ∧ c.cell k q = some o) ∧
    qs.Pairwise (· < ·) ∧ (∀ q, q ∈ qs ↔ ∃ x ∈ sel, q ∈ x.2.loc) ∧
    s.radixes = qs.map (c.radixes.getD · 0) ∧
    (∀ j (hj : j < qs.length), s.timeline j =
      (((c.timelineIdx qs[j]).filter (fun x => sel.contains x)).map (·.2)).map
        (Op.relabel (fun q => qs.idxOf q))) ∧
    (∀ j, qs.length ≤ j → s.timeline j = []) := by
  intro npts sel qs
  have hs := getSlice_ok c pts s h
  refine ⟨fun k o => mem_selected c npts k o, sliceQudits_sorted _, ?_, ?_, ?_, ?_⟩
  · intro q
    rw [mem_sliceQudits]
    constructor
    · rintro ⟨o, ho, hq⟩
      rw [List.mem_map] at ho
      obtain ⟨x, hx, rfl⟩ := ho
      exact ⟨x, hx, hq⟩
    · rintro ⟨x, hx, hq⟩
      exact ⟨x.2, List.mem_map.mpr ⟨x, hx, rfl⟩, hq⟩
  · rw [hs]; exact subCircuit_radixes _ _
  · intro j hj
    rw [hs, subCircuit_timeline c.radixes _ j hj, proj_selected c hinv npts]
  · intro j hj
    rw [hs]; exact subCircuit_timeline_off c.radixes _ j hj

/-- the value `batch_pop` returns — compared with the real call's result by the differential — is
`get_slice` of the same points (same errors, same circuit), so the slice model is exercised by
every `batch_pop` of the histories -/
theorem C04_batch_pop_returns_slice (c : Circ) (pts : List (Int × Int)) :
    (c.batchPop pts).2 = c.getSlice pts :=
  batchPop_returns_getSlice c pts

-- non-vacuity: points given out of order, one negative, one idle, one duplicate operation; the
-- CNOT of cycle 1 is not selected, so on qudit 0 the slice holds X (cycle 0) then H (cycle 2)
example :
    let c : Circ := ⟨[2, 3, 2], [[⟨1, [], [0], [2]⟩, ⟨3, [], [2], [2]⟩], [⟨6, [], [0, 1], [2, 3]⟩],
      [⟨2, [], [0], [2]⟩, ⟨7, [], [2, 1], [2, 3]⟩]]⟩
    c.invB = true ∧
      c.getSlice [(-1, 0), (0, 0), (2, 1), (2, 2), (1, 2)] =
        .ok ⟨[2, 3, 2], [[⟨1, [], [0], [2]⟩, ⟨7, [], [2, 1], [2, 3]⟩], [⟨2, [], [0], [2]⟩]]⟩ ∧
      c.getSlice [(0, 0), (-1, 0)] = .ok ⟨[2], [[⟨1, [], [0], [2]⟩], [⟨2, [], [0], [2]⟩]]⟩ ∧
      c.getSlice [(-1, 1)] = .ok ⟨[3, 2], [[⟨7, [], [1, 0], [2, 3]⟩]]⟩ ∧
      c.getSlice [(1, 2)] = .error .index ∧ c.getSlice [(3, 0)] = .error .index := by decide

/-- **batch_unfold completes when every point holds a block**: for a hereditarily well-formed table
and a fitting `Inv` circuit, if every point addresses an operation that is a block of the table,
the call returns normally, and its result is reached from `c` by a CHAIN OF SUCCESSFUL SINGLE
`unfold`s (`UnfoldChain`): exactly one for every listed `(cycle, block)` pair — `found` are the
addressed operations, `buSorted` collapses duplicates and orders them by cycle and `location[0]` —
taken from the last to the first, each applied at a cycle `K ≥` its listed cycle whose cell on the
block's `location[0]` holds that very block at that moment.  (So no listed block is skipped or
unfolded twice, and each step is described by `C04_unfold_timeline`.)  The proof shows that
`seekOp` always finds the block: unfolding a block of cycle `k` leaves the earlier cycles' cells
alone (`unfold_cell_below`) and moves the other operations of cycle `k` TOGETHER to one cycle
`K' ≥ k`, the cycles in between holding only body operations on the unfolded block's qudits
(`unfold_same_cycle`, from the shape of the grid during `insert_circuit`, `insF_fold_form`). -/
theorem C04_batch_unfold_all_blocks (c : Circ) (hinv : c.Inv) (b : Blocks) (hb : b.HF)
    (hfit : Fits b c) (pts : List (Int × Int))
    (hpts : ∀ p ∈ pts, ∃ k q o, c.getOp p = .ok (k, q, o) ∧ ∃ body, b.body? o.gid = some body) :
    ∃ found, pts.mapM c.getOp = .ok found ∧ (∀ r, r ∈ found ↔ ∃ p ∈ pts, c.getOp p = .ok r) ∧
      (c.batchUnfold b pts).2 = .ok () ∧
      UnfoldChain b c (buSorted c found).reverse (c.batchUnfold b pts).1 ∧
      (buSorted c found).Nodup ∧
      (∀ k o, (k, o) ∈ buSorted c found ↔ ∃ q, (k, q, o) ∈ found) := by
  obtain ⟨found, h1, h2, h3, h4⟩ := batchUnfold_ok c hinv b hb hfit pts hpts
  obtain ⟨hpw, hmem⟩ := buSorted_props c found
  refine ⟨found, h1, h2, h3, h4, hpw.imp (fun {a b'} h => fun e => h.2 e.symm), ?_⟩
  intro k o
  rw [hmem]
  constructor
  · rintro ⟨_, h⟩; exact h
  · rintro ⟨q, hq⟩
    refine ⟨?_, q, hq⟩
    obtain ⟨p, _, hg⟩ := (h2 _).1 hq
    obtain ⟨_, _, _, _, hcell⟩ := getOp_spec c p k q o hg
    exact cell_lt c k q o hcell

/-- the two facts about one `unfold` that make `seekOp` succeed -/
theorem C04_unfold_keeps_places (c : Circ) (hinv : c.Inv) (b : Blocks) (p : Int × Int)
    (k q0 : Nat) (o : Op) (body : Circ) (hg : c.getOp p = .ok (k, q0, o))
    (hbody : b.body? o.gid = some body) (hbinv : body.Inv) (hfit : body.radixes = o.rad) :
    (∀ t, t < k → ∀ q y, c.cell t q = some y → (c.unfold b p).1.cell t q = some y) ∧
    ∃ K', k ≤ K' ∧ ∀ y, (∃ h : k < c.cycles.length, y ∈ c.cycles[k]) → y ≠ o →
      (c.unfold b p).1.cell K' y.head = some y ∧
      (∀ t, k ≤ t → t < K' → (c.unfold b p).1.cell t y.head = none) ∧
      (∀ t, t < k → ∀ q, (c.unfold b p).1.cell t q = c.cell t q) :=
  ⟨fun t ht q y hy => unfold_cell_below c hinv b p k q0 o body hg hbody hbinv hfit t ht q y hy,
    unfold_same_cycle c hinv b p k q0 o body hg hbody hbinv hfit⟩

-- non-vacuity: the hypotheses on the two-blocks-in-one-cycle circuit (table `HF` shown above)
example :
    let body : Circ := ⟨[2, 2], [[⟨1, [], [0], [2]⟩], [⟨6, [], [0, 1], [2, 2]⟩]]⟩
    let b : Blocks := [(1000, body)]
    let blkA : Op := ⟨1000, [], [0, 1], [2, 2]⟩
    let blkB : Op := ⟨1000, [], [3, 2], [2, 2]⟩
    let c : Circ := ⟨[2, 2, 2, 2], [[blkA, blkB]]⟩
    c.invB = true ∧ c.getOp (0, 3) = .ok (0, 3, blkB) ∧ c.getOp (-1, 1) = .ok (0, 1, blkA) ∧
      b.body? blkA.gid = some body ∧ b.body? blkB.gid = some body ∧
      [(0, 3), (-1, 1)].mapM c.getOp = .ok [(0, 3, blkB), (0, 1, blkA)] ∧
      buSorted c [(0, 3, blkB), (0, 1, blkA)] = [(0, blkA), (0, blkB)] ∧
      (c.batchUnfold b [(0, 3), (-1, 1)]).2 = .ok () := by decide

/-- **batch_pop on the grid, for ANY points** (all in range, at least one holding an operation —
otherwise the call raises and nothing changes): every cycle loses exactly the operations addressed
by some point (`sel`, characterised in `C04_slice_timeline`), in place, and the cycles that became
empty are dropped; the returned circuit is the slice of the same points
(`C04_batch_pop_returns_slice`).  Hence every timeline is the old (cycle-indexed) timeline without
the selected operations. -/
theorem C04_batch_pop_grid (c : Circ) (hinv : c.Inv) (pts : List (Int × Int))
    (hall : pts.all (fun p => c.cycleInRange p.1 && c.qubitInRange p.2) = true)
    (hne : ((pts.map (fun p => (normIdx c.numCycles p.1, normIdx c.numQudits p.2))).filterMap
      (fun x => (c.cell x.1 x.2).map (fun o => (x.1, o)))).isEmpty = false) :
    let sel := c.selected (pts.map (fun p => (normIdx c.numCycles p.1, normIdx c.numQudits p.2)))
    (c.batchPop pts).1.radixes = c.radixes ∧
    (c.batchPop pts).1.cycles =
      ((c.cycles.zipIdx).map (fun x => x.1.filter (fun o => !sel.contains (x.2, o)))).filter
        (fun cy => !cy.isEmpty) := by
  intro sel
  rw [batchPop_grid c hinv pts hall hne]
  exact ⟨rfl, rfl⟩

-- non-vacuity: a negative index, a duplicate and an idle point; cycle 1 vanishes
example :
    let c : Circ := ⟨[2, 2], [[⟨1, [], [0], [2]⟩, ⟨1, [], [1], [2]⟩], [⟨6, [], [0, 1], [2, 2]⟩],
      [⟨2, [], [1], [2]⟩]]⟩
    let pts : List (Int × Int) := [(-2, 1), (0, 1), (1, 0), (2, 0)]
    c.invB = true ∧ pts.all (fun p => c.cycleInRange p.1 && c.qubitInRange p.2) = true ∧
      ((pts.map (fun p => (normIdx c.numCycles p.1, normIdx c.numQudits p.2))).filterMap
        (fun x => (c.cell x.1 x.2).map (fun o => (x.1, o)))).isEmpty = false ∧
      (c.batchPop pts).1.cycles = [[⟨1, [], [0], [2]⟩], [⟨2, [], [1], [2]⟩]] := by decide

/-- **pop_qudit: the timelines.**  For an index in range on a circuit with more than one qudit the
call succeeds; the radix of the popped qudit `k` disappears; and every other qudit `q`, renamed to
`q` (below `k`) or `q - 1` (above `k`), keeps its timeline except for the operations that also
touched `k`, which are gone (the batch pop inside removes exactly the operations on `k`,
`popQudit_batch`, an instance of `C04_batch_pop_grid`). -/
theorem C04_pop_qudit_timeline (c : Circ) (hinv : c.Inv) (qi : Int)
    (hr : c.qubitInRange qi = true) (hn : (c.numQudits == 1) = false) (q : Nat)
    (hq : q ≠ normIdx c.numQudits qi) :
    (c.popQudit qi).2 = .ok () ∧
    (c.popQudit qi).1.radixes = c.radixes.eraseIdx (normIdx c.numQudits qi) ∧
    (c.popQudit qi).1.timeline (if q < normIdx c.numQudits qi then q else q - 1) =
      ((c.timeline q).filter (fun o => !o.on (normIdx c.numQudits qi))).map
        (Op.relabel (fun q => if q < normIdx c.numQudits qi then q else q - 1)) :=
  popQudit_timeline c hinv qi hr hn q hq

-- non-vacuity: popping qudit 1 (as -2) of X@0 ; CNOT@(0,1), H@2 ; H@1 ; CNOT@(2,1) ; X@2
example :
    let c : Circ := ⟨[2, 3, 2], [[⟨1, [], [0], [2]⟩], [⟨6, [], [0, 1], [2, 3]⟩, ⟨2, [], [2], [2]⟩],
      [⟨2, [], [1], [3]⟩], [⟨6, [], [2, 1], [2, 3]⟩], [⟨1, [], [2], [2]⟩]]⟩
    c.invB = true ∧ c.qubitInRange (-2) = true ∧ (c.numQudits == 1) = false ∧
      normIdx c.numQudits (-2) = 1 ∧
      (c.popQudit (-2)).1 = ⟨[2, 2], [[⟨1, [], [0], [2]⟩], [⟨2, [], [1], [2]⟩],
        [⟨1, [], [1], [2]⟩]]⟩ := by decide

/-- **replace_with_circuit(point, circuit)** as a stand-alone theorem: for a point holding an
operation `o` and an `Inv` sub-circuit on the radixes of `o`, the call succeeds, keeps `Inv`, and in
every timeline the place of `o` is taken by a linearisation `inner` of the sub-circuit relabelled
through `o`'s location (same per-qudit order as the sub-circuit's iteration order); nothing else
moves.  (`C04_unfold_timeline` is the instance "sub-circuit = body of the block with its parameters
set".) -/
theorem C04_replace_with_circuit_timeline (c : Circ) (hinv : c.Inv) (p : Int × Int) (k q0 : Nat)
    (o : Op) (sub : Circ) (hg : c.getOp p = .ok (k, q0, o)) (hsubinv : sub.Inv)
    (hfit : sub.radixes = o.rad) :
    ∃ (hlt : k < c.cycles.length) (inner : List Op),
      (c.replaceWithCircuit p sub).2 = .ok () ∧ (c.replaceWithCircuit p sub).1.Inv ∧
      (∀ x ∈ inner, x.loc ≠ []) ∧
      (∀ q, proj q inner = proj q (sub.iter.map (·.mapLoc o.loc))) ∧
      (∀ q, c.timeline q = proj q (c.cycles.take k).flatten ++ (if o.on q then [o] else []) ++
        proj q (c.cycles[k].filter (fun x => !x.on q0)) ++
          proj q (c.cycles.drop (k + 1)).flatten) ∧
      (∀ q, (c.replaceWithCircuit p sub).1.timeline q =
        proj q (c.cycles.take k).flatten ++ proj q inner ++
        proj q (c.cycles[k].filter (fun x => !x.on q0)) ++
          proj q (c.cycles.drop (k + 1)).flatten) :=
  replaceWithCircuit_timeline c hinv p k q0 o sub hg hsubinv hfit

/-- … and its semantic reading: if the replaced operation denotes what the relabelled sub-circuit
denotes, the circuit denotes what it did. -/
theorem C04_replace_with_circuit_same_unitary {M : Type} [Monoid M] (sem : Op → M)
    (hcomm : ∀ a b, Indep a b → sem a * sem b = sem b * sem a)
    (c : Circ) (hinv : c.Inv) (p : Int × Int) (k q0 : Nat) (o : Op) (sub : Circ)
    (hg : c.getOp p = .ok (k, q0, o)) (hsubinv : sub.Inv) (hfit : sub.radixes = o.rad)
    (hsem : sem o = den sem (sub.iter.map (·.mapLoc o.loc))) :
    den sem (c.replaceWithCircuit p sub).1.iter = den sem c.iter :=
  replaceWithCircuit_same_den sem hcomm c hinv p k q0 o sub hg hsubinv hfit hsem

-- non-vacuity: replacing the gate on (2,0) in the middle cycle by a 2-cycle circuit
example :
    let sub : Circ := ⟨[2, 2], [[⟨1, [], [0], [2]⟩], [⟨6, [], [0, 1], [2, 2]⟩]]⟩
    let old : Op := ⟨7, [], [2, 0], [2, 2]⟩
    let c : Circ := ⟨[2, 2, 2], [[⟨2, [], [1], [2]⟩], [old], [⟨2, [], [0], [2]⟩]]⟩
    c.invB = true ∧ sub.invB = true ∧ c.getOp (-2, 0) = .ok (1, 0, old) ∧ sub.radixes = old.rad ∧
      c.replaceWithCircuit (-2, 0) sub =
        (⟨[2, 2, 2], [[⟨2, [], [1], [2]⟩], [⟨1, [], [2], [2]⟩], [⟨6, [], [2, 0], [2, 2]⟩],
          [⟨2, [], [0], [2]⟩]]⟩, .ok ()) := by decide

/-- **insert_circuit for ANY cycle index** (negative, below `-num_cycles`, past the end): the index
is resolved ONCE against the cycle count before the insertion (`resolveCycle`: `0` below
`-num_cycles`, `num_cycles + i` for a negative index in range, `i` otherwise); with `k` the
resolved cycle and every relabelled operation accepted by `check_valid_operation`, the call
succeeds and the sub-circuit's operations stand, in forward order, between the cycles `< k` and the
cycles `≥ k` of every timeline — or at the end of every timeline when `k ≥ num_cycles`. -/
theorem C04_insert_circuit_any_index (c sub : Circ) (loc : List Nat) (ci0 : Int)
    (hlen : sub.numQudits = loc.length)
    (hv : ∀ x ∈ sub.ops, c.checkValid (x.mapLoc loc) = .ok ()) (q : Nat) :
    ((c.resolveCycle ci0).toNat =
      if ci0 < -(c.numCycles : Int) then 0
      else if ci0 < 0 then c.numCycles - (-ci0).toNat else ci0.toNat) ∧
    (c.insertCircuit ci0 sub loc).2 = .ok () ∧
    (c.insertCircuit ci0 sub loc).1.timeline q =
      if (c.resolveCycle ci0).toNat < c.numCycles then
        proj q (c.cycles.take (c.resolveCycle ci0).toNat).flatten ++
          proj q (sub.iterRev.reverse.map (·.mapLoc loc)) ++
          proj q (c.cycles.drop (c.resolveCycle ci0).toNat).flatten
      else c.timeline q ++ proj q (sub.iter.map (·.mapLoc loc)) :=
  ⟨resolveCycle_toNat c ci0, insertCircuit_any_timeline c sub loc ci0 hlen hv q⟩

-- non-vacuity: index -1 (before the last cycle), -7 (below the range: at 0), 5 (past the end)
example :
    let sub : Circ := ⟨[2, 2], [[⟨1, [], [0], [2]⟩], [⟨6, [], [0, 1], [2, 2]⟩]]⟩
    let c : Circ := ⟨[2, 2, 2], [[⟨2, [], [1], [2]⟩], [⟨7, [], [2, 0], [2, 2]⟩],
      [⟨2, [], [0], [2]⟩]]⟩
    sub.numQudits = [2, 0].length ∧
      (sub.ops.all fun x => c.checkValid (x.mapLoc [2, 0]) == .ok ()) = true ∧
      (c.insertCircuit (-1) sub [2, 0]).1.cycles = [[⟨2, [], [1], [2]⟩], [⟨7, [], [2, 0], [2, 2]⟩],
        [⟨1, [], [2], [2]⟩], [⟨6, [], [2, 0], [2, 2]⟩], [⟨2, [], [0], [2]⟩]] ∧
      (c.insertCircuit (-7) sub [2, 0]).1.cycles = [[⟨1, [], [2], [2]⟩],
        [⟨2, [], [1], [2]⟩, ⟨6, [], [2, 0], [2, 2]⟩], [⟨7, [], [2, 0], [2, 2]⟩],
        [⟨2, [], [0], [2]⟩]] ∧
      (c.insertCircuit 5 sub [2, 0]).1.cycles = [[⟨2, [], [1], [2]⟩], [⟨7, [], [2, 0], [2, 2]⟩],
        [⟨2, [], [0], [2]⟩, ⟨1, [], [2], [2]⟩], [⟨6, [], [2, 0], [2, 2]⟩]] := by decide

end BqVerif.C04
