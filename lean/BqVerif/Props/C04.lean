import BqVerif.Model.Circ
import BqVerif.Model.CircBlocks
namespace BqVerif.C04
open BqVerif.Circ

theorem C04_placeholder : (Circ.empty [2]).numCycles = 0 := rfl

end BqVerif.C04
