import BqVerif.Proofs.CircTimeline
import BqVerif.Proofs.CircTimeline2
import BqVerif.Proofs.CircHistory
import BqVerif.Proofs.Trace
import BqVerif.Proofs.CircRel
import BqVerif.Proofs.CircWhole
/-! # C04 — Circuit editing calls have their documented effect on program order -/
namespace BqVerif.C04
open BqVerif.Circ

/-- **append**: the operation goes to the end of the timeline of each qudit of its location and
no other timeline changes (for ANY circuit, not only invariant ones). -/
theorem C04_append_timeline (c : Circ) (o : Op) (q : Nat) :
    (c.appendCore o).1.timeline q = c.timeline q ++ (if o.on q then [o] else []) :=
  appendCore_timeline c o q

/-- **insert** at an in-range cycle `k`: on each of its qudits the operation comes after
everything in cycles `< k` and before everything in cycles `≥ k`; other timelines unchanged. -/
theorem C04_insert_timeline (c : Circ) (k : Nat) (o : Op) (q : Nat) (hk : k < c.numCycles) :
    (c.insertAt k o).timeline q =
      proj q (c.cycles.take k).flatten ++ (if o.on q then [o] else []) ++
        proj q (c.cycles.drop k).flatten :=
  insertAt_timeline c k o q hk

/-- **pop / remove**: exactly the addressed occurrence disappears, nothing else moves. -/
theorem C04_pop_ops (c : Circ) (k q0 : Nat) (o : Op) (hinv : c.Inv) (hc : c.cell k q0 = some o) :
    ∃ pre post, c.ops = pre ++ o :: post ∧ (c.removeAt k q0).ops = pre ++ post :=
  removeAt_ops c k q0 o hinv hc

/-- **replace**, same location set (the in-place branch): the new operation takes exactly the
place of the old one in the operation sequence, nothing else moves. -/
theorem C04_replace_inplace_ops (c : Circ) (k : Nat) (old o : Op) (hinv : c.Inv)
    (hlt : k < c.cycles.length) (hmem : old ∈ c.cycles[k]) :
    ∃ pre post, c.ops = pre ++ old :: post ∧
      (c.cycles.modify k (fun cy => cy.map (fun x => if x == old then o else x))).flatten =
        pre ++ o :: post :=
  replace_inplace_ops c k old o hinv hlt hmem

/-- **renumber_qudits / insert_qudit / pop_qudit**: relabelling every location by an injective map
`f` relabels the timelines — qudit `f q` sees the relabelled sequence qudit `q` saw, and a qudit
outside the image of `f` is idle. -/
theorem C04_relabel_timelines (f : Nat → Nat) (hf : Function.Injective f) (l : List Op) :
    (∀ q, proj (f q) (l.map (Op.relabel f)) = (proj q l).map (Op.relabel f)) ∧
    (∀ p, (∀ q, f q ≠ p) → proj p (l.map (Op.relabel f)) = []) :=
  ⟨fun q => proj_relabel f hf q l, fun p hp => proj_relabel_off f p hp l⟩

/-- **Same timelines ⇒ same unitary**, for any width: in every monoid-valued semantics in which
operations on disjoint qudits commute, two operation lists that agree on every qudit's timeline
have the same ordered product.  (Structure-only transformations — compress, copy, straighten,
fold∘unfold — are checked by the correspondence to preserve all timelines; this theorem is what
makes that equality of denotations.) -/
theorem C04_same_timelines_same_unitary {M : Type} [Monoid M] (sem : Op → M)
    (hcomm : ∀ a b, Indep a b → sem a * sem b = sem b * sem a)
    (l1 l2 : List Op) (h1 : ∀ o ∈ l1, o.loc ≠ []) (h2 : ∀ o ∈ l2, o.loc ≠ [])
    (hp : ∀ q, proj q l1 = proj q l2) : (l1.map sem).prod = (l2.map sem).prod :=
  trace_equiv sem hcomm l1 l2 h1 h2 hp

/-- **straighten** is validated relationally (the documentation leaves the new layout open): ANY
grid accepted by the validator satisfies `Inv` and denotes the same unitary, in every semantics. -/
theorem C04_straighten_same_unitary {M : Type} [Monoid M] (sem : Op → M)
    (hcomm : ∀ a b, Indep a b → sem a * sem b = sem b * sem a)
    (c c' : Circ) (net : Int) (hinv : c.Inv) (h : validStraighten c c' net = none) :
    c'.Inv ∧ den sem c'.iter = den sem c.iter :=
  validStraighten_sound sem hcomm c c' net hinv h

/-- **fold**: ANY grid accepted by the validator denotes the same unitary as before the call,
in every semantics that reads a block operation as the ordered product of its contents (S3). -/
theorem C04_fold_same_unitary {M : Type} [Monoid M] (sem : Op → M)
    (hcomm : ∀ a b, Indep a b → sem a * sem b = sem b * sem a)
    (b : Blocks) (hblock : ∀ o inner, expandOp b o = some inner → sem o = den sem inner)
    (c : Circ) (r : Region) (c' : Circ) (pt : Nat × Nat) (hinv : c.Inv)
    (h : validFold b c r c' pt = none) :
    c'.Inv ∧ den sem c'.iter = den sem c.iter :=
  validFold_sound sem hcomm b hblock c r c' pt hinv h

-- non-vacuity: a fold accepted by the validator (2 qubits; X@0, CNOT@(0,1) folded into block 1000)
example :
    let body : Circ := ⟨[2, 2], [[⟨1, [], [0], [2]⟩], [⟨6, [], [0, 1], [2, 2]⟩]]⟩
    let b : Blocks := [(1000, body)]
    let c : Circ := ⟨[2, 2], [[⟨1, [], [0], [2]⟩], [⟨6, [], [0, 1], [2, 2]⟩]]⟩
    let c' : Circ := ⟨[2, 2], [[⟨1000, [], [0, 1], [2, 2]⟩]]⟩
    validFold b c [(0, (0, 1)), (1, (1, 1))] c' (0, 0) = none ∧ c.invB = true := by decide

/-- **compress** never changes the unitary: it keeps `Inv`, every timeline, and therefore the
ordered product in every semantics. -/
theorem C04_compress_same_unitary {M : Type} [Monoid M] (sem : Op → M)
    (hcomm : ∀ a b, Indep a b → sem a * sem b = sem b * sem a) (c : Circ) (hinv : c.Inv) :
    c.compress.Inv ∧ (∀ q, c.compress.timeline q = c.timeline q) ∧
      den sem c.compress.iter = den sem c.iter :=
  ⟨compress_inv c hinv, compress_timeline c hinv, compress_same_unitary sem hcomm c hinv⟩

/-- **inverse**: the original circuit followed by `get_inverse()` denotes the identity, in every
group-valued semantics, for any gate-level inverse that keeps location and radixes and denotes the
group inverse (that each library gate's `get_inverse` is such an inverse is C18's claim). -/
theorem C04_inverse_composes_to_identity {G : Type} [Group G] (sem : Op → G)
    (hcomm : ∀ a b, Indep a b → sem a * sem b = sem b * sem a)
    (inv : Op → Op) (hloc : ∀ o, (inv o).loc = o.loc) (hrad : ∀ o, (inv o).rad = o.rad)
    (hsem : ∀ o, sem (inv o) = (sem o)⁻¹) (c : Circ) (hinv : c.Inv) :
    den sem c.iter * den sem (c.inverse inv).iter = 1 :=
  inverse_composes_to_one sem hcomm inv hloc hrad hsem c hinv

/-- every editing history keeps the representation well-formed, so "the unitary of the circuit" is
well defined independently of the linearisation the iterator picks -/
theorem C04_history_inv (radixes : List Nat) (h : List Call) (hok : ∀ call ∈ h, call.Ok radixes) :
    ((Circ.empty radixes).run h).Inv :=
  (run_inv (Circ.empty radixes) h
    ⟨by simp [Circ.empty], by simp [Circ.empty], by simp [Circ.empty]⟩ hok).1

-- non-vacuity of the hypotheses of `C04_insert_timeline` / `C04_pop_ops`
example :
    let c : Circ := ⟨[2, 2], [[⟨6, [], [0, 1], [2, 2]⟩], [⟨4, [7], [1], [2]⟩]]⟩
    (0 < c.numCycles) ∧ c.invB = true ∧ c.cell 1 1 = some ⟨4, [7], [1], [2]⟩ := by decide

end BqVerif.C04
