/-
C01 — compile() preserves circuit semantics under the reported qudit mappings.

What is proved: the COMPOSITION.  Over every regenerated circuit workflow the abstract interpreter
establishes `semOK`: no pass that measures against `data.target` runs while the target is stale
(after layout / routing / placement the target no longer describes the circuit; all numeric
passes of the real workflows sit inside ForEachBlockPass bodies whose fresh `PassData.target` is
the block's own unitary), measurements are extracted before any mapping pass sees them and
restored at the end, and every search-based synthesis leaf's result is accepted only under the
hypothesis `numOK`.  The meaning of the ledger is `C01_error_composition` + `C01_C03_budget`:
`K` accepted replacements of cost `< ε` change the denotation by at most `K·√(2ε − ε²)`.
That a given numeric pass reaches its threshold on a given block is MEASURED by the harness
(end-to-end oracle on the real output), never proved.
-/
import BqVerif.Proofs.Pipeline
import BqVerif.Proofs.PipelineChecks
import BqVerif.Proofs.PipelineBudget
import BqVerif.Proofs.PipelineMisc

namespace BqVerif.Props.C01
open BqVerif.Pipeline BqVerif.Generated.Workflows BqVerif.PipelineBudget

/-- Every regenerated circuit workflow (18 model classes x levels 1–4 x widths x
max_synthesis_size x error_threshold) keeps the circuit's meaning up to the reported mappings and
the ε-ledger, restores the measurements, and never exposes a measurement placeholder to a mapping
or synthesis pass. -/
theorem C01_post : ∀ w ∈ workflows, w.isCircuit = true → semOK w.final = true := by
  intro w hw hc
  have := allCheck_c01 (workflows_ok w hw)
  simpa [c01Check, hc] using this

example : (workflows.filter (·.isCircuit)).length ≥ 250 := by decide +kernel

/-- No modelled pass of any regenerated circuit workflow can raise where it is reachable — restore
without extract, a single-qudit rule on a wider block, a layer / template generator or a
deterministic rule that fails on a dummy block of the configuration's model, and every leaf that
calls `Circuit.instantiate` (QSearch, LEAP, ScanningGateRemoval, AutoRebase, the permutation-aware
wrappers) RUN by the translator on dummy blocks with its own cost generator and instantiate
options (a cost generator / minimizer mismatch or a gate set no instantiater accepts is a raise)
— for every model whose own gates some instantiater accepts.  The remaining models are the
finding `C01_noinstantiater_witness`. -/
theorem C01_no_modelled_pass_raises :
    ∀ w ∈ workflows, w.isCircuit = true → w.cfg.m.anyCapable = true → w.final.crash = false := by
  intro w hw hc ha
  have := allCheck_noRaise (workflows_ok w hw)
  have hs : w.raiseScope = true := by
    have h1 : w.isStateLike = false := by
      simp only [WF.isCircuit, beq_iff_eq] at hc
      simp [WF.isStateLike, hc]
    simp [WF.raiseScope, WF.noInstantiater, WF.stateForcedMinimization, WF.pasOnState,
      WF.oneQuditStateSearch, h1, ha]
  simpa [noRaise, hs] using this

example : (workflows.filter (fun w => w.isCircuit && w.cfg.m.anyCapable)).length ≥ 250 := by
  decide +kernel

/-- Finding (not fixed): for the model `{CZ, VariableUnitaryGate(1)}` no instantiater accepts a
circuit of the model's own gates (Minimization refuses VariableUnitaryGates, QFactor refuses CZ):
AutoRebase2QuditGatePass raises as soon as a two-qudit gate has to be rebased — the REAL pass,
run by the translator on a two-qubit block holding one foreign gate, raised.  A one-qudit circuit
at level 1 never reaches a numeric pass. -/
theorem C01_noinstantiater_witness :
    witCzVaruCircuit.cfg.m.anyCapable = false ∧ witCzVaruCircuit.final.crash = true := by
  decide +kernel

/-- The hypothesis `numOK` is really used: at level 3 (resynthesis) the meaning is kept only if
the search-based synthesis leaves reach their threshold — they return their best circuit even
when they do not, and `ForEachBlockPass` accepts it. -/
theorem C01_post_needs_numOK :
    semOK (witResynth.final {}) = true
      ∧ (witResynth.final { numOK := false }).circBad = true := by decide +kernel

/-- The obligation bites: a workflow that restores the measurements BEFORE mapping, or runs a
numeric pass against the stale top-level target after routing, is rejected. -/
theorem C01_post_rejects_misordered :
    semOK (ainterp {} {} (.seq (.leaf .extractMeasurements {}) (.seq (.leaf .restoreMeasurements {})
      (.seq (.leaf .sabreRouting {}) .skip))) (init {})) = false
    ∧ semOK (ainterp {} {} (.seq (.leaf .extractMeasurements {}) (.seq (.leaf .sabreRouting {})
      (.seq (.leaf .scanningGateRemoval {}) (.seq (.leaf .restoreMeasurements {}) .skip))))
      (init {})) = false := by decide

/-- Measurement placeholders reappear on the physical qudits that hold the measured logical
qudits: `RestoreMeasurements` re-keys every measurement `q ↦ c` to `final_mapping[q] ↦ c`, and
`ApplyPlacement` (run before it at levels 1–3) has already composed `final_mapping` with the
placement — so the measurement of logical `q` lands on `placement[final_mapping[q]]`, with its
classical bit unchanged, one restored entry per extracted entry, in order. -/
theorem C01_measure_positions (placement fm fm' : List Nat) (ms ms' : List (Nat × Nat))
    (h1 : applyPlacementMap placement fm = some fm') (h2 : restoreMeas fm' ms = some ms') :
    ms'.length = ms.length ∧ ∀ i : Nat, ms'[i]? = (ms[i]?).bind
      (fun p => ((fm[p.1]?).bind (fun x => placement[x]?)).map (fun q => (q, p.2))) := by
  refine ⟨mapOpt_length _ _ _ h2, fun i => ?_⟩
  rw [mapOpt_get _ _ _ h2 i]
  cases ms[i]? with
  | none => rfl
  | some p =>
    simp only [Option.bind_some]
    rw [mapOpt_get _ _ _ h1 p.1]

/-- Non-vacuity: logical qudits 0 and 2 measured, routing ended with final mapping [0, 2, 1],
placement [3, 1, 2] on a wider machine. -/
example : applyPlacementMap [3, 1, 2] [0, 2, 1] = some [3, 2, 1]
    ∧ restoreMeas [3, 2, 1] [(0, 0), (2, 1)] = some [(3, 0), (1, 1)] := by decide

/-- BQSKit's distance written in its cost, and the budget: `K` replacements accepted with
Hilbert–Schmidt cost `< ε ≤ 1` each add up to a distance of at most `K·√(2ε − ε²)`. -/
theorem C01_C03_budget (ε : ℝ) (hε : ε ≤ 1) (costs : List ℝ)
    (h : ∀ c ∈ costs, 0 ≤ c ∧ c < ε) :
    (∀ c : ℝ, Real.sqrt (1 - (1 - c) ^ 2) = distOfCost c) ∧
      (costs.map distOfCost).sum ≤ costs.length * distOfCost ε :=
  ⟨dist_eq_distOfCost, budget ε hε costs h⟩

example : ∃ (ε : ℝ) (costs : List ℝ), ε ≤ 1 ∧ costs ≠ [] ∧ ∀ c ∈ costs, 0 ≤ c ∧ c < ε :=
  ⟨1 / 2, [1 / 4, 0], by norm_num, by simp, by
    intro c hc
    simp only [List.mem_cons, List.not_mem_nil, or_false] at hc
    rcases hc with rfl | rfl <;> norm_num⟩

/-- Composition of the ledger along a circuit: for any pseudo-metric on the denotations that is
invariant under multiplication on both sides (BQSKit's phase-insensitive distance is), replacing
each factor `aᵢ` of a product by `bᵢ` moves the product by at most `Σ d(aᵢ, bᵢ)`. -/
theorem C01_error_composition {M : Type} [Monoid M] (d : M → M → ℝ)
    (d_self : ∀ x, d x x = 0) (tri : ∀ x y z, d x z ≤ d x y + d y z)
    (left : ∀ g x y, d (g * x) (g * y) = d x y) (right : ∀ g x y, d (x * g) (y * g) = d x y)
    (l : List (M × M)) :
    d (l.map Prod.fst).prod (l.map Prod.snd).prod ≤ (l.map fun p => d p.1 p.2).sum :=
  product_error d d_self tri left right l

/-- Non-vacuity: the hypotheses hold for `d x y = |x − y|` on the additive reals seen as a
monoid. -/
example : ∃ d : Multiplicative ℝ → Multiplicative ℝ → ℝ,
    (∀ x, d x x = 0) ∧ (∀ x y z, d x z ≤ d x y + d y z)
      ∧ (∀ g x y, d (g * x) (g * y) = d x y) ∧ (∀ g x y, d (x * g) (y * g) = d x y) :=
  ⟨fun x y => |Multiplicative.toAdd x - Multiplicative.toAdd y|,
   fun x => by simp,
   fun x y z => by
     have := abs_sub_le (Multiplicative.toAdd x) (Multiplicative.toAdd y) (Multiplicative.toAdd z)
     simpa using this,
   fun g x y => by simp [toAdd_mul],
   fun g x y => by simp [toAdd_mul]⟩

end BqVerif.Props.C01
