import BqVerif.Proofs.Control
import BqVerif.Proofs.BatchReplace
import BqVerif.Proofs.BatchGeneral
import BqVerif.Proofs.ForEach
import BqVerif.Proofs.ForEachParams
import BqVerif.Proofs.ErrorBound
import BqVerif.Proofs.CircInvB
import BqVerif.Generated.FieldsC11
/-!
# C11 — block-wise and control-flow passes apply bodies exactly as specified

Every theorem is about the executable model `BqVerif.Control` (`Model/Control.lean`), a transcription
of `bqskit/passes/control/*.py`, `bqskit/compiler/{workflow,passdata,basepass}.py`, on top of the
list-of-cycles circuit model `BqVerif.Circ` (incl. `Circ.batchReplace`); the model is tied to the real
passes by `harness/c11.py`, and the two tables `Generated/FieldsC11.lean` are re-read from the live
source on every run.  Proofs live in
`Proofs/{Control,BatchReplace,BatchGeneral,ForEach,ForEachParams,ErrorBound}.lean`.

Vocabulary
* `Env`  what the leaf passes, the two-circuit callables (`DoThenDecide` condition, `ParallelDo`
  `less_than`) and the filter callables do: the theorems hold for EVERY environment.
* `World`  the oracles threaded through a run: the script of predicate outcomes, measured distances,
  arrival batches of `runtime.next`, the table naming circuit-gate bodies.
* `exec env fuel t w s : Option Res`  the interpreter (`none` = out of fuel);
  `Runs env t w s r := ∃ fuel, exec env fuel t w s = some r`.
* `Res = ⟨trace, st, w, out⟩`: the executed leaves with the state each saw, the final state (or the
  state at the moment of the exception), the oracles left, `ok` / `raised e`.
* `Then env r1 K r`: "`r1` raised and `r = r1`, or `K` continues from what `r1` left to some `r2` and
  `r` is `r2` with `r1.trace` prepended".
-/
namespace BqVerif.C11
open BqVerif.Control BqVerif.Circ

/-! ## 0. the interpreter is a function of tree, oracles and state -/

/-- More fuel never changes an answer: the fuel bound of the model is immaterial for every run that
terminates. -/
theorem C11_exec_fuel_irrelevant (env : Env) (n m : Nat) (h : n ≤ m) (t : Tree) (w : World) (s : St)
    (r : Res) (hr : exec env n t w s = some r) : exec env m t w s = some r :=
  exec_mono env n m h t w s r hr

theorem C11_exec_deterministic (env : Env) (t : Tree) (w : World) (s : St) (r r' : Res)
    (h : Runs env t w s r) (h' : Runs env t w s r') : r = r' := h.unique h'

/-! ## 1. Workflow, IfThenElse, While, DoWhile = the textbook big-step rules -/

/-- Workflow: the passes run in list order, each on what the previous one left; the first exception
stops the sequence; the trace is the concatenation. -/
theorem C11_exec_seq (env : Env) (t : Tree) (ts : List Tree) (w : World) (s : St) (r : Res) :
    (Runs env (.seq []) w s r ↔ r = Res.skip w s) ∧
    (Runs env (.seq (t :: ts)) w s r ↔
      ∃ r1, Runs env t w s r1 ∧ Then env r1 (Runs env (.seq ts)) r) :=
  ⟨runs_seq_nil env w s r, runs_seq_cons env t ts w s r⟩

/-- a leaf runs once, on the current state -/
theorem C11_exec_leaf (env : Env) (i : Nat) (w : World) (s : St) (r : Res) :
    Runs env (.leaf i) w s r ↔ r = leafM env i w s := runs_leaf env i w s r

/-- IfThenElsePass: the predicate is evaluated exactly once; exactly the selected branch runs (on the
state the predicate left); with no `on_false` a false predicate runs nothing and changes nothing. -/
theorem C11_exec_ifte (env : Env) (p : Pred) (t : Tree) (e : Option Tree) (w : World) (s : St) (r : Res) :
    Runs env (.ite p t e) w s r ↔
      match evalPred p w s with
      | .error err => r = Res.fail [] s w err
      | .ok (b, w', s') =>
        if b then Runs env t w' s' r
        else match e with
          | some e => Runs env e w' s' r
          | none => r = Res.skip w' s' := runs_ite env p t e w s r

/-- WhileLoopPass: test; if true run the body, then the whole loop again on what the body left; if
false stop without running anything. -/
theorem C11_exec_while (env : Env) (p : Pred) (b : Tree) (w : World) (s : St) (r : Res) :
    Runs env (.while p b) w s r ↔
      match evalPred p w s with
      | .error err => r = Res.fail [] s w err
      | .ok (c, w', s') =>
        if c then ∃ r1, Runs env b w' s' r1 ∧ Then env r1 (Runs env (.while p b)) r
        else r = Res.skip w' s' := runs_while env p b w s r

/-- DoWhileLoopPass: the body first (before any test), then the while loop. -/
theorem C11_exec_dowhile (env : Env) (p : Pred) (b : Tree) (w : World) (s : St) (r : Res) :
    Runs env (.doWhile p b) w s r ↔
      ∃ r1, Runs env b w s r1 ∧ Then env r1 (Runs env (.while p b)) r := runs_doWhile env p b w s r

/-- Counts and order: with predicate outcomes `true^n, false` a while loop executes its leaf body
exactly `n` times — the k-th time on the state left by the (k−1)-th — consumes exactly `n+1`
outcomes, and this is the only possible result. -/
theorem C11_exec_while_count (env : Env) (i : Nat) (hok : ∀ s, (env.leaf i s).2 = none)
    (n : Nat) (w : World) (s : St) (rest : List Bool) (r : Res)
    (hr : Runs env (.while .script (.leaf i))
      { w with script := List.replicate n true ++ false :: rest } s r) :
    r = ⟨leafTrace env i n s, iterLeaf env i n s, { w with script := rest }, .ok⟩ ∧
    r.trace.length = n :=
  have h := hr.unique (while_script_leaf env i hok n w s rest)
  ⟨h, by rw [h]; exact leafTrace_length env i n s⟩

/-- … and a do-while loop executes it exactly `n + 1` times. -/
theorem C11_exec_dowhile_count (env : Env) (i : Nat) (hok : ∀ s, (env.leaf i s).2 = none)
    (n : Nat) (w : World) (s : St) (rest : List Bool) (r : Res)
    (hr : Runs env (.doWhile .script (.leaf i))
      { w with script := List.replicate n true ++ false :: rest } s r) :
    r = ⟨leafTrace env i (n + 1) s, iterLeaf env i (n + 1) s, { w with script := rest }, .ok⟩ ∧
    r.trace.length = n + 1 :=
  have h := hr.unique (doWhile_script_leaf env i hok n w s rest)
  ⟨h, by rw [h]; exact leafTrace_length env i (n + 1) s⟩

/-! ## 2. DoThenDecide restores circuit and every PassData field -/

/-- the attribute names read from the live source, as model fields -/
def genCopy : List Field := Generated.FieldsC11.copyFields.filterMap Field.ofPyName
def genBecome : List Field := Generated.FieldsC11.becomeFields.filterMap Field.ofPyName
def genBecomeDeep : List Field := Generated.FieldsC11.becomeDeepFields.filterMap Field.ofPyName

/-- (B)-obligation, re-checked on every run against the live source: the record `PData` of the model
has exactly the attributes `PassData.__init__` creates, and `copy`, `become` (both branches of its
`deepcopy` flag) carry every one of them.  Removing an assignment from `become` breaks this. -/
theorem C11_fields_covered :
    (Generated.FieldsC11.initFields.all (fun n => (Field.ofPyName n).isSome) &&
     Field.all.all (fun f => Generated.FieldsC11.initFields.contains f.pyName) &&
     Field.all.all (fun f => genCopy.contains f) &&
     Field.all.all (fun f => genBecome.contains f) &&
     Field.all.all (fun f => genBecomeDeep.contains f)) = true := by decide

theorem genCopy_all : ∀ f : Field, f ∈ genCopy := by intro f; cases f <;> decide
theorem genBecome_all : ∀ f : Field, f ∈ genBecome := by intro f; cases f <;> decide

/-- DoThenDecide (big-step rule): body; if it raised, propagate with no restoration; else the
condition on (old circuit, new circuit): accepted keeps everything, rejected goes back. -/
theorem C11_exec_dothendecide (env : Env) (c : Cond) (body : Tree) (w : World) (s : St) (r : Res) :
    Runs env (.dtd c body) w s r ↔
      ∃ rb, Runs env body w s rb ∧
        match rb.out with
        | .raised _ => r = rb
        | .ok =>
          match evalCond env c rb.w s.circ rb.st.circ with
          | .error err => r = { rb with out := .raised err }
          | .ok (accept, w') =>
            if accept then r = { rb with w := w' }
            else r = { rb with w := w', st := restore env s rb.st } := runs_dtd env c body w s r

/-- **Rejected ⇒ as before.**  With `copy`/`become` as they are in the source (the generated field
lists), a DoThenDecide whose body ran and whose condition said no leaves the circuit and EVERY
PassData field (target, error, model, placement, both mappings, user keys, seed) exactly as they
were; the body did run (its trace is kept). -/
theorem C11_dothendecide_restore (env : Env)
    (hc : env.copyFields = genCopy) (hb : env.becomeFields = genBecome)
    (c : Cond) (body : Tree) (w : World) (s : St) (r rb : Res)
    (hbody : Runs env body w s rb) (hok : rb.out = .ok) (w' : World)
    (hrej : evalCond env c rb.w s.circ rb.st.circ = .ok (false, w'))
    (hr : Runs env (.dtd c body) w s r) :
    r.st = s ∧ r.trace = rb.trace ∧ r.out = .ok := by
  obtain ⟨rb', hb', h⟩ := (runs_dtd env c body w s r).mp hr
  have := hb'.unique hbody
  subst this
  simp only [hok, hrej] at h
  have hres : restore env s rb'.st = s :=
    restore_all env (by rw [hc]; exact genCopy_all) (by rw [hb]; exact genBecome_all) s rb'.st
  simp only [Bool.false_eq_true, if_false] at h
  rw [h]
  exact ⟨hres, rfl, rfl⟩

/-! ## 3. ParallelDo -/

/-- ParallelDo (big-step rule): the awaited branches (all of them, or the first arrival batch with
`pick_first`) run as jobs on copies of the same state; then `parFinish`. -/
theorem C11_exec_paralleldo (env : Env) (ws : List Tree) (lt : Cond) (pf : Bool) (w : World) (s : St)
    (r : Res) :
    Runs env (.par ws lt pf) w s r ↔
      match arrivedOf pf ws.length w with
      | none => r = Res.fail [] s w .runtime
      | some (idxs, w0) =>
        ∃ rs w2,
          JobsRun (fun w (j : Tree × Nat) r => SubRuns env j.1 w s r) w0
            (ws.zipIdx.filter (fun (j : Tree × Nat) => idxs.contains j.2)) rs w2 ∧
          r = parFinish env lt s idxs (ws.zipIdx.filter (fun (j : Tree × Nat) => idxs.contains j.2)) rs w2 :=
  runs_par env ws lt pf w s r

/-- **The choice.**  When no awaited branch raised, the final circuit is that of the result `b` picked
by the selection loop from the results in arrival order `first :: rest`, the data has become `b`'s
data (every field, with the source's `become`), and `b`
* is one of the awaited results,
* is not beaten by any result after it, and is the first result or beat the best of those before it,
* is `less_than`-minimal among all awaited results when `less_than` is a strict weak order.
With `pick_first` and a single arrival, `first :: rest = [that branch's result]`. -/
theorem C11_paralleldo_choice (env : Env) (hb : env.becomeFields = genBecome) (i : Nat) (s : St)
    (idxs : List Nat) (jobs : List (Tree × Nat)) (rs : List Res) (w2 : World) (first : Res)
    (rest : List Res) (hno : firstRaised rs = none)
    (hch : idxs.filterMap (fun i => ((jobs.zip rs).find? (fun jr => jr.1.2 == i)).map (·.2)) = first :: rest) :
    let r := parFinish env (.fn i) s idxs jobs rs w2
    let b := pickBest (env.cond i) first rest
    r.out = .ok ∧ r.st = b.st ∧
    b ∈ first :: rest ∧
    (∃ pre post, first :: rest = pre ++ b :: post ∧
      (∀ y ∈ post, env.cond i y.st.circ b.st.circ = false) ∧
      (pre = [] ∨ ∃ b0 pre', pre = b0 :: pre' ∧
        env.cond i b.st.circ (pickBest (env.cond i) b0 pre').st.circ = true)) ∧
    ((∀ a, env.cond i a a = false) →
     (∀ a b c, env.cond i a b = true → env.cond i b c = true → env.cond i a c = true) →
     (∀ a b c, env.cond i a b = false → env.cond i b c = false → env.cond i a c = false) →
     ∀ y ∈ first :: rest, env.cond i y.st.circ b.st.circ = false) := by
  intro r b
  obtain ⟨h1, h2, h3⟩ := parFinish_choice env i s idxs jobs rs w2 first rest hno hch
  have hd : (parFinish env (.fn i) s idxs jobs rs w2).st.data =
      (pickBest (env.cond i) first rest).st.data := by
    rw [h3, hb]; exact becomeWith_all _ genBecome_all _ _
  have hst : ∀ a b : St, a.circ = b.circ → a.data = b.data → a = b := by
    intro a b h1 h2; cases a; cases b; cases h1; cases h2; rfl
  exact ⟨h1, hst _ _ h2 hd, pickBest_mem _ rest first, pickBest_split _ rest first,
    fun hirr htr hneg => pickBest_minimal _ hirr htr hneg rest first⟩

/-! ## 4. batch_replace -/

/-- **Same location set ⇒ pointwise.**  If every new operation has the location set of the
operation it replaces (`SameLocBatch`: targets `(cycle, old, new)` name distinct operations of a
well-formed circuit), `batch_replace` does not raise and is the substitution `r`: targeted
operations become their replacements, all others stay what and where they were; the number of
cycles and every cycle index are unchanged — so points collected before the batch stay valid
(the shrink amount is 0 throughout), in whatever order the items are given. -/
theorem C11_batch_replace_same_loc (c : Circ) (l : List Tgt) (h : SameLocBatch c l) :
    ∃ r : Nat → Op → Op,
      (∀ k x, RelT l k x (r k x)) ∧ (∀ k x q, (r k x).on q = x.on q) ∧
      c.batchReplace (l.map Tgt.item) =
        (⟨c.radixes, c.cycles.mapIdx (fun k cy => cy.map (r k))⟩, .ok ()) :=
  batchReplace_sameLoc c l h

/-- **General case: the shifted points hit the intended operations.**  Items in any order, each a
point `(k, q)` of an operation `o` of the circuit (distinct operations), each replacement `n`
passing `check_valid_operation` and sharing a qudit with `o` (any location otherwise).  Then
`batch_replace` does not raise; it processes the items in the order `Ts` (a permutation of the input,
sorted by cycle) and at every step the point `(k − shrink, q)` — `shrink` = cycles before the batch
minus cycles now, negative when cycles were opened — holds exactly `o`, although earlier steps
removed cycles (popped operation alone) or opened new ones (replacement did not fit).
`brFound` is the fold of `batch_replace` instrumented with the operation found at each step. -/
theorem C11_batch_replace_general (c : Circ) (T : List GT)
    (hdisj : ∀ cy ∈ c.cycles, DisjCy cy)
    (hmem : ∀ t ∈ T, ∃ cy, c.cycles[t.k]? = some cy ∧ t.o ∈ cy)
    (hnodup : (T.map GT.key).Nodup)
    (hside : ∀ t ∈ T, t.q ∈ t.o.loc ∧ t.q < c.numQudits ∧ c.checkValid t.n = .ok () ∧
      disjointL t.o.loc t.n.loc = false) :
    ∃ Ts : List GT, Ts.Perm T ∧ Ts.Pairwise (fun a b => a.k ≤ b.k) ∧
      (c.batchReplace (T.map GT.item)).2 = .ok () ∧
      brFound c.numCycles (c, .ok ()) (Ts.map GT.item) = Ts.map (fun t => some t.o) :=
  batchReplace_general c T hdisj hmem hnodup hside

/-! ## 5. ForEachBlockPass -/

/-- ForEachBlockPass (big-step rule): unknown filter name raises before anything else; no collected
block records an empty list; otherwise the body runs as ONE job per collected block (jobs =
`feJobs` of `feBlocks`: the operations passing the collection filter, in iteration order, each with
its sub-circuit, sub-model and block data), then `feFinish`. -/
theorem C11_exec_foreach (env : Env) (cfg : FECfg) (body : Tree) (w : World) (s : St) (r : Res) :
    Runs env (.forEach cfg body) w s r ↔
      if feUnknown env cfg then r = Res.fail [] s w .value
      else if (feBlocks env w.blocks cfg (feRoom s).circ).isEmpty then
        r = ⟨[], { feRoom s with data := feAppendRec (feRoom s).data (.list []) }, w, .ok⟩
      else
        match feJobs w.blocks cfg (feRoom s) (feBlocks env w.blocks cfg (feRoom s).circ) with
        | .error e => r = Res.fail [] (feRoom s) w e
        | .ok jobs =>
          ∃ rs w1,
            JobsRun (fun w (j : BlockJob) r => SubRuns env body w ⟨j.sub, j.bd⟩ r) w jobs rs w1 ∧
            r = feFinish env cfg (feRoom s) jobs rs w1 := runs_forEach env cfg body w s r

/-- the body runs exactly once per collected block: as many jobs as blocks, job `i` on block `i` -/
theorem C11_foreach_once_per_block (bl : Blocks) (cfg : FECfg) (s0 : St) (blocks : List (Nat × Op))
    (jobs : List BlockJob) (h : feJobs bl cfg s0 blocks = .ok jobs)
    {sub : World → BlockJob → Res → Prop} {w w1 : World} {rs : List Res}
    (hj : JobsRun sub w jobs rs w1) :
    jobs.map (fun j => (j.cycle, j.op)) = blocks ∧ rs.length = blocks.length := by
  have hk := feJobs_keys bl cfg s0 blocks jobs h
  refine ⟨hk, ?_⟩
  rw [hj.length, ← hk, List.length_map]

/-- **Write-back.**  If the pass terminates without raising on a circuit satisfying the documented
invariants, the final circuit is the initial one where — pointwise, in place, cycle indices
unchanged — exactly the written-back blocks `tg` (a sub-selection of the collected blocks; each the
circuit gate of the body's result on the block's own location) are replaced and every other
operation is untouched. -/
theorem C11_foreach_writeback (env : Env) (cfg : FECfg) (body : Tree) (w : World) (s : St) (r : Res)
    (hinv : s.circ.Inv) (hrun : Runs env (.forEach cfg body) w s r) (hok : r.out = .ok) :
    ∃ (tg : List Tgt) (f : Nat → Op → Op),
      (tg.map Tgt.key).Sublist (feBlocks env w.blocks cfg s.circ) ∧
      (∀ t ∈ tg, t.2.2.loc = t.2.1.loc) ∧
      (∀ k x, RelT tg k x (f k x)) ∧ (∀ k x q, (f k x).on q = x.on q) ∧
      r.st.circ = ⟨s.circ.radixes, s.circ.cycles.mapIdx (fun k cy => cy.map (f k))⟩ :=
  forEach_writeback env cfg body w s r hinv hrun hok

/-- **Every other timeline is unchanged.**  For a qudit `q` that none of the written-back blocks
touches, the sequence of operations on `q` after the pass is exactly the sequence before. -/
theorem C11_foreach_other_timelines (c : Circ) (tg : List Tgt) (f : Nat → Op → Op)
    (hrel : ∀ k x, RelT tg k x (f k x)) (hon : ∀ k x q, (f k x).on q = x.on q)
    (q : Nat) (hq : ∀ t ∈ tg, q ∉ t.2.1.loc) :
    (⟨c.radixes, c.cycles.mapIdx (fun k cy => cy.map (f k))⟩ : Circ).timeline q = c.timeline q :=
  timeline_of_subst c tg f hrel hon q hq

/-- … and which blocks are written back: exactly those whose result the replace filter accepted. -/
theorem C11_foreach_accepted (env : Env) (cfg : FECfg) (s0 : St) (jobs : List BlockJob) (rs : List Res)
    (w1 : World) (hinv : s0.circ.Inv)
    (hjobs : (jobs.map (fun j => (j.cycle, j.op))).Sublist s0.circ.iterCyc)
    (hlen : rs.length = jobs.length) (hno : firstRaised rs = none) :
    ∃ (tg : List Tgt) (r : Nat → Op → Op),
      (tg.map Tgt.key).Sublist (jobs.map (fun j => (j.cycle, j.op))) ∧
      (∀ t ∈ tg, ∃ jr ∈ jobs.zip rs, Accepted env cfg s0.data.model jr t) ∧
      (∀ jr ∈ jobs.zip rs, (∃ t ∈ tg, Accepted env cfg s0.data.model jr t) ∨
          ∃ bl, feAccept env cfg s0.data.model bl jr.2.st.circ jr.1.op ≠ some true) ∧
      (∀ k x, RelT tg k x (r k x)) ∧ (∀ k x q, (r k x).on q = x.on q) ∧
      (feFinish env cfg s0 jobs rs w1).out = .ok ∧
      (feFinish env cfg s0 jobs rs w1).st.circ =
        ⟨s0.circ.radixes, s0.circ.cycles.mapIdx (fun k cy => cy.map (r k))⟩ :=
  feFinish_writeback env cfg s0 jobs rs w1 hinv hjobs hlen hno


/-! ### block operations carry their own parameters

A block operation `o` has a gate name `o.gid` (the table `Blocks` gives the structure of the circuit
frozen inside the `CircuitGate`) and its OWN flat parameter vector `o.par`, which need not be the
vector frozen in the gate (the circuit was re-parameterised after its blocks were formed; the same
gate object occurs with several vectors).  `expandOp bl o` is what `o` means: the body in iteration
order with the parameters of `o.par`, relabelled through `o.loc`; `expand1 bl o` is that, or `[o]` for
an operation that is not a block. -/

/-- **What the body is handed is the collected operation — gate AND current parameters.**  Every job
of ForEachBlockPass runs on `subCircuit bl op`; for a block operation that circuit iterates as the
gate's body with the parameters of the OPERATION distributed over it (`set_params(op.params)`), so
its operations, put on the block's location, are exactly the expansion of the operation — for every
parameter vector, whatever is frozen in the gate. -/
theorem C11_foreach_body_input (bl : Blocks) (cfg : FECfg) (s0 : St) (blocks : List (Nat × Op))
    (jobs : List BlockJob) (h : feJobs bl cfg s0 blocks = .ok jobs) :
    ∀ j ∈ jobs, j.sub = subCircuit bl j.op ∧
      j.sub.iter.map (·.mapLoc j.op.loc) = expand1 bl j.op ∧
      ∀ body, bl.body? j.op.gid = some body → j.sub.iter = distribute body.iter j.op.par := by
  intro j hj
  have hs := feJobs_sub bl cfg s0 blocks jobs h j hj
  refine ⟨hs, by rw [hs]; exact subCircuit_expand1 bl j.op, ?_⟩
  intro body hb
  rw [hs]
  exact (expandOp_subCircuit bl j.op body hb).1

/-- **What is written back means the body's result.**  The operation written back for a result `new`
(`Operation(CircuitGate(new), op.location, new.params)`, the gate interned into the table) expands to
exactly the operations of `new`, with `new`'s parameters, on the block's location; no older gate name
changes its meaning and names stay unique. -/
theorem C11_foreach_writeback_meaning (bl : Blocks) (hnd : bl.KeysNodup) (new : Circ) (loc : List Nat) :
    expandOp (internBlock bl new).1 (blockOpOf (internBlock bl new).2 new loc) =
      some (new.iter.map (·.mapLoc loc)) ∧
    (internBlock bl new).1.KeysNodup ∧ (internBlock bl new).1.Extends bl :=
  ⟨expandOp_writeback bl hnd new loc, (internBlock_spec bl hnd new).2⟩

/-- **A body that changes nothing leaves the circuit's meaning unchanged — for all parameters.**
ForEachBlockPass around a leaf that returns its circuit as it got it (it may read it), any collection
filter, any replace filter, error bound requested or not, on any well-formed circuit whose plain
gates have ids below 1000 (block names are allocated from 1000): if the pass returns normally, the
sequence of one-level expansions of the final circuit — under the final gate table — equals that of
the initial circuit, and every gate name known before still has its body.  In particular a block
whose operation parameters differ from the ones frozen in its gate keeps ITS parameters. -/
theorem C11_foreach_identity_body (env : Env) (cfg : FECfg) (i : Nat) (w : World) (s : St) (r : Res)
    (hleaf : ∀ s', env.leaf i s' = (s', none)) (hinv : s.circ.Inv) (hnd : w.blocks.KeysNodup)
    (hplain : ∀ x ∈ s.circ.ops, w.blocks.body? x.gid = none → x.gid < 1000)
    (hrun : Runs env (.forEach cfg (.leaf i)) w s r) (hok : r.out = .ok) :
    r.w.blocks.Extends w.blocks ∧
    r.st.circ.iter.flatMap (expand1 r.w.blocks) = s.circ.iter.flatMap (expand1 w.blocks) :=
  forEach_identity_semantics env cfg i w s r hleaf hinv hnd hplain hrun hok

/-- … and for arbitrary bodies, the post-processing alone: when every job returned the circuit it
was handed (`hid`), whatever the jobs did to the oracles and the gate table (`w1`). -/
theorem C11_foreach_identity_results (env : Env) (cfg : FECfg) (s0 : St) (jobs : List BlockJob)
    (rs : List Res) (w1 : World) (bl0 : Blocks) (hinv : s0.circ.Inv)
    (hjobs : (jobs.map (fun j => (j.cycle, j.op))).Sublist s0.circ.iterCyc)
    (hlen : rs.length = jobs.length) (hno : firstRaised rs = none)
    (hnd : w1.blocks.KeysNodup) (hext : w1.blocks.Extends bl0) (hnew : NewAbove w1.blocks bl0)
    (hplain : ∀ x ∈ s0.circ.ops, bl0.body? x.gid = none → x.gid < 1000)
    (hid : ∀ jr ∈ jobs.zip rs, jr.2.st.circ = subCircuit bl0 jr.1.op) :
    (feFinish env cfg s0 jobs rs w1).out = .ok ∧
    (feFinish env cfg s0 jobs rs w1).w.blocks.Extends bl0 ∧
    (feFinish env cfg s0 jobs rs w1).st.circ.iter.flatMap
        (expand1 (feFinish env cfg s0 jobs rs w1).w.blocks) =
      s0.circ.iter.flatMap (expand1 bl0) :=
  feFinish_identity_semantics env cfg s0 jobs rs w1 bl0 hinv hjobs hlen hno hnd hext hnew hplain hid

/-! ## 6. the error bound -/

/-- **Arithmetic of `update_error_mul`.**  With previous bound `E = d.error` and `S` the sum of the
errors of the replaced blocks, the reported `E' = 1 − (1−E)(1−S)` satisfies `E + S = E' + E·S`;
hence any quantity bounded by `E + S` is bounded by `E'` up to the second-order term `E·S`. -/
theorem C11_error_bound (d : PData) (S truth : ℚ) (h : truth ≤ d.error + S) :
    d.error + S = (d.updateErrorMul S).error + d.error * S ∧
    truth ≤ (d.updateErrorMul S).error + d.error * S := by
  have := updateErrorMul_eq d S
  exact ⟨this, by linarith⟩

/-- **Composition (S5).**  For a bi-invariant pseudo-metric on a group, the distance between two
products is at most the sum of the factor-wise distances: replacing blocks `aᵢ` of a circuit by
`bᵢ` (untouched factors contribute `d x x = 0`) moves the whole circuit by at most `Σ d aᵢ bᵢ`.
Together with the triangle inequality: `d target new ≤ d target old + Σ eᵢ ≤ E + S`. -/
theorem C11_error_composition {G α : Type} [Group G] [AddCommMonoid α] [PartialOrder α]
    [IsOrderedAddMonoid α] (d : G → G → α)
    (hl : ∀ g a b, d (g * a) (g * b) = d a b) (hr : ∀ g a b, d (a * g) (b * g) = d a b)
    (htri : ∀ a b c, d a c ≤ d a b + d b c) (hrefl : ∀ a, d a a = 0)
    (target : G) (l : List (G × G)) (E : α) (hE : d target (l.map Prod.fst).prod ≤ E) :
    d target (l.map Prod.snd).prod ≤ E + (l.map (fun p => d p.1 p.2)).sum := by
  calc d target (l.map Prod.snd).prod
      ≤ d target (l.map Prod.fst).prod + d (l.map Prod.fst).prod (l.map Prod.snd).prod := htri _ _ _
    _ ≤ E + (l.map (fun p => d p.1 p.2)).sum :=
        add_le_add hE (dist_prod_le d hl hr htri hrefl l)

/-! ## 7. the named replace filters -/

/-- the table of `gen_replace_filter`, regenerated from the source on every run, is the documented
one: ten names, each the expected combination of wrapper and comparison -/
theorem C11_replace_filters_table :
    Generated.FieldsC11.replaceFilters.map (fun p => (p.1, FilterKind.ofString p.2)) =
      [("always", some .always),
       ("less-than", some (.plain .ops)),
       ("less-than-multi", some (.plain .multi)),
       ("less-than-many", some (.plain .many)),
       ("less-than-respecting", some (.respecting .ops)),
       ("less-than-respecting-multi", some (.respecting .multi)),
       ("less-than-respecting-many", some (.respecting .many)),
       ("less-than-respecting-fully", some (.respectingFully .ops)),
       ("less-than-respecting-fully-multi", some (.respectingFully .multi)),
       ("less-than-respecting-fully-many", some (.respectingFully .many))] := by decide

/-- "fewer gates" in the three documented senses (multi / many break ties on the smaller arities) -/
def Fewer (f : FilterFn) (new org : Circ) : Prop :=
  match f with
  | .ops => new.numOps < org.numOps
  | .multi =>
    arityCount new (· > 1) < arityCount org (· > 1) ∨
    (arityCount new (· > 1) = arityCount org (· > 1) ∧ arityCount new (· == 1) < arityCount org (· == 1))
  | .many =>
    arityCount new (· > 2) < arityCount org (· > 2) ∨
    (arityCount new (· > 2) = arityCount org (· > 2) ∧
      (arityCount new (· == 2) < arityCount org (· == 2) ∨
       (arityCount new (· == 2) = arityCount org (· == 2) ∧
        arityCount new (· == 1) < arityCount org (· == 1))))

/-- "respects the model at `location`": multi-qudit gates (and single-qudit ones when `fully`) are in
the gate set and every coupled pair of the circuit maps to a coupled pair of the model -/
def Respects (c : Circ) (location : List Nat) (m : MModel) (fully : Bool) : Prop :=
  (∀ o ∈ c.ops, 2 ≤ o.loc.length → o.gid ∈ m.gates) ∧
  (fully = true → ∀ o ∈ c.ops, o.loc.length = 1 → o.gid ∈ m.gates) ∧
  (∀ e ∈ c.coupling, Graph.norm (location.getD e.1 0, location.getD e.2 0) ∈ m.edges)

theorem filterFn_eval_iff (f : FilterFn) (new org : Circ) : f.eval new org = true ↔ Fewer f new org := by
  cases f <;> simp [FilterFn.eval, Fewer, lexLt]

theorem isRespecting_iff (c : Circ) (location : List Nat) (m : MModel) (fully : Bool) :
    isRespecting c location m fully = true ↔ Respects c location m fully := by
  simp only [isRespecting, Respects, gidsOfArity, Bool.and_eq_true, List.all_eq_true, List.mem_map,
    List.mem_filter, decide_eq_true_eq, Bool.or_eq_true, Bool.not_eq_true', MModel.coupled,
    List.contains_eq_mem, forall_exists_index, and_imp]
  constructor
  · rintro ⟨⟨h1, h2⟩, h3⟩
    refine ⟨fun o ho h => h1 _ o ho h rfl, fun hf o ho h => ?_, fun e he => h3 e he⟩
    rcases h2 with h2 | h2
    · rw [hf] at h2; cases h2
    · exact h2 _ o ho (by simpa using h) rfl
  · rintro ⟨h1, h2, h3⟩
    refine ⟨⟨fun g o ho h hg => hg ▸ h1 o ho h, ?_⟩, fun e he => h3 e he⟩
    cases fully with
    | false => exact Or.inl rfl
    | true => exact Or.inr (fun g o ho h hg => hg ▸ h2 rfl o ho (by simpa using h))

/-- **Each named filter = its documented predicate.**  `always` always replaces; an old operation that
is not a circuit gate is always replaced; `less-than*` replace iff the new circuit has fewer gates in
the respective sense; the `respecting` variants replace iff the old body does not respect the model
(gate set of multi-qudit gates — of all gates for `fully` — and coupling at the block's location), or
the new one respects it and has fewer gates. -/
theorem C11_replace_filters (k : FilterKind) (m : MModel) (new : Circ) (old : Op) (org : Option Circ) :
    k.eval m new old org = true ↔
      match k, org with
      | .always, _ => True
      | _, none => True
      | .plain f, some org => Fewer f new org
      | .respecting f, some org =>
        ¬ Respects org old.loc m false ∨ (Respects new old.loc m false ∧ Fewer f new org)
      | .respectingFully f, some org =>
        ¬ Respects org old.loc m true ∨ (Respects new old.loc m true ∧ Fewer f new org) := by
  cases k with
  | always => simp [FilterKind.eval]
  | plain f => cases org <;> simp [FilterKind.eval, filterFn_eval_iff]
  | respecting f =>
    cases org with
    | none => simp [FilterKind.eval]
    | some org =>
      simp only [FilterKind.eval]
      by_cases h1 : isRespecting org old.loc m false = true
      · by_cases h2 : isRespecting new old.loc m false = true
        · simp [h1, h2, ← isRespecting_iff, filterFn_eval_iff]
        · simp [h1, h2, ← isRespecting_iff]
      · simp [h1, ← isRespecting_iff]
  | respectingFully f =>
    cases org with
    | none => simp [FilterKind.eval]
    | some org =>
      simp only [FilterKind.eval]
      by_cases h1 : isRespecting org old.loc m true = true
      · by_cases h2 : isRespecting new old.loc m true = true
        · simp [h1, h2, ← isRespecting_iff, filterFn_eval_iff]
        · simp [h1, h2, ← isRespecting_iff]
      · simp [h1, ← isRespecting_iff]

/-! ## non-vacuity: the hypotheses of the theorems above are satisfiable -/
section NonVacuity

/-- a small environment: leaf 0 appends an X gate on qudit 0, leaf 1 changes the final mapping, every
other leaf raises; callable 0 always says no, callable 1 prefers fewer operations -/
def exEnv : Env where
  leaf := fun i s =>
    if i == 0 then ({ s with circ := (s.circ.appendCore ⟨1, [], [0], [2]⟩).1 }, none)
    else if i == 1 then ({ s with data := { s.data with finalMapping := [1, 0] } }, none)
    else (s, some .runtime)
  cond := fun i a b => if i == 0 then false else decide (a.numOps < b.numOps)
  collect := fun _ _ _ => true
  rfilt := fun _ _ _ _ => true
  filters := [("always", .always)]
  copyFields := genCopy
  becomeFields := genBecome

def exCirc : Circ := ⟨[2, 2], [[⟨6, [], [0, 1], [2, 2]⟩], [⟨1, [], [0], [2]⟩, ⟨2, [], [1], [2]⟩]]⟩
def exSt : St := ⟨exCirc, PData.init exCirc⟩
def exW : World := ⟨[true, true, false], [], [], [], []⟩

-- fuel / while / do-while: a loop that runs twice
example : ∃ r, exec exEnv 5 (.while .script (.leaf 0)) exW exSt = some r ∧ r.trace.length = 2 :=
  ⟨_, rfl, rfl⟩
example : ∃ r, Runs exEnv (.doWhile .script (.leaf 0)) exW exSt r ∧ r.trace.length = 3 :=
  ⟨_, ⟨6, rfl⟩, rfl⟩

-- a leaf that never raises (hypothesis `hok` of the count theorems), with the literal script shape
example : ∀ s, (({ exEnv with leaf := fun _ s => (s, none) } : Env).leaf 0 s).2 = none := fun _ => rfl

-- a rejected DoThenDecide whose body changed the final mapping and the circuit
example : ∃ rb w', Runs exEnv (.seq [.leaf 0, .leaf 1]) exW exSt rb ∧ rb.out = .ok ∧
    rb.st.data.finalMapping ≠ exSt.data.finalMapping ∧
    evalCond exEnv (.fn 0) rb.w exSt.circ rb.st.circ = .ok (false, w') ∧
    exEnv.copyFields = genCopy ∧ exEnv.becomeFields = genBecome :=
  ⟨_, _, ⟨4, rfl⟩, rfl, by decide, rfl, rfl, rfl⟩

-- ParallelDo: two awaited results, none raised
example : ∃ (r0 r1 : Res), firstRaised [r0, r1] = none ∧
    [0, 1].filterMap (fun i => (([(Tree.leaf 0, 0), (Tree.leaf 1, 1)].zip [r0, r1]).find?
      (fun jr => jr.1.2 == i)).map (·.2)) = r0 :: [r1] :=
  ⟨Res.skip exW exSt, Res.skip exW exSt, rfl, rfl⟩

-- a same-location batch with one target (the CNOT of cycle 0 replaced by a CZ on (1, 0))
example : SameLocBatch exCirc [(0, ⟨6, [], [0, 1], [2, 2]⟩, ⟨7, [], [1, 0], [2, 2]⟩)] where
  disj := by decide
  wf := by decide
  mem := by decide
  same := by unfold AllSame; decide
  nodup := by decide

-- a general batch: X on qudit 0 (cycle 1, not alone) replaced by a CNOT on (0, 1), which does not fit
example : ∃ T : List GT, T ≠ [] ∧ (∀ cy ∈ exCirc.cycles, DisjCy cy) ∧
    (∀ t ∈ T, ∃ cy, exCirc.cycles[t.k]? = some cy ∧ t.o ∈ cy) ∧ (T.map GT.key).Nodup ∧
    (∀ t ∈ T, t.q ∈ t.o.loc ∧ t.q < exCirc.numQudits ∧ exCirc.checkValid t.n = .ok () ∧
      disjointL t.o.loc t.n.loc = false) ∧
    (exCirc.batchReplace (T.map GT.item)).1.numCycles = 3 :=
  ⟨[⟨1, 0, ⟨1, [], [0], [2]⟩, ⟨6, [], [0, 1], [2, 2]⟩⟩], by simp, by decide, by decide, by decide,
    by decide, by decide⟩

-- ForEach on a circuit satisfying Inv terminates without raising (collect everything, always replace)
example : ∃ r, Runs exEnv (.forEach ⟨false, .fn 0, .named "always"⟩ (.leaf 0)) exW exSt r ∧
    r.out = .ok ∧ r.trace.length = 3 := ⟨_, ⟨3, rfl⟩, rfl, rfl⟩

-- a block whose operation carries 777 while the body in the table holds the placeholder 0 (the value
-- frozen in the gate is irrelevant): the body is handed RZ(777), the identity leaf 2 writes back a
-- block that still means RZ(777) on qudit 1
def exBl : Blocks := [(1000, ⟨[2], [[⟨4, [0], [0], [2]⟩]]⟩)]
def exBlockOp : Op := ⟨1000, [777], [1], [2]⟩
def exCircB : Circ := ⟨[2, 2], [[⟨1, [], [0], [2]⟩, exBlockOp]]⟩
def exEnvId : Env := { exEnv with leaf := fun _ s => (s, none) }
def exWB : World := ⟨[], [], [], exBl, []⟩

example : (subCircuit exBl exBlockOp).iter = [⟨4, [777], [0], [2]⟩] ∧
    expand1 exBl exBlockOp = [⟨4, [777], [1], [2]⟩] := by decide

example : ∃ jobs, feJobs exBl ⟨false, .default, .named "always"⟩ ⟨exCircB, PData.init exCircB⟩
    [(0, exBlockOp)] = .ok jobs ∧ jobs.length = 1 := ⟨_, rfl, rfl⟩

example : exBl.KeysNodup := by unfold Blocks.KeysNodup; decide

example : ∃ r, Runs exEnvId (.forEach ⟨false, .default, .named "always"⟩ (.leaf 2)) exWB
      ⟨exCircB, PData.init exCircB⟩ r ∧ r.out = .ok ∧ r.trace.length = 1 ∧
    (∀ s', exEnvId.leaf 2 s' = (s', none)) ∧ exCircB.Inv ∧ exWB.blocks.KeysNodup ∧
    (∀ x ∈ exCircB.ops, exWB.blocks.body? x.gid = none → x.gid < 1000) ∧
    r.st.circ.iter.flatMap (expand1 r.w.blocks) = [⟨1, [], [0], [2]⟩, ⟨4, [777], [1], [2]⟩] :=
  ⟨_, ⟨3, rfl⟩, rfl, rfl, fun _ => rfl, (invB_iff _).1 (by decide),
    by unfold Blocks.KeysNodup; decide, by decide, by decide⟩

-- results equal to the sub-circuits handed out (hypothesis `hid` of `C11_foreach_identity_results`)
example : ∃ (jobs : List BlockJob) (rs : List Res), jobs.length = 1 ∧ rs.length = jobs.length ∧
    firstRaised rs = none ∧ (∀ jr ∈ jobs.zip rs, jr.2.st.circ = subCircuit exBl jr.1.op) ∧
    exCircB.Inv ∧ (jobs.map (fun j => (j.cycle, j.op))).Sublist exCircB.iterCyc ∧
    exWB.blocks.KeysNodup ∧ exWB.blocks.Extends exBl ∧ NewAbove exWB.blocks exBl ∧
    (∀ x ∈ exCircB.ops, exBl.body? x.gid = none → x.gid < 1000) :=
  ⟨[⟨0, 0, exBlockOp, subCircuit exBl exBlockOp, PData.init exCircB⟩],
   [⟨[], ⟨subCircuit exBl exBlockOp, PData.init exCircB⟩, exWB, .ok⟩], rfl, rfl, rfl, by simp,
   (invB_iff _).1 (by decide), by decide, by unfold Blocks.KeysNodup; decide,
   Blocks.Extends.refl _, NewAbove.refl _, by decide⟩

-- the error bound: E = 1/10, S = 1/5, truth = 1/4
example : ∃ (d : PData) (S truth : ℚ), truth ≤ d.error + S ∧ 0 < d.error * S :=
  ⟨{ PData.init exCirc with error := 1 / 10 }, 1 / 5, 1 / 4, by norm_num, by norm_num⟩

-- a non-trivial bi-invariant pseudo-metric on a group (the discrete metric on ℤ written multiplicatively)
example : ∃ (d : Multiplicative ℤ → Multiplicative ℤ → ℕ),
    (∀ g a b, d (g * a) (g * b) = d a b) ∧ (∀ g a b, d (a * g) (b * g) = d a b) ∧
    (∀ a b c, d a c ≤ d a b + d b c) ∧ (∀ a, d a a = 0) ∧ ∃ a b, d a b ≠ 0 := by
  refine ⟨fun a b => if a = b then 0 else 1, ?_, ?_, ?_, ?_, ?_⟩
  · intro g a b; simp
  · intro g a b; simp
  · intro a b c
    by_cases h1 : a = b <;> by_cases h2 : b = c <;> by_cases h3 : a = c <;> simp_all
  · intro a; simp
  · exact ⟨Multiplicative.ofAdd 0, Multiplicative.ofAdd 1, by decide⟩

end NonVacuity

end BqVerif.C11
