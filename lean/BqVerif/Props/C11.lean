import BqVerif.Model.Control
/-! placeholder (theorems follow) -/
namespace BqVerif.C11
end BqVerif.C11
