import BqVerif.Model.Mailbox
/-!
# Scheduler bookkeeping of `ServerBase` (bqskit/runtime/base.py)

`RuntimeEmployee` counters and `submit_cache`, `get_num_of_tasks_sent_since`,
`assign_tasks` (functional transcription with the random choices as *inputs*:
the shuffled idle list and the tie-break values), `schedule_tasks`,
`handle_waiting`, and the id-range routing arithmetic `is_my_worker` /
`get_employee_responsible_for`.
-/
namespace BqVerif.Runtime

/-- boss's view of an employee (`RuntimeEmployee`) -/
structure Emp where
  id : Int
  total : Int                      -- total_workers
  numTasks : Int := 0              -- num_tasks
  idle : Int                       -- num_idle_workers
  cache : List (Addr × Nat) := []  -- submit_cache
  isMgr : Bool := false
deriving DecidableEq, Repr, Inhabited

/-- `get_num_of_tasks_sent_since`; `none` = RuntimeError('Read receipt not found ...') -/
def sentSince (cache : List (Addr × Nat)) : Option Addr → Option (List (Addr × Nat) × Nat)
  | none => some (cache, (cache.map (·.2)).sum)
  | some a =>
    match cache with
    | [] => none
    | (x, n) :: t =>
      if x = a then some ((x, n) :: t, (t.map (·.2)).sum)
      else sentSince t (some a)

-- ------------------------------------------------------------ assign_tasks
/-- `assignments[i].append(x)` -/
def appendAt {α} : List (List α) → Nat → α → List (List α)
  | [], _, _ => []
  | l :: ls, 0, x => (l ++ [x]) :: ls
  | l :: ls, i + 1, x => l :: appendAt ls i x

/-- `for idle_employee_id, task in zip(idle_id_repeated_list, tasks)` -/
def zipAssign {α} : List (List α) → List Nat → List α → List (List α)
  | asg, i :: is, t :: ts => zipAssign (appendAt asg i t) is ts
  | asg, _, _ => asg

/-- key of the least-loaded ordering: `(num_tasks + len(assignments[i]), random(), i)` -/
abbrev LoadKey := Int × Nat × Nat

def keyLt (a b : LoadKey) : Bool :=
  a.1 < b.1 || (a.1 == b.1 && (a.2.1 < b.2.1 || (a.2.1 == b.2.1 && a.2.2 < b.2.2)))

/-- the swap loop `while idx + 1 < len(ntasks) and ntasks[idx] > ntasks[idx + 1]` -/
def bubble : List LoadKey → List LoadKey
  | a :: b :: t => if keyLt b a then b :: bubble (a :: t) else a :: b :: t
  | l => l

def insertKey (k : LoadKey) : List LoadKey → List LoadKey
  | [] => [k]
  | b :: t => if keyLt b k then b :: insertKey k t else k :: b :: t

/-- `sorted([...])` -/
def sortKeys (l : List LoadKey) : List LoadKey := l.foldr insertKey []

/-- `while len(remaining_tasks) > 0:` with `remaining_tasks.pop()` = the reversed list -/
def leastLoop {α} : List (List α) → List LoadKey → List α → List (List α)
  | asg, _, [] => asg
  | asg, [], _ :: _ => asg                                  -- ntasks[0] IndexError (no employees)
  | asg, (n, r, e) :: ks, t :: ts => leastLoop (appendAt asg e t) (bubble ((n + 1, r, e) :: ks)) ts

def enumFromN {α} : Nat → List α → List (Nat × α)
  | _, [] => []
  | i, x :: xs => (i, x) :: enumFromN (i + 1) xs

/-- `[i] * e.num_idle_workers for i, e in enumerate(self.employees)` (before the shuffle) -/
def idleList (emps : List Emp) : List Nat :=
  ((enumFromN 0 emps).map (fun ie => List.replicate ie.2.idle.toNat ie.1)).flatten

/-- `[(e.num_tasks + len(assignments[i]), random.random(), i) for i, e in enumerate(...)]` -/
def loadKeys {α} (emps : List Emp) (asg : List (List α)) (rs : List Nat) : List LoadKey :=
  (enumFromN 0 emps).map (fun ie =>
    ((ie.2.numTasks + ((asg.getD ie.1 []).length : Int)), rs.getD ie.1 0, ie.1))

/-- `ServerBase.assign_tasks`; `shuf` = the shuffled `idle_id_repeated_list`,
    `rs` = the `random.random()` tie-break values (one per employee). -/
def assignTasks {α} (emps : List Emp) (tasks : List α) (shuf : List Nat) (rs : List Nat) :
    List (List α) :=
  let asg0 : List (List α) := emps.map (fun _ => [])
  let asg1 := zipAssign asg0 shuf tasks
  if tasks.length ≤ shuf.length then asg1
  else
    let remaining := tasks.drop shuf.length
    leastLoop asg1 (sortKeys (loadKeys emps asg1 rs)) remaining.reverse

-- -------------------------------------------- relational spec for observed runs
/-- number of tasks among `asg` given to employee `e` -/
def countFor (asg : List Nat) (e : Nat) : Nat := asg.count e

/-- is `e` a least-loaded employee for loads `ld`? -/
def isArgMin (ld : List Int) (e : Nat) : Bool :=
  match ld[e]? with
  | none => false
  | some x => ld.all (fun y => decide (x ≤ y))

def bump (ld : List Int) (e : Nat) : List Int :=
  (enumFromN 0 ld).map (fun ix => if ix.1 = e then ix.2 + 1 else ix.2)

/-- the least-loaded phase, in the order the code assigns (last task first) -/
def leastOK : List Int → List Nat → Bool
  | _, [] => true
  | ld, e :: es => isArgMin ld e && leastOK (bump ld e) es

/-- `validAssignment`: the observed map task ↦ employee (`asg`, in task order) is a legal
    outcome of `assign_tasks` for *some* shuffle and tie-break:
    the first `min K n` tasks go to idle workers (never more than an employee has idle),
    the others, taken from the end, each to a currently least-loaded employee. -/
def validAssignment (emps : List Emp) (asg : List Nat) : Bool :=
  let K := (idleList emps).length
  let first := asg.take K
  let rest := asg.drop K
  asg.all (fun e => decide (e < emps.length))
  && (List.range emps.length).all (fun e =>
        decide (((countFor first e : Nat) : Int) ≤ max ((emps.getD e default).idle) 0))
  && leastOK ((enumFromN 0 emps).map (fun ie => ie.2.numTasks + (countFor first ie.1 : Int)))
             rest.reverse

/-- the batch employee `e` receives: its idle-phase tasks in order, then its
    least-loaded-phase tasks in the order they were popped (from the end) -/
def batchOf {α} (tasks : List α) (asg : List Nat) (K : Nat) (e : Nat) : List α :=
  let pairs := tasks.zip asg
  ((pairs.take K).filter (fun p => p.2 == e)).map (·.1)
  ++ (((pairs.drop K).reverse).filter (fun p => p.2 == e)).map (·.1)

-- ------------------------------------------------------------ schedule_tasks
structure Boss where
  lb : Int                         -- lower_id_bound
  step : Int                       -- step_size
  emps : List Emp
  numIdle : Int                    -- num_idle_workers
  total : Int                      -- total_workers
deriving Repr, Inhabited

def sumIdle (emps : List Emp) : Int := (emps.map (·.idle)).sum

/-- bookkeeping of one employee in `schedule_tasks` for a batch of `n > 0` tasks whose first
    task has address `a` -/
def Emp.charge (e : Emp) (a : Addr) (n : Nat) : Emp :=
  { e with numTasks := e.numTasks + n,
           idle := e.idle - min (n : Int) e.idle,
           cache := e.cache ++ [(a, n)] }

def chargeAll (addrOf : α → Addr) : Nat → List Emp → (Nat → List α) → List Emp
  | _, [], _ => []
  | i, e :: es, batch =>
    (match batch i with
     | [] => e
     | t :: ts => e.charge (addrOf t) (ts.length + 1)) :: chargeAll addrOf (i + 1) es batch

/-- stable insertion for `sorted(..., key=num_idle_workers, reverse=True)` -/
def insDesc (x : Nat × Int) : List (Nat × Int) → List (Nat × Int)
  | [] => [x]
  | y :: ys => if y.2 > x.2 then y :: insDesc x ys else x :: y :: ys

/-- `schedule_tasks` given the observed assignment. Returns the new state and the
    SUBMIT_BATCH payloads `(employee index, tasks)` in emission order
    (employees with most idle workers first, stable). -/
def Boss.schedule (b : Boss) (tasks : List Task) (asg : List Nat) : Boss × List (Nat × List Task) :=
  if tasks.isEmpty then (b, [])
  else
    let K := (idleList b.emps).length
    let batch := fun e => batchOf tasks asg K e
    let emps' := chargeAll (fun (t : Task) => t.addr) 0 b.emps batch
    let order := ((enumFromN 0 b.emps).map (fun ie => (ie.1, ie.2.idle)))
    -- stable sort by idle descending
    let sorted := order.foldr insDesc []
    let msgs := (sorted.map (fun p => (p.1, batch p.1))).filter (fun p => !p.2.isEmpty)
    ({ b with emps := emps', numIdle := sumIdle emps' }, msgs)

def setAt {α} : List α → Nat → α → List α
  | [], _, _ => []
  | _ :: xs, 0, y => y :: xs
  | x :: xs, i + 1, y => x :: setAt xs i y

inductive WaitErr where
  | receiptMissing          -- RuntimeError in get_num_of_tasks_sent_since
  | assertion               -- assert 0 <= self.num_idle_workers <= self.total_workers
  | noEmployee
deriving DecidableEq, Repr

/-- `handle_waiting(conn, new_idle_count, read_receipt)` for employee index `ei` -/
def Boss.waiting (b : Boss) (ei : Nat) (newIdle : Int) (r : Option Addr) : Except WaitErr Boss :=
  match b.emps[ei]? with
  | none => .error .noEmployee
  | some e =>
    match sentSince e.cache r with
    | none => .error .receiptMissing
    | some (cache', unacc) =>
      let adjusted := max (newIdle - (unacc : Int)) 0
      let e' := { e with cache := cache', idle := adjusted }
      let numIdle' := b.numIdle + (adjusted - e.idle)
      let b' := { b with emps := setAt b.emps ei e', numIdle := numIdle' }
      if 0 ≤ numIdle' ∧ numIdle' ≤ b.total then .ok b' else .error .assertion

/-- `RuntimeMessage.UPDATE`: `conn_to_employee_dict[conn].num_tasks += task_diff` -/
def Boss.update (b : Boss) (ei : Nat) (d : Int) : Boss :=
  match b.emps[ei]? with
  | none => b
  | some e => { b with emps := setAt b.emps ei { e with numTasks := e.numTasks + d } }

-- ------------------------------------------------------------------ routing
/-- `(worker_id - self.lower_id_bound) // self.step_size` (Python floor division) -/
def empIndex (lb step wid : Int) : Int := Int.fdiv (wid - lb) step

/-- `is_my_worker` -/
def isMyWorker (lb step : Int) (n : Nat) (wid : Int) : Bool :=
  decide (0 ≤ empIndex lb step wid) && decide (empIndex lb step wid < n)

/-- `get_employee_responsible_for`: Python list indexing (negative indices wrap, out of
    range raises IndexError = `none`) -/
def employeeFor (lb step : Int) (n : Nat) (wid : Int) : Option Nat :=
  let i := empIndex lb step wid
  if 0 ≤ i ∧ i < n then some i.toNat
  else if -(n : Int) ≤ i ∧ i < 0 then some (i + n).toNat
  else none

/-- `handle_result` / `handle_result_from_below`: one task completed by worker `by_` -/
def Boss.completed (b : Boss) (by_ : Int) : Option Boss :=
  match employeeFor b.lb b.step b.emps.length by_ with
  | none => none
  | some ei =>
    match b.emps[ei]? with
    | none => none
    | some e => some { b with emps := setAt b.emps ei { e with numTasks := e.numTasks - 1 } }

end BqVerif.Runtime
