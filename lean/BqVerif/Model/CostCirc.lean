import BqVerif.Model.Cost
import BqVerif.Model.Tensor
/-
C19 — exact circuit unitaries for the cost model.

The circuit matrix the cost formulas are evaluated on is computed HERE, by the definition C06 ties
`Circuit.get_unitary` to (`Tensor.embedMat` / `Tensor.matmul`: the ordered product of the embedded
operation matrices, theorem `C06_unitary_is_product`), over C19's Gaussian rationals.  The harness
only supplies the per-operation gate matrices (and gate derivatives) as exact rationals.  Exactly
phase-equal and exactly perturbed targets are derived from that exact unitary in the model as well.

No imports beyond Model files: the compiled driver links this file.
-/
namespace BqVerif.CostCirc
open BqVerif.NumC19 BqVerif.Cost BqVerif.Tensor

/-- one operation: location, exact gate matrix, exact derivatives (one per gate parameter) -/
structure XOp where
  loc : List Nat
  mat : T GQ
  grads : List (T GQ)

/-- `U = E_n ⋯ E_1`, `E_k = embed(G_k, loc_k)`; with `sub = some (a, i)` operation `a` contributes
its `i`-th derivative instead of its matrix (product rule: `∂U/∂x` for that parameter). -/
def product (radixes : List Nat) (sub : Option (Nat × Nat)) :
    List XOp → Nat → T GQ → Except Err (T GQ)
  | [], _, acc => .ok acc
  | op :: rest, k, acc => do
    let m := match sub with
      | some (a, i) => if a == k then op.grads.getD i op.mat else op.mat
      | none => op.mat
    let acc' ← matmul (embedMat radixes m op.loc) acc
    product radixes sub rest (k + 1) acc'

def unitary (radixes : List Nat) (ops : List XOp) : Except Err (T GQ) :=
  product radixes none ops 0 (identity (prod radixes))

/-- (operation index, derivative index) of every circuit parameter, in parameter order -/
def paramSlots (ops : List XOp) : List (Nat × Nat) :=
  (ops.zipIdx).flatMap (fun (op, a) => (List.range op.grads.length).map (fun i => (a, i)))

/-- the first `nd` partial derivatives of the circuit unitary -/
def grads (radixes : List Nat) (ops : List XOp) (nd : Nat) : Except Err (List (T GQ)) :=
  ((paramSlots ops).take nd).mapM (fun s =>
    product radixes (some s) ops 0 (identity (prod radixes)))

def toDense (n : Nat) (t : T GQ) : Dense n n := ⟨t.data⟩

/-- `λ·U`, optionally followed by an exact Givens rotation `(a, b)`, `a² + b² = 1`, of columns
`ca`, `cb`:  `W[:,ca] ← a·W[:,ca] + b·W[:,cb]`,  `W[:,cb] ← a·W[:,cb] − b·W[:,ca]`. -/
def targetOf {n : Nat} (lam : GQ) (U : Mat n n) (pert : Option (Rat × Rat × Nat × Nat)) : Mat n n :=
  let W : Mat n n := fun i j => lam * U i j
  match pert with
  | none => W
  | some (a, b, ca, cb) =>
    if h : ca < n ∧ cb < n then
      let fa : Fin n := ⟨ca, h.1⟩
      let fb : Fin n := ⟨cb, h.2⟩
      fun i j =>
        if j = fa then GQ.ofRat a * W i fa + GQ.ofRat b * W i fb
        else if j = fb then GQ.ofRat a * W i fb - GQ.ofRat b * W i fa
        else W i j
    else W

/-- keep the listed columns (state system `e_j ↦ W e_j`, `j ∈ cols`: `Tm = Σ_j |W e_j⟩⟨e_j|`) -/
def keepCols {n : Nat} (W : Mat n n) (cols : List Nat) : Mat n n :=
  fun i j => if cols.contains j.val then W i j else 0

def col0 {n : Nat} (W : Mat n n) : Mat n 1 :=
  fun i _ => if h : 0 < n then W i ⟨0, h⟩ else 0

end BqVerif.CostCirc
