import BqVerif.Model.Graph
/-
Model of the gate library `bqskit/ir/gates/**` (C18).

Every matrix is a function `Nat → Nat → α` (row, column; flat `np` index
convention) over an arbitrary carrier `α` that only has ring *operations*
(`+ * - 0 1`, no laws).  The same definitions are
  * RUN by the driver at `α = Num.Q8` (exact `ℚ(i)[√2]`), and
  * PROVED about in `Props/C18.lean` at an arbitrary commutative *-ring.
An angle never occurs as a number: a parameter is a point `(c, s)` of the unit
circle (`Ang`), `e^{iφ} = c + i·s`.  Which angle the point stands for (θ/2 for
the rotation gates, θ for phases, π·x / π·x/2 for PhasedXZ) is the `Rate` of
the parameter; the gradient with respect to the parameter is `rate · ∂/∂φ`.

Sources transcribed: the documented matrices / QGL expression strings of
`constant/*.py`, `parameterized/*.py` (hand-written `get_unitary`/`get_grad`
overrides where present, e.g. `u3.py`, `u2.py`), and the composition code of
`composed/{controlled,daggergate,powergate,frozenparam,embedded,tagged}.py`.
Gates defined through matrix exponentials or SVD (`PauliGate`, `PauliZGate`,
`VariableUnitaryGate`, `VariableLocationGate`) are NOT modelled.
-/
namespace BqVerif.Gates

/-- a point of the unit circle: `c = cos φ`, `s = sin φ` -/
structure Ang (α : Type) where
  c : α
  s : α

/-- the constants a carrier must provide: `i`, `1/2`, `1/√2` and `π`
(`pi` only ever occurs as a gradient *rate*; it is an uninterpreted element) -/
structure Consts (α : Type) where
  i : α
  h : α
  r : α
  pi : α

/-- complex conjugation on the carrier -/
class Conj (α : Type) where
  conj : α → α

abbrev M (α : Type) := Nat → Nat → α

/-! Tables: the driver stores every intermediate matrix of a composed gate as an array
(`tab`), and hands it to the functional definitions below through `look`.  This is an
evaluation strategy only: `look (tab d f)` agrees with `f` on `[0,d)²` (`look_tab`). -/
abbrev Tbl (α : Type) := Array (Array α)

def tab {α : Type} (d : Nat) (f : M α) : Tbl α :=
  Array.ofFn (n := d) fun i => Array.ofFn (n := d) fun j => f i.val j.val

def look {α : Type} [OfNat α 0] (t : Tbl α) : M α := fun i j => (t.getD i #[]).getD j 0

theorem look_tab {α : Type} [OfNat α 0] (d : Nat) (f : M α) (i j : Nat) (hi : i < d) (hj : j < d) :
    look (tab d f) i j = f i j := by
  simp [look, tab, Array.getD, hi, hj]

section defs
variable {α : Type} [Add α] [Mul α] [Neg α] [Sub α] [OfNat α 0] [OfNat α 1]

namespace Ang
/-- angle 0 -/
def zero : Ang α := ⟨1, 0⟩
/-- `-φ` -/
def neg (a : Ang α) : Ang α := ⟨a.c, -a.s⟩
/-- `φ + ψ` (addition formulas) -/
def add (a b : Ang α) : Ang α := ⟨a.c * b.c - a.s * b.s, a.s * b.c + a.c * b.s⟩
/-- `e^{iφ}` -/
def e (K : Consts α) (a : Ang α) : α := a.c + K.i * a.s
/-- `e^{-iφ}` -/
def en (K : Consts α) (a : Ang α) : α := a.c - K.i * a.s
/-- `d/dφ e^{iφ} = -sin φ + i cos φ` -/
def de (K : Consts α) (a : Ang α) : α := -a.s + K.i * a.c
/-- `d/dφ e^{-iφ}` -/
def den (K : Consts α) (a : Ang α) : α := -a.s - K.i * a.c
/-- first-order displacement `φ ↦ φ + k·ε` (`ε² = 0`):
`(cos φ - k ε sin φ, sin φ + k ε cos φ)` -/
def shift (a : Ang α) (k ε : α) : Ang α := ⟨a.c - k * ε * a.s, a.s + k * ε * a.c⟩
end Ang

def eye : M α := fun i j => if i = j then 1 else 0
def zeroM : M α := fun _ _ => 0
def addM (A B : M α) : M α := fun i j => A i j + B i j
def subM (A B : M α) : M α := fun i j => A i j - B i j
def smulM (s : α) (A : M α) : M α := fun i j => s * A i j

def sumTo (n : Nat) (f : Nat → α) : α := (List.range n).foldl (fun s k => s + f k) 0

/-- product of `n×n` matrices -/
def mulM (n : Nat) (A B : M α) : M α := fun i j => sumTo n fun k => A i k * B k j
/-- `np.kron(A, B)` where `B` is `db × db` -/
def kron (db : Nat) (A B : M α) : M α := fun I J => A (I / db) (J / db) * B (I % db) (J % db)
/-- conjugate transpose -/
def dagger [Conj α] (A : M α) : M α := fun i j => Conj.conj (A j i)

/-- monomial matrix: row `i` has its only entry `ph i` in column `col i` -/
def mono (col : Nat → Nat) (ph : Nat → α) : M α := fun i j => if col i = j then ph i else 0
/-- diagonal matrix -/
def diag (ph : Nat → α) : M α := fun i j => if i = j then ph i else 0

/-! ## Parameterised qubit gates -/

/-- `U3Gate.get_unitary` (u3.py) — params: θ (rate 1/2), φ, λ -/
def u3 (K : Consts α) (t p l : Ang α) : M α
  | 0, 0 => t.c
  | 0, 1 => -(l.e K * t.s)
  | 1, 0 => p.e K * t.s
  | 1, 1 => p.e K * l.e K * t.c
  | _, _ => 0

/-- `U3Gate.get_grad`, entry for θ -/
def u3_g0 (K : Consts α) (t p l : Ang α) : M α
  | 0, 0 => -(K.h * t.s)
  | 0, 1 => -(K.h * t.c * l.e K)
  | 1, 0 => K.h * t.c * p.e K
  | 1, 1 => -(K.h * t.s * l.e K * p.e K)
  | _, _ => 0
/-- entry for φ -/
def u3_g1 (K : Consts α) (t p l : Ang α) : M α
  | 1, 0 => t.s * p.de K
  | 1, 1 => t.c * l.e K * p.de K
  | _, _ => 0
/-- entry for λ -/
def u3_g2 (K : Consts α) (t p l : Ang α) : M α
  | 0, 1 => -(t.s * l.de K)
  | 1, 1 => t.c * p.e K * l.de K
  | _, _ => 0

/-- `U2Gate` — params φ, λ -/
def u2 (K : Consts α) (p l : Ang α) : M α
  | 0, 0 => K.r
  | 0, 1 => -(l.e K * K.r)
  | 1, 0 => p.e K * K.r
  | 1, 1 => p.e K * l.e K * K.r
  | _, _ => 0
def u2_g0 (K : Consts α) (p l : Ang α) : M α
  | 1, 0 => p.de K * K.r
  | 1, 1 => p.de K * l.e K * K.r
  | _, _ => 0
def u2_g1 (K : Consts α) (p l : Ang α) : M α
  | 0, 1 => -(l.de K * K.r)
  | 1, 1 => p.e K * l.de K * K.r
  | _, _ => 0

/-- `U1Gate` -/
def u1 (K : Consts α) (t : Ang α) : M α
  | 0, 0 => 1
  | 1, 1 => t.e K
  | _, _ => 0
def u1_g0 (K : Consts α) (t : Ang α) : M α
  | 1, 1 => t.de K
  | _, _ => 0

/-- `RXGate` (half angle) -/
def rx (K : Consts α) (t : Ang α) : M α
  | 0, 0 => t.c
  | 0, 1 => -(K.i * t.s)
  | 1, 0 => -(K.i * t.s)
  | 1, 1 => t.c
  | _, _ => 0
def rx_g0 (K : Consts α) (t : Ang α) : M α
  | 0, 0 => -(K.h * t.s)
  | 0, 1 => -(K.h * (K.i * t.c))
  | 1, 0 => -(K.h * (K.i * t.c))
  | 1, 1 => -(K.h * t.s)
  | _, _ => 0

/-- `RYGate` -/
def ry (t : Ang α) : M α
  | 0, 0 => t.c
  | 0, 1 => -t.s
  | 1, 0 => t.s
  | 1, 1 => t.c
  | _, _ => 0
def ry_g0 (K : Consts α) (t : Ang α) : M α
  | 0, 0 => -(K.h * t.s)
  | 0, 1 => -(K.h * t.c)
  | 1, 0 => K.h * t.c
  | 1, 1 => -(K.h * t.s)
  | _, _ => 0

/-- `RZGate` -/
def rz (K : Consts α) (t : Ang α) : M α
  | 0, 0 => t.en K
  | 1, 1 => t.e K
  | _, _ => 0
def rz_g0 (K : Consts α) (t : Ang α) : M α
  | 0, 0 => K.h * t.den K
  | 1, 1 => K.h * t.de K
  | _, _ => 0

/-- `U1qGate` — θ (half), φ -/
def u1q (K : Consts α) (t p : Ang α) : M α
  | 0, 0 => t.c
  | 0, 1 => -(K.i * p.en K * t.s)
  | 1, 0 => -(K.i * p.e K * t.s)
  | 1, 1 => t.c
  | _, _ => 0
def u1q_g0 (K : Consts α) (t p : Ang α) : M α
  | 0, 0 => -(K.h * t.s)
  | 0, 1 => -(K.h * (K.i * p.en K * t.c))
  | 1, 0 => -(K.h * (K.i * p.e K * t.c))
  | 1, 1 => -(K.h * t.s)
  | _, _ => 0
def u1q_g1 (K : Consts α) (t p : Ang α) : M α
  | 0, 1 => -(K.i * p.den K * t.s)
  | 1, 0 => -(K.i * p.de K * t.s)
  | _, _ => 0

/-- `PhasedXZGate` — `a = π·x/2`, `z = π·z`, `b = π·a` -/
def pxz (K : Consts α) (a z b : Ang α) : M α
  | 0, 0 => a.e K * a.c
  | 0, 1 => a.e K * b.en K * (-(K.i * a.s))
  | 1, 0 => a.e K * z.e K * b.e K * (-(K.i * a.s))
  | 1, 1 => a.e K * z.e K * a.c
  | _, _ => 0
/-- `∂/∂x`, rate `π/2` -/
def pxz_g0 (K : Consts α) (a z b : Ang α) : M α
  | 0, 0 => K.pi * K.h * (a.de K * a.c - a.e K * a.s)
  | 0, 1 => K.pi * K.h * (b.en K * (-(K.i * (a.de K * a.s + a.e K * a.c))))
  | 1, 0 => K.pi * K.h * (z.e K * b.e K * (-(K.i * (a.de K * a.s + a.e K * a.c))))
  | 1, 1 => K.pi * K.h * (z.e K * (a.de K * a.c - a.e K * a.s))
  | _, _ => 0
/-- `∂/∂z`, rate `π` -/
def pxz_g1 (K : Consts α) (a z b : Ang α) : M α
  | 1, 0 => K.pi * (a.e K * z.de K * b.e K * (-(K.i * a.s)))
  | 1, 1 => K.pi * (a.e K * z.de K * a.c)
  | _, _ => 0
/-- `∂/∂a`, rate `π` -/
def pxz_g2 (K : Consts α) (a z b : Ang α) : M α
  | 0, 1 => K.pi * (a.e K * b.den K * (-(K.i * a.s)))
  | 1, 0 => K.pi * (a.e K * z.e K * b.de K * (-(K.i * a.s)))
  | _, _ => 0

/-- `RXXGate` -/
def rxx (K : Consts α) (t : Ang α) : M α
  | 0, 0 => t.c | 1, 1 => t.c | 2, 2 => t.c | 3, 3 => t.c
  | 0, 3 => -(K.i * t.s) | 1, 2 => -(K.i * t.s) | 2, 1 => -(K.i * t.s) | 3, 0 => -(K.i * t.s)
  | _, _ => 0
def rxx_g0 (K : Consts α) (t : Ang α) : M α
  | 0, 0 => -(K.h * t.s) | 1, 1 => -(K.h * t.s) | 2, 2 => -(K.h * t.s) | 3, 3 => -(K.h * t.s)
  | 0, 3 => -(K.h * (K.i * t.c)) | 1, 2 => -(K.h * (K.i * t.c))
  | 2, 1 => -(K.h * (K.i * t.c)) | 3, 0 => -(K.h * (K.i * t.c))
  | _, _ => 0

/-- `RYYGate` -/
def ryy (K : Consts α) (t : Ang α) : M α
  | 0, 0 => t.c | 1, 1 => t.c | 2, 2 => t.c | 3, 3 => t.c
  | 0, 3 => K.i * t.s | 1, 2 => -(K.i * t.s) | 2, 1 => -(K.i * t.s) | 3, 0 => K.i * t.s
  | _, _ => 0
def ryy_g0 (K : Consts α) (t : Ang α) : M α
  | 0, 0 => -(K.h * t.s) | 1, 1 => -(K.h * t.s) | 2, 2 => -(K.h * t.s) | 3, 3 => -(K.h * t.s)
  | 0, 3 => K.h * (K.i * t.c) | 1, 2 => -(K.h * (K.i * t.c))
  | 2, 1 => -(K.h * (K.i * t.c)) | 3, 0 => K.h * (K.i * t.c)
  | _, _ => 0

/-- `RZZGate` -/
def rzz (K : Consts α) (t : Ang α) : M α
  | 0, 0 => t.en K | 1, 1 => t.e K | 2, 2 => t.e K | 3, 3 => t.en K
  | _, _ => 0
def rzz_g0 (K : Consts α) (t : Ang α) : M α
  | 0, 0 => K.h * t.den K | 1, 1 => K.h * t.de K | 2, 2 => K.h * t.de K | 3, 3 => K.h * t.den K
  | _, _ => 0

/-- `CPGate` -/
def cp (K : Consts α) (t : Ang α) : M α
  | 0, 0 => 1 | 1, 1 => 1 | 2, 2 => 1 | 3, 3 => t.e K
  | _, _ => 0
def cp_g0 (K : Consts α) (t : Ang α) : M α
  | 3, 3 => t.de K
  | _, _ => 0

/-- `CRXGate` -/
def crx (K : Consts α) (t : Ang α) : M α
  | 0, 0 => 1 | 1, 1 => 1
  | 2, 2 => t.c | 2, 3 => -(K.i * t.s) | 3, 2 => -(K.i * t.s) | 3, 3 => t.c
  | _, _ => 0
def crx_g0 (K : Consts α) (t : Ang α) : M α
  | 2, 2 => -(K.h * t.s) | 2, 3 => -(K.h * (K.i * t.c))
  | 3, 2 => -(K.h * (K.i * t.c)) | 3, 3 => -(K.h * t.s)
  | _, _ => 0

/-- `CRYGate` -/
def cry (t : Ang α) : M α
  | 0, 0 => 1 | 1, 1 => 1
  | 2, 2 => t.c | 2, 3 => -t.s | 3, 2 => t.s | 3, 3 => t.c
  | _, _ => 0
def cry_g0 (K : Consts α) (t : Ang α) : M α
  | 2, 2 => -(K.h * t.s) | 2, 3 => -(K.h * t.c) | 3, 2 => K.h * t.c | 3, 3 => -(K.h * t.s)
  | _, _ => 0

/-- `CRZGate` -/
def crz (K : Consts α) (t : Ang α) : M α
  | 0, 0 => 1 | 1, 1 => 1 | 2, 2 => t.en K | 3, 3 => t.e K
  | _, _ => 0
def crz_g0 (K : Consts α) (t : Ang α) : M α
  | 2, 2 => K.h * t.den K | 3, 3 => K.h * t.de K
  | _, _ => 0

/-- `CUGate` — θ (half), φ, λ, γ -/
def cu (K : Consts α) (t p l g : Ang α) : M α
  | 0, 0 => 1 | 1, 1 => 1
  | 2, 2 => g.e K * t.c
  | 2, 3 => -(g.e K * l.e K * t.s)
  | 3, 2 => g.e K * p.e K * t.s
  | 3, 3 => g.e K * p.e K * l.e K * t.c
  | _, _ => 0
def cu_g0 (K : Consts α) (t p l g : Ang α) : M α
  | 2, 2 => -(K.h * (g.e K * t.s))
  | 2, 3 => -(K.h * (g.e K * l.e K * t.c))
  | 3, 2 => K.h * (g.e K * p.e K * t.c)
  | 3, 3 => -(K.h * (g.e K * p.e K * l.e K * t.s))
  | _, _ => 0
def cu_g1 (K : Consts α) (t p l g : Ang α) : M α
  | 3, 2 => g.e K * p.de K * t.s
  | 3, 3 => g.e K * p.de K * l.e K * t.c
  | _, _ => 0
def cu_g2 (K : Consts α) (t p l g : Ang α) : M α
  | 2, 3 => -(g.e K * l.de K * t.s)
  | 3, 3 => g.e K * p.e K * l.de K * t.c
  | _, _ => 0
def cu_g3 (K : Consts α) (t p l g : Ang α) : M α
  | 2, 2 => g.de K * t.c
  | 2, 3 => -(g.de K * l.e K * t.s)
  | 3, 2 => g.de K * p.e K * t.s
  | 3, 3 => g.de K * p.e K * l.e K * t.c
  | _, _ => 0

/-- `FSIMGate` — θ, φ (both full angles) -/
def fsim (K : Consts α) (t p : Ang α) : M α
  | 0, 0 => 1
  | 1, 1 => t.c | 1, 2 => -(K.i * t.s) | 2, 1 => -(K.i * t.s) | 2, 2 => t.c
  | 3, 3 => p.en K
  | _, _ => 0
def fsim_g0 (K : Consts α) (t : Ang α) : M α
  | 1, 1 => -t.s | 1, 2 => -(K.i * t.c) | 2, 1 => -(K.i * t.c) | 2, 2 => -t.s
  | _, _ => 0
def fsim_g1 (K : Consts α) (p : Ang α) : M α
  | 3, 3 => p.den K
  | _, _ => 0

/-- `CCPGate` -/
def ccp (K : Consts α) (t : Ang α) : M α := diag fun i => if i = 7 then t.e K else 1
def ccp_g0 (K : Consts α) (t : Ang α) : M α := fun i j => if i = 7 ∧ j = 7 then t.de K else 0

/-! ## Parameterised gates with a variable number of parameters -/

/-- `DiagonalGate(n)`: `diag(1, e^{iθ₁}, …, e^{iθ_{2ⁿ-1}})` -/
def diagGate (K : Consts α) (ps : List (Ang α)) : M α :=
  diag fun i => if i = 0 then 1 else ((ps.getD (i - 1) Ang.zero).e K)
/-- gradient for parameter `k`: the single entry `(k+1, k+1)` -/
def diagGate_g (K : Consts α) (ps : List (Ang α)) (k : Nat) : M α :=
  fun i j => if i = k + 1 ∧ j = k + 1 then (ps.getD k Ang.zero).de K else 0

/-- `ArbitraryCPhaseGate(radixes)`: identity with `e^{iθ}` in the last entry (`D` = dimension) -/
def acphase (K : Consts α) (D : Nat) (t : Ang α) : M α :=
  diag fun i => if i + 1 = D then t.e K else 1
def acphase_g (K : Consts α) (D : Nat) (t : Ang α) : M α :=
  fun i j => if i + 1 = D ∧ j + 1 = D then t.de K else 0

/-- `get_indices`/multiplexed rotations: with `sh = 2^(n - target - 1)`, row `r` belongs to the
select value `sel sh r` and is the `bitOf sh r`-th row of its 2×2 block
(`x1 = left·2·sh + right`, `x2 = x1 + sh` read backwards) -/
def sel (sh r : Nat) : Nat := (r / (2 * sh)) * sh + r % sh
def bitOf (sh r : Nat) : Nat := (r / sh) % 2
def pow2 : Nat → Nat
  | 0 => 1
  | n + 1 => 2 * pow2 n

/-- `MPRYGate(n, target)`: an `RY(θ_i)` block for every value `i` of the select qubits -/
def mpry (n target : Nat) (ps : List (Ang α)) : M α := fun r c =>
  let sh := pow2 (n - target - 1)
  if sel sh r = sel sh c then ry (ps.getD (sel sh r) Ang.zero) (bitOf sh r) (bitOf sh c) else 0
def mpry_g (K : Consts α) (n target : Nat) (ps : List (Ang α)) (k : Nat) : M α := fun r c =>
  let sh := pow2 (n - target - 1)
  if sel sh r = k ∧ sel sh c = k then ry_g0 K (ps.getD k Ang.zero) (bitOf sh r) (bitOf sh c) else 0

/-- `MPRZGate(n, target)` -/
def mprz (K : Consts α) (n target : Nat) (ps : List (Ang α)) : M α := fun r c =>
  let sh := pow2 (n - target - 1)
  if sel sh r = sel sh c then rz K (ps.getD (sel sh r) Ang.zero) (bitOf sh r) (bitOf sh c) else 0
def mprz_g (K : Consts α) (n target : Nat) (ps : List (Ang α)) (k : Nat) : M α := fun r c =>
  let sh := pow2 (n - target - 1)
  if sel sh r = k ∧ sel sh c = k then rz_g0 K (ps.getD k Ang.zero) (bitOf sh r) (bitOf sh c) else 0

/-- `RSU3Gate(index)`, `index ≤ 6` (index 7 has the irrational rate `1/√3`: validated only) -/
def rsu3 (K : Consts α) (index : Nat) (t : Ang α) : M α :=
  match index with
  | 0 => fun i j => match i, j with
    | 0, 0 => t.c | 1, 1 => t.c | 0, 1 => -(K.i * t.s) | 1, 0 => -(K.i * t.s) | 2, 2 => 1 | _, _ => 0
  | 1 => fun i j => match i, j with
    | 0, 0 => t.c | 1, 1 => t.c | 0, 1 => -t.s | 1, 0 => t.s | 2, 2 => 1 | _, _ => 0
  | 2 => fun i j => match i, j with
    | 0, 0 => t.en K | 1, 1 => t.e K | 2, 2 => 1 | _, _ => 0
  | 3 => fun i j => match i, j with
    | 0, 0 => t.c | 2, 2 => t.c | 0, 2 => -(K.i * t.s) | 2, 0 => -(K.i * t.s) | 1, 1 => 1 | _, _ => 0
  | 4 => fun i j => match i, j with
    | 0, 0 => t.c | 2, 2 => t.c | 0, 2 => -t.s | 2, 0 => t.s | 1, 1 => 1 | _, _ => 0
  | 5 => fun i j => match i, j with
    | 1, 1 => t.c | 2, 2 => t.c | 1, 2 => -(K.i * t.s) | 2, 1 => -(K.i * t.s) | 0, 0 => 1 | _, _ => 0
  | 6 => fun i j => match i, j with
    | 1, 1 => t.c | 2, 2 => t.c | 1, 2 => -t.s | 2, 1 => t.s | 0, 0 => 1 | _, _ => 0
  | _ => eye
def rsu3_g (K : Consts α) (index : Nat) (t : Ang α) : M α :=
  match index with
  | 0 => fun i j => match i, j with
    | 0, 0 => -t.s | 1, 1 => -t.s | 0, 1 => -(K.i * t.c) | 1, 0 => -(K.i * t.c) | _, _ => 0
  | 1 => fun i j => match i, j with
    | 0, 0 => -t.s | 1, 1 => -t.s | 0, 1 => -t.c | 1, 0 => t.c | _, _ => 0
  | 2 => fun i j => match i, j with
    | 0, 0 => t.den K | 1, 1 => t.de K | _, _ => 0
  | 3 => fun i j => match i, j with
    | 0, 0 => -t.s | 2, 2 => -t.s | 0, 2 => -(K.i * t.c) | 2, 0 => -(K.i * t.c) | _, _ => 0
  | 4 => fun i j => match i, j with
    | 0, 0 => -t.s | 2, 2 => -t.s | 0, 2 => -t.c | 2, 0 => t.c | _, _ => 0
  | 5 => fun i j => match i, j with
    | 1, 1 => -t.s | 2, 2 => -t.s | 1, 2 => -(K.i * t.c) | 2, 1 => -(K.i * t.c) | _, _ => 0
  | 6 => fun i j => match i, j with
    | 1, 1 => -t.s | 2, 2 => -t.s | 1, 2 => -t.c | 2, 1 => t.c | _, _ => 0
  | _ => zeroM

/-! ## Constant gates — dense -/

/-- `HGate()` (qubit) -/
def hGate (K : Consts α) : M α
  | 0, 0 => K.r | 0, 1 => K.r | 1, 0 => K.r | 1, 1 => -K.r
  | _, _ => 0
/-- `HGate(4)`: `½·i^{jk}` -/
def h4Gate (K : Consts α) : M α
  | 0, 0 => K.h | 0, 1 => K.h | 0, 2 => K.h | 0, 3 => K.h
  | 1, 0 => K.h | 1, 1 => K.h * K.i | 1, 2 => -K.h | 1, 3 => -(K.h * K.i)
  | 2, 0 => K.h | 2, 1 => -K.h | 2, 2 => K.h | 2, 3 => -K.h
  | 3, 0 => K.h | 3, 1 => -(K.h * K.i) | 3, 2 => -K.h | 3, 3 => K.h * K.i
  | _, _ => 0
/-- `SXGate`: `½[[1+i, 1-i],[1-i, 1+i]]` -/
def sx (K : Consts α) : M α
  | 0, 0 => K.h + K.h * K.i | 0, 1 => K.h - K.h * K.i
  | 1, 0 => K.h - K.h * K.i | 1, 1 => K.h + K.h * K.i
  | _, _ => 0
def sxdg (K : Consts α) : M α
  | 0, 0 => K.h - K.h * K.i | 0, 1 => K.h + K.h * K.i
  | 1, 0 => K.h + K.h * K.i | 1, 1 => K.h - K.h * K.i
  | _, _ => 0
def ch (K : Consts α) : M α
  | 0, 0 => 1 | 1, 1 => 1
  | 2, 2 => K.r | 2, 3 => K.r | 3, 2 => K.r | 3, 3 => -K.r
  | _, _ => 0
def sqrtISwap (K : Consts α) : M α
  | 0, 0 => 1 | 3, 3 => 1
  | 1, 1 => K.r | 1, 2 => K.i * K.r | 2, 1 => K.i * K.r | 2, 2 => K.r
  | _, _ => 0
def sqrtCNOT (K : Consts α) : M α
  | 0, 0 => 1 | 1, 1 => 1
  | 2, 2 => K.h + K.h * K.i | 2, 3 => K.h - K.h * K.i
  | 3, 2 => K.h - K.h * K.i | 3, 3 => K.h + K.h * K.i
  | _, _ => 0
/-- `ECRGate` as in the QGL string of `ecr.py` (NOT the docstring, which shows
the qubit-reversed matrix) -/
def ecr (K : Consts α) : M α
  | 0, 2 => K.r | 0, 3 => K.r * K.i
  | 1, 2 => K.r * K.i | 1, 3 => K.r
  | 2, 0 => K.r | 2, 1 => -(K.r * K.i)
  | 3, 0 => -(K.r * K.i) | 3, 1 => K.r
  | _, _ => 0
def xxGate (K : Consts α) : M α
  | 0, 0 => K.r | 1, 1 => K.r | 2, 2 => K.r | 3, 3 => K.r
  | 0, 3 => -(K.i * K.r) | 1, 2 => -(K.i * K.r) | 2, 1 => -(K.i * K.r) | 3, 0 => -(K.i * K.r)
  | _, _ => 0
def yyGate (K : Consts α) : M α
  | 0, 0 => K.r | 1, 1 => K.r | 2, 2 => K.r | 3, 3 => K.r
  | 0, 3 => K.i * K.r | 1, 2 => -(K.i * K.r) | 2, 1 => -(K.i * K.r) | 3, 0 => K.i * K.r
  | _, _ => 0
def zzGate (K : Consts α) : M α
  | 0, 0 => K.r - K.i * K.r | 1, 1 => K.r + K.i * K.r
  | 2, 2 => K.r + K.i * K.r | 3, 3 => K.r - K.i * K.r
  | _, _ => 0
/-- `BGate`; `a` is the circle point of `π/8` (not in `ℚ(i)[√2]`: proved
for every circle point, validated numerically only) -/
def bGate (K : Consts α) (a : Ang α) : M α
  | 0, 0 => a.c | 0, 3 => K.i * a.s
  | 1, 1 => a.s | 1, 2 => K.i * a.c
  | 2, 1 => K.i * a.c | 2, 2 => a.s
  | 3, 0 => K.i * a.s | 3, 3 => a.c
  | _, _ => 0

/-! ## Constant gates — monomial (one unit entry per row) -/

def listAt (l : List Nat) (i : Nat) : Nat := l.getD i i
def listAtA (l : List α) (i : Nat) : α := l.getD i 1

def xGate : M α := mono (listAt [1, 0]) fun _ => 1
def yGate (K : Consts α) : M α := mono (listAt [1, 0]) (listAtA [-K.i, K.i])
def zGate : M α := diag (listAtA [1, -1])
def sGate (K : Consts α) : M α := diag (listAtA [1, K.i])
def sdgGate (K : Consts α) : M α := diag (listAtA [1, -K.i])
/-- `ζ₈ = (1+i)/√2` -/
def zeta8 (K : Consts α) : α := K.r + K.i * K.r
def zeta8c (K : Consts α) : α := K.r - K.i * K.r
def tGate (K : Consts α) : M α := diag (listAtA [1, zeta8 K])
def tdgGate (K : Consts α) : M α := diag (listAtA [1, zeta8c K])
/-- `SqrtTGate`; `a` = circle point of `π/8` -/
def sqrtTGate (K : Consts α) (a : Ang α) : M α := diag (listAtA [1, a.e K])
def cxGate : M α := mono (listAt [0, 1, 3, 2]) fun _ => 1
def cyGate (K : Consts α) : M α := mono (listAt [0, 1, 3, 2]) (listAtA [1, 1, -K.i, K.i])
def czGate : M α := diag (listAtA [1, 1, 1, -1])
def csGate (K : Consts α) : M α := diag (listAtA [1, 1, 1, K.i])
def ctGate (K : Consts α) : M α := diag (listAtA [1, 1, 1, zeta8 K])
def swapGate : M α := mono (listAt [0, 2, 1, 3]) fun _ => 1
def iswapGate (K : Consts α) : M α := mono (listAt [0, 2, 1, 3]) (listAtA [1, K.i, K.i, 1])
/-- `SycamoreGate`; `a` = circle point of `π/6` -/
def sycamore (K : Consts α) (a : Ang α) : M α :=
  mono (listAt [0, 2, 1, 3]) (listAtA [1, -K.i, -K.i, a.en K])
def ccxGate : M α := mono (listAt [0, 1, 2, 3, 4, 5, 7, 6]) fun _ => 1
def itoffoli (K : Consts α) : M α :=
  mono (listAt [0, 1, 2, 3, 4, 5, 7, 6]) (listAtA [1, 1, 1, 1, 1, 1, K.i, K.i])
def rccx (K : Consts α) : M α :=
  mono (listAt [0, 1, 2, 3, 4, 5, 7, 6]) (listAtA [1, 1, 1, 1, 1, -1, -K.i, K.i])
def rc3x (K : Consts α) : M α :=
  mono (listAt [0, 1, 2, 3, 4, 5, 6, 7, 8, 9, 10, 11, 12, 13, 15, 14])
    (listAtA [1, 1, 1, 1, 1, 1, 1, 1, 1, 1, 1, 1, K.i, -K.i, 1, -1])
/-- `CPIGate` (two qutrits): swaps `|10⟩ ↔ |11⟩` -/
def cpiGate : M α := mono (listAt [0, 1, 2, 4, 3, 5, 6, 7, 8]) fun _ => 1

/-! ### qudit families (any radix `d`) -/

/-- `ShiftGate(d)`: `X = Σ |a+1 mod d⟩⟨a|` — row `i` has its 1 in column `i-1 mod d` -/
def shiftGate (d : Nat) : M α := mono (fun i => (i + d - 1) % d) fun _ => 1
/-- `ClockGate(d)` with `w = e^{2πi/d}` -/
def wpow (w : α) : Nat → α
  | 0 => 1
  | n + 1 => wpow w n * w
def clockGate (w : α) : M α := diag (wpow w)
/-- `PDGate(index, d)` as coded: entry `index` is `-e^{i·4·index·π/d} = -w^{2·index}` -/
def pdGate (w : α) (index : Nat) : M α :=
  diag fun i => if i = index then -(wpow w (2 * index)) else 1
/-- `CSUMGate(d)`: `|i,j⟩ ↦ |i, i+j mod d⟩`; row `d·i + k` has its 1 in column `d·i + (k - i mod d)` -/
def csumGate (d : Nat) : M α :=
  mono (fun r => d * (r / d) + (r % d + d - r / d % d) % d) fun _ => 1
/-- `SwapGate(d)` -/
def swapD (d : Nat) : M α := mono (fun r => d * (r % d) + r / d) fun _ => 1
/-- `SubSwapGate(d, "a,b;c,e")` with `i = a·d+b`, `j = c·d+e` -/
def subSwap (i j : Nat) : M α := mono (fun r => if r = i then j else if r = j then i else r) fun _ => 1
/-- `PermutationGate(n, location)`: column `c` has its 1 in row
`permFromLocation n 2 location c` (model of `PermutationMatrix.from_qubit_location`, C20) -/
def permGate (n : Nat) (location : List Nat) : M α :=
  fun r c => if Graph.permFromLocation n 2 location c = r then 1 else 0

/-! ## Composed gates (composed/*.py) -/

/-- elementary projection of `build_control_proj`: `P[l,l] = 1` for the control levels -/
def elemProj (levels : List Nat) : M α := fun i j => if i = j ∧ levels.contains i then 1 else 0

/-- `reduce(np.kron, elementary_projection_list)`: returns (dimension, matrix) -/
def ctrlProj : List (Nat × List Nat) → Nat × M α
  | [] => (1, fun _ _ => 1)
  | (r, lv) :: rest =>
    rest.foldl (fun (acc : Nat × M α) (x : Nat × List Nat) =>
      (acc.1 * x.1, kron x.1 acc.2 (elemProj x.2))) (r, elemProj lv)

/-- `ControlledGate.get_unitary`: `kron(ctrl, U) + ihalf`,
`ihalf = kron(eye(cd) - ctrl, eye(d))` -/
def ctrlU (d : Nat) (P U : M α) : M α := addM (kron d P U) (kron d (subM eye P) eye)
/-- `ControlledGate.get_grad`: `kron(ctrl, grad)` -/
def ctrlG (d : Nat) (P G : M α) : M α := kron d P G

/-- the block form the documentation promises -/
def ctrlBlock (d : Nat) (act : Nat → Bool) (U : M α) : M α := fun I J =>
  if I / d = J / d then (if act (I / d) then U (I % d) (J % d) else if I % d = J % d then 1 else 0)
  else 0

/-- n-fold product `U^n` (`UnitaryMatrix.ipower` for `n ≥ 0`) -/
def powM (d : Nat) (U : M α) : Nat → M α
  | 0 => eye
  | n + 1 => mulM d (powM d U n) U

/-- a unitary together with its derivative in ONE parameter; `PowerGate` carries the
gradient of all parameters as an `(np, d, d)` array and every operation broadcasts over the
first axis, i.e. acts on each such pair independently -/
structure UG (α : Type) where
  u : M α
  g : M α

/-- `utry @ utrys[i]`, `grad @ utrys[i] + utry @ grads[i]` — the product rule -/
def UG.mul (d : Nat) (x y : UG α) : UG α :=
  ⟨mulM d x.u y.u, addM (mulM d x.g y.u) (mulM d x.u y.g)⟩

/-- `PowerGate.get_unitary_and_grad`, `power > 0`: square-and-multiply.  The code first
tabulates `sq[k] = x^(2^k)` (`utrys`, `grads`) up to the highest set bit of the power and then
multiplies `acc ← acc · sq[k]` over the set bits in ascending order, starting from the lowest.
This loop does the same multiplications in the same order: `cur = x^(2^k)` is squared once per
bit, `acc` is the running product (`none` before the first set bit).  Generic in the
multiplication so that the driver can run it on tabulated pairs. -/
def powLoopG {β : Type} (mul : β → β → β) : Nat → Nat → β → Option β → Option β
  | 0, _, _, acc => acc
  | fuel + 1, n, cur, acc =>
    if n = 0 then acc else
    let acc' := if n % 2 = 1 then (match acc with | none => some cur | some a => some (mul a cur))
                else acc
    powLoopG mul fuel (n / 2) (mul cur cur) acc'

def powLoop (d : Nat) : Nat → Nat → UG α → Option (UG α) → Option (UG α) := powLoopG (UG.mul d)

def powUG (d : Nat) (x : UG α) (n : Nat) : UG α := (powLoop d (n + 1) n x none).getD x

/-- the `n+1`-fold product `x·x·…·x` under the product rule -/
def linPow (d : Nat) (x : UG α) : Nat → UG α
  | 0 => x
  | n + 1 => UG.mul d (linPow d x n) x

/-- Python `list.insert(idx, v)` -/
def insertAt {β : Type} (l : List β) (idx : Nat) (v : β) : List β := l.take idx ++ v :: l.drop idx

/-- `FrozenParameterGate.get_full_params`: frozen values inserted at ascending indices -/
def fullParams {β : Type} (params : List β) (frozenSorted : List (Nat × β)) : List β :=
  frozenSorted.foldl (fun args p => insertAt args p.1 p.2) params

/-- `unfixed_param_idxs` -/
def unfixedIdxs (np : Nat) (frozen : List Nat) : List Nat :=
  (List.range np).filter fun i => !frozen.contains i

/-- mixed-radix digits of `i` (most significant first) = `np.unravel_index` -/
def unravel (radixes : List Nat) (i : Nat) : List Nat :=
  (radixes.foldr (fun r (acc : List Nat × Nat) => ((acc.2 % r) :: acc.1, acc.2 / r)) ([], i)).1
/-- `np.ravel_multi_index` -/
def ravel (radixes : List Nat) (ds : List Nat) : Nat :=
  (radixes.zip ds).foldl (fun acc p => acc * p.1 + p.2) 0

/-- target index of level `i` of the embedded gate (`_map_matrix`) -/
def embTarget (gateRadixes radixes : List Nat) (levelMaps : List (List Nat)) (i : Nat) : Nat :=
  ravel radixes ((levelMaps.zip (unravel gateRadixes i)).map fun p => p.1.getD p.2 0)

/-- `_map_matrix(small, big)`: `big[t i, t j] = small[i, j]` for `i, j < d`, other entries of
`big` (`bigInit`: identity for the unitary, zero for a gradient) untouched -/
def embed (d : Nat) (t : Nat → Nat) (bigInit small : M α) : M α := fun I J =>
  match (List.range d).find? (fun i => t i = I), (List.range d).find? (fun j => t j = J) with
  | some i, some j => small i j
  | _, _ => bigInit I J


/-! ## Gate values and the composition code of `composed/*.py` -/

/-- what the contract exposes of a gate: radixes, number of parameters, `get_unitary`,
`get_grad` (as functions of the circle points of the parameters), tabulated -/
structure GVal (α : Type) where
  radixes : List Nat
  np : Nat
  u : List (Ang α) → Tbl α
  g : List (Ang α) → List (Tbl α)

def GVal.dim (v : GVal α) : Nat := v.radixes.foldl (· * ·) 1

def angAt (ps : List (Ang α)) (k : Nat) : Ang α := ps.getD k Ang.zero

def prodL (l : List Nat) : Nat := l.foldl (· * ·) 1

/-- a family given by its matrix and gradient functions -/
def mkFam (radixes : List Nat) (np : Nat) (u : List (Ang α) → M α)
    (g : List (Ang α) → List (M α)) : GVal α :=
  ⟨radixes, np, fun ps => tab (prodL radixes) (u ps), fun ps => (g ps).map (tab (prodL radixes))⟩

/-- constant gate -/
def GVal.const (radixes : List Nat) (u : M α) : GVal α := mkFam radixes 0 (fun _ => u) (fun _ => [])

/-- `ControlledGate(gate, num_controls, control_radixes, control_levels)` -/
def GVal.controlled (controls : List (Nat × List Nat)) (v : GVal α) : GVal α :=
  let cd := (ctrlProj (α := α) controls).1
  let P := look (tab cd (ctrlProj (α := α) controls).2)
  ⟨controls.map (·.1) ++ v.radixes, v.np,
   fun ps => tab (cd * v.dim) (ctrlU v.dim P (look (v.u ps))),
   fun ps => (v.g ps).map fun g => tab (cd * v.dim) (ctrlG v.dim P (look g))⟩

/-- `DaggerGate(gate)` -/
def GVal.dagger [Conj α] (v : GVal α) : GVal α :=
  ⟨v.radixes, v.np, fun ps => tab v.dim (Gates.dagger (look (v.u ps))),
   fun ps => (v.g ps).map fun g => tab v.dim (Gates.dagger (look g))⟩

/-- tabulated (unitary, gradient) pair and the product rule on it -/
structure TUG (α : Type) where
  u : Tbl α
  g : Tbl α

def TUG.mul (d : Nat) (x y : TUG α) : TUG α :=
  let r := UG.mul d ⟨look x.u, look x.g⟩ ⟨look y.u, look y.g⟩
  ⟨tab d r.u, tab d r.g⟩

/-- `k`-fold product, re-tabulated after every factor (`UnitaryMatrix.ipower`) -/
def powT (d : Nat) (x : Tbl α) (k : Nat) : Tbl α :=
  (List.range k).foldl (fun acc _ => tab d (mulM d (look acc) (look x))) (tab d eye)

/-- `PowerGate(gate, power)` -/
def GVal.power [Conj α] (n : Int) (v : GVal α) : GVal α :=
  let base : GVal α := if n < 0 then v.dagger else v
  let k := n.natAbs
  ⟨v.radixes, v.np,
   fun ps => powT v.dim (base.u ps) k,
   fun ps =>
     if v.np = 0 then []
     else if k = 0 then (List.range v.np).map fun _ => tab v.dim zeroM
     else
       let U := base.u ps
       (base.g ps).map fun gk =>
         ((powLoopG (TUG.mul v.dim) (k + 1) k ⟨U, gk⟩ none).getD ⟨U, gk⟩).g⟩

/-- `FrozenParameterGate(gate, frozen_params)`; `frozen` sorted by index -/
def GVal.frozen (frozen : List (Nat × Ang α)) (v : GVal α) : GVal α :=
  let idxs := unfixedIdxs v.np (frozen.map (·.1))
  ⟨v.radixes, v.np - frozen.length,
   fun ps => v.u (fullParams ps frozen),
   fun ps => let gs := v.g (fullParams ps frozen); idxs.map fun i => gs.getD i (tab v.dim zeroM)⟩

/-- `EmbeddedGate(gate, radixes, level_maps)` -/
def GVal.embedded (radixes : List Nat) (levelMaps : List (List Nat)) (v : GVal α) : GVal α :=
  let t := embTarget v.radixes radixes levelMaps
  let D := prodL radixes
  ⟨radixes, v.np,
   fun ps => tab D (embed v.dim t eye (look (v.u ps))),
   fun ps => (v.g ps).map fun g => tab D (embed v.dim t zeroM (look g))⟩

/-- `TaggedGate(gate, tag)` -/
def GVal.tagged (v : GVal α) : GVal α := v

/-- root of unity `e^{2πi/d}` for the radixes whose roots lie in `ℚ(i)[√2]` -/
def rootOfUnity? (K : Consts α) : Nat → Option α
  | 1 => some 1
  | 2 => some (-1)
  | 4 => some K.i
  | 8 => some (zeta8 K)
  | _ => none

def ones (n : Nat) : List Nat := List.replicate n 2

/-- the modelled classes: name and integer constructor arguments ↦ value.
`none`: not modelled (or not representable in the carrier). -/
def family (K : Consts α) (name : String) (args : List Nat) : Option (GVal α) :=
  let p := angAt
  match name, args with
  | "U3Gate", [] => some (mkFam [2] 3 (fun ps => u3 K (p ps 0) (p ps 1) (p ps 2))
      (fun ps => [u3_g0 K (p ps 0) (p ps 1) (p ps 2), u3_g1 K (p ps 0) (p ps 1) (p ps 2),
                 u3_g2 K (p ps 0) (p ps 1) (p ps 2)]))
  | "U2Gate", [] => some (mkFam [2] 2 (fun ps => u2 K (p ps 0) (p ps 1))
      (fun ps => [u2_g0 K (p ps 0) (p ps 1), u2_g1 K (p ps 0) (p ps 1)]))
  | "U1Gate", [] => some (mkFam [2] 1 (fun ps => u1 K (p ps 0))
      (fun ps => [u1_g0 K (p ps 0)]))
  | "RXGate", [] => some (mkFam [2] 1 (fun ps => rx K (p ps 0))
      (fun ps => [rx_g0 K (p ps 0)]))
  | "RYGate", [] => some (mkFam [2] 1 (fun ps => ry (p ps 0))
      (fun ps => [ry_g0 K (p ps 0)]))
  | "RZGate", [] => some (mkFam [2] 1 (fun ps => rz K (p ps 0))
      (fun ps => [rz_g0 K (p ps 0)]))
  | "U1qGate", [] => some (mkFam [2] 2 (fun ps => u1q K (p ps 0) (p ps 1))
      (fun ps => [u1q_g0 K (p ps 0) (p ps 1), u1q_g1 K (p ps 0) (p ps 1)]))
  | "PhasedXZGate", [] => some (mkFam [2] 3 (fun ps => pxz K (p ps 0) (p ps 1) (p ps 2))
      (fun ps => [pxz_g0 K (p ps 0) (p ps 1) (p ps 2), pxz_g1 K (p ps 0) (p ps 1) (p ps 2),
                 pxz_g2 K (p ps 0) (p ps 1) (p ps 2)]))
  | "RXXGate", [] => some (mkFam [2, 2] 1 (fun ps => rxx K (p ps 0))
      (fun ps => [rxx_g0 K (p ps 0)]))
  | "RYYGate", [] => some (mkFam [2, 2] 1 (fun ps => ryy K (p ps 0))
      (fun ps => [ryy_g0 K (p ps 0)]))
  | "RZZGate", [] => some (mkFam [2, 2] 1 (fun ps => rzz K (p ps 0))
      (fun ps => [rzz_g0 K (p ps 0)]))
  | "CPGate", [] => some (mkFam [2, 2] 1 (fun ps => cp K (p ps 0))
      (fun ps => [cp_g0 K (p ps 0)]))
  | "CRXGate", [] => some (mkFam [2, 2] 1 (fun ps => crx K (p ps 0))
      (fun ps => [crx_g0 K (p ps 0)]))
  | "CRYGate", [] => some (mkFam [2, 2] 1 (fun ps => cry (p ps 0))
      (fun ps => [cry_g0 K (p ps 0)]))
  | "CRZGate", [] => some (mkFam [2, 2] 1 (fun ps => crz K (p ps 0))
      (fun ps => [crz_g0 K (p ps 0)]))
  | "CUGate", [] => some (mkFam [2, 2] 4 (fun ps => cu K (p ps 0) (p ps 1) (p ps 2) (p ps 3))
      (fun ps => [cu_g0 K (p ps 0) (p ps 1) (p ps 2) (p ps 3), cu_g1 K (p ps 0) (p ps 1) (p ps 2) (p ps 3),
                 cu_g2 K (p ps 0) (p ps 1) (p ps 2) (p ps 3), cu_g3 K (p ps 0) (p ps 1) (p ps 2) (p ps 3)]))
  | "FSIMGate", [] => some (mkFam [2, 2] 2 (fun ps => fsim K (p ps 0) (p ps 1))
      (fun ps => [fsim_g0 K (p ps 0), fsim_g1 K (p ps 1)]))
  | "CCPGate", [] => some (mkFam [2, 2, 2] 1 (fun ps => ccp K (p ps 0))
      (fun ps => [ccp_g0 K (p ps 0)]))
  | "DiagonalGate", [n] => some (mkFam (ones n) (pow2 n - 1) (fun ps => diagGate K ps)
      (fun ps => (List.range (pow2 n - 1)).map (diagGate_g K ps)))
  | "ArbitraryCPhaseGate", rs => some (mkFam rs 1 (fun ps => acphase K (prodL rs) (p ps 0))
      (fun ps => [acphase_g K (prodL rs) (p ps 0)]))
  | "MPRYGate", [n, t] => some (mkFam (ones n) (pow2 (n - 1)) (fun ps => mpry n t ps)
      (fun ps => (List.range (pow2 (n - 1))).map (mpry_g K n t ps)))
  | "MPRZGate", [n, t] => some (mkFam (ones n) (pow2 (n - 1)) (fun ps => mprz K n t ps)
      (fun ps => (List.range (pow2 (n - 1))).map (mprz_g K n t ps)))
  | "RSU3Gate", [idx] => if idx ≤ 6 then some (mkFam [3] 1 (fun ps => rsu3 K idx (p ps 0))
      (fun ps => [rsu3_g K idx (p ps 0)])) else none
  -- constants
  | "IdentityGate", rs => some (.const rs eye)
  | "XGate", [] => some (.const [2] xGate)
  | "YGate", [] => some (.const [2] (yGate K))
  | "ZGate", [] => some (.const [2] zGate)
  | "HGate", [2] => some (.const [2] (hGate K))
  | "HGate", [4] => some (.const [4] (h4Gate K))
  | "SGate", [] => some (.const [2] (sGate K))
  | "SdgGate", [] => some (.const [2] (sdgGate K))
  | "TGate", [] => some (.const [2] (tGate K))
  | "TdgGate", [] => some (.const [2] (tdgGate K))
  | "SqrtXGate", [] => some (.const [2] (sx K))
  | "SqrtXdgGate", [] => some (.const [2] (sxdg K))
  | "CNOTGate", [] => some (.const [2, 2] cxGate)
  | "CYGate", [] => some (.const [2, 2] (cyGate K))
  | "CZGate", [] => some (.const [2, 2] czGate)
  | "CHGate", [] => some (.const [2, 2] (ch K))
  | "CSGate", [] => some (.const [2, 2] (csGate K))
  | "CTGate", [] => some (.const [2, 2] (ctGate K))
  | "SwapGate", [d] => some (.const [d, d] (swapD d))
  | "ISwapGate", [] => some (.const [2, 2] (iswapGate K))
  | "SqrtISwapGate", [] => some (.const [2, 2] (sqrtISwap K))
  | "SqrtCNOTGate", [] => some (.const [2, 2] (sqrtCNOT K))
  | "ECRGate", [] => some (.const [2, 2] (ecr K))
  | "XXGate", [] => some (.const [2, 2] (xxGate K))
  | "YYGate", [] => some (.const [2, 2] (yyGate K))
  | "ZZGate", [] => some (.const [2, 2] (zzGate K))
  | "CCXGate", [] => some (.const [2, 2, 2] ccxGate)
  | "IToffoliGate", [] => some (.const [2, 2, 2] (itoffoli K))
  | "RCCXGate", [] => some (.const [2, 2, 2] (rccx K))
  | "RC3XGate", [] => some (.const [2, 2, 2, 2] (rc3x K))
  | "CPIGate", [] => some (.const [3, 3] cpiGate)
  | "ShiftGate", [d] => some (.const [d] (shiftGate d))
  | "ClockGate", [d] => (rootOfUnity? K d).map fun w => .const [d] (clockGate w)
  | "PDGate", [index, d] => (rootOfUnity? K d).map fun w => .const [d] (pdGate w index)
  | "CSUMGate", [d] => some (.const [d, d] (csumGate d))
  | "SubSwapGate", [d, i, j] => some (.const [d, d] (subSwap i j))
  | "PermutationGate", n :: loc => some (.const (ones n) (permGate n loc))
  | _, _ => none

/-- the rate of each parameter of a family: `"half"` (point = θ/2), `"full"`, `"pi"`
(point = π·x), `"pihalf"` (point = π·x/2) — used by the harness to turn a circle
point into the float handed to the implementation -/
def rates : String → List String
  | "U3Gate" => ["half", "full", "full"]
  | "U2Gate" => ["full", "full"]
  | "U1Gate" => ["full"]
  | "RXGate" => ["half"] | "RYGate" => ["half"] | "RZGate" => ["half"]
  | "U1qGate" => ["half", "full"]
  | "PhasedXZGate" => ["pihalf", "pi", "pi"]
  | "RXXGate" => ["half"] | "RYYGate" => ["half"] | "RZZGate" => ["half"]
  | "CPGate" => ["full"]
  | "CRXGate" => ["half"] | "CRYGate" => ["half"] | "CRZGate" => ["half"]
  | "CUGate" => ["half", "full", "full", "full"]
  | "FSIMGate" => ["full", "full"]
  | "CCPGate" => ["full"]
  | _ => []

/-- `U3Gate.get_inverse_params`: `[-θ, -λ, -φ]` -/
def u3InverseParams (ps : List (Ang α)) : List (Ang α) :=
  [(angAt ps 0).neg, (angAt ps 2).neg, (angAt ps 1).neg]

end defs

/-! ## Shape table (checked against the live classes, `Generated/GateShapes.lean`) -/

structure Shape where
  cls : String          -- class / exported name
  name : String         -- `gate.name`
  numParams : Nat
  radixes : List Nat
  qasm : String         -- `qasm_name`, "" when the attribute raises / is absent
  inverse : String      -- `get_inverse().name`
deriving DecidableEq, Repr

end BqVerif.Gates
