import BqVerif.Model.QasmExpr
/-! # Statement syntax of the OpenQASM 2 reader (C17)

Recursive-descent transcription of the statement rules of
`bqskit/ir/lang/qasm2/parser.py` (`mainprogram`, `statement`, `decl`, `gatedecl`, `goplist`,
`qop`, `uop`, `anylist`, `argument`, `explist`).  The result keeps exactly what the visitor
looks at.  Things the grammar accepts and the visitor ignores are kept visible:

* `opaque …;` → `Stmt.opaqueDecl` (no visitor method),
* `if (c == n) qop` → the `qop` itself (the visitor is a top-down walk over *all* subtrees, so
  the guarded operation is applied unconditionally),
* `barrier`/`barrierp` inside a gate body → `BStmt.barrier` (inlined in `goplist`, no callback);
  a `barrier` as the FIRST body statement is not in the grammar (`goplist` must start with
  `uopp` or `"barrierp"`), Lark's contextual lexer then reads the word as an identifier →
  `BStmt.call "barrier"` (later rejected as an unknown gate); symmetrically `barrierp` is a
  keyword only in first position.
-/
namespace BqVerif.Qasm

variable {V : Type}

/-- `argument: ID | ID "[" NNINTEGER "]"` (also the items of `anylist`) -/
structure Arg where
  name : String
  idx : Option Nat
  deriving Repr, DecidableEq, Inhabited

/-- A gate application, at top level (`uop`) or inside a gate body (`uopp`). -/
inductive GCall (V : Type) where
  | gate (name : String) (params : List (QE V)) (args : List Arg)
  | u (params : List (QE V)) (arg : Arg)
  | cx (a b : Arg)
  deriving Repr, Inhabited

inductive BStmt (V : Type) where
  | call (c : GCall V)
  | barrier
  deriving Repr, Inhabited

inductive Stmt (V : Type) where
  | incl (file : String)
  | qreg (name : String) (size : Nat)
  | creg (name : String) (size : Nat)
  | gatedecl (name : String) (params : List String) (qubits : List String) (body : List (BStmt V))
  | opaqueDecl
  | call (c : GCall V)
  | measure (q c : Arg)
  | reset (q : Arg)
  | barrier (args : List Arg)
  deriving Repr, Inhabited

/-- `NNINTEGER: /[1-9]+[0-9]*|0/` -/
def parseNNInt (s : String) : Option Nat :=
  let cs := s.toList
  if cs.isEmpty || !cs.all isDigit then none
  else if cs.length > 1 && cs.head? == some '0' then none
  else some (digitsVal cs)

abbrev P (α : Type) := List Tok → Option (α × List Tok)

def expectSym (s : String) : List Tok → Option (List Tok)
  | .sym t :: r => if t = s then some r else none
  | _ => none

def pId : P String
  | .id s :: r => some (s, r)
  | _ => none

/-- `[ NNINTEGER ]` -/
def pIndex : P Nat
  | .sym "[" :: .num n :: .sym "]" :: r => (parseNNInt n).map (·, r)
  | _ => none

def pArg : P Arg
  | .id s :: .sym "[" :: r =>
    (pIndex (.sym "[" :: r)).map fun (i, r') => (⟨s, some i⟩, r')
  | .id s :: r => some (⟨s, none⟩, r)
  | _ => none

/-- `anylist` / `idlist`: comma separated arguments (at least one) -/
def pArgList : Nat → P (List Arg)
  | 0, _ => none
  | f + 1, ts =>
    match pArg ts with
    | some (a, .sym "," :: r) =>
      (match pArgList f r with
       | some (as, r') => some (a :: as, r')
       | none => none)
    | some (a, r) => some ([a], r)
    | none => none

/-- `idlist`: comma separated identifiers (at least one) -/
def pIdList : Nat → P (List String)
  | 0, _ => none
  | f + 1, ts =>
    match pId ts with
    | some (a, .sym "," :: r) =>
      (match pIdList f r with
       | some (as, r') => some (a :: as, r')
       | none => none)
    | some (a, r) => some ([a], r)
    | none => none

/-- Tokens up to the `)` matching an already consumed `(`, split at top-level commas. -/
def splitParen : Nat → List Tok → List Tok → List (List Tok) → Option (List (List Tok) × List Tok)
  | _, [], _, _ => none
  | d, .sym s :: r, cur, acc =>
    if s = "(" then splitParen (d + 1) r (.sym s :: cur) acc
    else if s = ")" then
      (match d with
       | 0 => some ((cur.reverse :: acc).reverse, r)
       | d' + 1 => splitParen d' r (.sym s :: cur) acc)
    else if s = "," && d == 0 then splitParen d r [] (cur.reverse :: acc)
    else splitParen d r (.sym s :: cur) acc
  | d, t :: r, cur, acc => splitParen d r (t :: cur) acc

/-- one complete `exp` from a token segment -/
def pExpSeg (seg : List Tok) : Option (QE V) :=
  (seg.mapM ETok.ofTok).bind larkParse

/-- after `(`: `")"` (empty) or `explist ")"` -/
def pParams : P (List (QE V)) := fun ts =>
  match ts with
  | .sym ")" :: r => some ([], r)
  | _ =>
    match splitParen 0 ts [] [] with
    | some (segs, r) => (segs.mapM pExpSeg).map (·, r)
    | none => none

/-- `ID anylist ; | ID ( ) anylist ; | ID ( explist ) anylist ;` after the ID -/
def pGateRest (name : String) : P (GCall V) := fun ts =>
  let ps : Option (List (QE V) × List Tok) := match ts with
    | .sym "(" :: r => pParams r
    | _ => some ([], ts)
  match ps with
  | some (params, r) =>
    (match pArgList (r.length + 1) r with
     | some (args, .sym ";" :: r') => some (.gate name params args, r')
     | _ => none)
  | none => none

/-- `"U" "(" explist ")" argument ";"` after the keyword -/
def pURest : P (GCall V)
  | .sym "(" :: .sym ")" :: _ => none
  | .sym "(" :: r =>
    (match pParams r with
     | some (params, r') =>
       (match pArg r' with
        | some (a, .sym ";" :: r'') => some (.u params a, r'')
        | _ => none)
     | none => none)
  | _ => none

/-- `"CX" argument "," argument ";"` after the keyword -/
def pCXRest : P (GCall V) := fun ts =>
  match pArg ts with
  | some (a, .sym "," :: r) =>
    (match pArg r with
     | some (b, .sym ";" :: r') => some (.cx a b, r')
     | _ => none)
  | _ => none

/-- `uop` / `uopp` -/
def pCall : P (GCall V)
  | .kw "U" :: r => pURest r
  | .kw "CX" :: r => pCXRest r
  | .id s :: r => pGateRest s r
  | _ => none

/-- `goplist` items up to `}`; `first` = no item read yet. -/
def pBody : Nat → Bool → P (List (BStmt V))
  | 0, _, _ => none
  | _ + 1, _, .sym "}" :: r => some ([], r)
  | f + 1, first, ts =>
    let item : Option (BStmt V × List Tok) := match ts with
      | .kw "barrierp" :: r =>
        if first then
          (match pIdList (r.length + 1) r with
           | some (_, .sym ";" :: r') => some (.barrier, r')
           | _ => none)
        else
          (pGateRest "barrierp" r).map fun (c, r') => (.call c, r')
      | .kw "barrier" :: r =>
        if first then
          (pGateRest "barrier" r).map fun (c, r') => (.call c, r')
        else
          (match pIdList (r.length + 1) r with
           | some (_, .sym ";" :: r') => some (.barrier, r')
           | _ => none)
      | _ => (pCall ts).map fun (c, r') => (.call c, r')
    match item with
    | some (s, r) =>
      (match pBody f false r with
       | some (ss, r') => some (s :: ss, r')
       | none => none)
    | none => none

/-- optional `( idlist? )` of `gatedecl` / `opaque` -/
def pFormals : P (List String)
  | .sym "(" :: .sym ")" :: r => some ([], r)
  | .sym "(" :: r =>
    (match pIdList (r.length + 1) r with
     | some (ps, .sym ")" :: r') => some (ps, r')
     | _ => none)
  | ts => some ([], ts)

/-- `qop` -/
def pQop : P (Stmt V)
  | .kw "measure" :: r =>
    (match pArg r with
     | some (a, .sym "->" :: r') =>
       (match pArg r' with
        | some (b, .sym ";" :: r'') => some (.measure a b, r'')
        | _ => none)
     | _ => none)
  | .kw "reset" :: r =>
    (match pArg r with
     | some (a, .sym ";" :: r') => some (.reset a, r')
     | _ => none)
  | ts => (pCall ts).map fun (c, r) => (.call c, r)

def pStmt : P (Stmt V)
  | .kw "include" :: .str s :: .sym ";" :: r => some (.incl s, r)
  | .kw "qreg" :: .id s :: r =>
    (match pIndex r with
     | some (n, .sym ";" :: r') => some (.qreg s n, r')
     | _ => none)
  | .kw "creg" :: .id s :: r =>
    (match pIndex r with
     | some (n, .sym ";" :: r') => some (.creg s n, r')
     | _ => none)
  | .kw "gate" :: .id s :: r =>
    (match pFormals r with
     | some (ps, r') =>
       (match pIdList (r'.length + 1) r' with
        | some (qs, .sym "{" :: r'') =>
          (match pBody (r''.length + 1) true r'' with
           | some (body, r3) => some (.gatedecl s ps qs body, r3)
           | none => none)
        | _ => none)
     | none => none)
  | .kw "opaque" :: .id _ :: r =>
    (match pFormals r with
     | some (_, r') =>
       (match pIdList (r'.length + 1) r' with
        | some (_, .sym ";" :: r'') => some (.opaqueDecl, r'')
        | _ => none)
     | none => none)
  | .kw "if" :: .sym "(" :: .id _ :: .sym "==" :: .num n :: .sym ")" :: r =>
    (match parseNNInt n with
     | some _ => pQop r          -- the condition is dropped, as the visitor does
     | none => none)
  | .kw "barrier" :: r =>
    (match pArgList (r.length + 1) r with
     | some (as, .sym ";" :: r') => some (.barrier as, r')
     | _ => none)
  | ts => pQop ts

def pProgram : Nat → P (List (Stmt V))
  | 0, _ => none
  | _ + 1, [] => some ([], [])
  | f + 1, ts =>
    match pStmt ts with
    | some (s, r) =>
      (match pProgram f r with
       | some (ss, r') => some (s :: ss, r')
       | none => none)
    | none => none

/-- `mainprogram: "OPENQASM" REAL ";" program` (at least one statement) -/
def parseProgram (ts : List Tok) : Option (List (Stmt V)) :=
  match ts with
  | .kw "OPENQASM" :: .num _ :: .sym ";" :: r =>
    (match pProgram (r.length + 1) r with
     | some (ss, []) => if ss.isEmpty then none else some ss
     | _ => none)
  | _ => none

end BqVerif.Qasm
