/-
Exact numbers for the C06 correspondence: Gaussian rationals `a + b·i` over core `Rat`.
(The shared `Num.lean` with ℚ(i,√2) is written in parallel for C18; C06 only needs ℚ(i):
signed/phase permutation matrices, Pythagorean rotations, library gates at rational
points of the unit circle.  The maintainer unifies the two files later.)

Import-free so that the driver links.
-/
namespace BqVerif.NumC06

/-- `re + im·i`. -/
structure GQ where
  re : Rat
  im : Rat
deriving DecidableEq, Repr, Inhabited

namespace GQ

def zero : GQ := ⟨0, 0⟩
def one : GQ := ⟨1, 0⟩
def I : GQ := ⟨0, 1⟩
def ofRat (r : Rat) : GQ := ⟨r, 0⟩
def add (a b : GQ) : GQ :=
  if a.re.num == 0 && a.im.num == 0 then b
  else if b.re.num == 0 && b.im.num == 0 then a
  else ⟨a.re + b.re, a.im + b.im⟩
def neg (a : GQ) : GQ := ⟨-a.re, -a.im⟩
def sub (a b : GQ) : GQ := ⟨a.re - b.re, a.im - b.im⟩
/-- `re = 0 ∧ im = 0`, tested on numerators only (cheap). -/
@[inline] def isZero (a : GQ) : Bool := a.re.num == 0 && a.im.num == 0

/-- Product; the zero and real shortcuts only save work (same value). -/
def mul (a b : GQ) : GQ :=
  if a.isZero || b.isZero then ⟨0, 0⟩
  else if a.im.num == 0 && b.im.num == 0 then ⟨a.re * b.re, 0⟩
  else ⟨a.re * b.re - a.im * b.im, a.re * b.im + a.im * b.re⟩
def conj (a : GQ) : GQ := ⟨a.re, -a.im⟩
def smul (r : Rat) (a : GQ) : GQ := ⟨r * a.re, r * a.im⟩

instance : Zero GQ := ⟨zero⟩
instance : One GQ := ⟨one⟩
instance : Add GQ := ⟨add⟩
instance : Neg GQ := ⟨neg⟩
instance : Sub GQ := ⟨sub⟩
instance : Mul GQ := ⟨mul⟩
instance : OfNat GQ 0 := ⟨zero⟩
instance : OfNat GQ 1 := ⟨one⟩


def ratStr (r : Rat) : String :=
  if r.den == 1 then toString r.num else s!"{r.num}/{r.den}"

/-- Canonical text: `re,im` with each part `p` or `p/q`. -/
def toStr (a : GQ) : String := s!"{ratStr a.re},{ratStr a.im}"

def parseRat (s : String) : Option Rat :=
  match s.splitOn "/" with
  | [p] => p.toInt?.map (fun n => (n : Rat))
  | [p, q] =>
    match p.toInt?, q.toNat? with
    | some n, some d => if d == 0 then none else some ((n : Rat) / (d : Rat))
    | _, _ => none
  | _ => none

/-- `re,im` or just `re`. -/
def parse (s : String) : Option GQ :=
  match s.splitOn "," with
  | [a] => (parseRat a).map ofRat
  | [a, b] =>
    match parseRat a, parseRat b with
    | some x, some y => some ⟨x, y⟩
    | _, _ => none
  | _ => none

end GQ
end BqVerif.NumC06
