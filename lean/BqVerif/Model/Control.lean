import BqVerif.Model.Circ
import BqVerif.Model.CircBlocks
import BqVerif.Model.Graph
/-
Control-flow and block-wise passes (property C11).

Transcribed from
  bqskit/compiler/passdata.py      PassData (all fields), copy, become, update_error_mul, target setter
  bqskit/compiler/workflow.py      Workflow.run
  bqskit/compiler/basepass.py      _sub_do_work
  bqskit/passes/control/*.py       IfThenElsePass, WhileLoopPass, DoWhileLoopPass, DoThenDecide,
                                   ParallelDo, ForEachBlockPass (+ replace filters), ClearAllBlockData
  bqskit/passes/control/predicates And / Or / Not / Width / GateCount / Change predicates
on top of the list-of-cycles circuit model (`BqVerif.Circ`, incl. `Circ.batchReplace`).

The interpreter `exec` is parametric in an environment `Env` (what the leaf passes, the two-circuit
callables and the filter callables do) and threads a `World` of oracles: the stream of scripted
predicate outcomes, the stream of measured block distances (the model does no numerics), the
arrival batches of `runtime.next` for `pick_first`, and the table naming circuit-gate bodies.
Recursion is on a fuel argument only (`none` = out of fuel); `Proofs/Control.lean` shows that a
result obtained with some fuel is the result for every larger fuel.

No imports beyond Model files: the compiled driver links this file.
-/
namespace BqVerif.Control
open BqVerif.Circ

/-! ## values stored under user keys -/
inductive Val where
  | none
  | int (i : Int)
  | rat (r : Rat)
  | str (s : String)
  | circ (c : Circ)
  | list (l : List Val)
  | dict (l : List (Int × Val))       -- a dict with integer keys
deriving Inhabited

/-- Python truthiness of the value kinds the harness stores -/
def Val.truthy : Val → Bool
  | .none => false
  | .int i => i != 0
  | .rat r => r != 0
  | .str s => s != ""
  | .circ _ => true
  | .list l => !l.isEmpty
  | .dict l => !l.isEmpty

/-- `v == i` for an integer `i` -/
def Val.eqInt : Val → Int → Bool
  | .int j, i => j == i
  | .rat r, i => r == (i : Rat)
  | _, _ => false

def Val.ofNats (l : List Nat) : Val := .list (l.map (fun n => .int (Int.ofNat n)))
def Val.ofBool (b : Bool) : Val := .int (if b then 1 else 0)

abbrev Dict := List (String × Val)
def Dict.get? (d : Dict) (k : String) : Option Val := (d.find? (·.1 == k)).map (·.2)
def Dict.has (d : Dict) (k : String) : Bool := d.any (·.1 == k)
/-- `d[k] = v`: in place when present, else appended (insertion order) -/
def Dict.put (d : Dict) (k : String) (v : Val) : Dict :=
  if d.has k then d.map (fun e => if e.1 == k then (k, v) else e) else d ++ [(k, v)]
def Dict.del (d : Dict) (k : String) : Dict := d.filter (fun e => e.1 != k)

/-! ## PassData -/
/-- `MachineModel`: `coupling_graph` as the normalised edge set the constructor stores -/
structure MModel where
  n : Nat
  gn : Nat                     -- `coupling_graph.num_qudits` (the constructor may infer less than `n`)
  edges : List (Nat × Nat)
  gates : List Nat
  radixes : List Nat
deriving DecidableEq, Repr

/-- `(a, b) in model.coupling_graph` (orientation-insensitive since 514190c) -/
def MModel.coupled (m : MModel) (a b : Nat) : Bool := m.edges.contains (Graph.norm (a, b))

/-- `_target`: the unitary of a circuit (what `PassData(circuit)` stores; the model does not
multiply matrices, the harness resolves it) or a unitary named by the harness, with its width -/
inductive Target where
  | ofCirc (c : Circ)
  | named (k n : Nat)
deriving DecidableEq, Repr

/-- the attributes `PassData.__init__` creates (checked against the live source: `Generated/Fields`) -/
inductive Field where
  | target | error | model | placement | initialMapping | finalMapping | data | seed
deriving DecidableEq, Repr

def Field.all : List Field :=
  [.target, .error, .model, .placement, .initialMapping, .finalMapping, .data, .seed]

def Field.pyName : Field → String
  | .target => "_target" | .error => "_error" | .model => "_model" | .placement => "_placement"
  | .initialMapping => "_initial_mapping" | .finalMapping => "_final_mapping"
  | .data => "_data" | .seed => "_seed"

def Field.ofPyName (s : String) : Option Field := Field.all.find? (fun f => f.pyName == s)

structure PData where
  target : Target
  error : Rat
  model : MModel
  placement : List Nat
  initialMapping : List Nat
  finalMapping : List Nat
  data : Dict
  seed : Option Int

/-- `MachineModel(n)` with the all-to-all default graph; the default gate set is abstracted to the
empty list (it is always overwritten before it can be observed: see `blockData`) -/
def MModel.default (radixes : List Nat) : MModel :=
  ⟨radixes.length, radixes.length, (Graph.allToAllRaw radixes.length).map Graph.norm, [], radixes⟩

/-- `PassData(circuit)` -/
def PData.init (c : Circ) : PData :=
  let r := List.range c.numQudits
  { target := .ofCirc c, error := 0, model := MModel.default c.radixes, placement := r,
    initialMapping := r, finalMapping := r, data := [], seed := none }

/-- an object none of whose attributes has been assigned (stands for "not copied") -/
def PData.blank : PData :=
  { target := .named 0 0, error := 0, model := ⟨0, 0, [], [], []⟩, placement := [],
    initialMapping := [], finalMapping := [], data := [], seed := none }

/-- `self.become(other)` where the assignments present in the source are those of `fs`
(shallow/deep copies are indistinguishable for immutable model values) -/
def PData.becomeWith (fs : List Field) (self other : PData) : PData :=
  { target := if fs.contains .target then other.target else self.target
    error := if fs.contains .error then other.error else self.error
    model := if fs.contains .model then other.model else self.model
    placement := if fs.contains .placement then other.placement else self.placement
    initialMapping := if fs.contains .initialMapping then other.initialMapping else self.initialMapping
    finalMapping := if fs.contains .finalMapping then other.finalMapping else self.finalMapping
    data := if fs.contains .data then other.data else self.data
    seed := if fs.contains .seed then other.seed else self.seed }

/-- `self.copy()` when the copy carries the fields of `fs` -/
def PData.copyWith (fs : List Field) (self : PData) : PData := PData.blank.becomeWith fs self

/-- `update_error_mul` -/
def PData.updateErrorMul (d : PData) (e : Rat) : PData :=
  { d with error := 1 - (1 - d.error) * (1 - e) }

/-- the `target` setter: a target of another width resets the placement -/
def PData.setTarget (d : PData) (k n : Nat) : PData :=
  { d with target := .named k n,
           placement := if d.placement.length != n then List.range n else d.placement }

/-- `data.connectivity`: `model.coupling_graph.get_subgraph(placement)`; `none` = raises -/
def PData.connectivity (d : PData) : Option Graph.G :=
  (Graph.G.mk d.model.gn d.model.edges).subgraph d.placement none

def encNats (l : List Nat) : Val := Val.ofNats l
/-- sets and dicts are recorded in sorted order (their Python iteration order is not compared) -/
def sortPairs (l : List (Nat × Nat)) : List (Nat × Nat) := l.foldr insertPt []
def insertKey (x : String × Val) : Dict → Dict
  | [] => [x]
  | y :: ys => if x.1 ≤ y.1 then x :: y :: ys else y :: insertKey x ys
def sortDict (d : Dict) : Dict := d.foldr insertKey []
def encModel (m : MModel) : Val :=
  .list [.int m.n, .int m.gn, .list ((sortPairs m.edges).map (fun e => .list [.int e.1, .int e.2])),
    encNats (sortNat m.gates), encNats m.radixes]
def encTarget : Target → Val
  | .ofCirc c => .list [.str "circ", .circ c]
  | .named k n => .list [.str "named", .int k, .int n]
def encDict (d : Dict) : Val := .list ((sortDict d).map (fun e => .list [.str e.1, e.2]))
/-- a PassData as a value (block data recorded under `ForEachBlockPass_data`) -/
def encPData (d : PData) : Val :=
  .list [.str "passdata", encTarget d.target, .rat d.error, encModel d.model, encNats d.placement,
    encNats d.initialMapping, encNats d.finalMapping,
    (match d.seed with | some s => .int s | none => .none), encDict d.data]

/-! ## state, oracles, environment -/
structure St where
  circ : Circ
  data : PData

structure World where
  script : List Bool             -- outcomes of the scripted predicates / conditions, in call order
  errs : List Rat                -- measured distances, in the order `_sub_do_work` asks for them
  arrivals : List (List Nat)     -- first batch returned by `runtime.next`, per `pick_first` ParallelDo
  blocks : Blocks                -- names of circuit-gate bodies (grows only)
  distLog : List (Circ × Circ)   -- the (old, new) pairs whose distance was asked for, in order

inductive FilterFn | ops | multi | many
deriving DecidableEq, Repr
/-- what `gen_replace_filter` can build -/
inductive FilterKind
  | always
  | plain (f : FilterFn)
  | respecting (f : FilterFn)
  | respectingFully (f : FilterFn)
deriving DecidableEq, Repr

/-- the translator's spelling of what a generator of `gen_replace_filter` returns -/
def FilterKind.ofString : String → Option FilterKind
  | "always" => some .always
  | "plain:ops" => some (.plain .ops)
  | "plain:multi" => some (.plain .multi)
  | "plain:many" => some (.plain .many)
  | "respecting:ops" => some (.respecting .ops)
  | "respecting:multi" => some (.respecting .multi)
  | "respecting:many" => some (.respecting .many)
  | "fully:ops" => some (.respectingFully .ops)
  | "fully:multi" => some (.respectingFully .multi)
  | "fully:many" => some (.respectingFully .many)
  | _ => none

structure Env where
  /-- leaf pass `i`: new state and whether it raised (a raising pass leaves its partial edits) -/
  leaf : Nat → St → St × Option Err
  /-- two-circuit callables (DoThenDecide condition: `(old, new)`; ParallelDo less_than: `(a, b)`) -/
  cond : Nat → Circ → Circ → Bool
  /-- callables that look at operations also get the table naming circuit-gate bodies -/
  collect : Nat → Blocks → Op → Bool
  rfilt : Nat → Blocks → Circ → Op → Bool
  filters : List (String × FilterKind)
  copyFields : List Field
  becomeFields : List Field

/-! ## predicates -/
inductive Pred where
  | script                          -- harness: next scripted outcome (process-global list)
  | popKey (k : String)             -- harness: pops the head of the list stored under `k`
  | keyLt (k : String) (n : Int)    -- harness: `data[k] < n`
  | width (n : Nat)                 -- WidthPredicate
  | gateCount (gids : List Nat)     -- GateCountPredicate(list of gates)
  | change                          -- ChangePredicate
  | not (p : Pred)
  | and (p q : Pred)
  | or (p q : Pred)
deriving Repr

def changeKey := "ChangePredicate_circuit_hash"
def countKey := "GateCountPredicate_circuit_count"

/-- the circuit's fingerprint used by `ChangePredicate.get_hash`: the operations in iteration order -/
def fingerprint (c : Circ) : Val :=
  .list (c.iter.map (fun o => .list [.int o.gid, .list (o.par.map .int), encNats o.loc]))

def sameFingerprint (c : Circ) : Val → Bool
  | .list l =>
    l.length == c.iter.length &&
    (l.zip c.iter).all (fun (v, o) => match v with
      | .list [.int g, .list ps, .list qs] =>
        g == (o.gid : Int) && ps.length == o.par.length &&
          (ps.zip o.par).all (fun (v, p) => match v with | .int i => i == p | _ => false) &&
        qs.length == o.loc.length &&
          (qs.zip o.loc).all (fun (v, q) => match v with | .int i => i == (q : Int) | _ => false)
      | _ => false)
  | _ => false

def evalPred : Pred → World → St → Except Err (Bool × World × St)
  | .script, w, s =>
    match w.script with
    | [] => .error .runtime
    | b :: r => .ok (b, { w with script := r }, s)
  | .popKey k, w, s =>
    match s.data.data.get? k with
    | some (.list (v :: r)) =>
      .ok (v.truthy, w, { s with data := { s.data with data := s.data.data.put k (.list r) } })
    | some (.list []) => .ok (false, w, s)
    | _ => .error .runtime
  | .keyLt k n, w, s =>
    match s.data.data.get? k with
    | some (.int i) => .ok (decide (i < n), w, s)
    | _ => .error .runtime
  | .width n, w, s => .ok (decide (s.circ.numQudits < n), w, s)
  | .gateCount gids, w, s =>
    let cnt : Int := Int.ofNat (gids.map s.circ.gateCount).sum
    match s.data.data.get? countKey with
    | none => .ok (true, w, { s with data := { s.data with data := s.data.data.put countKey (.int cnt) } })
    | some (.int old) =>
      if old == cnt then .ok (false, w, s)
      else .ok (true, w, { s with data := { s.data with data := s.data.data.put countKey (.int cnt) } })
    | some _ => .ok (true, w, { s with data := { s.data with data := s.data.data.put countKey (.int cnt) } })
  | .change, w, s =>
    let store : St := { s with data := { s.data with data := s.data.data.put changeKey (fingerprint s.circ) } }
    match s.data.data.get? changeKey with
    | none => .ok (true, w, store)
    | some v => if sameFingerprint s.circ v then .ok (false, w, s) else .ok (true, w, store)
  | .not p, w, s =>
    match evalPred p w s with
    | .error e => .error e
    | .ok (b, w, s) => .ok (!b, w, s)
  | .and p q, w, s =>
    match evalPred p w s with
    | .error e => .error e
    | .ok (b, w, s) => if b then evalPred q w s else .ok (false, w, s)
  | .or p q, w, s =>
    match evalPred p w s with
    | .error e => .error e
    | .ok (b, w, s) => if b then .ok (true, w, s) else evalPred q w s

/-- a two-circuit callable: scripted, or function `i` of the environment -/
inductive Cond where
  | script
  | fn (i : Nat)
deriving Repr

def evalCond (env : Env) : Cond → World → Circ → Circ → Except Err (Bool × World)
  | .script, w, _, _ =>
    match w.script with
    | [] => .error .runtime
    | b :: r => .ok (b, { w with script := r })
  | .fn i, w, a, b => .ok (env.cond i a b, w)

/-! ## pass trees -/
inductive Collect where
  | default                 -- CircuitGate / ConstantUnitaryGate / VariableUnitaryGate / PauliGate
  | fn (i : Nat)
deriving Repr

inductive RFilter where
  | named (name : String)
  | fn (i : Nat)
deriving Repr

structure FECfg where
  calcErr : Bool
  collect : Collect
  rfilter : RFilter
deriving Repr

inductive Tree where
  | leaf (i : Nat)
  | seq (ts : List Tree)                                   -- Workflow
  | ite (p : Pred) (t : Tree) (e : Option Tree)            -- IfThenElsePass
  | while (p : Pred) (b : Tree)                            -- WhileLoopPass
  | doWhile (p : Pred) (b : Tree)                          -- DoWhileLoopPass
  | dtd (c : Cond) (w : Tree)                              -- DoThenDecide
  | par (ws : List Tree) (lt : Cond) (pickFirst : Bool)    -- ParallelDo
  | forEach (cfg : FECfg) (b : Tree)                       -- ForEachBlockPass
  | clearAll                                               -- ClearAllBlockData

inductive Outcome where
  | ok
  | raised (e : Err)
deriving DecidableEq, Repr

/-- an executed leaf with the state it saw; `may`: inside a `pick_first` branch that had not
arrived when the pass woke up (it may have been cancelled before running) -/
structure Ev where
  leaf : Nat
  st : St
  may : Bool

structure Res where
  trace : List Ev
  st : St
  w : World
  out : Outcome

/-! ## replace filters (`gen_replace_filter`) -/
def arityCount (c : Circ) (p : Nat → Bool) : Nat := (c.ops.filter (fun o => p o.loc.length)).length

/-- lexicographic `<` on tuples of naturals -/
def lexLt : List Nat → List Nat → Bool
  | [], [] => false
  | [], _ :: _ => true
  | _ :: _, [] => false
  | a :: as, b :: bs => a < b || (a == b && lexLt as bs)

/-- `_less_than`, `_less_than_multi`, `_less_than_many` when `old` is a circuit gate with body `org` -/
def FilterFn.eval (f : FilterFn) (new org : Circ) : Bool :=
  match f with
  | .ops => new.numOps < org.numOps
  | .multi => lexLt [arityCount new (· > 1), arityCount new (· == 1)]
                    [arityCount org (· > 1), arityCount org (· == 1)]
  | .many => lexLt [arityCount new (· > 2), arityCount new (· == 2), arityCount new (· == 1)]
                   [arityCount org (· > 2), arityCount org (· == 2), arityCount org (· == 1)]

def gidsOfArity (c : Circ) (p : Nat → Bool) : List Nat :=
  (c.ops.filter (fun o => p o.loc.length)).map (·.gid)

/-- `_is_respecting(circuit, location, model, fully)` -/
def isRespecting (c : Circ) (location : List Nat) (m : MModel) (fully : Bool) : Bool :=
  (gidsOfArity c (· ≥ 2)).all m.gates.contains &&
  (!fully || (gidsOfArity c (· == 1)).all m.gates.contains) &&
  c.coupling.all (fun e => m.coupled (location.getD e.1 0) (location.getD e.2 0))

/-- the filter built by `gen_replace_filter(kind, model)` applied to `(new, old)`; `org` is the body
when `old` is a circuit gate -/
def FilterKind.eval (k : FilterKind) (m : MModel) (new : Circ) (old : Op) (org : Option Circ) : Bool :=
  match k with
  | .always => true
  | .plain f => match org with
    | some org => f.eval new org
    | none => true
  | .respecting f => match org with
    | some org =>
      if !isRespecting org old.loc m false then true
      else if !isRespecting new old.loc m false then false
      else f.eval new org
    | none => true
  | .respectingFully f => match org with
    | some org =>
      if !isRespecting org old.loc m true then true
      else if !isRespecting new old.loc m true then false
      else f.eval new org
    | none => true

/-! ## ForEachBlockPass pieces -/
def feKey := "ForEachBlockPass_data"
def passDownPrefix := "ForEachBlockPass_pass_down_"
def passDownSpecificPrefix := "ForEachBlockPass_specific_pass_down_"
def calcKey := "calculate_error_bound"

/-- harness gate ids collected by `default_collection_filter` besides circuit gates
(13, 14: the two ConstantUnitaryGates of the alphabet) -/
def defaultCollectGids : List Nat := [13, 14]

def evalCollect (env : Env) (bl : Blocks) : Collect → Op → Bool
  | .default, o => (bl.body? o.gid).isSome || defaultCollectGids.contains o.gid
  | .fn i, o => env.collect i bl o

/-- the sub-circuit handed to the body -/
def subCircuit (bl : Blocks) (o : Op) : Circ :=
  match bl.body? o.gid with
  | some body => setParams body o.par
  | none => ⟨o.rad, [[{ o with loc := List.range o.loc.length }]]⟩

/-- the sub-model: induced coupling graph renumbered by position in `op.location`; `none` = raises -/
def subModel (d : PData) (c : Circ) (o : Op) : Option MModel :=
  match d.connectivity with
  | none => none
  | some g =>
    match g.subgraph o.loc (some o.loc.zipIdx) with
    | none => none
    | some sg => some ⟨o.loc.length, sg.n, sg.edges, d.model.gates, o.loc.map (c.radixes.getD · 0)⟩

/-- `i in data[key]` and then `data[key][i]` for a block-specific pass-down value: `none` when
`i in v` is false; raises where Python does (`in` on a non-container, index past a list's end) -/
def specificLookup (v : Val) (i : Nat) : Except Err (Option Val) :=
  match v with
  | .dict l => .ok ((l.find? (fun e => e.1 == (i : Int))).map (·.2))
  | .list l =>
    if l.any (fun x => x.eqInt i) then
      match l[i]? with
      | some x => .ok (some x)
      | none => .error .index
    else .ok none
  | _ => .error .type

def blockData (d : PData) (i cycle : Nat) (o : Op) (sub : Circ) (sm : MModel) (calcErr : Bool) :
    Except Err PData :=
  let base := { PData.init sub with model := sm, seed := d.seed }
  let d0 : Dict := [("subnumbering", .dict ((sortPairs o.loc.zipIdx).map (fun (q, j) => ((q : Int), .int j)))),
                    ("point", .list [.int cycle, .int o.head]),
                    (calcKey, Val.ofBool calcErr)]
  let d1 := d.data.foldl (fun (acc : Except Err Dict) (e : String × Val) =>
    match acc with
    | .error err => .error err
    | .ok acc =>
      if e.1.startsWith passDownPrefix then .ok (acc.put e.1 e.2)
      else if e.1.startsWith passDownSpecificPrefix then
        match specificLookup e.2 i with
        | .error err => .error err
        | .ok (some v) => .ok (acc.put e.1 v)
        | .ok none => .ok acc
      else .ok acc) (.ok d0)
  match d1 with
  | .error err => .error err
  | .ok d1 => .ok { base with data := d1 }

/-- zero every parameter: the structure that identifies a circuit gate -/
def zeroParams (c : Circ) : Circ :=
  { c with cycles := c.cycles.map (fun cy => cy.map (fun o => { o with par := o.par.map (fun _ => 0) })) }

/-- the gate id of `CircuitGate(sub)`: the existing name of that structure or a fresh one -/
def internBlock (bl : Blocks) (sub : Circ) : Blocks × Nat :=
  let z := zeroParams sub
  match bl.find? (fun e => e.2 == z) with
  | some e => (bl, e.1)
  | none =>
    let g := (bl.foldl (fun m e => max m e.1) 999) + 1
    (bl ++ [(g, z)], g)

/-- `Operation(CircuitGate(subcircuit, True), op.location, subcircuit.params)` -/
def blockOpOf (g : Nat) (sub : Circ) (loc : List Nat) : Op :=
  ⟨g, sub.iter.flatMap (·.par), loc, sub.radixes⟩

/-! ## the interpreter -/
def Res.fail (tr : List Ev) (s : St) (w : World) (e : Err) : Res := ⟨tr, s, w, .raised e⟩

/-- the end of `_sub_do_work`: with `calculate_error_bound` set in the job's data the error becomes
the distance between the circuit after and before the workflow (next value of the oracle); the
client's process-global script is handed back untouched -/
def subFinish (w : World) (s : St) (r : Res) : Res :=
  let flag0 := ((s.data.data.get? calcKey).map Val.truthy).getD false
  let w' := { r.w with script := w.script }
  match r.out with
  | .raised _ => { r with w := w' }
  | .ok =>
    let flag1 := ((r.st.data.data.get? calcKey).map Val.truthy).getD false
    if !flag1 then { r with w := w' }
    else if !flag0 then { r with w := w', out := .raised .runtime }   -- old_utry unbound
    else
      match w'.errs with
      | [] => { r with w := w', out := .raised .runtime }
      | e :: es =>
        { r with
          st := { r.st with data := { r.st.data with error := e } },
          w := { w' with errs := es, distLog := w'.distLog ++ [(s.circ, r.st.circ)] } }

/-- `_sub_do_work(workflow, circuit, data)` on a worker: the process-global script is not there -/
def subDoWork (f : Tree → World → St → Option Res) (t : Tree) (w : World) (s : St) : Option Res :=
  match f t { w with script := [] } s with
  | none => none
  | some r => some (subFinish w s r)

/-- run the jobs one after the other (the oracles and the block table are threaded through) -/
def mapM' (f : World → α → Option Res) : World → List α → Option (List Res × World)
  | w, [] => some ([], w)
  | w, x :: xs =>
    match f w x with
    | none => none
    | some r =>
      match mapM' f r.w xs with
      | none => none
      | some (rs, w') => some (r :: rs, w')

/-- ParallelDo's selection loop -/
def pickBest (lt : Circ → Circ → Bool) : Res → List Res → Res
  | best, [] => best
  | best, r :: rs => if lt r.st.circ best.st.circ then pickBest lt r rs else pickBest lt best rs

/-- the selection loop with a scripted `less_than` -/
def pickBestM (env : Env) (lt : Cond) : World → Res → List Res → Except Err (Res × World)
  | w, best, [] => .ok (best, w)
  | w, best, r :: rs =>
    match evalCond env lt w r.st.circ best.st.circ with
    | .error e => .error e
    | .ok (b, w) => if b then pickBestM env lt w r rs else pickBestM env lt w best rs

def firstRaised : List Res → Option Err
  | [] => none
  | r :: rs => match r.out with
    | .raised e => some e
    | .ok => firstRaised rs

def markMay (on : Bool) (tr : List Ev) : List Ev := if on then tr.map (fun e => { e with may := true }) else tr

/-- index of the first job (among those awaited, `idxs`) that raised -/
def firstRaisedIdx (rs : List Res) (idxs : List Nat) : Option Nat :=
  (List.range rs.length).find? (fun i => idxs.contains i &&
    match rs[i]? with
    | some r => r.out != .ok
    | none => false)

/-- the traces of the jobs of one `map`: jobs not awaited, and jobs after the first one that raised
(the client fails as soon as that error arrives), may or may not have run -/
def jobTraces (rs : List Res) (idxs : List Nat) : List Ev :=
  let bad := firstRaisedIdx rs idxs
  (rs.zipIdx.map (fun (r, i) =>
    markMay (!idxs.contains i || (match bad with | some j => decide (j < i) | none => false)) r.trace)).flatten

structure BlockJob where
  idx : Nat
  cycle : Nat
  op : Op
  sub : Circ
  bd : PData

abbrev Run := Tree → World → St → Option Res

/-- sequential composition: run `k` on the outcome of `r` unless `r` raised -/
def Res.andThen (r : Res) (k : World → St → Option Res) : Option Res :=
  match r.out with
  | .raised _ => some r
  | .ok =>
    match k r.w r.st with
    | none => none
    | some r2 => some { r2 with trace := r.trace ++ r2.trace }

def Res.skip (w : World) (s : St) : Res := ⟨[], s, w, .ok⟩

/-- `Workflow.run`: the passes in order; an exception stops the sequence -/
def seqM (f : Tree → World → St → Option Res) : List Tree → World → St → Option Res
  | [], w, s => some (Res.skip w s)
  | t :: ts, w, s =>
    match f t w s with
    | none => none
    | some r => r.andThen (seqM f ts)

def leafM (env : Env) (i : Nat) (w : World) (s : St) : Res :=
  ⟨[⟨i, s, false⟩], (env.leaf i s).1, w, match (env.leaf i s).2 with | some e => .raised e | none => .ok⟩

/-- IfThenElsePass.run -/
def iteM (f : Run) (p : Pred) (t : Tree) (e : Option Tree) (w : World) (s : St) : Option Res :=
  match evalPred p w s with
  | .error err => some (Res.fail [] s w err)
  | .ok (b, w, s) =>
    if b then f t w s
    else match e with
      | some e => f e w s
      | none => some (Res.skip w s)

/-- WhileLoopPass.run: one test, one body execution, then the loop again -/
def whileM (f : Run) (p : Pred) (b : Tree) (w : World) (s : St) : Option Res :=
  match evalPred p w s with
  | .error err => some (Res.fail [] s w err)
  | .ok (c, w, s) =>
    if !c then some (Res.skip w s)
    else match f b w s with
      | none => none
      | some r => r.andThen (f (.while p b))

/-- DoWhileLoopPass.run -/
def doWhileM (f : Run) (p : Pred) (b : Tree) (w : World) (s : St) : Option Res :=
  match f b w s with
  | none => none
  | some r => r.andThen (f (.while p b))

/-- the state DoThenDecide goes back to: `circuit.become(old_circuit)`, `data.become(old_data)`
with `old_data = data.copy()` taken before the body ran -/
def restore (env : Env) (old : St) (now : St) : St :=
  ⟨old.circ, now.data.becomeWith env.becomeFields (old.data.copyWith env.copyFields)⟩

/-- DoThenDecide.run -/
def dtdM (env : Env) (f : Run) (c : Cond) (body : Tree) (w : World) (s : St) : Option Res :=
  match f body w s with
  | none => none
  | some r =>
    match r.out with
    | .raised _ => some r
    | .ok =>
      match evalCond env c r.w s.circ r.st.circ with
      | .error err => some { r with out := .raised err }
      | .ok (accept, w') =>
        if accept then some { r with w := w' }
        else some { r with w := w', st := restore env s r.st }

/-- the branches ParallelDo waits for: all of them, or the first arrival batch of `runtime.next` -/
def arrivedOf (pickFirst : Bool) (n : Nat) (w : World) : Option (List Nat × World) :=
  if pickFirst then
    match w.arrivals with
    | a :: rest => some (a, { w with arrivals := rest })
    | [] => none
  else some (List.range n, w)

/-- what ParallelDo does once the awaited branches `jobs` have returned `rs`: fail if one raised,
else fold `less_than` over the results in arrival order and become the best -/
def parFinish (env : Env) (lt : Cond) (s : St) (idxs : List Nat) (jobs : List (Tree × Nat))
    (rs : List Res) (w2 : World) : Res :=
  let tr := jobTraces rs (List.range rs.length)
  -- results in arrival order
  let chosen := idxs.filterMap (fun i => ((jobs.zip rs).find? (fun jr => jr.1.2 == i)).map (·.2))
  match firstRaised rs with
  | some e => Res.fail tr s w2 e
  | none =>
    match chosen with
    | [] => Res.fail tr s w2 .runtime
    | first :: rest =>
      match pickBestM env lt w2 first rest with
      | .error e => Res.fail tr s w2 e
      | .ok (best, w3) =>
        ⟨tr, ⟨best.st.circ, s.data.becomeWith env.becomeFields best.st.data⟩, w3, .ok⟩

/-- ParallelDo.run.  With `pick_first` only the branches of the first arrival batch are awaited; the
others are cancelled and their results never looked at (the model does not run them). -/
def parM (env : Env) (f : Run) (ws : List Tree) (lt : Cond) (pickFirst : Bool) (w : World) (s : St) :
    Option Res :=
  match arrivedOf pickFirst ws.length w with
  | none => some (Res.fail [] s w .runtime)
  | some (idxs, w0) =>
    let jobs := ws.zipIdx.filter (fun (j : Tree × Nat) => idxs.contains j.2)
    match mapM' (fun w (j : Tree × Nat) => subDoWork f j.1 w s) w0 jobs with
    | none => none
    | some (rs, w2) => some (parFinish env lt s idxs jobs rs w2)

/-! ### ForEachBlockPass.run -/
def feUnknown (env : Env) (cfg : FECfg) : Bool :=
  match cfg.rfilter with
  | .named name => !(env.filters.any (·.1 == name))
  | .fn _ => false

/-- `if self.key not in data: data[self.key] = []` -/
def feRoom (s : St) : St :=
  if s.data.data.has feKey then s
  else { s with data := { s.data with data := s.data.data.put feKey (.list []) } }

/-- `data[self.key].append(v)` -/
def feAppendRec (d : PData) (v : Val) : PData :=
  match d.data.get? feKey with
  | some (.list l) => { d with data := d.data.put feKey (.list (l ++ [v])) }
  | _ => d

/-- "Collect blocks" -/
def feBlocks (env : Env) (bl : Blocks) (cfg : FECfg) (c : Circ) : List (Nat × Op) :=
  c.iterCyc.filter (fun (b : Nat × Op) => evalCollect env bl cfg.collect b.2)

/-- "Preprocess blocks" -/
def feJobs (bl : Blocks) (cfg : FECfg) (s0 : St) (blocks : List (Nat × Op)) : Except Err (List BlockJob) :=
  blocks.zipIdx.mapM (fun (b : (Nat × Op) × Nat) =>
    let sub := subCircuit bl b.1.2
    match subModel s0.data s0.circ b.1.2 with
    | none => .error .value
    | some sm =>
      match blockData s0.data b.2 b.1.1 b.1.2 sub sm cfg.calcErr with
      | .error e => .error e
      | .ok bd => .ok ⟨b.2, b.1.1, b.1.2, sub, bd⟩)

/-- the replace filter's verdict on the result of one block -/
def feAccept (env : Env) (cfg : FECfg) (model : MModel) (bl : Blocks) (new : Circ) (old : Op) :
    Option Bool :=
  match cfg.rfilter with
  | .fn i => some (env.rfilt i bl new old)
  | .named name => (env.filters.find? (·.1 == name)).map
      (fun e => e.2.eval model new old (bl.body? old.gid))

structure FEPost where
  w : World
  items : List ((Int × Int) × Op)
  recs : List Val
  esum : Rat

/-- "Postprocess blocks", one block -/
def fePostStep (env : Env) (cfg : FECfg) (model : MModel) (acc : FEPost) (jr : BlockJob × Res) : FEPost :=
  let new := jr.2.st.circ
  match feAccept env cfg model acc.w.blocks new jr.1.op with
  | none => acc
  | some true =>
    let ib := internBlock acc.w.blocks new
    let bd := { jr.2.st.data with data := jr.2.st.data.data.put "replaced" (Val.ofBool true) }
    { w := { acc.w with blocks := ib.1 },
      items := acc.items ++ [(((jr.1.cycle : Int), (jr.1.op.head : Int)), blockOpOf ib.2 new jr.1.op.loc)],
      recs := acc.recs ++ [encPData bd], esum := acc.esum + bd.error }
  | some false =>
    let bd := { jr.2.st.data with data := jr.2.st.data.data.put "replaced" (Val.ofBool false) }
    { acc with recs := acc.recs ++ [encPData bd] }

def fePost (env : Env) (cfg : FECfg) (model : MModel) (w1 : World) (jrs : List (BlockJob × Res)) : FEPost :=
  jrs.foldl (fePostStep env cfg model) ⟨w1, [], [], 0⟩

/-- what ForEachBlockPass does once the bodies have returned `rs`: fail if one raised, else
post-process, write back with `batch_replace`, record the block data, update the error -/
def feFinish (env : Env) (cfg : FECfg) (s0 : St) (jobs : List BlockJob) (rs : List Res) (w1 : World) :
    Res :=
  let tr := jobTraces rs (List.range rs.length)
  match firstRaised rs with
  | some e => Res.fail tr s0 w1 e
  | none =>
    let post := fePost env cfg s0.data.model w1 (jobs.zip rs)
    let cr := s0.circ.batchReplace post.items
    match cr.2 with
    | .error e => Res.fail tr { s0 with circ := cr.1 } post.w e
    | .ok () =>
      ⟨tr, ⟨cr.1, (feAppendRec s0.data (.list post.recs)).updateErrorMul post.esum⟩, post.w, .ok⟩

def forEachM (env : Env) (f : Run) (cfg : FECfg) (body : Tree) (w : World) (s : St) : Option Res :=
  if feUnknown env cfg then some (Res.fail [] s w .value) else    -- gen_replace_filter raises first
  let s0 := feRoom s
  let blocks := feBlocks env w.blocks cfg s0.circ
  if blocks.isEmpty then
    some ⟨[], { s0 with data := feAppendRec s0.data (.list []) }, w, .ok⟩
  else
    match feJobs w.blocks cfg s0 blocks with
    | .error e => some (Res.fail [] s0 w e)
    | .ok jobs =>
      match mapM' (fun w (j : BlockJob) => subDoWork f body w ⟨j.sub, j.bd⟩) w jobs with
      | none => none
      | some (rs, w1) => some (feFinish env cfg s0 jobs rs w1)

/-- ClearAllBlockData.run -/
def clearAllM (w : World) (s : St) : Res :=
  ⟨[], { s with data := { s.data with data := s.data.data.filter (fun e =>
      !(e.1.startsWith feKey) && !(e.1.startsWith passDownPrefix)) } }, w, .ok⟩

/-- one pass, given how its sub-passes run -/
def execStep (env : Env) (f : Run) : Run
  | .leaf i, w, s => some (leafM env i w s)
  | .seq ts, w, s => seqM f ts w s
  | .ite p t e, w, s => iteM f p t e w s
  | .while p b, w, s => whileM f p b w s
  | .doWhile p b, w, s => doWhileM f p b w s
  | .dtd c body, w, s => dtdM env f c body w s
  | .par ws lt pf, w, s => parM env f ws lt pf w s
  | .forEach cfg body, w, s => forEachM env f cfg body w s
  | .clearAll, w, s => some (clearAllM w s)

/-- the interpreter; `none` = out of fuel -/
def exec (env : Env) : Nat → Run
  | 0 => fun _ _ _ => none
  | fuel + 1 => execStep env (exec env fuel)

end BqVerif.Control
