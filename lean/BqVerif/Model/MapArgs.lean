import BqVerif.Model.Mailbox
/-!
# `Worker.map(fn, *args)` with several argument sequences

`for subargs in zip(*args): fnargs.append(...)` creates one task per tuple, i.e. as many tasks as
the SHORTEST argument sequence has elements; the mailbox is sized with `len(fnargs)` (not with
`len(args[0])`, which is only used to replicate `task_name` / `log_context`).
(Own file: `Model/Mailbox.lean` is imported by every proof of the runtime cluster.)
-/
namespace BqVerif.Runtime

/-- number of tasks `map` creates; `lens` = lengths of the argument sequences -/
def mapCount (lens : List Nat) : Nat :=
  match lens with
  | [] => 0
  | l :: ls => ls.foldl min l

/-- the DSL's map call: `pids` is one of the argument sequences (the child programs), `others`
    are the lengths of the other sequences; the tasks created run the first `mapCount` programs
    (an empty result is `.map []`, which raises 'Unable to map 0 tasks.') -/
def Instr.mapArgs (pids : List Nat) (others : List Nat) : Instr :=
  .map (pids.take (mapCount (pids.length :: others)))

end BqVerif.Runtime
