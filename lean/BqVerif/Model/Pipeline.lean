/-
Pipeline cluster (C01, C02, C03): a pass-contract calculus over the REAL workflow trees.

`translate/workflows.py` calls the real `bqskit.compiler.compile.build_workflow` on a grid of
configurations and serialises every returned `Workflow` object tree as a value of `Pass` below
(`Generated/Workflows.lean`).  This file holds

  * the syntax of workflow trees (`Pass`, `Pred`, `LeafKind`, `Opts`),
  * the abstract state `AState` (a product of "may" facts about the circuit and the `PassData`,
    ordered pointwise, join = pointwise or / interval hull),
  * the real truth definitions of the predicates over that abstract state (`aeval`, three-valued)
    and their refinements (`assume`),
  * one contract (`post`) per leaf pass class and the block enter/exit transfer of
    `ForEachBlockPass` (`feEnter`, `feExit`),
  * the abstract interpreter `ainterp` (loops: iterate to a post-fixpoint with fuel, the stability
    test is part of the definition; the result is `top` when the fuel runs out),
  * the postconditions `executable` (C02), `semOK` (C01/C03),
  * small pure transcriptions: `isCompatible` (MachineModel.is_compatible), `compileList`
    (the submit/collect loop of `compile` for list inputs).

No imports: the file is linked into `bqdriver` (machine `pipeline`, used by the harness to
evaluate `post` on the abstraction of REAL circuits while the real passes run: contract monitor).
-/
namespace BqVerif.Pipeline

/-! ## Syntax of workflow trees -/

/-- Leaf pass classes the calculus knows.  The translator fails loudly (exit 2) on any class that
is not listed here. -/
inductive LeafKind
  | unfold | extractMeasurements | restoreMeasurements | setModel | setTarget | setRandomSeed
  | log | logError | noop
  | quickPartitioner | extendBlockSize | groupSingleQuditGate
  | fillSingleQuditGates | autoRebase2Qudit | scanningGateRemoval
  | qsearch | leap
  | generalSQDecomposition | zxzxzDecomposition
  | extractModelConnectivity | restoreModelConnectivity
  | greedyPlacement | sabreLayout | sabreRouting | applyPlacement
  | pamLayout | pamRouting | subtopologySelection | embedAllPermutations | pas
  | tagPAMBlockData | unTagPAMBlockData | calculatePAMErrors
  deriving DecidableEq, Repr, Inhabited

/-- What a leaf can write into the circuit, classified against the configuration's machine model,
and whether it raises.  Obtained by the translator by RUNNING the leaf's effective layer generator
/ template generator / deterministic rule on a dummy input under the model (never from a table);
every leaf that calls `Circuit.instantiate` (QSearch, LEAP, ScanningGateRemoval, AutoRebase, the
permutation-aware wrappers) is itself run in-process on a dummy target of the kind (unitary /
state / state system) and the widths it sees, with its own cost generator and instantiate options:
a cost generator / minimizer mismatch, a gate set no instantiater accepts, a target type the leaf
cannot handle or a layer generator that cannot expand show up as `raise1` / `raiseN`. -/
structure Emit where
  sq : Bool := false      -- emits a single-qudit gate that is not native
  g2 : Bool := false      -- emits a two-qudit gate that is not native
  many : Bool := false    -- emits a >= 3-qudit gate that is not native
  nmany : Bool := false   -- emits a native >= 3-qudit gate
  fails : Bool := false   -- the dummy run of a deterministic rule / template generator raised
  raise1 : Bool := false  -- the REAL numeric leaf, run on a dummy one-qudit input, raised
  raiseN : Bool := false  -- ... on a dummy input of two or more qudits
  deriving DecidableEq, Repr, Inhabited

/-- `ScanningGateRemovalPass.collection_filter` / `ForEachBlockPass.collection_filter`. -/
inductive Coll | dflt | mq | sq | other
  deriving DecidableEq, Repr, Inhabited

/-- `ForEachBlockPass.replace_filter`. -/
inductive Repl
  | always | lessThan | lessThanMulti | lessThanMany
  | rsp | rspMulti | rspMany | rspFully | rspFullyMulti | rspFullyMany | custom
  deriving DecidableEq, Repr, Inhabited

def Repl.respecting : Repl → Bool
  | .rsp | .rspMulti | .rspMany | .rspFully | .rspFullyMulti | .rspFullyMany => true
  | _ => false

def Repl.fully : Repl → Bool
  | .rspFully | .rspFullyMulti | .rspFullyMany => true
  | _ => false

/-- Constructor options that matter to the calculus. -/
structure Opts where
  blockSize : Nat := 0       -- QuickPartitioner.block_size
  thrIsEps : Bool := false   -- success_threshold == the configuration's synthesis_epsilon
  explicitGen : Bool := false-- an explicit layer generator was passed
  emit : Emit := {}
  coll : Coll := .dflt
  repl : Repl := .always
  calcErr : Bool := false    -- ForEachBlockPass.calculate_error_bound
  flag : Bool := false       -- SetModelPass: model is the configuration's model;
                             -- SetTargetPass: target is the compile() input
  deriving DecidableEq, Repr, Inhabited

inductive Pred
  | width (w : Nat)                       -- circuit.num_qudits < w
  | multiPhysical | singlePhysical | physical
  | manyQudit (checkCircuit checkModel : Bool)
  | noSQInModel | hasGeneralSQ | zxGate | allConstantSQ
  | change | gateCount
  | not (p : Pred) | and (p q : Pred) | or (p q : Pred)
  deriving DecidableEq, Repr, Inhabited

/-- Workflow trees.  `seq` is binary (a `Workflow` list is right-nested, ending in `skip`) so that
every function below is structurally recursive.  `choice` is the image of ParallelDo /
DoThenDecide (one of the alternatives is kept); `wrap` is a pass that owns an inner synthesis pass
(EmbedAllPermutationsPass, PermutationAwareSynthesisPass). -/
inductive Pass
  | skip
  | leaf (k : LeafKind) (o : Opts)
  | seq (a b : Pass)
  | ifte (c : Pred) (t e : Pass)
  | while_ (c : Pred) (b : Pass)
  | dowhile (c : Pred) (b : Pass)
  | foreach (o : Opts) (b : Pass)
  | choice (a b : Pass)
  | wrap (k : LeafKind) (o : Opts) (inner : Pass)
  deriving DecidableEq, Repr, Inhabited

def Pass.size : Pass → Nat
  | .skip => 1
  | .leaf _ _ => 1
  | .seq a b => a.size + b.size + 1
  | .ifte _ t e => t.size + e.size + 1
  | .while_ _ b => b.size + 1
  | .dowhile _ b => b.size + 1
  | .foreach _ b => b.size + 1
  | .choice a b => a.size + b.size + 1
  | .wrap _ _ i => i.size + 1

/-! ## Configurations -/

inductive InputKind | circuit | unitary | state | system
  deriving DecidableEq, Repr, Inhabited

/-- Facts about the machine model of a configuration.  The four predicate facts are obtained by
calling the REAL predicate classes on the model. -/
structure ModelFacts where
  width : Nat := 0
  hasSQ : Bool := true          -- not NoSingleQuditGatesInModel
  hasGeneralSQ : Bool := true   -- HasGeneralSingleQuditGate
  zx : Bool := false            -- ZXGatePredicate
  allConstSQ : Bool := false    -- AllConstantSingleQuditGates
  has2 : Bool := true           -- a two-qudit native gate exists
  hasMany : Bool := false       -- a >= 3-qudit native gate exists
  minMQ : Nat := 2              -- size of the smallest multi-qudit native gate
  swapNative : Bool := false    -- SwapGate is native
  allToAll : Bool := true       -- the coupling graph is complete
  prefixCoupled : Bool := true  -- the first `input width` qudits induce a connected subgraph
  minCapable : Bool := true     -- `Minimization.is_capable` of a circuit of the model's own gates
  anyCapable : Bool := true     -- some instantiater of `instantiater_order` is capable of it
  deriving DecidableEq, Repr, Inhabited

structure Cfg where
  kind : InputKind := .circuit
  level : Nat := 1
  width : Nat := 2           -- width of the compile() input
  maxSynth : Nat := 3
  errThr : Bool := false     -- error_threshold is set
  m : ModelFacts := {}
  deriving DecidableEq, Repr, Inhabited

def Cfg.wider (c : Cfg) : Bool := c.width < c.m.width

/-- Named hypotheses the contracts rely on (measured on the end-to-end runs, never proved).
`numOK`: every search-based synthesis leaf returned a circuit within its success threshold.
`delOK`: single-qudit gate deletion for a model without single-qudit gates removed every
single-qudit gate. -/
structure Hyps where
  numOK : Bool := true
  delOK : Bool := true
  deriving DecidableEq, Repr, Inhabited

/-! ## Abstract state -/

/-- Every Boolean is a "may" fact: `true` = the situation is possible.  Content facts are about
the circuit flattened through its blocks unless said otherwise. -/
structure AState where
  f2 : Bool        -- a two-qudit gate that is not native
  fMany : Bool     -- a >= 3-qudit gate that is not native
  nMany : Bool     -- a native >= 3-qudit gate
  fSQ : Bool       -- a single-qudit gate that is not native
  ph : Bool        -- barrier / reset placeholders at this level
  meas : Bool      -- measurement placeholders in the circuit
  blocks : Bool    -- CircuitGates at this level
  nested : Bool    -- CircuitGates directly inside this level's CircuitGates
  deep : Bool      -- CircuitGates nested deeper than that
  looseSQ : Bool   -- single-qudit gates outside CircuitGates
  looseMQ : Bool   -- multi-qudit gates outside CircuitGates
  inLooseSQ : Bool -- single-qudit gates directly inside this level's CircuitGates
  inLooseMQ : Bool -- multi-qudit gates directly inside this level's CircuitGates
  uncoupled : Bool -- a multi-qudit gate on qudits the model (through the placement) does not couple
  narrow : Bool    -- circuit width differs from the model width (placement not applied)
  wLo : Nat        -- circuit width interval
  wHi : Nat
  blockHi : Nat    -- bound on the width of the CircuitGates at this level
  noModel : Bool   -- data.model is not the target model
  hidden : Bool    -- model connectivity replaced by all-to-all (ExtractModelConnectivityPass)
  vis : Bool       -- model connectivity is the real one (no pending extract)
  measPending : Bool -- measurements extracted and not yet restored
  measHazard : Bool  -- a mapping / synthesis pass ran on a circuit holding measurement placeholders
  tgtBad : Bool    -- data.target is not what the circuit is meant to implement
  circBad : Bool   -- the circuit may have left its meaning (beyond mappings and the eps ledger)
  mapped : Bool    -- initial/final mapping or placement may be non-trivial
  numeric : Bool   -- at least one eps-term was spent
  crash : Bool     -- a pass may raise
  pd2 : Bool       -- stored permutation-aware synthesis results may hold a foreign two-qudit gate
  pdMany : Bool    -- ... a foreign >= 3-qudit gate
  pdNMany : Bool   -- ... a native >= 3-qudit gate
  pdSQ : Bool      -- ... a foreign single-qudit gate
  deriving DecidableEq, Repr, Inhabited

/-- Widths above `cap` are identified (so that `top` absorbs every state). -/
def cap : Nat := 1000000

def AState.join (a b : AState) : AState where
  f2 := a.f2 || b.f2
  fMany := a.fMany || b.fMany
  nMany := a.nMany || b.nMany
  fSQ := a.fSQ || b.fSQ
  ph := a.ph || b.ph
  meas := a.meas || b.meas
  blocks := a.blocks || b.blocks
  nested := a.nested || b.nested
  deep := a.deep || b.deep
  looseSQ := a.looseSQ || b.looseSQ
  looseMQ := a.looseMQ || b.looseMQ
  inLooseSQ := a.inLooseSQ || b.inLooseSQ
  inLooseMQ := a.inLooseMQ || b.inLooseMQ
  uncoupled := a.uncoupled || b.uncoupled
  narrow := a.narrow || b.narrow
  wLo := min a.wLo b.wLo
  wHi := min cap (max a.wHi b.wHi)
  blockHi := min cap (max a.blockHi b.blockHi)
  noModel := a.noModel || b.noModel
  hidden := a.hidden || b.hidden
  vis := a.vis || b.vis
  measPending := a.measPending || b.measPending
  measHazard := a.measHazard || b.measHazard
  tgtBad := a.tgtBad || b.tgtBad
  circBad := a.circBad || b.circBad
  mapped := a.mapped || b.mapped
  numeric := a.numeric || b.numeric
  crash := a.crash || b.crash
  pd2 := a.pd2 || b.pd2
  pdMany := a.pdMany || b.pdMany
  pdNMany := a.pdNMany || b.pdNMany
  pdSQ := a.pdSQ || b.pdSQ

/-- Order of the domain: `a ≤ b` iff joining `a` into `b` changes nothing. -/
def AState.le (a b : AState) : Prop := a.join b = b

instance (a b : AState) : Decidable (a.le b) := by unfold AState.le; infer_instance

/-- "Anything may be the case": returned when a loop does not stabilise within the fuel. -/
def AState.top : AState where
  f2 := true
  fMany := true
  nMany := true
  fSQ := true
  ph := true
  meas := true
  blocks := true
  nested := true
  deep := true
  looseSQ := true
  looseMQ := true
  inLooseSQ := true
  inLooseMQ := true
  uncoupled := true
  narrow := true
  wLo := 0
  wHi := cap
  blockHi := cap
  noModel := true
  hidden := true
  vis := true
  measPending := true
  measHazard := true
  tgtBad := true
  circBad := true
  mapped := true
  numeric := true
  crash := true
  pd2 := true
  pdMany := true
  pdNMany := true
  pdSQ := true

/-- Abstract state at the start of `compile()`'s workflow.  A circuit input may contain anything
the input domain allows; unitary inputs arrive as `Circuit.from_unitary(U)` (a constant-unitary
operation, `PassData.target = U`), states and state systems as an empty circuit (target =
identity, not the user's target). -/
def init (c : Cfg) : AState :=
  match c.kind with
  | .circuit =>
    { f2 := decide (2 ≤ c.width), fMany := decide (3 ≤ c.width),
      nMany := c.m.hasMany && decide (3 ≤ c.width),
      fSQ := true, ph := true, meas := true, blocks := true, nested := true, deep := true,
      looseSQ := true, looseMQ := true, inLooseSQ := true, inLooseMQ := true,
      uncoupled := decide (2 ≤ c.width), narrow := true, wLo := c.width, wHi := c.width,
      blockHi := c.width,
      noModel := true, hidden := false, vis := true, measPending := false, measHazard := false,
      tgtBad := false, circBad := false, mapped := false, numeric := false, crash := false,
      pd2 := false, pdMany := false, pdNMany := false, pdSQ := false }
  | .unitary =>
    { f2 := decide (c.width = 2), fMany := decide (3 ≤ c.width), nMany := false,
      fSQ := decide (c.width = 1), ph := false, meas := false, blocks := false, nested := false,
      deep := false, looseSQ := true, looseMQ := true, inLooseSQ := false, inLooseMQ := false, uncoupled := true, narrow := true, wLo := c.width, wHi := c.width,
      blockHi := 0, noModel := true, hidden := false, vis := true, measPending := false,
      measHazard := false, tgtBad := false, circBad := false, mapped := false, numeric := false,
      crash := false,
      pd2 := false, pdMany := false, pdNMany := false, pdSQ := false }
  | _ =>
    { f2 := false, fMany := false, nMany := false, fSQ := false, ph := false, meas := false,
      blocks := false, nested := false, deep := false, looseSQ := false, looseMQ := false,
      inLooseSQ := false, inLooseMQ := false, uncoupled := false, narrow := true,
      wLo := c.width, wHi := c.width, blockHi := 0, noModel := true, hidden := false,
      vis := true, measPending := false, measHazard := false, tgtBad := true, circBad := true,
      mapped := false, numeric := false, crash := false,
      pd2 := false, pdMany := false, pdNMany := false, pdSQ := false }

/-! ## Predicates: three-valued truth and refinement -/

def not3 : Option Bool → Option Bool
  | some b => some (!b)
  | none => none

def and3 : Option Bool → Option Bool → Option Bool
  | some false, _ => some false
  | _, some false => some false
  | some true, some true => some true
  | _, _ => none

def or3 : Option Bool → Option Bool → Option Bool
  | some true, _ => some true
  | _, some true => some true
  | some false, some false => some false
  | _, _ => none

/-- Truth value of a predicate on every concrete state described by `a`, when determined.
Transcribes `get_truth_value` of the predicate classes: `WidthPredicate` compares
`circuit.num_qudits`; `MultiPhysicalPredicate` / `SinglePhysicalPredicate` look at the TOP-LEVEL
`circuit.gate_set` (a CircuitGate or a placeholder is a gate that is not native);
`ManyQuditGatesPredicate` looks at `gate_set_no_blocks` and at the model; the four model
predicates are facts of the configuration. -/
def aeval (c : Cfg) : Pred → AState → Option Bool
  | .width w, a => if a.wHi < w then some true else if w ≤ a.wLo then some false else none
  | .multiPhysical, a => if !a.f2 && !a.fMany && !a.blocks && !a.ph then some true else none
  | .singlePhysical, a =>
      if !a.fSQ && !a.blocks && !a.ph && !a.meas then some true else none
  | .physical, _ => none
  | .manyQudit cc cm, a =>
      if cm && c.m.hasMany then some true
      else if !cc then some false
      else if !a.fMany && !a.nMany && !a.ph then some false else none
  | .noSQInModel, _ => some (!c.m.hasSQ)
  | .hasGeneralSQ, _ => some c.m.hasGeneralSQ
  | .zxGate, _ => some c.m.zx
  | .allConstantSQ, _ => some c.m.allConstSQ
  | .change, _ => none
  | .gateCount, _ => none
  | .not p, a => not3 (aeval c p a)
  | .and p q, a => and3 (aeval c p a) (aeval c q a)
  | .or p q, a => or3 (aeval c p a) (aeval c q a)

/-- Refinement of `a` by the knowledge that the predicate evaluated to `b`. -/
def assume (c : Cfg) : Pred → Bool → AState → AState
  | .width w, true, a => { a with wHi := min a.wHi (w - 1) }
  | .width w, false, a => { a with wLo := max a.wLo w }
  | .multiPhysical, true, a =>
      if a.blocks then a else { a with f2 := false, fMany := false }
  | .singlePhysical, true, a => if a.blocks then a else { a with fSQ := false }
  | .manyQudit cc _cm, false, a =>
      if cc then { a with fMany := false, nMany := false } else a
  | .not p, b, a => assume c p (!b) a
  | .and p q, true, a => assume c q true (assume c p true a)
  | .or p q, false, a => assume c q false (assume c p false a)
  | _, _, a => a

/-! ## Leaf contracts -/

/-- The leaf raised in a dummy run at a width the abstract state allows. -/
def emitRaise (e : Emit) (a : AState) : Bool :=
  (e.raise1 && decide (a.wLo ≤ 1)) || (e.raiseN && decide (2 ≤ a.wHi))

/-- Contract of a search-based synthesis leaf (`SynthesisPass.run`: the circuit BECOMES
`synthesize(data.target)`): content = what the layer generator can emit; coupling is respected
w.r.t. the model the pass sees (so it may be violated when the connectivity is hidden and the
real graph is not complete); meaning = `data.target` (within the threshold when the search
succeeds: hypothesis `numOK`). -/
def postSynth (c : Cfg) (h : Hyps) (o : Opts) (a : AState) : AState :=
  { a with
    f2 := o.emit.g2, fMany := o.emit.many, nMany := o.emit.nmany, fSQ := o.emit.sq,
    ph := false, meas := false, blocks := false, nested := false, deep := false,
    looseSQ := true, looseMQ := true, inLooseSQ := false, inLooseMQ := false,
    uncoupled := (a.hidden && !c.m.allToAll) || a.noModel,
    measHazard := a.measHazard || a.meas,
    circBad := a.tgtBad || !h.numOK, numeric := true,
    crash := a.crash || o.emit.fails || emitRaise o.emit a }

def post (c : Cfg) (h : Hyps) (k : LeafKind) (o : Opts) (a : AState) : AState :=
  match k with
  | .unfold =>
      { a with blocks := false, nested := false, deep := false, looseSQ := true, looseMQ := true,
               inLooseSQ := false, inLooseMQ := false, blockHi := 0 }
  | .extractMeasurements => { a with meas := false, measPending := a.measPending || a.meas }
  | .restoreMeasurements =>
      { a with meas := a.meas || a.measPending, measPending := false }
  | .setModel =>
      { a with noModel := !o.flag, hidden := false, vis := true, narrow := a.wLo < c.m.width }
  | .setTarget => { a with tgtBad := !o.flag }
  | .setRandomSeed | .log | .logError | .noop | .subtopologySelection
  | .tagPAMBlockData | .unTagPAMBlockData | .calculatePAMErrors | .greedyPlacement => a
  | .quickPartitioner =>
      { a with blocks := true, nested := a.blocks, deep := a.nested || a.deep,
               looseSQ := false, looseMQ := false, inLooseSQ := a.looseSQ, inLooseMQ := a.looseMQ,
               blockHi := max o.blockSize c.maxSynth }
  | .extendBlockSize => { a with blockHi := max a.blockHi c.m.minMQ }
  | .groupSingleQuditGate =>
      { a with blocks := true, nested := a.nested, deep := a.deep, looseSQ := false,
               inLooseSQ := a.inLooseSQ || a.looseSQ, blockHi := max a.blockHi 1 }
  | .fillSingleQuditGates =>
      -- every single-qudit operation becomes the gate set's general single-qudit gate
      { a with fSQ := o.emit.sq, crash := a.crash || o.emit.fails || a.ph }
  | .autoRebase2Qudit =>
      -- terminates only when no foreign two-qudit gate is left at this level; each accepted
      -- template is within the threshold of data.target
      { a with f2 := o.emit.g2 || (a.blocks && a.f2), fSQ := a.fSQ || o.emit.sq,
               circBad := a.circBad || a.tgtBad, numeric := true,
               -- the templates are built unconditionally; `Circuit.instantiate` is only
               -- reached when a foreign two-qudit gate is there to be rebased
               crash := a.crash || o.emit.fails
                 || (o.emit.raiseN && a.f2 && decide (2 ≤ a.wHi)) }
  | .scanningGateRemoval =>
      { a with fSQ := if o.coll == .sq && !c.m.hasSQ && h.delOK then false else a.fSQ,
               circBad := a.circBad || a.tgtBad, numeric := true,
               crash := a.crash || emitRaise o.emit a }
  | .qsearch | .leap | .pas => postSynth c h o a
  | .generalSQDecomposition | .zxzxzDecomposition =>
      { a with fSQ := o.emit.sq, blocks := false, nested := false, deep := false,
               looseSQ := true, looseMQ := true, inLooseSQ := false, inLooseMQ := false,
               crash := a.crash || o.emit.fails || decide (1 < a.wHi) }
  | .extractModelConnectivity => { a with hidden := true, vis := false }
  | .restoreModelConnectivity => { a with hidden := false, vis := true, crash := a.crash || a.vis }
  | .sabreLayout | .pamLayout =>
      { a with mapped := true, measHazard := a.measHazard || a.meas }
  | .pamRouting =>
      -- every CircuitGate is replaced by a stored permutation-aware synthesis result (or kept when
      -- all its gates are native); SwapGates are inserted
      { a with f2 := a.pd2 || (a.looseMQ && a.f2) || (!c.m.swapNative && decide (3 ≤ a.wHi)),
               fMany := a.pdMany || (a.looseMQ && a.fMany),
               nMany := a.pdNMany || a.nMany, fSQ := a.pdSQ || a.fSQ,
               uncoupled := (a.hidden && !c.m.allToAll) || a.noModel
                 || ((a.pdNMany || a.pdMany || (a.looseMQ && (a.nMany || a.fMany)))
                     && !c.m.allToAll),
               mapped := true, tgtBad := true, measHazard := a.measHazard || a.meas }
  | .sabreRouting =>
      -- a >= 3-qudit gate is routed onto a CONNECTED set of qudits, which need not be pairwise
      -- coupled (is_compatible demands every pair of a location to be an edge)
      { a with f2 := a.f2 || (!c.m.swapNative && !c.m.allToAll && decide (3 ≤ a.wHi)),
               uncoupled := (a.hidden && !c.m.allToAll) || a.noModel
                 || ((a.nMany || a.fMany) && !c.m.allToAll),
               mapped := true, tgtBad := true, measHazard := a.measHazard || a.meas }
  | .applyPlacement =>
      { a with narrow := a.noModel, wLo := c.m.width, wHi := c.m.width, mapped := true,
               tgtBad := true, measHazard := a.measHazard || a.meas }
  | .embedAllPermutations => a

/-- Abstract states of the blocks `ForEachBlockPass` runs its body on.  A collected operation is
either a CircuitGate (first case: a fresh circuit whose operations are a part of the outer
circuit's; placeholders are never inside blocks made by the partitioners) or — with the default
collection filter, when gates may sit outside blocks — a bare constant / variable / Pauli unitary
operation turned into a one-operation circuit (a single-qudit one, or a multi-qudit one without
any single-qudit gate).  Each block gets a fresh `PassData`: target = the block's own unitary;
model = the sub-model on the block's qudits with the outer gate set and the outer (possibly
hidden) connectivity. -/
def feEnter (c : Cfg) (o : Opts) (a : AState) : List AState :=
  let base : AState :=
    { a with ph := false, meas := false, measPending := false, tgtBad := false, mapped := false,
             narrow := false }
  let blk : AState :=
    { base with blocks := a.nested, nested := a.deep, deep := a.deep,
                looseSQ := a.inLooseSQ, looseMQ := a.inLooseMQ,
                inLooseSQ := a.deep, inLooseMQ := a.deep, wLo := 1, wHi := max 1 a.blockHi }
  let one : AState :=
    { base with blocks := false, nested := false, deep := false, looseSQ := true, looseMQ := true,
                inLooseSQ := false, inLooseMQ := false }
  let sq1 : AState :=
    { one with f2 := false, fMany := false, nMany := false, uncoupled := false, wLo := 1, wHi := 1 }
  let mq1 : AState :=
    { one with fSQ := false, wLo := 2, wHi := max 2 (max c.maxSynth a.blockHi) }
  if o.coll == .dflt then
    [blk] ++ (if a.looseSQ then [sq1] else []) ++ (if a.looseMQ then [mq1] else [])
  else [blk, sq1, mq1]

def joinAll (d : AState) : List AState → AState
  | [] => d
  | [x] => x
  | x :: xs => x.join (joinAll d xs)

/-- Merge of the body results `r` (joined over the cases of `feEnter`) into the outer state.
Every collected block is either kept or replaced by its body result (`replace_filter`); a
"respecting" filter replaces unconditionally a block whose own multi-qudit gates are not all
native, so with such a filter — and when every multi-qudit gate sits in a collected block —
foreign multi-qudit gates survive only if the body leaves them. -/
def feExit (_c : Cfg) (h : Hyps) (o : Opts) (a r : AState) : AState :=
  let allMQ := !a.looseMQ && o.coll == .dflt
  let allSQ := !a.looseSQ && o.coll == .dflt
  let always := o.repl == .always
  let strict := o.repl.respecting
  { a with
    f2 := if allMQ && (strict || always) then r.f2 else a.f2 || r.f2,
    fMany := if allMQ && (strict || always) then r.fMany else a.fMany || r.fMany,
    nMany := if allMQ && always then r.nMany else a.nMany || r.nMany,
    fSQ := if allSQ && (always || (o.repl.respecting && !_c.m.hasSQ && h.delOK && !r.fSQ))
           then r.fSQ else a.fSQ || r.fSQ,
    uncoupled := if allMQ && always then r.uncoupled else a.uncoupled || r.uncoupled,
    blocks := true, nested := a.nested || r.blocks, deep := a.deep || r.nested || r.deep,
    inLooseSQ := a.inLooseSQ || r.looseSQ, inLooseMQ := a.inLooseMQ || r.looseMQ,
    measHazard := a.measHazard || r.measHazard,
    circBad := a.circBad || r.circBad,
    numeric := a.numeric || r.numeric,
    crash := a.crash || r.crash,
    pd2 := a.pd2 || r.pd2, pdMany := a.pdMany || r.pdMany, pdNMany := a.pdNMany || r.pdNMany,
    pdSQ := a.pdSQ || r.pdSQ }

/-- Outer effect of a pass that owns an inner synthesis pass, given the inner's abstract result
`r` on the outer state.  EmbedAllPermutationsPass only records circuits in the pass data;
PermutationAwareSynthesisPass returns the best permuted synthesis and writes the mappings. -/
def wrapExit (_c : Cfg) (k : LeafKind) (o : Opts) (a r : AState) : AState :=
  match k with
  | .pas => { r with mapped := true, crash := r.crash || emitRaise o.emit a }
  | _ => { a with crash := a.crash || r.crash || emitRaise o.emit a, pd2 := a.pd2 || r.f2, pdMany := a.pdMany || r.fMany,
                  pdNMany := a.pdNMany || r.nMany, pdSQ := a.pdSQ || r.fSQ }

/-! ## Abstract interpreter -/

/-- Kleene iteration with a stability test; `none` when the fuel runs out. -/
def iter : Nat → (AState → AState) → AState → Option AState
  | 0, _, _ => none
  | n + 1, f, a =>
      let a' := a.join (f a)
      if a' = a then some a else iter n f a'

def loopFuel : Nat := 12

def ainterp (c : Cfg) (h : Hyps) : Pass → AState → AState
  | .skip, a => a
  | .leaf k o, a => post c h k o a
  | .seq p q, a => ainterp c h q (ainterp c h p a)
  | .ifte pr t e, a =>
      match aeval c pr a with
      | some true => ainterp c h t (assume c pr true a)
      | some false => ainterp c h e (assume c pr false a)
      | none => (ainterp c h t (assume c pr true a)).join (ainterp c h e (assume c pr false a))
  | .while_ pr b, a =>
      match iter loopFuel (fun x => ainterp c h b (assume c pr true x)) a with
      | some inv => assume c pr false inv
      | none => AState.top
  | .dowhile pr b, a =>
      match iter loopFuel (fun x => assume c pr true (ainterp c h b x)) a with
      | some inv => assume c pr false (ainterp c h b inv)
      | none => AState.top
  | .foreach o b, a => feExit c h o a (joinAll a ((feEnter c o a).map (ainterp c h b)))
  | .choice p q, a => (ainterp c h p a).join (ainterp c h q a)
  | .wrap k o i, a => wrapExit c k o a (ainterp c h i a)

/-! ## Postconditions -/

/-- C02: the circuit can be executed on the target machine model. -/
def executable (a : AState) : Bool :=
  !a.f2 && !a.fMany && !a.fSQ && !a.blocks && !a.uncoupled && !a.narrow && !a.noModel
    && !a.hidden

/-- C02 without the width clause (what `MachineModel.is_compatible` itself demands). -/
def executableNarrow (a : AState) : Bool :=
  !a.f2 && !a.fMany && !a.fSQ && !a.blocks && !a.uncoupled && !a.noModel && !a.hidden

/-- C01 / C03: the circuit still means its target (up to the mappings and the eps-ledger),
measurements are back and were never exposed to a mapping pass. -/
def semOK (a : AState) : Bool :=
  !a.circBad && !a.measPending && !a.measHazard

structure WF where
  name : String
  cfg : Cfg
  pass : Pass
  deriving Repr, Inhabited

def WF.final (w : WF) (h : Hyps := {}) : AState := ainterp w.cfg h w.pass (init w.cfg)

/-! ## MachineModel.is_compatible (transcription) and its three-clause specification -/

/-- An operation as `is_compatible` sees it: its gate (as an id), whether that gate is a
`BarrierPlaceholder` / `MeasurementPlaceholder` / `Reset`, and its location. -/
structure OpView where
  gate : Nat
  ph : Bool
  loc : List Nat
  deriving DecidableEq, Repr, Inhabited

/-- A circuit as `is_compatible` sees it: radixes (their number is the width) and the operations
in `for op in circuit` order. -/
structure CircView where
  radixes : List Nat
  ops : List OpView

structure MachView where
  radixes : List Nat
  gates : List Nat
  edges : List (Nat × Nat)

/-- `CouplingGraph.__contains__` after `fix: 514190c`: orientation is ignored (a pair with an
index outside the graph is simply not an edge). -/
def coupled (m : MachView) (p : Nat × Nat) : Bool :=
  m.edges.any (fun e => (e.1 == p.1 && e.2 == p.2) || (e.1 == p.2 && e.2 == p.1))

/-- `itertools.combinations(location, 2)`. -/
def pairsOf : List Nat → List (Nat × Nat)
  | [] => []
  | x :: xs => xs.map (fun y => (x, y)) ++ pairsOf xs

/-- The qudit pairs the coupling clause visits, in its order: `for op in circuit if not
isinstance(op.gate, placeholders) for q0, q1 in it.combinations(op.location, 2)`. -/
def visitedPairs (cv : CircView) : List (Nat × Nat) :=
  (cv.ops.filter (fun o => !o.ph)).flatMap (fun o => pairsOf o.loc)

/-- `any((placement[q0], placement[q1]) not in self.coupling_graph for …)`: the generator is
consumed in order; `some true` = an uncoupled pair was met first, `none` = `placement[q]` raised
IndexError first. -/
def scanPairs (m : MachView) (pl : List Nat) : List (Nat × Nat) → Option Bool
  | [] => some false
  | (a, b) :: rest =>
    match pl[a]?, pl[b]? with
    | some x, some y => if coupled m (x, y) then scanPairs m pl rest else some true
    | _, _ => none

/-- `any(r != self.radixes[placement[i]] for i, r in enumerate(circuit.radixes))`, consumed in
order over `enumerate` (= `zipIdx`); `none` = an index raised first. -/
def scanRadix (m : MachView) (pl : List Nat) : List (Nat × Nat) → Option Bool
  | [] => some false
  | (r, i) :: rest =>
    match pl[i]? with
    | none => none
    | some p =>
      match m.radixes[p]? with
      | none => none
      | some mr => if r == mr then scanRadix m pl rest else some true

/-- `MachineModel.is_compatible(circuit, placement)` after `fix: 26675ef`, clause by clause in
the code's order: width; gate set (placeholders skipped); coupling of EVERY pair of qudits of
every non-placeholder operation through the placement; radixes.  `placement = none` is the code's
default `list(range(circuit.num_qudits))`.  `none` = the code raises IndexError. -/
def isCompatible (m : MachView) (cv : CircView) (placement : Option (List Nat)) : Option Bool :=
  if cv.radixes.length > m.radixes.length then some false
  else if cv.ops.any (fun o => !o.ph && !m.gates.contains o.gate) then some false
  else
    let pl := placement.getD (List.range cv.radixes.length)
    match scanPairs m pl (visitedPairs cv) with
    | none => none
    | some true => some false
    | some false =>
      match scanRadix m pl cv.radixes.zipIdx with
      | none => none
      | some true => some false
      | some false => some true

/-! ## The submit / collect loop of `compile()` for a list of inputs -/

/-- `job_ids = [compiler.submit(c, w) for c, w in zip(in_circuits, workflows)]`,
`results = [compiler.result(j) for j in job_ids]`: `submit` hands out fresh ids and stores the
task, `result` looks the id up.  `run` is what the compiler computes for a task. -/
def submitAll {α : Type} (next : Nat) : List α → List (Nat × α) → List Nat × List (Nat × α)
  | [], store => ([], store)
  | t :: ts, store =>
      let r := submitAll (next + 1) ts ((next, t) :: store)
      (next :: r.1, r.2)

def lookup {α : Type} (store : List (Nat × α)) (j : Nat) : Option α :=
  (store.find? (fun p => p.1 == j)).map (·.2)

def compileList {α β : Type} (run : α → β) (next : Nat) (tasks : List α) : List (Option β) :=
  let r := submitAll next tasks []
  r.1.map (fun j => (lookup r.2 j).map run)

/-! ## Measurements and mappings (transcription of passes/measure.py, passes/mapping/apply.py) -/

/-- `[f(x) for x in l]` where `f` may raise. -/
def mapOpt {α β : Type} (f : α → Option β) : List α → Option (List β)
  | [] => some []
  | x :: xs =>
    match f x, mapOpt f xs with
    | some y, some ys => some (y :: ys)
    | _, _ => none

/-- `RestoreMeasurements`: `{pi[q]: c for q, c in measurements.items()}` with
`pi = data.final_mapping` (an index outside the mapping raises: `none`). -/
def restoreMeas (fm : List Nat) (ms : List (Nat × Nat)) : Option (List (Nat × Nat)) :=
  mapOpt (fun p => (fm[p.1]?).map (fun q => (q, p.2))) ms

/-- `ApplyPlacement`: `data.final_mapping = [placement[p] for p in data.final_mapping]`. -/
def applyPlacementMap (placement fm : List Nat) : Option (List Nat) :=
  mapOpt (fun p => placement[p]?) fm

end BqVerif.Pipeline
