/-! # OpenQASM 2 lexer model (C17)

Transcribes the terminals of `bqskit/ir/lang/qasm2/parser.py` (Lark grammar):

```
ID: /[a-zA-Z][A-Za-z0-9_]*/
REAL:/([0-9]+(\.[0-9]*)?|\.[0-9]+)([eE][-+]?[0-9]+)?/
NNINTEGER: /[1-9]+[0-9]*|0/
COMMENT: /\/\/+.*/          %ignore WS, COMMENT
```

plus the keyword / punctuation strings that occur in the rules.  A string terminal that is
fully matched by `ID` wins over `ID` (Lark's `UnlessCallback`), so `qreg` is a keyword and
`qregx` an identifier.  Abstraction (recorded in design_notes/C17.md): Lark's *contextual*
lexer only knows the keywords acceptable in the current parser state, so a keyword may be
used as an identifier in some positions (`qreg pi[2];`); the model classifies keywords
globally, i.e. identifiers equal to a keyword are outside the model's domain.  Numeric
tokens are kept as text (`Tok.num`); the parser decides whether the text is a valid
`NNINTEGER` where the grammar asks for one.  No imports. -/
namespace BqVerif.Qasm

inductive Tok where
  | id (s : String)
  | num (s : String)
  | str (s : String)
  | kw (s : String)
  | sym (s : String)
  deriving Repr, DecidableEq, Inhabited

def keywords : List String :=
  ["OPENQASM", "include", "qreg", "creg", "barrier", "barrierp", "gate", "opaque", "if",
   "measure", "reset", "U", "CX", "pi", "sin", "cos", "tan", "EXP", "ln", "sqrt"]

def isDigit (c : Char) : Bool := '0' ≤ c && c ≤ '9'
def isIdStart (c : Char) : Bool := ('a' ≤ c && c ≤ 'z') || ('A' ≤ c && c ≤ 'Z')
def isIdChar (c : Char) : Bool := isIdStart c || isDigit c || c == '_'
def isWs (c : Char) : Bool := c == ' ' || c == '\t' || c == '\n' || c == '\r' || c == '\x0c'

/-- longest prefix satisfying `p`, and the rest -/
def spanP (p : Char → Bool) : List Char → List Char × List Char
  | [] => ([], [])
  | c :: cs => if p c then let (a, b) := spanP p cs; (c :: a, b) else ([], c :: cs)

theorem spanP_length (p : Char → Bool) (l : List Char) :
    (spanP p l).2.length ≤ l.length := by
  induction l with
  | nil => simp [spanP]
  | cons c cs ih =>
    unfold spanP
    split
    · simp only; simp; omega
    · simp

/-- optional exponent `[eE][-+]?[0-9]+` (taken only when complete, as a regex would) -/
def lexExponent (cs : List Char) : List Char × List Char :=
  match cs with
  | e :: rest =>
    if e == 'e' || e == 'E' then
      let (sign, rest') := match rest with
        | s :: r => if s == '-' || s == '+' then ([s], r) else ([], rest)
        | [] => ([], [])
      let (ds, rest'') := spanP isDigit rest'
      if ds.isEmpty then ([], cs) else (e :: sign ++ ds, rest'')
    else ([], cs)
  | [] => ([], [])

/-- REAL at the head of `cs` (first char a digit, or `.` followed by a digit). -/
def lexReal (cs : List Char) : Option (List Char × List Char) :=
  match cs with
  | '.' :: rest =>
    let (fr, r) := spanP isDigit rest
    if fr.isEmpty then none else
      let (ex, r') := lexExponent r
      some ('.' :: fr ++ ex, r')
  | c :: _ =>
    if isDigit c then
      let (ip, r) := spanP isDigit cs
      let (fp, r') := match r with
        | '.' :: r1 => let (fr, r2) := spanP isDigit r1; ('.' :: fr, r2)
        | _ => ([], r)
      let (ex, r'') := lexExponent r'
      some (ip ++ fp ++ ex, r'')
    else none
  | [] => none

def symbols2 : List (Char × Char) := [('=', '='), ('-', '>')]
def symbols1 : List Char := [';', ',', '(', ')', '[', ']', '{', '}', '+', '-', '*', '/', '^']

/-- One lexer step: `none` = lexical error, `some (none, rest)` = skipped ws/comment. -/
def lexStep (cs : List Char) : Option (Option Tok × List Char) :=
  match cs with
  | [] => none
  | c :: rest =>
    if isWs c then some (none, rest)
    else if c == '/' && rest.head? == some '/' then
      some (none, (spanP (· != '\n') rest).2)
    else if isIdStart c then
      let (w, r) := spanP isIdChar rest
      let s := String.ofList (c :: w)
      some (some (if keywords.contains s then .kw s else .id s), r)
    else if isDigit c || (c == '.' && (rest.head?.map isDigit).getD false) then
      (lexReal cs).map fun (w, r) => (some (.num (String.ofList w)), r)
    else if c == '"' then
      let (w, r) := spanP (fun x => x != '"' && x != '\n') rest
      match r with
      | '"' :: r' => some (some (.str (String.ofList w)), r')
      | _ => none
    else match rest with
      | d :: r' =>
        if symbols2.contains (c, d) then some (some (.sym (String.ofList [c, d])), r')
        else if symbols1.contains c then some (some (.sym (String.ofList [c])), rest)
        else none
      | [] => if symbols1.contains c then some (some (.sym (String.ofList [c])), []) else none

def lexAux : Nat → List Char → List Tok → Option (List Tok)
  | _, [], acc => some acc.reverse
  | 0, _ :: _, _ => none
  | f + 1, cs, acc =>
    match lexStep cs with
    | none => none
    | some (some t, r) => lexAux f r (t :: acc)
    | some (none, r) => lexAux f r acc

/-- Tokens of a program text; `none` on a lexical error. Every step consumes ≥ 1 char, so
`length + 1` fuel always suffices (the only way to run out is a step that does not consume). -/
def lex (s : String) : Option (List Tok) := lexAux (s.length + 1) s.toList []

def Tok.show : Tok → String
  | .id s => "ID:" ++ s
  | .num s => "NUM:" ++ s
  | .str s => "STR:" ++ s
  | .kw s => "KW:" ++ s
  | .sym s => "SYM:" ++ s

end BqVerif.Qasm
