import BqVerif.Model.QasmElab
/-! # What an OpenQASM 2 program of the subset MEANS (reference elaboration, C17)

Same statements, same operations as `QasmElab` — but written from the language definition,
not from the code:

* an expression is read with its parentheses (`flattenSpec`), all six functions exist,
  formal parameters are BOUND in the tree (`Env`), never spliced into text;
* `name[i]` requires `i < size name`;
* any list of registers / qubits is read element-wise;
* `reset name;` resets the register that is named; `measure name[i] -> c[j];` records the
  circuit qubit;
* a user gate body keeps its parameter expressions as trees; a call instantiates the body under
  the binding formals ↦ actual values, recursively;
* `if (…) …` is outside the subset: rejected (`specDecodeToks`).

The run compares this elaboration with the independent Python reference (`c17_gen.Ref`) on every
generated program; `Props/C17.lean` proves that the reader (`QasmElab`) agrees with it on
programs that avoid the constructs the reader gets wrong. -/
namespace BqVerif.Qasm

variable {V : Type}

/-- binding of formal parameter names to values -/
abbrev Env (V : Type) := String → Option V

/-- formals `ps` bound to the actual values `vs` (first occurrence of a repeated formal) -/
def formalEnv (ps : List String) (vs : List V) : Env V :=
  fun s => if ps.contains s then vs[ps.idxOf s]? else none

/-- the empty binding (top-level expressions) -/
def noEnv : Env V := fun _ => none

/-- value of a tree whose free names are bound by `σ`; every function of the language exists -/
def PE.evalEnvSpec (A : Arith V) (σ : Env V) : PE V → Option V
  | .lit s => (parsePyLit s).map fun (m, e) => A.ofLit m e
  | .val v => some v
  | .name s => match σ s with
    | some v => some v
    | none => if s = "pi" then some A.pi else none
  | .neg e => (e.evalEnvSpec A σ).map A.neg
  | .bin op l r =>
    match l.evalEnvSpec A σ, r.evalEnvSpec A σ with
    | some a, some b =>
      some (match op with
        | .add => A.add a b | .sub => A.sub a b | .mul => A.mul a b | .div => A.div a b)
    | _, _ => none
  | .pow a b =>
    match a.evalEnvSpec A σ, b.evalEnvSpec A σ with
    | some x, some y => some (A.pow x y)
    | _, _ => none
  | .call f e => (e.evalEnvSpec A σ).map (A.fn f)

/-- the value of an expression (as Lark parsed it) under a binding: parentheses respected -/
def exprValue (A : Arith V) (σ : Env V) (q : QE V) : Option V :=
  (pyParse (flattenSpec A q)).bind (PE.evalEnvSpec A σ)

/-! ## registers -/

/-- `name[i]` (with `i` inside the register) or a whole register -/
def argIndicesS (rs : Regs) (a : Arg) : Option (List Nat) :=
  match a.idx with
  | some i =>
    match firstIndex rs a.name, regSize rs a.name with
    | some o, some sz => if i < sz then some [o + i] else none
    | _, _ => none
  | none => regIndices rs a.name

def anylistS (rs : Regs) (as : List Arg) : Option (List Nat) :=
  (as.mapM (argIndicesS rs)).map List.flatten

/-! ## gates -/

mutual
/-- a gate of the table, or a user gate: formal names, number of qubits, body statements with
their parameter expressions as trees -/
inductive SDef (V : Type) where
  | builtin (b : BuiltinDef)
  | custom (name : String) (formals : List String) (nv : Nat) (body : List (SBody V))
inductive SBody (V : Type) where
  | mk (g : SDef V) (loc : List Nat) (ps : List (QE V))
end

def SDef.np : SDef V → Nat
  | .builtin b => b.np
  | .custom _ formals _ _ => formals.length
def SDef.nv : SDef V → Nat
  | .builtin b => b.nv
  | .custom _ _ nv _ => nv

mutual
/-- a gate applied to a location with actual parameter values -/
def buildS (A : Arith V) : SDef V → List Nat → List V → Option (Op V)
  | .builtin b, loc, vs => mkPrim A b loc vs
  | .custom name formals nv body, loc, vs =>
    match buildBodyS A nv (formalEnv formals vs) body with
    | some ops => if nodup loc && loc.length == nv then some (.block name nv ops loc) else none
    | none => none
def buildBodyS (A : Arith V) (nv : Nat) (σ : Env V) : List (SBody V) → Option (List (Op V))
  | [] => some []
  | .mk g loc ps :: rest =>
    match ps.mapM (exprValue A σ) with
    | some sub =>
      (match buildS A g loc sub with
       | some op =>
         if op.loc.all (· < nv) then
           (match buildBodyS A nv σ rest with
            | some ops => some (op :: ops)
            | none => none)
         else none
       | none => none)
    | none => none
end

/-! ## statements -/

structure SSt (V : Type) where
  table : List BuiltinDef := []
  qregs : Regs := []
  cregs : Regs := []
  customs : List (String × SDef V) := []
  ops : List (Op V) := []

/-- table gates first, then user gates (as the reader does; redefining a table gate is outside
the subset) -/
def SSt.lookup (s : SSt V) (name : String) : Option (SDef V) :=
  match lookupBuiltin s.table name with
  | some b => some (.builtin b)
  | none => (s.customs.find? (·.1 == name)).map (·.2)

def elabCallS (A : Arith V) (s : SSt V) : GCall V → Option (Op V)
  | .gate name params args =>
    match params.mapM (exprValue A noEnv) with
    | some vs =>
      (match anylistS s.qregs args with
       | some loc =>
         if !nodup loc then none else
         (match s.lookup name with
          | some g =>
            if vs.length == g.np && loc.length == g.nv then buildS A g loc vs else none
          | none => none)
       | none => none)
    | none => none
  | .u params a =>
    match params.mapM (exprValue A noEnv), a.idx, argIndicesS s.qregs a,
          lookupBuiltin s.table "U" with
    | some vs, some _, some loc, some b => mkPrim A b loc vs
    | _, _, _, _ => none
  | .cx a b =>
    match a.idx, b.idx, argIndicesS s.qregs a, argIndicesS s.qregs b,
          lookupBuiltin s.table "CX" with
    | some _, some _, some la, some lb, some d =>
      if la == lb then none else mkPrim A d (la ++ lb) []
    | _, _, _, _, _ => none

def elabBodyCallS (s : SSt V) (qubits : List String) : GCall V → Option (SBody V)
  | .gate name params args =>
    if args.any (·.idx.isSome) then none else
    (match args.mapM (fun a => idxOf? qubits a.name) with
     | some loc =>
       (match s.lookup name with
        | some g =>
          if params.length == g.np && loc.length == g.nv then some (.mk g loc params) else none
        | none => none)
     | none => none)
  | .u params a =>
    match idxOf? qubits a.name, lookupBuiltin s.table "U" with
    | some q, some b => some (.mk (.builtin b) [q] params)
    | _, _ => none
  | .cx a b =>
    match idxOf? qubits a.name, idxOf? qubits b.name, lookupBuiltin s.table "CX" with
    | some x, some y, some d => if x == y then none else some (.mk (.builtin d) [x, y] [])
    | _, _, _ => none

def elabBodyS (s : SSt V) (qubits : List String) : List (BStmt V) → Option (List (SBody V))
  | [] => some []
  | .barrier :: rest => elabBodyS s qubits rest
  | .call c :: rest =>
    match elabBodyCallS s qubits c with
    | some b => (elabBodyS s qubits rest).map (b :: ·)
    | none => none

/-- `measure a -> c`: whole registers of equal size, or one qubit to one bit; the recorded
key is the circuit qubit -/
def elabMeasureS (s : SSt V) (q c : Arg) : Option (Op V) :=
  match argIndicesS s.qregs q with
  | none => none
  | some loc =>
    match regSize s.qregs q.name, regSize s.cregs c.name with
    | some qsz, some csz =>
      (match q.idx, c.idx with
       | none, none =>
         if qsz != csz then none else
         some (.measure loc ((List.range qsz).map fun i => (loc.getD i 0, c.name, i)))
       | some _, some j => some (.measure loc [(loc.getD 0 0, c.name, j)])
       | _, _ => none)
    | _, _ => none

/-- `reset a`: every qubit `a` names -/
def elabResetS (s : SSt V) (q : Arg) : Option (List (Op V)) :=
  (argIndicesS s.qregs q).map fun l => l.map .reset

def elabStmtS (A : Arith V) (s : SSt V) : Stmt V → Option (SSt V)
  | .incl _ => some s
  | .opaqueDecl => some s
  | .qreg n k => if s.qregs.any (·.1 == n) then none else some { s with qregs := s.qregs ++ [(n, k)] }
  | .creg n k => if s.cregs.any (·.1 == n) then none else some { s with cregs := s.cregs ++ [(n, k)] }
  | .gatedecl name ps qs body =>
    (elabBodyS s qs body).map fun b =>
      { s with customs := (name, .custom name ps qs.length b) :: s.customs }
  | .call c => (elabCallS A s c).map fun op => { s with ops := op :: s.ops }
  | .measure q c => (elabMeasureS s q c).map fun op => { s with ops := op :: s.ops }
  | .reset q => (elabResetS s q).map fun l => { s with ops := l.reverse ++ s.ops }
  | .barrier as =>
    match anylistS s.qregs as with
    | some loc => if nodup loc then some { s with ops := .barrier loc :: s.ops } else none
    | none => none

def elabStmtsS (A : Arith V) (s : SSt V) : List (Stmt V) → Option (SSt V)
  | [] => some s
  | st :: rest => (elabStmtS A s st).bind fun s' => elabStmtsS A s' rest

def finishS (s : SSt V) : Option (Decoded V) :=
  let n := totalSize s.qregs
  let ops := s.ops.reverse
  if n == 0 then none
  else if ops.all (fun o => !o.loc.isEmpty && o.loc.all (· < n)) then some ⟨n, s.cregs, ops⟩
  else none

/-- the meaning of a program (token string) of the subset; `if` is not in the subset -/
def specDecodeToks (A : Arith V) (table : List BuiltinDef) (ts : List Tok) : Option (Decoded V) :=
  if ts.contains (.kw "if") then none
  else (parseProgram ts).bind fun ss => (elabStmtsS A { table := table } ss).bind finishS

def specDecode (A : Arith V) (table : List BuiltinDef) (src : String) : Option (Decoded V) :=
  (lex src).bind (specDecodeToks A table)

end BqVerif.Qasm
