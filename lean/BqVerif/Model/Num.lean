/-
Exact numbers for RUNNING models (DESIGN.md section 3.2): the field
`ℚ(i)[√2] = ℚ(ζ₈)` on core `Rat`, and dense matrices over it.

  `Q8 a b c d`  means  `a + b·i + c·√2 + d·i·√2`.

It contains every 8th root of unity (`(1+i)/√2 = ⟨0,0,1/2,1/2⟩`), hence every
entry of the Clifford+T style constant gates, and every rational point
`(c, s) = ((1-t²)/(1+t²), 2t/(1+t²))` of the unit circle, hence the value of a
rotation gate at such an angle.  Import-free, total, executable.  Shared by
C06, C10, C18, C19: nothing here is specific to one property and nothing here
is used inside a proof (proofs are over an arbitrary commutative *-ring).

Printing: a number is four rationals `p/q p/q p/q p/q` (denominator always
written, sign on the numerator), a matrix is `n m e00 e01 …` (row major).
-/
namespace BqVerif.Num

structure Q8 where
  a : Rat   -- 1
  b : Rat   -- i
  c : Rat   -- √2
  d : Rat   -- i√2
deriving DecidableEq, Inhabited

namespace Q8

def ofRat (q : Rat) : Q8 := ⟨q, 0, 0, 0⟩
def ofInt (z : Int) : Q8 := ofRat z
def ofNat (n : Nat) : Q8 := ofRat n

def zero : Q8 := ⟨0, 0, 0, 0⟩
def one : Q8 := ⟨1, 0, 0, 0⟩
/-- the imaginary unit -/
def I : Q8 := ⟨0, 1, 0, 0⟩
/-- `√2` -/
def sqrt2 : Q8 := ⟨0, 0, 1, 0⟩
/-- `1/√2 = √2/2` -/
def invSqrt2 : Q8 := ⟨0, 0, 1/2, 0⟩
/-- `1/2` -/
def half : Q8 := ⟨1/2, 0, 0, 0⟩
/-- `ζ₈ = e^{iπ/4} = (1+i)/√2` -/
def zeta8 : Q8 := ⟨0, 0, 1/2, 1/2⟩

instance : OfNat Q8 n := ⟨ofNat n⟩
instance : Zero Q8 := ⟨zero⟩
instance : NatCast Q8 := ⟨ofNat⟩
instance : IntCast Q8 := ⟨ofInt⟩

def add (x y : Q8) : Q8 := ⟨x.a + y.a, x.b + y.b, x.c + y.c, x.d + y.d⟩
def neg (x : Q8) : Q8 := ⟨-x.a, -x.b, -x.c, -x.d⟩
def sub (x y : Q8) : Q8 := ⟨x.a - y.a, x.b - y.b, x.c - y.c, x.d - y.d⟩

/-- product with `i² = -1`, `(√2)² = 2` -/
def mul (x y : Q8) : Q8 :=
  ⟨x.a * y.a - x.b * y.b + 2 * x.c * y.c - 2 * x.d * y.d,
   x.a * y.b + x.b * y.a + 2 * x.c * y.d + 2 * x.d * y.c,
   x.a * y.c + x.c * y.a - x.b * y.d - x.d * y.b,
   x.a * y.d + x.d * y.a + x.b * y.c + x.c * y.b⟩

/-- complex conjugation (`i ↦ -i`, `√2 ↦ √2`) -/
def conj (x : Q8) : Q8 := ⟨x.a, -x.b, x.c, -x.d⟩

/-- the other real automorphism (`√2 ↦ -√2`), used for the inverse -/
def conj2 (x : Q8) : Q8 := ⟨x.a, x.b, -x.c, -x.d⟩

def smulRat (q : Rat) (x : Q8) : Q8 := ⟨q * x.a, q * x.b, q * x.c, q * x.d⟩

instance : Add Q8 := ⟨add⟩
instance : Neg Q8 := ⟨neg⟩
instance : Sub Q8 := ⟨sub⟩
instance : Mul Q8 := ⟨mul⟩

/-- `|x|² = x·conj x`, an element of `ℚ(√2)` (its `b`, `d` parts vanish) -/
def normSq (x : Q8) : Q8 := x * x.conj

/-- multiplicative inverse, `0⁻¹ = 0`.  `x⁻¹ = conj x · conj2 N / (N·conj2 N)`
with `N = x·conj x ∈ ℚ(√2)` and `N·conj2 N ∈ ℚ`. -/
def inv (x : Q8) : Q8 :=
  let n := x.normSq
  let q := (n * n.conj2).a
  if q = 0 then zero else smulRat (1 / q) (x.conj * n.conj2)

instance : Inv Q8 := ⟨inv⟩
instance : Div Q8 := ⟨fun x y => x * y.inv⟩

def isReal (x : Q8) : Bool := x.b == 0 && x.d == 0
def isRational (x : Q8) : Bool := x.b == 0 && x.c == 0 && x.d == 0

def pow (x : Q8) : Nat → Q8
  | 0 => one
  | n + 1 => pow x n * x

instance : HPow Q8 Nat Q8 := ⟨pow⟩

def showRat (q : Rat) : String := s!"{q.num}/{q.den}"

/-- `p/q p/q p/q p/q` -/
def show4 (x : Q8) : String :=
  s!"{showRat x.a} {showRat x.b} {showRat x.c} {showRat x.d}"

instance : ToString Q8 := ⟨show4⟩
instance : Repr Q8 := ⟨fun x _ => show4 x⟩

/-- parse `p/q` or `p` -/
def parseRat? (s : String) : Option Rat :=
  match s.splitOn "/" with
  | [p] => p.toInt?.map (fun z => (z : Rat))
  | [p, q] => do
    let z ← p.toInt?
    let n ← q.toNat?
    if n = 0 then none else some (mkRat z n)
  | _ => none

/-- parse four tokens -/
def parse4? : List String → Option Q8
  | [a, b, c, d] => do
    let a ← parseRat? a; let b ← parseRat? b
    let c ← parseRat? c; let d ← parseRat? d
    some ⟨a, b, c, d⟩
  | _ => none

end Q8

/-! ### Dense matrices over any type with ring operations

`Mat α` is row-major `Array (Array α)`; all operations are total (ragged or
mismatching shapes are handled by `getD` with `0`; callers that need shape
errors check `Mat.wf`/dimensions first). -/

abbrev Mat (α : Type) := Array (Array α)

namespace Mat
variable {α : Type}

def rows (m : Mat α) : Nat := m.size
def cols (m : Mat α) : Nat := (m.getD 0 #[]).size
def wf (m : Mat α) (r c : Nat) : Bool := m.size == r && m.all (·.size == c)
def isSquare (m : Mat α) : Bool := wf m m.rows m.rows

def tabulate (r c : Nat) (f : Nat → Nat → α) : Mat α :=
  Array.ofFn (n := r) fun i => Array.ofFn (n := c) fun j => f i.val j.val

section ring
variable [Add α] [Mul α] [OfNat α 0] [OfNat α 1]

def get (m : Mat α) (i j : Nat) : α := (m.getD i #[]).getD j 0

def zero (r c : Nat) : Mat α := tabulate r c fun _ _ => 0
def identity (n : Nat) : Mat α := tabulate n n fun i j => if i = j then 1 else 0

def add (x y : Mat α) : Mat α :=
  tabulate x.rows x.cols fun i j => x.get i j + y.get i j

def sumTo (n : Nat) (f : Nat → α) : α := (List.range n).foldl (fun s k => s + f k) 0

/-- matrix product (inner dimension `x.cols`) -/
def mul (x y : Mat α) : Mat α :=
  tabulate x.rows y.cols fun i j => sumTo x.cols fun k => x.get i k * y.get k j

def scale (s : α) (x : Mat α) : Mat α := x.map (·.map (s * ·))

def transpose (x : Mat α) : Mat α := tabulate x.cols x.rows fun i j => x.get j i

/-- Kronecker product, `np.kron` index convention -/
def kron (x y : Mat α) : Mat α :=
  let (p, q) := (y.rows, y.cols)
  tabulate (x.rows * p) (x.cols * q) fun i j =>
    x.get (i / p) (j / q) * y.get (i % p) (j % q)

def trace (x : Mat α) : α := sumTo x.rows fun k => x.get k k

def pow (x : Mat α) : Nat → Mat α
  | 0 => identity x.rows
  | n + 1 => mul (pow x n) x

end ring

def neg [Neg α] (x : Mat α) : Mat α := x.map (·.map (- ·))
def sub [Sub α] [OfNat α 0] (x y : Mat α) : Mat α :=
  tabulate x.rows x.cols fun i j => (x.getD i #[]).getD j 0 - (y.getD i #[]).getD j 0

def beq [BEq α] (x y : Mat α) : Bool :=
  x.size == y.size && (x.zip y).all fun (r, s) => r.size == s.size && (r.zip s).all fun (a, b) => a == b

/-- `rows cols e00 e01 …` with the entry printer `f` -/
def showWith (f : α → String) (m : Mat α) : String :=
  let n := m.size
  let c := (m.getD 0 #[]).size
  let body := m.foldl (fun acc r => r.foldl (fun acc e => acc ++ " " ++ f e) acc) ""
  s!"{n} {c}{body}"

end Mat

/-! ### `Q8` matrices -/
abbrev QMat := Mat Q8

namespace QMat
def conj (x : QMat) : QMat := x.map (·.map Q8.conj)
/-- conjugate transpose -/
def dagger (x : QMat) : QMat := (Mat.transpose x).map (·.map Q8.conj)
def isIdentity (x : QMat) : Bool := Mat.beq x (Mat.identity x.rows)
/-- `U·U† = 1` exactly -/
def isUnitary (x : QMat) : Bool := Mat.isSquare x && isIdentity (Mat.mul x (dagger x))
def toString (x : QMat) : String := Mat.showWith Q8.show4 x
end QMat

/-- rational point of the unit circle with parameter `t`:
`((1-t²)/(1+t²), 2t/(1+t²))` -/
def circlePoint (t : Rat) : Rat × Rat :=
  let d := 1 + t * t
  ((1 - t * t) / d, 2 * t / d)

end BqVerif.Num
