/-! C10 — `TreeScanningGateRemovalPass.get_tree_circs` AS IT IS, on the cycle grid: this model keeps
the cycle-index arithmetic (`idx_shift = orig_num_cycles − circ.num_cycles`, `new_cycle = cycle −
idx_shift`) and `Circuit.pop`'s behaviour (Python-style negative cycle indices, IndexError for an
out-of-range or idle point, removal of a cycle that becomes empty), so it reproduces the defect of
the right-to-left scan (known finding): the shift is only meaningful when the emptied cycles lie
before the operation. -/
namespace BqVerif.AcceptGrid

structure GOp where
  tag : Nat
  loc : List Nat
  deriving DecidableEq, Repr

/-- Cycles in order; a cycle is the list of its operations (pairwise disjoint locations). -/
abbrev Grid := List (List GOp)

def numOps (g : Grid) : Nat := (g.map List.length).foldl (· + ·) 0

/-- `Circuit.pop((cycle, qudit))`; `none` = IndexError. -/
def pop (g : Grid) (cyc : Int) (q : Nat) : Option Grid :=
  let n : Int := g.length
  if cyc < -n ∨ cyc ≥ n then none else
  let c : Nat := (if cyc < 0 then n + cyc else cyc).toNat
  match g[c]? with
  | none => none
  | some cy =>
    match cy.find? (fun o => o.loc.contains q) with
    | none => none                                   -- idle point
    | some o =>
      let cy' := cy.filter (fun x => x.tag != o.tag)
      if cy'.isEmpty then some (g.eraseIdx c) else some (g.set c cy')

/-- One chunk element: the cycle index in the ORIGINAL circuit and the op's first qudit. -/
structure ChunkOp where
  cycle : Nat
  qudit : Nat
  deriving Repr

/-- The loop of `get_tree_circs` before sorting; `none` as soon as one `pop` raises. -/
def treeCircs (orig : Nat) (g : Grid) : List ChunkOp → Option (List Grid)
  | [] => some [g]
  | chunk => chunk.foldl (fun all co =>
      match all with
      | none => none
      | some all =>
        all.foldl (fun acc circ =>
          match acc with
          | none => none
          | some acc =>
            let shift : Int := (orig : Int) - (circ.length : Int)
            match pop circ ((co.cycle : Int) - shift) co.qudit with
            | none => none
            | some w => some (acc ++ [w, circ])) (some [])) (some [g])

def insertBySize (c : Grid) : List Grid → List Grid
  | [] => [c]
  | d :: t => if numOps d < numOps c then d :: insertBySize c t else c :: d :: t

/-- `get_tree_circs`: stable sort by number of operations, last one dropped. -/
def getTreeCircs (orig : Nat) (g : Grid) (chunk : List ChunkOp) : Option (List Grid) :=
  (treeCircs orig g chunk).map fun l => (l.foldr insertBySize []).dropLast

def tags (g : Grid) : List Nat := (g.flatMap id).map (·.tag)

end BqVerif.AcceptGrid
