/-! C10 — `TreeScanningGateRemovalPass.get_tree_circs` AS IT IS (after fix 513afaa), on the cycle
grid: this model keeps the cycle-index arithmetic (`idx_shift = orig_num_cycles − circ.num_cycles`,
`new_cycle = cycle − idx_shift if start_from_left else cycle`) and `Circuit.pop`'s behaviour
(Python-style negative cycle indices, IndexError for an out-of-range or idle point, removal of a
cycle that becomes empty). `Proofs/AcceptGrid.lean` proves that in both scan directions every pop
removes exactly the operation the iteration is looking at and never raises. -/
namespace BqVerif.AcceptGrid

structure GOp where
  tag : Nat
  loc : List Nat
  deriving DecidableEq, Repr

/-- Cycles in order; a cycle is the list of its operations (pairwise disjoint locations). -/
abbrev Grid := List (List GOp)

def numOps (g : Grid) : Nat := (g.map List.length).foldl (· + ·) 0

/-- `Circuit.pop((cycle, qudit))`; `none` = IndexError. -/
def pop (g : Grid) (cyc : Int) (q : Nat) : Option Grid :=
  let n : Int := g.length
  if cyc < -n ∨ cyc ≥ n then none else
  let c : Nat := (if cyc < 0 then n + cyc else cyc).toNat
  match g[c]? with
  | none => none
  | some cy =>
    match cy.find? (fun o => o.loc.contains q) with
    | none => none                                   -- idle point
    | some o =>
      let cy' := cy.filter (fun x => x.tag != o.tag)
      if cy'.isEmpty then some (g.eraseIdx c) else some (g.set c cy')

/-- One chunk element: the cycle index in the ORIGINAL circuit and the op's first qudit. -/
structure ChunkOp where
  cycle : Nat
  qudit : Nat
  deriving Repr

/-- `work_copy.pop((new_cycle, op.location[0]))` with the code's `new_cycle`. -/
def popShift (left : Bool) (orig : Nat) (circ : Grid) (co : ChunkOp) : Option Grid :=
  pop circ ((co.cycle : Int) - (if left then (orig : Int) - (circ.length : Int) else 0)) co.qudit

/-- Body of the inner loop over `all_circs`: `new_circs.append(work_copy); new_circs.append(circ)`;
`none` as soon as one `pop` raises. -/
def stepOne (left : Bool) (orig : Nat) (co : ChunkOp) (acc : Option (List Grid)) (circ : Grid) :
    Option (List Grid) :=
  match acc with
  | none => none
  | some acc =>
    match popShift left orig circ co with
    | none => none
    | some w => some (acc ++ [w, circ])

def stepAll (left : Bool) (orig : Nat) (co : ChunkOp) (all : List Grid) : Option (List Grid) :=
  all.foldl (stepOne left orig co) (some [])

/-- The loop of `get_tree_circs` before sorting. -/
def treeCircs (left : Bool) (orig : Nat) (g : Grid) (chunk : List ChunkOp) : Option (List Grid) :=
  chunk.foldl (fun all co => all.bind (stepAll left orig co)) (some [g])

def insertBySize (c : Grid) : List Grid → List Grid
  | [] => [c]
  | d :: t => if numOps d < numOps c then d :: insertBySize c t else c :: d :: t

/-- `get_tree_circs`: stable sort by number of operations, last one dropped. -/
def getTreeCircs (left : Bool) (orig : Nat) (g : Grid) (chunk : List ChunkOp) :
    Option (List Grid) :=
  (treeCircs left orig g chunk).map fun l => (l.foldr insertBySize []).dropLast

def tags (g : Grid) : List Nat := (g.flatMap id).map (·.tag)

/-- The circuit `g` with the operations tagged in `D` deleted (emptied cycles disappear). -/
def del (D : List Nat) (g : Grid) : Grid :=
  (g.map fun cy => cy.filter fun x => !D.contains x.tag).filter fun cy => !cy.isEmpty

/-- The deletion sets `get_tree_circs` is meant to produce, in the code's order. -/
def subsetsCode (D0 : List Nat) (chunkTags : List Nat) : List (List Nat) :=
  chunkTags.foldl (fun ds t => ds.flatMap fun D => [t :: D, D]) [D0]

end BqVerif.AcceptGrid
