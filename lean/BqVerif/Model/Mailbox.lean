/-!
# Worker machine of the BQSKit runtime (bqskit/runtime/worker.py), coarse atomicity

Transcribes `WorkerMailbox` (new_mailbox, ready, deposit_result, get_new_results) and the
`Worker` methods `_add_task`, `_handle_result`, `_handle_cancel`, `_get_next_ready_task`,
`_try_step_next_ready_task`, `_process_await`, `_process_task_completion`,
`_get_desired_result`, `submit`, `map`, `cancel`, `next`, `recv_incoming` at handler
granularity: one delivery or one loop iteration is one function application.

Task bodies are programs of the DSL shared with `harness/runtime_sim.py`.
Values are flat token lists (`Val := List Nat`), the same encoding as `runtime_sim.tok`.
No imports (the driver executable links this file).
-/
namespace BqVerif.Runtime

abbrev Val := List Nat

/-- `RuntimeAddress(worker_id, mailbox_index, mailbox_slot)`; also the unique task id. -/
structure Addr where
  w : Int
  m : Nat
  s : Nat
deriving DecidableEq, Repr, Inhabited

inductive Instr where
  | sub (p : Nat)
  | map (ps : List Nat)
  | await (k : Nat)
  | next (k : Nat)
  | cancel (k : Nat)
  | raise
  | ret
deriving DecidableEq, Repr, Inhabited

abbrev Prog := List Instr
abbrev Table := List Prog

/-- error classes reported in ERROR messages -/
def eDslRaise : Nat := 1
def eAwaitGone : Nat := 2      -- RuntimeError 'Cannot await on a canceled task.'
def eNextGone : Nat := 3       -- RuntimeError 'Cannot wait on an already completed result.'
def eCancelGone : Nat := 4     -- KeyError in Worker.cancel
def eAssert : Nat := 5         -- AssertionError
def eKey : Nat := 6            -- KeyError
def eRuntime : Nat := 7        -- other RuntimeError (coroutine reuse, map of 0 tasks)
def eIndex : Nat := 8          -- IndexError
def eValue : Nat := 9          -- ValueError

/-- `WorkerMailbox` -/
structure Box where
  single : Bool                       -- expecting_single_result
  expected : Nat                      -- expected_num_results
  slots : List (Option Val)           -- result: [v] for single, one entry per slot for map
  num : Nat                           -- num_results
  dest : Option Addr                  -- dest_addr
  fresh : Option (List (Nat × Val))   -- fresh_results (None until the first deposit)
deriving DecidableEq, Repr, Inhabited

def Box.ready (b : Box) : Bool := decide (b.expected ≤ b.num) && b.num != 0

/-- `WorkerMailbox.new_mailbox(num_results)` -/
def Box.new : Option Nat → Box
  | none => { single := true, expected := 1, slots := [], num := 0, dest := none, fresh := none }
  | some n => { single := false, expected := n, slots := List.replicate n none, num := 0,
                dest := none, fresh := none }

/-- `deposit_result` -/
def Box.deposit (b : Box) (slot : Nat) (v : Val) : Box :=
  { b with num := b.num + 1,
           fresh := some ((b.fresh.getD []) ++ [(slot, v)]),
           slots := if b.single then [some v] else b.slots.set slot (some v) }

def encOpt : Option Val → Val
  | some v => v
  | none => [9]

/-- the value handed to an awaiting task: `box.result` -/
def Box.value (b : Box) : Val :=
  if b.single then encOpt (b.slots.headD none)
  else [1, b.slots.length] ++ (b.slots.map encOpt).flatten

def encBatch (l : List (Nat × Val)) : Val :=
  [2, l.length] ++ (l.map (fun p => p.1 :: p.2)).flatten

/-- a `RuntimeTask` (delayed or started) together with the state of its coroutine -/
structure Task where
  addr : Addr                  -- return_address = unique_id
  comp : Nat                   -- comp_task_id
  crumbs : List Addr           -- breadcrumbs
  prog : Nat
  tag : List Nat
  pc : Nat := 0
  futs : List Nat := []        -- mailbox ids of the futures the body created, in order
  seen : List Val := []
  desired : Option Nat := none -- desired_box_id
  wakeNext : Bool := false     -- wake_on_next
  owned : List Nat := []       -- owned_mailboxes
  live : Bool := true          -- the coroutine can still be resumed
  started : Bool := false      -- the body has been entered
  atAwait : Bool := false      -- suspended in `await` (pc points at the await / next)
deriving DecidableEq, Repr, Inhabited

/-- `is_descendant_of` -/
def Task.descOf (t : Task) (a : Addr) : Bool := a == t.addr || t.crumbs.contains a

inductive Msg where
  | submit (t : Task)
  | batch (ts : List Task)
  | result (a : Addr) (v : Val) (by_ : Int)
  | error (comp : Nat) (cls : Nat)
  | sysError (cls : Nat)
  | cancel (a : Addr)
  | waiting (n : Int) (r : Option Addr)
  | update (d : Int)
  | shutdown
  | eof
  -- client → server
  | cSubmit (ci : Nat) (pid : Nat)
  | cRequest (ci : Nat)
  | cStatus (ci : Nat)
  | cCancel (ci : Nat)
  | cDisconnect
  -- server → client
  | sResult (v : Val)
  | sStatus (st : Nat)
  | sCancelAck
  | sError (cls : Nat)
deriving DecidableEq, Repr, Inhabited

/-- what task bodies observe (compared with the execution log of the real bodies) -/
inductive Ev where
  | start (a : Addr) (tag : List Nat)
  | spawn (tag : List Nat) (k : Nat) (m : Nat)
  | saw (tag : List Nat) (k : Nat) (v : Val)
  | cancel (tag : List Nat) (k : Nat)
  | raise (tag : List Nat)
  | ret (a : Addr) (tag : List Nat) (v : Val)
deriving DecidableEq, Repr

structure Worker where
  id : Int
  tasks : List Task := []            -- _tasks (insertion order)
  delayed : List Task := []          -- _delayed_tasks
  ready : List Addr := []            -- _ready_task_ids
  cancelled : List Addr := []        -- _cancelled_task_ids
  boxes : List (Nat × Box) := []     -- _mailboxes
  counter : Nat := 0                 -- _mailbox_counter
  receipt : Option Addr := none      -- most_recent_read_submit
  alive : Bool := true               -- process exists
  mainDead : Bool := false           -- Worker._loop stopped (exception outside task code)
  inDead : Bool := false             -- incoming thread died with an exception
  blocked : Bool := false            -- main thread blocked in `_ready_task_ids.get()`
deriving Repr, Inhabited

-- ------------------------------------------------------------------ tables
def boxGet (bs : List (Nat × Box)) (m : Nat) : Option Box :=
  match bs with
  | [] => none
  | (k, b) :: t => if k = m then some b else boxGet t m

def boxErase (bs : List (Nat × Box)) (m : Nat) : List (Nat × Box) :=
  bs.filter (fun p => p.1 != m)

def boxSet (bs : List (Nat × Box)) (m : Nat) (b : Box) : List (Nat × Box) :=
  match bs with
  | [] => [(m, b)]
  | (k, x) :: t => if k = m then (k, b) :: t else (k, x) :: boxSet t m b

def taskGet (ts : List Task) (a : Addr) : Option Task := ts.find? (fun t => t.addr == a)
def taskErase (ts : List Task) (a : Addr) : List Task := ts.filter (fun t => t.addr != a)
def taskSet (ts : List Task) (t : Task) : List Task :=
  ts.map (fun x => if x.addr == t.addr then t else x)

-- ------------------------------------------------------------- incoming thread
/-- `_add_task`: `task.start()` only creates the coroutine object -/
def Worker.addTask (w : Worker) (t : Task) : Worker :=
  { w with tasks := taskErase w.tasks t.addr ++ [t], ready := w.ready ++ [t.addr] }

/-- `_handle_result` -/
def Worker.handleResult (w : Worker) (a : Addr) (v : Val) : Worker :=
  if a.w ≠ w.id then { w with inDead := true }            -- assert
  else match boxGet w.boxes a.m with
  | none => w                                              -- dropped mailbox: ignore
  | some b =>
    let b1 := b.deposit a.s v
    match b1.dest with
    | none => { w with boxes := boxSet w.boxes a.m b1 }
    | some d =>
      match taskGet w.tasks d with
      | none => { w with boxes := boxSet w.boxes a.m b1, inDead := true }   -- KeyError
      | some t =>
        if t.wakeNext || b1.ready then
          { w with boxes := boxSet w.boxes a.m { b1 with dest := none },
                   ready := w.ready ++ [d] }
        else { w with boxes := boxSet w.boxes a.m b1 }

def eraseBoxes (bs : List (Nat × Box)) (ms : List Nat) : List (Nat × Box) :=
  bs.filter (fun p => !ms.contains p.1)

/-- `_handle_cancel` -/
def Worker.handleCancel (w : Worker) (a : Addr) : Worker :=
  let dead := w.tasks.filter (·.descOf a)
  { w with cancelled := if w.cancelled.contains a then w.cancelled else w.cancelled ++ [a],
           tasks := w.tasks.filter (fun t => !t.descOf a),
           boxes := eraseBoxes w.boxes (dead.map (·.owned)).flatten,
           delayed := w.delayed.filter (fun t => !t.descOf a) }

/-- does `_handle_cancel` hit `self._mailboxes.pop(mailbox_id)` with a missing id (KeyError)? -/
def Worker.cancelWouldRaise (w : Worker) (a : Addr) : Bool :=
  ((w.tasks.filter (·.descOf a)).map (·.owned)).flatten.any (fun m => (boxGet w.boxes m).isNone)

/-- one iteration of `recv_incoming` -/
def Worker.recv (w : Worker) (msg : Msg) : Worker :=
  match msg with
  | .shutdown => { w with alive := false }
  | .eof => { w with alive := false }
  | .submit t => { (w.addTask t) with receipt := some t.addr }
  | .batch ts =>
    match ts.getLast? with
    | none => { w with inDead := true }                    -- tasks[0] IndexError
    | some last =>
      let w1 := { w with receipt := ts.head?.map (fun (x : Task) => x.addr) }
      let w2 := w1.addTask last
      { w2 with delayed := w2.delayed ++ ts.dropLast }
  | .result a v _ => w.handleResult a v
  | .cancel a =>
    if w.cancelWouldRaise a then { (w.handleCancel a) with inDead := true } else w.handleCancel a
  | _ => w

-- ------------------------------------------------------------------ main thread
/-- result of `_get_next_ready_task` -/
structure Picked where
  w : Worker
  out : List Msg
  task : Option Task

/-- `_get_next_ready_task`; `fuel` bounds the `while True` loop (each iteration consumes a
    ready entry or a delayed task). -/
def Worker.pick : Nat → Worker → Picked
  | 0, w => { w := w, out := [], task := none }
  | fuel + 1, w =>
    match w.ready with
    | [] =>
      match w.delayed.getLast? with
      | some t => Worker.pick fuel ({ w with delayed := w.delayed.dropLast }.addTask t)
      | none =>
        { w := { w with blocked := true }, out := [Msg.waiting 1 w.receipt], task := none }
    | a :: rest =>
      let w1 := { w with ready := rest }
      if w1.cancelled.contains a then Worker.pick fuel w1
      else match taskGet w1.tasks a with
      | none => Worker.pick fuel w1
      | some t =>
        if t.crumbs.any (fun c => w1.cancelled.contains c) then
          -- `self._tasks.pop(addr).cancel()`: a task that arrived after the CANCEL of an
          -- ancestor will never run; forget it
          Worker.pick fuel { w1 with tasks := taskErase w1.tasks a }
        else { w := w1, out := [], task := some t }

def Worker.pickFuel (w : Worker) : Nat := 2 * (w.ready.length + w.delayed.length) + 2

inductive Outcome where
  | awaitF (m : Nat) (nxt : Bool)
  | done (v : Val)
  | err (cls : Nat) (isRuntimeError : Bool)
deriving Repr

structure Run where
  w : Worker
  t : Task
  out : List Msg
  evs : List Ev

def mkChild (w : Worker) (t : Task) (m slot p k : Nat) : Task :=
  { addr := ⟨w.id, m, slot⟩, comp := t.comp, crumbs := t.crumbs ++ [t.addr], prog := p,
    tag := t.tag ++ [k, slot] }

def enumFrom {α} : Nat → List α → List (Nat × α)
  | _, [] => []
  | i, x :: xs => (i, x) :: enumFrom (i + 1) xs

/-- `Worker.cancel(future)` on mailbox `m` (caller checked it exists) -/
def Run.cancelBox (r : Run) (m : Nat) (b : Box) : Run :=
  { r with w := { r.w with boxes := boxErase r.w.boxes m },
           t := { r.t with owned := r.t.owned.erase m },
           out := r.out ++ (List.range b.expected).map (fun i => Msg.cancel ⟨r.w.id, m, i⟩) }

/-- run the coroutine until it yields a future, returns or raises -/
def runBody (tbl : Table) : Nat → Run → Run × Outcome
  | 0, r => (r, .err eRuntime true)
  | fuel + 1, r =>
    let t := r.t
    match (tbl.getD t.prog []).getD t.pc .ret with
    | .sub p =>
      let m := r.w.counter
      let k := t.futs.length
      let child := mkChild r.w t m 0 p k
      runBody tbl fuel
        { r with w := { r.w with counter := m + 1, boxes := r.w.boxes ++ [(m, Box.new none)] },
                 t := { t with owned := t.owned ++ [m], futs := t.futs ++ [m], pc := t.pc + 1 },
                 out := r.out ++ [Msg.submit child],
                 evs := r.evs ++ [Ev.spawn t.tag k m] }
    | .map ps =>
      if ps.isEmpty then (r, .err eRuntime true)
      else
        let m := r.w.counter
        let k := t.futs.length
        let kids := (enumFrom 0 ps).map (fun ip => mkChild r.w t m ip.1 ip.2 k)
        runBody tbl fuel
          { r with w := { r.w with counter := m + 1,
                                   boxes := r.w.boxes ++ [(m, Box.new (some ps.length))] },
                   t := { t with owned := t.owned ++ [m], futs := t.futs ++ [m], pc := t.pc + 1 },
                   out := r.out ++ [Msg.batch kids],
                   evs := r.evs ++ [Ev.spawn t.tag k m] }
    | .await k =>
      match t.futs[k]? with
      | none => (r, .err eIndex false)
      | some m => ({ r with t := { t with atAwait := true } }, .awaitF m false)
    | .next k =>
      match t.futs[k]? with
      | none => (r, .err eIndex false)
      | some m =>
        match boxGet r.w.boxes m with
        | none => (r, .err eNextGone true)
        | some _ => ({ r with t := { t with atAwait := true } }, .awaitF m true)
    | .cancel k =>
      match t.futs[k]? with
      | none => (r, .err eIndex false)
      | some m =>
        let r1 := { r with evs := r.evs ++ [Ev.cancel t.tag k] }
        match boxGet r.w.boxes m with
        | none => (r1, .err eCancelGone false)
        | some b =>
          if !t.owned.contains m then (r1, .err eValue false)
          else
            let r2 := r1.cancelBox m b
            runBody tbl fuel { r2 with t := { r2.t with pc := t.pc + 1 } }
    | .raise => ({ r with evs := r.evs ++ [Ev.raise t.tag] }, .err eDslRaise false)
    | .ret =>
      let v : Val := [0, t.tag.length] ++ t.tag ++ [t.prog, t.seen.length] ++ t.seen.flatten
      ({ r with evs := r.evs ++ [Ev.ret t.addr t.tag v] }, .done v)

/-- the clean-up loop at the end of `_process_task_completion`:
    `for mailbox_id in list(self._active_task.owned_mailboxes):` - over a copy of the list,
    so every open future is either released (ready) or cancelled. -/
def completionLoop : List Nat → Run → Run × Bool
  | [], r => (r, false)
  | m :: ms, r =>
    match boxGet r.w.boxes m with
    | some b =>
      if b.ready then
        completionLoop ms { r with w := { r.w with boxes := boxErase r.w.boxes m } }
      else completionLoop ms (r.cancelBox m b)
    | none => (r, true)             -- Worker.cancel: self._mailboxes[...] KeyError

/-- `_process_task_completion` up to the clean-up loop: ship the result (locally: deposit it
    and tell the boss with UPDATE(-1)), remove the task from `_tasks` -/
def completionEnter (r : Run) (v : Val) : Run :=
  if r.t.addr.w = r.w.id then
    { r with w := { (r.w.handleResult r.t.addr v) with
                    tasks := taskErase (r.w.handleResult r.t.addr v).tasks r.t.addr },
             out := r.out ++ [Msg.update (-1)] }
  else
    { r with w := { r.w with tasks := taskErase r.w.tasks r.t.addr },
             out := r.out ++ [Msg.result r.t.addr v r.w.id] }

/-- `_process_task_completion`; the Bool says "raised outside task code" -/
def processCompletion (r : Run) (v : Val) : Run × Bool :=
  match taskGet r.w.tasks r.t.addr with
  | none => (r, false)
  | some _ => completionLoop r.t.owned (completionEnter r v)

/-- `_process_await`; `none` = RuntimeError('Cannot await on a canceled task.') -/
def processAwait (r : Run) (m : Nat) (nxt : Bool) : Option Run :=
  match boxGet r.w.boxes m with
  | none => none
  | some b =>
    let b1 := { b with dest := some r.t.addr }
    let t1 := { r.t with desired := some m, wakeNext := nxt }
    let w1 := { r.w with boxes := boxSet r.w.boxes m b1 }
    some { r with t := t1,
                  w := if b1.ready then { w1 with ready := w1.ready ++ [t1.addr] } else w1 }

/-- `_get_desired_result`: the value sent into the coroutine (`Except` = exception class) -/
def desiredResult (w : Worker) (t : Task) : Except Nat (Worker × Task × Option Val) :=
  match t.desired with
  | none => .ok (w, t, none)
  | some m =>
    match boxGet w.boxes m with
    | none => .error eKey
    | some b =>
      if t.wakeNext then
        match b.fresh with
        | none => .error eAssert
        | some fr => .ok ({ w with boxes := boxSet w.boxes m { b with fresh := some [] } }, t,
                          some (encBatch fr))
      else if !b.ready then .error eAssert
      else if !t.owned.contains m then .error eValue
      else .ok ({ w with boxes := boxErase w.boxes m }, { t with owned := t.owned.erase m },
                some b.value)

structure StepOut where
  w : Worker
  out : List Msg
  evs : List Ev

/-- error path of `_try_step_next_ready_task` (`except Exception`) -/
def bubbleErr (w : Worker) (t : Task) (out : List Msg) (evs : List Ev) (cls : Nat) (isRt : Bool) :
    StepOut :=
  let t1 := { t with live := false }
  let w1 := { w with tasks := taskSet w.tasks t1 }
  if isRt && w.cancelled.any (fun a => t.descOf a) then { w := w1, out := out, evs := evs }
  else { w := w1, out := out ++ [Msg.error t.comp cls], evs := evs }

/-- which future index a task is suspended on -/
def Task.awaitedK (tbl : Table) (t : Task) : Nat :=
  match (tbl.getD t.prog []).getD t.pc .ret with
  | .await k => k
  | .next k => k
  | _ => 0

/-- `task.step(send_val)` up to the point where the coroutine resumes: reset the await flags,
    hand the awaited value to the body -/
def resume (tbl : Table) (t1 : Task) (val : Option Val) : Task × List Ev :=
  let t2 := { t1 with wakeNext := false, desired := none, started := true }
  let evs0 : List Ev := if t1.started then [] else [Ev.start t1.addr t1.tag]
  if t1.atAwait then
    ({ t2 with seen := t2.seen ++ [val.getD [9]], pc := t2.pc + 1, atAwait := false },
     evs0 ++ [Ev.saw t2.tag (t2.awaitedK tbl) (val.getD [9])])
  else (t2, evs0)

/-- what `_try_step_next_ready_task` does after the coroutine stopped -/
def finishStep (r : Run) : Outcome → StepOut
  | .awaitF m nxt =>
    match processAwait r m nxt with
    | some r1 => { w := { r1.w with tasks := taskSet r1.w.tasks r1.t }, out := r1.out, evs := r1.evs }
    | none =>
      -- raised outside the coroutine: the body stays suspended for ever
      if r.w.cancelled.any (fun a => r.t.descOf a) then
        { w := { r.w with tasks := taskSet r.w.tasks r.t }, out := r.out, evs := r.evs }
      else
        { w := { r.w with tasks := taskSet r.w.tasks r.t },
          out := r.out ++ [Msg.error r.t.comp eAwaitGone], evs := r.evs }
  | .done v =>
    if (processCompletion r v).2 then
      { w := { (processCompletion r v).1.w with mainDead := true },
        out := (processCompletion r v).1.out ++ [Msg.sysError eKey],
        evs := (processCompletion r v).1.evs }
    else { w := (processCompletion r v).1.w, out := (processCompletion r v).1.out,
           evs := (processCompletion r v).1.evs }
  | .err cls isRt => bubbleErr r.w r.t r.out r.evs cls isRt

/-- run the picked task `t0` for one step (`out` = what `_get_next_ready_task` already sent) -/
def stepTask (tbl : Table) (w : Worker) (out : List Msg) (t0 : Task) : StepOut :=
  match desiredResult w t0 with
  | .error cls =>
    -- raised before `task.step`: the coroutine is untouched, never a RuntimeError
    { w := w, out := out ++ [Msg.error t0.comp cls], evs := [] }
  | .ok (w1, t1, val) =>
    if !t1.live then
      bubbleErr w1 { t1 with wakeNext := false, desired := none } out [] eRuntime true
    else
      let rb := runBody tbl ((tbl.getD t1.prog []).length + 2)
        { w := w1, t := (resume tbl t1 val).1, out := out, evs := (resume tbl t1 val).2 }
      finishStep rb.1 rb.2

/-- one iteration of `Worker._loop` = `_try_step_next_ready_task` -/
def Worker.step (tbl : Table) (w0 : Worker) : StepOut :=
  let p := Worker.pick w0.pickFuel { w0 with blocked := false }
  match p.task with
  | none => { w := p.w, out := p.out, evs := [] }
  | some t0 => stepTask tbl p.w p.out t0

end BqVerif.Runtime
