import BqVerif.Model.QasmLex
/-! # Parameter expressions of the OpenQASM 2 reader (C17)

What `bqskit/ir/lang/qasm2` does with a parameter expression, step by step:

1. Lark (LALR, shift preferred on conflicts) builds a tree with the rules
   ```
   exp: mulexp (('+' | '-') mulexp)*      mulexp: primaryexp (('*' | '/') primaryexp)*
   usub: "-" exp      pow: primaryexp "^" primaryexp      parenexp: "(" exp ")"
   unaryexp: unaryop "(" exp ")"
   primaryexp: parenexp | REAL | NNINTEGER | PI | ID | pow | usub | unaryexp
   ```
   → `qExp` (tree type `QE`; the flat `exp`/`mulexp` children are kept as left-nested `bin`).
2. `visitor.py:eval_exp_recurse` flattens the tree to Python source text: tokens are
   concatenated, `usub` → `-…`, `pow` → `a**b`, `unaryexp` → `f(…)`, and — because `parenexp`
   has no case of its own and its `(` `)` tokens are filtered from the tree — a parenthesised
   sub-expression is written WITHOUT its parentheses → `flatten`.
3. `eval(text, {}, eval_locals)` : Python's expression grammar re-parses the text → `pySum`
   (tree type `PE`) and evaluates it with `pi sin cos tan ln exp` bound → `PE.eval`.
4. Inside user gates, formal parameters are first replaced by `PARAM_IDX` tokens
   (`replace_param_ids`) and, at every call, by `Token('REAL', value)` whose text is
   `str(float)` (`replace_param_indices`) → `bindIds`, `substVals`; a negative value is the two
   Python tokens `-` `|v|` (`valToks`).

`specEval` is the reference reading of the same token string (parentheses respected, all six
functions defined); it is what OpenQASM 2 prescribes and what Qiskit computes.
Everything is generic in the value type `V` with operations `Arith V`; the driver
instantiates `V := Float` for comparison output only. -/
namespace BqVerif.Qasm

inductive Fn where
  | sin | cos | tan | exp | ln | sqrt
  deriving Repr, DecidableEq, Inhabited

inductive BOp where
  | add | sub | mul | div
  deriving Repr, DecidableEq, Inhabited

/-- Expression-level tokens (both of the QASM text and of the Python text built from it). -/
inductive ETok (V : Type) where
  | lit (s : String)        -- REAL / NNINTEGER text
  | val (v : V)             -- a non-negative float written by `str(float)`
  | name (s : String)       -- `pi` or an identifier
  | fn (f : Fn)             -- a function keyword (always followed by `lp`)
  | lp | rp | plus | minus | star | slash | pow
  deriving Repr, DecidableEq, Inhabited

/-- The Lark tree of an expression (rule wrappers `exp/mulexp/primaryexp` dropped). -/
inductive QE (V : Type) where
  | num (s : String)
  | id (s : String)
  | pidx (i : Nat)                -- Token('PARAM_IDX', i)
  | val (v : V)                   -- Token('REAL', float) written by replace_param_indices
  | paren (e : QE V)
  | usub (e : QE V)
  | pow (a b : QE V)
  | call (f : Fn) (e : QE V)
  | bin (op : BOp) (l r : QE V)
  deriving Repr, DecidableEq, Inhabited

/-- Python's AST for the fragment. -/
inductive PE (V : Type) where
  | lit (s : String)
  | val (v : V)
  | name (s : String)
  | neg (e : PE V)
  | bin (op : BOp) (l r : PE V)
  | pow (a b : PE V)
  | call (f : Fn) (e : PE V)
  deriving Repr, DecidableEq, Inhabited

/-- The arithmetic the evaluator needs.  `ofLit m e` is the number `m · 10^e`. -/
structure Arith (V : Type) where
  ofLit : Nat → Int → V
  pi : V
  zero : V
  add : V → V → V
  sub : V → V → V
  mul : V → V → V
  div : V → V → V
  pow : V → V → V
  neg : V → V
  fn : Fn → V → V
  isNeg : V → Bool
  abs : V → V

variable {V : Type}

def Fn.ofKw : String → Option Fn
  | "sin" => some .sin | "cos" => some .cos | "tan" => some .tan
  | "EXP" => some .exp | "ln" => some .ln | "sqrt" => some .sqrt
  | _ => none

/-- Expression token of a program token; `none` for tokens that cannot occur in `exp`. -/
def ETok.ofTok : Tok → Option (ETok V)
  | .num s => some (.lit s)
  | .id s => some (.name s)
  | .kw s => if s = "pi" then some (.name "pi") else (Fn.ofKw s).map .fn
  | .sym s =>
    if s = "(" then some .lp else if s = ")" then some .rp
    else if s = "+" then some .plus else if s = "-" then some .minus
    else if s = "*" then some .star else if s = "/" then some .slash
    else if s = "^" then some .pow else none
  | .str _ => none

/-! ## 1. the Lark parse -/
mutual
/-- `exp: mulexp (('+'|'-') mulexp)*` -/
def qExp : Nat → List (ETok V) → Option (QE V × List (ETok V))
  | 0, _ => none
  | f + 1, ts => (qMul f ts).bind fun p => qExpLoop f p.1 p.2
def qExpLoop : Nat → QE V → List (ETok V) → Option (QE V × List (ETok V))
  | 0, _, _ => none
  | f + 1, acc, ts =>
    match ts with
    | .plus :: ts' => (qMul f ts').bind fun p => qExpLoop f (.bin .add acc p.1) p.2
    | .minus :: ts' => (qMul f ts').bind fun p => qExpLoop f (.bin .sub acc p.1) p.2
    | _ => some (acc, ts)
/-- `mulexp: primaryexp (('*'|'/') primaryexp)*` -/
def qMul : Nat → List (ETok V) → Option (QE V × List (ETok V))
  | 0, _ => none
  | f + 1, ts => (qPrim f ts).bind fun p => qMulLoop f p.1 p.2
def qMulLoop : Nat → QE V → List (ETok V) → Option (QE V × List (ETok V))
  | 0, _, _ => none
  | f + 1, acc, ts =>
    match ts with
    | .star :: ts' => (qPrim f ts').bind fun p => qMulLoop f (.bin .mul acc p.1) p.2
    | .slash :: ts' => (qPrim f ts').bind fun p => qMulLoop f (.bin .div acc p.1) p.2
    | _ => some (acc, ts)
/-- `primaryexp`, with `pow: primaryexp "^" primaryexp` resolved by shifting (right-assoc). -/
def qPrim : Nat → List (ETok V) → Option (QE V × List (ETok V))
  | 0, _ => none
  | f + 1, ts =>
    (qAtom f ts).bind fun p =>
      match p.2 with
      | .pow :: r => (qPrim f r).bind fun q => some (.pow p.1 q.1, q.2)
      | _ => some p
def qAtom : Nat → List (ETok V) → Option (QE V × List (ETok V))
  | 0, _ => none
  | f + 1, ts =>
    match ts with
    | .lp :: ts' =>
      (qExp f ts').bind fun p =>
        match p.2 with
        | .rp :: r => some (.paren p.1, r)
        | _ => none
    | .minus :: ts' =>                 -- usub: "-" exp  (greedy: the whole following exp)
      (qExp f ts').bind fun p => some (.usub p.1, p.2)
    | .fn g :: .lp :: ts' =>
      (qExp f ts').bind fun p =>
        match p.2 with
        | .rp :: r => some (.call g p.1, r)
        | _ => none
    | .lit s :: ts' => some (.num s, ts')
    | .name s :: ts' => some (.id s, ts')
    | _ => none
end

/-- Enough fuel for any token list: every call either consumes a token or descends one of
the mutually recursive levels (the fuel bounds the recursion DEPTH; Proofs/QasmPrec shows it
suffices for every tree). -/
def exprFuel (ts : List (ETok V)) : Nat := 64 * ts.length + 64

/-- Lark parse of a complete expression. -/
def larkParse (ts : List (ETok V)) : Option (QE V) :=
  match qExp (exprFuel ts) ts with
  | some (e, []) => some e
  | _ => none

/-! ## 2. `eval_exp_recurse`: tree → Python text -/

def BOp.tok : BOp → ETok V
  | .add => .plus | .sub => .minus | .mul => .star | .div => .slash

/-- `str(float)` of a substituted value, as Python tokens. -/
def valToks (A : Arith V) (v : V) : List (ETok V) :=
  if A.isNeg v then [.minus, .val (A.abs v)] else [.val v]

def natLit (n : Nat) : String := toString n

/-- The Python source text (as tokens) that `eval_exp_recurse` builds. -/
def flatten (A : Arith V) : QE V → List (ETok V)
  | .num s => [.lit s]
  | .id s => [.name s]
  | .pidx i => [.lit (natLit i)]
  | .val v => valToks A v
  | .paren e => flatten A e                              -- the parentheses are lost here
  | .usub e => .minus :: flatten A e
  | .pow a b => flatten A a ++ .pow :: flatten A b
  | .call f e => .fn f :: .lp :: flatten A e ++ [.rp]
  | .bin op l r => flatten A l ++ op.tok :: flatten A r

/-- The text a reader that keeps the parentheses would build (reference). -/
def flattenSpec (A : Arith V) : QE V → List (ETok V)
  | .num s => [.lit s]
  | .id s => [.name s]
  | .pidx i => [.lit (natLit i)]
  | .val v => [.val v]                                   -- a value is one atom
  | .paren e => .lp :: flattenSpec A e ++ [.rp]
  | .usub e => .minus :: flattenSpec A e
  | .pow a b => flattenSpec A a ++ .pow :: flattenSpec A b
  | .call f e => .fn f :: .lp :: flattenSpec A e ++ [.rp]
  | .bin op l r => flattenSpec A l ++ op.tok :: flattenSpec A r

/-! ## 3. Python's reading of the text -/
mutual
/-- `sum: term (('+'|'-') term)*` -/
def pySum : Nat → List (ETok V) → Option (PE V × List (ETok V))
  | 0, _ => none
  | f + 1, ts => (pyTerm f ts).bind fun p => pySumLoop f p.1 p.2
def pySumLoop : Nat → PE V → List (ETok V) → Option (PE V × List (ETok V))
  | 0, _, _ => none
  | f + 1, acc, ts =>
    match ts with
    | .plus :: ts' => (pyTerm f ts').bind fun p => pySumLoop f (.bin .add acc p.1) p.2
    | .minus :: ts' => (pyTerm f ts').bind fun p => pySumLoop f (.bin .sub acc p.1) p.2
    | _ => some (acc, ts)
/-- `term: factor (('*'|'/') factor)*` -/
def pyTerm : Nat → List (ETok V) → Option (PE V × List (ETok V))
  | 0, _ => none
  | f + 1, ts => (pyFactor f ts).bind fun p => pyTermLoop f p.1 p.2
def pyTermLoop : Nat → PE V → List (ETok V) → Option (PE V × List (ETok V))
  | 0, _, _ => none
  | f + 1, acc, ts =>
    match ts with
    | .star :: ts' => (pyFactor f ts').bind fun p => pyTermLoop f (.bin .mul acc p.1) p.2
    | .slash :: ts' => (pyFactor f ts').bind fun p => pyTermLoop f (.bin .div acc p.1) p.2
    | _ => some (acc, ts)
/-- `factor: '-' factor | power` -/
def pyFactor : Nat → List (ETok V) → Option (PE V × List (ETok V))
  | 0, _ => none
  | f + 1, ts =>
    match ts with
    | .minus :: ts' => (pyFactor f ts').bind fun p => some (.neg p.1, p.2)
    | _ => pyPower f ts
/-- `power: atom ['**' factor]` -/
def pyPower : Nat → List (ETok V) → Option (PE V × List (ETok V))
  | 0, _ => none
  | f + 1, ts =>
    (pyAtom f ts).bind fun p =>
      match p.2 with
      | .pow :: r => (pyFactor f r).bind fun q => some (.pow p.1 q.1, q.2)
      | _ => some p
/-- `atom: NUMBER | NAME | NAME '(' sum ')' | '(' sum ')'` -/
def pyAtom : Nat → List (ETok V) → Option (PE V × List (ETok V))
  | 0, _ => none
  | f + 1, ts =>
    match ts with
    | .lp :: ts' =>
      (pySum f ts').bind fun p =>
        match p.2 with
        | .rp :: r => some (p.1, r)
        | _ => none
    | .fn g :: .lp :: ts' =>
      (pySum f ts').bind fun p =>
        match p.2 with
        | .rp :: r => some (.call g p.1, r)
        | _ => none
    | .lit s :: ts' => some (.lit s, ts')
    | .val v :: ts' => some (.val v, ts')
    | .name s :: ts' => some (.name s, ts')
    | _ => none
end

def pyParse (ts : List (ETok V)) : Option (PE V) :=
  match pySum (exprFuel ts) ts with
  | some (e, []) => some e
  | _ => none

/-! ### numeric literals -/

def digitVal (c : Char) : Nat := c.toNat - '0'.toNat
def digitsVal (cs : List Char) : Nat := cs.foldl (fun a c => 10 * a + digitVal c) 0

/-- `[+-]?digits` → Int -/
def parseExpPart : List Char → Option Int
  | '-' :: ds => if ds.isEmpty || !ds.all isDigit then none else some (-(digitsVal ds : Int))
  | '+' :: ds => if ds.isEmpty || !ds.all isDigit then none else some (digitsVal ds : Int)
  | ds => if ds.isEmpty || !ds.all isDigit then none else some (digitsVal ds : Int)

/-- Value `(m, e)` = m·10^e of a token matched by REAL, read as a *Python* literal.
`none` where Python rejects it: an integer literal with a leading zero (`007`). -/
def parsePyLit (s : String) : Option (Nat × Int) :=
  let cs := s.toList
  let (mant, ex) := spanP (fun c => c != 'e' && c != 'E') cs
  let (ip, r) := spanP isDigit mant
  let isFloat := !r.isEmpty || !ex.isEmpty
  let fp := match r with
    | '.' :: fr => some fr
    | [] => some []
    | _ => none
  match fp with
  | none => none
  | some fr =>
    if !fr.all isDigit || (ip.isEmpty && fr.isEmpty) then none else
    let e10 : Option Int := match ex with
      | [] => some 0
      | _ :: es => parseExpPart es
    match e10 with
    | none => none
    | some e =>
      if !isFloat && ip.length > 1 && ip.head? == some '0' && ip.any (· != '0') then none
      else some (digitsVal (ip ++ fr), e - fr.length)

/-! ### evaluation -/

/-- `eval(text, {}, eval_locals)`: `pi sin cos tan ln exp` are bound; the grammar's function
keywords are `sin cos tan EXP ln sqrt`, so `EXP(…)` and `sqrt(…)` raise NameError. -/
def PE.eval (A : Arith V) : PE V → Option V
  | .lit s => (parsePyLit s).map fun (m, e) => A.ofLit m e
  | .val v => some v
  | .name s => if s = "pi" then some A.pi else none
  | .neg e => (e.eval A).map A.neg
  | .bin op l r =>
    match l.eval A, r.eval A with
    | some a, some b =>
      some (match op with
        | .add => A.add a b | .sub => A.sub a b | .mul => A.mul a b | .div => A.div a b)
    | _, _ => none
  | .pow a b =>
    match a.eval A, b.eval A with
    | some x, some y => some (A.pow x y)
    | _, _ => none
  | .call f e =>
    match f with
    | .exp | .sqrt => none
    | _ => (e.eval A).map (A.fn f)

/-- Reference evaluation: all six functions exist. -/
def PE.evalSpec (A : Arith V) : PE V → Option V
  | .lit s => (parsePyLit s).map fun (m, e) => A.ofLit m e
  | .val v => some v
  | .name s => if s = "pi" then some A.pi else none
  | .neg e => (e.evalSpec A).map A.neg
  | .bin op l r =>
    match l.evalSpec A, r.evalSpec A with
    | some a, some b =>
      some (match op with
        | .add => A.add a b | .sub => A.sub a b | .mul => A.mul a b | .div => A.div a b)
    | _, _ => none
  | .pow a b =>
    match a.evalSpec A, b.evalSpec A with
    | some x, some y => some (A.pow x y)
    | _, _ => none
  | .call f e => (e.evalSpec A).map (A.fn f)

/-- `float(eval_exp(tree))` as the code computes it. -/
def evalQ (A : Arith V) (e : QE V) : Option V :=
  (pyParse (flatten A e)).bind (PE.eval A)

/-- What the expression means (parentheses respected, every function defined). -/
def specEvalQ (A : Arith V) (e : QE V) : Option V :=
  (pyParse (flattenSpec A e)).bind (PE.evalSpec A)

/-! ## 4. formal parameters -/

/-- `has_param_variable` -/
def hasParam (ps : List String) : QE V → Bool
  | .num s => ps.contains s
  | .id s => ps.contains s
  | .pidx _ => false
  | .val _ => false
  | .paren e => hasParam ps e
  | .usub e => hasParam ps e
  | .pow a b => hasParam ps a || hasParam ps b
  | .call _ e => hasParam ps e
  | .bin _ l r => hasParam ps l || hasParam ps r

/-- `replace_param_ids`: identifier → `PARAM_IDX` (first index of the name in `ps`) -/
def bindIds (ps : List String) : QE V → QE V
  | .num s => .num s
  | .id s => if ps.contains s then .pidx (ps.idxOf s) else .id s
  | .pidx i => .pidx i
  | .val v => .val v
  | .paren e => .paren (bindIds ps e)
  | .usub e => .usub (bindIds ps e)
  | .pow a b => .pow (bindIds ps a) (bindIds ps b)
  | .call f e => .call f (bindIds ps e)
  | .bin op l r => .bin op (bindIds ps l) (bindIds ps r)

/-- `replace_param_indices`: `PARAM_IDX i` → `Token('REAL', params[i])`; `none` = IndexError -/
def substVals (vs : List V) : QE V → Option (QE V)
  | .num s => some (.num s)
  | .id s => some (.id s)
  | .pidx i => (vs[i]?).map .val
  | .val v => some (.val v)
  | .paren e => (substVals vs e).map .paren
  | .usub e => (substVals vs e).map .usub
  | .pow a b =>
    match substVals vs a, substVals vs b with
    | some x, some y => some (.pow x y)
    | _, _ => none
  | .call f e => (substVals vs e).map (.call f)
  | .bin op l r =>
    match substVals vs l, substVals vs r with
    | some x, some y => some (.bin op x y)
    | _, _ => none

end BqVerif.Qasm
