import BqVerif.Model.Circ
import BqVerif.Model.Graph
/-
Model of `bqskit/passes/mapping/**` (property C09): the SABRE / PAM forward pass as a
NONDETERMINISTIC machine, and the PassData bookkeeping of the mapping workflow
`[SetModelPass, placement, layout, routing, ApplyPlacement]`.

What is transcribed exactly
  * `_apply_swap` on `pi`                       -> `applySwap`
  * `_apply_perm(perm, pi)`                     -> `applyPerm`
  * `_can_exe(op, pi, cg)`                      -> `canExe`
  * the effect of every branch of `forward_pass(modify_circuit=True)` on
    (F, pi, mapped_circuit)                     -> `step` (moves exec / swap / unswap)
  * PAM's forward pass (`pam.py`): barrier branch (appends the barrier at
    `[pi[q] for q in location]`; since the fix 9e5a524 — before, at the logical location) and
    block branch (`_apply_perm(p1)`, emit, `_apply_perm(p2)`)
                                                -> moves `pamBarrier`, `perm`
  * `GeneralizedSabreRoutingPass.run`, `GeneralizedSabreLayoutPass.run`,
    `PAMRoutingPass.run`, `PAMLayoutPass.run`, `SetModelPass.run`, `ApplyPlacement.run`,
    `PassData.connectivity`                      -> `routePass`, `layoutPass`, `setModel`,
                                                   `applyPlacement`, `connectivity`
What is abstracted: WHICH executable gate / swap / permutation the heuristics pick
(scores, decay, extended set, `leading_swaps` threshold).  The machine accepts every
choice that the code's guards allow; the theorems hold for all of them, and the harness
checks on every run that what the real code did is an accepted run of this machine.

The set `F` of the code (points all of whose predecessors were executed) is represented
by the list `rem` of not yet executed operations in program order: an operation is in
`F` iff no earlier remaining operation shares a qudit with it (`inFront`).
-/
namespace BqVerif.Route
open BqVerif.Circ (Op disjointL nodupL)
open BqVerif.Graph (G sortNat)

/-- the transposition (a b) on qudit labels -/
def swapFn (a b x : Nat) : Nat := if x = a then b else if x = b then a else x

/-- `pi[q]` -/
def piAt (π : List Nat) (q : Nat) : Nat := π.getD q 0

/-- same gate and parameters at another location -/
def relab (f : Nat → Nat) (o : Op) : Op := { o with loc := o.loc.map f }

/-- `_apply_swap(swap, pi, decay)` restricted to `pi`:
`l1, l2 = pi.index(a), pi.index(b); pi[l1], pi[l2] = pi[l2], pi[l1]`.
`none` = ValueError of `list.index`. -/
def applySwap (π : List Nat) (a b : Nat) : Option (List Nat) :=
  if π.contains a && π.contains b then
    some ((π.set (π.idxOf a) b).set (π.idxOf b) a)
  else none

/-- `_apply_perm(perm, pi)`:
`pi_c = {q: pi[perm[i]] for i, q in enumerate(sorted(perm))}; for q in perm: pi[q] = pi_c[q]`.
`none` = IndexError. -/
def applyPerm (perm π : List Nat) : Option (List Nat) :=
  if perm.all (· < π.length) then
    let s := sortNat perm
    some ((List.range perm.length).foldl
      (fun acc i => acc.set (s.getD i 0) (piAt π (perm.getD i 0))) π)
  else none

/-- `_can_exe`: barriers and blocks made of single-qudit gates only (`free`), single-qudit
operations, or operations whose physical qudits induce a connected subgraph
(`cg.get_subgraph(physical_qudits).is_fully_connected()`).  `none` = get_subgraph raises. -/
def canExe (free : Nat → Bool) (g : G) (π : List Nat) (o : Op) : Option Bool :=
  if free o.gid then some true
  else if o.loc.length == 1 then some true
  else match g.subgraph (o.loc.map (piAt π)) none with
    | none => none
    | some h => some h.isFullyConnected

/-- What the pass appends to `mapped_circuit`.  `vswap` is a *virtual* swap: PAM moves
logical qudits inside a block's physical qudits without emitting anything, the emitted
variant circuit absorbs the permutation (see `Move.perm`). -/
inductive Em
  | gate (o : Op)
  | swap (a b : Nat)
  | vswap (a b : Nat)
deriving DecidableEq, Repr

structure St where
  rem : List Op
  pi : List Nat
  out : List Em
deriving DecidableEq, Repr

inductive Move
  /-- execute the `i`-th remaining operation (SABRE: append it at `[pi[q] for q in location]`) -/
  | exec (i : Nat)
  /-- heuristic or uphill swap: `_apply_swap` + `append_gate(SwapGate, swap)` -/
  | swap (a b : Nat)
  /-- backtracking: `_apply_swap(swap)` + `mapped_circuit.pop(_rear[swap[0]])` -/
  | unswap (a b : Nat)
  /-- PAM barrier branch: `mapped_circuit.append_gate(op.gate, physical_location)` -/
  | pamBarrier (i : Nat)
  /-- PAM block branch: `_apply_perm(p1)`, append the variant at `[pi[q] for q in location]`,
  `_apply_perm(p2)`.  `s1`, `s2` are ghost data: swap sequences on the block's physical
  qudits that realise `p1`, `p2` on `pi` (checked by the guard). -/
  | perm (i : Nat) (p1 p2 : List Nat) (s1 s2 : List (Nat × Nat))
deriving DecidableEq, Repr

/-- the operation at index `i` of `rem` is in the front `F` -/
def inFront (rem : List Op) (i : Nat) : Bool :=
  match rem[i]? with
  | none => false
  | some o => (rem.take i).all (fun p => disjointL p.loc o.loc)

def removeAt (rem : List Op) (i : Nat) : List Op := rem.take i ++ rem.drop (i + 1)

def applySwaps : List (Nat × Nat) → List Nat → Option (List Nat)
  | [], π => some π
  | (a, b) :: r, π => (applySwap π a b).bind (applySwaps r)

def sameSetNat (a b : List Nat) : Bool := a.all b.contains && b.all a.contains

/-- One accepted step of the forward pass. `none` = not a move the code can make. -/
def step (free : Nat → Bool) (g : G) (s : St) : Move → Option St
  | .exec i =>
    match s.rem[i]? with
    | none => none
    | some o =>
      if inFront s.rem i && canExe free g s.pi o == some true then
        some { rem := removeAt s.rem i, pi := s.pi, out := s.out ++ [.gate (relab (piAt s.pi) o)] }
      else none
  | .swap a b =>
    if g.hasEdge a b then
      match applySwap s.pi a b with
      | none => none
      | some π' => some { s with pi := π', out := s.out ++ [.swap a b] }
    else none
  | .unswap a b =>
    if s.out.getLast? == some (.swap a b) then
      match applySwap s.pi a b with
      | none => none
      | some π' => some { s with pi := π', out := s.out.dropLast }
    else none
  | .pamBarrier i =>
    match s.rem[i]? with
    | none => none
    | some o =>
      if inFront s.rem i && free o.gid then
        some { rem := removeAt s.rem i, pi := s.pi, out := s.out ++ [.gate (relab (piAt s.pi) o)] }
      else none
  | .perm i p1 p2 s1 s2 =>
    match s.rem[i]? with
    | none => none
    | some o =>
      if inFront s.rem i && canExe free g s.pi o == some true
          && sortNat p1 == sortNat o.loc && sortNat p2 == sortNat o.loc && nodupL o.loc then
        match applyPerm p1 s.pi with
        | none => none
        | some π1 =>
          match applyPerm p2 π1 with
          | none => none
          | some π2 =>
            let phys := o.loc.map (piAt s.pi)
            if applySwaps s1 s.pi == some π1 && applySwaps s2 π1 == some π2
                && s1.all (fun e => phys.contains e.1 && phys.contains e.2)
                && s2.all (fun e => phys.contains e.1 && phys.contains e.2) then
              some { rem := removeAt s.rem i, pi := π2,
                     out := s.out ++ s1.map (fun e => .vswap e.1 e.2)
                       ++ [.gate (relab (piAt π1) o)] ++ s2.map (fun e => .vswap e.1 e.2) }
            else none
      else none

def run (free : Nat → Bool) (g : G) : St → List Move → Option St
  | s, [] => some s
  | s, m :: ms => (step free g s m).bind (fun s' => run free g s' ms)

/-- index of the first move that is rejected (for diagnostics) -/
def runDiag (free : Nat → Bool) (g : G) : St → List Move → Nat → Except Nat St
  | s, [], _ => .ok s
  | s, m :: ms, k =>
    match step free g s m with
    | none => .error k
    | some s' => runDiag free g s' ms (k + 1)

def init (n : Nat) (ops : List Op) : St := ⟨ops, List.range n, []⟩

/-- un-routing: follow the assignment through the (virtual) swaps and translate every
emitted operation back to the logical qudits sitting under it. -/
def unroute : List Nat → List Em → List Op × List Nat
  | π, [] => ([], π)
  | π, .gate o :: r =>
    let res := unroute π r
    (relab (π.idxOf ·) o :: res.1, res.2)
  | π, .swap a b :: r => unroute (π.map (swapFn a b)) r
  | π, .vswap a b :: r => unroute (π.map (swapFn a b)) r

/-- the operation list a physical device sees (`vswap`s are not operations) -/
def physOps (swapOp : Nat → Nat → Op) : List Em → List Op
  | [] => []
  | .gate o :: r => o :: physOps swapOp r
  | .swap a b :: r => swapOp a b :: physOps swapOp r
  | .vswap _ _ :: r => physOps swapOp r

def Em.relab (f : Nat → Nat) : Em → Em
  | .gate o => .gate (Route.relab f o)
  | .swap a b => .swap (f a) (f b)
  | .vswap a b => .vswap (f a) (f b)

/-! ## layout passes: the same loop with emissions discarded -/
inductive LMove
  | swap (a b : Nat)
  | perm (p : List Nat)
deriving DecidableEq, Repr

def lstep (π : List Nat) : LMove → Option (List Nat)
  | .swap a b => applySwap π a b
  | .perm p => if nodupL p then applyPerm p π else none

def lrun : List Nat → List LMove → Option (List Nat)
  | π, [] => some π
  | π, m :: ms => (lstep π m).bind (fun π' => lrun π' ms)

/-! ## PassData and the passes of the workflow -/
structure PD where
  model : G
  placement : List Nat
  im : List Nat
  fm : List Nat
deriving DecidableEq, Repr

/-- `SetModelPass.run` (`none` = RuntimeError 'Machine model is too small') -/
def setModel (m : G) (n : Nat) (d : PD) : Option PD :=
  if m.n < n then none else some { d with model := m, placement := List.range n }

/-- `PassData.connectivity` -/
def connectivity (d : PD) : Option G := d.model.subgraph d.placement none

/-- the check every placement pass ends with (`get_subgraph(placement).is_fully_connected()`),
also the guard of the layout and routing passes -/
def placementOK (d : PD) : Bool :=
  match connectivity d with
  | none => false
  | some sg => sg.isFullyConnected

/-- `GeneralizedSabreLayoutPass.run` / `PAMLayoutPass.run`: any sequence of `_apply_swap` /
`_apply_perm` calls on `pi = [0..n)`, then `_apply_perm(pi, data.placement)` -/
def layoutPass (n : Nat) (moves : List LMove) (d : PD) : Option PD :=
  if !placementOK d then none else
  match lrun (List.range n) moves with
  | none => none
  | some π =>
    match applyPerm π d.placement with
    | none => none
    | some p => some { d with placement := p }

/-- `GeneralizedSabreRoutingPass.run` / `PAMRoutingPass.run`: returns the routed state and
the new data (`final_mapping = [pi[x] for x in final_mapping]`) -/
def routePass (free : Nat → Bool) (n : Nat) (ops : List Op) (moves : List Move) (d : PD) :
    Option (St × PD) :=
  match connectivity d with
  | none => none
  | some sg =>
    if !sg.isFullyConnected then none else
    match run free sg (init n ops) moves with
    | none => none
    | some s =>
      if s.rem.isEmpty && d.fm.all (· < s.pi.length) then
        some (s, { d with fm := d.fm.map (piAt s.pi) })
      else none

/-- `ApplyPlacement.run`: circuit relabelled by `placement` on the model's qudits,
both mappings composed with `placement`, placement reset -/
def applyPlacement (out : List Em) (d : PD) : Option (List Em × PD) :=
  if d.placement.all (· < d.model.n) && d.im.all (· < d.placement.length)
      && d.fm.all (· < d.placement.length) then
    some (out.map (Em.relab (piAt d.placement)),
      { d with im := d.im.map (piAt d.placement), fm := d.fm.map (piAt d.placement),
               placement := List.range d.model.n })
  else none

/-- The whole workflow `[SetModelPass(m), placement := P, layout, routing, ApplyPlacement]`.
`P` is whatever the placement pass wrote (Greedy / Trivial / Static); `lay = none` skips the
layout pass. -/
def workflow (free : Nat → Bool) (m : G) (n : Nat) (ops : List Op) (P : List Nat)
    (lay : Option (List LMove)) (moves : List Move) (d0 : PD) : Option (List Em × St × PD × PD) :=
  match setModel m n d0 with
  | none => none
  | some d1 =>
    let d2 := { d1 with placement := P }
    if !placementOK d2 then none else
    let d3? := match lay with
      | none => some d2
      | some l => layoutPass n l d2
    match d3? with
    | none => none
    | some d3 =>
      match routePass free n ops moves d3 with
      | none => none
      | some (s, d4) =>
        match applyPlacement s.out d4 with
        | none => none
        | some (out, d5) => some (out, s, d4, d5)

/-! ## placement passes -/

/-- `GreedyPlacementPass`, relationally: the loop starts with one vertex and repeatedly
appends a vertex taken from `neighbors` — a list that only ever contains neighbours of
vertices already placed.  `validGrow g l` accepts every such growth order `l`. -/
def validGrow (g : G) : List Nat → Bool
  | [] => false
  | [v] => v < g.n
  | v :: rest => !rest.contains v && rest.any (fun u => g.hasEdge u v) && validGrow g rest

/-- `sorted(placement)` of a growth order given most-recent-first -/
def greedyResult (grow : List Nat) : List Nat := sortNat grow

end BqVerif.Route
