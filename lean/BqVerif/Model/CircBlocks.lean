import BqVerif.Model.Circ
/-
Blocks (CircuitGate operations), unfolding, flattening, and the relational
specifications of the two layout-changing calls whose exact grid the
documentation leaves open (`straighten`, `fold`).

A block gate is identified by its *structure* (gates and locations, as
`CircuitGate.__eq__` does); the operation carries the flat parameter vector.
The table maps a block gid to its body (a `Circ` whose ops hold placeholder
parameters of the right arity).
-/
namespace BqVerif.Circ

abbrev Blocks := List (Nat × Circ)

def Blocks.body? (b : Blocks) (gid : Nat) : Option Circ :=
  (b.find? (·.1 == gid)).map (·.2)

/-- `circuit.set_params(params)`: slices of the flat vector handed out in iteration order. -/
def distribute : List Op → List Int → List Op
  | [], _ => []
  | o :: os, ps => { o with par := ps.take o.par.length } :: distribute os (ps.drop o.par.length)

/-- the body of block op `o`, parameters set from `o.par`, in iteration order, relabelled
through `o.loc` -/
def expandOp (b : Blocks) (o : Op) : Option (List Op) :=
  (b.body? o.gid).map (fun body => (distribute body.iter o.par).map (·.mapLoc o.loc))

/-- body circuit with parameters set (grid kept) -/
def setParams (body : Circ) (ps : List Int) : Circ :=
  let flat := distribute body.iter ps
  -- re-associate by position in iteration order
  let rec go : List Cycle → List Op → List Cycle
    | [], _ => []
    | cy :: rest, fl =>
      let k := cy.length
      (fl.take k) :: go rest (fl.drop k)
  { body with cycles := go (body.cycles.map (sortBy Op.head)) flat }

/-- `unfold(point)` -/
def Circ.unfold (c : Circ) (b : Blocks) (p : Int × Int) : Circ × Except Err Unit :=
  match c.getOp p with
  | .error e => (c, .error e)
  | .ok (_, _, o) =>
    match b.body? o.gid with
    | none => (c, .error .value)
    | some body => c.replaceWithCircuit p (setParams body o.par)

/-- first cycle at or after `k` whose cell on qudit `q` holds `o` (`fuel` cycles are inspected):
where `batch_unfold` finds a block again after the unfolding of another block of the same cycle
opened new cycles in front of it -/
def Circ.seekOp (c : Circ) (o : Op) (q : Nat) (k : Nat) : Nat → Nat
  | 0 => k
  | fuel + 1 => if c.cell k q == some o then k else c.seekOp o q (k + 1) fuel

/-- `batch_unfold(points)`: every point must hold an operation (IndexError otherwise, nothing
changed); duplicates of one operation collapse; the blocks are unfolded from the last to the first
(cycle, then first qudit), each at the cycle where it sits by then; a point that holds no
CircuitGate stops the batch with ValueError after the later ones were unfolded. -/
def Circ.batchUnfold (c : Circ) (b : Blocks) (pts : List (Int × Int)) : Circ × Except Err Unit :=
  match pts.mapM c.getOp with
  | .error e => (c, .error e)
  | .ok found =>
    let uniq := dedupOps (found.map (fun (k, _, o) => (k, o)))
    let sorted := (List.range c.numCycles).flatMap (fun k =>
      sortBy Op.head ((uniq.filter (·.1 == k)).map (·.2)) |>.map (fun o => (k, o)))
    sorted.reverse.foldl (fun (acc : Circ × Except Err Unit) (k, o) =>
      match acc.2 with
      | .error _ => acc
      | .ok () =>
        let k' := acc.1.seekOp o o.head k (acc.1.numCycles - k)
        acc.1.unfold b ((k' : Int), (o.head : Int))) (c, .ok ())

/-- one round of `unfold_all`'s rebuild -/
def Circ.unfoldRound (c : Circ) (b : Blocks) : Circ :=
  c.iter.foldl (fun acc o =>
    match b.body? o.gid with
    | some body => (acc.appendCircuit (setParams body o.par) o.loc).1
    | none => (acc.appendCore o).1) ⟨c.radixes, []⟩

def Circ.hasBlock (c : Circ) (b : Blocks) : Bool := c.ops.any (fun o => (b.body? o.gid).isSome)

def Circ.unfoldAll (c : Circ) (b : Blocks) : Nat → Circ
  | 0 => c
  | fuel + 1 => if c.hasBlock b then (c.unfoldRound b).unfoldAll b fuel else c

/-- full flattening of an op list (depth-bounded by `fuel`) -/
def flattenOps (b : Blocks) : Nat → List Op → List Op
  | 0, l => l
  | fuel + 1, l => l.flatMap (fun o =>
      match expandOp b o with
      | some body => flattenOps b fuel body
      | none => [o])

/-! ## relational specs -/
def sameTimelines (n : Nat) (l1 l2 : List Op) : Bool :=
  (List.range n).all (fun q => proj q l1 == proj q l2)

/-- multiset equality of op lists -/
def permOps : List Op → List Op → Bool
  | [], l2 => l2.isEmpty
  | x :: xs, l2 => l2.contains x && permOps xs (l2.erase x)

/-- a region: per qudit an inclusive cycle interval -/
abbrev Region := List (Nat × (Nat × Nat))
def Region.covers (r : Region) (k q : Nat) : Bool :=
  r.any (fun (q', (lo, hi)) => q' == q && lo ≤ k && k ≤ hi)
/-- ops of `c` having at least one cell inside the region (the non-idle region points) -/
def Circ.opsIn (c : Circ) (r : Region) : List Op :=
  c.iterCyc.filterMap (fun (k, o) => if o.loc.any (r.covers k) then some o else none)

/-- `straighten` leaves every timeline and the op multiset unchanged, keeps `Inv`,
and changes the number of cycles by the reported amount. -/
def validStraighten (c c' : Circ) (net : Int) : Option String :=
  if c'.radixes != c.radixes then some "radixes"
  else if !sameTimelines c.numQudits c.iter c'.iter then some "timelines"
  else if !permOps c.ops c'.ops then some "ops"
  else if (c'.numCycles : Int) != (c.numCycles : Int) + net then some "net_new_cycles"
  else if !c'.invB then some "inv"      -- last: "violated inv" means only `Inv` fails (C05's clause)
  else none

/-- `fold(region)` replaces the region's ops by one block op at the returned point whose
body holds exactly those ops with unchanged per-qudit order; all timelines unchanged
after expanding that block. -/
def validFold (b : Blocks) (c : Circ) (r : Region) (c' : Circ) (pt : Nat × Nat) : Option String :=
  if c'.radixes != c.radixes then some "radixes"
  else match c'.cell pt.1 pt.2 with
  | none => some "no-op-at-returned-point"
  | some blk =>
    -- the region is first downsized to the qudits its operations touch
    let qs := sortNat (dedupNat ((c.opsIn r).flatMap (·.loc)))
    if blk.loc != qs then some "block-location"
    else match expandOp b blk with
    | none => some "not-a-block"
    | some inner =>
      if !permOps inner (c.opsIn r) then some "block-contents"
      else
        let expanded := c'.iterCyc.flatMap (fun (k, o) =>
          if k == pt.1 && o == blk then inner else [o])
        if !sameTimelines c.numQudits c.iter expanded then some "timelines"
        else if c'.numOps + inner.length != c.numOps + 1 then some "count"
        else if !c'.invB then some "inv"
        else none

end BqVerif.Circ
