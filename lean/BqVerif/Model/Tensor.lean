/-
Model of the numpy tensor primitives used by `bqskit/qis/unitary/unitarybuilder.py`
and `bqskit/qis/state/state.py` (`transpose`, `reshape`, `@`, `argsort`) and a line by
line transcription of `UnitaryBuilder.apply_right / apply_left / eval_apply_right /
eval_apply_left / get_unitary / calc_env_matrix` and `StateVector.apply`.

A tensor is a shape and a row-major (C order) flat array, exactly numpy's logical
content of a C-contiguous array.  Multi-indices are digit strings (`List Nat`), axis 0
first = most significant.  Generic in the entry type (`Zero`, `Add`, `Mul` only) so that
the theorems of `Props/C06.lean` hold over every semiring; the driver instantiates it
with the Gaussian rationals of `NumC06.lean`.

Executable, total, import-free.  Where numpy / bqskit raise, the model returns
`Except Err`.
-/
namespace BqVerif.Tensor

/-- The error classes the modelled code raises. -/
inductive Err where
  | indexError | valueError | typeError | runtimeError
deriving DecidableEq, Repr, Inhabited

def Err.toStr : Err → String
  | .indexError => "IndexError"
  | .valueError => "ValueError"
  | .typeError => "TypeError"
  | .runtimeError => "RuntimeError"

/-! ### mixed-radix digit strings (numpy `ravel_multi_index` / `unravel_index`, C order) -/

/-- `np.prod(shape)`. -/
def prod : List Nat → Nat
  | [] => 1
  | s :: ss => s * prod ss

/-- Row-major flat index of the digit string `idx` in `shape`. -/
def ravel : List Nat → List Nat → Nat
  | _ :: ss, d :: ds => d * prod ss + ravel ss ds
  | _, _ => 0

/-- Digit string of the flat index `i` in `shape` (most significant first). -/
def unravel : List Nat → Nat → List Nat
  | [], _ => []
  | s :: ss, i => (i / prod ss) % s :: unravel ss (i % prod ss)

/-- `idx` is a valid multi-index of `shape`. -/
def validIdx : List Nat → List Nat → Bool
  | [], [] => true
  | s :: ss, d :: ds => decide (d < s) && validIdx ss ds
  | _, _ => false

/-- The digits of `idx` at the positions `pos` (`[idx[p] for p in pos]`). -/
def pick (idx pos : List Nat) : List Nat := pos.map (idx.getD · 0)

/-- `[x for x in range(n) if x not in loc]`. -/
def rest (n : Nat) (loc : List Nat) : List Nat := (List.range n).filter (fun x => !loc.contains x)

/-- `idx` with the digits at positions `pos` overwritten by `ds` (in order):
position `a` gets `ds[k]` when `a = pos[k]`, and keeps `idx[a]` otherwise. -/
def put (idx pos ds : List Nat) : List Nat :=
  (List.range idx.length).map
    (fun a => if pos.contains a then ds.getD (pos.idxOf a) 0 else idx.getD a 0)

/-! ### tensors -/

structure T (α : Type) where
  shape : List Nat
  data : Array α
deriving DecidableEq

variable {α : Type}

def T.size (t : T α) : Nat := t.data.size

/-- Well-formed: the data has exactly `prod shape` entries. -/
def T.WF (t : T α) : Prop := t.data.size = prod t.shape

section
variable [Zero α]

/-- `t[idx]`. -/
def T.get (t : T α) (idx : List Nat) : α := t.data.getD (ravel t.shape idx) 0

/-- Entry `(r, c)` of the `(d, d)` matrix view of the data (`reshape((d, d))[r, c]`). -/
def T.entry (t : T α) (d r c : Nat) : α := t.data.getD (r * d + c) 0

/-- The tensor of shape `shape` with `t[idx] = g idx`. -/
def ofFn (shape : List Nat) (g : List Nat → α) : T α :=
  ⟨shape, Array.ofFn (n := prod shape) (fun i => g (unravel shape i.val))⟩

/-- `perm` is a permutation of `range n` (numpy: "axes don't match array" otherwise). -/
def isPerm (perm : List Nat) (n : Nat) : Bool :=
  perm.length == n && (List.range n).all (fun a => perm.contains a)

/-- The input multi-index read by output multi-index `j` of `a.transpose(perm)`:
`i[perm[k]] = j[k]`. -/
def scatter (perm : List Nat) (j : List Nat) : List Nat :=
  (List.range perm.length).map (fun a => j.getD (perm.idxOf a) 0)

/-- `a.transpose(perm)`: output axis `k` is input axis `perm[k]`. -/
def T.transpose (t : T α) (perm : List Nat) : Except Err (T α) :=
  if isPerm perm t.shape.length then
    .ok (ofFn (perm.map (t.shape.getD · 0)) (fun j => t.get (scatter perm j)))
  else .error .valueError

/-- `a.reshape(shape)` (C order: the flat content is unchanged). -/
def T.reshape (t : T α) (shape : List Nat) : Except Err (T α) :=
  if prod shape = t.data.size then .ok ⟨shape, t.data⟩ else .error .valueError

/-- `a.reshape((left, -1))`. -/
def T.reshapeL (t : T α) (left : Nat) : Except Err (T α) :=
  if left ≠ 0 ∧ t.data.size % left = 0 then .ok ⟨[left, t.data.size / left], t.data⟩
  else .error .valueError

/-- `a.reshape((-1, right))`. -/
def T.reshapeR (t : T α) (right : Nat) : Except Err (T α) :=
  if right ≠ 0 ∧ t.data.size % right = 0 then .ok ⟨[t.data.size / right, right], t.data⟩
  else .error .valueError

variable [Add α] [Mul α]

/-- `a @ b` for two 2-d arrays. -/
def matmul (a b : T α) : Except Err (T α) :=
  match a.shape, b.shape with
  | [m, k], [k', n] =>
    if k = k' then
      .ok (ofFn [m, n] (fun idx =>
        ((List.range k).map (fun l =>
          a.get [idx.getD 0 0, l] * b.get [l, idx.getD 1 0])).sum))
    else .error .valueError
  | _, _ => .error .valueError

end

/-- Stable insertion into a list sorted by first component. -/
def insertByKey (x : Nat × Nat) : List (Nat × Nat) → List (Nat × Nat)
  | [] => [x]
  | y :: ys => if x.1 ≤ y.1 then x :: y :: ys else y :: insertByKey x ys

/-- Stable insertion sort by first component (structural, so that it reduces in `decide`). -/
def sortByKey : List (Nat × Nat) → List (Nat × Nat)
  | [] => []
  | x :: xs => insertByKey x (sortByKey xs)

/-- `np.argsort(l)` (stable; for a permutation this is its inverse, see
`argsort_eq_of_isPerm`). -/
def argsort (l : List Nat) : List Nat := (sortByKey l.zipIdx).map (·.2)

/-! ### matrices -/

section
variable [Zero α]

/-- `np.identity(d)` as a `(d, d)` tensor. -/
def identity [One α] (d : Nat) : T α :=
  ofFn [d, d] (fun idx => if idx.getD 0 0 = idx.getD 1 0 then 1 else 0)

/-- `utry.dagger` for a `(d, d)` matrix: conjugate transpose. -/
def dagger (conj : α → α) (m : T α) : T α :=
  match m.shape with
  | [r, c] => ofFn [c, r] (fun idx => conj (m.get [idx.getD 1 0, idx.getD 0 0]))
  | _ => m

/-- `CircuitLocation.is_location(loc, n)`: distinct qudit indices below `n`.
(Negative indices cannot be expressed; the harness maps them to `typeError` itself.) -/
def isLocation (loc : List Nat) (n : Nat) : Bool :=
  loc.all (· < n) && decide loc.Nodup

variable [Add α] [Mul α]

/-- Lines `perm = …` to the final `transpose(inv_perm)` shared by `apply_right`,
`eval_apply_right` and `StateVector.apply`: the axes `sel` are moved to the front, the
tensor is flattened to `(prod sel-dims, -1)`, multiplied by `m` from the left, and
everything is undone.  `sh` is `list(self.radixes) * 2` (only its first `len(perm)`
entries are used by `StateVector.apply`). -/
def contractFront (sh : List Nat) (t m : T α) (sel others : List Nat) : Except Err (T α) := do
  let leftDim := prod (sel.map (sh.getD · 0))        -- left_dim = prod(radixes[x] for x in left_perm)
  let perm := sel ++ others                          -- perm = left_perm + mid_perm + right_perm
  let t ← t.transpose perm                           -- tensor.transpose(perm)
  let t ← t.reshapeL leftDim                         -- .reshape((left_dim, -1))
  let t ← matmul m t                                 -- utry @ tensor
  let shape := perm.map (sh.getD · 0)                -- shape = [shape[p] for p in perm]
  let t ← t.reshape shape                            -- .reshape(shape)
  let invPerm := argsort perm                        -- inv_perm = list(np.argsort(perm))
  t.transpose invPerm                                -- .transpose(inv_perm)

/-- The same for `apply_left` / `eval_apply_left`: the axes `sel` are moved to the back
and `m` multiplies from the right. -/
def contractBack (sh : List Nat) (t m : T α) (others sel : List Nat) : Except Err (T α) := do
  let rightDim := prod (sel.map (sh.getD · 0))       -- right_dim = prod(radixes[x - n] for x in right_perm)
  let perm := others ++ sel                          -- perm = left_perm + mid_perm + right_perm
  let t ← t.transpose perm
  let t ← t.reshapeR rightDim                        -- .reshape((-1, right_dim))
  let t ← matmul t m                                 -- tensor @ utry
  let shape := perm.map (sh.getD · 0)
  let t ← t.reshape shape
  let invPerm := argsort perm
  t.transpose invPerm

/-- A `UnitaryMatrix`: radixes and a `(d, d)` array. -/
structure UM (α : Type) where
  radixes : List Nat
  mat : T α

/-- `UnitaryBuilder`: `radixes` and the rank-`2n` tensor. -/
structure Builder (α : Type) where
  radixes : List Nat
  tensor : T α

/-- `UnitaryBuilder(num_qudits, radixes)`: identity reshaped to `radixes * 2`. -/
def Builder.new [One α] (radixes : List Nat) : Builder α :=
  ⟨radixes, ⟨radixes ++ radixes, (identity (prod radixes)).data⟩⟩

/-- `UnitaryBuilder.get_unitary`: `tensor.reshape((dim, dim))`. -/
def Builder.getUnitary (b : Builder α) : T α :=
  ⟨[prod b.radixes, prod b.radixes], b.tensor.data⟩

/-- The `check_arguments` block of `apply_right` / `apply_left` / `StateVector.apply`. -/
def checkArgs (radixes : List Nat) (u : UM α) (loc : List Nat) : Except Err Unit := do
  if !isLocation loc radixes.length then throw .typeError          -- 'Invalid location.'
  if loc.length ≠ u.radixes.length then throw .valueError          -- size mismatch
  if (u.radixes.zip loc).any (fun p => p.1 ≠ radixes.getD p.2 0) then
    throw .valueError                                              -- radix mismatch
  pure ()

/-- `UnitaryBuilder.apply_right(utry, location, inverse, check_arguments)`. -/
def Builder.applyRight (conj : α → α) (b : Builder α) (u : UM α) (loc : List Nat)
    (inverse : Bool := false) (check : Bool := true) : Except Err (Builder α) := do
  let n := b.radixes.length
  if check then checkArgs b.radixes u loc
  let leftPerm := loc                                              -- left_perm = list(location)
  let midPerm := rest n leftPerm                                   -- mid_perm
  let rightPerm := (List.range n).map (· + n)                      -- right_perm
  let m := if inverse then dagger conj u.mat else u.mat            -- utry.dagger if inverse
  let t ← contractFront (b.radixes ++ b.radixes) b.tensor m leftPerm (midPerm ++ rightPerm)
  pure ⟨b.radixes, t⟩

/-- `UnitaryBuilder.apply_left(utry, location, inverse, check_arguments)`. -/
def Builder.applyLeft (conj : α → α) (b : Builder α) (u : UM α) (loc : List Nat)
    (inverse : Bool := false) (check : Bool := true) : Except Err (Builder α) := do
  let n := b.radixes.length
  if check then checkArgs b.radixes u loc
  let leftPerm := List.range n                                     -- left_perm = range(n)
  let midPerm := (leftPerm.filter (fun x => !loc.contains x)).map (· + n)
  let rightPerm := loc.map (· + n)                                 -- right_perm
  let m := if inverse then dagger conj u.mat else u.mat
  let t ← contractBack (b.radixes ++ b.radixes) b.tensor m (leftPerm ++ midPerm) rightPerm
  pure ⟨b.radixes, t⟩

/-- `UnitaryBuilder.eval_apply_right(M, location)`: the `(dim, dim)` result, builder
unchanged (no argument checks in the code). -/
def Builder.evalApplyRight (b : Builder α) (m : T α) (loc : List Nat) : Except Err (T α) := do
  let n := b.radixes.length
  let t ← contractFront (b.radixes ++ b.radixes) b.tensor m loc
    (rest n loc ++ (List.range n).map (· + n))
  t.reshape [prod b.radixes, prod b.radixes]

/-- `UnitaryBuilder.eval_apply_left(M, location)`. -/
def Builder.evalApplyLeft (b : Builder α) (m : T α) (loc : List Nat) : Except Err (T α) := do
  let n := b.radixes.length
  let t ← contractBack (b.radixes ++ b.radixes) b.tensor m
    (List.range n ++ ((List.range n).filter (fun x => !loc.contains x)).map (· + n))
    (loc.map (· + n))
  t.reshape [prod b.radixes, prod b.radixes]

/-- `StateVector.apply(utry, location, inverse, check_arguments)` on the flat vector
`vec` (shape `[dim]`). -/
def svApply (conj : α → α) (radixes : List Nat) (vec : T α) (u : UM α) (loc : List Nat)
    (inverse : Bool := false) (check : Bool := true) : Except Err (T α) := do
  let n := radixes.length
  if check then checkArgs radixes u loc
  let m := if inverse then dagger conj u.mat else u.mat
  let v ← vec.reshape radixes                                      -- _vec.reshape(self.radixes)
  let v ← contractFront (radixes ++ radixes) v m loc (rest n loc)  -- perm = unitary_action_perm + identity_action_perm
  v.reshape [prod radixes]                                         -- .reshape(-1)

/-- `np.trace(a)` of a rank-4 array `(e, e', d, d')`: sum over the first two axes'
diagonal, result of shape `(d, d')`. -/
def trace4 (t : T α) : Except Err (T α) :=
  match t.shape with
  | [e, e', d, d'] =>
    .ok (ofFn [d, d'] (fun idx =>
      ((List.range (min e e')).map (fun x => t.get [x, x, idx.getD 0 0, idx.getD 1 0])).sum))
  | _ => .error .valueError

/-- `UnitaryBuilder.calc_env_matrix(location)` — note the hard-coded `2 **`: for
non-qubit radixes the `reshape` raises (or silently mis-shapes when the sizes happen to
agree). -/
def Builder.calcEnvMatrix (b : Builder α) (loc : List Nat) : Except Err (T α) := do
  let n := b.radixes.length
  let leftPerm := rest n loc
  let leftPerm := leftPerm ++ leftPerm.map (· + n)
  let rightPerm := loc ++ loc.map (· + n)
  let perm := leftPerm ++ rightPerm
  let a ← b.tensor.transpose perm
  let e := 2 ^ (n - loc.length)
  let d := 2 ^ loc.length
  let a ← a.reshape [e, e, d, d]
  trace4 a

/-! ### the definition `embed` is compared with -/

/-- `(embed M loc)[r, c] = M[r|loc, c|loc] · [r|rest = c|rest]` on the mixed-radix digit
strings of `r` and `c` (qudit 0 most significant). -/
def embedEntry (radixes : List Nat) (m : T α) (loc : List Nat) (r c : Nat) : α :=
  let rd := unravel radixes r
  let cd := unravel radixes c
  let locR := loc.map (radixes.getD · 0)
  let others := rest radixes.length loc
  if pick rd others = pick cd others then
    m.get [ravel locR (pick rd loc), ravel locR (pick cd loc)]
  else 0

def embedMat (radixes : List Nat) (m : T α) (loc : List Nat) : T α :=
  ofFn [prod radixes, prod radixes]
    (fun idx => embedEntry radixes m loc (idx.getD 0 0) (idx.getD 1 0))

/-- `(a · b)[r, c]` of two `(d, d)` matrix views. -/
def mulEntry (d : Nat) (a b : Nat → Nat → α) (r c : Nat) : α :=
  ((List.range d).map (fun k => a r k * b k c)).sum

end

end BqVerif.Tensor
