/-! C10 — Walsh diagonal synthesis: the classical action of `pauli_to_subcircuit`'s CNOT ladder.
A computational basis state is an assignment of bits to qubits; `CNOT(c, t)` xors bit `c` into bit
`t`. For the Pauli-Z string with support `locs` the pass emits the ladder CNOT(l₀,l₁), CNOT(l₁,l₂), …,
then RZ(θ) on the last location, then the ladder reversed. -/
namespace BqVerif.Walsh

abbrev Bits := Nat → Bool

def cnot (c t : Nat) (x : Bits) : Bits := fun q => if q = t then xor (x t) (x c) else x q

/-- `pairs = [(locations[i], locations[i+1])]`. -/
def pairs : List Nat → List (Nat × Nat)
  | a :: b :: rest => (a, b) :: pairs (b :: rest)
  | _ => []

def ladder (ps : List (Nat × Nat)) (x : Bits) : Bits := ps.foldl (fun x p => cnot p.1 p.2 x) x

/-- Parity of the bits of `x` on `locs`. -/
def parity (locs : List Nat) (x : Bits) : Bool := locs.foldr (fun q acc => xor (x q) acc) false

end BqVerif.Walsh
