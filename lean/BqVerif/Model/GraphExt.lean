import BqVerif.Model.Graph
/-
Further functions of `bqskit/qis/graph.py` (CouplingGraph), transcribed as they
are: `is_fully_connected_without`, and the QPU functions
`get_qpu_to_qudit_map`, `get_qudit_to_qpu_map`, `get_qpu_connectivity`.

Executable, total, no imports besides the graph model.
-/
namespace BqVerif.Graph

/-! ### is_fully_connected_without -/

/-- The `while len(frontier) > 0` loop of `is_fully_connected_without(qudit)`.
Differences to `is_fully_connected`, kept as written: `qudits_seen` starts as
the start set, the frontier itself is never added to the expansion (only the
neighbours are), `qudit` is removed from every neighbourhood, and the target
size is `num_qudits - 1`. -/
def fcwLoop (g : G) (q : Nat) : Nat → List Nat → List Nat → Bool
  | 0, _, _ => false
  | fuel + 1, frontier, seen =>
    if frontier.isEmpty then false else
    let expanded := ((frontier.filter (· != q)).flatMap
      (fun v => (g.adj v).filter (· != q))).eraseDups
    let frontier' := expanded.filter (fun v => !seen.contains v)
    let seen' := seen ++ frontier'
    if seen'.length == g.n - 1 then true else fcwLoop g q fuel frontier' seen'

/-- `is_fully_connected_without(qudit)`.  The start vertex is 0, or 1 when
`qudit = 0`; `get_neighbors_of(start)` raises IndexError when `start ≥ n`
(`n = 1, qudit = 0`, or `n = 0`): `none`.  `qudit ≥ n` is not rejected by the
code: the loop then runs on the whole graph with target size `n - 1`. -/
def G.isFullyConnectedWithout (g : G) (q : Nat) : Option Bool :=
  let start := if q != 0 then 0 else 1
  if start ≥ g.n then none else
  some (fcwLoop g q (g.n + 2) [start] [start])

/-! ### QPUs: connected components of the graph without its remote edges -/

/-- neighbours of `v` over non-remote edges (`remote` normalised, as
`_remote_edges` is). -/
def localAdj (g : G) (remote : List (Nat × Nat)) (v : Nat) : List Nat :=
  (g.adj v).filter (fun u => !remote.contains (norm (v, u)))

/-- The inner `while len(frontier) > 0` loop of `get_qpu_to_qudit_map`; the
order in which `frontier.pop()` returns the elements is not modelled (the
result is compared as a set): here first in, first out. -/
def compLoop (g : G) (remote : List (Nat × Nat)) : Nat → List Nat → List Nat → List Nat
  | 0, _, qpu => qpu
  | _ + 1, [], qpu => qpu
  | fuel + 1, node :: rest, qpu =>
    let qpu' := if qpu.contains node then qpu else qpu ++ [node]
    let new := (localAdj g remote node).filter
      (fun u => !qpu'.contains u && !rest.contains u)
    compLoop g remote fuel (rest ++ new) qpu'

/-- `get_qpu_to_qudit_map()`: QPUs in order of discovery (`for qudit in
range(num_qudits)`), i.e. by increasing smallest member. -/
def G.qpuToQudit (g : G) (remote : List (Nat × Nat)) : List (List Nat) :=
  (List.range g.n).foldl (fun qpus qudit =>
    if qpus.any (·.contains qudit) then qpus
    else qpus ++ [compLoop g remote (g.n + 1) [qudit] []]) []

/-- `get_qudit_to_qpu_map()` (since the fix 2c665e0): the dict `qudit ↦ qpu` is
filled QPU by QPU (a later assignment overwrites an earlier one) and
`[qudit_to_qpu[q] for q in range(num_qudits)]` is returned; `none` = KeyError
(a qudit in no QPU — cannot happen, see `Proofs/GraphQpu.lean`). -/
def G.quditToQpuImpl? (g : G) (remote : List (Nat × Nat)) : Option (List Nat) :=
  let d : List (Nat × Nat) :=
    (g.qpuToQudit remote).zipIdx.flatMap (fun qi => qi.1.map (fun q => (q, qi.2)))
  (List.range g.n).mapM (fun q => (d.reverse.find? (fun kv => kv.1 == q)).map (·.2))

def G.quditToQpuImpl (g : G) (remote : List (Nat × Nat)) : List Nat :=
  (g.quditToQpuImpl? remote).getD []

/-- what the docstring says: entry `q` is the index of the QPU holding `q`. -/
def G.quditToQpuSpec (g : G) (remote : List (Nat × Nat)) : List Nat :=
  let qpus := g.qpuToQudit remote
  (List.range g.n).map (fun q => qpus.findIdx (·.contains q))

/-- `get_qpu_connectivity()` given a qudit→qpu list: for every remote edge the
two looked-up QPUs are made adjacent. -/
def qpuConnWith (count : Nat) (q2q : List Nat) (remote : List (Nat × Nat)) : List (List Nat) :=
  let adj0 : List (List Nat) := List.replicate count []
  let add (adj : List (List Nat)) (a b : Nat) : List (List Nat) :=
    adj.modify a (fun l => if l.contains b then l else l ++ [b])
  remote.foldl (fun adj e =>
    let a := q2q.getD e.1 0
    let b := q2q.getD e.2 0
    add (add adj a b) b a) adj0

def G.qpuConnImpl (g : G) (remote : List (Nat × Nat)) : List (List Nat) :=
  qpuConnWith (g.qpuToQudit remote).length (g.quditToQpuImpl remote) remote

def G.qpuConnSpec (g : G) (remote : List (Nat × Nat)) : List (List Nat) :=
  qpuConnWith (g.qpuToQudit remote).length (g.quditToQpuSpec remote) remote

end BqVerif.Graph
