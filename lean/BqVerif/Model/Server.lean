/-
Model of the client-facing request machine of `bqskit/runtime/detached.py`
(`DetachedServer`) as it is after the `fix:` commits eb84cdb, 3a23d26 and 9f2bad4, of the run loop of
`bqskit/runtime/base.py` (`ServerBase.run`: an exception in a handler ->
`handle_system_error` -> `handle_shutdown`), of the error path
worker -> manager -> server (`worker.py:_try_step_next_ready_task`,
`manager.py:handle_message`) and of the client's receive loop
(`compiler.py:_recv_handle_log_error`).

Executable, total, import-free.

* Python dicts are association lists with `get?/set/del`; every `d[k]`,
  `d.pop(k)` and `set.remove(x)` of the real code is an `Except` whose error is
  `keyError` - the observable outcome "the handler raised".
* Connections, task ids (uuids) and message texts are natural numbers (the
  harness canonicalises by first-seen index).  Message text `0` is the literal
  `'Unknown task.'`.
* `schedule_tasks` / `broadcast` are abstracted to the log entries
  `downSubmit m` / `downCancel m` (C15 owns the scheduler arithmetic).
* `ServerMailbox.ready` is `result is not None`; result payloads are naturals,
  `none` = no result yet.
-/
namespace BqVerif.Server

abbrev Conn := Nat
abbrev Tid := Nat
abbrev Mid := Nat

inductive Err where
  | keyError
deriving DecidableEq, Repr

/-! ### dictionaries -/

def get? {α : Type} : List (Nat × α) → Nat → Option α
  | [], _ => none
  | (k', v) :: t, k => if k' = k then some v else get? t k

def del {α : Type} (l : List (Nat × α)) (k : Nat) : List (Nat × α) :=
  l.filter (fun p => p.1 != k)

def set {α : Type} (l : List (Nat × α)) (k : Nat) (v : α) : List (Nat × α) :=
  (k, v) :: del l k

/-- `set.remove(x)`: KeyError when absent. -/
def removeTid (ts : List Tid) (t : Tid) : Except Err (List Tid) :=
  if t ∈ ts then .ok (ts.filter (· != t)) else .error .keyError

/-- `set.add(x)` -/
def addTid (ts : List Tid) (t : Tid) : List Tid := if t ∈ ts then ts else t :: ts

/-! ### state -/

/-- `CompilationStatus` -/
inductive CStat where
  | unknown | running | done
deriving DecidableEq, Repr

/-- `ServerMailbox` -/
structure Box where
  result : Option Nat
  waiting : Bool
deriving DecidableEq, Repr

/-- What a handler emits: `outgoing.put((conn, MSG, payload))` for a client
connection, `conn.close()`, or the abstracted downward traffic. -/
inductive Out where
  | status (c : Conn) (s : CStat)
  | cancelAck (c : Conn)
  | errorTo (c : Conn) (msg : Nat)
  | errorNow (c : Conn) (msg : Nat)   -- `conn.send((ERROR, msg))` written by the handler itself
  | resultTo (c : Conn) (v : Nat)
  | logTo (c : Conn) (msg : Nat)
  | ready (c : Conn)
  | close (c : Conn)
  | downSubmit (m : Mid)
  | downCancel (m : Mid)
  | downImportPath
deriving DecidableEq, Repr

structure Srv where
  clients : List (Conn × List Tid)
  tasks : List (Tid × (Mid × Conn))
  m2t : List (Mid × Tid)
  boxes : List (Mid × Box)
  counter : Nat
  running : Bool
  closed : List Conn
  out : List Out
deriving Repr

def init : Srv := ⟨[], [], [], [], 0, true, [], []⟩

def Srv.emit (s : Srv) (o : Out) : Srv := { s with out := s.out ++ [o] }

/-- Everything a client or the layer below can make the server process. -/
inductive Ev where
  | connect (c : Conn)                 -- listener thread: `clients[client] = set()`; `sel.register`
  | hello (c : Conn)                   -- CLIENT CONNECT  -> handle_connect
  | submit (c : Conn) (t : Tid)        -- CLIENT SUBMIT   -> handle_new_comp_task
  | request (c : Conn) (t : Tid)       -- CLIENT REQUEST  -> handle_request
  | status (c : Conn) (t : Tid)        -- CLIENT STATUS   -> handle_status
  | cancel (c : Conn) (t : Tid)        -- CLIENT CANCEL   -> handle_cancel_comp_task(t, conn)
  | disconnect (c : Conn)              -- CLIENT DISCONNECT or EOF -> handle_disconnect
  | result (m : Mid) (v : Nat)         -- BELOW RESULT with return address (-1, m, 0)
  | error (m : Mid) (msg : Nat)        -- BELOW ERROR (m, msg)
  | log (m : Mid) (msg : Nat)          -- BELOW LOG (m, msg)
deriving DecidableEq, Repr

/-! ### handlers (line by line after detached.py) -/

/-- body of `handle_cancel_comp_task` after the client guard. -/
def cancelCore (s : Srv) (t : Tid) : Except Err Srv :=
  match get? s.tasks t with                       -- mailbox_id, client_conn = self.tasks[request]
  | none => .error .keyError
  | some (m, cc) =>
    match get? s.boxes m with                     -- self.mailboxes.pop(mailbox_id)
    | none => .error .keyError
    | some _ =>
      let s1 := { s with boxes := del s.boxes m }
      let r : Except Err Srv :=
        match get? s1.clients cc with             -- if client_conn in self.clients:
        | none => .ok s1
        | some ts =>
          match removeTid ts t with               --   self.clients[client_conn].remove(request)
          | .error e => .error e
          | .ok ts' => .ok { s1 with clients := set s1.clients cc ts' }
      match r with
      | .error e => .error e
      | .ok s2 =>
        let s3 := s2.emit (.downCancel m)         -- self.broadcast(CANCEL, addr)
        if cc ∈ s3.closed then .ok s3             -- if not client_conn.closed:
        else .ok (s3.emit (.cancelAck cc))        --   outgoing.put((client_conn, CANCEL, None))

def cancelAll : List Tid → Srv → Except Err Srv
  | [], s => .ok s
  | t :: r, s =>
    match cancelCore s t with
    | .error e => .error e
    | .ok s' => cancelAll r s'

/-- `tasks_to_pop` of `handle_disconnect`. -/
def ownedBy (tasks : List (Tid × (Mid × Conn))) (c : Conn) : List (Tid × Mid) :=
  (tasks.filter (fun e => e.2.2 == c)).map (fun e => (e.1, e.2.1))

def popList : List (Tid × Mid) → Srv → Except Err Srv
  | [], s => .ok s
  | (t, m) :: r, s =>
    match get? s.tasks t with                     -- self.tasks.pop(task_id)
    | none => .error .keyError
    | some _ =>
      match get? s.m2t m with                     -- self.mailbox_to_task_dict.pop(tid)
      | none => .error .keyError
      | some _ => popList r { s with tasks := del s.tasks t, m2t := del s.m2t m }

/-- `DetachedServer.handle_disconnect` (incl. `ServerBase.handle_disconnect`:
`sel.unregister(conn)` raises KeyError for an unregistered connection; the
registered client connections are exactly the keys of `clients`). -/
def handleDisconnect (s : Srv) (c : Conn) : Except Err Srv :=
  match get? s.clients c with
  | none => .error .keyError                      -- sel.unregister / clients.pop
  | some ts =>
    let s1 := { s with closed := c :: s.closed, clients := del s.clients c }.emit (.close c)
    match cancelAll ts s1 with                    -- for task_id in tasks: handle_cancel_comp_task
    | .error e => .error e
    | .ok s2 => popList (ownedBy s2.tasks c) s2

def handleNewCompTask (s : Srv) (c : Conn) (t : Tid) : Except Err Srv :=
  let m := s.counter
  let s1 := { s with counter := s.counter + 1,
                     tasks := set s.tasks t (m, c),
                     m2t := set s.m2t m t,
                     boxes := set s.boxes m ⟨none, false⟩ }
  match get? s1.clients c with                    -- self.clients[conn].add(task_id)
  | none => .error .keyError
  | some ts => .ok ({ s1 with clients := set s1.clients c (addTid ts t) }.emit (.downSubmit m))

/-- `request not in self.clients[conn] or request not in self.tasks` -/
def notMine (s : Srv) (c : Conn) (t : Tid) : Except Err Bool :=
  match get? s.clients c with
  | none => .error .keyError
  | some ts => .ok (!(ts.contains t) || (get? s.tasks t).isNone)

def handleRequest (s : Srv) (c : Conn) (t : Tid) : Except Err Srv :=
  match notMine s c t with
  | .error e => .error e
  | .ok true => handleDisconnect (s.emit (.errorNow c 0)) c     -- 'Unknown task.' sent directly (fix 9f2bad4); Bad client
  | .ok false =>
    match get? s.tasks t with
    | none => .error .keyError
    | some (m, _) =>
      match get? s.boxes m with
      | none => .error .keyError
      | some box =>
        match box.result with
        | some v =>
          let s1 := { s.emit (.resultTo c v) with boxes := del s.boxes m }
          match get? s1.clients c with
          | none => .error .keyError
          | some ts =>
            match removeTid ts t with
            | .error e => .error e
            | .ok ts' => .ok { s1 with clients := set s1.clients c ts' }
        | none => .ok { s with boxes := set s.boxes m { box with waiting := true } }

def handleStatus (s : Srv) (c : Conn) (t : Tid) : Except Err Srv :=
  match notMine s c t with
  | .error e => .error e
  | .ok true => .ok (s.emit (.status c .unknown))
  | .ok false =>
    match get? s.tasks t with
    | none => .error .keyError
    | some (m, _) =>
      match get? s.boxes m with
      | none => .error .keyError
      | some box =>
        .ok (s.emit (.status c (if box.result.isSome then .done else .running)))

def handleCancel (s : Srv) (c : Conn) (t : Tid) : Except Err Srv :=
  match notMine s c t with
  | .error e => .error e
  | .ok true => .ok (s.emit (.cancelAck c))
  | .ok false => cancelCore s t

def handleResult (s : Srv) (m : Mid) (v : Nat) : Except Err Srv :=
  match get? s.boxes m with
  | none => .ok s                                 -- silently discard
  | some box =>
    let s1 := { s with boxes := set s.boxes m { box with result := some v } }
    match get? s1.m2t m with                      -- t_id = self.mailbox_to_task_dict[mailbox_id]
    | none => .error .keyError
    | some t =>
      if box.waiting then
        match get? s1.tasks t with                -- self.tasks[t_id][1]
        | none => .error .keyError
        | some (_, c) =>
          let s2 := s1.emit (.resultTo c v)
          match get? s2.clients c with            -- self.clients[...].remove(t_id)
          | none => .error .keyError
          | some ts =>
            match removeTid ts t with
            | .error e => .error e
            | .ok ts' => .ok { s2 with clients := set s2.clients c ts', boxes := del s2.boxes m }
      else .ok s1

/-- shared shape of `handle_error` (tuple payload) and `handle_log`. -/
def routeUp (s : Srv) (m : Mid) (mk : Conn → Out) : Except Err Srv :=
  match get? s.m2t m with
  | none => .ok s                                 -- silently discard
  | some t =>
    match get? s.tasks t with                     -- self.tasks[...][1]
    | none => .error .keyError
    | some (_, c) => .ok (s.emit (mk c))

/-- `handle_error` (tuple payload), after fix 3a23d26:
`if tid not in self.mailbox_to_task_dict or tid not in self.mailboxes: return` -/
def handleError (s : Srv) (m : Mid) (msg : Nat) : Except Err Srv :=
  if (get? s.m2t m).isNone || (get? s.boxes m).isNone then .ok s
  else routeUp s m (fun c => .errorTo c msg)

def handleConnect (s : Srv) (c : Conn) : Except Err Srv :=
  .ok ((s.emit .downImportPath).emit (.ready c))

/-- `handle_message`, starting from an empty per-step log. -/
def step (s : Srv) (e : Ev) : Except Err Srv :=
  let s := { s with out := [] }
  match e with
  | .connect c => .ok { s with clients := set s.clients c [] }
  | .hello c => handleConnect s c
  | .submit c t => handleNewCompTask s c t
  | .request c t => handleRequest s c t
  | .status c t => handleStatus s c t
  | .cancel c t => handleCancel s c t
  | .disconnect c => handleDisconnect s c
  | .result m v => handleResult s m v
  | .error m msg => handleError s m msg
  | .log m msg => routeUp s m (fun c => .logTo c msg)

/-- `handle_system_error` + `handle_shutdown` as far as clients see it. -/
def shutdown (s : Srv) : Srv :=
  { s with running := false, clients := [],
           closed := s.clients.map (·.1) ++ s.closed,
           out := s.clients.map (fun p => Out.errorTo p.1 1) ++ s.clients.map (fun p => Out.close p.1) }

/-- One iteration of `ServerBase.run` for one received message. -/
def runLoop (s : Srv) (e : Ev) : Srv :=
  match step s e with
  | .ok s' => s'
  | .error _ => shutdown s

/-- Which events the environment can produce in state `s`: client messages
only come from registered client connections, a fresh uuid per submit, a fresh
`Connection` object per accept. -/
def wf (s : Srv) : Ev → Bool
  | .connect c => (get? s.clients c).isNone && !(s.closed.contains c)
  | .hello c | .request c _ | .status c _ | .cancel c _ | .disconnect c =>
    (get? s.clients c).isSome
  | .submit c t => (get? s.clients c).isSome && (get? s.tasks t).isNone
  | .result .. | .error .. | .log .. => true

/-! ### the per-task automaton (specification) -/

inductive TaskSt where
  | unknown
  | running (owner : Conn) (waiting : Bool)
  | done (owner : Conn) (v : Nat)
  | delivered (owner : Conn)
  | cancelled (owner : Conn)
deriving DecidableEq, Repr

def TaskSt.owner : TaskSt → Option Conn
  | .unknown => none
  | .running c _ | .done c _ | .delivered c | .cancelled c => some c

/-- the task is open for its owner `c` (RUNNING or DONE) -/
def TaskSt.openFor (st : TaskSt) (c : Conn) : Bool :=
  match st with
  | .running o _ | .done o _ => o == c
  | _ => false

/-- what `status` tells client `c` about a task in this state -/
def TaskSt.statusFor (st : TaskSt) (c : Conn) : CStat :=
  match st with
  | .running o _ => if o = c then .running else .unknown
  | .done o _ => if o = c then .done else .unknown
  | _ => .unknown

structure Abs where
  conn : Conn → Bool
  task : Tid → TaskSt

def absInit : Abs := ⟨fun _ => false, fun _ => .unknown⟩

/-- Requests as the automaton sees them: arrivals from below are indexed by the
task they belong to (`none`: the mailbox id names no task of a connected client). -/
inductive Req where
  | connect (c : Conn)
  | hello (c : Conn)
  | submit (c : Conn) (t : Tid)
  | request (c : Conn) (t : Tid)
  | status (c : Conn) (t : Tid)
  | cancel (c : Conn) (t : Tid)
  | disconnect (c : Conn)
  | result (t : Option Tid) (v : Nat)
  | error (t : Option Tid) (msg : Nat)
  | log (t : Option Tid) (msg : Nat)
deriving DecidableEq, Repr

/-- client-visible effects, in order -/
inductive Reply where
  | status (c : Conn) (s : CStat)
  | cancelAck (c : Conn)
  | errorTo (c : Conn) (msg : Nat)
  | resultTo (c : Conn) (v : Nat)
  | logTo (c : Conn) (msg : Nat)
  | ready (c : Conn)
  | close (c : Conn)
deriving DecidableEq, Repr

def Abs.setTask (a : Abs) (t : Tid) (st : TaskSt) : Abs :=
  { a with task := fun t' => if t' = t then st else a.task t' }

/-- the client is gone: its connection is closed and the server forgets all its tasks -/
def Abs.drop (a : Abs) (c : Conn) : Abs :=
  { conn := fun c' => if c' = c then false else a.conn c',
    task := fun t => if (a.task t).owner = some c then .unknown else a.task t }

def spec (a : Abs) : Req → Abs × List Reply
  | .connect c => ({ a with conn := fun c' => if c' = c then true else a.conn c' }, [])
  | .hello c => (a, [.ready c])
  | .submit c t => (a.setTask t (.running c false), [])
  | .request c t =>
    match a.task t with
    | .running o _ =>
      if o = c then (a.setTask t (.running o true), [])
      else (a.drop c, [.errorTo c 0, .close c])
    | .done o v =>
      if o = c then (a.setTask t (.delivered o), [.resultTo c v])
      else (a.drop c, [.errorTo c 0, .close c])
    | _ => (a.drop c, [.errorTo c 0, .close c])
  | .status c t => (a, [.status c ((a.task t).statusFor c)])
  | .cancel c t =>
    if (a.task t).openFor c then (a.setTask t (.cancelled c), [.cancelAck c])
    else (a, [.cancelAck c])
  | .disconnect c => (a.drop c, [.close c])
  | .result none _ => (a, [])
  | .result (some t) v =>
    match a.task t with
    | .running o false => (a.setTask t (.done o v), [])
    | .running o true => (a.setTask t (.delivered o), [.resultTo o v])
    | .done o _ => (a.setTask t (.done o v), [])
    | _ => (a, [])
  | .error none _ => (a, [])
  | .error (some t) msg =>
    match a.task t with
    | .running o _ => (a, [.errorTo o msg])
    | .done o _ => (a, [.errorTo o msg])
    | _ => (a, [])             -- cancelled, delivered, unknown: discarded
  | .log none _ => (a, [])
  | .log (some t) msg =>
    match (a.task t).owner with
    | some o => (a, [.logTo o msg])
    | none => (a, [])

/-- how a concrete event reads as a request of the automaton -/
def absEv (s : Srv) : Ev → Req
  | .connect c => .connect c
  | .hello c => .hello c
  | .submit c t => .submit c t
  | .request c t => .request c t
  | .status c t => .status c t
  | .cancel c t => .cancel c t
  | .disconnect c => .disconnect c
  | .result m v => .result (get? s.m2t m) v
  | .error m msg => .error (get? s.m2t m) msg
  | .log m msg => .log (get? s.m2t m) msg

def Out.reply? : Out → Option Reply
  | .status c s => some (.status c s)
  | .cancelAck c => some (.cancelAck c)
  | .errorTo c m => some (.errorTo c m)
  | .errorNow c m => some (.errorTo c m)
  | .resultTo c v => some (.resultTo c v)
  | .logTo c m => some (.logTo c m)
  | .ready c => some (.ready c)
  | .close c => some (.close c)
  | .downSubmit _ | .downCancel _ | .downImportPath => none

def clientReplies (out : List Out) : List Reply := out.filterMap Out.reply?

def Reply.isClose : Reply → Bool
  | .close _ => true
  | _ => false

def Reply.conn : Reply → Conn
  | .status c _ | .cancelAck c | .errorTo c _ | .resultTo c _ | .logTo c _ | .ready c | .close c => c

/-- What really reaches the clients of a handler's client-visible effects: what the handler
writes itself (`errorNow`) and `close` always; a queued message (`outgoing.put`) only if the
handler does not close that connection afterwards - `send_outgoing` skips closed connections
and looks at the queue after the handler returned. -/
def writtenOne (out : List Out) (o : Out) : Option Reply :=
  match o with
  | .close c => some (.close c)
  | .errorNow c m => some (.errorTo c m)
  | o =>
    match o.reply? with
    | some r => if out.contains (.close r.conn) then none else some r
    | none => none

def writtenReplies (out : List Out) : List Reply := out.filterMap (writtenOne out)

/-! ### error bubbling: worker -> manager* -> server, and the client's receive loop -/

/-- `RuntimeAddress(worker_id, mailbox_index, mailbox_slot)`; the root task of a
compilation has `worker_id = -1`. -/
abbrev Addr := Int × Nat × Nat

/-- the fields of `RuntimeTask` the error path reads -/
structure RTask where
  addr : Addr                 -- return_address
  comp : Mid                  -- comp_task_id
  crumbs : List Addr          -- breadcrumbs
deriving DecidableEq, Repr

/-- `handle_new_comp_task`: `RuntimeTask(…, RuntimeAddress(-1, m, 0), m, tuple(), …)` -/
def rootTask (m : Mid) : RTask := ⟨(-1, m, 0), m, []⟩

/-- `Worker.submit` / `Worker.map` executed by the active task `p` on worker `w`:
`comp_task_id` is copied, the parent's address is appended to the breadcrumbs. -/
def spawn (p : RTask) (w : Int) (mb slot : Nat) : RTask :=
  ⟨(w, mb, slot), p.comp, p.crumbs ++ [p.addr]⟩

/-- `RuntimeTask.is_descendant_of` -/
def RTask.isDescendantOf (t : RTask) (a : Addr) : Bool := a == t.addr || t.crumbs.contains a

inductive Up where
  | error (m : Mid) (msg : Nat)
deriving DecidableEq, Repr

/-- the `except Exception` branch of `Worker._try_step_next_ready_task`:
a plain `RuntimeError` of a task below a cancelled address is swallowed,
everything else is sent up as `ERROR (comp_task_id, text)`. -/
def workerOnException (cancelled : List Addr) (t : RTask) (isPlainRuntimeError : Bool)
    (msg : Nat) : Option Up :=
  if isPlainRuntimeError && cancelled.any t.isDescendantOf then none
  else some (.error t.comp msg)

/-- message kinds a manager can receive from below -/
inductive Kind where
  | submit | submitBatch | result | waiting | update | error | log | cancel | shutdown
  | communicate
deriving DecidableEq, Repr

/-- `Manager.handle_message`, direction BELOW: the `else` branch forwards the
message unchanged to `upstream`. -/
def mgrForwardsVerbatim (k : Kind) : Bool :=
  match k with
  | .submit | .submitBatch | .result | .waiting | .update => false
  | _ => true

def mgrBelow (u : Up) : Up :=
  match u with
  | .error m msg => if mgrForwardsVerbatim .error then .error m msg else .error m 0

/-- `k` manager levels between the worker and the server -/
def throughManagers : Nat → Up → Up
  | 0, u => u
  | k + 1, u => throughManagers k (mgrBelow u)

def Up.toEv : Up → Ev
  | .error m msg => .error m msg

/-- what arrives on the client's connection -/
inductive CMsg where
  | log (x : Nat)
  | error (msg : Nat)
  | other (r : Reply)         -- RESULT / STATUS / CANCEL / READY
deriving DecidableEq, Repr

inductive COut where
  | raised (msg : Nat)        -- RuntimeError(payload)
  | returned (r : Reply)
  | blocked                   -- nothing but logs so far: `recv()` blocks
deriving DecidableEq, Repr

/-- `Compiler._recv_handle_log_error` on the messages available in the pipe:
`while to_return is None or self.conn.poll()`. -/
def recvHandle : List CMsg → Option Reply → COut
  | [], some r => .returned r
  | [], none => .blocked
  | .log _ :: rest, tr => recvHandle rest tr
  | .error m :: _, _ => .raised m
  | .other r :: rest, _ => recvHandle rest (some r)

/-- outcome of `Compiler._recv_log_error_until_empty` (run before every request is sent) -/
inductive PreOut where
  | clean                     -- nothing but LOG records were pending: the request goes out
  | raised (msg : Nat)        -- a pending ERROR: RuntimeError(payload)
  | unexpected                -- any other pending message: RuntimeError('Unexpected message type')
deriving DecidableEq, Repr

/-- `_recv_log_error_until_empty` after fix 131dac7: pending LOG records are unpickled and
emitted like in the receive loop, the first other pending message decides. -/
def preDrain : List CMsg → PreOut
  | [] => .clean
  | .log _ :: rest => preDrain rest
  | .error m :: _ => .raised m
  | .other _ :: _ => .unexpected

/-- what the caller of `Compiler._send_recv` gets (status / result / cancel): every exception
below it - the RuntimeError of an ERROR message included - is replaced by
`RuntimeError('Server connection unexpectedly closed.') from e` and the connection is dropped;
the original text survives only as `__cause__`. -/
inductive ApiOut where
  | returned (r : Reply)
  | wrapped (cause : Option Nat)   -- top-level text is the fixed string; `cause` = ERROR text if any
  | blocked
deriving DecidableEq, Repr

/-- `_send_recv` with `pending` messages in the pipe when the call starts and `arriving`
messages after the request was sent -/
def sendRecv (pending arriving : List CMsg) : ApiOut :=
  match preDrain pending with
  | .raised m => .wrapped (some m)
  | .unexpected => .wrapped none
  | .clean =>
    match recvHandle arriving none with
    | .returned r => .returned r
    | .raised m => .wrapped (some m)
    | .blocked => .blocked

/-- how a `conn.send` of the outgoing thread (`ServerBase.send_outgoing`) can fail -/
inductive SendExc where
  | eof | connectionReset | brokenPipe | otherOSError   -- the peer is gone (EOFError / OSError)
  | nonOSError                                          -- e.g. an unpicklable payload
deriving DecidableEq, Repr

/-- `except (EOFError, OSError): … continue` (fixes dfecb96, 9e98cc2) -/
def outgoingSurvives : SendExc → Bool
  | .eof | .connectionReset | .brokenPipe | .otherOSError => true
  | .nonOSError => false

/-- outcome of one `conn.send` -/
inductive SendResult where
  | skippedClosed | sent | failed (e : SendExc)
deriving DecidableEq, Repr

/-- one iteration of `send_outgoing` for a queued message to `c`: (thread still alive, server
state afterwards).  Since fix 9e98cc2 the except branch only logs and continues: the tables are
never touched from this thread; the main loop sees the EOF of `c` and disconnects it. -/
def outgoingStep (s : Srv) (_c : Conn) (r : SendResult) : Bool × Srv :=
  match r with
  | .skippedClosed | .sent => (true, s)
  | .failed e => (outgoingSurvives e, s)

end BqVerif.Server
