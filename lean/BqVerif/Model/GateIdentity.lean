/-!
# Gate identity (C18, strengthening round): what `__eq__` and `__hash__` look at

`translate/gate_identity.py` reads, from the source of the live classes, every value that
`__eq__` / `__hash__` of a gate class read from `self`, with its runtime type and the chain of
calls it flows through (`Acc`).  This file gives those strings a meaning:

* `relOf`  : what a comparison in `__eq__` establishes about the value (`Rel`),
* `fnOf`   : what `__hash__` computes from the value (`Fn`),
* `compatible r f` : two values related by `r` are mapped to the same hash key by `f`,
* `covered` / `coherent` : every hash input of a class is determined by what its `__eq__`
  compares - the static reason why equal gates hash equally.

Anything the tables below do not know (a new call chain, a new type) is `unknown` and makes
the row incoherent: a changed `__eq__`/`__hash__` has to be looked at by a human.
The soundness of `compatible` (against a semantics of values) is `Proofs/GatesIdentity.lean`.
-/
namespace BqVerif.GateIdentity

/-- one read of `self` inside `__eq__` / `__hash__` -/
structure Acc where
  path : String
  /-- `path` without a trailing `.items()` / `.__eq__(..)` / `.__hash__()` -/
  root : String
  ty : String
  chain : String
deriving DecidableEq, Repr

structure IdRow where
  cls : String
  eqBy : String
  hashBy : String
  cached : Bool
  eqAcc : List Acc
  hashAcc : List Acc
deriving DecidableEq, Repr

/-- what `__eq__` establishes about a value it compares -/
inductive Rel
  | exact        -- python `==` of ints / strings / tuples / lists / gates / locations
  | dictEq       -- `==` of two dicts: the same items in any order
  | anyEq        -- `==` of values of arbitrary type (may be dicts, may be unhashable)
  | approx       -- `UnitaryMatrix.__eq__`: `np.allclose`
  | setOfEach    -- elementwise `set(x) == set(y)`: the same elements in any order
  | opsGateLoc   -- the operations of two circuits agree in gate and location (not in parameters)
  | everything   -- `self.__dict__ == other.__dict__`
  | guard        -- not a comparison of values (`isinstance`, `hasattr`)
  | unknown
deriving DecidableEq, Repr

/-- what `__hash__` computes from a value it reads -/
inductive Fn
  | ident        -- the value itself (possibly converted to a tuple in the same order)
  | sortedItems  -- `tuple(sorted(d.items()))`
  | orderedItems -- `tuple(d.items())`: insertion order of a dict
  | corner       -- `UnitaryMatrix.__hash__`: two corner entries and the shape
  | opsHash      -- `hash(op)` of every operation: (gate, location)
  | hashOrDrop   -- `try: hash(v) except TypeError: <without v>`: the value's own hash when it is
                 -- hashable (python's contract of the value's type: `==` implies equal hashes),
                 -- nothing otherwise
  | const        -- the same for every instance of the class
  | guard        -- not a hash input (`isinstance`, `hasattr`, error message)
  | unknown
deriving DecidableEq, Repr

/-- types whose python `==` implies equal hashes of the (order-preserving) tuple of the value,
provided the same holds for the element types (gates: the rows of this table; locations: the
row `ir.CircuitLocation`) -/
def plainTy : List String :=
  ["int", "str", "tuple[int]", "tuple[tuple]", "list[int]", "list[list]", "list[tuple]",
   "list[CircuitLocation]", "list", "Gate", "CircuitLocation", "complex128", "method-wrapper"]

def relOf (a : Acc) : Rel :=
  if a.chain = "==" ∨ a.chain = "!=>if" ∨ (a.chain = "" ∧ a.path ≠ a.root) then
    if a.ty ∈ plainTy then .exact
    else if a.ty = "dict" then (if a.path = "__dict__" then .everything else .dictEq)
    else if a.ty = "UnitaryMatrix" then .approx
    else if a.ty = "dict|str" then .anyEq
    else .unknown
  else if a.chain = "zip>each{.gate>==|.location>==}>all" ∧ a.ty = "Circuit" then .opsGateLoc
  else if a.chain = "zip>each{set>==}>all" then .setOfEach
  else if a.chain = ".allclose" then .approx
  else if a.chain = "isinstance>if" ∨ a.chain = "hasattr>if" ∨ a.chain = "len>==" then .guard
  else .unknown

def fnOf (a : Acc) : Fn :=
  if a.path = "__class__.__name__" then .const
  else if a.chain = "hash" ∨ (a.chain = "" ∧ a.path ≠ a.root) then
    if a.ty ∈ plainTy ∨ a.ty = "?" then .ident
    else if a.ty = "UnitaryMatrix" then .corner
    else .unknown
  else if a.chain = "hash>try:TypeError" then
    if a.ty ∈ plainTy then .ident else if a.ty = "dict|str" then .hashOrDrop else .unknown
  else if a.chain = "hash>except" then
    if a.ty ∈ plainTy then .ident else .unknown
  else if a.chain = "tuple>hash" then
    if a.ty = "dict_items" then .orderedItems
    else if a.ty ∈ plainTy ∨ a.ty = "?" then .ident else .unknown
  else if a.chain = "sorted>tuple>hash" ∧ a.ty = "dict_items" then .sortedItems
  else if a.chain = "each{hash>.append}" ∧ a.ty = "Circuit" then .opsHash
  else if a.chain = "isinstance>if" ∨ a.chain = "hasattr>if" ∨ a.chain = "RuntimeError" then .guard
  else .unknown

/-- `compatible r f`: values related by `r` have the same `f`-key
(`Proofs/GatesIdentity.lean: compatible_sound`; the `false` entries that matter have
counterexamples there) -/
def compatible : Rel → Fn → Bool
  | .exact, .ident | .exact, .sortedItems | .exact, .orderedItems | .exact, .corner
  | .exact, .opsHash => true
  | .exact, .hashOrDrop => true
  | .dictEq, .sortedItems => true
  | .anyEq, .hashOrDrop => true
  | .opsGateLoc, .opsHash => true
  | _, _ => false

/-- hash inputs that are functions of compared values: (class, hash root, compared roots) -/
def derived : List (String × String × List String) :=
  [ -- `_radixes = tuple(control_radixes) + gate.radixes`
    ("ControlledGate", "radixes", ["control_radixes", "gate"]),
    -- an entry of a compared tuple
    ("SwapGate", "radixes[0]", ["radixes"]) ]

/-- values compared with `np.allclose` that lie in a discrete set, where `allclose` is exact:
the entries of a permutation matrix are 0 and 1 -/
def exactDomain : List (String × String) := [("PermutationGate", "get_unitary()")]

def relIn (r : IdRow) (e : Acc) : Rel :=
  if relOf e = .approx ∧ (r.cls, e.path) ∈ exactDomain then .exact else relOf e

/-- the hash input `h` of row `r` is determined by what `__eq__` compares -/
def covered (r : IdRow) (h : Acc) : Bool :=
  fnOf h = .guard || fnOf h = .const
  || r.eqAcc.any (fun e => relIn r e = .everything)
  || r.eqAcc.any (fun e => e.root = h.root && compatible (relIn r e) (fnOf h))
  || (fnOf h = .ident &&
      derived.any (fun d => d.1 = r.cls && d.2.1 = h.root &&
        d.2.2.all (fun dep => r.eqAcc.any (fun e => e.root = dep && relIn r e = .exact))))

/-- identity (`object`) on both sides, or every hash input covered -/
def coherent (r : IdRow) : Bool :=
  (r.eqBy = "object" && r.hashBy = "object")
  || (r.eqBy ≠ "object" && r.hashBy ≠ "object" && r.hashAcc.all (covered r))

/-- rows that are NOT coherent - the remaining finding of C18 (design_notes/C18.md):
`ConstantUnitaryGate` and `qis.UnitaryMatrix` compare with `np.allclose` and hash two exact
corner entries.  (`TaggedGate` and `CircuitGate` left this list with the upstream commits
aeaacf4 and 888a9b2.) -/
def knownIncoherent : List String :=
  ["ConstantUnitaryGate", "qis.UnitaryMatrix"]

end BqVerif.GateIdentity
