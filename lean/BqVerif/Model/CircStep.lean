import BqVerif.Model.Circ
/-! The editing calls as a datatype, so that "any sequence of public editing
calls" is a list and properties of all histories are inductions over it. -/
namespace BqVerif.Circ

inductive Call where
  | append (o : Op)
  | insert (ci : Int) (o : Op)
  | pop (p : Option (Int × Int))
  | replace (p : Int × Int) (o : Op)
  | batchReplace (items : List ((Int × Int) × Op))
  | popCycle (ci : Int)
  | batchPop (pts : List (Int × Int))
  | appendCircuit (sub : Circ) (loc : List Nat)
  | insertCircuit (ci : Int) (sub : Circ) (loc : List Nat)
  | replaceWithCircuit (p : Int × Int) (sub : Circ)
  | compress
  | clear

/-- the circuit after the call (whether or not the call raised) -/
def Circ.step (c : Circ) : Call → Circ
  | .append o => (c.append o).1
  | .insert ci o => (c.insert ci o).1
  | .pop p => (c.pop p).1
  | .replace p o => (c.replace p o).1
  | .batchReplace items => (c.batchReplace items).1
  | .popCycle ci => (c.popCycle ci).1
  | .batchPop pts => (c.batchPop pts).1
  | .appendCircuit sub loc => (c.appendCircuit sub loc).1
  | .insertCircuit ci sub loc => (c.insertCircuit ci sub loc).1
  | .replaceWithCircuit p sub => (c.replaceWithCircuit p sub).1
  | .compress => c.compress
  | .clear => ⟨c.radixes, []⟩

def Circ.run (c : Circ) (h : List Call) : Circ := h.foldl Circ.step c

end BqVerif.Circ
