import BqVerif.Model.QasmElab
/-! # The encoder's text format (C17)

Transcribes `OPENQASM2Language.encode`, `Gate.get_qasm`, `CircuitGate.get_qasm_gate_def`:

```
OPENQASM 2.0;\ninclude "qelib1.inc";\nqreg q[N];\n  <gate defs>  <one line per operation>
'{}({}) q[{}];\n'.format(name, ', '.join(str(p)…), '], q['.join(str(q)…)).replace('()', '')
```

A parameter is printed with `str(float)`; the model takes that text as given
(`PLit`: sign and the unsigned literal), so no float formatting is modelled.  `opToks` is
the token string of the same line; the driver checks `lex (printOp o) = opToks o` on every
case it prints (validated), the round-trip theorem is stated on tokens. -/
namespace BqVerif.Qasm

/-- `str(p)` of a finite float: optional `-` and an unsigned decimal literal -/
structure PLit where
  neg : Bool
  text : String
  deriving Repr, DecidableEq, Inhabited

/-- an operation as the encoder sees it: spelling, printed parameters, location -/
structure POp where
  name : String
  params : List PLit
  loc : List Nat
  deriving Repr, DecidableEq, Inhabited

def PLit.show (p : PLit) : String := (if p.neg then "-" else "") ++ p.text

/-- `Gate.get_qasm` (the `.replace('()', '')` only ever removes the empty parameter list) -/
def printOp (o : POp) : String :=
  o.name ++ (if o.params.isEmpty then "" else "(" ++ ", ".intercalate (o.params.map PLit.show) ++ ")")
    ++ " q[" ++ "], q[".intercalate (o.loc.map toString) ++ "];\n"

def header (n : Nat) : String :=
  "OPENQASM 2.0;\ninclude \"qelib1.inc\";\nqreg q[" ++ toString n ++ "];\n"

/-- `encode` of a circuit without CircuitGates / measurements (no gate definitions) -/
def printProgram (n : Nat) (ops : List POp) : String :=
  header n ++ String.join (ops.map printOp)

/-- body line of `CircuitGate.get_qasm_gate_def`: formals `p<i>`, qubits `q<j>` -/
def printBodyOp (name : String) (firstParam nParams : Nat) (loc : List Nat) : String :=
  "\t" ++ name ++
    (if nParams == 0 then "" else
      "(" ++ ", ".intercalate ((List.range nParams).map fun i => "p" ++ toString (firstParam + i)) ++ ")")
    ++ " q" ++ ", q".intercalate (loc.map toString) ++ ";\n"

def printGateDefAux : Nat → List (String × Nat × List Nat) → String
  | _, [] => ""
  | k, (name, np, loc) :: rest => printBodyOp name k np loc ++ printGateDefAux (k + np) rest

/-- `CircuitGate.get_qasm_gate_def` for a body of (spelling, num_params, location) -/
def printGateDef (name : String) (np nq : Nat) (body : List (String × Nat × List Nat)) : String :=
  "gate " ++ name ++ " " ++
    (if np > 0 then "(p" ++ ", p".intercalate ((List.range np).map toString) ++ ") " else "")
    ++ "q" ++ ", q".intercalate ((List.range nq).map toString) ++ " {\n"
    ++ printGateDefAux 0 body ++ "}\n"

/-! token view -/

def intersperseTok (sep : Tok) : List (List Tok) → List Tok
  | [] => []
  | [x] => x
  | x :: xs => x ++ sep :: intersperseTok sep xs

def PLit.toks (p : PLit) : List Tok := (if p.neg then [Tok.sym "-"] else []) ++ [Tok.num p.text]

def locToks (q : Nat) : List Tok := [.id "q", .sym "[", .num (toString q), .sym "]"]

/-- `barrier` and `reset` are printed by the same `Gate.get_qasm` format; their names are
keywords of the grammar -/
def nameTok (name : String) : Tok := if keywords.contains name then .kw name else .id name

def opToks (o : POp) : List Tok :=
  nameTok o.name ::
    ((if o.params.isEmpty then [] else
        Tok.sym "(" :: intersperseTok (.sym ",") (o.params.map PLit.toks) ++ [Tok.sym ")"])
     ++ intersperseTok (.sym ",") (o.loc.map locToks) ++ [Tok.sym ";"])

def headerToks (n : Nat) : List Tok :=
  [.kw "OPENQASM", .num "2.0", .sym ";", .kw "include", .str "qelib1.inc", .sym ";",
   .kw "qreg", .id "q", .sym "[", .num (toString n), .sym "]", .sym ";"]

def programToks (n : Nat) (ops : List POp) : List Tok :=
  headerToks n ++ (ops.map opToks).flatten

end BqVerif.Qasm
