import BqVerif.Model.Sched
/-!
# Network model of the BQSKit runtime at handler granularity

Nodes: one server (`DetachedServer` / `AttachedServer`), managers (`Manager`), workers,
clients; two FIFO channels per link.  Transitions: `deliver src dst` (the destination's
`handle_message` / `recv_incoming` iteration), `workerStep`, and client sends (inputs).
The random choices of `assign_tasks` and the set-iteration order of
`handle_disconnect` are inputs of the transition, validated by `validAssignment` /
a permutation check.
-/
namespace BqVerif.Runtime

inductive NodeId where
  | server
  | mgr (i : Nat)
  | wrk (id : Int)
  | client (j : Nat)
deriving DecidableEq, Repr, Inhabited

/-- `ServerMailbox` -/
structure SBox where
  result : Option Val := none
  waiting : Bool := false           -- client_waiting
deriving DecidableEq, Repr, Inhabited

structure Server where
  boss : Boss
  attached : Bool
  running : Bool := true
  clients : List (Nat × List Nat) := []     -- self.clients: client j ↦ active task ids
  closed : List Nat := []                   -- client connections this server closed
  tasks : List (Nat × Nat × Nat) := []      -- self.tasks: task id ↦ (mailbox, client)
  mbox2task : List (Nat × Nat) := []        -- self.mailbox_to_task_dict
  boxes : List (Nat × SBox) := []           -- self.mailboxes
  counter : Nat := 0                        -- self.mailbox_counter
deriving Repr, Inhabited

structure Manager where
  boss : Boss
  idx : Nat
  running : Bool := true
  lastSent : Int                            -- last_num_idle_sent_up
  receipt : Option Addr := none             -- most_recent_read_submit
deriving Repr, Inhabited

abbrev Out := List (NodeId × Msg)

def Emp.node (e : Emp) : NodeId := if e.isMgr then .mgr e.id.toNat else .wrk e.id

def assocGet {β} (l : List (Nat × β)) (k : Nat) : Option β :=
  match l with
  | [] => none
  | (a, b) :: t => if a = k then some b else assocGet t k

def assocErase {β} (l : List (Nat × β)) (k : Nat) : List (Nat × β) := l.filter (fun p => p.1 != k)

def assocSet {β} (l : List (Nat × β)) (k : Nat) (v : β) : List (Nat × β) :=
  match l with
  | [] => [(k, v)]
  | (a, b) :: t => if a = k then (a, v) :: t else (a, b) :: assocSet t k v

/-- `ServerBase.broadcast` -/
def Boss.broadcast (b : Boss) (m : Msg) : Out := b.emps.map (fun e => (e.node, m))

/-- `ServerBase.handle_shutdown` part: SHUTDOWN to every employee, then close -/
def Boss.shutdownOut (b : Boss) : Out :=
  b.emps.map (fun e => (e.node, Msg.shutdown)) ++ b.emps.map (fun e => (e.node, Msg.eof))

/-- result of a server / manager handler: queued = `self.outgoing.put`, direct = `conn.send`
    / `conn.close()` executed inside the handler -/
structure HOut (σ : Type) where
  st : σ
  queued : Out := []
  direct : Out := []
  note : String := "ok"

/-- `DetachedServer.handle_shutdown` -/
def Server.shutdown (s : Server) : Server × Out :=
  let o := s.boss.shutdownOut
        ++ (s.clients.filter (fun c => !s.closed.contains c.1)).map (fun c => (NodeId.client c.1, Msg.eof))
  ({ s with running := false, boss := { s.boss with emps := [] },
            closed := s.closed ++ s.clients.map (·.1), clients := [] }, o)

/-- exception inside `run()`: `handle_system_error` (ERROR to every client) then shutdown -/
def Server.systemError (s : Server) (cls : Nat) (why : String) : HOut Server :=
  let errs : Out := (s.clients.filter (fun c => !s.closed.contains c.1)).map
    (fun c => (NodeId.client c.1, Msg.sError cls))
  let (s', o) := s.shutdown
  { st := s', direct := errs ++ o, note := "syserr " ++ why }

def Server.sched (s : Server) (ts : List Task) (asg : List Nat) : HOut Server :=
  if !validAssignment s.boss.emps asg || asg.length != ts.length then
    { st := s, note := "violated validAssignment" }
  else
    let (b', msgs) := s.boss.schedule ts asg
    { st := { s with boss := b' },
      queued := msgs.map (fun p => ((s.boss.emps.getD p.1 default).node, Msg.batch p.2)) }

/-- body of `handle_cancel_comp_task` after the ownership guard -/
def Server.cancelCore (s : Server) (ci : Nat) : HOut Server :=
  match assocGet s.tasks ci with
  | none => s.systemError eKey "cancel: tasks[request]"
  | some (mbox, owner) =>
    if (assocGet s.boxes mbox).isNone then s.systemError eKey "cancel: mailboxes.pop"
    else
      let clients' := match assocGet s.clients owner with
        | some ids => assocSet s.clients owner (ids.erase ci)
        | none => s.clients
      let s' := { s with boxes := assocErase s.boxes mbox, clients := clients' }
      { st := s',
        queued := s.boss.broadcast (.cancel ⟨-1, mbox, 0⟩)
                  ++ (if s.closed.contains owner then [] else [(.client owner, .sCancelAck)]) }

/-- `handle_cancel_comp_task(request, conn)`; `conn = none` is the call from handle_disconnect -/
def Server.cancelComp (s : Server) (ci : Nat) (conn : Option Nat) : HOut Server :=
  match conn with
  | some j =>
    match assocGet s.clients j with
    | none => s.systemError eKey "cancel: clients[conn]"
    | some ids =>
      if !(ids.contains ci && (assocGet s.tasks ci).isSome) then
        { st := s, queued := [(.client j, .sCancelAck)] }
      else s.cancelCore ci
  | none => s.cancelCore ci

/-- `for task_id in tasks: self.handle_cancel_comp_task(task_id)` (stops at the first exception) -/
def Server.cancelAll : HOut Server → List Nat → HOut Server
  | acc, [] => acc
  | acc, ci :: rest =>
    if acc.note != "ok" then acc
    else
      Server.cancelAll
        { st := (Server.cancelComp acc.st ci none).st,
          queued := acc.queued ++ (Server.cancelComp acc.st ci none).queued,
          direct := acc.direct ++ (Server.cancelComp acc.st ci none).direct,
          note := (Server.cancelComp acc.st ci none).note } rest

/-- `DetachedServer.handle_disconnect(conn)` for client `j`; `ord` = the iteration order of
    the set `self.clients[conn]` observed on the real run -/
def Server.disconnect (s : Server) (j : Nat) (ord : List Nat) : HOut Server :=
  if s.attached then
    let (s', o) := s.shutdown
    { st := s', direct := o }
  else
    let direct : Out := if s.closed.contains j then [] else [(.client j, .eof)]
    let s0 := { s with closed := if s.closed.contains j then s.closed else s.closed ++ [j] }
    match assocGet s0.clients j with
    | none => { (s0.systemError eKey "disconnect: clients.pop") with direct := direct }
    | some ids =>
      -- `ord` must enumerate exactly the set
      if !(ord.all ids.contains && ids.all ord.contains && ord.length == ids.length) then
        { st := s, note := "violated disconnect-order" }
      else
        let s1 := { s0 with clients := assocErase s0.clients j }
        let r := Server.cancelAll { st := s1, direct := direct } ord
        if r.note != "ok" then r
        else
          let gone := r.st.tasks.filter (fun t => t.2.2 == j)
          { r with st := { r.st with tasks := r.st.tasks.filter (fun t => t.2.2 != j),
                                      mbox2task := r.st.mbox2task.filter
                                        (fun p => !(gone.map (·.2.1)).contains p.1) } }

/-- `DetachedServer.handle_result` -/
def Server.result (s : Server) (a : Addr) (v : Val) (by_ : Int) : HOut Server :=
  match s.boss.completed by_ with
  | none => s.systemError eIndex "result: employee"
  | some b' =>
    let s := { s with boss := b' }
    if a.w = -1 then
      match assocGet s.boxes a.m with
      | none => { st := s }
      | some box =>
        match assocGet s.mbox2task a.m with
        | none => s.systemError eKey "result: mailbox_to_task_dict"
        | some ci =>
          if box.waiting then
            match assocGet s.tasks ci with
            | none => s.systemError eKey "result: tasks"
            | some (_, owner) =>
              match assocGet s.clients owner with
              | none => s.systemError eKey "result: clients[conn]"
              | some ids =>
                if !ids.contains ci then s.systemError eKey "result: clients[conn].remove"
                else
                  { st := { s with clients := assocSet s.clients owner (ids.erase ci),
                                   boxes := assocErase s.boxes a.m },
                    queued := [(.client owner, .sResult v)] }
          else { st := { s with boxes := assocSet s.boxes a.m { box with result := some v } } }
    else if !isMyWorker s.boss.lb s.boss.step s.boss.emps.length a.w then
      s.systemError eRuntime "result: unmanaged worker"
    else
      match employeeFor s.boss.lb s.boss.step s.boss.emps.length a.w with
      | none => s.systemError eIndex "result: employee"
      | some ei => { st := s, queued := [((s.boss.emps.getD ei default).node, .result a v by_)] }

/-- messages from a client -/
def Server.fromClient (s : Server) (j : Nat) (m : Msg) (asg ord : List Nat) : HOut Server :=
  match m with
  | .cSubmit ci pid =>
    match assocGet s.clients j with
    | none => s.systemError eKey "submit: clients[conn]"
    | some ids =>
      let mbox := s.counter
      let s1 := { s with counter := mbox + 1,
                         tasks := assocSet s.tasks ci (mbox, j),
                         mbox2task := assocSet s.mbox2task mbox ci,
                         boxes := assocSet s.boxes mbox {},
                         clients := assocSet s.clients j (if ids.contains ci then ids else ids ++ [ci]) }
      let t : Task := { addr := ⟨-1, mbox, 0⟩, comp := mbox, crumbs := [], prog := pid, tag := [ci] }
      s1.sched [t] asg
  | .cRequest ci =>
    match assocGet s.clients j with
    | none => s.systemError eKey "request: clients[conn]"
    | some ids =>
      if !ids.contains ci || (assocGet s.tasks ci).isNone then
        -- 'Unknown task.' is sent directly (before the connection is closed), then the
        -- client is disconnected
        let r := s.disconnect j ord
        { r with direct := [(NodeId.client j, Msg.sError eRuntime)] ++ r.direct }
      else
        match assocGet s.tasks ci with
        | none => s.systemError eKey "request"
        | some (mbox, _) =>
          match assocGet s.boxes mbox with
          | none => s.systemError eKey "request: mailboxes"
          | some box =>
            match box.result with
            | some v =>
              { st := { s with boxes := assocErase s.boxes mbox,
                               clients := assocSet s.clients j (ids.erase ci) },
                queued := [(.client j, .sResult v)] }
            | none =>
              { st := { s with boxes := assocSet s.boxes mbox { box with waiting := true } } }
  | .cStatus ci =>
    match assocGet s.clients j with
    | none => s.systemError eKey "status: clients[conn]"
    | some ids =>
      if !ids.contains ci || (assocGet s.tasks ci).isNone then
        { st := s, queued := [(.client j, .sStatus 0)] }
      else
        match assocGet s.tasks ci with
        | none => s.systemError eKey "status"
        | some (mbox, _) =>
          match assocGet s.boxes mbox with
          | none => s.systemError eKey "status: mailboxes"
          | some box => { st := s, queued := [(.client j, .sStatus (if box.result.isSome then 2 else 1))] }
  | .cCancel ci => s.cancelComp ci (some j)
  | .cDisconnect => s.disconnect j ord
  | .eof => s.disconnect j ord
  | _ => s.systemError eRuntime "unexpected client message"

/-- messages from employee `ei` (`MessageDirection.BELOW`) -/
def Server.fromBelow (s : Server) (ei : Nat) (m : Msg) (asg : List Nat) : HOut Server :=
  match m with
  | .submit t => s.sched [t] asg
  | .batch ts => s.sched ts asg
  | .result a v by_ => s.result a v by_
  | .error comp cls =>
    match assocGet s.mbox2task comp with
    | none => { st := s }
    | some ci =>
      -- `or tid not in self.mailboxes`: errors of cancelled / delivered compilations are dropped
      if (assocGet s.boxes comp).isNone then { st := s }
      else
        match assocGet s.tasks ci with
        | none => s.systemError eKey "error: tasks"
        | some (_, owner) => { st := s, queued := [(.client owner, .sError cls)] }
  | .sysError cls => s.systemError cls "error from below"
  | .cancel a => { st := s, queued := s.boss.broadcast (.cancel a) }
  | .shutdown => let (s', o) := s.shutdown; { st := s', direct := o }
  | .eof => let (s', o) := s.shutdown; { st := s', direct := o, note := "syserr employee-eof" }
  | .waiting n r =>
    match s.boss.waiting ei n r with
    | .ok b' => { st := { s with boss := b' } }
    | .error .receiptMissing => s.systemError eRuntime "read-receipt"
    | .error .assertion => s.systemError eAssert "idle-assertion"
    | .error .noEmployee => s.systemError eKey "waiting: employee"
  | .update d => { st := { s with boss := s.boss.update ei d } }
  | _ => s.systemError eRuntime "unexpected message from below"

-- ---------------------------------------------------------------- manager
def Manager.shutdown (g : Manager) : Manager × Out :=
  ({ g with running := false, boss := { g.boss with emps := [] } },
   g.boss.shutdownOut ++ [(NodeId.server, Msg.shutdown), (NodeId.server, Msg.eof)])

def Manager.systemError (g : Manager) (cls : Nat) (why : String) : HOut Manager :=
  let (g', o) := g.shutdown
  { st := g', direct := [(NodeId.server, Msg.sysError cls)] ++ o, note := "syserr " ++ why }

/-- `update_upstream_idle_workers` -/
def Manager.updateUp (g : Manager) : Manager × Out :=
  if g.boss.numIdle != g.lastSent then
    ({ g with lastSent := g.boss.numIdle }, [(.server, .waiting g.boss.numIdle g.receipt)])
  else (g, [])

def Manager.sched (g : Manager) (ts : List Task) (asg : List Nat) : HOut Manager :=
  if !validAssignment g.boss.emps asg || asg.length != ts.length then
    { st := g, note := "violated validAssignment" }
  else
    let (b', msgs) := g.boss.schedule ts asg
    { st := { g with boss := b' },
      queued := msgs.map (fun p => ((g.boss.emps.getD p.1 default).node, Msg.batch p.2)) }

def Manager.fromAbove (g : Manager) (m : Msg) (asg : List Nat) : HOut Manager :=
  match m with
  | .submit t => ({ g with receipt := some t.addr }).sched [t] asg
  | .batch ts =>
    match ts.head? with
    | none => g.systemError eIndex "batch: empty"
    | some t => ({ g with receipt := some t.addr }).sched ts asg
  | .result a v by_ =>
    if !isMyWorker g.boss.lb g.boss.step g.boss.emps.length a.w then
      g.systemError eRuntime "result: unmanaged worker"
    else
      match employeeFor g.boss.lb g.boss.step g.boss.emps.length a.w with
      | none => g.systemError eIndex "result: employee"
      | some ei => { st := g, queued := [((g.boss.emps.getD ei default).node, .result a v by_)] }
  | .cancel a => { st := g, queued := g.boss.broadcast (.cancel a) }
  | .shutdown => let (g', o) := g.shutdown; { st := g', direct := o }
  | .eof => let (g', o) := g.shutdown; { st := g', direct := o }
  | _ => g.systemError eRuntime "unexpected message from above"

/-- first half of `send_up_or_schedule_tasks`: as many tasks as there are idle workers are
    scheduled locally (`UPDATE(n)` goes up first, then the batches, then the idle update) -/
def Manager.schedLocal (g : Manager) (ts : List Task) (asg : List Nat) : HOut Manager :=
  let n := g.boss.numIdle
  if n != 0 then
    let r := g.sched (ts.take n.toNat) asg
    if r.note != "ok" then r
    else
      let (g2, up) := r.st.updateUp
      { st := g2, queued := [(NodeId.server, Msg.update n)] ++ r.queued ++ up }
  else { st := g }

/-- `send_up_or_schedule_tasks` -/
def Manager.sendUpOrSchedule (g : Manager) (ts : List Task) (asg : List Nat) : HOut Manager :=
  let k := g.boss.numIdle.toNat
  let r1 := g.schedLocal ts asg
  if r1.note != "ok" then r1
  else if ts.length > k then
    { r1 with queued := r1.queued ++ [(NodeId.server, Msg.batch (ts.drop k))] }
  else r1

def Manager.fromBelow (g : Manager) (ei : Nat) (m : Msg) (asg : List Nat) : HOut Manager :=
  match m with
  | .submit t => g.sendUpOrSchedule [t] asg
  | .batch ts => g.sendUpOrSchedule ts asg
  | .result a v by_ =>
    match g.boss.completed by_ with
    | none => g.systemError eIndex "result: employee"
    | some b' =>
      let g := { g with boss := b' }
      if isMyWorker g.boss.lb g.boss.step g.boss.emps.length a.w then
        match employeeFor g.boss.lb g.boss.step g.boss.emps.length a.w with
        | none => g.systemError eIndex "result: employee"
        | some di =>
          { st := g, queued := [((g.boss.emps.getD di default).node, .result a v by_),
                                (.server, .update (-1))] }
      else { st := g, queued := [(.server, .result a v by_)] }
  | .waiting n r =>
    match g.boss.waiting ei n r with
    | .ok b' =>
      let (g2, up) := ({ g with boss := b' }).updateUp
      { st := g2, queued := up }
    | .error .receiptMissing => g.systemError eRuntime "read-receipt"
    | .error .assertion => g.systemError eAssert "idle-assertion"
    | .error .noEmployee => g.systemError eKey "waiting: employee"
  | .update d =>
    { st := { g with boss := g.boss.update ei d }, queued := [(.server, .update d)] }
  | .eof => let (g', o) := g.shutdown; { st := g', direct := o, note := "syserr employee-eof" }
  | other => { st := g, queued := [(.server, other)] }

-- ---------------------------------------------------------------- network
structure Net where
  tbl : Table
  server : Server
  mgrs : List Manager := []
  workers : List Worker := []
  chans : List ((NodeId × NodeId) × List Msg) := []
  deadClients : List Nat := []
deriving Inhabited

def Net.alive (n : Net) : NodeId → Bool
  | .server => n.server.running
  | .mgr i => (n.mgrs[i]?.map (·.running)).getD false
  | .wrk id => ((n.workers.find? (fun w => w.id == id)).map (·.alive)).getD false
  | .client j => !n.deadClients.contains j

def chanGet (cs : List ((NodeId × NodeId) × List Msg)) (k : NodeId × NodeId) : List Msg :=
  match cs with
  | [] => []
  | (a, l) :: t => if a = k then l else chanGet t k

def chanSet (cs : List ((NodeId × NodeId) × List Msg)) (k : NodeId × NodeId) (v : List Msg) :
    List ((NodeId × NodeId) × List Msg) :=
  match cs with
  | [] => [(k, v)]
  | (a, l) :: t => if a = k then (a, v) :: t else (a, l) :: chanSet t k v

/-- put a message on the channel `src → dst` (lost if `dst` no longer exists) -/
def Net.post (n : Net) (src dst : NodeId) (m : Msg) : Net :=
  if n.alive dst then { n with chans := chanSet n.chans (src, dst) (chanGet n.chans (src, dst) ++ [m]) }
  else n

def Net.postAll (n : Net) (src : NodeId) (o : Out) : Net :=
  o.foldl (fun acc dm => acc.post src dm.1 dm.2) n

structure TrOut where
  net : Net
  emitted : List (NodeId × NodeId × Msg) := []
  evs : List Ev := []
  note : String := "ok"

def setWorker (ws : List Worker) (w : Worker) : List Worker :=
  ws.map (fun x => if x.id == w.id then w else x)

/-- `workerStep k` -/
def Net.workerStep (n : Net) (id : Int) : TrOut :=
  match n.workers.find? (fun w => w.id == id) with
  | none => { net := n, note := "no-such-worker" }
  | some w =>
    if !w.alive || w.mainDead || (w.blocked && w.ready.isEmpty) then { net := n, note := "not-enabled" }
    else
      let r := w.step n.tbl
      -- a worker whose loop died stops existing for the harness (it reports a system error)
      let w' := if r.w.mainDead then { r.w with alive := false } else r.w
      let boss : NodeId := match n.mgrs.find? (fun g => g.boss.emps.any (fun e => e.id == id)) with
        | some g => .mgr g.idx
        | none => .server
      let n1 := { n with workers := setWorker n.workers w' }
      { net := n1.postAll (.wrk id) (r.out.map (fun m => (boss, m))),
        emitted := r.out.map (fun m => (NodeId.wrk id, boss, m)), evs := r.evs }

/-- queued messages are forwarded by `send_outgoing` after the handler: skipped when the
    node stopped running or the connection was closed meanwhile -/
def flushServer (s : Server) (queued : Out) : Out :=
  if !s.running then []
  else queued.filter (fun dm => match dm.1 with
    | .client j => !s.closed.contains j
    | _ => true)

def empIndexOf (b : Boss) (src : NodeId) : Option Nat :=
  (enumFromN 0 b.emps).findSome? (fun ie => if ie.2.node = src then some ie.1 else none)

/-- `DetachedServer.handle_message` (dispatch on the direction the message came from) -/
def Server.handle (s : Server) (src : NodeId) (m : Msg) (asg ord : List Nat) : HOut Server :=
  match src with
  | .client j =>
    if s.closed.contains j then { st := s, note := "dropped" }
    else s.fromClient j m asg ord
  | _ =>
    match empIndexOf s.boss src with
    | none => { st := s, note := "dropped" }
    | some ei => s.fromBelow ei m asg

/-- `Manager.handle_message` -/
def Manager.handle (g : Manager) (src : NodeId) (m : Msg) (asg : List Nat) : HOut Manager :=
  if src = .server then g.fromAbove m asg
  else match empIndexOf g.boss src with
    | none => { st := g, note := "dropped" }
    | some ei => g.fromBelow ei m asg

/-- `deliver src dst` -/
def Net.deliver (n : Net) (src dst : NodeId) (asg ord : List Nat) (died : Bool) : TrOut :=
  match chanGet n.chans (src, dst) with
  | [] => { net := n, note := "no-message" }
  | m :: rest =>
    let n := { n with chans := chanSet n.chans (src, dst) rest }
    match dst with
    | .wrk id =>
      match n.workers.find? (fun w => w.id == id) with
      | none => { net := n, note := "no-such-worker" }
      | some w =>
        if !w.alive || w.inDead then { net := n, note := "dropped" }
        else { net := { n with workers := setWorker n.workers (w.recv m) } }
    | .client j =>
      if n.deadClients.contains j then { net := n, note := "dropped" }
      else if died then
        -- the blocked call failed: the client object drops its connection (EOF at the server)
        let n1 := { n with deadClients := n.deadClients ++ [j] }
        { net := n1.post (.client j) .server .eof, emitted := [(.client j, .server, .eof)] }
      else { net := n }
    | .server =>
      let s := n.server
      if !s.running then { net := n, note := "dropped" }
      else
        let r := s.handle src m asg ord
        let o := r.direct ++ flushServer r.st r.queued
        let n1 := { n with server := r.st }
        { net := n1.postAll .server o, emitted := o.map (fun dm => (NodeId.server, dm.1, dm.2)),
          note := r.note }
    | .mgr i =>
      match n.mgrs[i]? with
      | none => { net := n, note := "no-such-manager" }
      | some g =>
        if !g.running then { net := n, note := "dropped" }
        else
          let r := g.handle src m asg
          let o := r.direct ++ (if r.st.running then r.queued else [])
          let n1 := { n with mgrs := setAt n.mgrs i r.st }
          { net := n1.postAll (.mgr i) o, emitted := o.map (fun dm => (NodeId.mgr i, dm.1, dm.2)),
            note := r.note }

/-- a client puts a message on its channel (`Compiler.submit/result/status/cancel/close`) -/
def Net.clientSend (n : Net) (j : Nat) (m : Option Msg) (dies : Bool) : TrOut :=
  let n1 := match m with
    | some msg => n.post (.client j) .server msg
    | none => n
  let n2 := if dies then { n1 with deadClients := n1.deadClients ++ [j] } else n1
  { net := n2, emitted := match m with | some msg => [(.client j, .server, msg)] | none => [] }


/-- transitions of the network (the labels of the harness's transition log) -/
inductive Tr where
  | deliver (src dst : NodeId) (asg ord : List Nat) (died : Bool)
  | step (id : Int)
  | client (j : Nat) (m : Option Msg) (dies : Bool)
deriving Repr

def Net.apply (n : Net) : Tr → TrOut
  | .deliver s d asg ord died => n.deliver s d asg ord died
  | .step id => n.workerStep id
  | .client j m dies => n.clientSend j m dies

def Net.exec (n : Net) (trs : List Tr) : Net := trs.foldl (fun acc t => (acc.apply t).net) n

/-- nothing can happen any more: all channels empty, every live worker blocked on an empty
    ready queue (clients are inputs) -/
def Net.quiescent (n : Net) : Bool :=
  n.chans.all (fun c => c.2.isEmpty)
  && n.workers.all (fun w => !w.alive || w.mainDead || (w.blocked && w.ready.isEmpty))

/-- initial network -/
def mkWorkers (ids : List Int) : List Worker := ids.map (fun i => { id := i })

def Net.initFlat (tbl : Table) (attached : Bool) (nw nc : Nat) : Net :=
  let ids : List Int := (List.range nw).map (fun (i : Nat) => (i : Int))
  { tbl := tbl,
    server := { boss := { lb := 0, step := 1, numIdle := nw, total := nw,
                          emps := ids.map (fun i => { id := i, total := 1, idle := 1 }) },
                attached := attached,
                clients := (List.range nc).map (fun j => (j, [])) },
    workers := mkWorkers ids }

def Net.initTree (tbl : Table) (sizes : List Nat) (nc : Nat) : Net :=
  let d := sizes.length
  let step : Int := Int.fdiv (2 ^ 30 : Int) d
  let mk := fun (ix : Nat × Nat) =>
    let lb : Int := ix.1 * step
    let ids : List Int := (List.range ix.2).map (fun (k : Nat) => lb + (k : Int))
    ({ boss := { lb := lb, step := 1, numIdle := ix.2, total := ix.2,
                 emps := ids.map (fun i => { id := i, total := 1, idle := 1 }) },
       idx := ix.1, lastSent := ix.2 } : Manager)
  let mgrs := (enumFromN 0 sizes).map mk
  let total : Nat := sizes.sum
  { tbl := tbl,
    server := { boss := { lb := 0, step := step, numIdle := total, total := total,
                          emps := (enumFromN 0 sizes).map (fun ix =>
                            { id := ix.1, total := ix.2, idle := ix.2, isMgr := true }) },
                attached := false,
                clients := (List.range nc).map (fun j => (j, [])) },
    mgrs := mgrs,
    workers := (mgrs.map (fun g => mkWorkers (g.boss.emps.map (·.id)))).flatten }

end BqVerif.Runtime
