/-! # Qudit roles of a multiplexed rotation and the location re-ordering of `MGDPass.run` (C10)

`MPRYGate(n, t)` / `MPRZGate(n, t)` (`bqskit/ir/gates/parameterized/mpry.py`, `mprz.py`) act on `n`
qubits: qubit `t` of the gate is the TARGET, the other `n − 1` qubits, in their order, are the SELECT
qubits (most significant first); on a computational basis state the gate applies `R(θ_k)` to the
target, `k` = the number written by the select bits. Placed at the location `loc` of a circuit, gate
qubit `i` is circuit qudit `loc[i]`.

`MGDPass.run` (`bqskit/passes/synthesis/qsd.py`) replaces such an operation by the decomposition of the
LAST-target multiplexor with the same angle table, placed at
`loc[0:t] + loc[t+1:] + [loc[t]]`. No imports (linked into `bqdriver`). -/
namespace BqVerif.Mux

/-- `loc[0:t] + loc[t+1:] + [loc[t]]` as the code computes it; Python raises `IndexError` at
`loc[t]` when `t ≥ len(loc)` (`none`). -/
def moveLast (loc : List Nat) (t : Nat) : Option (List Nat) :=
  if h : t < loc.length then some (loc.take t ++ loc.drop (t + 1) ++ [loc[t]]) else none

/-- Roles of the circuit qudits under a multiplexed rotation with target index `t` placed at `loc`:
(the select qudits, most significant first; the target qudit). -/
def roles (loc : List Nat) (t : Nat) : Option (List Nat × Nat) :=
  if h : t < loc.length then some (loc.eraseIdx t, loc[t]) else none

/-- The number written by the bits of the basis state `σ` at the qudits `sel` (first = most
significant): the index into the angle table. -/
def selectIdx (sel : List Nat) (σ : Nat → Bool) : Nat :=
  sel.foldl (fun a q => 2 * a + (if σ q then 1 else 0)) 0

/-- What the gate does to the basis state `σ`: (index of the angle applied, qudit it is applied to). -/
def act (loc : List Nat) (t : Nat) (σ : Nat → Bool) : Option (Nat × Nat) :=
  (roles loc t).map fun r => (selectIdx r.1 σ, r.2)

end BqVerif.Mux
