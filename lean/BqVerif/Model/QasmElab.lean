import BqVerif.Model.QasmSyn
/-! # Elaboration: what `OPENQASMVisitor` does with the statements (C17)

Transcribes `bqskit/ir/lang/qasm2/visitor.py`: the register table and the flat index
arithmetic (`convert_qubit_id_to_first_index`, `convert_qubit_id_to_indices`,
`convert_qubit_ids_to_indices`), the gate table lookup (`gate`, `gatep`), user gate
definitions (`gatedecl`, `gatep`, `ugatep`, `cxgatep`, `rbracket`), their instantiation
(`CustomGateDef.build_op`, `evaluate_param_exps`), `barrier`, `measure`, `reset`, and the final
`get_circuit`.  The model follows the code as it is:

* a register index is NOT compared with the register size (`h q[3]` with `qreg q[2]` is the
  qubit after `q`);
* `reset r;` (whole register) resets the first `size(first register)` qubits whatever `r` is;
* `measure r[i] -> c[j]` records the raw `i` (not the flat index) in the placeholder;
* an `idlist` of two or more bare names crashes (`barrier q, r;`);
* a built-in name always wins over a user definition of the same name.

Every exception of the real code is `none` here (the harness compares accept/reject).
-/
namespace BqVerif.Qasm

variable {V : Type}

/-- one row of `OPENQASMVisitor.gate_defs`: declared arities and the gate object's own -/
structure BuiltinDef where
  key : String
  np : Nat          -- GateDef.num_params
  nv : Nat          -- GateDef.num_vars
  gid : String      -- identity of the gate object
  gnp : Nat         -- gate.num_params
  gnq : Nat         -- gate.num_qudits
  deriving Repr, DecidableEq, Inhabited

/-- entry of `param_exp_list`: evaluated at definition time, or a tree with PARAM_IDX -/
inductive PExp (V : Type) where
  | const (v : V)
  | tree (e : QE V)
  deriving Repr, Inhabited

mutual
/-- `GateDef | CustomGateDef` (bodies hold the definitions themselves, as the Python lists do) -/
inductive GDef (V : Type) where
  | builtin (b : BuiltinDef)
  | custom (name : String) (np nv : Nat) (body : List (GBody V))
/-- i-th entries of `gate_def_list`, `loc_list`, `param_exp_list` -/
inductive GBody (V : Type) where
  | mk (g : GDef V) (loc : List Nat) (ps : List (PExp V))
end

instance : Inhabited (GDef V) := ⟨.builtin default⟩

def GDef.np : GDef V → Nat
  | .builtin b => b.np
  | .custom _ np _ _ => np
def GDef.nv : GDef V → Nat
  | .builtin b => b.nv
  | .custom _ _ nv _ => nv

/-- An operation of the decoded circuit. -/
inductive Op (V : Type) where
  | prim (gid : String) (loc : List Nat) (params : List V)
  | block (name : String) (nv : Nat) (body : List (Op V)) (loc : List Nat)  -- CircuitGate
  | barrier (loc : List Nat)
  | measure (loc : List Nat) (ms : List (Nat × String × Nat))   -- key ↦ (creg, index)
  | reset (q : Nat)
  deriving Repr, Inhabited

def Op.loc : Op V → List Nat
  | .prim _ l _ => l
  | .block _ _ _ l => l
  | .barrier l => l
  | .measure l _ => l
  | .reset q => [q]

/-! ## registers -/

abbrev Regs := List (String × Nat)

/-- `convert_qubit_id_to_first_index` -/
def firstIndex : Regs → String → Option Nat
  | [], _ => none
  | (n, sz) :: rest, name =>
    if n = name then some 0 else (firstIndex rest name).map (· + sz)

def regSize : Regs → String → Option Nat
  | [], _ => none
  | (n, sz) :: rest, name => if n = name then some sz else regSize rest name

/-- `convert_qubit_id_to_indices` -/
def regIndices (rs : Regs) (name : String) : Option (List Nat) :=
  match firstIndex rs name, regSize rs name with
  | some o, some sz => some ((List.range sz).map (· + o))
  | _, _ => none

def totalSize (rs : Regs) : Nat := (rs.map (·.2)).sum

/-- `argument` case of `convert_qubit_ids_to_indices` (no bound check on the index) -/
def argIndices (rs : Regs) (a : Arg) : Option (List Nat) :=
  match a.idx with
  | some i => (firstIndex rs a.name).map fun o => [o + i]
  | none => regIndices rs a.name

/-- `anylist` case.  `idlist` with ≥ 2 names raises (AttributeError on a Token); a `mixedlist`
whose leading bare names form an `idlist` of ≥ 2 names raises the same way. -/
def anylistIndices (rs : Regs) (as : List Arg) : Option (List Nat) :=
  let lead := as.takeWhile (·.idx.isNone)
  if lead.length ≥ 2 then none
  else (as.mapM (argIndices rs)).map List.flatten

def nodup [DecidableEq α] : List α → Bool
  | [] => true
  | a :: as => !as.contains a && nodup as

/-! ## building operations -/

/-- `[float(eval_exp(e)) for e in exp_list]` -/
def evalParams (A : Arith V) (es : List (QE V)) : Option (List V) := es.mapM (evalQ A)

/-- `evaluate_param_exps` -/
def evalPExps (A : Arith V) (vs : List V) (ps : List (PExp V)) : Option (List V) :=
  ps.mapM fun p => match p with
    | .const v => some v
    | .tree e => (substVals vs e).bind (evalQ A)

/-- `Operation(gate, loc, params)` for a library gate: empty params are padded with zeros,
then parameter count, duplicate-free location and size are checked. -/
def mkPrim (A : Arith V) (b : BuiltinDef) (loc : List Nat) (ps : List V) : Option (Op V) :=
  let ps' := if ps.isEmpty && b.gnp != 0 then List.replicate b.gnp A.zero else ps
  if ps'.length == b.gnp && nodup loc && loc.length == b.gnq then some (.prim b.gid loc ps')
  else none

mutual
/-- `GateDef.build_op` / `CustomGateDef.build_op` -/
def buildOp (A : Arith V) : GDef V → List Nat → List V → Option (Op V)
  | .builtin b, loc, vs => mkPrim A b loc vs
  | .custom name _ nv body, loc, vs =>
    match buildBody A nv body vs with
    | some ops => if nodup loc && loc.length == nv then some (.block name nv ops loc) else none
    | none => none
/-- the loop of `CustomGateDef.build_op` (`cgc.append(sub.build_op(subloc, subparams))`) -/
def buildBody (A : Arith V) (nv : Nat) : List (GBody V) → List V → Option (List (Op V))
  | [], _ => some []
  | .mk g loc ps :: rest, vs =>
    match evalPExps A vs ps with
    | some sub =>
      (match buildOp A g loc sub with
       | some op =>
         if op.loc.all (· < nv) then
           (match buildBody A nv rest vs with
            | some ops => some (op :: ops)
            | none => none)
         else none
       | none => none)
    | none => none
end

/-! ## visitor state -/

structure St (V : Type) where
  table : List BuiltinDef := []
  qregs : Regs := []
  cregs : Regs := []
  customs : List (String × GDef V) := []     -- newest first (dict overwrite)
  ops : List (Op V) := []                     -- newest first

def lookupBuiltin (t : List BuiltinDef) (name : String) : Option BuiltinDef :=
  t.find? (·.key == name)

/-- `gate_defs` first, then `custom_gate_defs` -/
def St.lookup (s : St V) (name : String) : Option (GDef V) :=
  match lookupBuiltin s.table name with
  | some b => some (.builtin b)
  | none => (s.customs.find? (·.1 == name)).map (·.2)

/-- top-level `gate` / `ugate` / `cxgate` visitor methods -/
def elabCall (A : Arith V) (s : St V) : GCall V → Option (Op V)
  | .gate name params args =>
    match evalParams A params with
    | some vs =>
      (match anylistIndices s.qregs args with
       | some loc =>
         if !nodup loc then none else
         (match s.lookup name with
          | some g =>
            if vs.length == g.np && loc.length == g.nv then buildOp A g loc vs else none
          | none => none)
       | none => none)
    | none => none
  | .u params a =>
    match evalParams A params, a.idx, firstIndex s.qregs a.name, lookupBuiltin s.table "U" with
    | some vs, some i, some o, some b => mkPrim A b [o + i] vs
    | _, _, _, _ => none
  | .cx a b =>
    match a.idx, b.idx, firstIndex s.qregs a.name, firstIndex s.qregs b.name,
          lookupBuiltin s.table "CX" with
    | some i, some j, some oa, some ob, some d =>
      if oa + i == ob + j then none else mkPrim A d [oa + i, ob + j] []
    | _, _, _, _, _ => none

/-- parameter expressions of a body statement: constants are evaluated now -/
def bodyPExps (A : Arith V) (formals : List String) (es : List (QE V)) : Option (List (PExp V)) :=
  es.mapM fun e =>
    if hasParam formals e then some (.tree (bindIds formals e))
    else (evalQ A e).map .const

def idxOf? (l : List String) (x : String) : Option Nat :=
  if l.contains x then some (l.idxOf x) else none

/-- `gatep` / `ugatep` / `cxgatep` -/
def elabBodyCall (A : Arith V) (s : St V) (formals qubits : List String) :
    GCall V → Option (GBody V)
  | .gate name params args =>
    match bodyPExps A formals params with
    | some ps =>
      -- `qubits.index(str(iter.children[-1]))`: an indexed argument looks up its index text
      if args.any (·.idx.isSome) then none else
      (match args.mapM (fun a => idxOf? qubits a.name) with
       | some loc =>
         (match s.lookup name with
          | some g => if ps.length == g.np && loc.length == g.nv then some (.mk g loc ps) else none
          | none => none)
       | none => none)
    | none => none
  | .u params a =>
    match bodyPExps A formals params, idxOf? qubits a.name, lookupBuiltin s.table "U" with
    | some ps, some q, some b => some (.mk (.builtin b) [q] ps)
    | _, _, _ => none
  | .cx a b =>
    match idxOf? qubits a.name, idxOf? qubits b.name, lookupBuiltin s.table "CX" with
    | some x, some y, some d => if x == y then none else some (.mk (.builtin d) [x, y] [])
    | _, _, _ => none

def elabBody (A : Arith V) (s : St V) (formals qubits : List String) :
    List (BStmt V) → Option (List (GBody V))
  | [] => some []
  | .barrier :: rest => elabBody A s formals qubits rest
  | .call c :: rest =>
    match elabBodyCall A s formals qubits c with
    | some b => (elabBody A s formals qubits rest).map (b :: ·)
    | none => none

/-- `measure` visitor method -/
def elabMeasure (s : St V) (q c : Arg) : Option (Op V) :=
  match argIndices s.qregs q with
  | none => none
  | some loc =>
    match regSize s.qregs q.name, regSize s.cregs c.name with
    | some qsz, some csz =>
      (match q.idx, c.idx with
       | none, none =>
         if qsz != csz then none else
         (firstIndex s.qregs q.name).map fun o =>
           .measure loc ((List.range qsz).map fun i => (o + i, c.name, i))
       | some i, some j => some (.measure loc [(i, c.name, j)])   -- raw index as key
       | _, _ => none)
    | _, _ => none

/-- `reset` visitor method -/
def elabReset (s : St V) (q : Arg) : Option (List (Op V)) :=
  match q.idx with
  | some _ => (argIndices s.qregs q).map fun l => l.map .reset
  | none =>
    match s.qregs with
    | (_, sz) :: _ => some ((List.range sz).map .reset)     -- first register, whatever `q` is
    | [] => none

def elabStmt (A : Arith V) (s : St V) : Stmt V → Option (St V)
  | .incl _ => some s
  | .opaqueDecl => some s
  | .qreg n k => if s.qregs.any (·.1 == n) then none else some { s with qregs := s.qregs ++ [(n, k)] }
  | .creg n k => if s.cregs.any (·.1 == n) then none else some { s with cregs := s.cregs ++ [(n, k)] }
  | .gatedecl name ps qs body =>
    (elabBody A s ps qs body).map fun b =>
      { s with customs := (name, .custom name ps.length qs.length b) :: s.customs }
  | .call c => (elabCall A s c).map fun op => { s with ops := op :: s.ops }
  | .measure q c => (elabMeasure s q c).map fun op => { s with ops := op :: s.ops }
  | .reset q => (elabReset s q).map fun l => { s with ops := l.reverse ++ s.ops }
  | .barrier as =>
    match anylistIndices s.qregs as with
    | some loc => if nodup loc then some { s with ops := .barrier loc :: s.ops } else none
    | none => none

def elabStmts (A : Arith V) (s : St V) : List (Stmt V) → Option (St V)
  | [] => some s
  | st :: rest => (elabStmt A s st).bind fun s' => elabStmts A s' rest

/-- Result of `OPENQASM2Language.decode`. -/
structure Decoded (V : Type) where
  numQubits : Nat
  cregs : Regs
  ops : List (Op V)

/-- `get_circuit`: at least one qubit; `circuit.extend` wants every location non-empty (an
operation on a zero-size register raises `max() iterable argument is empty`) and inside the
circuit. -/
def finish (s : St V) : Option (Decoded V) :=
  let n := totalSize s.qregs
  let ops := s.ops.reverse
  if n == 0 then none
  else if ops.all (fun o => !o.loc.isEmpty && o.loc.all (· < n)) then some ⟨n, s.cregs, ops⟩
  else none

/-- `parse` (after the lexer) + `visit_topdown` + `get_circuit` -/
def decodeToks (A : Arith V) (table : List BuiltinDef) (ts : List Tok) : Option (Decoded V) :=
  (parseProgram ts).bind fun ss => (elabStmts A { table := table } ss).bind finish

/-- `decode(source)` -/
def decode (A : Arith V) (table : List BuiltinDef) (src : String) : Option (Decoded V) :=
  (lex src).bind (decodeToks A table)

end BqVerif.Qasm
