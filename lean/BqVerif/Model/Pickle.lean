import BqVerif.Model.Circ
/-
C16 — what crosses a process boundary.

* `Circ.reduceWith` / `Pickled.rebuild`: transcription of `Circuit.__reduce__` and
  `rebuild_circuit` (bqskit/ir/circuit.py).  The pickle payload is
  `(num_qudits, radixes, gate table, cycles)`; the cycles are re-derived from the
  iteration `operations_with_cycles()` by opening a new group whenever the yielded
  cycle index changes; `rebuild_circuit` appends one empty cycle per *group* and
  places the group's operations with `_append(op, i)`, `i` the group index.
* record models of `Circuit.copy/become`, `PassData.copy/become/update/update_error_mul`
  over the field names that `translate/fields.py` reads from the live source.

No imports beyond `Model/Circ` (the driver links this file).
-/
namespace BqVerif.Circ

/-! ## gate identity -/

/-- What the model knows of a gate: its id, its radixes, its number of parameters.
Two model gates are the same gate iff these agree (`Gate.__eq__` of the real classes is
checked against this identity by the harness). -/
structure GateId where
  gid : Nat
  rad : List Nat
  npar : Nat
deriving DecidableEq, Repr

def Op.gate (o : Op) : GateId := ⟨o.gid, o.rad, o.par.length⟩

/-- model of `hash(gate)`: any function of the identity; this one is used by the driver -/
def GateId.hash (g : GateId) : Nat := g.rad.foldl (fun h r => 31 * h + r) (1000003 * g.gid + g.npar)

/-- `Operation.__eq__`: gate, params, location.  `Operation.__hash__`: (gate, location). -/
def Op.eqOp (a b : Op) : Bool := a.gate == b.gate && a.par == b.par && a.loc == b.loc
def Op.hashOp (o : Op) : Nat := o.loc.foldl (fun h q => 31 * h + q + 1) o.gate.hash

/-! ## the pickle payload -/

/-- `(gate_table[op.gate], op.location._location, op.params)` -/
structure MOp where
  gi : Nat
  loc : List Nat
  par : List Int
deriving DecidableEq, Repr

structure Pickled where
  numQudits : Nat
  radixes : List Nat
  gates : List GateId
  cycles : List (List MOp)
deriving DecidableEq, Repr

/-- `gate_table[op.gate]` for a table that lists `self.gate_set` in *some* order
(a Python set): the index of the gate in the list. -/
def marshal (tbl : List GateId) (o : Op) : MOp := ⟨tbl.idxOf o.gate, o.loc, o.par⟩

/-- one turn of the loop
```
for cycle, op in self.operations_with_cycles():
    if cycle != last_cycle: last_cycle = cycle; cycles.append([])
    cycles[-1].append(marshalled_op)
```
`none` plays `last_cycle = -1`. -/
def appendLast {α : Type} : List (List α) → α → List (List α)
  | [], x => [[x]]           -- unreachable in the loop: a group is always open
  | [g], x => [g ++ [x]]
  | g :: gs, x => g :: appendLast gs x

def groupStep {α : Type} (s : Option Nat × List (List α)) (x : Nat × α) : Option Nat × List (List α) :=
  if s.1 == some x.1 then (s.1, appendLast s.2 x.2) else (some x.1, s.2 ++ [[x.2]])

/-- the groups of consecutive items with equal cycle index -/
def groupRuns {α : Type} (it : List (Nat × α)) : List (List α) :=
  (it.foldl groupStep (none, [])).2

def dedupGates : List GateId → List GateId
  | [] => []
  | g :: gs => if gs.contains g then dedupGates gs else g :: dedupGates gs

/-- a canonical listing of `gate_set` (the driver's choice of set order) -/
def Circ.gateTable (c : Circ) : List GateId := dedupGates (c.ops.map Op.gate)

/-- `Circuit.__reduce__` for a given listing of the gate set and a given iteration. -/
def Circ.reduceWith (c : Circ) (tbl : List GateId) (it : List (Nat × Op)) : Pickled :=
  { numQudits := c.numQudits, radixes := c.radixes, gates := tbl,
    cycles := groupRuns (it.map (fun x => (x.1, marshal tbl x.2))) }

/-- `__reduce__` as the code runs it: the iteration is the DAG iterator. -/
def Circ.reduce (c : Circ) : Pickled := c.reduceWith c.gateTable c.iterKahn
/-- the same over the row-major iteration (the theorems' iteration) -/
def Circ.reduceRM (c : Circ) : Pickled := c.reduceWith c.gateTable c.iterCyc

/-! ## rebuild -/

/-- `Operation(gate_table[m[0]], m[1], m[2])`: `KeyError` (here `runtime`) for an index outside
the table, `TypeError` for an invalid location, defaulted zero parameters, `ValueError` for a
wrong parameter count or a location/gate size mismatch. -/
def mkOp (tbl : List GateId) (m : MOp) : Except Err Op :=
  match tbl[m.gi]? with
  | none => .error .runtime
  | some g =>
    if !nodupL m.loc then .error .type
    else
      let par := if m.par.isEmpty && g.npar != 0 then List.replicate g.npar (0 : Int) else m.par
      if par.length != g.npar then .error .value
      else if m.loc.length != g.rad.length then .error .value
      else .ok ⟨g.gid, par, m.loc, g.rad⟩

/-- `_append(op, i)`: no validity check in the code; the grid write raises `IndexError` for a
qudit outside the circuit or a missing cycle.  Writing over an occupied cell would leave a
grid that is not a list of operations: that is outside this model (`runtime`); the theorems
show it cannot happen for the payload of a well-formed circuit. -/
def Circ.appendAtCycle (c : Circ) (i : Nat) (o : Op) : Except Err Circ :=
  if !(i < c.numCycles) then .error .index
  else if !(o.loc.all (· < c.numQudits)) then .error .index
  else if !(c.unoccupied i o.loc) then .error .runtime
  else .ok { c with cycles := c.cycles.modify i (· ++ [o]) }

def Circ.appendGroup (tbl : List GateId) (i : Nat) : Circ → List MOp → Except Err Circ
  | c, [] => .ok c
  | c, m :: ms =>
    match mkOp tbl m with
    | .error e => .error e
    | .ok o =>
      match c.appendAtCycle i o with
      | .error e => .error e
      | .ok c' => Circ.appendGroup tbl i c' ms

/-- `for i, cycle in enumerate(cycles): circuit._append_cycle(); for m in cycle: circuit._append(…, i)` -/
def Circ.rebuildCycles (tbl : List GateId) : Circ → Nat → List (List MOp) → Except Err Circ
  | c, _, [] => .ok c
  | c, i, g :: gs =>
    match Circ.appendGroup tbl i { c with cycles := c.cycles ++ [[]] } g with
    | .error e => .error e
    | .ok c' => Circ.rebuildCycles tbl c' (i + 1) gs

/-- `rebuild_circuit(num_qudits, radixes, gates, cycles)`; the first three tests are those of
`Circuit.__init__`. -/
def Pickled.rebuild (p : Pickled) : Except Err Circ :=
  if p.numQudits == 0 then .error .value
  else
    let radixes := if p.radixes.isEmpty then List.replicate p.numQudits 2 else p.radixes
    if !(radixes.all (fun r => decide (2 ≤ r))) then .error .type
    else if radixes.length != p.numQudits then .error .value
    else Circ.rebuildCycles p.gates ⟨radixes, []⟩ 0 p.cycles

/-- the canonical form on which a circuit and its round trip are compared: the same cycles,
each listed in iteration order (by first qudit). -/
def Circ.canon (c : Circ) : Circ := { c with cycles := c.cycles.map (sortBy Op.head) }

/-- the radixes a real `Circuit` can have -/
def Circ.radOk (c : Circ) : Bool := !c.radixes.isEmpty && c.radixes.all (fun r => decide (2 ≤ r))

/-- what the theorems need of an iteration: cycle indices never decrease, stay in range,
and the items carrying index `k` are exactly cycle `k` in some order. -/
def sortedNat : List Nat → Bool
  | [] => true
  | [_] => true
  | a :: b :: t => decide (a ≤ b) && sortedNat (b :: t)

def Circ.iterOkB (c : Circ) (it : List (Nat × Op)) : Bool :=
  sortedNat (it.map (·.1)) && it.all (fun x => decide (x.1 < c.numCycles)) &&
  (List.range c.numCycles).all (fun k =>
    permOpsL ((it.filter (fun x => x.1 == k)).map (·.2)) (c.cycles.getD k []))
where
  permOpsL : List Op → List Op → Bool
    | [], l2 => l2.isEmpty
    | x :: xs, l2 => l2.contains x && permOpsL xs (l2.erase x)

/-! ## record models -/

/-- an object as the map from attribute names to values -/
abbrev Rec (V : Type) := String → V

/-- `self.f = copy(other.f)` for every listed pair `(target, source)`; in a model without a
heap `copy.copy`/`copy.deepcopy` are the identity on values. -/
def Rec.assign {V : Type} (pairs : List (String × String)) (self other : Rec V) : Rec V :=
  fun f => match pairs.find? (fun p => p.1 == f) with
    | some p => other p.2
    | none => self f

/-- `PassData` as a record (reserved fields + user dictionary), values abstract. -/
structure PData (V : Type) where
  target : V
  error : V
  model : V
  placement : V
  initialMapping : V
  finalMapping : V
  seed : V
  data : List (String × V)
deriving DecidableEq, Repr

/-- `PassData.become(other)` (both branches assign the same eight fields) -/
def PData.become {V : Type} (_self other : PData V) : PData V :=
  { target := other.target, error := other.error, model := other.model,
    placement := other.placement, initialMapping := other.initialMapping,
    finalMapping := other.finalMapping, data := other.data, seed := other.seed }

/-- `PassData.copy()` = `copy.deepcopy(self)` -/
def PData.copy {V : Type} (self : PData V) : PData V := self

def dictSet {V : Type} (d : List (String × V)) (k : String) (v : V) : List (String × V) :=
  if d.any (·.1 == k) then d.map (fun p => if p.1 == k then (k, v) else p) else d ++ [(k, v)]
def dictGet {V : Type} (d : List (String × V)) (k : String) : Option V :=
  (d.find? (·.1 == k)).map (·.2)

/-- `self[key] = val` -/
def PData.setItem {V : Type} (s : PData V) (k : String) (v : V) : PData V :=
  if k == "target" then { s with target := v }
  else if k == "model" || k == "machine_model" then { s with model := v }
  else if k == "placement" then { s with placement := v }
  else if k == "error" then { s with error := v }
  else if k == "seed" then { s with seed := v }
  else if k == "initial_mapping" then { s with initialMapping := v }
  else if k == "final_mapping" then { s with finalMapping := v }
  else { s with data := dictSet s.data k v }

def PData.getItem {V : Type} (s : PData V) (k : String) : Option V :=
  if k == "target" then some s.target
  else if k == "model" || k == "machine_model" then some s.model
  else if k == "placement" then some s.placement
  else if k == "error" then some s.error
  else if k == "seed" then some s.seed
  else if k == "initial_mapping" then some s.initialMapping
  else if k == "final_mapping" then some s.finalMapping
  else dictGet s.data k

def reservedKeys : List String :=
  ["target", "model", "placement", "error", "seed", "machine_model", "initial_mapping",
   "final_mapping"]

/-- `PassData.update(other)` for a `PassData` argument: iterate `other`'s keys (reserved keys,
then the user keys) and assign; `target` is copied without evaluation. -/
def PData.update {V : Type} (self other : PData V) : PData V :=
  let s1 := reservedKeys.foldl (fun s k =>
    match other.getItem k with
    | some v => s.setItem k v
    | none => s) self
  other.data.foldl (fun s kv => s.setItem kv.1 kv.2) s1

/-- `update_error_mul`: `1 - (1 - e)(1 - x)` over exact rationals -/
def errMul (a b : Rat) : Rat := 1 - (1 - a) * (1 - b)

/-! ## equality and hash as the code has them after the fixes 15423cf, 8f3ffc9, c6a0f46 -/

/-- `all(a == b for a, b in zip(xs, ys))`: what `CircuitGate.__eq__` (operation sequences) and
`Circuit.__eq__` (radixes) did on their own before the fixes -/
def eqSeqZip {α : Type} [BEq α] (a b : List α) : Bool := (a.zip b).all (fun p => p.1 == p.2)

/-- `CircuitGate.__eq__` after 8f3ffc9: `num_operations` compared first, then the zip -/
def eqSeq {α : Type} [BEq α] (a b : List α) : Bool := a.length == b.length && eqSeqZip a b

/-- `Circuit.__eq__`: equal gate-count tables (`_gate_info`), equal radix tuples (c6a0f46), then
the zip of the two iterations.  Arguments: radixes and operations in iteration order. -/
def countsEq (a b : List Op) : Bool :=
  (a.map Op.gate).all (fun g => (a.map Op.gate).count g == (b.map Op.gate).count g) &&
  (b.map Op.gate).all (fun g => (a.map Op.gate).count g == (b.map Op.gate).count g)
def eqCircuit (ra : List Nat) (a : List Op) (rb : List Nat) (b : List Op) : Bool :=
  countsEq a b && ra == rb && eqSeqZip a b

/-- the edge set listed in sorted order (`sorted(self._edges)`) -/
def sortEdges (l : List (Nat × Nat)) : List (Nat × Nat) := l.foldr insertPt []
def hashEdges (n : Nat) (l : List (Nat × Nat)) : Nat :=
  l.foldl (fun h e => 1000003 * h + 31 * e.1 + e.2 + 1) n
/-- `CouplingGraph.__hash__` after 15423cf for a listing `l` of the edge set -/
def graphHash (n : Nat) (l : List (Nat × Nat)) : Nat := hashEdges n (sortEdges l)
/-- before: the hash of the listing itself (iteration order of a Python set) -/
def graphHashOld (n : Nat) (l : List (Nat × Nat)) : Nat := hashEdges n l

end BqVerif.Circ
