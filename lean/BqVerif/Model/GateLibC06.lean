import BqVerif.Model.NumC06
import BqVerif.Model.Tensor
/-
The parameterised gates the C06 correspondence uses, evaluated exactly at rational points
of the unit circle.  A parameter is a point `(c, s)`, `c² + s² = 1`, standing for the real
angle `θ = 2·atan2(s, c)`, i.e. `(c, s) = (cos θ/2, sin θ/2)`; then `e^{iθ/2} = c + i s`
and `e^{iθ} = (c + i s)²`, so every entry below is a Gaussian rational.  `tag` identifies
the float the harness uses for this parameter (exact comparison of the flat parameter
vector).

Only the *circuit level* is C06's subject; this table exists so that the model can evaluate
multi-parameter operations (C18 owns the gate contracts).  Every matrix and gradient
produced here is compared against the real gate on every run.
-/
namespace BqVerif.GateLibC06
open BqVerif.NumC06 BqVerif.Tensor

structure Param where
  tag : Int
  c : Rat
  s : Rat
deriving Repr, Inhabited

/-- `e^{iθ/2}`. -/
def Param.h (p : Param) : GQ := ⟨p.c, p.s⟩
/-- `e^{iθ}`. -/
def Param.f (p : Param) : GQ := p.h * p.h

def ofRows (rows : List (List GQ)) : T GQ :=
  ⟨[rows.length, (rows.headD []).length], (rows.flatten).toArray⟩

def diagM (ds : List GQ) : T GQ :=
  ofFn [ds.length, ds.length]
    (fun idx => if idx.getD 0 0 = idx.getD 1 0 then ds.getD (idx.getD 0 0) 0 else 0)

/-- `d × d` matrix from an entry function. -/
def matFn (d : Nat) (f : Nat → Nat → GQ) : T GQ :=
  ofFn [d, d] (fun idx => f (idx.getD 0 0) (idx.getD 1 0))

/-- block diagonal `diag(I_k, m)`. -/
def ctrl (k : Nat) (m : T GQ) (grad : Bool := false) : T GQ :=
  let d := m.shape.headD 0
  matFn (k + d) (fun r c =>
    if r < k || c < k then (if r = c && !grad then 1 else 0) else m.get [r - k, c - k])

structure GateSem where
  numParams : Nat
  radixes : List Nat
  unitary : List Param → T GQ
  grad : List Param → List (T GQ)

def half : GQ := ⟨1/2, 0⟩
def rc (r : Rat) : GQ := ⟨r, 0⟩
def ic (r : Rat) : GQ := ⟨0, r⟩
def hs (m : T GQ) : T GQ := ⟨m.shape, m.data.map (half * ·)⟩

def p0 (ps : List Param) : Param := ps.getD 0 ⟨0, 1, 0⟩
def p1 (ps : List Param) : Param := ps.getD 1 ⟨0, 1, 0⟩
def p2 (ps : List Param) : Param := ps.getD 2 ⟨0, 1, 0⟩

def rxM (p : Param) : T GQ := ofRows [[rc p.c, ic (-p.s)], [ic (-p.s), rc p.c]]
def rxD (p : Param) : T GQ := hs (ofRows [[rc (-p.s), ic (-p.c)], [ic (-p.c), rc (-p.s)]])
def ryM (p : Param) : T GQ := ofRows [[rc p.c, rc (-p.s)], [rc p.s, rc p.c]]
def ryD (p : Param) : T GQ := hs (ofRows [[rc (-p.s), rc (-p.c)], [rc p.c, rc (-p.s)]])
def rzM (p : Param) : T GQ := ofRows [[p.h.conj, 0], [0, p.h]]
def rzD (p : Param) : T GQ := hs (ofRows [[-(GQ.I * p.h.conj), 0], [0, GQ.I * p.h]])

def xx : T GQ := ofRows [[0, 0, 0, 1], [0, 0, 1, 0], [0, 1, 0, 0], [1, 0, 0, 0]]
def yy : T GQ := ofRows [[0, 0, 0, -1], [0, 0, 1, 0], [0, 1, 0, 0], [-1, 0, 0, 0]]

/-- `a·I + b·m`. -/
def lin (a b : GQ) (m : T GQ) : T GQ :=
  let d := m.shape.headD 0
  matFn d (fun r c => (if r = c then a else 0) + b * m.get [r, c])

/-- two-level rotation on levels `a < b` of a `d`-level qudit (harness gate `GivensGate`). -/
def givensM (d a b : Nat) (p : Param) (grad : Bool) : T GQ :=
  let k : GQ := if grad then half else 1
  matFn d (fun r c =>
    if r = a && c = a then k * rc (if grad then -p.s else p.c)
    else if r = a && c = b then k * rc (if grad then -p.c else -p.s)
    else if r = b && c = a then k * rc (if grad then p.c else p.s)
    else if r = b && c = b then k * rc (if grad then -p.s else p.c)
    else if r = c && !grad then 1 else 0)

/-- phase `e^{iθ}` on level `a` of a `d`-level qudit (harness gate `LevelPhaseGate`). -/
def dphaseM (d a : Nat) (p : Param) (grad : Bool) : T GQ :=
  matFn d (fun r c =>
    if r = c then (if r = a then (if grad then GQ.I * p.f else p.f) else (if grad then 0 else 1))
    else 0)

def lib (kind : String) (args : List Nat) : Option GateSem :=
  match kind with
  | "rx" => some ⟨1, [2], fun ps => rxM (p0 ps), fun ps => [rxD (p0 ps)]⟩
  | "ry" => some ⟨1, [2], fun ps => ryM (p0 ps), fun ps => [ryD (p0 ps)]⟩
  | "rz" => some ⟨1, [2], fun ps => rzM (p0 ps), fun ps => [rzD (p0 ps)]⟩
  | "u1" => some ⟨1, [2], fun ps => diagM [1, (p0 ps).f],
                  fun ps => [diagM [0, GQ.I * (p0 ps).f]]⟩
  | "u3" => some ⟨3, [2],
      fun ps =>
        let t := p0 ps; let ep := (p1 ps).f; let el := (p2 ps).f
        ofRows [[rc t.c, -(el * rc t.s)], [ep * rc t.s, ep * el * rc t.c]],
      fun ps =>
        let t := p0 ps; let ep := (p1 ps).f; let el := (p2 ps).f
        [ hs (ofRows [[rc (-t.s), -(el * rc t.c)], [ep * rc t.c, -(ep * el * rc t.s)]]),
          ofRows [[0, 0], [GQ.I * ep * rc t.s, GQ.I * ep * el * rc t.c]],
          ofRows [[0, -(GQ.I * el * rc t.s)], [0, GQ.I * ep * el * rc t.c]] ]⟩
  | "crx" => some ⟨1, [2, 2], fun ps => ctrl 2 (rxM (p0 ps)), fun ps => [ctrl 2 (rxD (p0 ps)) true]⟩
  | "cry" => some ⟨1, [2, 2], fun ps => ctrl 2 (ryM (p0 ps)), fun ps => [ctrl 2 (ryD (p0 ps)) true]⟩
  | "crz" => some ⟨1, [2, 2], fun ps => ctrl 2 (rzM (p0 ps)), fun ps => [ctrl 2 (rzD (p0 ps)) true]⟩
  | "cp" => some ⟨1, [2, 2], fun ps => diagM [1, 1, 1, (p0 ps).f],
                  fun ps => [diagM [0, 0, 0, GQ.I * (p0 ps).f]]⟩
  | "rzz" => some ⟨1, [2, 2],
      fun ps => let h := (p0 ps).h; diagM [h.conj, h, h, h.conj],
      fun ps => let h := (p0 ps).h
        [hs (diagM [-(GQ.I * h.conj), GQ.I * h, GQ.I * h, -(GQ.I * h.conj)])]⟩
  | "rxx" => some ⟨1, [2, 2],
      fun ps => lin (rc (p0 ps).c) (ic (-(p0 ps).s)) xx,
      fun ps => [hs (lin (rc (-(p0 ps).s)) (ic (-(p0 ps).c)) xx)]⟩
  | "ryy" => some ⟨1, [2, 2],
      fun ps => lin (rc (p0 ps).c) (ic (-(p0 ps).s)) yy,
      fun ps => [hs (lin (rc (-(p0 ps).s)) (ic (-(p0 ps).c)) yy)]⟩
  | "ccp" => some ⟨1, [2, 2, 2], fun ps => diagM [1, 1, 1, 1, 1, 1, 1, (p0 ps).f],
                   fun ps => [diagM [0, 0, 0, 0, 0, 0, 0, GQ.I * (p0 ps).f]]⟩
  | "givens" =>
    match args with
    | [d, a, b] => some ⟨1, [d], fun ps => givensM d a b (p0 ps) false,
                         fun ps => [givensM d a b (p0 ps) true]⟩
    | _ => none
  | "dphase" =>
    match args with
    | [d, a] => some ⟨1, [d], fun ps => dphaseM d a (p0 ps) false,
                      fun ps => [dphaseM d a (p0 ps) true]⟩
    | _ => none
  | _ => none

end BqVerif.GateLibC06
