/-
The list-of-cycles reference model of `bqskit.ir.circuit.Circuit`
(DESIGN.md §3.3, properties C04, C05, C16(a)).

A circuit is its radixes and a list of cycles; a cycle is the list of the
operations placed in it.  Everything the implementation stores separately
(`_circuit` grid, `_dag`, `_front`, `_rear`, `_gate_info`, `_graph_info`) is a
*function of this list* here.  Editing calls are transcribed from
`bqskit/ir/circuit.py` call by call, including their argument normalisation and
the order in which they raise; a call that raises after having already changed
the circuit leaves the changed circuit behind, exactly as the Python does.

No imports: the compiled driver links this file.
-/
namespace BqVerif.Circ

inductive Err | index | value | type | runtime
deriving DecidableEq, Repr

/-- An operation: gate identity, parameters (scaled integers), location (ordered),
and the gate's radixes (one per location entry). -/
structure Op where
  gid : Nat
  par : List Int
  loc : List Nat
  rad : List Nat
deriving DecidableEq, Repr

structure Circ where
  radixes : List Nat
  cycles : List (List Op)
deriving DecidableEq, Repr

abbrev Cycle := List Op

def Circ.numQudits (c : Circ) : Nat := c.radixes.length
def Circ.numCycles (c : Circ) : Nat := c.cycles.length
def Circ.empty (radixes : List Nat) : Circ := ⟨radixes, []⟩

/-! ## grid view -/
def Op.on (o : Op) (q : Nat) : Bool := o.loc.contains q
def cellOf (cy : Cycle) (q : Nat) : Option Op := cy.find? (·.on q)
def occ (cy : Cycle) (q : Nat) : Bool := cy.any (·.on q)
def Circ.cell (c : Circ) (cyc q : Nat) : Option Op := (c.cycles.getD cyc []).find? (·.on q)

/-- index of the last / first cycle in which qudit `q` is occupied -/
def lastOnFrom : List Cycle → Nat → Nat → Option Nat
  | [], _, _ => none
  | cy :: rest, i, q =>
    match lastOnFrom rest (i + 1) q with
    | some k => some k
    | none => if occ cy q then some i else none
def Circ.lastOn (c : Circ) (q : Nat) : Option Nat := lastOnFrom c.cycles 0 q
def firstOnFrom : List Cycle → Nat → Nat → Option Nat
  | [], _, _ => none
  | cy :: rest, i, q => if occ cy q then some i else firstOnFrom rest (i + 1) q
def Circ.firstOn (c : Circ) (q : Nat) : Option Nat := firstOnFrom c.cycles 0 q

/-! ## iteration -/
def insertBy (key : Op → Nat) (x : Op) : List Op → List Op
  | [] => [x]
  | y :: ys => if key x ≤ key y then x :: y :: ys else y :: insertBy key x ys
def sortBy (key : Op → Nat) (l : List Op) : List Op := l.foldr (insertBy key) []

def Op.head (o : Op) : Nat := o.loc.headD 0
def Op.maxQ (o : Op) : Nat := o.loc.foldl max 0
def Op.minQ (o : Op) : Nat := o.loc.foldl min (o.loc.headD 0)

/-- default (forward) iteration: row-major, each cycle ordered by `location[0]`
(theorem `C05_iter_kahn_eq_rowmajor` relates it to the heap-ordered DAG walk). -/
def Circ.iterCyc (c : Circ) : List (Nat × Op) :=
  (c.cycles.zipIdx).flatMap (fun (cy, i) => (sortBy Op.head cy).map (fun o => (i, o)))
def Circ.iter (c : Circ) : List Op := c.cycles.flatMap (sortBy Op.head)

/-- `reversed(circuit)`: the grid iterator walking cycles downwards and qudits
from the highest to the lowest; an op is yielded at its highest qudit. -/
def Circ.iterRev (c : Circ) : List Op :=
  c.cycles.reverse.flatMap (fun cy => (sortBy Op.maxQ cy).reverse)

def Circ.ops (c : Circ) : List Op := c.cycles.flatten

/-- qudit `q`'s timeline -/
def proj (q : Nat) (l : List Op) : List Op := l.filter (·.on q)
def Circ.timeline (c : Circ) (q : Nat) : List Op := proj q c.ops

/-! ## well-formedness -/
def Indep (a b : Op) : Prop := ∀ q, q ∈ a.loc → q ∉ b.loc
def Op.WF (n : Nat) (radixes : List Nat) (o : Op) : Prop :=
  o.loc ≠ [] ∧ o.loc.Nodup ∧ (∀ q ∈ o.loc, q < n) ∧ o.rad = o.loc.map (radixes.getD · 0)
/-- The documented invariants: no cycle is empty, operations of one cycle have pairwise
disjoint locations, every operation fits the circuit. -/
def Circ.Inv (c : Circ) : Prop :=
  (∀ cy ∈ c.cycles, cy ≠ []) ∧
  (∀ cy ∈ c.cycles, cy.Pairwise Indep) ∧
  (∀ cy ∈ c.cycles, ∀ o ∈ cy, o.WF c.numQudits c.radixes)

/-- decidable version used by the driver -/
def disjointL (a b : List Nat) : Bool := a.all (fun q => !b.contains q)
def pairwiseDisj : List Op → Bool
  | [] => true
  | o :: os => os.all (fun p => disjointL o.loc p.loc) && pairwiseDisj os
def nodupL : List Nat → Bool
  | [] => true
  | x :: xs => !xs.contains x && nodupL xs
def Op.wfB (n : Nat) (radixes : List Nat) (o : Op) : Bool :=
  !o.loc.isEmpty && nodupL o.loc && o.loc.all (· < n) &&
    o.rad == o.loc.map (radixes.getD · 0)
def Circ.invB (c : Circ) : Bool :=
  c.cycles.all (fun cy => !cy.isEmpty && pairwiseDisj cy &&
    cy.all (Op.wfB c.numQudits c.radixes))

/-! ## `check_valid_operation` -/
def Circ.checkValid (c : Circ) (o : Op) : Except Err Unit :=
  if !(o.loc.all (· < c.numQudits)) then .error .value
  else if (o.rad.zip o.loc).any (fun (r, q) => r != c.radixes.getD q 0) then .error .value
  else .ok ()

/-! ## append -/
def Circ.availStep (c : Circ) (m q : Nat) : Nat :=
  match c.lastOn q with
  | some k => max m (k + 1)
  | none => m
def Circ.findAvailable (c : Circ) (loc : List Nat) : Nat :=
  if c.cycles.isEmpty then 0 else loc.foldl c.availStep 0

/-- `_find_available_or_append_cycle` followed by `_append` -/
def Circ.appendCore (c : Circ) (o : Op) : Circ × Nat :=
  let k := c.findAvailable o.loc
  if k == c.numCycles then ({ c with cycles := c.cycles ++ [[o]] }, k)
  else ({ c with cycles := c.cycles.modify k (· ++ [o]) }, k)

def Circ.append (c : Circ) (o : Op) : Circ × Except Err Nat :=
  match c.checkValid o with
  | .error e => (c, .error e)
  | .ok () => let (c', k) := c.appendCore o; (c', .ok k)

/-! ## insert -/
def Circ.cycleInRange (c : Circ) (i : Int) : Bool :=
  i < (c.numCycles : Int) && i ≥ -(c.numCycles : Int)
def Circ.qubitInRange (c : Circ) (i : Int) : Bool :=
  i < (c.numQudits : Int) && i ≥ -(c.numQudits : Int)
def normIdx (n : Nat) (i : Int) : Nat := if i ≥ 0 then i.toNat else (n - (-i).toNat)

def Circ.unoccupied (c : Circ) (cyc : Nat) (loc : List Nat) : Bool :=
  loc.all (fun q => !occ (c.cycles.getD cyc []) q)

/-- place `o` at (normalised, in-range) cycle index `k`, opening a fresh cycle there
when some cell of the location is taken -/
def Circ.insertAt (c : Circ) (k : Nat) (o : Op) : Circ :=
  if c.unoccupied k o.loc then { c with cycles := c.cycles.modify k (· ++ [o]) }
  else { c with cycles := c.cycles.insertIdx k [o] }

def Circ.insert (c : Circ) (ci : Int) (o : Op) : Circ × Except Err Unit :=
  match c.checkValid o with
  | .error e => (c, .error e)
  | .ok () =>
    if c.numCycles == 0 then ((c.appendCore o).1, .ok ())
    else if !c.cycleInRange ci then
      if ci < -(c.numCycles : Int) then (c.insertAt 0 o, .ok ())
      else ((c.appendCore o).1, .ok ())
    else (c.insertAt (normIdx c.numCycles ci) o, .ok ())

/-! ## pop -/
/-- remove the op covering `(k, q)`; drop the cycle when it becomes empty -/
def Circ.removeAt (c : Circ) (k q : Nat) : Circ :=
  let cy := (c.cycles.getD k []).filter (fun o => !o.on q)
  if cy.isEmpty then { c with cycles := c.cycles.eraseIdx k }
  else { c with cycles := c.cycles.set k cy }

/-- `self[point]` for a point: IndexError when out of range or idle -/
def Circ.getOp (c : Circ) (p : Int × Int) : Except Err (Nat × Nat × Op) :=
  if !(c.cycleInRange p.1 && c.qubitInRange p.2) then .error .index else
  let k := normIdx c.numCycles p.1
  let q := normIdx c.numQudits p.2
  match c.cell k q with
  | none => .error .index
  | some o => .ok (k, q, o)

/-- the default point of `pop()`: last cycle, highest occupied qudit -/
def Circ.lastPoint (c : Circ) : Option (Int × Int) :=
  match c.cycles.getLast? with
  | none => none
  | some cy =>
    match ((List.range c.numQudits).reverse.find? (occ cy)) with
    | some q => some ((c.numCycles - 1 : Nat), (q : Nat))
    | none => none

def Circ.pop (c : Circ) (p : Option (Int × Int)) : Circ × Except Err Op :=
  let p' := match p with
    | some p => some p
    | none => c.lastPoint
  match p' with
  | none => (c, .error .index)
  | some p =>
    match c.getOp p with
    | .error e => (c, .error e)
    | .ok (k, q, o) => (c.removeAt k q, .ok o)

/-! ## replace / batch_replace -/
def sameSet (a b : List Nat) : Bool := a.all b.contains && b.all a.contains

def Circ.replace (c : Circ) (p : Int × Int) (o : Op) : Circ × Except Err Unit :=
  match c.getOp p with
  | .error e => (c, .error e)
  | .ok (k, _q, old) =>
    if disjointL old.loc o.loc then (c, .error .value)
    else if sameSet old.loc o.loc then
      ({ c with cycles := c.cycles.modify k (fun cy => cy.map (fun x => if x == old then o else x)) },
        .ok ())
    else
      let (c1, r1) := c.pop (some p)
      match r1 with
      | .error e => (c1, .error e)
      | .ok _ => c1.insert (k : Int) o     -- the point is normalised before the pop

def Circ.batchReplace (c : Circ) (items0 : List ((Int × Int) × Op)) : Circ × Except Err Unit :=
  if !(items0.all (fun it => c.cycleInRange it.1.1 && c.qubitInRange it.1.2)) then (c, .error .index) else
  let items : List ((Int × Int) × Op) := items0.map (fun it =>
    (((normIdx c.numCycles it.1.1 : Nat), (normIdx c.numQudits it.1.2 : Nat)), it.2))
  let sorted := items.foldr (fun x acc =>
    let rec ins : List ((Int × Int) × Op) → List ((Int × Int) × Op)
      | [] => [x]
      | y :: ys => if x.1.1 ≤ y.1.1 then x :: y :: ys else y :: ins ys
    ins acc) []
  let n0 : Int := c.numCycles
  sorted.foldl (fun (acc : Circ × Except Err Unit) item =>
    match acc.2 with
    | .error _ => acc
    | .ok () =>
      let shrink : Int := n0 - (acc.1.numCycles : Int)
      acc.1.replace (item.1.1 - shrink, item.1.2) item.2) (c, .ok ())

/-! ## pop_cycle -/
def Circ.popCycle (c : Circ) (ci : Int) : Circ × Except Err Unit :=
  if !c.cycleInRange ci then (c, .error .index) else
  let k := normIdx c.numCycles ci
  ({ c with cycles := c.cycles.eraseIdx k }, .ok ())

/-! ## batch_pop -/
def dedupOps : List (Nat × Op) → List (Nat × Op)
  | [] => []
  | x :: xs => if xs.contains x then dedupOps xs else x :: dedupOps xs

def insertNat (x : Nat) : List Nat → List Nat
  | [] => [x]
  | y :: ys => if x ≤ y then x :: y :: ys else y :: insertNat x ys
def sortNat (l : List Nat) : List Nat := l.foldr insertNat []
def dedupNat : List Nat → List Nat
  | [] => []
  | x :: xs => if xs.contains x then dedupNat xs else x :: dedupNat xs

/-- the sub-circuit of `batch_pop` / `get_slice`: ops (already in cycle order) re-appended on
the sorted set of their qudits -/
def subCircuit (radixes : List Nat) (ops : List Op) : Circ :=
  let qs := sortNat (dedupNat (ops.flatMap (·.loc)))
  let c0 : Circ := ⟨qs.map (radixes.getD · 0), []⟩
  ops.foldl (fun c o => (c.appendCore { o with loc := o.loc.map (fun q => qs.idxOf q) }).1) c0

def Circ.batchPop (c : Circ) (pts : List (Int × Int)) : Circ × Except Err Circ :=
  if !(pts.all (fun p => c.cycleInRange p.1 && c.qubitInRange p.2)) then (c, .error .index) else
  let npts := pts.map (fun p => (normIdx c.numCycles p.1, normIdx c.numQudits p.2))
  let found := npts.filterMap (fun (k, q) => (c.cell k q).map (fun o => (k, o)))
  if found.isEmpty then (c, .error .index) else
  let uniq := dedupOps found
  -- sorted by cycle (ops of one cycle are independent; their order is immaterial)
  let sorted := (List.range c.numCycles).flatMap (fun k =>
    sortBy Op.head ((uniq.filter (·.1 == k)).map (·.2)) |>.map (fun o => (k, o)))
  let c' := sorted.reverse.foldl (fun (c : Circ) (k, o) => c.removeAt k o.head) c
  (c', .ok (subCircuit c.radixes (sorted.map (·.2))))

/-! ## circuits into circuits -/
def Op.mapLoc (o : Op) (location : List Nat) : Op :=
  { o with loc := o.loc.map (fun q => location.getD q 0) }

def Circ.appendCircuit (c : Circ) (sub : Circ) (location : List Nat) : Circ × Except Err Unit :=
  if sub.numQudits != location.length then (c, .error .value) else
  sub.iter.foldl (fun (acc : Circ × Except Err Unit) o =>
    match acc.2 with
    | .error _ => acc
    | .ok () =>
      let (c', r) := acc.1.append (o.mapLoc location)
      (c', r.map (fun _ => ()))) (c, .ok ())

/-- a negative index is resolved once, against the cycle count before the insertion -/
def Circ.resolveCycle (c : Circ) (ci0 : Int) : Int :=
  if ci0 < -(c.numCycles : Int) then 0
  else if ci0 < 0 then (c.numCycles : Int) + ci0 else ci0

def Circ.insertCircuit (c : Circ) (ci0 : Int) (sub : Circ) (location : List Nat) :
    Circ × Except Err Unit :=
  let ci : Int := c.resolveCycle ci0
  if sub.numQudits != location.length then (c, .error .value)
  else if ci ≥ (c.numCycles : Int) then c.appendCircuit sub location   -- past the end: append forwards
  else
  sub.iterRev.foldl (fun (acc : Circ × Except Err Unit) o =>
    match acc.2 with
    | .error _ => acc
    | .ok () => acc.1.insert ci (o.mapLoc location)) (c, .ok ())

/-- `replace_with_circuit(point, circuit)` (not as a circuit gate) -/
def Circ.replaceWithCircuit (c : Circ) (p0 : Int × Int) (sub : Circ) : Circ × Except Err Unit :=
  if !(c.cycleInRange p0.1 && c.qubitInRange p0.2) then (c, .error .index) else
  let p : Int × Int := ((normIdx c.numCycles p0.1 : Nat), (normIdx c.numQudits p0.2 : Nat))
  let (c1, r) := c.pop (some p)
  match r with
  | .error e => (c1, .error e)
  | .ok o =>
    if sub.numQudits != o.loc.length then (c1, .error .value)
    else if sub.radixes != o.loc.map (c.radixes.getD · 0) then (c1, .error .value)
    else c1.insertCircuit p.1 sub o.loc

/-! ## qudits -/
def Circ.mapLocs (c : Circ) (f : Nat → Nat) : List Cycle :=
  c.cycles.map (fun cy => cy.map (fun o => { o with loc := o.loc.map f }))

def Circ.appendQudit (c : Circ) (radix : Int) : Circ × Except Err Unit :=
  if radix < 2 then (c, .error .value) else ({ c with radixes := c.radixes ++ [radix.toNat] }, .ok ())

def Circ.insertQudit (c : Circ) (qi : Int) (radix : Int) : Circ × Except Err Unit :=
  if radix < 2 then (c, .error .value)
  else if qi ≥ (c.numQudits : Int) then c.appendQudit radix
  else
    let k : Nat := if qi ≤ -(c.numQudits : Int) then 0 else normIdx c.numQudits qi
    ({ radixes := c.radixes.insertIdx k radix.toNat,
       cycles := c.mapLocs (fun q => if q < k then q else q + 1) }, .ok ())

def Circ.popQudit (c : Circ) (qi : Int) : Circ × Except Err Unit :=
  if !c.qubitInRange qi then (c, .error .index)
  else if c.numQudits == 1 then (c, .error .value)
  else
    let k := normIdx c.numQudits qi
    let pts : List (Int × Int) := (List.range c.numCycles).filterMap (fun i =>
      if occ (c.cycles.getD i []) k then some ((i : Int), (k : Int)) else none)
    let c1 := if pts.isEmpty then c else (c.batchPop pts).1
    ({ radixes := c1.radixes.eraseIdx k,
       cycles := c1.mapLocs (fun q => if q < k then q else q - 1) }, .ok ())

/-- `renumber_qudits(perm)` for `perm` of the right length without duplicates
(entries out of range make the Python raise midway; not modelled: guard `permOk`). -/
def permOk (n : Nat) (perm : List Nat) : Bool := perm.length == n && nodupL perm && perm.all (· < n)
def Circ.renumber (c : Circ) (perm : List Nat) : Circ × Except Err Unit :=
  if perm.length != c.numQudits then (c, .error .value)
  else if !nodupL perm then (c, .error .value)
  else
    ({ radixes := (List.range c.numQudits).map (fun q => c.radixes.getD (perm.idxOf q) 0),
       cycles := c.mapLocs (fun q => perm.getD q 0) }, .ok ())

/-! ## whole-circuit transformations -/
def Circ.compress (c : Circ) : Circ :=
  c.iter.foldl (fun acc o => (acc.appendCore o).1) ⟨c.radixes, []⟩

/-- `get_inverse`, parametric in the gate-level inverse `inv` -/
def Circ.inverse (c : Circ) (inv : Op → Op) : Circ :=
  c.iterRev.foldl (fun acc o => (acc.appendCore (inv o)).1) ⟨c.radixes, []⟩

def Circ.add (a b : Circ) : Circ × Except Err Unit :=
  let id := List.range a.numQudits
  let (c1, r1) := (Circ.empty a.radixes).appendCircuit a id
  match r1 with
  | .error e => (c1, .error e)
  | .ok () => c1.appendCircuit b id

def Circ.mul (a : Circ) (k : Nat) : Circ :=
  (List.range k).foldl (fun acc _ => (acc.appendCircuit a (List.range a.numQudits)).1)
    (Circ.empty a.radixes)

/-- `c *= k`: keeps the circuit and appends `k - 1` copies of the original; `k = 0` empties it -/
def Circ.imul (a : Circ) (k : Nat) : Circ :=
  if k == 0 then Circ.empty a.radixes else
  (List.range (k - 1)).foldl (fun acc _ => (acc.appendCircuit a (List.range a.numQudits)).1) a

/-! ## derived views (C05) -/
def Circ.point (o : Op) (k : Nat) : Nat × Nat := (k, o.head)

/-- next / previous operation of qudit `q` strictly after / before cycle `k` -/
def Circ.nextOn (c : Circ) (k q : Nat) : Option (Nat × Nat) :=
  (c.cycles.zipIdx.drop (k + 1)).findSome? (fun (cy, i) => (cellOf cy q).map (fun o => (i, o.head)))
def Circ.prevOn (c : Circ) (k q : Nat) : Option (Nat × Nat) :=
  (c.cycles.zipIdx.take k).reverse.findSome? (fun (cy, i) => (cellOf cy q).map (fun o => (i, o.head)))

def dedupPts : List (Nat × Nat) → List (Nat × Nat)
  | [] => []
  | x :: xs => if xs.contains x then dedupPts xs else x :: dedupPts xs

def Circ.next (c : Circ) (k : Nat) (o : Op) : List (Nat × Nat) :=
  dedupPts (o.loc.filterMap (c.nextOn k))
def Circ.prev (c : Circ) (k : Nat) (o : Op) : List (Nat × Nat) :=
  dedupPts (o.loc.filterMap (c.prevOn k))

def Circ.firstPoint (c : Circ) (q : Nat) : Option (Nat × Nat) :=
  c.cycles.zipIdx.findSome? (fun (cy, i) => (cellOf cy q).map (fun o => (i, o.head)))
def Circ.lastPointOn (c : Circ) (q : Nat) : Option (Nat × Nat) :=
  c.cycles.zipIdx.reverse.findSome? (fun (cy, i) => (cellOf cy q).map (fun o => (i, o.head)))

/-- ops without predecessor / successor -/
def Circ.front (c : Circ) : List (Nat × Nat) :=
  dedupPts (c.iterCyc.filterMap (fun (k, o) => if (c.prev k o).isEmpty then some (k, o.head) else none))
def Circ.rear (c : Circ) : List (Nat × Nat) :=
  dedupPts (c.iterCyc.filterMap (fun (k, o) => if (c.next k o).isEmpty then some (k, o.head) else none))

def Circ.numOps (c : Circ) : Nat := c.ops.length
def Circ.numParams (c : Circ) : Nat := (c.ops.map (·.par.length)).sum
def Circ.activeQudits (c : Circ) : List Nat :=
  (List.range c.numQudits).filter (fun q => c.ops.any (·.on q))
def pairsOf : List Nat → List (Nat × Nat)
  | [] => []
  | x :: xs => xs.map (fun y => (min x y, max x y)) ++ pairsOf xs
def Circ.coupling (c : Circ) : List (Nat × Nat) := dedupPts (c.ops.flatMap (fun o => pairsOf o.loc))
def Circ.depth (c : Circ) : Nat :=
  let d := c.iter.foldl (fun (d : List Nat) o =>
    let m := (o.loc.map (d.getD · 0)).foldl max 0 + 1
    o.loc.foldl (fun d q => d.set q m) d) (List.replicate c.numQudits 0)
  d.foldl max 0
def Circ.gateCount (c : Circ) (gid : Nat) : Nat := (c.ops.filter (·.gid == gid)).length

/-! ## the heap-ordered Kahn walk of `CircuitDagIterator` -/
def insertPt (x : Nat × Nat) : List (Nat × Nat) → List (Nat × Nat)
  | [] => [x]
  | y :: ys => if x.1 < y.1 || (x.1 == y.1 && x.2 ≤ y.2) then x :: y :: ys else y :: insertPt x ys

structure KState where
  frontier : List (Nat × Nat)          -- kept sorted: the heap
  counts : List ((Nat × Nat) × Nat)    -- prev_binned_counts
  out : List (Nat × Op)

def kCount (cs : List ((Nat × Nat) × Nat)) (p : Nat × Nat) : Nat :=
  match cs.find? (·.1 == p) with
  | some x => x.2
  | none => 0
def kBump (cs : List ((Nat × Nat) × Nat)) (p : Nat × Nat) : List ((Nat × Nat) × Nat) :=
  if cs.any (·.1 == p) then cs.map (fun x => if x.1 == p then (x.1, x.2 + 1) else x)
  else cs ++ [(p, 1)]

def Circ.kahnLoop (c : Circ) : Nat → KState → List (Nat × Op)
  | 0, s => s.out
  | fuel + 1, s =>
    match s.frontier with
    | [] => s.out
    | p :: rest =>
      match c.cell p.1 p.2 with
      | none => s.out
      | some o =>
        let s1 : KState := { s with frontier := rest }
        let s2 := (c.next p.1 o).foldl (fun (s : KState) succ =>
          let cs := kBump s.counts succ
          let total := match c.cell succ.1 succ.2 with
            | some so => (c.prev succ.1 so).length
            | none => 0
          if kCount cs succ == total then { s with counts := cs, frontier := insertPt succ s.frontier }
          else { s with counts := cs }) s1
        c.kahnLoop fuel { s2 with out := s2.out ++ [(p.1, o)] }

def Circ.iterKahn (c : Circ) : List (Nat × Op) :=
  c.kahnLoop (c.numOps + 1) ⟨c.front.foldr insertPt [], [], []⟩

/-! ## `remove_all`, `get_slice` (added for the round-3 theorems; not used by the driver) -/

/-- the points `(cycle, location[0])` of all operations satisfying `pred`, in iteration order -/
def Circ.pointsOf (c : Circ) (pred : Op → Bool) : List (Int × Int) :=
  c.iterCyc.filterMap (fun (k, o) => if pred o then some ((k : Int), (o.head : Int)) else none)

/-- `remove_all(x)`: every occurrence disappears.  The Python pops `point(x)` until none is left;
the harness replays it as ONE `batch_pop` of all matching points, which is this definition
(`pred` = "equals the operation" or "has the gate"); unchanged when nothing matches. -/
def Circ.removeAll (c : Circ) (pred : Op → Bool) : Circ :=
  if (c.pointsOf pred).isEmpty then c else (c.batchPop (c.pointsOf pred)).1

/-- the operations `get_slice` / `batch_pop` select at normalised points: those found, duplicates
collapsed, by cycle and then `location[0]` (the expression used inside `batchPop`) -/
def Circ.selected (c : Circ) (npts : List (Nat × Nat)) : List (Nat × Op) :=
  let found := npts.filterMap (fun (k, q) => (c.cell k q).map (fun o => (k, o)))
  let uniq := dedupOps found
  (List.range c.numCycles).flatMap (fun k =>
    sortBy Op.head ((uniq.filter (·.1 == k)).map (·.2)) |>.map (fun o => (k, o)))

/-- `get_slice(points)`: IndexError for a point out of range or when every point is idle -/
def Circ.getSlice (c : Circ) (pts : List (Int × Int)) : Except Err Circ :=
  if !(pts.all (fun p => c.cycleInRange p.1 && c.qubitInRange p.2)) then .error .index else
  let sel := c.selected (pts.map (fun p => (normIdx c.numCycles p.1, normIdx c.numQudits p.2)))
  if sel.isEmpty then .error .index else .ok (subCircuit c.radixes (sel.map (·.2)))

end BqVerif.Circ
