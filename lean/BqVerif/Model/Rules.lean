/-! C10 — rule rewrites: data of a rewrite rule, gate matrices over an arbitrary ring with named
constants, embedding on qubit locations and the ordered product of a rule's replacement circuit.

Everything is polymorphic in the number type `R` (only `0 1 + * -` are used), so the SAME definition
`evalRule` is
  * run by `bqdriver rules` over the exact cyclotomic field `Q16 = ℚ[ζ]/(ζ⁸+1)`, ζ = e^{iπ/8}
    (contains i = ζ⁴, √2 = ζ² − ζ⁶, cos π/8, sin π/8) and compared with numpy by the harness, and
  * the subject of the theorems of `Props/C10.lean` for every commutative ring with constants
    satisfying the defining equations (`Proofs/Rules.lean`).

Conventions follow bqskit: qudit 0 is the most significant digit of a matrix index; the circuit
`[op₁, …, op_k]` (op₁ applied first) denotes `E(op_k) ⬝ … ⬝ E(op₁)`. -/
namespace BqVerif.Rules

/-- Gate alphabet of the rule passes. `su2` is the generic single-qubit target of the parameterised
decompositions (no bqskit gate). -/
inductive G where
  | cx | cy | cz | ch | swap | h | s | sdg | x | y | z | t | tdg | sx
  | rx | ry | rz | u1 | u3 | su2
  | other (name : String)
  deriving DecidableEq, Repr

/-- A gate parameter of a rule: an exact multiple of π/4, the k-th free parameter of a parameterised
rule, or a value that is not an exact multiple of π/4 (nothing can be proved about it). -/
inductive Ang where
  | pi4 (k : Int)
  | var (i : Nat)
  | bad
  deriving DecidableEq, Repr

structure ROp where
  g : G
  loc : List Nat
  par : List Ang
  deriving DecidableEq, Repr

structure Rule where
  name : String
  n : Nat                -- width of the replacement circuit
  src : G                -- the gate the pass looks for
  srcLoc : List Nat      -- where the probe had it
  nvars : Nat
  ops : List ROp         -- replacement, first applied first
  deriving Repr

abbrev Mat (R : Type) := List (List R)

/-- The constants a number type must provide. `vc k`, `vs k` are cos and sin of HALF the k-th free
parameter. -/
structure Consts (R : Type) where
  i : R          -- imaginary unit
  h : R          -- 1/√2
  c8 : R         -- cos (π/8)
  s8 : R         -- sin (π/8)
  vc : Nat → R
  vs : Nat → R

section
variable {R : Type} [Zero R] [One R] [Add R] [Mul R] [Neg R]

def dot (a b : List R) : R := (List.zipWith (· * ·) a b).foldr (· + ·) 0
def col (B : Mat R) (j : Nat) : List R := B.map (fun r => r.getD j 0)
def width (B : Mat R) : Nat := (B.headD []).length
def mmul (A B : Mat R) : Mat R :=
  A.map fun row => (List.range (width B)).map fun j => dot row (col B j)
def ident (n : Nat) : Mat R :=
  (List.range n).map fun r => (List.range n).map fun c => if r = c then 1 else 0
def smul (a : R) (A : Mat R) : Mat R := A.map (·.map (a * ·))
def entry (A : Mat R) (r c : Nat) : R := (A.getD r []).getD c 0

/-- cos and sin of `k·π/8` (half of the parameter `k·π/4`). -/
def halfCS (K : Consts R) (k : Int) : R × R :=
  match k % 16 with
  | 0 => (1, 0)
  | 1 => (K.c8, K.s8)
  | 2 => (K.h, K.h)
  | 3 => (K.s8, K.c8)
  | 4 => (0, 1)
  | 5 => (-K.s8, K.c8)
  | 6 => (-K.h, K.h)
  | 7 => (-K.c8, K.s8)
  | 8 => (-1, 0)
  | 9 => (-K.c8, -K.s8)
  | 10 => (-K.h, -K.h)
  | 11 => (-K.s8, -K.c8)
  | 12 => (0, -1)
  | 13 => (K.s8, -K.c8)
  | 14 => (K.h, -K.h)
  | _ => (K.c8, -K.s8)

/-- (cos θ/2, sin θ/2) of a rule parameter; `none` for `Ang.bad`. -/
def angCS (K : Consts R) : Ang → Option (R × R)
  | .pi4 k => some (halfCS K k)
  | .var j => some (K.vc j, K.vs j)
  | .bad => none

/-- The matrix of a library gate given the half-angle points of its parameters (bqskit's
`get_unitary`, transcribed from `bqskit/ir/gates/{constant,parameterized}/*.py`). -/
def gateMatCS (K : Consts R) : G → List (R × R) → Option (Mat R)
  | .cx, [] => some [[1, 0, 0, 0], [0, 1, 0, 0], [0, 0, 0, 1], [0, 0, 1, 0]]
  | .cy, [] => some [[1, 0, 0, 0], [0, 1, 0, 0], [0, 0, 0, -K.i], [0, 0, K.i, 0]]
  | .cz, [] => some [[1, 0, 0, 0], [0, 1, 0, 0], [0, 0, 1, 0], [0, 0, 0, -1]]
  | .ch, [] => some [[1, 0, 0, 0], [0, 1, 0, 0], [0, 0, K.h, K.h], [0, 0, K.h, -K.h]]
  | .swap, [] => some [[1, 0, 0, 0], [0, 0, 1, 0], [0, 1, 0, 0], [0, 0, 0, 1]]
  | .h, [] => some [[K.h, K.h], [K.h, -K.h]]
  | .s, [] => some [[1, 0], [0, K.i]]
  | .sdg, [] => some [[1, 0], [0, -K.i]]
  | .x, [] => some [[0, 1], [1, 0]]
  | .y, [] => some [[0, -K.i], [K.i, 0]]
  | .z, [] => some [[1, 0], [0, -1]]
  | .t, [] => some [[1, 0], [0, K.h + K.i * K.h]]
  | .tdg, [] => some [[1, 0], [0, K.h + -(K.i * K.h)]]
  | .sx, [] => some [[K.h * K.h * (1 + K.i), K.h * K.h * (1 + -K.i)],
                     [K.h * K.h * (1 + -K.i), K.h * K.h * (1 + K.i)]]
  | .rx, [(c, s)] => some [[c, -(K.i * s)], [-(K.i * s), c]]
  | .ry, [(c, s)] => some [[c, -s], [s, c]]
  | .rz, [(c, s)] => some [[c + -(K.i * s), 0], [0, c + K.i * s]]
  | .u1, [(c, s)] => some [[1, 0], [0, (c + K.i * s) * (c + K.i * s)]]
  | .u3, [(ct, st), (cp, sp), (cl, sl)] =>
      let ep := (cp + K.i * sp) * (cp + K.i * sp)
      let el := (cl + K.i * sl) * (cl + K.i * sl)
      some [[ct, -(el * st)], [ep * st, ep * el * ct]]
  | _, _ => none

def gateMat (K : Consts R) (g : G) (par : List Ang) : Option (Mat R) :=
  (par.mapM (angCS K)).bind (gateMatCS K g)

/-- Bit of qubit `q` (0 = most significant) in the index `x` of an `n`-qubit matrix. -/
def bit (n q x : Nat) : Nat := (x / 2 ^ (n - 1 - q)) % 2
/-- Index into the gate's own matrix: the bits of `x` at `loc`, `loc[0]` most significant. -/
def subIdx (n : Nat) (loc : List Nat) (x : Nat) : Nat := loc.foldl (fun a q => 2 * a + bit n q x) 0
def agree (n : Nat) (loc : List Nat) (r c : Nat) : Bool :=
  (List.range n).all fun q => loc.contains q || bit n q r == bit n q c

/-- `M` acting on the qubits `loc` of an `n`-qubit register, identity elsewhere. -/
def embed (n : Nat) (loc : List Nat) (M : Mat R) : Mat R :=
  (List.range (2 ^ n)).map fun r => (List.range (2 ^ n)).map fun c =>
    if agree n loc r c then entry M (subIdx n loc r) (subIdx n loc c) else 0

def locOk (n : Nat) (loc : List Nat) (M : Mat R) : Bool :=
  loc.all (· < n) && loc.eraseDups.length == loc.length && M.length == 2 ^ loc.length

def opMat (K : Consts R) (n : Nat) (o : ROp) : Option (Mat R) :=
  match gateMat K o.g o.par with
  | some M => if locOk n o.loc M then some (embed n o.loc M) else none
  | none => none

/-- Ordered product of a list of operations (first op applied first = rightmost factor). -/
def evalOps (K : Consts R) (n : Nat) : List ROp → Option (Mat R)
  | [] => some (ident (2 ^ n))
  | o :: rest =>
    match opMat K n o, evalOps K n rest with
    | some E, some U => some (mmul U E)
    | _, _ => none

def evalRule (K : Consts R) (r : Rule) : Option (Mat R) := evalOps K r.n r.ops

/-- The gate the rule replaces, on the probe location (only for fixed rules: no parameters). -/
def srcMat (K : Consts R) (r : Rule) : Option (Mat R) := opMat K r.n ⟨r.src, r.srcLoc, []⟩

/-- General element of SU(2) written with A = a₁ + i a₂ = e^{i·arg u₁₁}, B = e^{i·arg u₁₀},
c = |u₀₀|, s = |u₁₀|:  [[Ā c, −B̄ s], [B s, A c]]. -/
def su2Mat (K : Consts R) (a1 a2 b1 b2 c s : R) : Mat R :=
  [[(a1 + -(K.i * a2)) * c, -((b1 + -(K.i * b2)) * s)],
   [(b1 + K.i * b2) * s, (a1 + K.i * a2) * c]]

end

/-! ### Exact numbers for running the model: ℚ[ζ]/(ζ⁸+1), ζ = e^{iπ/8}. -/

structure Q16 where
  co : List Rat     -- 8 coefficients of 1, ζ, …, ζ⁷
  deriving DecidableEq, Repr

namespace Q16
def norm (l : List Rat) : List Rat := (List.range 8).map fun k => l.getD k 0
def ofList (l : List Rat) : Q16 := ⟨norm l⟩
def mono (k : Nat) (a : Rat) : Q16 := ⟨(List.range 8).map fun j => if j = k then a else 0⟩
instance : Zero Q16 := ⟨⟨List.replicate 8 0⟩⟩
instance : One Q16 := ⟨mono 0 1⟩
instance : Add Q16 := ⟨fun a b => ⟨(List.range 8).map fun k => a.co.getD k 0 + b.co.getD k 0⟩⟩
instance : Neg Q16 := ⟨fun a => ⟨(List.range 8).map fun k => - a.co.getD k 0⟩⟩
/-- ζ^j · ζ^k = ζ^{j+k}, with ζ⁸ = −1. -/
instance : Mul Q16 := ⟨fun a b => ⟨(List.range 8).map fun m =>
  (List.range 8).foldl (fun acc j =>
    let x := a.co.getD j 0
    let lo := if j ≤ m then x * b.co.getD (m - j) 0 else 0
    let hi := if m + 8 - j < 8 then x * b.co.getD (m + 8 - j) 0 else 0
    acc + lo - hi) 0⟩⟩
def half : Rat := 1 / 2
/-- The constants: i = ζ⁴, 1/√2 = (ζ² − ζ⁶)/2, cos π/8 = (ζ − ζ⁷)/2, sin π/8 = (ζ³ − ζ⁵)/2
(sin π/8 = (ζ − ζ⁻¹)/(2i) = −i(ζ + ζ⁷)/2 = (−ζ⁵ − ζ¹¹)/2 = (ζ³ − ζ⁵)/2). -/
def consts (vc vs : Nat → Q16) : Consts Q16 :=
  { i := mono 4 1
    h := ofList [0, 0, half, 0, 0, 0, -half, 0]
    c8 := ofList [0, half, 0, 0, 0, 0, 0, -half]
    s8 := ofList [0, 0, 0, half, 0, -half, 0, 0]
    vc := vc, vs := vs }
def ofRat (a : Rat) : Q16 := mono 0 a
end Q16

end BqVerif.Rules
