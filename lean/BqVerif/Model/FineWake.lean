/-!
# Fine-grained (source-line) model of `Worker._process_await` ∥ `Worker._handle_result`

Two threads of one worker share the mailboxes, the awaiting task's flags and the ready queue.
Each source statement of `_process_await` (main thread) and `_handle_result` (incoming thread)
that reads or writes shared state is one step; everything else the main thread does
(`_get_next_ready_task`, `_get_desired_result`, the coroutine step up to the next `await`)
is one atomic step (`loop`).  Scenario: one task awaiting two single-result futures `f0`, `f1`
(mailboxes 0 and 1) in this order; the incoming thread delivers the result of `f0`, then the
result of `f1`.

The statements (the harness checks with an AST query that these are the statements of the live
source, in this order, and which of them are inside `with self._mailbox_mutex:`):

    _process_await                                         _handle_result
    pa 0  if future.mailbox_id not in self._mailboxes      hr 0  if mailbox_id not in self._mailboxes: return
    pa 1  box = self._mailboxes[future.mailbox_id]         hr 1  box = self._mailboxes[mailbox_id]
    pa 2  box.dest_addr = task.return_address              hr 2  box.deposit_result(result)
    pa 3  task.desired_box_id = future.mailbox_id          hr 3  if box.has_task_waiting:
    pa 4  task.wake_on_next = future._next_flag            hr 4  task = self._tasks[box.dest_addr]
    pa 5  if box.ready: self._ready_task_ids.put(...)      hr 5  if task.wake_on_next or box.ready:
                                                           hr 6  self._ready_task_ids.put(box.dest_addr)
                                                           hr 7  box.dest_addr = None

`lk = true` is **the code as it is** (since the maintainer's mailbox-mutex fix): both statement
sequences run under `self._mailbox_mutex`; acquiring is a step of its own (a thread that wants
the lock while the other holds it does not move), the release is part of the last statement.
`lk = false` is the **pre-fix variant** (no lock), kept for the regression example only.
-/
namespace BqVerif.FineWake

structure FBox where
  present : Bool := true      -- id in self._mailboxes
  num : Nat := 0              -- num_results (expected_num_results = 1)
  dest : Bool := false        -- dest_addr is the task's address
deriving DecidableEq, Repr

def FBox.ready (b : FBox) : Bool := decide (1 ≤ b.num)

/-- program counter of the main thread -/
inductive MainPc where
  | pa (line : Nat) (m : Nat)   -- in `_process_await` for mailbox m, about to run statement 0..5
  | loop (awaited : Nat)        -- in `_loop`, about to call `_try_step_next_ready_task` (blocked in
                                -- `_ready_task_ids.get()` while the queue is empty); the task's
                                -- await of future `awaited` is registered
  | failed                      -- an exception left task code: `assert box.ready` (AssertionError) or
                                -- 'Cannot await on a canceled task.' - sent as ERROR
  | finished
deriving DecidableEq, Repr

/-- program counter of the incoming thread -/
inductive InPc where
  | hr (line : Nat) (m : Nat)   -- in `_handle_result` for mailbox m, about to run statement 0..7
  | crashed                     -- KeyError in the incoming thread
  | done
deriving DecidableEq, Repr

inductive Holder where
  | free
  | mainT
  | incT
deriving DecidableEq, Repr

structure FState where
  box0 : FBox := {}
  box1 : FBox := {}
  desired : Option Nat := none  -- task.desired_box_id
  wakeNext : Bool := false      -- task.wake_on_next
  ready : Nat := 0              -- occurrences of the task's address in _ready_task_ids
  maxReady : Nat := 0           -- ghost: the largest value `ready` ever had
  main : MainPc := .pa 0 0      -- the task's first step ran the body up to `await f0`
  inc : InPc := .hr 0 0
  lock : Holder := .free        -- self._mailbox_mutex (stays `free` in the pre-fix variant)
deriving DecidableEq, Repr

def FState.box (s : FState) (m : Nat) : FBox := if m = 0 then s.box0 else s.box1
def FState.setBox (s : FState) (m : Nat) (b : FBox) : FState :=
  if m = 0 then { s with box0 := b } else { s with box1 := b }
def FState.put (s : FState) : FState :=
  { s with ready := s.ready + 1, maxReady := max s.maxReady (s.ready + 1) }
/-- leaving the `with` block -/
def FState.release (lk : Bool) (s : FState) : FState := if lk then { s with lock := .free } else s

/-- one step of the main thread -/
def stepMain (lk : Bool) (s : FState) : FState :=
  match s.main with
  | .pa 0 m =>
    if lk && s.lock != .mainT then
      -- with self._mailbox_mutex:
      if s.lock = .incT then s else { s with lock := .mainT }
    else if (s.box m).present then { s with main := .pa 1 m }
    else ({ s with main := .failed }).release lk       -- raise RuntimeError('Cannot await …')
  | .pa 1 m => { s with main := .pa 2 m }
  | .pa 2 m => { (s.setBox m { s.box m with dest := true }) with main := .pa 3 m }
  | .pa 3 m => { s with desired := some m, main := .pa 4 m }
  | .pa 4 m => { s with wakeNext := false, main := .pa 5 m }
  | .pa 5 m =>
    let s1 := if (s.box m).ready then s.put else s
    ({ s1 with main := .loop m }).release lk
  | .pa _ _ => s
  | .loop k =>
    if s.ready = 0 then s            -- blocked in get()
    else
      -- pop; `_get_desired_result`
      let s1 := { s with ready := s.ready - 1 }
      match s1.desired with
      | none => { s1 with main := .failed }
      | some m =>
        if !(s1.box m).present then { s1 with main := .failed }     -- KeyError (dropped mailbox)
        else if !(s1.box m).ready then { s1 with main := .failed }  -- assert box.ready
        else
          -- owned_mailboxes.remove, self._mailboxes.pop; task.step() resets the flags and the
          -- body runs to its next await
          let s2 := (s1.setBox m { s1.box m with present := false })
          let s3 := { s2 with desired := none, wakeNext := false }
          if k = 0 then { s3 with main := .pa 0 1 } else { s3 with main := .finished }
  | .failed => s
  | .finished => s

/-- `_handle_result` returns: the incoming thread goes on with the next message -/
def FState.endHr (lk : Bool) (s : FState) (m : Nat) : FState :=
  ({ s with inc := if m = 0 then .hr 0 1 else .done }).release lk

/-- one step of the incoming thread -/
def stepInc (lk : Bool) (s : FState) : FState :=
  match s.inc with
  | .hr 0 m =>
    if lk && s.lock != .incT then
      if s.lock = .mainT then s else { s with lock := .incT }
    else if (s.box m).present then { s with inc := .hr 1 m } else s.endHr lk m
  | .hr 1 m => if (s.box m).present then { s with inc := .hr 2 m }
               else ({ s with inc := .crashed }).release lk
  | .hr 2 m => { (s.setBox m { s.box m with num := (s.box m).num + 1 }) with inc := .hr 3 m }
  | .hr 3 m => if (s.box m).dest then { s with inc := .hr 4 m } else s.endHr lk m
  | .hr 4 m => { s with inc := .hr 5 m }
  | .hr 5 m => if s.wakeNext || (s.box m).ready then { s with inc := .hr 6 m } else s.endHr lk m
  | .hr 6 m => { s.put with inc := .hr 7 m }
  | .hr 7 m => (s.setBox m { s.box m with dest := false }).endHr lk m
  | .hr _ _ => s
  | .crashed => s
  | .done => s

def step (lk : Bool) (s : FState) (b : Bool) : FState := if b then stepMain lk s else stepInc lk s

/-- a schedule: `true` = the main thread runs its next step, `false` = the incoming thread -/
def run (lk : Bool) (s : FState) : List Bool → FState
  | [] => s
  | b :: t => run lk (step lk s b) t

/-- the code as it is -/
abbrev runL := run true

/-- REGRESSION (pre-fix variant only): the interleaving of the repaired finding - the incoming
    thread handles the result of `f0` right after `box.dest_addr = task.return_address` -/
def raceSchedule : List Bool :=
  [true, true, true] ++ List.replicate 8 false ++ [true, true, true]   -- rest of _process_await
  ++ [true]                                                              -- first wake: consumes f0, awaits f1
  ++ List.replicate 6 true                                               -- _process_await(f1): not ready
  ++ [true]                                                              -- stale second wake

def addNew (seen : List FState) (xs : List FState) : List FState × List FState :=
  xs.foldl (fun (acc : List FState × List FState) x =>
    if acc.1.contains x then acc else (acc.1 ++ [x], acc.2 ++ [x])) (seen, [])

/-- breadth-first closure of a set of states under both step functions (frontier-wise) -/
def closure (lk : Bool) : Nat → List FState → List FState → List FState
  | 0, seen, _ => seen
  | fuel + 1, seen, frontier =>
    match frontier with
    | [] => seen
    | _ =>
      let r := addNew seen (frontier.flatMap (fun x => [stepMain lk x, stepInc lk x]))
      closure lk fuel r.1 r.2

/-- the states the code as it is can reach -/
def reach : List FState := closure true 200 [{}] [{}]

/-- a fair completion: both threads get enough steps, repeatedly -/
def completion : List Bool :=
  (List.replicate 4 (List.replicate 20 false ++ List.replicate 20 true)).flatten

end BqVerif.FineWake
