/-!
# Fine-grained (source-line) model of `Worker._process_await` ∥ `Worker._handle_result`

Two threads of one worker share a mailbox, the awaiting task's flags and the ready queue.
Each source line of `_process_await` (main thread) and `_handle_result` (incoming thread)
that reads or writes shared state is one step; everything else the main thread does
(`_get_next_ready_task`, `_get_desired_result`, the coroutine step up to the next `await`)
is one atomic step.  Scenario: one task awaiting two single-result futures `f0`, `f1`
(mailboxes 0 and 1) in this order; the incoming thread delivers the result of `f0`.
-/
namespace BqVerif.FineWake

structure FBox where
  present : Bool := true      -- id in self._mailboxes
  num : Nat := 0              -- num_results (expected_num_results = 1)
  dest : Bool := false        -- dest_addr is the task's address
deriving DecidableEq, Repr

def FBox.ready (b : FBox) : Bool := decide (1 ≤ b.num)

/-- program counter of the main thread -/
inductive MainPc where
  | pa (line : Nat) (m : Nat)   -- in `_process_await` for mailbox m, about to run line 0..5
  | loop (awaited : Nat)        -- in `_loop`, about to call `_try_step_next_ready_task`;
                                -- `awaited` futures have been consumed so far
  | blocked (awaited : Nat)     -- blocked in `_ready_task_ids.get()`
  | failed                      -- `assert box.ready` raised: AssertionError sent as ERROR
  | finished
deriving DecidableEq, Repr

/-- program counter of the incoming thread inside `_handle_result` for mailbox 0 -/
inductive InPc where
  | hr (line : Nat)             -- about to run line 0..6
  | done
deriving DecidableEq, Repr

structure FState where
  box0 : FBox := {}
  box1 : FBox := {}
  desired : Option Nat := none  -- task.desired_box_id
  wakeNext : Bool := false      -- task.wake_on_next
  ready : Nat := 0              -- occurrences of the task's address in _ready_task_ids
  maxReady : Nat := 0           -- ghost: the largest value `ready` ever had
  main : MainPc := .pa 0 0      -- the task's first step ran the body up to `await f0`
  inc : InPc := .hr 0
deriving DecidableEq, Repr

def FState.box (s : FState) (m : Nat) : FBox := if m = 0 then s.box0 else s.box1
def FState.setBox (s : FState) (m : Nat) (b : FBox) : FState :=
  if m = 0 then { s with box0 := b } else { s with box1 := b }
def FState.put (s : FState) : FState :=
  { s with ready := s.ready + 1, maxReady := max s.maxReady (s.ready + 1) }

/-- one line of the main thread -/
def stepMain (s : FState) : FState :=
  match s.main with
  | .pa 0 m =>        -- if future.mailbox_id not in self._mailboxes: raise
    if (s.box m).present then { s with main := .pa 1 m } else { s with main := .failed }
  | .pa 1 m => { s with main := .pa 2 m }                                   -- box = self._mailboxes[...]
  | .pa 2 m => { (s.setBox m { s.box m with dest := true }) with main := .pa 3 m }   -- box.dest_addr = ...
  | .pa 3 m => { s with desired := some m, main := .pa 4 m }                -- task.desired_box_id = ...
  | .pa 4 m => { s with wakeNext := false, main := .pa 5 m }                -- task.wake_on_next = ...
  | .pa 5 m =>                                                              -- if box.ready: put
    let s1 := if (s.box m).ready then s.put else s
    { s1 with main := .loop (if m = 0 then 0 else 1) }
  | .pa _ _ => s
  | .loop k =>
    if s.ready = 0 then { s with main := .blocked k }
    else
      -- pop; `_get_desired_result`
      let s1 := { s with ready := s.ready - 1 }
      match s1.desired with
      | none => { s1 with main := .failed }
      | some m =>
        if !(s1.box m).ready then { s1 with main := .failed }      -- assert box.ready
        else
          -- owned_mailboxes.remove, self._mailboxes.pop; task.step() resets the flags and the
          -- body runs to its next await
          let s2 := (s1.setBox m { s1.box m with present := false })
          let s3 := { s2 with desired := none, wakeNext := false }
          if k = 0 then { s3 with main := .pa 0 1 } else { s3 with main := .finished }
  | .blocked k => if s.ready = 0 then s else { s with main := .loop k }
  | .failed => s
  | .finished => s

/-- one line of the incoming thread -/
def stepInc (s : FState) : FState :=
  match s.inc with
  | .hr 0 => if s.box0.present then { s with inc := .hr 1 } else { s with inc := .done }
  | .hr 1 => { s with box0 := { s.box0 with num := s.box0.num + 1 }, inc := .hr 2 }   -- deposit_result
  | .hr 2 => if s.box0.dest then { s with inc := .hr 3 } else { s with inc := .done } -- has_task_waiting
  | .hr 3 => { s with inc := .hr 4 }                                                   -- task = self._tasks[...]
  | .hr 4 => if s.wakeNext || s.box0.ready then { s with inc := .hr 5 } else { s with inc := .done }
  | .hr 5 => { s.put with inc := .hr 6 }                                               -- put(box.dest_addr)
  | .hr 6 => { s with box0 := { s.box0 with dest := false }, inc := .done }            -- box.dest_addr = None
  | .hr _ => s
  | .done => s

/-- a schedule: `true` = the main thread runs its next line, `false` = the incoming thread -/
def run (s : FState) : List Bool → FState
  | [] => s
  | true :: t => run (stepMain s) t
  | false :: t => run (stepInc s) t

/-- the interleaving the harness forces on the real `Worker` with `sys.settrace`:
    the incoming thread handles the result right after `box.dest_addr = task.return_address` -/
def raceSchedule : List Bool :=
  [true, true, true] ++ List.replicate 7 false ++ [true, true, true]   -- rest of _process_await
  ++ [true]                                                              -- first wake: consumes f0, awaits f1
  ++ List.replicate 6 true                                               -- _process_await(f1): not ready
  ++ [true]                                                              -- stale second wake

/-- `_process_await` not interrupted (what a lock around both functions enforces) -/
def atomicSchedule : List Bool :=
  List.replicate 6 true ++ List.replicate 7 false ++ List.replicate 9 true

end BqVerif.FineWake

namespace BqVerif.FineWake

/-! ## The same two threads with one lock around `_process_await` and `_handle_result`
    (the proposed patch): a thread that wants the lock while the other holds it does not move. -/

inductive Holder where
  | free
  | mainT
  | incT
deriving DecidableEq, Repr

structure LState where
  s : FState := {}
  lock : Holder := .free
deriving DecidableEq, Repr

def stepMainL (l : LState) : LState :=
  match l.s.main with
  | .pa 0 _ =>                                   -- acquire on entry
    if l.lock = .incT then l else { s := stepMain l.s, lock := .mainT }
  | .pa 5 _ => { s := stepMain l.s, lock := .free }     -- release after the last line
  | _ => { l with s := stepMain l.s }

def stepIncL (l : LState) : LState :=
  match l.s.inc with
  | .hr 0 =>
    if l.lock = .mainT then l
    else
      let s' := stepInc l.s
      { s := s', lock := if s'.inc = .done then .free else .incT }
  | .done => l
  | _ =>
    let s' := stepInc l.s
    { s := s', lock := if s'.inc = .done then .free else l.lock }

def runL (l : LState) : List Bool → LState
  | [] => l
  | true :: t => runL (stepMainL l) t
  | false :: t => runL (stepIncL l) t

def addNew (seen : List LState) (xs : List LState) : List LState :=
  xs.foldl (fun acc x => if acc.contains x then acc else acc ++ [x]) seen

/-- breadth-first closure of a set of states under both step functions -/
def closure : Nat → List LState → List LState
  | 0, seen => seen
  | fuel + 1, seen =>
    let next := addNew seen (seen.flatMap (fun x => [stepMainL x, stepIncL x]))
    if next.length = seen.length then seen else closure fuel next

def reach : List LState := closure 64 [{}]

end BqVerif.FineWake
