import BqVerif.Model.Gates
/-
CKMGate / CKMdgGate (`parameterized/ckm.py`, `ckmd.py`): the product `u1·u2·u3` of three
qutrit rotations, parameters `p0` (1-3 mixing), `p1` (1-2), `p2` (2-3), `p3` (CP phase), all
full-angle.  The gradient is the CORRECT product-rule gradient (the hand-written one in the
library is wrong in two / four of its matrices — finding 2 of design_notes/C18.md; the patch
proposed there makes the code agree with this model).
-/
namespace BqVerif.Gates

section defs
variable {α : Type} [Add α] [Mul α] [Neg α] [Sub α] [OfNat α 0] [OfNat α 1]

/-- `u1` (2-3 rotation, parameter `p2`) -/
def ckmU1 (c : Ang α) : M α
  | 0, 0 => 1 | 1, 1 => c.c | 1, 2 => c.s | 2, 1 => -c.s | 2, 2 => c.c | _, _ => 0
def ckmU1' (c : Ang α) : M α
  | 1, 1 => -c.s | 1, 2 => c.c | 2, 1 => -c.c | 2, 2 => -c.s | _, _ => 0
/-- `u2` (1-3 rotation with the CP phase, parameters `p0`, `p3`) -/
def ckmU2 (K : Consts α) (a d : Ang α) : M α
  | 0, 0 => a.c | 0, 2 => a.s * d.en K | 1, 1 => 1 | 2, 0 => -(a.s * d.e K) | 2, 2 => a.c | _, _ => 0
def ckmU2a (K : Consts α) (a d : Ang α) : M α
  | 0, 0 => -a.s | 0, 2 => a.c * d.en K | 2, 0 => -(a.c * d.e K) | 2, 2 => -a.s | _, _ => 0
def ckmU2d (K : Consts α) (a d : Ang α) : M α
  | 0, 2 => a.s * d.den K | 2, 0 => -(a.s * d.de K) | _, _ => 0
/-- `u3` (1-2 rotation, parameter `p1`) -/
def ckmU3 (b : Ang α) : M α
  | 0, 0 => b.c | 0, 1 => b.s | 1, 0 => -b.s | 1, 1 => b.c | 2, 2 => 1 | _, _ => 0
def ckmU3' (b : Ang α) : M α
  | 0, 0 => -b.s | 0, 1 => b.c | 1, 0 => -b.c | 1, 1 => -b.s | _, _ => 0

/-- `CKMGate.get_unitary`: `u1 @ u2 @ u3`; `a, b, c, d` = points of `p0, p1, p2, p3` -/
def ckm (K : Consts α) (a b c d : Ang α) : M α := mulM 3 (mulM 3 (ckmU1 c) (ckmU2 K a d)) (ckmU3 b)
def ckm_g0 (K : Consts α) (a b c d : Ang α) : M α := mulM 3 (mulM 3 (ckmU1 c) (ckmU2a K a d)) (ckmU3 b)
def ckm_g1 (K : Consts α) (a b c d : Ang α) : M α := mulM 3 (mulM 3 (ckmU1 c) (ckmU2 K a d)) (ckmU3' b)
def ckm_g2 (K : Consts α) (a b c d : Ang α) : M α := mulM 3 (mulM 3 (ckmU1' c) (ckmU2 K a d)) (ckmU3 b)
def ckm_g3 (K : Consts α) (a b c d : Ang α) : M α := mulM 3 (mulM 3 (ckmU1 c) (ckmU2d K a d)) (ckmU3 b)

def negM (A : M α) : M α := fun i j => -(A i j)

/-- `CKMdgGate.get_unitary`: the same product at the negated parameters -/
def ckmdg (K : Consts α) (a b c d : Ang α) : M α := ckm K a.neg b.neg c.neg d.neg

/-- families of this file, then those of `Gates.family` -/
def familyExt (K : Consts α) (name : String) (args : List Nat) : Option (GVal α) :=
  let p := angAt
  match name, args with
  | "CKMGate", [] => some (mkFam [3] 4 (fun ps => ckm K (p ps 0) (p ps 1) (p ps 2) (p ps 3))
      (fun ps => [ckm_g0 K (p ps 0) (p ps 1) (p ps 2) (p ps 3), ckm_g1 K (p ps 0) (p ps 1) (p ps 2) (p ps 3),
                  ckm_g2 K (p ps 0) (p ps 1) (p ps 2) (p ps 3), ckm_g3 K (p ps 0) (p ps 1) (p ps 2) (p ps 3)]))
  | "CKMdgGate", [] =>
    some (mkFam [3] 4 (fun ps => ckmdg K (p ps 0) (p ps 1) (p ps 2) (p ps 3))
      (fun ps =>
        let a := (p ps 0).neg; let b := (p ps 1).neg; let c := (p ps 2).neg; let d := (p ps 3).neg
        [negM (ckm_g0 K a b c d), negM (ckm_g1 K a b c d), negM (ckm_g2 K a b c d),
         negM (ckm_g3 K a b c d)]))
  | _, _ => family K name args

end defs
end BqVerif.Gates
