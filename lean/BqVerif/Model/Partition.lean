import BqVerif.Model.Circ
import BqVerif.Model.CircBlocks
/-
C08 — partitioning regroups operations without changing the program.

`validPartition` is the executable validator every real partitioner output is
sent through (DESIGN.md §4 C08): given the input circuit `c`, the pass output
`p`, the block size `k`, the table of block bodies and the gids of the
barrier-like gates (barrier | measurement | reset) it names the first clause
that fails.  `Props/C08.lean` proves what acceptance means.

`QuickSpec` (second half of the file) is the nondeterministic bin machine that
abstracts `QuickPartitioner.run`.

No imports besides Model files: the compiled driver links this file.
-/
namespace BqVerif.Partition
open BqVerif.Circ

/-- nesting depth the validator unfolds (a deeper nest is rejected, clause `depth`) -/
def fuel : Nat := 16

def isBlock (b : Blocks) (o : Op) : Bool := (b.body? o.gid).isSome
def barrierLike (bg : List Nat) (o : Op) : Bool := bg.contains o.gid

/-- full unfolding of an op list -/
def flat (b : Blocks) (l : List Op) : List Op := flattenOps b fuel l

def widest (l : List Op) : Nat := (l.map (·.loc.length)).foldl max 0

/-- a leaf op fits an `n`-qudit circuit -/
def opOk (n : Nat) (o : Op) : Bool := !o.loc.isEmpty && o.loc.all (· < n)

/-- a block op is consistent with its body: radixes and parameter count -/
def blockWF (b : Blocks) (o : Op) : Bool :=
  match b.body? o.gid with
  | none => true
  | some body => o.rad == body.radixes && o.par.length == (body.ops.map (·.par.length)).sum

/-- every body of the table is a well-formed circuit whose own block ops are consistent -/
def tableOk (b : Blocks) : Bool :=
  b.all (fun e => e.2.invB && e.2.ops.all (blockWF b))

/-- clause (2) for one top-level op: a block the pass formed spans at most `k` qudits or the
width of the widest operation inside it (blocks that already were operations of the input
are original operations, not new blocks) -/
def widthOk (b : Blocks) (k : Nat) (c : Circ) (o : Op) : Bool :=
  match b.body? o.gid with
  | none => true
  | some body => c.ops.contains o || decide (o.loc.length ≤ max k (widest body.ops))

/-- clause (4) for one top-level op: nothing barrier-like anywhere inside a block -/
def noBarrierInside (b : Blocks) (bg : List Nat) (o : Op) : Bool :=
  !isBlock b o || (flat b [o]).all (fun x => !barrierLike bg x)

/-- clause (1) for one top-level op; `strict = false` tolerates operations left unblocked
(ClusteringPartitioner, GroupSingleQuditGatePass, gates wider than the block size) -/
def topOk (b : Blocks) (bg : List Nat) (strict : Bool) (o : Op) : Bool :=
  isBlock b o || barrierLike bg o || !strict

/-- The validator.  `none` = accepted; `some clause` = first violated clause. -/
def validPartition (b : Blocks) (bg : List Nat) (strict : Bool) (c p : Circ) (k : Nat) :
    Option String :=
  let n := c.numQudits
  let fp := flat b p.ops
  let fc := flat b c.ops
  if p.radixes != c.radixes then some "radixes"
  else if !tableOk b then some "block-table"
  else if !(p.ops.all (blockWF b) && c.ops.all (blockWF b)) then some "block-op"
  else if fp.any (isBlock b) || fc.any (isBlock b) then some "depth"
  else if !(fp.all (opOk n) && fc.all (opOk n)) then some "locations"
  else if !p.ops.all (topOk b bg strict) then some "unblocked-op"            -- (1)
  else if !p.ops.all (widthOk b k c) then some "block-width"                   -- (2)
  else if !sameTimelines n fp fc then some "timelines"                       -- (3)
  else if !p.ops.all (noBarrierInside b bg) then some "barrier-in-block"     -- (4)
  else if !p.invB then some "inv"                                            -- (5)
  else none

/-! ## QuickSpec — the emission machine abstracting `QuickPartitioner.run`

The input is the operation list `l` in the circuit's iteration order, every operation
tagged with its position.  The state holds the not yet emitted operations `rem` (still
in input order) and the groups emitted so far, `out` (in emission order).  Moves:

* `emit tags blk` — a bin is placed on the output (`process_pending_bins`): the group is
  the remaining operations whose tag is in `tags`, in input order (`get_slice` sorts by
  cycle).  Legal iff the group is non-empty and *closed*: every remaining operation
  before a group member that shares a qudit with it is in the group too (this is what
  "all starts sit on the dividing line" has to guarantee).  `blk = false` is a
  `BarrierBin`: exactly one barrier-like operation, emitted bare; `blk = true`: no
  barrier-like operation, width at most `max k (widest member)`.
* `lift j m` — a previously placed group that is a *rear* operation of the output is taken
  out (`partitioned_circuit.pop(p)`) and put in front of the `m` groups already taken out
  for the bin being placed; legal iff no group it jumps over shares a qudit with it …
* `fuse` — … and merged with the group placed next (the "merge previously placed
  blocks" loop): the last two groups, both blocks, become one (contents concatenated).

How bins are chosen, closed and blocked (`can_accommodate`, `blocked_qudits`,
`dividing_line`) is heuristic and deliberately not part of the machine: the harness
records what the real pass did and the driver checks every recorded move is legal.
`Props/C08.lean` proves that every run that empties `rem` preserves every timeline. -/

structure TOp where
  tag : Nat
  op : Op
deriving DecidableEq, Repr

structure Group where
  ops : List TOp
  blk : Bool
deriving DecidableEq, Repr

structure QState where
  rem : List TOp
  out : List Group
deriving DecidableEq, Repr

inductive QMove
  | emit (tags : List Nat) (blk : Bool)
  | lift (j : Nat) (m : Nat)
  | fuse
deriving DecidableEq, Repr

def tagOps : Nat → List Op → List TOp
  | _, [] => []
  | i, o :: os => ⟨i, o⟩ :: tagOps (i + 1) os

def QState.init (l : List Op) : QState := ⟨tagOps 0 l, []⟩

def Group.qudits (g : Group) : List Nat := dedupNat (g.ops.flatMap (·.op.loc))
def groupWidthOk (k : Nat) (ops : List TOp) : Bool :=
  (dedupNat (ops.flatMap (·.op.loc))).length ≤ max k (widest (ops.map (·.op)))

/-- every element outside `tags` is disjoint from all later elements inside `tags` -/
def closedIn (tags : List Nat) : List TOp → Bool
  | [] => true
  | x :: t =>
    (tags.contains x.tag ||
      t.all (fun y => !tags.contains y.tag || disjointL x.op.loc y.op.loc)) && closedIn tags t

def groupDisjoint (g h : Group) : Bool :=
  g.ops.all (fun x => h.ops.all (fun y => disjointL x.op.loc y.op.loc))

/-- what a group may hold: a block holds no barrier-like operation and respects the width
bound; a `BarrierBin` holds exactly one barrier-like operation -/
def kindOk (bg : List Nat) (k : Nat) (blk : Bool) (g : List TOp) : Bool :=
  if blk then g.all (fun x => !barrierLike bg x.op) && groupWidthOk k g
  else match g with
    | [x] => barrierLike bg x.op
    | _ => false

def qEmit (bg : List Nat) (k : Nat) (s : QState) (tags : List Nat) (blk : Bool) : Option QState :=
  let g := s.rem.filter (fun x => tags.contains x.tag)
  if !g.isEmpty && closedIn tags s.rem && kindOk bg k blk g then
    some ⟨s.rem.filter (fun x => !tags.contains x.tag), s.out ++ [⟨g, blk⟩]⟩
  else none

def qLift (s : QState) (j m : Nat) : Option QState :=
  match s.out[j]? with
  | none => none
  | some r =>
    let tail := s.out.drop (j + 1)
    let keep := tail.length - m          -- the groups `r` jumps over
    if decide (m ≤ tail.length) && (tail.take keep).all (fun h => groupDisjoint r h) then
      some ⟨s.rem, s.out.take j ++ tail.take keep ++ r :: tail.drop keep⟩
    else none

def qFuse (k : Nat) (s : QState) : Option QState :=
  match s.out.reverse with
  | r2 :: r1 :: rest =>
    if r1.blk && r2.blk && groupWidthOk k (r1.ops ++ r2.ops) then
      some ⟨s.rem, rest.reverse ++ [⟨r1.ops ++ r2.ops, true⟩]⟩
    else none
  | _ => none

/-- one move; `none` = illegal -/
def qstep (bg : List Nat) (k : Nat) (s : QState) : QMove → Option QState
  | .emit tags blk => qEmit bg k s tags blk
  | .lift j m => qLift s j m
  | .fuse => qFuse k s

/-- run a list of moves; the index of the first illegal move on failure -/
def qrun (bg : List Nat) (k : Nat) : QState → List QMove → Nat → Except Nat QState
  | s, [], _ => .ok s
  | s, m :: ms, i =>
    match qstep bg k s m with
    | some s' => qrun bg k s' ms (i + 1)
    | none => .error i

def outOps (s : QState) : List Op := s.out.flatMap (fun g => g.ops.map (·.op))

end BqVerif.Partition
