import BqVerif.Model.Circ
import BqVerif.Model.CircBlocks
/-
C08 — partitioning regroups operations without changing the program.

`validPartition` is the executable validator every real partitioner output is
sent through (DESIGN.md §4 C08): given the input circuit `c`, the pass output
`p`, the block size `k`, the table of block bodies and the gids of the
barrier-like gates (barrier | measurement | reset) it names the first clause
that fails.  `Props/C08.lean` proves what acceptance means.

`QuickSpec` (second half of the file) is the nondeterministic bin machine that
abstracts `QuickPartitioner.run`.

No imports besides Model files: the compiled driver links this file.
-/
namespace BqVerif.Partition
open BqVerif.Circ

/-- nesting depth the validator unfolds (a deeper nest is rejected, clause `depth`) -/
def fuel : Nat := 16

def isBlock (b : Blocks) (o : Op) : Bool := (b.body? o.gid).isSome
def barrierLike (bg : List Nat) (o : Op) : Bool := bg.contains o.gid

/-- full unfolding of an op list -/
def flat (b : Blocks) (l : List Op) : List Op := flattenOps b fuel l

def widest (l : List Op) : Nat := (l.map (·.loc.length)).foldl max 0

/-- a leaf op fits an `n`-qudit circuit -/
def opOk (n : Nat) (o : Op) : Bool := !o.loc.isEmpty && o.loc.all (· < n)

/-- a block op is consistent with its body: radixes and parameter count -/
def blockWF (b : Blocks) (o : Op) : Bool :=
  match b.body? o.gid with
  | none => true
  | some body => o.rad == body.radixes && o.par.length == (body.ops.map (·.par.length)).sum

/-- every body of the table is a well-formed circuit whose own block ops are consistent -/
def tableOk (b : Blocks) : Bool :=
  b.all (fun e => e.2.invB && e.2.ops.all (blockWF b))

/-- clause (2) for one top-level op: a block the pass formed spans at most `k` qudits or the
width of the widest operation inside it (blocks that already were operations of the input
are original operations, not new blocks) -/
def widthOk (b : Blocks) (k : Nat) (c : Circ) (o : Op) : Bool :=
  match b.body? o.gid with
  | none => true
  | some body => c.ops.contains o || decide (o.loc.length ≤ max k (widest body.ops))

/-- clause (4) for one top-level op: nothing barrier-like anywhere inside a block -/
def noBarrierInside (b : Blocks) (bg : List Nat) (o : Op) : Bool :=
  !isBlock b o || (flat b [o]).all (fun x => !barrierLike bg x)

/-- clause (1) for one top-level op; `strict = false` tolerates operations left unblocked
(ClusteringPartitioner, GroupSingleQuditGatePass, gates wider than the block size) -/
def topOk (b : Blocks) (bg : List Nat) (strict : Bool) (o : Op) : Bool :=
  isBlock b o || barrierLike bg o || !strict

/-- The validator.  `none` = accepted; `some clause` = first violated clause. -/
def validPartition (b : Blocks) (bg : List Nat) (strict : Bool) (c p : Circ) (k : Nat) :
    Option String :=
  let n := c.numQudits
  let fp := flat b p.ops
  let fc := flat b c.ops
  if p.radixes != c.radixes then some "radixes"
  else if !tableOk b then some "block-table"
  else if !(p.ops.all (blockWF b) && c.ops.all (blockWF b)) then some "block-op"
  else if fp.any (isBlock b) || fc.any (isBlock b) then some "depth"
  else if !(fp.all (opOk n) && fc.all (opOk n)) then some "locations"
  else if !p.ops.all (topOk b bg strict) then some "unblocked-op"            -- (1)
  else if !p.ops.all (widthOk b k c) then some "block-width"                   -- (2)
  else if !sameTimelines n fp fc then some "timelines"                       -- (3)
  else if !p.ops.all (noBarrierInside b bg) then some "barrier-in-block"     -- (4)
  else if !p.invB then some "inv"                                            -- (5)
  else none

end BqVerif.Partition
