import BqVerif.Model.Pickle
/-!
C16 (strengthening round) — the gate table of `Circuit.__reduce__` is a DICTIONARY.

`Circuit._gate_info` and the local `gate_table` of `__reduce__` are Python dicts keyed by the
gate objects, i.e. by the gates' own `__hash__`/`__eq__`.  `Model/Pickle.lean` identifies
"the key of a gate" with the gate (`marshal` uses `List.idxOf` on `GateId`).  Here the key is a
parameter: `key : GateId → K` is what `__eq__`/`__hash__` look at.  Two gates with the same key
share one slot of `_gate_info` (the first one inserted stays the stored object) and one slot of
the pickled table, so every operation carrying the second gate is rebuilt with the first.

* `keyInsert` / `keyTable`: `_gate_info[gate] = …` for the gates in order of first use
  (`gate_set = _gate_info.keys()`).
* `keyIdx`: `gate_table[op.gate]` = the slot whose stored gate has the key of `op.gate`.
* `Circ.reduceKey`: `__reduce__` with that dictionary.
-/
namespace BqVerif.Circ

variable {K : Type} [DecidableEq K]

/-- `if gate not in d: d[gate] = …` — membership is decided by the key -/
def keyInsert (key : GateId → K) (tbl : List GateId) (g : GateId) : List GateId :=
  if tbl.any (fun e => key e == key g) then tbl else tbl ++ [g]

/-- the stored gates of `_gate_info` after the gates `gs` were added in this order -/
def keyTable (key : GateId → K) (gs : List GateId) : List GateId := gs.foldl (keyInsert key) []

/-- `gate_table[g]`: position of the slot whose key equals the key of `g` -/
def keyIdx (key : GateId → K) (tbl : List GateId) (g : GateId) : Nat :=
  tbl.findIdx (fun e => key e == key g)

def marshalKey (key : GateId → K) (tbl : List GateId) (o : Op) : MOp :=
  ⟨keyIdx key tbl o.gate, o.loc, o.par⟩

/-- the gates of a circuit in order of first use -/
def Circ.gates (c : Circ) : List GateId := c.ops.map Op.gate

/-- `Circuit.__reduce__` when gates are dictionary keys through `key` -/
def Circ.reduceKey (c : Circ) (key : GateId → K) (it : List (Nat × Op)) : Pickled :=
  { numQudits := c.numQudits, radixes := c.radixes, gates := keyTable key c.gates,
    cycles := groupRuns (it.map (fun x => (x.1, marshalKey key (keyTable key c.gates) x.2))) }

/-- the hypothesis: the key separates the gates that occur in the circuit -/
def Circ.KeyInj (c : Circ) (key : GateId → K) : Prop :=
  ∀ a ∈ c.gates, ∀ b ∈ c.gates, key a = key b → a = b

/-- the same as a Boolean (what the harness evaluates on every shipped circuit with the real
`__eq__` as key and an independent description of the gate as identity) -/
def Circ.keyInjB (c : Circ) (key : GateId → K) : Bool :=
  c.gates.all (fun a => c.gates.all (fun b => !(key a == key b) || a == b))

end BqVerif.Circ
